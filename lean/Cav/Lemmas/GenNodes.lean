/-
  General sweep invariant, part 1 (node heap): `nodeTriangulate` / `backTriangulate` never fail on
  a node heap all of whose links are in range (`NodesOk`); they change nothing but node links and
  the output, and keep every node point.  `chainAppend`, `chainSplit`, `chainMerge` as explicit
  array updates with the same guarantees.  No assumption on the shape of the chains.
-/
import Cav.Lemmas.CvxHeap
import Cav.Lemmas.SweepOut

set_option linter.unusedSimpArgs false
set_option linter.unusedVariables false
set_option linter.unusedSectionVars false

namespace Cav.GenNodes
open Cav Num Cav.Sweep Cav.SweepRun Cav.TriRun Cav.CvxHeap Cav.SweepOut

variable {α : Type} [Num α]

/-- an optional index is in range -/
def OLt (o : Option Nat) (n : Nat) : Prop := ∀ i, o = some i → i < n

@[simp] theorem oLt_none (n : Nat) : OLt none n := by intro i h; cases h
@[simp] theorem oLt_some (i n : Nat) : OLt (some i) n ↔ i < n :=
  ⟨fun h => h i rfl, fun h j hj => by cases hj; exact h⟩
theorem OLt.mono {o : Option Nat} {n m : Nat} (h : OLt o n) (hnm : n ≤ m) : OLt o m :=
  fun i hi => Nat.lt_of_lt_of_le (h i hi) hnm

/-- all links of the node heap are in range -/
def NodesOk (N : Array (Node α)) : Prop :=
  ∀ (i : Nat) (n : Node α), N[i]? = some n → OLt n.prev N.size ∧ OLt n.next N.size

theorem get_of_lt {β : Type} {a : Array β} {i : Nat} (h : i < a.size) : ∃ x, a[i]? = some x :=
  ⟨a[i], Array.getElem?_eq_getElem h⟩

theorem lt_of_get' {β : Type} {a : Array β} {i : Nat} {x : β} (h : a[i]? = some x) : i < a.size := by
  rcases Nat.lt_or_ge i a.size with h' | h'
  · exact h'
  · rw [Array.getElem?_eq_none h'] at h; cases h

theorem ptAt_set_same (a : Array (Node α)) (i : Nat) (n n' : Node α) (h : a[i]? = some n)
    (hp : n'.p = n.p) (j : Nat) : ptAt (a.setIfInBounds i n') j = ptAt a j :=
  (samePts_set a i n n' h hp).2 j

theorem nodesOk_set {N : Array (Node α)} (h : NodesOk N) (i : Nat) (n : Node α)
    (h1 : OLt n.prev N.size) (h2 : OLt n.next N.size) : NodesOk (N.setIfInBounds i n) := by
  intro j m hj
  rw [Array.size_setIfInBounds]
  by_cases hij : i = j
  · subst hij
    have hlt : i < N.size := by have := lt_of_get' hj; simpa using this
    rw [Array.getElem?_setIfInBounds_self_of_lt hlt] at hj
    cases hj
    exact ⟨h1, h2⟩
  · rw [Array.getElem?_setIfInBounds_ne hij] at hj
    exact h j m hj

/-- **`nodeTriangulate` never fails** on a node heap with links in range; it only re-links nodes
    and extends the output -/
theorem nt_ok (f : Nat) (bw : Bool) (fuel : Nat) : ∀ (s : St α), NodesOk s.nodes → f < s.nodes.size →
    ∃ N' out', (nodeTriangulate f bw fuel).run s = .ok ((), { s with nodes := N', out := out' }) ∧
      NodesOk N' ∧ N'.size = s.nodes.size ∧ ∀ i, ptAt N' i = ptAt s.nodes i := by
  induction fuel with
  | zero =>
    intro s hN hf
    exact ⟨s.nodes, s.out, rfl, hN, rfl, fun _ => rfl⟩
  | succ fuel ih =>
    intro s hN hf
    have stop : ∃ N' out', (Except.ok ((), s) : Except (SErr α) (Unit × St α)) =
        .ok ((), { s with nodes := N', out := out' }) ∧
        NodesOk N' ∧ N'.size = s.nodes.size ∧ ∀ i, ptAt N' i = ptAt s.nodes i :=
      ⟨s.nodes, s.out, rfl, hN, rfl, fun _ => rfl⟩
    -- the cut step, common to both directions
    have cutStep : ∀ (i1 i2 i3 : Nat) (n1 n2 n3 : Node α), s.nodes[i1]? = some n1 →
        s.nodes[i2]? = some n2 → s.nodes[i3]? = some n3 →
        ∃ N' out', (do
            let p1 := (← getNode i1).p
            let p2 := (← getNode i2).p
            let p3 := (← getNode i3).p
            if clockwiseSign p1 p2 p3 == .c then
              let n1 ← getNode i1
              setNode i1 ⟨n1.p, n1.prev, some i3⟩
              let n3 ← getNode i3
              setNode i3 { n3 with prev := some i1 }
              modify fun s => { s with out := sort3 p1 p2 p3 :: s.out }
              nodeTriangulate f bw fuel
            else pure () : SM α Unit).run s = .ok ((), { s with nodes := N', out := out' }) ∧
          NodesOk N' ∧ N'.size = s.nodes.size ∧ ∀ i, ptAt N' i = ptAt s.nodes i := by
      intro i1 i2 i3 n1 n2 n3 h1 h2 h3
      have l1 := lt_of_get' h1
      have l3 := lt_of_get' h3
      simp only [↓run_bind, run_pure, run_getNode, h1, h2, h3]
      by_cases hc : (clockwiseSign n1.p n2.p n3.p == .c) = true
      · simp only [hc, if_true, ↓run_bind, run_getNode, h1, run_setNode, run_modify]
        obtain ⟨m3, hm3⟩ : ∃ m3, (s.nodes.setIfInBounds i1 ⟨n1.p, n1.prev, some i3⟩)[i3]? = some m3 :=
          get_of_lt (by simpa using l3)
        have hm3p : m3.p = n3.p ∧ OLt m3.next s.nodes.size := by
          by_cases h13 : i1 = i3
          · subst h13
            rw [Array.getElem?_setIfInBounds_self_of_lt l1] at hm3
            cases hm3
            rw [h1] at h3; cases h3
            exact ⟨rfl, by simpa using l1⟩
          · rw [Array.getElem?_setIfInBounds_ne h13, h3] at hm3
            cases hm3
            exact ⟨rfl, (hN i3 n3 h3).2⟩
        simp only [hm3]
        have hN1 : NodesOk (s.nodes.setIfInBounds i1 ⟨n1.p, n1.prev, some i3⟩) :=
          nodesOk_set hN i1 _ (hN i1 n1 h1).1 (by simpa using l3)
        have hN2 : NodesOk ((s.nodes.setIfInBounds i1 ⟨n1.p, n1.prev, some i3⟩).setIfInBounds i3 ⟨m3.p, some i1, m3.next⟩) :=
          nodesOk_set hN1 i3 _ (by simpa using l1) (by simpa using hm3p.2)
        obtain ⟨N', out', hrun, hN', hsz, hpt⟩ := ih
          { s with nodes := (s.nodes.setIfInBounds i1 ⟨n1.p, n1.prev, some i3⟩).setIfInBounds i3 ⟨m3.p, some i1, m3.next⟩, out := sort3 n1.p n2.p n3.p :: s.out } hN2 (by simpa using hf)
        refine ⟨N', out', hrun, hN', by simpa using hsz, fun i => ?_⟩
        rw [hpt i]
        show ptAt ((s.nodes.setIfInBounds i1 _).setIfInBounds i3 _) i = _
        rw [ptAt_set_same _ i3 m3 ⟨m3.p, some i1, m3.next⟩ hm3 rfl, ptAt_set_same _ i1 n1 ⟨n1.p, n1.prev, some i3⟩ h1 rfl]
      · simp only [hc, Bool.false_eq_true, if_false, run_pure]
        exact stop
    obtain ⟨nf, hnf⟩ := get_of_lt hf
    rw [nodeTriangulate]
    cases bw
    · simp only [Bool.false_eq_true, if_false, ↓run_bind, run_getNode, hnf]
      cases hnx : nf.next with
      | none => simp only [run_pure]; exact stop
      | some i2 =>
        have l2 : i2 < s.nodes.size := (hN f nf hnf).2 i2 hnx
        obtain ⟨n2, hn2⟩ := get_of_lt l2
        simp only [↓run_bind, run_getNode, hn2]
        cases hnx2 : n2.next with
        | none => simp only [run_pure]; exact stop
        | some i3 =>
          have l3 : i3 < s.nodes.size := (hN i2 n2 hn2).2 i3 hnx2
          obtain ⟨n3, hn3⟩ := get_of_lt l3
          simp only [run_pure]
          exact cutStep f i2 i3 nf n2 n3 hnf hn2 hn3
    · simp only [if_true, ↓run_bind, run_getNode, hnf]
      cases hpv : nf.prev with
      | none => simp only [run_pure]; exact stop
      | some i2 =>
        have l2 : i2 < s.nodes.size := (hN f nf hnf).1 i2 hpv
        obtain ⟨n2, hn2⟩ := get_of_lt l2
        simp only [↓run_bind, run_getNode, hn2]
        cases hpv2 : n2.prev with
        | none => simp only [run_pure]; exact stop
        | some i1 =>
          have l1 : i1 < s.nodes.size := (hN i2 n2 hn2).1 i1 hpv2
          obtain ⟨n1, hn1⟩ := get_of_lt l1
          simp only [run_pure]
          exact cutStep i1 i2 f n1 n2 nf hn1 hn2 hnf


/-- `backTriangulate` never fails on a node heap with links in range -/
theorem bt_ok (c : Chain) (b : Bool) (s : St α) (hN : NodesOk s.nodes)
    (hc : (if b then c.tail else c.head) < s.nodes.size) :
    ∃ N' out', (backTriangulate c b).run s = .ok ((), { s with nodes := N', out := out' }) ∧
      NodesOk N' ∧ N'.size = s.nodes.size ∧ ∀ i, ptAt N' i = ptAt s.nodes i := by
  unfold backTriangulate nodeFuel
  simp only [↓run_bind, run_pure, run_get]
  exact nt_ok _ b _ s hN hc

/-! ### `chainAppend` -/

theorem ptAt_push_lt (N : Array (Node α)) (n : Node α) {i : Nat} (h : i < N.size) :
    ptAt (N.push n) i = ptAt N i := by
  unfold ptAt; rw [Array.getElem?_push_lt h, ← Array.getElem?_eq_getElem h]

theorem ptAt_push_size (N : Array (Node α)) (n : Node α) : ptAt (N.push n) N.size = some n.p := by
  unfold ptAt; rw [Array.getElem?_push_size]; rfl

theorem nodesOk_push {N : Array (Node α)} (h : NodesOk N) (n : Node α)
    (h1 : OLt n.prev (N.size + 1)) (h2 : OLt n.next (N.size + 1)) : NodesOk (N.push n) := by
  intro j m hj
  rw [Array.size_push]
  rcases Nat.lt_trichotomy j N.size with hlt | heq | hgt
  · rw [Array.getElem?_push_lt hlt] at hj
    have := h j m (by rw [Array.getElem?_eq_getElem hlt]; exact hj)
    exact ⟨this.1.mono (Nat.le_succ _), this.2.mono (Nat.le_succ _)⟩
  · subst heq
    rw [Array.getElem?_push_size] at hj
    cases hj
    exact ⟨h1, h2⟩
  · rw [Array.getElem?_eq_none (by simp; omega)] at hj; cases hj

theorem ptAt_some_lt {N : Array (Node α)} {i : Nat} {p : Pt α} (h : ptAt N i = some p) :
    i < N.size := by
  unfold ptAt at h
  cases hn : N[i]? with
  | none => rw [hn] at h; cases h
  | some n => exact lt_of_get' hn

/-- the node heap after `chainAppend` at the head -/
theorem appH_props {N : Array (Node α)} (hN : NodesOk N) {i : Nat} {h : Node α} (hi : N[i]? = some h)
    (p : Pt α) :
    NodesOk (appH N i h p) ∧ (appH N i h p).size = N.size + 1 ∧
      (∀ j, j < N.size → ptAt (appH N i h p) j = ptAt N j) ∧ ptAt (appH N i h p) N.size = some p := by
  have hlt := lt_of_get' hi
  have hne : i ≠ N.size := Nat.ne_of_lt hlt
  refine ⟨?_, size_appH N i h p, ?_, ?_⟩
  · unfold appH
    apply nodesOk_set
    · apply nodesOk_set
      · exact nodesOk_push hN _ (by simp) (by simp)
      · simp
      · simp; omega
    · simp
    · simp only [Array.size_setIfInBounds, Array.size_push]
      exact ((hN i h hi).2).mono (Nat.le_succ _)
  · intro j hj
    unfold appH
    have e1 : ((N.push ⟨p, none, none⟩).setIfInBounds N.size ⟨p, none, some i⟩)[i]? = some h := by
      rw [Array.getElem?_setIfInBounds_ne (Ne.symm hne), Array.getElem?_push_lt hlt,
        ← Array.getElem?_eq_getElem hlt]
      exact hi
    rw [ptAt_set_same _ i h ⟨h.p, some N.size, h.next⟩ e1 rfl,
      ptAt_set_same _ N.size ⟨p, none, none⟩ ⟨p, none, some i⟩ (Array.getElem?_push_size) rfl,
      ptAt_push_lt _ _ hj]
  · unfold ptAt
    rw [appH_new N i h p hlt]; rfl

/-- the node heap after `chainAppend` at the tail -/
theorem appT_props {N : Array (Node α)} (hN : NodesOk N) {i : Nat} {t : Node α} (hi : N[i]? = some t)
    (p : Pt α) :
    NodesOk (appT N i t p) ∧ (appT N i t p).size = N.size + 1 ∧
      (∀ j, j < N.size → ptAt (appT N i t p) j = ptAt N j) ∧ ptAt (appT N i t p) N.size = some p := by
  have hlt := lt_of_get' hi
  have hne : i ≠ N.size := Nat.ne_of_lt hlt
  refine ⟨?_, size_appT N i t p, ?_, ?_⟩
  · unfold appT
    apply nodesOk_set
    · apply nodesOk_set
      · exact nodesOk_push hN _ (by simp) (by simp)
      · simp; omega
      · simp
    · simp only [Array.size_setIfInBounds, Array.size_push]
      exact ((hN i t hi).1).mono (Nat.le_succ _)
    · simp
  · intro j hj
    unfold appT
    have e1 : ((N.push ⟨p, none, none⟩).setIfInBounds N.size ⟨p, some i, none⟩)[i]? = some t := by
      rw [Array.getElem?_setIfInBounds_ne (Ne.symm hne), Array.getElem?_push_lt hlt,
        ← Array.getElem?_eq_getElem hlt]
      exact hi
    rw [ptAt_set_same _ i t ⟨t.p, t.prev, some N.size⟩ e1 rfl,
      ptAt_set_same _ N.size ⟨p, none, none⟩ ⟨p, some i, none⟩ (Array.getElem?_push_size) rfl,
      ptAt_push_lt _ _ hj]
  · unfold ptAt
    rw [appT_new N i t p hlt]; rfl


/-! ### `chainMerge`, `chainSplit` -/

/-- re-linking one node keeps the heap well-formed and all points -/
theorem relink {A : Array (Node α)} (hA : NodesOk A) {i : Nat} {n n' : Node α} (hi : A[i]? = some n)
    (hp : n'.p = n.p) (h1 : OLt n'.prev A.size) (h2 : OLt n'.next A.size) :
    NodesOk (A.setIfInBounds i n') ∧ (A.setIfInBounds i n').size = A.size ∧
      ∀ j, ptAt (A.setIfInBounds i n') j = ptAt A j :=
  ⟨nodesOk_set hA i n' h1 h2, by simp, ptAt_set_same A i n n' hi hp⟩

theorem run_chainMerge (b t : Chain) (p : Pt α) (s : St α) (hN : NodesOk s.nodes)
    (hb : b.tail < s.nodes.size) (ht : t.head < s.nodes.size) :
    ∃ N', (chainMerge b t p).run s = .ok (⟨s.nodes.size, b.head, t.tail⟩, { s with nodes := N' }) ∧
      NodesOk N' ∧ N'.size = s.nodes.size + 1 ∧
      (∀ i, i < s.nodes.size → ptAt N' i = ptAt s.nodes i) ∧ ptAt N' s.nodes.size = some p := by
  have hA0 : NodesOk (s.nodes.push ⟨p, none, none⟩) := nodesOk_push hN _ (by simp) (by simp)
  have hs0 : (s.nodes.push (⟨p, none, none⟩ : Node α)).size = s.nodes.size + 1 := by simp
  obtain ⟨bt, hbt⟩ : ∃ bt, (s.nodes.push (⟨p, none, none⟩ : Node α))[b.tail]? = some bt :=
    get_of_lt (by rw [hs0]; omega)
  obtain ⟨hA1, hs1, hp1⟩ := relink hA0 hbt (n' := ⟨bt.p, bt.prev, some s.nodes.size⟩) rfl
    (hA0 _ _ hbt).1 (by simp)
  obtain ⟨n1, hn1⟩ : ∃ n1, ((s.nodes.push (⟨p, none, none⟩ : Node α)).setIfInBounds b.tail
      ⟨bt.p, bt.prev, some s.nodes.size⟩)[s.nodes.size]? = some n1 :=
    get_of_lt (by rw [hs1, hs0]; omega)
  obtain ⟨hA2, hs2, hp2⟩ := relink hA1 hn1 (n' := ⟨n1.p, some b.tail, n1.next⟩) rfl
    (by rw [hs1, hs0]; simp; omega) (hA1 _ _ hn1).2
  obtain ⟨th, hth⟩ : ∃ th, (((s.nodes.push (⟨p, none, none⟩ : Node α)).setIfInBounds b.tail
      ⟨bt.p, bt.prev, some s.nodes.size⟩).setIfInBounds s.nodes.size
      ⟨n1.p, some b.tail, n1.next⟩)[t.head]? = some th :=
    get_of_lt (by rw [hs2, hs1, hs0]; omega)
  obtain ⟨hA3, hs3, hp3⟩ := relink hA2 hth (n' := ⟨th.p, some s.nodes.size, th.next⟩) rfl
    (by rw [hs2, hs1, hs0]; simp) (hA2 _ _ hth).2
  obtain ⟨n2, hn2⟩ : ∃ n2, ((((s.nodes.push (⟨p, none, none⟩ : Node α)).setIfInBounds b.tail
      ⟨bt.p, bt.prev, some s.nodes.size⟩).setIfInBounds s.nodes.size
      ⟨n1.p, some b.tail, n1.next⟩).setIfInBounds t.head
      ⟨th.p, some s.nodes.size, th.next⟩)[s.nodes.size]? = some n2 :=
    get_of_lt (by rw [hs3, hs2, hs1, hs0]; omega)
  obtain ⟨hA4, hs4, hp4⟩ := relink hA3 hn2 (n' := ⟨n2.p, n2.prev, some t.head⟩) rfl
    (hA3 _ _ hn2).1 (by rw [hs3, hs2, hs1, hs0]; simp; omega)
  refine ⟨_, ?_, hA4, by rw [hs4, hs3, hs2, hs1, hs0], ?_, ?_⟩
  · unfold chainMerge
    simp only [↓run_bind, run_newNode, run_getNode, run_setNode, run_pure, hbt, hn1, hth, hn2]
  · intro i hi
    rw [hp4, hp3, hp2, hp1, ptAt_push_lt _ _ hi]
  · rw [hp4, hp3, hp2, hp1, ptAt_push_size]


theorem NodesOk.get_next {A : Array (Node α)} (hA : NodesOk A) {i : Nat} {n : Node α}
    (h : A[i]? = some n) : OLt n.next A.size := (hA i n h).2
theorem NodesOk.get_prev {A : Array (Node α)} (hA : NodesOk A) {i : Nat} {n : Node α}
    (h : A[i]? = some n) : OLt n.prev A.size := (hA i n h).1

theorem ptAt_of_get {A : Array (Node α)} {i : Nat} {n : Node α} (h : A[i]? = some n) :
    ptAt A i = some n.p := by unfold ptAt; rw [h]; rfl

/-- the last part of `chainSplit`: the new head `nt` of the upper chain in front of the copy `nd`
    (cell `n + 1`) of the old rightmost point -/
def splitTail (c : Chain) (p : Pt α) (n : Nat) : SM α (Chain × Chain) := do
  let nt ← newNode p
  let ndn ← getNode (n + 1)
  setNode (n + 1) { ndn with prev := some nt }
  let ntn ← getNode nt
  setNode nt { ntn with next := some (n + 1) }
  pure (⟨n, c.head, n⟩, ⟨nt, nt, if c.tail == c.rm then n + 1 else c.tail⟩)

theorem run_splitTail (c : Chain) (p : Pt α) (n : Nat) (s : St α) (B5 : Array (Node α))
    (hA5 : NodesOk B5) (hsB5 : B5.size = n + 2) :
    ∃ N', (splitTail c p n).run { s with nodes := B5 } =
        .ok ((⟨n, c.head, n⟩, ⟨n + 2, n + 2, if c.tail == c.rm then n + 1 else c.tail⟩),
          { s with nodes := N' }) ∧
      NodesOk N' ∧ N'.size = n + 3 ∧ (∀ i, i < n + 2 → ptAt N' i = ptAt B5 i) ∧
      ptAt N' (n + 2) = some p := by
  have hA6 : NodesOk (B5.push ⟨p, none, none⟩) := nodesOk_push hA5 _ (by simp) (by simp)
  have hs6 : (B5.push (⟨p, none, none⟩ : Node α)).size = n + 3 := by simp [hsB5]
  obtain ⟨ndn, hndn⟩ : ∃ ndn, (B5.push (⟨p, none, none⟩ : Node α))[n + 1]? = some ndn :=
    get_of_lt (by rw [hs6]; omega)
  obtain ⟨hA7, hs7, hp7⟩ := relink hA6 hndn (n' := ⟨ndn.p, some (n + 2), ndn.next⟩) rfl
    (by rw [hs6]; simp) (hA6.get_next (n := ndn) hndn)
  generalize hB7 : (B5.push (⟨p, none, none⟩ : Node α)).setIfInBounds (n + 1)
    ⟨ndn.p, some (n + 2), ndn.next⟩ = B7 at hA7 hs7 hp7
  obtain ⟨ntn, hntn⟩ : ∃ ntn, B7[n + 2]? = some ntn := get_of_lt (by rw [hs7, hs6]; omega)
  obtain ⟨hA8, hs8, hp8⟩ := relink hA7 hntn (n' := ⟨ntn.p, ntn.prev, some (n + 1)⟩) rfl
    (hA7.get_prev (n := ntn) hntn) (by rw [hs7, hs6]; simp)
  refine ⟨_, ?_, hA8, by rw [hs8, hs7, hs6], ?_, ?_⟩
  · unfold splitTail
    simp only [↓run_bind, run_newNode, run_getNode, run_setNode, run_pure, hsB5, hndn, hB7, hntn]
  · intro i hi
    rw [hp8, hp7, ptAt_push_lt _ _ (by rw [hsB5]; exact hi)]
  · rw [hp8, hp7, ← hsB5, ptAt_push_size]

theorem run_chainSplit (c : Chain) (p : Pt α) (s : St α) (hN : NodesOk s.nodes)
    (hrm : c.rm < s.nodes.size) :
    ∃ N', (chainSplit c p).run s =
        .ok ((⟨s.nodes.size, c.head, s.nodes.size⟩,
              ⟨s.nodes.size + 2, s.nodes.size + 2,
                if c.tail == c.rm then s.nodes.size + 1 else c.tail⟩), { s with nodes := N' }) ∧
      NodesOk N' ∧ N'.size = s.nodes.size + 3 ∧
      (∀ i, i < s.nodes.size → ptAt N' i = ptAt s.nodes i) ∧ ptAt N' s.nodes.size = some p ∧
      ptAt N' (s.nodes.size + 1) = ptAt s.nodes c.rm ∧ ptAt N' (s.nodes.size + 2) = some p := by
  -- nb
  have hA0 : NodesOk (s.nodes.push ⟨p, none, none⟩) := nodesOk_push hN _ (by simp) (by simp)
  have hs0 : (s.nodes.push (⟨p, none, none⟩ : Node α)).size = s.nodes.size + 1 := by simp
  have hg0 : (s.nodes.push (⟨p, none, none⟩ : Node α))[s.nodes.size]? = some ⟨p, none, none⟩ :=
    Array.getElem?_push_size
  obtain ⟨hA1, hs1, hp1⟩ := relink hA0 hg0 (n' := ⟨p, some c.rm, none⟩) rfl
    (by rw [hs0]; simp; omega) (by simp)
  generalize hB1 : (s.nodes.push (⟨p, none, none⟩ : Node α)).setIfInBounds s.nodes.size
    ⟨p, some c.rm, none⟩ = B1 at hA1 hs1 hp1
  obtain ⟨rmn, hrmn⟩ : ∃ rmn, B1[c.rm]? = some rmn := get_of_lt (by rw [hs1, hs0]; omega)
  have hrmpt : some rmn.p = ptAt s.nodes c.rm := by
    rw [← ptAt_of_get hrmn, hp1, ptAt_push_lt _ _ hrm]
  obtain ⟨hA2, hs2, hp2⟩ := relink hA1 hrmn (n' := ⟨rmn.p, rmn.prev, some s.nodes.size⟩) rfl
    (hA1.get_prev (n := rmn) hrmn) (by rw [hs1, hs0]; simp)
  generalize hB2 : B1.setIfInBounds c.rm ⟨rmn.p, rmn.prev, some s.nodes.size⟩ = B2 at hA2 hs2 hp2
  have hsB2 : B2.size = s.nodes.size + 1 := by rw [hs2, hs1, hs0]
  -- nd
  have hA3 : NodesOk (B2.push ⟨rmn.p, none, none⟩) := nodesOk_push hA2 _ (by simp) (by simp)
  have hs3 : (B2.push (⟨rmn.p, none, none⟩ : Node α)).size = s.nodes.size + 2 := by simp [hsB2]
  have hg3 : (B2.push (⟨rmn.p, none, none⟩ : Node α))[s.nodes.size + 1]? = some ⟨rmn.p, none, none⟩ := by
    rw [← hsB2]; exact Array.getElem?_push_size
  have hnx : OLt rmn.next (s.nodes.size + 2) := by
    have := hA1.get_next (n := rmn) hrmn
    rw [hs1, hs0] at this
    exact this.mono (by omega)
  obtain ⟨hA4, hs4, hp4⟩ := relink hA3 hg3 (n' := ⟨rmn.p, none, rmn.next⟩) rfl (by simp)
    (by rw [hs3]; exact hnx)
  generalize hB4 : (B2.push (⟨rmn.p, none, none⟩ : Node α)).setIfInBounds (s.nodes.size + 1)
    ⟨rmn.p, none, rmn.next⟩ = B4 at hA4 hs4 hp4
  have hsB4 : B4.size = s.nodes.size + 2 := by rw [hs4, hs3]
  have hpush2 : ∀ j, j < s.nodes.size + 1 → ptAt (B2.push (⟨rmn.p, none, none⟩ : Node α)) j = ptAt B2 j :=
    fun j hj => ptAt_push_lt _ _ (by rw [hsB2]; exact hj)
  have hold4 : ∀ i, i < s.nodes.size → ptAt B4 i = ptAt s.nodes i := by
    intro i hi
    rw [hp4, hpush2 i (by omega), hp2, hp1, ptAt_push_lt _ _ hi]
  have hnb4 : ptAt B4 s.nodes.size = some p := by
    rw [hp4, hpush2 _ (by omega), hp2, hp1, ptAt_push_size]
  have hnd4 : ptAt B4 (s.nodes.size + 1) = ptAt s.nodes c.rm := by
    rw [hp4, ← hsB2, ptAt_push_size]; exact hrmpt
  -- the node behind the old rightmost point, then the tail
  have fin : ∀ B5, NodesOk B5 → B5.size = s.nodes.size + 2 → (∀ j, ptAt B5 j = ptAt B4 j) →
      ∃ N', (splitTail c p s.nodes.size).run { s with nodes := B5 } =
        .ok ((⟨s.nodes.size, c.head, s.nodes.size⟩,
              ⟨s.nodes.size + 2, s.nodes.size + 2,
                if c.tail == c.rm then s.nodes.size + 1 else c.tail⟩), { s with nodes := N' }) ∧
      NodesOk N' ∧ N'.size = s.nodes.size + 3 ∧
      (∀ i, i < s.nodes.size → ptAt N' i = ptAt s.nodes i) ∧ ptAt N' s.nodes.size = some p ∧
      ptAt N' (s.nodes.size + 1) = ptAt s.nodes c.rm ∧ ptAt N' (s.nodes.size + 2) = some p := by
    intro B5 hA5 hsB5 hp5
    obtain ⟨N', hrun, hN', hsz', hpt', hnew'⟩ := run_splitTail c p s.nodes.size s B5 hA5 hsB5
    refine ⟨N', hrun, hN', hsz', ?_, ?_, ?_, hnew'⟩
    · intro i hi; rw [hpt' i (by omega), hp5, hold4 i hi]
    · rw [hpt' _ (by omega), hp5, hnb4]
    · rw [hpt' _ (by omega), hp5, hnd4]
  cases hnext : rmn.next with
  | none =>
    obtain ⟨N', hrun, hrest⟩ := fin B4 hA4 hsB4 (fun _ => rfl)
    refine ⟨N', ?_, hrest⟩
    rw [hnext] at hB4
    show Runs s _ _
    unfold chainSplit
    sm_bind
    sm_bind [hg0]
    sm_bind [hB1]
    sm_bind [hrmn]
    sm_bind [hB2]
    sm_bind
    sm_bind
    sm_bind [hnext]
    simp only [hnext, hsB2, hB4]
    sm_whnf
    exact hrun
  | some rn =>
    have hrn : rn < B4.size := by rw [hsB4]; exact hnx rn hnext
    obtain ⟨r, hr⟩ := get_of_lt hrn
    obtain ⟨h1, h2, h3⟩ := relink hA4 hr (n' := ⟨r.p, some (s.nodes.size + 1), r.next⟩) rfl
      (by rw [hsB4]; simp) (hA4.get_next (n := r) hr)
    obtain ⟨N', hrun, hrest⟩ := fin _ h1 (by rw [h2, hsB4]) h3
    refine ⟨N', ?_, hrest⟩
    rw [hnext] at hB4
    show Runs s _ _
    unfold chainSplit
    sm_bind
    sm_bind [hg0]
    sm_bind [hB1]
    sm_bind [hrmn]
    sm_bind [hB2]
    sm_bind
    sm_bind
    sm_bind [hnext]
    simp only [hnext, hsB2, hB4]
    sm_whnf
    sm_bind [hr]
    sm_bind
    exact hrun

end Cav.GenNodes
