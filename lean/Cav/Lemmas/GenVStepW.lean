/-
  Equal abscissae, part 15 (vertical edges): every event keeps `InvV`, vertical edges allowed
  (`stepW`).  Copies of the lemmas of `GenVStep*.lean` with the bridging lemmas of
  `GenVBridgeW.lean`, `GenVInvW.lean` and the heap-level lemmas of `GenVHeap*.lean`
  (`verticalIsCrossed` is executed and never fires).
-/
import Cav.Lemmas.GenVInvW
import Cav.Lemmas.GenVStepStart

set_option linter.unusedSimpArgs false
set_option linter.unusedVariables false

namespace Cav.GenVStepW
open Cav Num Cav.Geo Cav.Sweep Cav.TriRun Cav.QuadRun Cav.QuadGeom Cav.CvxFlows Cav.SweepOut
open Cav.GenNodes Cav.GenQuery Cav.GenGeom Cav.GenBend Cav.GenInv Cav.GenQueue Cav.GenOrder
open Cav.GenLinks Cav.GenStepBend Cav.GenStepEnd Cav.GenEnd Cav.TriGeom Cav.GenStart Cav.TriEvents
open Cav.GenStepStart Cav.GenStep Cav.GenVShear Cav.GenVBridge Cav.GenVInv Cav.GenVHeap Cav.GenVStep

variable {R : RingQ} {ε : Rat} {Vε : Array (Vtx XQ)}

theorem stepW_bend (hSh : ShOK R ε Vε) {s : St XQ} {xs X : Rat} {ivs : List IV}
    (hI : InvV R ε s xs X ivs)
    {w : Nat} {es : List Nat} {rest : List (Nat × List Nat)} (hev : s.events = (w, es) :: rest)
    {u w' : Nat} (hnb : (R.prv w = u ∧ R.nxt w = w') ∨ (R.prv w = w' ∧ R.nxt w = u))
    (hxu : (shearRing ε R).x u < (shearRing ε R).x w) (hxw' : (shearRing ε R).x w < (shearRing ε R).x w') :
    ∃ s', (handleNext : SM XQ Unit).run s = .ok ((), s') ∧
      ∃ ivs', InvV R ε s' ((shearRing ε R).x w) (R.x w) ivs' := by
  have hR := hSh.ring
  have hN := hSh.nocross
  have hq := hI.q
  rw [hev] at hq
  obtain ⟨F1, a0, F2, hE, hl0, hr0, hes, honly⟩ := bend_es hR hI.span hq hI.cross hnb hxu hxw'
  have ha0 : a0 ∈ flatE ivs := by rw [hE]; simp
  obtain ⟨pre, iv, post, hivs, hcase⟩ := mem_flatE ha0
  subst hivs
  subst hes
  clear hE F1 F2
  have hwq := hq.gt (w, [a0.id]) List.mem_cons_self
  have hwn : w < R.n := hwq.1
  have hw'n : w' < R.n := by
    rcases hnb with ⟨-, h⟩ | ⟨h, -⟩
    · rw [← h]; exact hR.nxt_lt w hwn
    · rw [← h]; exact hR.prv_lt w hwn
  have hadj : Adj R w w' := by
    rcases hnb with ⟨-, h⟩ | ⟨h, -⟩
    · exact Or.inl h
    · exact Or.inr h
  have hright := bend_right hR hnb hxu
  obtain ⟨hc1, hc2, hc3⟩ := Linked.mid hI.lk
  have hflat : flatE (pre ++ iv :: post) = flatE pre ++ iv.lo :: iv.hi :: flatE post := by simp
  have hnd : (flatE pre ++ iv.lo :: iv.hi :: flatE post).Nodup := by
    rw [← hflat]; exact nodup_of_pairwise_below hI.sorted
  obtain ⟨hlohi, hothers⟩ := nodup_mid hnd
  -- the model reads the ring
  have hv := hI.vget.2 w hwn
  have h1 := hI.vget.2 _ (hR.prv_lt w hwn)
  have h2 := hI.vget.2 _ (hR.nxt_lt w hwn)
  have hrp := hI.vget.2 w' hw'n
  have hun : u < R.n := by
    rcases hnb with ⟨e, -⟩ | ⟨-, e⟩
    · rw [← e]; exact hR.prv_lt w hwn
    · rw [← e]; exact hR.nxt_lt w hwn
  have hft := bendV_ft hSh hwn hun hw'n hnb hxu hxw'
  have hr := bendV_rlp hSh hun hw'n hnb (lt_trans hxu hxw')
  have hevs : ∀ a ∈ rest, a.1 < s.verts.size := by
    intro a ha
    rw [hI.vget.1]
    exact (hq.gt a (List.mem_cons_of_mem _ ha)).1
  have hidne : ∀ a ∈ flatE (pre ++ iv :: post), ∀ b ∈ flatE (pre ++ iv :: post), a ≠ b → a.id ≠ b.id :=
    fun a ha b hb hne e => hne (hq.idinj a ha b hb e)
  have hcine : ∀ j ∈ pre ++ post, j.ci ≠ iv.ci := by
    have := hI.cind
    rw [List.map_append, List.map_cons] at this
    intro j hj
    have hm : j.ci ∈ pre.map (·.ci) ++ post.map (·.ci) := by
      rw [← List.map_append]; exact List.mem_map_of_mem hj
    exact nodup_mid1 this _ hm
  have hlo_mem : iv.lo ∈ flatE (pre ++ iv :: post) := by rw [hflat]; simp
  have hhi_mem : iv.hi ∈ flatE (pre ++ iv :: post) := by rw [hflat]; simp
  have hjmem : ∀ j ∈ pre ++ post, j.lo ∈ flatE (pre ++ iv :: post) ∧ j.hi ∈ flatE (pre ++ iv :: post) ∧
      j.lo ∈ flatE pre ++ flatE post ∧ j.hi ∈ flatE pre ++ flatE post := by
    intro j hj
    have : j.lo ∈ flatE (pre ++ post) ∧ j.hi ∈ flatE (pre ++ post) := mem_flatE_of hj
    rw [flatE_append] at this
    refine ⟨?_, ?_, this.1, this.2⟩
    · rw [hflat]
      rcases List.mem_append.mp this.1 with h | h
      · exact List.mem_append_left _ h
      · exact List.mem_append_right _ (List.mem_cons_of_mem _ (List.mem_cons_of_mem _ h))
    · rw [hflat]
      rcases List.mem_append.mp this.2 with h | h
      · exact List.mem_append_left _ h
      · exact List.mem_append_right _ (List.mem_cons_of_mem _ (List.mem_cons_of_mem _ h))
  obtain ⟨c, hc, hrm, hh, ht⟩ := hc3
  rcases hcase with rfl | rfl
  · -- the bending edge is the lower edge of its in-interval
    obtain ⟨g1, g2, g3, g4, g5, g6⟩ := bend_flat hR hN (F1 := flatE pre) (F2 := iv.hi :: flatE post)
      (a0 := iv.lo) (by rw [← hflat]; exact hI.span) (by rw [← hflat]; exact hI.sorted)
      (by rw [← hflat]; exact hq) (by rw [← hflat]; exact hI.cross) hw'n hadj hxw' hright hr0
      (by rw [← hflat]; exact honly)
    obtain ⟨h, hnode⟩ := node_of_ptAt hh
    have hB : PartnerOk s iv.lo.id iv.ci true (lastHi pre none)
        (fun lb rb => wobP (Fq (R.pt w)) (Fq (R.pt w')) lb rb) := by
      rcases lastHi_cases pre none with ⟨-, e⟩ | ⟨pre', ivb, e1, e2⟩
      · exact Or.inl e
      · right
        have hivb : ivb ∈ pre ++ post := by rw [e1]; simp
        obtain ⟨m1, m2, m3, m4⟩ := hjmem ivb hivb
        obtain ⟨bb, aa, -, hcb, hccb⟩ := Linked.mem hI.lk ivb (by rw [e1]; simp)
        refine ⟨ivb.hi.id, _, Fq (R.pt ivb.hi.lv), e2, ?_, hcb, lpt_hi hcb hccb,
          Or.inl (hcine ivb hivb), ?_⟩
        · exact hidne _ m2 _ hlo_mem (hothers _ m4).1
        · have hm : ivb.hi ∈ flatE pre := by rw [e1]; simp
          have hbl := (List.pairwise_append.mp g2).2.2 ivb.hi hm _ List.mem_cons_self
          have hsp := hI.span _ m2
          have hne' : ivb.hi.lv ≠ w := by
            intro e; have := hsp.le; rw [e] at this
            exact absurd hwq.2 (not_lt.mpr this)
          exact wobW hSh (cpl_at hSh hwn) (g1 _ (by simp [hm])) (g1 _ (by simp))
            (strict_of_below hbl hne') (fun e => hne' e.1)
    have hT : PartnerOk s iv.lo.id iv.ci true (some iv.hi.id)
        (fun lt rt => wotP (Fq (R.pt w)) (Fq (R.pt w')) lt rt) := by
      right
      refine ⟨iv.hi.id, _, Fq (R.pt iv.hi.lv), rfl, ?_, hc2, lpt_hi hc2 ⟨c, hc, hrm, hh, ht⟩,
        Or.inr rfl, ?_⟩
      · exact hidne _ hhi_mem _ hlo_mem (Ne.symm hlohi)
      · have hbl := (List.pairwise_cons.mp (List.pairwise_append.mp g2).2.1).1 iv.hi List.mem_cons_self
        have hsp := hI.span _ hhi_mem
        have hne' : w ≠ iv.hi.lv := by
          intro e; have := hsp.le; rw [← e] at this
          exact absurd hwq.2 (not_lt.mpr this)
        exact wotW hSh (cpl_at hSh hwn) (g1 _ (by simp)) (g1 _ (by simp))
          (strict_of_below hbl hne') (fun e => hne' e.1)
    have hc1' : s.edges[iv.lo.id]? = some ⟨Fq (R.pt w), iv.ci, true, lastHi pre none, some iv.hi.id⟩ := by
      have := hc1; unfold ECell at this; rw [hr0] at this; exact this
    have hvc := vicfree_bend hSh hI.lk hI.act (F1 := flatE pre) (F2 := iv.hi :: flatE post) (a0 := iv.lo)
      hflat hI.q.idinj hwn hw'n hadj hxw' g1 g2
      (fun x hx e => by
        have hm : x ∈ flatE (pre ++ iv :: post) := by
          rw [hflat]
          rcases List.mem_append.mp hx with h' | h'
          · exact List.mem_append_left _ h'
          · exact List.mem_append_right _ (List.mem_cons_of_mem _ h')
        have := (hI.span x hm).le
        rw [e] at this
        exact absurd hwq.2 (not_lt.mpr this))
    obtain ⟨N2, out2, hrun, hN2, hsz2, hpt2, hnew2⟩ := bend_runV s w iv.lo.id w' (R.prv w) (R.nxt w)
      _ _ _ _ _ _ iv.ci [] rest (Fq (R.pt w)) (Fq (R.pt (R.prv w))) (Fq (R.pt (R.nxt w)))
      (Fq (R.pt w')) (Fq (R.pt w)) true (lastHi pre none) (some iv.hi.id) c h hev hv h1 h2 hft hr hrp hvc
      hevs hc1' hc hI.nok hnode hB hT
    refine ⟨_, hrun, pre ++ ⟨⟨iv.lo.id, w, w'⟩, iv.hi, iv.ci⟩ :: post, ?_⟩
    have hflat' : flatE (pre ++ (⟨⟨iv.lo.id, w, w'⟩, iv.hi, iv.ci⟩ : IV) :: post) =
        flatE pre ++ (⟨iv.lo.id, w, w'⟩ : AE) :: iv.hi :: flatE post := by simp
    have helt : iv.lo.id < s.edges.size := lt_of_get' hc1'
    have hclt : iv.ci < s.chains.size := lt_of_get' hc
    refine ⟨hI.vget, hI.mono, fun _ => rfl, ?_, ?_, ?_, hN2, ?_, ?_, ?_, ?_, cpl_at hSh hwn⟩
    · show s.active = _
      rw [hI.act, hflat, hflat']
      simp
    · have := hI.cind
      simpa using this
    · refine Linked.replace hI.lk rfl rfl ?_ (by show s.nodes.size ≤ N2.size; omega) hpt2 ?_ ?_ ?_
      · intro j hj
        obtain ⟨m1, m2, m3, m4⟩ := hjmem j hj
        refine ⟨?_, ?_, ?_⟩
        · exact Array.getElem?_setIfInBounds_ne (Ne.symm (hidne _ m1 _ hlo_mem (hothers _ m3).1))
        · exact Array.getElem?_setIfInBounds_ne (Ne.symm (hidne _ m2 _ hlo_mem (hothers _ m4).1))
        · exact Array.getElem?_setIfInBounds_ne (Ne.symm (hcine j hj))
      · show (s.edges.setIfInBounds iv.lo.id _)[iv.lo.id]? = _
        rw [Array.getElem?_setIfInBounds_self_of_lt helt]
      · show (s.edges.setIfInBounds iv.lo.id _)[iv.hi.id]? = _
        rw [Array.getElem?_setIfInBounds_ne (hidne _ hlo_mem _ hhi_mem hlohi)]
        exact hc2
      · refine ⟨_, Array.getElem?_setIfInBounds_self_of_lt hclt, ?_, ?_, ?_⟩
        · show s.nodes.size < N2.size; omega
        · exact hnew2
        · show ptAt N2 c.tail = _
          rw [hpt2 _ (ptAt_some_lt ht)]; exact ht
    · rw [hflat']; exact g1
    · rw [hflat']; exact g2
    · rw [hflat']
      show QCore (shearRing ε R) ((shearRing ε R).x w) _ (evAdd s.verts (Fq (R.pt w')) w' iv.lo.id rest)
      rw [evAddV_eq_qAdd hSh hI.vget w' iv.lo.id hw'n rest (fun a ha => (hq.gt a (List.mem_cons_of_mem _ ha)).1)]
      exact g3
    · rw [hflat']; exact g4
  · -- the bending edge is the upper edge of its in-interval
    have hflat2 : flatE (pre ++ iv :: post) = (flatE pre ++ [iv.lo]) ++ iv.hi :: flatE post := by simp
    obtain ⟨g1, g2, g3, g4, g5, g6⟩ := bend_flat hR hN (F1 := flatE pre ++ [iv.lo]) (F2 := flatE post)
      (a0 := iv.hi) (by rw [← hflat2]; exact hI.span) (by rw [← hflat2]; exact hI.sorted)
      (by rw [← hflat2]; exact hq) (by rw [← hflat2]; exact hI.cross) hw'n hadj hxw' hright hr0
      (by rw [← hflat2]; exact honly)
    obtain ⟨h, hnode⟩ := node_of_ptAt ht
    have hB : PartnerOk s iv.hi.id iv.ci false (some iv.lo.id)
        (fun lb rb => wobP (Fq (R.pt w)) (Fq (R.pt w')) lb rb) := by
      right
      refine ⟨iv.lo.id, _, Fq (R.pt iv.lo.lv), rfl, ?_, hc1, lpt_lo hc1 ⟨c, hc, hrm, hh, ht⟩,
        Or.inr rfl, ?_⟩
      · exact hidne _ hlo_mem _ hhi_mem hlohi
      · have hbl := (List.pairwise_append.mp g2).2.2 iv.lo (by simp) _ List.mem_cons_self
        have hsp := hI.span _ hlo_mem
        have hne' : iv.lo.lv ≠ w := by
          intro e; have := hsp.le; rw [e] at this
          exact absurd hwq.2 (not_lt.mpr this)
        exact wobW hSh (cpl_at hSh hwn) (g1 _ (by simp)) (g1 _ (by simp))
          (strict_of_below hbl hne') (fun e => hne' e.1)
    have hT : PartnerOk s iv.hi.id iv.ci false (nxtLo post none)
        (fun lt rt => wotP (Fq (R.pt w)) (Fq (R.pt w')) lt rt) := by
      rcases nxtLo_cases post none with ⟨-, e⟩ | ⟨ivt, post', e1, e2⟩
      · exact Or.inl e
      · right
        have hivt : ivt ∈ pre ++ post := by rw [e1]; simp
        obtain ⟨m1, m2, m3, m4⟩ := hjmem ivt hivt
        obtain ⟨bb, aa, hct, -, hcct⟩ := Linked.mem hI.lk ivt (by rw [e1]; simp)
        refine ⟨ivt.lo.id, _, Fq (R.pt ivt.lo.lv), e2, ?_, hct, lpt_lo hct hcct,
          Or.inl (hcine ivt hivt), ?_⟩
        · exact hidne _ m1 _ hhi_mem (hothers _ m3).2
        · have hm : ivt.lo ∈ flatE post := by rw [e1]; simp
          have hbl := (List.pairwise_cons.mp (List.pairwise_append.mp g2).2.1).1 ivt.lo hm
          have hsp := hI.span _ m1
          have hne' : w ≠ ivt.lo.lv := by
            intro e; have := hsp.le; rw [← e] at this
            exact absurd hwq.2 (not_lt.mpr this)
          exact wotW hSh (cpl_at hSh hwn) (g1 _ (by simp)) (g1 _ (by simp [hm]))
            (strict_of_below hbl hne') (fun e => hne' e.1)
    have hc2' : s.edges[iv.hi.id]? = some ⟨Fq (R.pt w), iv.ci, false, some iv.lo.id, nxtLo post none⟩ := by
      have := hc2; unfold ECell at this; rw [hr0] at this; exact this
    have hvc := vicfree_bend hSh hI.lk hI.act (F1 := flatE pre ++ [iv.lo]) (F2 := flatE post) (a0 := iv.hi)
      hflat2 hI.q.idinj hwn hw'n hadj hxw' g1 g2
      (fun x hx e => by
        have hm : x ∈ flatE (pre ++ iv :: post) := by
          rw [hflat2]
          rcases List.mem_append.mp hx with h' | h'
          · exact List.mem_append_left _ h'
          · exact List.mem_append_right _ (List.mem_cons_of_mem _ h')
        have := (hI.span x hm).le
        rw [e] at this
        exact absurd hwq.2 (not_lt.mpr this))
    obtain ⟨N2, out2, hrun, hN2, hsz2, hpt2, hnew2⟩ := bend_runV s w iv.hi.id w' (R.prv w) (R.nxt w)
      _ _ _ _ _ _ iv.ci [] rest (Fq (R.pt w)) (Fq (R.pt (R.prv w))) (Fq (R.pt (R.nxt w)))
      (Fq (R.pt w')) (Fq (R.pt w)) false (some iv.lo.id) (nxtLo post none) c h hev hv h1 h2 hft hr hrp hvc
      hevs hc2' hc hI.nok hnode hB hT
    refine ⟨_, hrun, pre ++ ⟨iv.lo, ⟨iv.hi.id, w, w'⟩, iv.ci⟩ :: post, ?_⟩
    have hflat' : flatE (pre ++ (⟨iv.lo, ⟨iv.hi.id, w, w'⟩, iv.ci⟩ : IV) :: post) =
        (flatE pre ++ [iv.lo]) ++ (⟨iv.hi.id, w, w'⟩ : AE) :: flatE post := by simp
    have helt : iv.hi.id < s.edges.size := lt_of_get' hc2'
    have hclt : iv.ci < s.chains.size := lt_of_get' hc
    refine ⟨hI.vget, hI.mono, fun _ => rfl, ?_, ?_, ?_, hN2, ?_, ?_, ?_, ?_, cpl_at hSh hwn⟩
    · show s.active = _
      rw [hI.act, hflat, hflat']
      simp
    · have := hI.cind
      simpa using this
    · refine Linked.replace hI.lk rfl rfl ?_ (by show s.nodes.size ≤ N2.size; omega) hpt2 ?_ ?_ ?_
      · intro j hj
        obtain ⟨m1, m2, m3, m4⟩ := hjmem j hj
        refine ⟨?_, ?_, ?_⟩
        · exact Array.getElem?_setIfInBounds_ne (Ne.symm (hidne _ m1 _ hhi_mem (hothers _ m3).2))
        · exact Array.getElem?_setIfInBounds_ne (Ne.symm (hidne _ m2 _ hhi_mem (hothers _ m4).2))
        · exact Array.getElem?_setIfInBounds_ne (Ne.symm (hcine j hj))
      · show (s.edges.setIfInBounds iv.hi.id _)[iv.lo.id]? = _
        rw [Array.getElem?_setIfInBounds_ne (hidne _ hhi_mem _ hlo_mem (Ne.symm hlohi))]
        exact hc1
      · show (s.edges.setIfInBounds iv.hi.id _)[iv.hi.id]? = _
        rw [Array.getElem?_setIfInBounds_self_of_lt helt]
      · refine ⟨_, Array.getElem?_setIfInBounds_self_of_lt hclt, ?_, ?_, ?_⟩
        · show s.nodes.size < N2.size; omega
        · show ptAt N2 c.head = _
          rw [hpt2 _ (ptAt_some_lt hh)]; exact hh
        · exact hnew2
    · rw [hflat']; exact g1
    · rw [hflat']; exact g2
    · rw [hflat']
      show QCore (shearRing ε R) ((shearRing ε R).x w) _ (evAdd s.verts (Fq (R.pt w')) w' iv.hi.id rest)
      rw [evAddV_eq_qAdd hSh hI.vget w' iv.hi.id hw'n rest (fun a ha => (hq.gt a (List.mem_cons_of_mem _ ha)).1)]
      exact g3
    · rw [hflat']; exact g4

/-- **the closing End keeps the invariant** -/
theorem stepW_end_close (hSh : ShOK R ε Vε) {s : St XQ} {xs X : Rat} {pre post : List IV} {iv : IV}
    (hI : InvV R ε s xs X (pre ++ iv :: post))
    {w : Nat} {es : List Nat} {rest : List (Nat × List Nat)} (hev : s.events = (w, es) :: rest)
    (hx0 : (shearRing ε R).x (R.prv w) < (shearRing ε R).x w) (hx1 : (shearRing ε R).x (R.nxt w) < (shearRing ε R).x w)
    (hbr : iv.lo.rv = w) (htr : iv.hi.rv = w)
    (hes : es = [iv.lo.id, iv.hi.id] ∨ es = [iv.hi.id, iv.lo.id])
    (honly : ∀ a ∈ flatE (pre ++ iv :: post), a.rv = w → a = iv.lo ∨ a = iv.hi) :
    ∃ s', (handleNext : SM XQ Unit).run s = .ok ((), s') ∧
      ∃ ivs', InvV R ε s' ((shearRing ε R).x w) (R.x w) ivs' := by
  have hR := hSh.ring
  have hN := hSh.nocross
  have hq := hI.q
  rw [hev] at hq
  have hflat : flatE (pre ++ iv :: post) = flatE pre ++ iv.lo :: iv.hi :: flatE post := by simp
  have hwq := hq.gt (w, es) List.mem_cons_self
  have hwn : w < R.n := hwq.1
  have hnoright : ∀ v, v < R.n → Adj R w v → ¬ (shearRing ε R).x w < (shearRing ε R).x v := by
    intro v _ hadj
    rcases adj_cases hadj with h | h
    · rw [h]; exact not_lt.mpr (le_of_lt hx1)
    · rw [h]; exact not_lt.mpr (le_of_lt hx0)
  obtain ⟨g1, -, -, g4, g5, g6, g7, -⟩ := end_flat hR hN (F1 := flatE pre) (F2 := flatE post)
    (bot := iv.lo) (top := iv.hi) (by rw [← hflat]; exact hI.span) (by rw [← hflat]; exact hI.sorted)
    (by rw [← hflat]; exact hq) (by rw [← hflat]; exact hI.cross) hbr htr
    (by rw [← hflat]; exact honly) hnoright
  have hsx : s.x = .fin X := hI.sx (by simp)
  have g8 : ∀ b ∈ flatE pre, ∀ t ∈ flatE post,
      wotP (Fq (R.pt b.lv)) (Fq (R.pt b.rv)) (Fq (R.pt t.lv)) (Fq (R.pt t.rv)) = false := by
    intro b hb t ht
    have hbt' := (List.pairwise_append.mp g5).2.2 b hb t ht
    have hb0 : b ∈ flatE (pre ++ iv :: post) := by rw [hflat]; exact List.mem_append_left _ hb
    have ht0 : t ∈ flatE (pre ++ iv :: post) := by
      rw [hflat]; exact List.mem_append_right _ (List.mem_cons_of_mem _ (List.mem_cons_of_mem _ ht))
    have hsb := hI.span b hb0
    have hne' : (shearRing ε R).x b.lv ≠ (shearRing ε R).x w := ne_of_lt (lt_of_le_of_lt hsb.le hwq.2)
    refine wotW hSh (cpl_at hSh hwn) (g4 b (List.mem_append_left _ hb)) (g4 t (List.mem_append_right _ ht))
      (strict_of_below' hbt' hne') ?_
    rintro ⟨e1, e2⟩
    have := hI.q.uniq b hb0 t ht0 e1 e2
    rw [this] at hbt'
    exact below_irrefl _ _ hbt'
  have hnd : (flatE pre ++ iv.lo :: iv.hi :: flatE post).Nodup := by
    rw [← hflat]; exact nodup_of_pairwise_below hI.sorted
  obtain ⟨hlohi, hothers⟩ := nodup_mid hnd
  have hlo_mem : iv.lo ∈ flatE (pre ++ iv :: post) := by rw [hflat]; simp
  have hhi_mem : iv.hi ∈ flatE (pre ++ iv :: post) := by rw [hflat]; simp
  have hidne : ∀ a ∈ flatE (pre ++ iv :: post), ∀ b ∈ flatE (pre ++ iv :: post), a ≠ b → a.id ≠ b.id :=
    fun a ha b hb hne e => hne (hq.idinj a ha b hb e)
  have hcine : ∀ j ∈ pre ++ post, j.ci ≠ iv.ci := by
    have := hI.cind
    rw [List.map_append, List.map_cons] at this
    intro j hj
    have hm : j.ci ∈ pre.map (·.ci) ++ post.map (·.ci) := by
      rw [← List.map_append]; exact List.mem_map_of_mem hj
    exact nodup_mid1 this _ hm
  obtain ⟨hc1, hc2, hc3⟩ := Linked.mid hI.lk
  have hc3' := hc3
  obtain ⟨c, hc, hrm, hh, ht⟩ := hc3
  obtain ⟨h, hnode⟩ := node_of_ptAt ht
  have hspb := hI.span iv.lo hlo_mem
  have hspt := hI.span iv.hi hhi_mem
  obtain ⟨gv2, gv3⟩ := gradsW hSh hspb hspt hbr htr g1
  -- order of the list around the two edges
  have hP := hI.sorted
  rw [hflat, List.pairwise_append] at hP
  obtain ⟨hPpre, hPmid, hPcross⟩ := hP
  rw [List.pairwise_cons, List.pairwise_cons] at hPmid
  obtain ⟨hlo_above, hhi_above, hPpost⟩ := hPmid
  -- cells
  have hb : s.edges[iv.lo.id]? = some ⟨Fq (R.pt w), iv.ci, true, lastHi pre none, some iv.hi.id⟩ := by
    have := hc1; unfold ECell at this; rw [hbr] at this; exact this
  have htc : s.edges[iv.hi.id]? = some ⟨Fq (R.pt w), iv.ci, false, some iv.lo.id, nxtLo post none⟩ := by
    have := hc2; unfold ECell at this; rw [htr] at this; exact this
  have hlb : lpt? s ⟨Fq (R.pt w), iv.ci, true, lastHi pre none, some iv.hi.id⟩ =
      some (Fq (R.pt iv.lo.lv)) := by
    have := lpt_lo hc1 hc3'; rw [hbr] at this; exact this
  have hlt : lpt? s ⟨Fq (R.pt w), iv.ci, false, some iv.lo.id, nxtLo post none⟩ =
      some (Fq (R.pt iv.hi.lv)) := by
    have := lpt_hi hc2 hc3'; rw [htr] at this; exact this
  have hact : s.active = (flatE pre).map (·.id) ++ iv.lo.id :: iv.hi.id :: (flatE post).map (·.id) := by
    rw [hI.act, hflat]; simp
  have hpremem : ∀ x ∈ flatE pre, x ∈ flatE (pre ++ iv :: post) := fun x hx => mem_flatE_append_left hx
  have hpostmem : ∀ x ∈ flatE post, x ∈ flatE (pre ++ iv :: post) := fun x hx => mem_flatE_append_right hx
  have hPb := cmpsW_below hSh hI.cpl hI.lk hsx (key := iv.lo) hpremem hI.span hspb
    (fun x hx => hPcross x hx _ List.mem_cons_self)
  have hPt := cmpsW_below hSh hI.cpl hI.lk hsx (key := iv.hi) hpremem hI.span hspt
    (fun x hx => hPcross x hx _ (List.mem_cons_of_mem _ List.mem_cons_self))
  have hQb := cmpsW_above hSh hI.cpl hI.lk hsx (key := iv.lo) hpostmem hI.span hspb
    (fun x hx => hlo_above x (List.mem_cons_of_mem _ hx))
  have hQt := cmpsW_above hSh hI.cpl hI.lk hsx (key := iv.hi) hpostmem hI.span hspt
    (fun x hx => hhi_above x hx)
  rw [hbr] at hPb hQb
  rw [htr] at hPt hQt
  have hbt : cmpEdgeP (Fq (R.pt iv.lo.lv)) (Fq (R.pt w)) (Fq (R.pt iv.hi.lv)) (Fq (R.pt w)) s.x = .lt := by
    have := (cmpW_of_below hSh hI.cpl hspb hspt (hlo_above iv.hi List.mem_cons_self)).1
    rw [hbr, htr] at this
    rw [hsx]; exact this
  -- partners
  have hbP : EndPartner s iv.lo.id iv.hi.id (lastHi pre none) := by
    rcases lastHi_cases pre none with ⟨-, e⟩ | ⟨pre', ivb, e1, e2⟩
    · exact Or.inl e
    · right
      have hivb : ivb ∈ pre ++ iv :: post := by rw [e1]; simp
      obtain ⟨_, _, -, hcb, -⟩ := Linked.mem hI.lk ivb hivb
      have hm : ivb.hi ∈ flatE pre := by rw [e1]; simp
      refine ⟨ivb.hi.id, _, e2, ?_, ?_, hcb⟩
      · exact hidne _ (hpremem _ hm) _ hlo_mem (hothers _ (List.mem_append_left _ hm)).1
      · exact hidne _ (hpremem _ hm) _ hhi_mem (hothers _ (List.mem_append_left _ hm)).2
  have htP : EndPartner s iv.lo.id iv.hi.id (nxtLo post none) := by
    rcases nxtLo_cases post none with ⟨-, e⟩ | ⟨ivt, post', e1, e2⟩
    · exact Or.inl e
    · right
      have hivt : ivt ∈ pre ++ iv :: post := by rw [e1]; simp
      obtain ⟨_, _, hct, -, -⟩ := Linked.mem hI.lk ivt hivt
      have hm : ivt.lo ∈ flatE post := by rw [e1]; simp
      refine ⟨ivt.lo.id, _, e2, ?_, ?_, hct⟩
      · exact hidne _ (hpostmem _ hm) _ hlo_mem (hothers _ (List.mem_append_right _ hm)).1
      · exact hidne _ (hpostmem _ hm) _ hhi_mem (hothers _ (List.mem_append_right _ hm)).2
  -- an upper edge of `pre` and a lower edge of `post` are different
  have hprepost : ∀ x ∈ flatE pre, ∀ y ∈ flatE post, x.id ≠ y.id := by
    intro x hx y hy
    apply hidne _ (hpremem _ hx) _ (hpostmem _ hy)
    rintro rfl
    rw [List.nodup_append] at hnd
    exact hnd.2.2 x hx x (List.mem_cons_of_mem _ (List.mem_cons_of_mem _ hy)) rfl
  have hbbtt : ∀ k, lastHi pre none = some k → nxtLo post none ≠ some k := by
    intro k h1 h2
    obtain ⟨pre', ivb, e1, rfl⟩ := lastHi_eq_some h1
    obtain ⟨ivt, post', e2, e3⟩ := nxtLo_eq_some h2
    exact hprepost ivb.hi (by rw [e1]; simp) ivt.lo (by rw [e2]; simp) e3
  have hwot : ∀ bb tt cbb ctt, lastHi pre none = some bb → nxtLo post none = some tt →
      s.edges[bb]? = some cbb → s.edges[tt]? = some ctt → ∃ lbb ltt,
      lpt? s cbb = some lbb ∧ lpt? s ctt = some ltt ∧ cbb.chain ≠ iv.ci ∧ ctt.chain ≠ iv.ci ∧
      wotP lbb cbb.rpt ltt ctt.rpt = false := by
    intro bb tt cbb ctt h1 h2 h3 h4
    obtain ⟨pre', ivb, e1, rfl⟩ := lastHi_eq_some h1
    obtain ⟨ivt, post', e2, rfl⟩ := nxtLo_eq_some h2
    have hivb : ivb ∈ pre ++ iv :: post := by rw [e1]; simp
    have hivt : ivt ∈ pre ++ iv :: post := by rw [e2]; simp
    obtain ⟨_, _, -, hcb, hccb⟩ := Linked.mem hI.lk ivb hivb
    obtain ⟨_, _, hct, -, hcct⟩ := Linked.mem hI.lk ivt hivt
    have l1 := lpt_hi hcb hccb
    have l2 := lpt_lo hct hcct
    unfold ECell at hcb hct
    rw [hcb] at h3; cases h3
    rw [hct] at h4; cases h4
    refine ⟨_, _, l1, l2, hcine ivb (by rw [e1]; simp), hcine ivt (by rw [e2]; simp), ?_⟩
    exact g8 ivb.hi (by rw [e1]; simp) ivt.lo (by rw [e2]; simp)
  obtain ⟨N2, out2, E', hrun, hN2, hsz2, hpt2, hE1, hE2, hE3, hE4⟩ := end_run_close s w iv.lo.id iv.hi.id
    (R.prv w) (R.nxt w) _ _ _ _ iv.ci iv.ci es rest (Fq (R.pt w)) (Fq (R.pt (R.prv w)))
    (Fq (R.pt (R.nxt w))) (Fq (R.pt iv.lo.lv)) (Fq (R.pt iv.hi.lv)) (lastHi pre none) (nxtLo post none)
    c h ((flatE pre).map (·.id)) ((flatE post).map (·.id)) hev hes (hI.vget.2 w hwn)
    (hI.vget.2 _ (hR.prv_lt w hwn)) (hI.vget.2 _ (hR.nxt_lt w hwn)) (endV_ft hSh hwn hx0 hx1) hb htc
    (hidne _ hlo_mem _ hhi_mem hlohi) hlb hlt gv2 gv3 hI.mono hact hPb (TriGeom.cmpEdgeP_self _ _ _) hbt hQb hPt
    (TriGeom.cmpEdgeP_self _ _ _) hQt hc hI.nok hnode hbP htP hbbtt hwot
  refine ⟨_, hrun, pre ++ post, ?_⟩
  have hclt : iv.ci < s.chains.size := lt_of_get' hc
  -- frame of the edge array
  have hfr : ∀ x ∈ flatE pre ++ flatE post, lastHi pre none ≠ some x.id → nxtLo post none ≠ some x.id →
      E'[x.id]? = s.edges[x.id]? := fun x _ h1 h2 => hE2 x.id h1 h2
  have hlk := hI.lk
  rw [linked_append] at hlk
  obtain ⟨hlpre, -, -, -, hlpost⟩ := hlk
  refine ⟨hI.vget, hI.mono, fun _ => rfl, ?_, ?_, ?_, hN2, ?_, ?_, ?_, ?_, cpl_at hSh hwn⟩
  · show (flatE pre).map (·.id) ++ (flatE post).map (·.id) = _
    simp
  · have := hI.cind
    rw [List.map_append, List.map_cons] at this
    rw [List.map_append]
    exact this.sublist (List.Sublist.append (List.Sublist.refl _) (List.Sublist.cons _ (List.Sublist.refl _)))
  · rw [linked_append]
    constructor
    · -- the in-intervals below
      refine Linked.set_above hlpre ?_ ?_ (by show s.nodes.size ≤ N2.size; omega) hpt2 ?_
      · intro j hj
        have hjm := mem_flatE_of hj
        refine ⟨hE2 _ ?_ ?_, Array.getElem?_setIfInBounds_ne (Ne.symm (hcine j (List.mem_append_left _ hj)))⟩
        · intro e
          obtain ⟨pre', ivb, e1, e2⟩ := lastHi_eq_some e
          exact Linked.lo_ne_hi hI.lk (j := j) (k := ivb) (List.mem_append_left _ hj)
            (by rw [e1]; simp) e2
        · intro e
          obtain ⟨ivt, post', e1, e2⟩ := nxtLo_eq_some e
          exact hprepost _ hjm.1 ivt.lo (by rw [e1]; simp) e2
      · intro j hj
        have hjpre : j ∈ pre := List.mem_of_mem_dropLast hj
        have hjm := mem_flatE_of hjpre
        refine hE2 _ ?_ ?_
        · intro e
          obtain ⟨pre', ivb, e1, e2⟩ := lastHi_eq_some e
          rw [e1, List.dropLast_concat] at hj
          have hndpre : (flatE pre' ++ ivb.lo :: ivb.hi :: ([] : List AE)).Nodup := by
            have := nodup_of_pairwise_below hPpre
            rw [e1] at this
            simpa using this
          have := (nodup_mid hndpre).2 j.hi (by simpa using (mem_flatE_of hj).2)
          apply this.2
          apply hq.idinj _ (hpremem _ hjm.2) _ (hpremem _ (by rw [e1]; simp)) e2
        · intro e
          obtain ⟨ivt, post', e1, e2⟩ := nxtLo_eq_some e
          exact hprepost _ hjm.2 ivt.lo (by rw [e1]; simp) e2
      · intro pre' ivb e1
        have hivb : ivb ∈ pre ++ iv :: post := by rw [e1]; simp
        obtain ⟨hcb⟩ : ECell s R ivb.hi ivb.ci false (some ivb.lo.id) (some iv.lo.id) ∧ True := by
          have := hlpre
          rw [e1, linked_append] at this
          exact ⟨this.2.2.1, trivial⟩
        have := hE3 ivb.hi.id _ (by rw [e1, lastHi_snoc]) hcb
        exact this
    · -- the in-intervals above
      refine Linked.set_below hlpost ?_ ?_ (by show s.nodes.size ≤ N2.size; omega) hpt2 ?_
      · intro j hj
        have hjm := mem_flatE_of hj
        refine ⟨hE2 _ ?_ ?_, Array.getElem?_setIfInBounds_ne (Ne.symm (hcine j (List.mem_append_right _ hj)))⟩
        · intro e
          obtain ⟨pre', ivb, e1, e2⟩ := lastHi_eq_some e
          exact hprepost ivb.hi (by rw [e1]; simp) _ hjm.2 e2.symm
        · intro e
          obtain ⟨ivt, post', e1, e2⟩ := nxtLo_eq_some e
          exact Linked.lo_ne_hi hI.lk (j := ivt) (k := j) (by rw [e1]; simp)
            (by simp [hj]) e2.symm
      · intro j hj
        have hjpost : j ∈ post := List.mem_of_mem_tail hj
        have hjm := mem_flatE_of hjpost
        refine hE2 _ ?_ ?_
        · intro e
          obtain ⟨pre', ivb, e1, e2⟩ := lastHi_eq_some e
          exact hprepost ivb.hi (by rw [e1]; simp) _ hjm.1 e2.symm
        · intro e
          obtain ⟨ivt, post', e1, e2⟩ := nxtLo_eq_some e
          rw [e1, List.tail_cons] at hj
          have hndpost : (([] : List AE) ++ ivt.lo :: ivt.hi :: flatE post').Nodup := by
            have := nodup_of_pairwise_below hPpost
            rw [e1] at this
            simpa using this
          have := (nodup_mid hndpost).2 j.lo (by simpa using (mem_flatE_of hj).1)
          apply this.1
          apply hq.idinj _ (hpostmem _ hjm.1) _ (hpostmem _ (by rw [e1]; simp)) e2
      · intro ivt post' e1
        have hct : ECell s R ivt.lo ivt.ci true (some iv.hi.id) (some ivt.hi.id) := by
          have := hlpost
          rw [e1] at this
          exact this.1
        have := hE4 ivt.lo.id _ (by rw [e1]; rfl) hct
        exact this
  · rw [flatE_append]; exact g4
  · rw [flatE_append]; exact g5
  · rw [flatE_append]; exact g6
  · rw [flatE_append]; exact g7


/-- **the merging End keeps the invariant** -/
theorem stepW_end_merge (hSh : ShOK R ε Vε) {s : St XQ} {xs X : Rat} {pre post : List IV} {iv1 iv2 : IV}
    (hI : InvV R ε s xs X (pre ++ iv1 :: iv2 :: post))
    {w : Nat} {es : List Nat} {rest : List (Nat × List Nat)} (hev : s.events = (w, es) :: rest)
    (hx0 : (shearRing ε R).x (R.prv w) < (shearRing ε R).x w) (hx1 : (shearRing ε R).x (R.nxt w) < (shearRing ε R).x w)
    (hbr : iv1.hi.rv = w) (htr : iv2.lo.rv = w)
    (hes : es = [iv1.hi.id, iv2.lo.id] ∨ es = [iv2.lo.id, iv1.hi.id])
    (honly : ∀ a ∈ flatE (pre ++ iv1 :: iv2 :: post), a.rv = w → a = iv1.hi ∨ a = iv2.lo) :
    ∃ s', (handleNext : SM XQ Unit).run s = .ok ((), s') ∧
      ∃ ivs', InvV R ε s' ((shearRing ε R).x w) (R.x w) ivs' := by
  have hR := hSh.ring
  have hN := hSh.nocross
  have hq := hI.q
  rw [hev] at hq
  have hflat : flatE (pre ++ iv1 :: iv2 :: post) =
      (flatE pre ++ [iv1.lo]) ++ iv1.hi :: iv2.lo :: (iv2.hi :: flatE post) := by simp
  have hwq := hq.gt (w, es) List.mem_cons_self
  have hwn : w < R.n := hwq.1
  have hnoright : ∀ v, v < R.n → Adj R w v → ¬ (shearRing ε R).x w < (shearRing ε R).x v := by
    intro v _ hadj
    rcases adj_cases hadj with h | h
    · rw [h]; exact not_lt.mpr (le_of_lt hx1)
    · rw [h]; exact not_lt.mpr (le_of_lt hx0)
  obtain ⟨g1, -, -, g4, g5, g6, g7, -⟩ := end_flat hR hN (F1 := flatE pre ++ [iv1.lo])
    (F2 := iv2.hi :: flatE post) (bot := iv1.hi) (top := iv2.lo)
    (by rw [← hflat]; exact hI.span) (by rw [← hflat]; exact hI.sorted)
    (by rw [← hflat]; exact hq) (by rw [← hflat]; exact hI.cross) hbr htr
    (by rw [← hflat]; exact honly) hnoright
  have hsx : s.x = .fin X := hI.sx (by simp)
  have g8 : ∀ b ∈ flatE pre ++ [iv1.lo], ∀ t ∈ iv2.hi :: flatE post,
      wotP (Fq (R.pt b.lv)) (Fq (R.pt b.rv)) (Fq (R.pt t.lv)) (Fq (R.pt t.rv)) = false := by
    intro b hb t ht
    have hbt' := (List.pairwise_append.mp g5).2.2 b hb t ht
    have hb0 : b ∈ flatE (pre ++ iv1 :: iv2 :: post) := by rw [hflat]; exact List.mem_append_left _ hb
    have ht0 : t ∈ flatE (pre ++ iv1 :: iv2 :: post) := by
      rw [hflat]; exact List.mem_append_right _ (List.mem_cons_of_mem _ (List.mem_cons_of_mem _ ht))
    have hsb := hI.span b hb0
    have hne' : (shearRing ε R).x b.lv ≠ (shearRing ε R).x w := ne_of_lt (lt_of_le_of_lt hsb.le hwq.2)
    refine wotW hSh (cpl_at hSh hwn) (g4 b (List.mem_append_left _ hb)) (g4 t (List.mem_append_right _ ht))
      (strict_of_below' hbt' hne') ?_
    rintro ⟨e1, e2⟩
    have := hI.q.uniq b hb0 t ht0 e1 e2
    rw [this] at hbt'
    exact below_irrefl _ _ hbt'
  have hnd : ((flatE pre ++ [iv1.lo]) ++ iv1.hi :: iv2.lo :: (iv2.hi :: flatE post)).Nodup := by
    rw [← hflat]; exact nodup_of_pairwise_below hI.sorted
  obtain ⟨hbt_ne, hothers⟩ := nodup_mid hnd
  have hmem : ∀ x, x ∈ (flatE pre ++ [iv1.lo]) ++ iv1.hi :: iv2.lo :: (iv2.hi :: flatE post) →
      x ∈ flatE (pre ++ iv1 :: iv2 :: post) := fun x hx => by rw [hflat]; exact hx
  have hb_mem : iv1.hi ∈ flatE (pre ++ iv1 :: iv2 :: post) := hmem _ (by simp)
  have ht_mem : iv2.lo ∈ flatE (pre ++ iv1 :: iv2 :: post) := hmem _ (by simp)
  have hbb_mem : iv1.lo ∈ flatE (pre ++ iv1 :: iv2 :: post) := hmem _ (by simp)
  have htt_mem : iv2.hi ∈ flatE (pre ++ iv1 :: iv2 :: post) := hmem _ (by simp)
  have hidne : ∀ a ∈ flatE (pre ++ iv1 :: iv2 :: post), ∀ b ∈ flatE (pre ++ iv1 :: iv2 :: post),
      a ≠ b → a.id ≠ b.id := fun a ha b hb hne e => hne (hq.idinj a ha b hb e)
  have hF1F2 : ∀ x ∈ (flatE pre ++ [iv1.lo]) ++ (iv2.hi :: flatE post),
      x ∈ flatE (pre ++ iv1 :: iv2 :: post) := by
    intro x hx
    apply hmem
    rcases List.mem_append.mp hx with h | h
    · exact List.mem_append_left _ h
    · exact List.mem_append_right _ (List.mem_cons_of_mem _ (List.mem_cons_of_mem _ h))
  -- the four cells
  have hlk := hI.lk
  rw [linked_append] at hlk
  obtain ⟨hlpre, ⟨c1lo, c1hi, cc1, c2lo, c2hi, cc2, hlpost⟩⟩ := hlk
  have cc1' := cc1
  have cc2' := cc2
  obtain ⟨cB, hcB, hrmB, hhB, htB⟩ := cc1
  obtain ⟨cT, hcT, hrmT, hhT, htT⟩ := cc2
  have hspb := hI.span iv1.hi hb_mem
  have hspt := hI.span iv2.lo ht_mem
  obtain ⟨gv2, gv3⟩ := gradsW hSh hspb hspt hbr htr g1
  have hb : s.edges[iv1.hi.id]? = some ⟨Fq (R.pt w), iv1.ci, false, some iv1.lo.id, some iv2.lo.id⟩ := by
    have := c1hi; unfold ECell at this; rw [hbr] at this; exact this
  have htc : s.edges[iv2.lo.id]? = some ⟨Fq (R.pt w), iv2.ci, true, some iv1.hi.id, some iv2.hi.id⟩ := by
    have := c2lo; unfold ECell at this; rw [htr] at this; exact this
  have hlb : lpt? s ⟨Fq (R.pt w), iv1.ci, false, some iv1.lo.id, some iv2.lo.id⟩ =
      some (Fq (R.pt iv1.hi.lv)) := by
    have := lpt_hi c1hi cc1'; rw [hbr] at this; exact this
  have hlt : lpt? s ⟨Fq (R.pt w), iv2.ci, true, some iv1.hi.id, some iv2.hi.id⟩ =
      some (Fq (R.pt iv2.lo.lv)) := by
    have := lpt_lo c2lo cc2'; rw [htr] at this; exact this
  have hact : s.active = (flatE pre ++ [iv1.lo]).map (·.id) ++ iv1.hi.id :: iv2.lo.id ::
      (iv2.hi :: flatE post).map (·.id) := by
    rw [hI.act, hflat]; simp
  -- order
  have hP := hI.sorted
  rw [hflat, List.pairwise_append] at hP
  obtain ⟨-, hPmid, hPcross⟩ := hP
  rw [List.pairwise_cons, List.pairwise_cons] at hPmid
  obtain ⟨hb_above, ht_above, -⟩ := hPmid
  have hF1mem : ∀ x ∈ flatE pre ++ [iv1.lo], x ∈ flatE (pre ++ iv1 :: iv2 :: post) :=
    fun x hx => hmem x (List.mem_append_left _ hx)
  have hF2mem : ∀ x ∈ iv2.hi :: flatE post, x ∈ flatE (pre ++ iv1 :: iv2 :: post) :=
    fun x hx => hmem x (List.mem_append_right _ (List.mem_cons_of_mem _ (List.mem_cons_of_mem _ hx)))
  have hPb := cmpsW_below hSh hI.cpl hI.lk hsx (key := iv1.hi) hF1mem hI.span hspb
    (fun x hx => hPcross x hx _ List.mem_cons_self)
  have hPt := cmpsW_below hSh hI.cpl hI.lk hsx (key := iv2.lo) hF1mem hI.span hspt
    (fun x hx => hPcross x hx _ (List.mem_cons_of_mem _ List.mem_cons_self))
  have hQb := cmpsW_above hSh hI.cpl hI.lk hsx (key := iv1.hi) hF2mem hI.span hspb
    (fun x hx => hb_above x (List.mem_cons_of_mem _ hx))
  have hQt := cmpsW_above hSh hI.cpl hI.lk hsx (key := iv2.lo) hF2mem hI.span hspt
    (fun x hx => ht_above x hx)
  rw [hbr] at hPb hQb
  rw [htr] at hPt hQt
  have hbt : cmpEdgeP (Fq (R.pt iv1.hi.lv)) (Fq (R.pt w)) (Fq (R.pt iv2.lo.lv)) (Fq (R.pt w)) s.x = .lt := by
    have := (cmpW_of_below hSh hI.cpl hspb hspt (hb_above iv2.lo List.mem_cons_self)).1
    rw [hbr, htr] at this
    rw [hsx]; exact this
  have hne1 := (hothers iv1.lo (by simp))
  have hne2 := (hothers iv2.hi (by simp))
  have hbbtt : iv1.lo ≠ iv2.hi := by
    intro e
    have := hnd
    rw [e] at this
    simp [List.nodup_append, List.nodup_cons] at this
  obtain ⟨N3, out3, E', hrun, hN3, hsz3, hpt3, hEsz, hEfr, hEbb, hEtt⟩ := end_run_merge s w iv1.hi.id
    iv2.lo.id (R.prv w) (R.nxt w) _ _ _ _ iv1.ci iv2.ci es rest (Fq (R.pt w)) (Fq (R.pt (R.prv w)))
    (Fq (R.pt (R.nxt w))) (Fq (R.pt iv1.hi.lv)) (Fq (R.pt iv2.lo.lv)) (Fq (R.pt iv1.lo.lv))
    (Fq (R.pt iv2.hi.lv)) ((flatE pre ++ [iv1.lo]).map (·.id)) ((iv2.hi :: flatE post).map (·.id))
    ⟨Fq (R.pt iv1.lo.rv), iv1.ci, true, lastHi pre none, some iv1.hi.id⟩
    ⟨Fq (R.pt iv2.hi.rv), iv2.ci, false, some iv2.lo.id, nxtLo post none⟩
    iv1.lo.id iv2.hi.id cB cT hev hes (hI.vget.2 w hwn)
    (hI.vget.2 _ (hR.prv_lt w hwn)) (hI.vget.2 _ (hR.nxt_lt w hwn)) (endV_ft hSh hwn hx0 hx1) hb htc
    (hidne _ hb_mem _ ht_mem hbt_ne) hlb hlt gv2 gv3 hI.mono hact hPb (TriGeom.cmpEdgeP_self _ _ _) hbt hQb hPt
    (TriGeom.cmpEdgeP_self _ _ _) hQt hcB hcT hI.nok
    (hidne _ hbb_mem _ hb_mem hne1.1) (hidne _ hbb_mem _ ht_mem hne1.2)
    (hidne _ htt_mem _ hb_mem hne2.1) (hidne _ htt_mem _ ht_mem hne2.2)
    (hidne _ hbb_mem _ htt_mem hbbtt) c1lo c2hi rfl rfl rfl rfl hhB htT
    (g8 iv1.lo (by simp) iv2.hi (by simp))
  refine ⟨_, hrun, pre ++ (⟨iv1.lo, iv2.hi, s.chains.size⟩ : IV) :: post, ?_⟩
  have hflat' : flatE (pre ++ (⟨iv1.lo, iv2.hi, s.chains.size⟩ : IV) :: post) =
      (flatE pre ++ [iv1.lo]) ++ (iv2.hi :: flatE post) := by simp
  have hcilt : ∀ j ∈ pre ++ iv1 :: iv2 :: post, j.ci < s.chains.size := by
    intro j hj
    obtain ⟨_, _, -, -, ⟨c, hc, -⟩⟩ := Linked.mem hI.lk j hj
    exact lt_of_get' hc
  refine ⟨hI.vget, hI.mono, fun _ => rfl, ?_, ?_, ?_, hN3, ?_, ?_, ?_, ?_, cpl_at hSh hwn⟩
  · show (flatE pre ++ [iv1.lo]).map (·.id) ++ (iv2.hi :: flatE post).map (·.id) = _
    rw [hflat']; simp
  · have := hI.cind
    rw [List.map_append, List.map_cons, List.map_cons] at this
    rw [List.map_append, List.map_cons]
    have hsub : (pre.map (·.ci) ++ post.map (·.ci)).Nodup :=
      this.sublist (List.Sublist.append (List.Sublist.refl _)
        (List.Sublist.cons _ (List.Sublist.cons _ (List.Sublist.refl _))))
    rw [List.nodup_append] at hsub ⊢
    refine ⟨hsub.1, ?_, ?_⟩
    · rw [List.nodup_cons]
      refine ⟨?_, hsub.2.1⟩
      intro hm
      obtain ⟨j, hj, e⟩ := List.mem_map.mp hm
      have := hcilt j (by simp [hj])
      have e' : j.ci = s.chains.size := e
      omega
    · intro a ha b hb
      rcases List.mem_cons.mp hb with rfl | hb
      · obtain ⟨j, hj, e⟩ := List.mem_map.mp ha
        have := hcilt j (by simp [hj])
        have e' : j.ci = a := e
        show a ≠ s.chains.size
        omega
      · exact hsub.2.2 a ha b hb
  · have hl' : Linked s R none (pre ++ ([iv1, iv2] ++ post)) none := by simpa using hI.lk
    show Linked _ R none (pre ++ ([(⟨iv1.lo, iv2.hi, s.chains.size⟩ : IV)] ++ post)) none
    refine Linked.splice (mid := [iv1, iv2]) hl' rfl rfl ?_
      (by show s.nodes.size ≤ N3.size; omega) hpt3 ?_
    · intro j hj
      have hj' : j ∈ pre ++ iv1 :: iv2 :: post := by
        rcases List.mem_append.mp hj with h | h
        · exact List.mem_append_left _ h
        · exact List.mem_append_right _ (List.mem_cons_of_mem _ (List.mem_cons_of_mem _ h))
      have hjm : j.lo ∈ flatE pre ++ flatE post ∧ j.hi ∈ flatE pre ++ flatE post := by
        have := mem_flatE_of hj
        rw [flatE_append] at this
        exact this
      have hjF : ∀ x ∈ flatE pre ++ flatE post, x ∈ (flatE pre ++ [iv1.lo]) ++ (iv2.hi :: flatE post) ∧
          x ≠ iv1.lo ∧ x ≠ iv2.hi := by
        intro x hx
        have hnd' := hnd
        simp only [List.append_assoc, List.cons_append, List.nil_append] at hnd'
        rw [List.nodup_append] at hnd'
        obtain ⟨-, h2, h3⟩ := hnd'
        simp only [List.nodup_cons, List.mem_cons, not_or] at h2
        rcases List.mem_append.mp hx with h | h
        · refine ⟨by simp [h], fun e => h3 x h _ List.mem_cons_self e,
            fun e => h3 x h _ (by simp) e⟩
        · refine ⟨by simp [h], ?_, ?_⟩
          · rintro rfl; exact h2.1.2.2.2 h
          · rintro rfl; exact h2.2.2.2.1 h
      obtain ⟨m1, n1, n2⟩ := hjF _ hjm.1
      obtain ⟨m2, n3, n4⟩ := hjF _ hjm.2
      refine ⟨hEfr _ ?_ ?_, hEfr _ ?_ ?_, ?_⟩
      · exact hidne _ (hF1F2 _ m1) _ hbb_mem n1
      · exact hidne _ (hF1F2 _ m1) _ htt_mem n2
      · exact hidne _ (hF1F2 _ m2) _ hbb_mem n3
      · exact hidne _ (hF1F2 _ m2) _ htt_mem n4
      · show (s.chains.push _)[j.ci]? = _
        rw [Array.getElem?_push_lt (hcilt j hj'), ← Array.getElem?_eq_getElem]
    · refine ⟨?_, ?_, ?_, trivial⟩
      · exact hEbb
      · exact hEtt
      · refine ⟨_, Array.getElem?_push_size, ?_, ?_, ?_⟩
        · show s.nodes.size < N3.size; omega
        · show ptAt N3 cB.head = _
          rw [hpt3 _ (ptAt_some_lt hhB)]; exact hhB
        · show ptAt N3 cT.tail = _
          rw [hpt3 _ (ptAt_some_lt htT)]; exact htT
  · rw [hflat']; exact g4
  · rw [hflat']; exact g5
  · rw [hflat']; exact g6
  · rw [hflat']; exact g7


/-- **the End event keeps the invariant** -/
theorem stepW_end (hSh : ShOK R ε Vε) {s : St XQ} {xs X : Rat} {ivs : List IV} (hI : InvV R ε s xs X ivs)
    {w : Nat} {es : List Nat} {rest : List (Nat × List Nat)} (hev : s.events = (w, es) :: rest)
    (hx0 : (shearRing ε R).x (R.prv w) < (shearRing ε R).x w) (hx1 : (shearRing ε R).x (R.nxt w) < (shearRing ε R).x w) :
    ∃ s', (handleNext : SM XQ Unit).run s = .ok ((), s') ∧
      ∃ ivs', InvV R ε s' ((shearRing ε R).x w) (R.x w) ivs' := by
  have hR := hSh.ring
  have hN := hSh.nocross
  have hq := hI.q
  rw [hev] at hq
  obtain ⟨F1, bot, top, F2, hE, hbr, htr, hes, honly⟩ :=
    end_es hR hN hI.span hI.sorted hq hI.cross rfl rfl hx0 hx1
  have hbm : bot ∈ flatE ivs := by rw [hE]; simp
  obtain ⟨pre, iv, post, hivs, hcase⟩ := mem_flatE hbm
  subst hivs
  have hnd : (flatE (pre ++ iv :: post)).Nodup := nodup_of_pairwise_below hI.sorted
  rcases hcase with rfl | rfl
  · -- closing
    have hflat : flatE (pre ++ iv :: post) = flatE pre ++ iv.lo :: (iv.hi :: flatE post) := by simp
    obtain ⟨-, e2⟩ := nodup_split_unique (by rw [← hflat]; exact hnd) (hflat.symm.trans hE)
    simp only [List.cons.injEq] at e2
    obtain ⟨rfl, -⟩ := e2
    exact stepW_end_close hSh hI hev hx0 hx1 hbr htr hes honly
  · -- merging
    have hflat : flatE (pre ++ iv :: post) = (flatE pre ++ [iv.lo]) ++ iv.hi :: flatE post := by simp
    obtain ⟨-, e2⟩ := nodup_split_unique (by rw [← hflat]; exact hnd) (hflat.symm.trans hE)
    cases post with
    | nil => simp at e2
    | cons iv2 post' =>
      simp only [flatE_cons, List.cons.injEq] at e2
      obtain ⟨rfl, -⟩ := e2
      exact stepW_end_merge hSh hI hev hx0 hx1 hbr htr hes honly

/-- the comparisons of the model during a Start event, in terms of the stored ids -/
theorem startW_tests (hSh : ShOK R ε Vε) {x0 X0 : Rat} (hc : Cpl R ε x0 X0) {P Q : List AE} (hid : ∀ a ∈ P ++ Q, ∀ b ∈ P ++ Q, a.id = b.id → a = b)
    {nB nT : AE} (hSp : ∀ a ∈ P ++ nB :: nT :: Q, Span (shearRing ε R) x0 a)
    (hPw : (P ++ nB :: nT :: Q).Pairwise (Below (shearRing ε R) x0)) :
    (∀ k ∈ P.map (·.id), cmpEdgeP (Fq (R.pt nB.lv)) (Fq (R.pt nB.rv)) (Lf R (P ++ Q) k) (Rf R (P ++ Q) k)
      (.fin X0) = .gt) ∧
    (∀ k ∈ Q.map (·.id), cmpEdgeP (Fq (R.pt nB.lv)) (Fq (R.pt nB.rv)) (Lf R (P ++ Q) k) (Rf R (P ++ Q) k)
      (.fin X0) = .lt) ∧
    (∀ k ∈ P.map (·.id), cmpEdgeP (Fq (R.pt nT.lv)) (Fq (R.pt nT.rv)) (Lf R (P ++ Q) k) (Rf R (P ++ Q) k)
      (.fin X0) = .gt) ∧
    (∀ k ∈ Q.map (·.id), cmpEdgeP (Fq (R.pt nT.lv)) (Fq (R.pt nT.rv)) (Lf R (P ++ Q) k) (Rf R (P ++ Q) k)
      (.fin X0) = .lt) ∧
    ((P ++ Q).map (·.id)).Pairwise (CmpLt (Lf R (P ++ Q)) (Rf R (P ++ Q)) (.fin X0)) ∧
    cmpEdgeP (Fq (R.pt nB.lv)) (Fq (R.pt nB.rv)) (Fq (R.pt nT.lv)) (Fq (R.pt nT.rv)) (.fin X0) = .lt ∧
    cmpEdgeP (Fq (R.pt nT.lv)) (Fq (R.pt nT.rv)) (Fq (R.pt nB.lv)) (Fq (R.pt nB.rv)) (.fin X0) = .gt := by
  have hnB : Span (shearRing ε R) x0 nB := hSp nB (by simp)
  have hnT : Span (shearRing ε R) x0 nT := hSp nT (by simp)
  have hSP : ∀ a ∈ P, Span (shearRing ε R) x0 a := fun a ha => hSp a (List.mem_append_left _ ha)
  have hSQ : ∀ a ∈ Q, Span (shearRing ε R) x0 a := fun a ha =>
    hSp a (List.mem_append_right _ (List.mem_cons_of_mem _ (List.mem_cons_of_mem _ ha)))
  rw [List.pairwise_append] at hPw
  obtain ⟨hPP, hmid, hPX⟩ := hPw
  rw [List.pairwise_cons, List.pairwise_cons] at hmid
  obtain ⟨hB, hT, hQQ⟩ := hmid
  refine ⟨?_, ?_, ?_, ?_, ?_, ?_, ?_⟩
  · intro k hk
    obtain ⟨a, ha, rfl⟩ := List.mem_map.mp hk
    rw [Lf_id hid (List.mem_append_left _ ha), Rf_id hid (List.mem_append_left _ ha)]
    exact (cmpW_of_below hSh hc (hSP a ha) hnB (hPX a ha nB List.mem_cons_self)).2
  · intro k hk
    obtain ⟨a, ha, rfl⟩ := List.mem_map.mp hk
    rw [Lf_id hid (List.mem_append_right _ ha), Rf_id hid (List.mem_append_right _ ha)]
    exact (cmpW_of_below hSh hc hnB (hSQ a ha) (hB a (List.mem_cons_of_mem _ ha))).1
  · intro k hk
    obtain ⟨a, ha, rfl⟩ := List.mem_map.mp hk
    rw [Lf_id hid (List.mem_append_left _ ha), Rf_id hid (List.mem_append_left _ ha)]
    exact (cmpW_of_below hSh hc (hSP a ha) hnT (hPX a ha nT (List.mem_cons_of_mem _ List.mem_cons_self))).2
  · intro k hk
    obtain ⟨a, ha, rfl⟩ := List.mem_map.mp hk
    rw [Lf_id hid (List.mem_append_right _ ha), Rf_id hid (List.mem_append_right _ ha)]
    exact (cmpW_of_below hSh hc hnT (hSQ a ha) (hT a ha)).1
  · rw [List.pairwise_map]
    have hall : (P ++ Q).Pairwise (Below (shearRing ε R) x0) := by
      rw [List.pairwise_append]
      exact ⟨hPP, hQQ, fun a ha b hb =>
        hPX a ha b (List.mem_cons_of_mem _ (List.mem_cons_of_mem _ hb))⟩
    refine hall.imp_of_mem ?_
    intro a b ha hb hab
    have sa : Span (shearRing ε R) x0 a := by
      rcases List.mem_append.mp ha with h | h
      · exact hSP a h
      · exact hSQ a h
    have sb : Span (shearRing ε R) x0 b := by
      rcases List.mem_append.mp hb with h | h
      · exact hSP b h
      · exact hSQ b h
    show _ ∧ _
    rw [Lf_id hid ha, Rf_id hid ha, Lf_id hid hb, Rf_id hid hb]
    exact cmpW_of_below hSh hc sa sb hab
  · exact (cmpW_of_below hSh hc hnB hnT (hB nT List.mem_cons_self)).1
  · exact (cmpW_of_below hSh hc hnB hnT (hB nT List.mem_cons_self)).2

/-- **the proper Start keeps the invariant** -/
theorem stepW_start_proper (hSh : ShOK R ε Vε) {s : St XQ} {xs X : Rat} {pre post : List IV}
    (hI : InvV R ε s xs X (pre ++ post))
    {w : Nat} {es : List Nat} {rest : List (Nat × List Nat)} (hev : s.events = (w, es) :: rest)
    {wB wT : Nat} (hnb : (R.prv w = wB ∧ R.nxt w = wT) ∨ (R.prv w = wT ∧ R.nxt w = wB))
    (hxB : (shearRing ε R).x w < (shearRing ε R).x wB) (hxT : (shearRing ε R).x w < (shearRing ε R).x wT)
    (hPlow : ∀ a ∈ flatE pre, hY (shearRing ε R) a ((shearRing ε R).x w) < (R.pt w).2)
    (hQhigh : ∀ a ∈ flatE post, (R.pt w).2 < hY (shearRing ε R) a ((shearRing ε R).x w))
    (g3 : ∀ a ∈ flatE pre ++ flatE post, Span (shearRing ε R) ((shearRing ε R).x w) a)
    (g4 : (flatE pre ++ flatE post).Pairwise (fun a b => hY (shearRing ε R) a ((shearRing ε R).x w) < hY (shearRing ε R) b ((shearRing ε R).x w)))
    (g5 : ∀ a ∈ flatE pre ++ (⟨s.edges.size, w, wB⟩ : AE) :: (⟨s.edges.size + 1, w, wT⟩ : AE) :: flatE post,
      Span (shearRing ε R) ((shearRing ε R).x w) a)
    (g6 : (flatE pre ++ (⟨s.edges.size, w, wB⟩ : AE) :: (⟨s.edges.size + 1, w, wT⟩ : AE) :: flatE post).Pairwise
      (Below (shearRing ε R) ((shearRing ε R).x w)))
    (g7 : QCore (shearRing ε R) ((shearRing ε R).x w)
      (flatE pre ++ (⟨s.edges.size, w, wB⟩ : AE) :: (⟨s.edges.size + 1, w, wT⟩ : AE) :: flatE post)
      (qAdd (shearRing ε R) wT (s.edges.size + 1) (qAdd (shearRing ε R) wB s.edges.size rest)))
    (g8 : Cross (shearRing ε R) ((shearRing ε R).x w)
      (flatE pre ++ (⟨s.edges.size, w, wB⟩ : AE) :: (⟨s.edges.size + 1, w, wT⟩ : AE) :: flatE post)) :
    ∃ s', (handleNext : SM XQ Unit).run s = .ok ((), s') ∧
      ∃ ivs', InvV R ε s' ((shearRing ε R).x w) (R.x w) ivs' := by
  have hR := hSh.ring
  have hN := hSh.nocross
  have hq := hI.q
  rw [hev, flatE_append] at hq
  have hwq := hq.gt (w, es) List.mem_cons_self
  have hwn : w < R.n := hwq.1
  obtain ⟨hBn, hTn, hadjB, hadjT, hBT, hnbrs⟩ := start_nbrs hR hwn hnb
  have hid := hq.idinj
  obtain ⟨t1, t2, t3, t4, t5, t6, t7⟩ := startW_tests hSh (cpl_at hSh hwn) hid g5 g6
  have hG := ids_eg hI.lk hI.q.idinj
  rw [flatE_append, List.map_append] at hG
  rw [List.map_append] at t5
  have hact : s.active = (flatE pre).map (·.id) ++ (flatE post).map (·.id) := by
    rw [hI.act, flatE_append, List.map_append]
  have hevs : ∀ a ∈ rest, a.1 < s.verts.size := by
    intro a ha
    rw [hI.vget.1]
    exact (hq.gt a (List.mem_cons_of_mem _ ha)).1
  have hlk := hI.lk
  rw [linked_append] at hlk
  obtain ⟨hlpre, hlpost⟩ := hlk
  have hmemP : ∀ x ∈ flatE pre, x ∈ flatE pre ++ flatE post := fun x hx => List.mem_append_left _ hx
  have hmemQ : ∀ x ∈ flatE post, x ∈ flatE pre ++ flatE post := fun x hx => List.mem_append_right _ hx
  have hyB : hY (shearRing ε R) (⟨s.edges.size, w, wB⟩ : AE) ((shearRing ε R).x w) = (R.pt w).2 := lineY_left _ _
  have hyT : hY (shearRing ε R) (⟨s.edges.size + 1, w, wT⟩ : AE) ((shearRing ε R).x w) = (R.pt w).2 := lineY_left _ _
  have hnd : (flatE pre ++ flatE post).Nodup := by
    have := nodup_of_pairwise_below hI.sorted
    rw [flatE_append] at this; exact this
  have hprepost : ∀ x ∈ flatE pre, ∀ y ∈ flatE post, x.id ≠ y.id := by
    intro x hx y hy e
    have := hid x (hmemP x hx) y (hmemQ y hy) e
    subst this
    rw [List.nodup_append] at hnd
    exact hnd.2.2 x hx x hy rfl
  have hidlt : ∀ a ∈ flatE pre ++ flatE post, a.id < s.edges.size := by
    intro a ha
    rw [← flatE_append] at ha
    obtain ⟨e, he, -⟩ := Linked.eg hI.lk a ha
    exact lt_of_get' he
  have hbb : ∀ bb, ((flatE pre).map (·.id)).getLast? = some bb → ∃ cbb, s.edges[bb]? = some cbb ∧
      cbb.bofIn = false ∧ wobP (Fq (R.pt w)) (Fq (R.pt wB)) (Lf R (flatE pre ++ flatE post) bb)
        (Rf R (flatE pre ++ flatE post) bb) = false := by
    intro bb h
    rw [ids_getLast] at h
    obtain ⟨pre', ivb, e1, rfl⟩ := lastHi_eq_some h
    obtain ⟨_, _, -, hcb, -⟩ := Linked.mem hlpre ivb (by rw [e1]; simp)
    have hm : ivb.hi ∈ flatE pre := by rw [e1]; simp
    refine ⟨_, hcb, rfl, ?_⟩
    rw [Lf_id hid (hmemP _ hm), Rf_id hid (hmemP _ hm)]
    exact wobW hSh (cpl_at hSh hwn) (lo := ivb.hi) (up := ⟨s.edges.size, w, wB⟩)
      (g3 _ (hmemP _ hm)) (g5 _ (by simp)) (by rw [hyB]; exact hPlow _ hm)
      (fun e => lv_ne_of_height (R := shearRing ε R) (ne_of_lt (hPlow _ hm)) e.1)
  have htt : ∀ tt, ((flatE post).map (·.id)).head? = some tt → ∃ ctt, s.edges[tt]? = some ctt ∧
      ctt.bofIn = true ∧ wotP (Fq (R.pt w)) (Fq (R.pt wT)) (Lf R (flatE pre ++ flatE post) tt)
        (Rf R (flatE pre ++ flatE post) tt) = false := by
    intro tt h
    rw [ids_head] at h
    obtain ⟨ivt, post', e1, rfl⟩ := nxtLo_eq_some h
    obtain ⟨_, _, hct, -, -⟩ := Linked.mem hlpost ivt (by rw [e1]; simp)
    have hm : ivt.lo ∈ flatE post := by rw [e1]; simp
    refine ⟨_, hct, rfl, ?_⟩
    rw [Lf_id hid (hmemQ _ hm), Rf_id hid (hmemQ _ hm)]
    exact wotW hSh (cpl_at hSh hwn) (lo := ⟨s.edges.size + 1, w, wT⟩) (up := ivt.lo)
      (g5 _ (by simp)) (g3 _ (hmemQ _ hm)) (by rw [hyT]; exact hQhigh _ hm)
      (fun e => lv_ne_of_height (R := shearRing ε R) (ne_of_gt (hQhigh _ hm)) e.1.symm)
  have hpc : ∀ bb tt, ((flatE pre).map (·.id)).getLast? = some bb →
      ((flatE post).map (·.id)).head? = some tt → bb ≠ tt ∧
      partialCmpEdgeP (Lf R (flatE pre ++ flatE post) bb) (Rf R (flatE pre ++ flatE post) bb)
        (Lf R (flatE pre ++ flatE post) tt) (Rf R (flatE pre ++ flatE post) tt) (.fin (R.x w)) = some .lt := by
    intro bb tt h1 h2
    rw [ids_getLast] at h1
    rw [ids_head] at h2
    obtain ⟨pre', ivb, e1, rfl⟩ := lastHi_eq_some h1
    obtain ⟨ivt, post', e2, rfl⟩ := nxtLo_eq_some h2
    have hm1 : ivb.hi ∈ flatE pre := by rw [e1]; simp
    have hm2 : ivt.lo ∈ flatE post := by rw [e2]; simp
    refine ⟨hprepost _ hm1 _ hm2, ?_⟩
    rw [Lf_id hid (hmemP _ hm1), Rf_id hid (hmemP _ hm1), Lf_id hid (hmemQ _ hm2), Rf_id hid (hmemQ _ hm2)]
    have s1 := g3 _ (hmemP _ hm1)
    have s2 := g3 _ (hmemQ _ hm2)
    exact partialCmp_lt _ _ _ _ _ (belowW_pt hSh hwn s1 (hPlow _ hm1)).1 (aboveW_pt hSh hwn s2 (hQhigh _ hm2)).1
      (span_orig (cpl_at hSh hwn) s1).1 (span_orig (cpl_at hSh hwn) s1).2
      (span_orig (cpl_at hSh hwn) s2).1 (span_orig (cpl_at hSh hwn) s2).2
      (lt_trans (belowW_pt hSh hwn s1 (hPlow _ hm1)).2 (aboveW_pt hSh hwn s2 (hQhigh _ hm2)).2)
  have hvc := vicfree_start (iB := s.edges.size) (iT := s.edges.size + 1) hSh hwn hBn hTn hadjT hxB hxT hid
    hPlow hQhigh g3 g6
  obtain ⟨E', hrun, hPE⟩ := start_run_properV s w (R.prv w) (R.nxt w) wB wT _ _ _ _ es rest
    (Fq (R.pt w)) (Fq (R.pt wB)) (Fq (R.pt wT)) ((flatE pre).map (·.id)) ((flatE post).map (·.id))
    (Lf R (flatE pre ++ flatE post)) (Rf R (flatE pre ++ flatE post)) hev (hI.vget.2 w hwn) hnb
    (hI.vget.2 wB hBn) (hI.vget.2 wT hTn) (ftV_start hSh hwn hBn hTn hxB hxT) (ftV_start hSh hwn hTn hBn hxT hxB)
    hvc.1 hvc.2 t6 t7 hevs hI.mono hact hG t1 t2 t3 t4 t5
    (fun k _ => TriGeom.cmpEdgeP_self _ _ _) hbb htt hpc
  rw [ids_getLast, ids_head] at hPE
  refine ⟨_, hrun, pre ++ ⟨⟨s.edges.size, w, wB⟩, ⟨s.edges.size + 1, w, wT⟩, s.chains.size⟩ :: post, ?_⟩
  have hflat' : flatE (pre ++ (⟨⟨s.edges.size, w, wB⟩, ⟨s.edges.size + 1, w, wT⟩, s.chains.size⟩ : IV) :: post) =
      flatE pre ++ (⟨s.edges.size, w, wB⟩ : AE) :: (⟨s.edges.size + 1, w, wT⟩ : AE) :: flatE post := by simp
  have hcilt : ∀ j ∈ pre ++ post, j.ci < s.chains.size := by
    intro j hj
    obtain ⟨_, _, -, -, c, hc, -⟩ := Linked.mem hI.lk j hj
    exact lt_of_get' hc
  have hptN : ∀ i, i < s.nodes.size → ptAt (s.nodes.push ⟨Fq (R.pt w), none, none⟩) i = ptAt s.nodes i :=
    fun i hi => ptAt_push_lt _ _ hi
  have hszN : s.nodes.size ≤ (s.nodes.push ⟨Fq (R.pt w), none, none⟩).size := by
    rw [Array.size_push]; omega
  have hchain : ∀ j ∈ pre ++ post,
      (s.chains.push ⟨s.nodes.size, s.nodes.size, s.nodes.size⟩)[j.ci]? = s.chains[j.ci]? := by
    intro j hj
    have := hcilt j hj
    rw [Array.getElem?_push_lt this, ← Array.getElem?_eq_getElem this]
  refine ⟨hI.vget, hI.mono, fun _ => rfl, ?_, ?_, ?_, ?_, ?_, ?_, ?_, ?_, cpl_at hSh hwn⟩
  · show (flatE pre).map (·.id) ++ s.edges.size :: (s.edges.size + 1) :: (flatE post).map (·.id) = _
    rw [hflat']; simp
  · have := hI.cind
    rw [List.map_append] at this
    rw [List.map_append, List.map_cons]
    have hfresh : s.chains.size ∉ pre.map (·.ci) ++ post.map (·.ci) := by
      intro hm
      rw [← List.map_append] at hm
      obtain ⟨j, hj, e⟩ := List.mem_map.mp hm
      have := hcilt j hj
      omega
    rw [List.nodup_append] at this ⊢
    obtain ⟨n1, n2, n3⟩ := this
    refine ⟨n1, List.nodup_cons.mpr ⟨fun h => hfresh (List.mem_append_right _ h), n2⟩, ?_⟩
    intro a ha b hb
    rcases List.mem_cons.mp hb with rfl | hb
    · rintro rfl
      exact hfresh (List.mem_append_left _ ha)
    · exact n3 a ha b hb
  · rw [linked_append]
    constructor
    · -- the in-intervals below
      show Linked _ R none pre (some s.edges.size)
      refine Linked.set_above hlpre ?_ ?_ hszN hptN ?_
      · intro j hj
        have hjm := mem_flatE_of hj
        refine ⟨hPE.fr _ (hidlt _ (hmemP _ hjm.1)) ?_ ?_, hchain j (List.mem_append_left _ hj)⟩
        · intro e
          obtain ⟨pre', ivb, e1, e2⟩ := lastHi_eq_some e
          exact Linked.lo_ne_hi hlpre (j := j) (k := ivb) hj (by rw [e1]; simp) e2
        · intro e
          obtain ⟨ivt, post', e1, e2⟩ := nxtLo_eq_some e
          exact hprepost _ hjm.1 ivt.lo (by rw [e1]; simp) e2
      · intro j hj
        have hjpre : j ∈ pre := List.mem_of_mem_dropLast hj
        have hjm := mem_flatE_of hjpre
        refine hPE.fr _ (hidlt _ (hmemP _ hjm.2)) ?_ ?_
        · intro e
          obtain ⟨pre', ivb, e1, e2⟩ := lastHi_eq_some e
          rw [e1, List.dropLast_concat] at hj
          have hndpre : (flatE pre' ++ ivb.lo :: ivb.hi :: ([] : List AE)).Nodup := by
            have := (List.nodup_append.mp hnd).1
            rw [e1] at this
            simpa using this
          have := (nodup_mid hndpre).2 j.hi (by simpa using (mem_flatE_of hj).2)
          apply this.2
          exact hid _ (hmemP _ hjm.2) _ (hmemP _ (by rw [e1]; simp)) e2
        · intro e
          obtain ⟨ivt, post', e1, e2⟩ := nxtLo_eq_some e
          exact hprepost _ hjm.2 ivt.lo (by rw [e1]; simp) e2
      · intro pre' ivb e1
        have hcb : ECell s R ivb.hi ivb.ci false (some ivb.lo.id) (nxtLo post none) := by
          have := hlpre
          rw [e1, linked_append] at this
          exact this.2.2.1
        exact hPE.bb ivb.hi.id _ (by rw [e1, lastHi_snoc]) hcb
    · refine ⟨?_, ?_, ?_, ?_⟩
      · exact hPE.bot
      · show E'[s.edges.size + 1]? = _
        rw [hPE.top]
      · refine ⟨_, Array.getElem?_push_size, ?_, ptAt_push_size _ _, ptAt_push_size _ _⟩
        show s.nodes.size < (s.nodes.push _).size
        rw [Array.size_push]; omega
      · -- the in-intervals above
        refine Linked.set_below hlpost ?_ ?_ hszN hptN ?_
        · intro j hj
          have hjm := mem_flatE_of hj
          refine ⟨hPE.fr _ (hidlt _ (hmemQ _ hjm.2)) ?_ ?_, hchain j (List.mem_append_right _ hj)⟩
          · intro e
            obtain ⟨pre', ivb, e1, e2⟩ := lastHi_eq_some e
            exact hprepost ivb.hi (by rw [e1]; simp) _ hjm.2 e2.symm
          · intro e
            obtain ⟨ivt, post', e1, e2⟩ := nxtLo_eq_some e
            exact Linked.lo_ne_hi hlpost (j := ivt) (k := j) (by rw [e1]; simp) hj e2.symm
        · intro j hj
          have hjpost : j ∈ post := List.mem_of_mem_tail hj
          have hjm := mem_flatE_of hjpost
          refine hPE.fr _ (hidlt _ (hmemQ _ hjm.1)) ?_ ?_
          · intro e
            obtain ⟨pre', ivb, e1, e2⟩ := lastHi_eq_some e
            exact hprepost ivb.hi (by rw [e1]; simp) _ hjm.1 e2.symm
          · intro e
            obtain ⟨ivt, post', e1, e2⟩ := nxtLo_eq_some e
            rw [e1, List.tail_cons] at hj
            have hndpost : (([] : List AE) ++ ivt.lo :: ivt.hi :: flatE post').Nodup := by
              have := (List.nodup_append.mp hnd).2.1
              rw [e1] at this
              simpa using this
            have := (nodup_mid hndpost).2 j.lo (by simpa using (mem_flatE_of hj).1)
            apply this.1
            exact hid _ (hmemQ _ hjm.1) _ (hmemQ _ (by rw [e1]; simp)) e2
        · intro ivt post' e1
          have hct : ECell s R ivt.lo ivt.ci true (lastHi pre none) (some ivt.hi.id) := by
            have := hlpost
            rw [e1] at this
            exact this.1
          exact hPE.tt ivt.lo.id _ (by rw [e1]; rfl) hct
  · exact nodesOk_push hI.nok _ (oLt_none _) (oLt_none _)
  · rw [hflat']; exact g5
  · rw [hflat']; exact g6
  · rw [hflat']
    show QCore (shearRing ε R) ((shearRing ε R).x w) _ (evAdd s.verts (Fq (R.pt wT)) wT (s.edges.size + 1)
      (evAdd s.verts (Fq (R.pt wB)) wB s.edges.size rest))
    rw [startV_events hSh hI.vget hq hBn hTn]
    exact g7
  · rw [hflat']; exact g8

/-- the invariant after an improper Start, from the description of the new heap -/
theorem splitV_inv (hSh : ShOK R ε Vε) {s s' : St XQ} {xs X : Rat} {pre post : List IV} {iv : IV}
    (hI : InvV R ε s xs X (pre ++ iv :: post))
    {w : Nat} {es : List Nat} {rest : List (Nat × List Nat)} (hev : s.events = (w, es) :: rest)
    (hwn : w < R.n) {wB wT : Nat} (hBn : wB < R.n) (hTn : wT < R.n) {c : Chain} {N4 : Array (Node XQ)}
    (hc : s.chains[iv.ci]? = some c)
    (hh : ptAt s.nodes c.head = some (Fq (R.pt iv.lo.lv)))
    (ht : ptAt s.nodes c.tail = some (Fq (R.pt iv.hi.lv)))
    (hN4 : NodesOk N4) (hsz4 : N4.size = s.nodes.size + 4)
    (hpt4 : ∀ i, i < s.nodes.size → ptAt N4 i = ptAt s.nodes i)
    (hp1 : ptAt N4 (s.nodes.size + 1) = some (Fq (R.pt w)))
    (hp2 : ptAt N4 (s.nodes.size + 2) = ptAt s.nodes c.rm)
    (hp3 : ptAt N4 (s.nodes.size + 3) = some (Fq (R.pt w)))
    (hv' : s'.verts = s.verts) (hm' : s'.mono = s.mono) (hx' : s'.x = .fin (R.x w))
    (hact' : s'.active = (flatE pre ++ [iv.lo]).map (·.id) ++ s.edges.size :: (s.edges.size + 1) ::
      (iv.hi :: flatE post).map (·.id))
    (hE' : s'.edges = splitE s.edges (Fq (R.pt wB)) (Fq (R.pt wT)) s.chains.size iv.lo.id iv.hi.id
      ⟨Fq (R.pt iv.lo.rv), iv.ci, true, lastHi pre none, some iv.hi.id⟩
      ⟨Fq (R.pt iv.hi.rv), iv.ci, false, some iv.lo.id, nxtLo post none⟩)
    (hC' : s'.chains = ((s.chains.push ⟨s.nodes.size, s.nodes.size, s.nodes.size⟩).push
        ⟨s.nodes.size + 1, c.head, s.nodes.size + 1⟩).push
        ⟨s.nodes.size + 1 + 2, s.nodes.size + 1 + 2,
          if c.tail = c.rm then s.nodes.size + 1 + 1 else c.tail⟩)
    (hNd' : s'.nodes = N4)
    (hEv' : s'.events = evAdd s.verts (Fq (R.pt wT)) wT (s.edges.size + 1)
      (evAdd s.verts (Fq (R.pt wB)) wB s.edges.size rest))
    (g5 : ∀ a ∈ (flatE pre ++ [iv.lo]) ++ (⟨s.edges.size, w, wB⟩ : AE) :: (⟨s.edges.size + 1, w, wT⟩ : AE) ::
      (iv.hi :: flatE post), Span (shearRing ε R) ((shearRing ε R).x w) a)
    (g6 : ((flatE pre ++ [iv.lo]) ++ (⟨s.edges.size, w, wB⟩ : AE) :: (⟨s.edges.size + 1, w, wT⟩ : AE) ::
      (iv.hi :: flatE post)).Pairwise (Below (shearRing ε R) ((shearRing ε R).x w)))
    (g7 : QCore (shearRing ε R) ((shearRing ε R).x w)
      ((flatE pre ++ [iv.lo]) ++ (⟨s.edges.size, w, wB⟩ : AE) :: (⟨s.edges.size + 1, w, wT⟩ : AE) ::
        (iv.hi :: flatE post))
      (qAdd (shearRing ε R) wT (s.edges.size + 1) (qAdd (shearRing ε R) wB s.edges.size rest)))
    (g8 : Cross (shearRing ε R) ((shearRing ε R).x w)
      ((flatE pre ++ [iv.lo]) ++ (⟨s.edges.size, w, wB⟩ : AE) :: (⟨s.edges.size + 1, w, wT⟩ : AE) ::
        (iv.hi :: flatE post))) :
    InvV R ε s' ((shearRing ε R).x w) (R.x w) (pre ++ ([⟨iv.lo, ⟨s.edges.size, w, wB⟩, s.chains.size + 1⟩,
      ⟨⟨s.edges.size + 1, w, wT⟩, iv.hi, s.chains.size + 1 + 1⟩] ++ post)) := by
  have hR := hSh.ring
  have hq := hI.q
  have hflat : flatE (pre ++ iv :: post) = (flatE pre ++ [iv.lo]) ++ iv.hi :: flatE post := by simp
  rw [hev, hflat] at hq
  have hid := hq.idinj
  have hlom : iv.lo ∈ (flatE pre ++ [iv.lo]) ++ iv.hi :: flatE post := by simp
  have hhim : iv.hi ∈ (flatE pre ++ [iv.lo]) ++ iv.hi :: flatE post := by simp
  have hnd : ((flatE pre ++ [iv.lo]) ++ iv.hi :: flatE post).Nodup := by
    have := nodup_of_pairwise_below hI.sorted
    rw [hflat] at this; exact this
  have hnd' : (flatE pre ++ iv.lo :: iv.hi :: flatE post).Nodup := by simpa using hnd
  obtain ⟨hlohi, hothers⟩ := nodup_mid hnd'
  have hidlt : ∀ a ∈ (flatE pre ++ [iv.lo]) ++ iv.hi :: flatE post, a.id < s.edges.size := by
    intro a ha
    rw [← hflat] at ha
    obtain ⟨e, he, -⟩ := Linked.eg hI.lk a ha
    exact lt_of_get' he
  have hidne : iv.lo.id ≠ iv.hi.id := fun e => hlohi (hid _ hlom _ hhim e)
  have hflat' : flatE (pre ++ ([(⟨iv.lo, ⟨s.edges.size, w, wB⟩, s.chains.size + 1⟩ : IV),
      ⟨⟨s.edges.size + 1, w, wT⟩, iv.hi, s.chains.size + 1 + 1⟩] ++ post)) =
      (flatE pre ++ [iv.lo]) ++ (⟨s.edges.size, w, wB⟩ : AE) :: (⟨s.edges.size + 1, w, wT⟩ : AE) ::
        (iv.hi :: flatE post) := by simp
  have hcilt : ∀ j ∈ pre ++ iv :: post, j.ci < s.chains.size := by
    intro j hj
    obtain ⟨_, _, -, -, c', hc', -⟩ := Linked.mem hI.lk j hj
    exact lt_of_get' hc'
  have hbblt := hidlt _ hlom
  have httlt := hidlt _ hhim
  refine ⟨by rw [hv']; exact hI.vget, by rw [hm']; exact hI.mono, fun _ => hx', ?_, ?_, ?_,
    by rw [hNd']; exact hN4, ?_, ?_, ?_, ?_, cpl_at hSh hwn⟩
  · rw [hact', hflat']; simp
  · have := hI.cind
    rw [List.map_append, List.map_cons] at this
    have hfresh : ∀ k, s.chains.size ≤ k → k ∉ pre.map (·.ci) ++ post.map (·.ci) := by
      intro k hk hm
      rw [← List.map_append] at hm
      obtain ⟨j, hj, e⟩ := List.mem_map.mp hm
      have := hcilt j (by
        rcases List.mem_append.mp hj with h | h
        · exact List.mem_append_left _ h
        · exact List.mem_append_right _ (List.mem_cons_of_mem _ h))
      omega
    simp only [List.map_append, List.map_cons, List.map_nil, List.cons_append, List.nil_append]
    rw [List.nodup_append] at this ⊢
    obtain ⟨n1, n2, n3⟩ := this
    have n2' := (List.nodup_cons.mp n2).2
    refine ⟨n1, ?_, ?_⟩
    · refine List.nodup_cons.mpr ⟨?_, List.nodup_cons.mpr ⟨?_, n2'⟩⟩
      · intro h
        rcases List.mem_cons.mp h with h | h
        · omega
        · exact hfresh _ (by omega) (List.mem_append_right _ h)
      · intro h
        exact hfresh _ (by omega) (List.mem_append_right _ h)
    · intro a ha b hb
      rcases List.mem_cons.mp hb with rfl | hb
      · rintro rfl
        exact hfresh _ (by omega) (List.mem_append_left _ ha)
      · rcases List.mem_cons.mp hb with rfl | hb
        · rintro rfl
          exact hfresh _ (by omega) (List.mem_append_left _ ha)
        · exact n3 a ha b (List.mem_cons_of_mem _ hb)
  · refine Linked.splice (mid := [iv]) (by simpa using hI.lk) rfl rfl ?_
      (by rw [hNd']; omega) (by rw [hNd']; exact hpt4) ?_
    · intro j hj
      have hj' : j ∈ pre ++ iv :: post := by
        rcases List.mem_append.mp hj with h | h
        · exact List.mem_append_left _ h
        · exact List.mem_append_right _ (List.mem_cons_of_mem _ h)
      have hjm : j.lo ∈ flatE pre ++ flatE post ∧ j.hi ∈ flatE pre ++ flatE post := by
        have := mem_flatE_of hj
        rw [flatE_append] at this; exact this
      have hm1 : j.lo ∈ (flatE pre ++ [iv.lo]) ++ iv.hi :: flatE post := by
        rcases List.mem_append.mp hjm.1 with h | h
        · simp [h]
        · simp [h]
      have hm2 : j.hi ∈ (flatE pre ++ [iv.lo]) ++ iv.hi :: flatE post := by
        rcases List.mem_append.mp hjm.2 with h | h
        · simp [h]
        · simp [h]
      have n1 := hothers _ hjm.1
      have n2 := hothers _ hjm.2
      rw [hE', hC']
      refine ⟨?_, ?_, ?_⟩
      · exact splitE_old _ _ _ _ _ _ _ _ (hidlt _ hm1) (fun e => n1.1 (hid _ hm1 _ hlom e))
          (fun e => n1.2 (hid _ hm1 _ hhim e))
      · exact splitE_old _ _ _ _ _ _ _ _ (hidlt _ hm2) (fun e => n2.1 (hid _ hm2 _ hlom e))
          (fun e => n2.2 (hid _ hm2 _ hhim e))
      · have := hcilt j hj'
        rw [push_get_lt _ _ (by simp; omega), push_get_lt _ _ (by simp; omega), push_get_lt _ _ this]
    · -- the two new in-intervals
      refine ⟨?_, ?_, ?_, ?_, ?_, ?_, trivial⟩
      · unfold ECell
        rw [hE', splitE_bb _ _ _ _ _ _ _ _ hbblt httlt hidne]
      · unfold ECell
        rw [hE', splitE_D _ _ _ _ _ _ _ _ hbblt httlt]
        rfl
      · refine ⟨⟨s.nodes.size + 1, c.head, s.nodes.size + 1⟩, ?_, ?_, ?_, ?_⟩
        · rw [hC']
          exact push3_get1 _ _ _ _
        · rw [hNd']; show s.nodes.size + 1 < N4.size; omega
        · rw [hNd']; show ptAt N4 c.head = _
          rw [hpt4 _ (ptAt_some_lt hh)]; exact hh
        · rw [hNd']; exact hp1
      · unfold ECell
        rw [hE', splitE_D1]
        rfl
      · unfold ECell
        rw [hE', splitE_tt _ _ _ _ _ _ _ _ httlt]
        rfl
      · refine ⟨⟨s.nodes.size + 1 + 2, s.nodes.size + 1 + 2,
          if c.tail = c.rm then s.nodes.size + 1 + 1 else c.tail⟩, ?_, ?_, ?_, ?_⟩
        · rw [hC']
          exact push3_get2 _ _ _ _
        · rw [hNd']; show s.nodes.size + 1 + 2 < N4.size; omega
        · rw [hNd']; exact hp3
        · rw [hNd']; show ptAt N4 (if c.tail = c.rm then s.nodes.size + 1 + 1 else c.tail) = _
          by_cases e : c.tail = c.rm
          · rw [if_pos e, hp2, ← e]; exact ht
          · rw [if_neg e, hpt4 _ (ptAt_some_lt ht)]; exact ht
  · rw [hflat']; exact g5
  · rw [hflat']; exact g6
  · rw [hflat', hEv', startV_events hSh hI.vget hq hBn hTn]
    exact g7
  · rw [hflat']; exact g8


/-- **the improper Start keeps the invariant** -/
theorem stepW_start_split (hSh : ShOK R ε Vε) {s : St XQ} {xs X : Rat} {pre post : List IV} {iv : IV}
    (hI : InvV R ε s xs X (pre ++ iv :: post))
    {w : Nat} {es : List Nat} {rest : List (Nat × List Nat)} (hev : s.events = (w, es) :: rest)
    {wB wT : Nat} (hnb : (R.prv w = wB ∧ R.nxt w = wT) ∨ (R.prv w = wT ∧ R.nxt w = wB))
    (hxB : (shearRing ε R).x w < (shearRing ε R).x wB) (hxT : (shearRing ε R).x w < (shearRing ε R).x wT)
    (hPlow : ∀ a ∈ flatE pre ++ [iv.lo], hY (shearRing ε R) a ((shearRing ε R).x w) < (R.pt w).2)
    (hQhigh : ∀ a ∈ iv.hi :: flatE post, (R.pt w).2 < hY (shearRing ε R) a ((shearRing ε R).x w))
    (g3 : ∀ a ∈ (flatE pre ++ [iv.lo]) ++ iv.hi :: flatE post, Span (shearRing ε R) ((shearRing ε R).x w) a)
    (g5 : ∀ a ∈ (flatE pre ++ [iv.lo]) ++ (⟨s.edges.size, w, wB⟩ : AE) :: (⟨s.edges.size + 1, w, wT⟩ : AE) ::
      (iv.hi :: flatE post), Span (shearRing ε R) ((shearRing ε R).x w) a)
    (g6 : ((flatE pre ++ [iv.lo]) ++ (⟨s.edges.size, w, wB⟩ : AE) :: (⟨s.edges.size + 1, w, wT⟩ : AE) ::
      (iv.hi :: flatE post)).Pairwise (Below (shearRing ε R) ((shearRing ε R).x w)))
    (g7 : QCore (shearRing ε R) ((shearRing ε R).x w)
      ((flatE pre ++ [iv.lo]) ++ (⟨s.edges.size, w, wB⟩ : AE) :: (⟨s.edges.size + 1, w, wT⟩ : AE) ::
        (iv.hi :: flatE post))
      (qAdd (shearRing ε R) wT (s.edges.size + 1) (qAdd (shearRing ε R) wB s.edges.size rest)))
    (g8 : Cross (shearRing ε R) ((shearRing ε R).x w)
      ((flatE pre ++ [iv.lo]) ++ (⟨s.edges.size, w, wB⟩ : AE) :: (⟨s.edges.size + 1, w, wT⟩ : AE) ::
        (iv.hi :: flatE post))) :
    ∃ s', (handleNext : SM XQ Unit).run s = .ok ((), s') ∧
      ∃ ivs', InvV R ε s' ((shearRing ε R).x w) (R.x w) ivs' := by
  have hR := hSh.ring
  have hN := hSh.nocross
  have hq := hI.q
  have hflat : flatE (pre ++ iv :: post) = (flatE pre ++ [iv.lo]) ++ iv.hi :: flatE post := by simp
  rw [hev, hflat] at hq
  have hwq := hq.gt (w, es) List.mem_cons_self
  have hwn : w < R.n := hwq.1
  obtain ⟨hBn, hTn, hadjB, hadjT, hBT, hnbrs⟩ := start_nbrs hR hwn hnb
  have hid := hq.idinj
  obtain ⟨t1, t2, t3, t4, t5, t6, t7⟩ := startW_tests hSh (cpl_at hSh hwn) hid g5 g6
  have hG := ids_eg hI.lk hI.q.idinj
  rw [hflat, List.map_append] at hG
  rw [List.map_append] at t5
  have hact : s.active = (flatE pre ++ [iv.lo]).map (·.id) ++ (iv.hi :: flatE post).map (·.id) := by
    rw [hI.act, hflat, List.map_append]
  have hevs : ∀ a ∈ rest, a.1 < s.verts.size := by
    intro a ha
    rw [hI.vget.1]
    exact (hq.gt a (List.mem_cons_of_mem _ ha)).1
  have hlom : iv.lo ∈ (flatE pre ++ [iv.lo]) ++ iv.hi :: flatE post := by simp
  have hhim : iv.hi ∈ (flatE pre ++ [iv.lo]) ++ iv.hi :: flatE post := by simp
  have hyB : hY (shearRing ε R) (⟨s.edges.size, w, wB⟩ : AE) ((shearRing ε R).x w) = (R.pt w).2 := lineY_left _ _
  have hyT : hY (shearRing ε R) (⟨s.edges.size + 1, w, wT⟩ : AE) ((shearRing ε R).x w) = (R.pt w).2 := lineY_left _ _
  have hnd : ((flatE pre ++ [iv.lo]) ++ iv.hi :: flatE post).Nodup := by
    have := nodup_of_pairwise_below hI.sorted
    rw [hflat] at this; exact this
  have hnd' : (flatE pre ++ iv.lo :: iv.hi :: flatE post).Nodup := by simpa using hnd
  obtain ⟨hlohi, hothers⟩ := nodup_mid hnd'
  obtain ⟨hc1, hc2, hc3⟩ := Linked.mid hI.lk
  obtain ⟨c, hc, hrm, hh, ht⟩ := hc3
  have hlow := hPlow iv.lo (by simp)
  have hhigh := hQhigh iv.hi (by simp)
  have hidne : iv.lo.id ≠ iv.hi.id := fun e => hlohi (hid _ hlom _ hhim e)
  -- comparisons of the two bounding edges with the others
  have hpwB : ((flatE pre).map (·.id) ++ iv.lo.id :: (iv.hi :: flatE post).map (·.id)).Pairwise
      (CmpLt (Lf R ((flatE pre ++ [iv.lo]) ++ iv.hi :: flatE post))
        (Rf R ((flatE pre ++ [iv.lo]) ++ iv.hi :: flatE post)) (.fin (R.x w))) := by
    simpa using t5
  have hpwT : ((flatE pre ++ [iv.lo]).map (·.id) ++ iv.hi.id :: (flatE post).map (·.id)).Pairwise
      (CmpLt (Lf R ((flatE pre ++ [iv.lo]) ++ iv.hi :: flatE post))
        (Rf R ((flatE pre ++ [iv.lo]) ++ iv.hi :: flatE post)) (.fin (R.x w))) := by
    simpa using t5
  obtain ⟨b1, b2⟩ := pairwise_at hpwB
  obtain ⟨b3, b4⟩ := pairwise_at hpwT
  have s1 := g3 _ hlom
  have s2 := g3 _ hhim
  have hpc : partialCmpEdgeP (Lf R ((flatE pre ++ [iv.lo]) ++ iv.hi :: flatE post) iv.lo.id)
      (Rf R ((flatE pre ++ [iv.lo]) ++ iv.hi :: flatE post) iv.lo.id)
      (Lf R ((flatE pre ++ [iv.lo]) ++ iv.hi :: flatE post) iv.hi.id)
      (Rf R ((flatE pre ++ [iv.lo]) ++ iv.hi :: flatE post) iv.hi.id) (.fin (R.x w)) = some .lt := by
    rw [Lf_id hid hlom, Rf_id hid hlom, Lf_id hid hhim, Rf_id hid hhim]
    exact partialCmp_lt _ _ _ _ _ (belowW_pt hSh hwn s1 hlow).1 (aboveW_pt hSh hwn s2 hhigh).1
      (span_orig (cpl_at hSh hwn) s1).1 (span_orig (cpl_at hSh hwn) s1).2
      (span_orig (cpl_at hSh hwn) s2).1 (span_orig (cpl_at hSh hwn) s2).2
      (lt_trans (belowW_pt hSh hwn s1 hlow).2 (aboveW_pt hSh hwn s2 hhigh).2)
  have hwob : wobP (Fq (R.pt w)) (Fq (R.pt wB))
      (Lf R ((flatE pre ++ [iv.lo]) ++ iv.hi :: flatE post) iv.lo.id)
      (Rf R ((flatE pre ++ [iv.lo]) ++ iv.hi :: flatE post) iv.lo.id) = false := by
    rw [Lf_id hid hlom, Rf_id hid hlom]
    exact wobW hSh (cpl_at hSh hwn) (lo := iv.lo) (up := ⟨s.edges.size, w, wB⟩)
      s1 (g5 _ (by simp)) (by rw [hyB]; exact hlow) (fun e => lv_ne_of_height (R := shearRing ε R) (ne_of_lt hlow) e.1)
  have hwot : wotP (Fq (R.pt w)) (Fq (R.pt wT))
      (Lf R ((flatE pre ++ [iv.lo]) ++ iv.hi :: flatE post) iv.hi.id)
      (Rf R ((flatE pre ++ [iv.lo]) ++ iv.hi :: flatE post) iv.hi.id) = false := by
    rw [Lf_id hid hhim, Rf_id hid hhim]
    exact wotW hSh (cpl_at hSh hwn) (lo := ⟨s.edges.size + 1, w, wT⟩) (up := iv.hi)
      (g5 _ (by simp)) s2 (by rw [hyT]; exact hhigh) (fun e => lv_ne_of_height (R := shearRing ε R) (ne_of_gt hhigh) e.1.symm)
  have hvc := vicfree_start (iB := s.edges.size) (iT := s.edges.size + 1) hSh hwn hBn hTn hadjT hxB hxT hid
    hPlow hQhigh g3 g6
  obtain ⟨N4, out4, hrun, hN4, hsz4, hpt4, hp1, hp2, hp3⟩ := start_run_splitV s w (R.prv w) (R.nxt w) wB wT
    (R.prv wB) (R.nxt wB) (R.prv wT) (R.nxt wT) es rest (Fq (R.pt w)) (Fq (R.pt wB)) (Fq (R.pt wT))
    ((flatE pre ++ [iv.lo]).map (·.id)) ((iv.hi :: flatE post).map (·.id))
    (Lf R ((flatE pre ++ [iv.lo]) ++ iv.hi :: flatE post)) (Rf R ((flatE pre ++ [iv.lo]) ++ iv.hi :: flatE post))
    ((flatE pre).map (·.id)) ((flatE post).map (·.id)) iv.lo.id iv.hi.id
    ⟨Fq (R.pt iv.lo.rv), iv.ci, true, lastHi pre none, some iv.hi.id⟩
    ⟨Fq (R.pt iv.hi.rv), iv.ci, false, some iv.lo.id, nxtLo post none⟩ c
    hev (hI.vget.2 w hwn) hnb
    (hI.vget.2 wB hBn) (hI.vget.2 wT hTn) (ftV_start hSh hwn hBn hTn hxB hxT) (ftV_start hSh hwn hTn hBn hxT hxB)
    hvc.1 hvc.2 t6 t7 hevs hI.mono (by simp) (by simp)
    hact hG t1 t2 t3 t4 hc1 hc2 rfl rfl rfl hidne
    (fun k hk => (b1 k hk).2) (TriGeom.cmpEdgeP_self _ _ _) (fun k hk => (b2 k hk).1)
    (fun k hk => (b3 k hk).2) (TriGeom.cmpEdgeP_self _ _ _) (fun k hk => (b4 k hk).1)
    hpc hwob hwot hI.nok hc hrm
  refine ⟨_, hrun, pre ++ ([⟨iv.lo, ⟨s.edges.size, w, wB⟩, s.chains.size + 1⟩,
    ⟨⟨s.edges.size + 1, w, wT⟩, iv.hi, s.chains.size + 1 + 1⟩] ++ post), ?_⟩
  refine splitV_inv hSh hI hev hwn hBn hTn hc hh ht hN4 hsz4 hpt4 hp1 hp2 hp3 ?_ ?_ ?_ ?_ ?_ ?_ ?_ ?_ g5 g6 g7 g8
  · rfl
  · rfl
  · rfl
  · rfl
  · (unfold splitRes; with_reducible rfl)
  · rfl
  · rfl
  · rfl

/-- **the Start event keeps the invariant** -/
theorem stepW_start (hSh : ShOK R ε Vε) {s : St XQ} {xs X : Rat} {ivs : List IV}
    (hI : InvV R ε s xs X ivs)
    {w : Nat} {es : List Nat} {rest : List (Nat × List Nat)} (hev : s.events = (w, es) :: rest)
    {wB wT : Nat} (hnb : (R.prv w = wB ∧ R.nxt w = wT) ∨ (R.prv w = wT ∧ R.nxt w = wB))
    (hxB : (shearRing ε R).x w < (shearRing ε R).x wB) (hxT : (shearRing ε R).x w < (shearRing ε R).x wT)
    (ho : 0 < orient ((shearRing ε R).pt w) ((shearRing ε R).pt wB) ((shearRing ε R).pt wT)) :
    ∃ s', (handleNext : SM XQ Unit).run s = .ok ((), s') ∧
      ∃ ivs', InvV R ε s' ((shearRing ε R).x w) (R.x w) ivs' := by
  have hR := hSh.ring
  have hN := hSh.nocross
  have hq := hI.q
  rw [hev] at hq
  have hidlt : ∀ a ∈ flatE ivs, a.id < s.edges.size := by
    intro a ha
    obtain ⟨e, he, -⟩ := Linked.eg hI.lk a ha
    exact lt_of_get' he
  obtain ⟨-, P, Q, hE, hlow, hhigh, g3, g4, g5, g6, g7, g8⟩ := start_flat hR hN s.edges.size
    (s.edges.size + 1) hI.span hI.sorted hq hI.cross hnb hxB hxT ho
    (fun a ha => ne_of_lt (hidlt a ha)) (fun a ha => by have := hidlt a ha; omega) (by omega)
  rcases flat_split ivs P Q hE with ⟨pre, post, rfl, rfl, rfl⟩ | ⟨pre, iv, post, rfl, rfl, rfl⟩
  · rw [flatE_append] at g3 g4
    exact stepW_start_proper hSh hI hev hnb hxB hxT hlow hhigh g3 g4 g5 g6 g7 g8
  · have hflat : flatE (pre ++ iv :: post) = (flatE pre ++ [iv.lo]) ++ iv.hi :: flatE post := by simp
    rw [hflat] at g3
    exact stepW_start_split hSh hI hev hnb hxB hxT hlow hhigh g3 g5 g6 g7 g8


/-- **EVERY EVENT KEEPS THE INVARIANT**: `handleNext` succeeds on the head `w` of the queue and
    the invariant holds again, now at the abscissa of `w` -/
theorem stepW (hSh : ShOK R ε Vε) {s : St XQ} {xs X : Rat} {ivs : List IV}
    (hI : InvV R ε s xs X ivs)
    {w : Nat} {es : List Nat} {rest : List (Nat × List Nat)} (hev : s.events = (w, es) :: rest) :
    ∃ s', (handleNext : SM XQ Unit).run s = .ok ((), s') ∧
      ∃ ivs', InvV R ε s' ((shearRing ε R).x w) (R.x w) ivs' := by
  have hR := hSh.ring
  have hN := hSh.nocross
  have hq := hI.q
  rw [hev] at hq
  have hwn : w < R.n := (hq.gt (w, es) List.mem_cons_self).1
  have hpn := hR.prv_lt w hwn
  have hnn := hR.nxt_lt w hwn
  have hp : (shearRing ε R).x (R.prv w) ≠ (shearRing ε R).x w := by
    intro e
    have e' := hR.distinct _ _ hpn hwn e
    have h1 := hR.nxt_prv w hwn
    rw [e'] at h1
    exact hR.ne w hwn (e'.trans h1.symm)
  have hn : (shearRing ε R).x (R.nxt w) ≠ (shearRing ε R).x w := by
    intro e
    have e' := hR.distinct _ _ hnn hwn e
    have h1 := hR.prv_nxt w hwn
    rw [e'] at h1
    exact hR.ne w hwn (h1.trans e'.symm)
  rcases lt_or_gt_of_ne hp with h0 | h0 <;> rcases lt_or_gt_of_ne hn with h1 | h1
  · exact stepW_end hSh hI hev h0 h1
  · exact stepW_bend hSh hI hev (Or.inl ⟨rfl, rfl⟩) h0 h1
  · exact stepW_bend hSh hI hev (Or.inr ⟨rfl, rfl⟩) h1 h0
  · have hne : R.prv w ≠ R.nxt w := hR.ne w hwn
    rcases lt_trichotomy 0 (orient ((shearRing ε R).pt w) ((shearRing ε R).pt (R.prv w)) ((shearRing ε R).pt (R.nxt w))) with ho | ho | ho
    · exact stepW_start hSh hI hev (Or.inl ⟨rfl, rfl⟩) h0 h1 ho
    · exfalso
      rcases le_total ((shearRing ε R).x (R.prv w)) ((shearRing ε R).x (R.nxt w)) with hle | hle
      · exact fan_ne hN hwn hpn hnn (Or.inr rfl) (Or.inl rfl) hne h0 h1 hle ho.symm
      · apply fan_ne hN hwn hnn hpn (Or.inl rfl) (Or.inr rfl) (Ne.symm hne) h1 h0 hle
        show orient ((shearRing ε R).pt w) ((shearRing ε R).pt (R.nxt w)) ((shearRing ε R).pt (R.prv w)) = 0
        have := orient_swap ((shearRing ε R).pt w) ((shearRing ε R).pt (R.prv w)) ((shearRing ε R).pt (R.nxt w))
        linarith
    · refine stepW_start hSh hI hev (Or.inr ⟨rfl, rfl⟩) h1 h0 ?_
      have := orient_swap ((shearRing ε R).pt w) ((shearRing ε R).pt (R.prv w)) ((shearRing ε R).pt (R.nxt w))
      linarith

end Cav.GenVStepW
