/-
  General sweep invariant, part 17: the proper Start event from an arbitrary state when one or
  both nesting partners are missing (the new vertex lies below / above all active edges, or
  nothing is active).
-/
import Cav.Lemmas.GenStart

set_option linter.unusedSimpArgs false
set_option linter.unusedVariables false
set_option linter.unusedSectionVars false

namespace Cav.GenStart
open Cav Num Cav.Sweep Cav.SweepRun Cav.TriRun Cav.QuadRun Cav.CvxHeap Cav.CvxEvents Cav.SweepOut
open Cav.GenNodes Cav.GenQuery Cav.GenActive Cav.GenBend Cav.SweepHeap Cav.TriEvents

variable {α : Type} [Num α]

set_option hygiene false in
/-- the Start vertex is read, first ring orientation -/
macro "start_head1" : tactic => `(tactic| (
   sm_steps [hv, hB, hT, hs1, hs2]
   unfold handleStart
   sm_steps [hv, hB, hT]
   simp (config := { zeta := false }) only [hact]
   sm_use (run_cmpEdge' _ _ _ p p ?h1 ?h2)
   case h1 => exact start_lpt_new s p _ rfl rfl _ rfl
   case h2 => exact start_lpt_new s p _ rfl rfl _ rfl
   sm_whnf
   simp (config := { zeta := false }) only [hc1, beq_self_eq_true, if_true]))

set_option hygiene false in
/-- the Start vertex is read, second ring orientation -/
macro "start_head2" : tactic => `(tactic| (
   sm_steps [hv, hB, hT, hs1, hs2]
   unfold handleStart
   sm_steps [hv, hB, hT]
   simp (config := { zeta := false }) only [hact]
   sm_use (run_cmpEdge' _ _ _ p p ?h1 ?h2)
   case h1 => exact start_lpt_new s p _ rfl rfl _ rfl
   case h2 => exact start_lpt_new s p _ rfl rfl _ rfl
   sm_whnf
   have e1 : (Ordering.gt == Ordering.eq) = false := rfl
   have e2 : (Ordering.gt == Ordering.lt) = false := rfl
   simp (config := { zeta := false }) only [hc2, e1, e2, Bool.false_eq_true, if_false]))

set_option hygiene false in
/-- the two new edges, their registration, and the two look-ups of the new edges -/
macro "start_pre" : tactic => `(tactic| (
   sm_steps [hc1, hB, hT, hxB, hxT, verticalIsCrossed]
   sm_by (run_getEdge_some (push2_get0 _ _ _))
   sm_bind
   sm_by (run_getEdge_some (push2_get1 _ _ _ _))
   sm_bind
   sm_use (run_eventsAdd lpB s.edges.size _ ⟨pB, a1, a2⟩ ?h1 ?h2)
   case h1 => exact hB
   case h2 => exact hevs
   sm_whnf
   sm_use (run_eventsAdd lpT (s.edges.size + 1) _ ⟨pT, a3, a4⟩ ?h1 ?h2)
   case h1 => exact hT
   case h2 => exact hevs1
   sm_whnf
   sm_bind
   sm_get
     exact startEdges_bot s.edges pB pT s.chains.size
   sm_by (run_search_between _ p (startSt s rest p pB pT lpB lpT (P ++ Q))
     (start_lpt_new s p _ rfl rfl _ rfl) hmS P Q hS1PB hS1QB)
   sm_get
     exact startEdges_top s.edges pB pT s.chains.size
   sm_by (run_search_between _ p (startSt s rest p pB pT lpB lpT (P ++ Q))
     (start_lpt_new s p _ rfl rfl _ rfl) hmS P Q hS1PT hS1QT)))

section
variable (s : St α) (vi lp1 lp2 lpB lpT a1 a2 a3 a4 : Nat) (es : List Nat)
  (rest : List (Nat × List Nat)) (p pB pT : Pt α)

/-- the edge array after a Start event with nothing active -/
abbrev linkEnn (E : Array (Edge α)) (pB pT : Pt α) (C : Nat) : Array (Edge α) :=
  ((startEdges E pB pT C).setIfInBounds E.size ⟨pB, C, true, none, some (E.size + 1)⟩).setIfInBounds
    (E.size + 1) ⟨pT, C, false, some E.size, none⟩

set_option hygiene false in
macro "start_nn_tail" : tactic => `(tactic| (
   start_pre
   simp (config := { zeta := false }) only [Bool.false_eq_true, if_false, hbbE, httE]
   sm_whnf
   unfold startSt
   sm_steps [hlen0]
   sm_get
     exact startEdges_bot s.edges pB pT s.chains.size
   sm_bind
   sm_get
     dsimp only
     lk_ne; exact startEdges_top s.edges pB pT s.chains.size
   sm_bind
   sm_use (run_activeInsert _ s.edges.size ⟨pB, s.chains.size, true, none, some (s.edges.size + 1)⟩
     p ?h1 ?h2 ?h3 P Q ?h4 ?h5 ?h6)
   case h1 => dsimp only; lk_ne; lk_self
   case h2 => exact start_lpt_new s p _ rfl rfl _ rfl
   case h3 => exact hm
   case h4 => rfl
   case h5 => intro k hk; rw [hP] at hk; cases hk
   case h6 => intro k hk; rw [hQ] at hk; cases hk
   dsimp only
   refine Runs.final ?_
   refine (run_activeInsert _ (s.edges.size + 1)
     ⟨pT, s.chains.size, false, some s.edges.size, none⟩ p ?h1 ?h2 ?h3 (P ++ [s.edges.size]) Q
     ?h4 ?h5 ?h6).trans ?fin
   case h1 => dsimp only; lk_self
   case h2 => exact start_lpt_new s p _ rfl rfl _ rfl
   case h3 => exact hm
   case h4 => simp
   case h5 =>
     intro k hk
     rw [hP] at hk
     simp only [List.nil_append, List.mem_singleton] at hk
     subst hk
     refine ⟨p, pB, ⟨⟨pB, s.chains.size, true, none, some (s.edges.size + 1)⟩, ?_,
       start_lpt_new s p _ rfl rfl _ rfl, rfl⟩, hc2⟩
     dsimp only; lk_ne; lk_self
   case h6 => intro k hk; rw [hQ] at hk; cases hk
   case fin =>
     unfold startRes startSt
     rw [hP, hQ]
     rfl))

set_option maxHeartbeats 1000000 in
/-- Start with nothing active -/
theorem start_run_nn
    (hev : s.events = (vi, es) :: rest)
    (hv : s.verts[vi]? = some ⟨p, lp1, lp2⟩) (hn : Nbrs lp1 lp2 lpB lpT)
    (hB : s.verts[lpB]? = some ⟨pB, a1, a2⟩) (hT : s.verts[lpT]? = some ⟨pT, a3, a4⟩)
    (hs1 : fromTriplet p pB pT = some .start) (hs2 : fromTriplet p pT pB = some .start)
    (hxB : ofEq pB.x p.x = false) (hxT : ofEq pT.x p.x = false)
    (hc1 : cmpEdgeP p pB p pT p.x = .lt) (hc2 : cmpEdgeP p pT p pB p.x = .gt)
    (hevs : ∀ a ∈ rest, a.1 < s.verts.size)
    (hm : s.mono = true) (hact0 : s.active = []) :
    (handleNext : SM α Unit).run s = .ok ((),
      startRes s lpB lpT rest p pB pT (linkEnn s.edges pB pT s.chains.size)
        [s.edges.size, s.edges.size + 1]) := by
  rw [handleNext_run_cons hev]
  unfold nextBody
  show Runs s _ _
  obtain ⟨P, hP⟩ : ∃ P : List Nat, P = [] := ⟨[], rfl⟩
  obtain ⟨Q, hQ⟩ : ∃ Q : List Nat, Q = [] := ⟨[], rfl⟩
  have hact : s.active = P ++ Q := by rw [hP, hQ]; exact hact0
  have hS1PB : ∀ k ∈ P, ∃ l r, EG (startSt s rest p pB pT lpB lpT (P ++ Q)) k l r ∧
      cmpEdgeP p pB l r p.x = .gt := by intro k hk; rw [hP] at hk; cases hk
  have hS1QB : ∀ k ∈ Q, ∃ l r, EG (startSt s rest p pB pT lpB lpT (P ++ Q)) k l r ∧
      cmpEdgeP p pB l r p.x = .lt := by intro k hk; rw [hQ] at hk; cases hk
  have hS1PT : ∀ k ∈ P, ∃ l r, EG (startSt s rest p pB pT lpB lpT (P ++ Q)) k l r ∧
      cmpEdgeP p pT l r p.x = .gt := by intro k hk; rw [hP] at hk; cases hk
  have hS1QT : ∀ k ∈ Q, ∃ l r, EG (startSt s rest p pB pT lpB lpT (P ++ Q)) k l r ∧
      cmpEdgeP p pT l r p.x = .lt := by intro k hk; rw [hQ] at hk; cases hk
  have hmS : (startSt s rest p pB pT lpB lpT (P ++ Q)).mono = true := hm
  have hevs1 : ∀ a ∈ evAdd s.verts pB lpB s.edges.size rest, a.1 < s.verts.size := by
    intro a ha
    rcases evAdd_keys _ _ _ _ _ a ha with h | ⟨b, hb, h⟩
    · rw [h]; exact lt_of_get' hB
    · rw [← h]; exact hevs b hb
  have hbbE : (if (P.length == 0) = true then none else (P ++ Q)[P.length - 1]?) = none := by
    rw [getLast_of_pos, hP]; rfl
  have httE : (P ++ Q)[P.length]? = none := by
    rw [head_of_append, hQ]; rfl
  have hlen0 : ¬ (0 < P.length + Q.length) := by rw [hP, hQ]; simp
  have hv' : s.verts[vi]? = some ⟨p, lpB, lpT⟩ ∨ s.verts[vi]? = some ⟨p, lpT, lpB⟩ := by
    rcases hn with ⟨h1, h2⟩ | ⟨h1, h2⟩
    · left; rw [← h1, ← h2]; exact hv
    · right; rw [← h1, ← h2]; exact hv
  clear hv hn
  rcases hv' with hv | hv
  · start_head1
    start_nn_tail
  · start_head2
    start_nn_tail

variable (P Q : List Nat) (L Rr : Nat → Pt α)

/-- the edge array after a Start event below all active edges -/
abbrev linkEns (E : Array (Edge α)) (pB pT : Pt α) (C tt : Nat) (ctt : Edge α) : Array (Edge α) :=
  (((startEdges E pB pT C).setIfInBounds E.size ⟨pB, C, true, none, some (E.size + 1)⟩).setIfInBounds
    (E.size + 1) ⟨pT, C, !ctt.bofIn, some E.size, some tt⟩).setIfInBounds tt
    { ctt with bPart := some (E.size + 1) }

set_option hygiene false in
macro "start_ns_tail" : tactic => `(tactic| (
   start_pre
   simp (config := { zeta := false }) only [Bool.false_eq_true, if_false, hbbE, httE]
   sm_whnf
   sm_steps
   sm_get
     exact fa_tt
   sm_by (run_search_found' ctt (L tt) (startSt s rest p pB pT lpB lpT (P ++ Q))
     (start_lpt_old s _ _ _ rfl rfl _ _ httl) hmS (P ++ Q) P Q' tt hPQ2
     (fun k hk => ⟨_, _, hS1 k (List.mem_append_left _ hk), by rw [httr]; exact httP k hk⟩)
     ⟨_, _, hS1 tt httm, by rw [httr]; exact httS⟩
     (fun k hk => ⟨_, _, hS1 k (by rw [hQ]; simp [hk]), by rw [httr]; exact httQ k hk⟩))
   sm_bind
   sm_cond [hlen0]
   unfold startSt
   sm_get
     exact startEdges_bot s.edges pB pT s.chains.size
   sm_bind
   sm_get
     dsimp only
     lk_ne; exact startEdges_top s.edges pB pT s.chains.size
   sm_get
     dsimp only
     lk_ne; exact fa_tt
   sm_bind
   sm_get
     dsimp only
     lk_ne; lk_ne; exact fa_tt
   sm_bind
   sm_use (run_wot_some _ (s.edges.size + 1) tt false ⟨pT, s.chains.size, !ctt.bofIn, some s.edges.size, some tt⟩
     { ctt with bPart := some (s.edges.size + 1) } p (L tt) ?h1 ?h2 ?h3 ?h4 ?h5 ?h6)
   case h1 => dsimp only; lk_ne; lk_self
   case h2 => rfl
   case h3 => omega
   case h4 => dsimp only; lk_self
   case h5 => exact start_lpt_new s p _ rfl rfl _ rfl
   case h6 => exact start_lpt_old s _ _ _ rfl rfl _ _ httl
   sm_whnf
   sm_cond [hwot']
   have hkeep : Keeps s.edges (linkEns s.edges pB pT s.chains.size tt ctt) :=
     (((Keeps.start s.edges pB pT s.chains.size).set_new (Nat.le_refl _) _).set_new
       (Nat.le_succ _) _).set_old httc rfl rfl rfl
   sm_use (run_activeInsert _ s.edges.size ⟨pB, s.chains.size, true, none, some (s.edges.size + 1)⟩
     p ?h1 ?h2 ?h3 P Q ?h4 ?h5 ?h6)
   case h1 => dsimp only; lk_ne; lk_ne; lk_self
   case h2 => exact start_lpt_new s p _ rfl rfl _ rfl
   case h3 => exact hm
   case h4 => rfl
   case h5 => intro k hk; rw [hP] at hk; cases hk
   case h6 =>
     intro k hk
     exact ⟨_, _, start_eg s _ _ _ rfl rfl (fun k e he => by dsimp only; exact hkeep k e he)
       (hG k (List.mem_append_right _ hk)), hQB k hk⟩
   dsimp only
   refine Runs.final ?_
   refine (run_activeInsert _ (s.edges.size + 1)
     ⟨pT, s.chains.size, !ctt.bofIn, some s.edges.size, some tt⟩ p ?h1 ?h2 ?h3 (P ++ [s.edges.size]) Q
     ?h4 ?h5 ?h6).trans ?fin
   case h1 => dsimp only; lk_ne; lk_self
   case h2 => exact start_lpt_new s p _ rfl rfl _ rfl
   case h3 => exact hm
   case h4 => simp
   case h5 =>
     intro k hk
     rw [hP] at hk
     simp only [List.nil_append, List.mem_singleton] at hk
     subst hk
     refine ⟨p, pB, ⟨⟨pB, s.chains.size, true, none, some (s.edges.size + 1)⟩, ?_,
       start_lpt_new s p _ rfl rfl _ rfl, rfl⟩, hc2⟩
     dsimp only; lk_ne; lk_ne; lk_self
   case h6 =>
     intro k hk
     exact ⟨_, _, start_eg s _ _ _ rfl rfl (fun k e he => by dsimp only; exact hkeep k e he)
       (hG k (List.mem_append_right _ hk)), hQT k hk⟩
   case fin =>
     unfold startRes startSt
     simp only [List.append_assoc, List.cons_append, List.nil_append]))

set_option maxHeartbeats 1000000 in
/-- proper Start below all active edges: no lower partner, upper partner `tt` -/
theorem start_run_ns (Q' : List Nat) (tt : Nat) (ctt : Edge α)
    (hev : s.events = (vi, es) :: rest)
    (hv : s.verts[vi]? = some ⟨p, lp1, lp2⟩) (hn : Nbrs lp1 lp2 lpB lpT)
    (hB : s.verts[lpB]? = some ⟨pB, a1, a2⟩) (hT : s.verts[lpT]? = some ⟨pT, a3, a4⟩)
    (hs1 : fromTriplet p pB pT = some .start) (hs2 : fromTriplet p pT pB = some .start)
    (hxB : ofEq pB.x p.x = false) (hxT : ofEq pT.x p.x = false)
    (hc1 : cmpEdgeP p pB p pT p.x = .lt) (hc2 : cmpEdgeP p pT p pB p.x = .gt)
    (hevs : ∀ a ∈ rest, a.1 < s.verts.size)
    (hm : s.mono = true) (hP : P = []) (hQ : Q = tt :: Q') (hact : s.active = P ++ Q)
    (hG : ∀ k ∈ P ++ Q, EG s k (L k) (Rr k))
    (hQB : ∀ k ∈ Q, cmpEdgeP p pB (L k) (Rr k) p.x = .lt)
    (hQT : ∀ k ∈ Q, cmpEdgeP p pT (L k) (Rr k) p.x = .lt)
    (httc : s.edges[tt]? = some ctt)
    (httP : ∀ k ∈ P, cmpEdgeP (L tt) (Rr tt) (L k) (Rr k) p.x = .gt)
    (httS : cmpEdgeP (L tt) (Rr tt) (L tt) (Rr tt) p.x = .eq)
    (httQ : ∀ k ∈ Q', cmpEdgeP (L tt) (Rr tt) (L k) (Rr k) p.x = .lt)
    (hwot : wotP p pT (L tt) (Rr tt) = false) :
    (handleNext : SM α Unit).run s = .ok ((),
      startRes s lpB lpT rest p pB pT (linkEns s.edges pB pT s.chains.size tt ctt)
        (P ++ s.edges.size :: (s.edges.size + 1) :: Q)) := by
  rw [handleNext_run_cons hev]
  unfold nextBody
  show Runs s _ _
  have httlt : tt < s.edges.size := lt_of_get' httc
  have httm : tt ∈ P ++ Q := by rw [hQ]; simp
  obtain ⟨httl, httr⟩ : lpt? s ctt = some (L tt) ∧ ctt.rpt = Rr tt := by
    obtain ⟨e, he, h3, h4⟩ := hG tt httm
    rw [httc] at he; cases he; exact ⟨h3, h4⟩
  have fa_tt : (startEdges s.edges pB pT s.chains.size)[tt]? = some ctt := by
    rw [startEdges_old _ _ _ _ httlt]; exact httc
  have hS1 : ∀ k ∈ P ++ Q, EG (startSt s rest p pB pT lpB lpT (P ++ Q)) k (L k) (Rr k) :=
    fun k hk => start_prefix_eg s lpB lpT rest p pB pT (P ++ Q) (hG k hk)
  have hS1PB : ∀ k ∈ P, ∃ l r, EG (startSt s rest p pB pT lpB lpT (P ++ Q)) k l r ∧
      cmpEdgeP p pB l r p.x = .gt := by intro k hk; rw [hP] at hk; cases hk
  have hS1QB : ∀ k ∈ Q, ∃ l r, EG (startSt s rest p pB pT lpB lpT (P ++ Q)) k l r ∧
      cmpEdgeP p pB l r p.x = .lt := fun k hk => ⟨_, _, hS1 k (List.mem_append_right _ hk), hQB k hk⟩
  have hS1PT : ∀ k ∈ P, ∃ l r, EG (startSt s rest p pB pT lpB lpT (P ++ Q)) k l r ∧
      cmpEdgeP p pT l r p.x = .gt := by intro k hk; rw [hP] at hk; cases hk
  have hS1QT : ∀ k ∈ Q, ∃ l r, EG (startSt s rest p pB pT lpB lpT (P ++ Q)) k l r ∧
      cmpEdgeP p pT l r p.x = .lt := fun k hk => ⟨_, _, hS1 k (List.mem_append_right _ hk), hQT k hk⟩
  have hmS : (startSt s rest p pB pT lpB lpT (P ++ Q)).mono = true := hm
  have hevs1 : ∀ a ∈ evAdd s.verts pB lpB s.edges.size rest, a.1 < s.verts.size := by
    intro a ha
    rcases evAdd_keys _ _ _ _ _ a ha with h | ⟨b, hb, h⟩
    · rw [h]; exact lt_of_get' hB
    · rw [← h]; exact hevs b hb
  have hbbE : (if (P.length == 0) = true then none else (P ++ Q)[P.length - 1]?) = none := by
    rw [getLast_of_pos, hP]; rfl
  have httE : (P ++ Q)[P.length]? = some tt := by
    rw [head_of_append, hQ]; rfl
  have hPQ2 : P ++ Q = P ++ tt :: Q' := by rw [hQ]
  have hlen0 : ¬ (0 < P.length) := by rw [hP]; simp
  have hwot' : wotP p pT (L tt) ctt.rpt = false := by rw [httr]; exact hwot
  have hv' : s.verts[vi]? = some ⟨p, lpB, lpT⟩ ∨ s.verts[vi]? = some ⟨p, lpT, lpB⟩ := by
    rcases hn with ⟨h1, h2⟩ | ⟨h1, h2⟩
    · left; rw [← h1, ← h2]; exact hv
    · right; rw [← h1, ← h2]; exact hv
  clear hv hn
  rcases hv' with hv | hv
  · start_head1
    start_ns_tail
  · start_head2
    start_ns_tail

/-- the edge array after a Start event above all active edges -/
abbrev linkEsn (E : Array (Edge α)) (pB pT : Pt α) (C bb : Nat) (cbb : Edge α) : Array (Edge α) :=
  (((startEdges E pB pT C).setIfInBounds E.size ⟨pB, C, !cbb.bofIn, some bb, some (E.size + 1)⟩).setIfInBounds
    bb { cbb with tPart := some E.size }).setIfInBounds (E.size + 1) ⟨pT, C, false, some E.size, none⟩

set_option hygiene false in
macro "start_sn_tail" : tactic => `(tactic| (
   start_pre
   simp (config := { zeta := false }) only [Bool.false_eq_true, if_false, hbbE, httE]
   sm_whnf
   sm_get
     exact fa_bb
   sm_by (run_search_found' cbb (L bb) (startSt s rest p pB pT lpB lpT (P ++ Q))
     (start_lpt_old s _ _ _ rfl rfl _ _ hbbl) hmS (P ++ Q) P' Q bb hPQ1
     (fun k hk => ⟨_, _, hS1 k (by rw [hP]; simp [hk]), by rw [hbbr]; exact hbbP k hk⟩)
     ⟨_, _, hS1 bb hbbm, by rw [hbbr]; exact hbbS⟩
     (fun k hk => ⟨_, _, hS1 k (List.mem_append_right _ hk), by rw [hbbr]; exact hbbQ k hk⟩))
   sm_bind
   sm_bind
   sm_cond [hlen1]
   unfold startSt
   sm_get
     exact startEdges_bot s.edges pB pT s.chains.size
   sm_get
     exact fa_bb
   sm_bind
   sm_get
     dsimp only
     lk_ne; exact fa_bb
   sm_bind
   sm_use (run_wob_some _ s.edges.size bb false ⟨pB, s.chains.size, !cbb.bofIn, some bb, some (s.edges.size + 1)⟩
     { cbb with tPart := some s.edges.size } p (L bb) ?h1 ?h2 ?h3 ?h4 ?h5 ?h6)
   case h1 => dsimp only; lk_ne; lk_self
   case h2 => rfl
   case h3 => omega
   case h4 => dsimp only; lk_self
   case h5 => exact start_lpt_new s p _ rfl rfl _ rfl
   case h6 => exact start_lpt_old s _ _ _ rfl rfl _ _ hbbl
   sm_whnf
   sm_cond [hwob']
   sm_get
     dsimp only
     lk_ne; lk_ne; exact startEdges_top s.edges pB pT s.chains.size
   sm_bind
   have hkeep : Keeps s.edges (linkEsn s.edges pB pT s.chains.size bb cbb) :=
     (((Keeps.start s.edges pB pT s.chains.size).set_new (Nat.le_refl _) _).set_old
       (v := { cbb with tPart := some s.edges.size }) hbbc rfl rfl rfl).set_new (Nat.le_succ _) _
   sm_use (run_activeInsert _ s.edges.size ⟨pB, s.chains.size, !cbb.bofIn, some bb, some (s.edges.size + 1)⟩
     p ?h1 ?h2 ?h3 P Q ?h4 ?h5 ?h6)
   case h1 => dsimp only; lk_ne; lk_ne; lk_self
   case h2 => exact start_lpt_new s p _ rfl rfl _ rfl
   case h3 => exact hm
   case h4 => rfl
   case h5 =>
     intro k hk
     exact ⟨_, _, start_eg s _ _ _ rfl rfl (fun k e he => by dsimp only; exact hkeep k e he)
       (hG k (List.mem_append_left _ hk)), hPB k hk⟩
   case h6 => intro k hk; rw [hQ] at hk; cases hk
   dsimp only
   refine Runs.final ?_
   refine (run_activeInsert _ (s.edges.size + 1)
     ⟨pT, s.chains.size, false, some s.edges.size, none⟩ p ?h1 ?h2 ?h3 (P ++ [s.edges.size]) Q
     ?h4 ?h5 ?h6).trans ?fin
   case h1 => dsimp only; lk_self
   case h2 => exact start_lpt_new s p _ rfl rfl _ rfl
   case h3 => exact hm
   case h4 => simp
   case h5 =>
     intro k hk
     rcases List.mem_append.mp hk with hk | hk
     · exact ⟨_, _, start_eg s _ _ _ rfl rfl (fun k e he => by dsimp only; exact hkeep k e he)
         (hG k (List.mem_append_left _ hk)), hPT k hk⟩
     · simp only [List.mem_singleton] at hk
       subst hk
       refine ⟨p, pB, ⟨⟨pB, s.chains.size, !cbb.bofIn, some bb, some (s.edges.size + 1)⟩, ?_,
         start_lpt_new s p _ rfl rfl _ rfl, rfl⟩, hc2⟩
       dsimp only; lk_ne; lk_ne; lk_self
   case h6 => intro k hk; rw [hQ] at hk; cases hk
   case fin =>
     unfold startRes startSt
     simp only [List.append_assoc, List.cons_append, List.nil_append]))

set_option maxHeartbeats 1000000 in
/-- proper Start above all active edges: lower partner `bb`, no upper partner -/
theorem start_run_sn (P' : List Nat) (bb : Nat) (cbb : Edge α)
    (hev : s.events = (vi, es) :: rest)
    (hv : s.verts[vi]? = some ⟨p, lp1, lp2⟩) (hn : Nbrs lp1 lp2 lpB lpT)
    (hB : s.verts[lpB]? = some ⟨pB, a1, a2⟩) (hT : s.verts[lpT]? = some ⟨pT, a3, a4⟩)
    (hs1 : fromTriplet p pB pT = some .start) (hs2 : fromTriplet p pT pB = some .start)
    (hxB : ofEq pB.x p.x = false) (hxT : ofEq pT.x p.x = false)
    (hc1 : cmpEdgeP p pB p pT p.x = .lt) (hc2 : cmpEdgeP p pT p pB p.x = .gt)
    (hevs : ∀ a ∈ rest, a.1 < s.verts.size)
    (hm : s.mono = true) (hP : P = P' ++ [bb]) (hQ : Q = []) (hact : s.active = P ++ Q)
    (hG : ∀ k ∈ P ++ Q, EG s k (L k) (Rr k))
    (hPB : ∀ k ∈ P, cmpEdgeP p pB (L k) (Rr k) p.x = .gt)
    (hPT : ∀ k ∈ P, cmpEdgeP p pT (L k) (Rr k) p.x = .gt)
    (hbbc : s.edges[bb]? = some cbb)
    (hbbP : ∀ k ∈ P', cmpEdgeP (L bb) (Rr bb) (L k) (Rr k) p.x = .gt)
    (hbbS : cmpEdgeP (L bb) (Rr bb) (L bb) (Rr bb) p.x = .eq)
    (hbbQ : ∀ k ∈ Q, cmpEdgeP (L bb) (Rr bb) (L k) (Rr k) p.x = .lt)
    (hwob : wobP p pB (L bb) (Rr bb) = false) :
    (handleNext : SM α Unit).run s = .ok ((),
      startRes s lpB lpT rest p pB pT (linkEsn s.edges pB pT s.chains.size bb cbb)
        (P ++ s.edges.size :: (s.edges.size + 1) :: Q)) := by
  rw [handleNext_run_cons hev]
  unfold nextBody
  show Runs s _ _
  have hbblt : bb < s.edges.size := lt_of_get' hbbc
  have hbbm : bb ∈ P ++ Q := by rw [hP]; simp
  obtain ⟨hbbl, hbbr⟩ : lpt? s cbb = some (L bb) ∧ cbb.rpt = Rr bb := by
    obtain ⟨e, he, h3, h4⟩ := hG bb hbbm
    rw [hbbc] at he; cases he; exact ⟨h3, h4⟩
  have fa_bb : (startEdges s.edges pB pT s.chains.size)[bb]? = some cbb := by
    rw [startEdges_old _ _ _ _ hbblt]; exact hbbc
  have hS1 : ∀ k ∈ P ++ Q, EG (startSt s rest p pB pT lpB lpT (P ++ Q)) k (L k) (Rr k) :=
    fun k hk => start_prefix_eg s lpB lpT rest p pB pT (P ++ Q) (hG k hk)
  have hS1PB : ∀ k ∈ P, ∃ l r, EG (startSt s rest p pB pT lpB lpT (P ++ Q)) k l r ∧
      cmpEdgeP p pB l r p.x = .gt := fun k hk => ⟨_, _, hS1 k (List.mem_append_left _ hk), hPB k hk⟩
  have hS1QB : ∀ k ∈ Q, ∃ l r, EG (startSt s rest p pB pT lpB lpT (P ++ Q)) k l r ∧
      cmpEdgeP p pB l r p.x = .lt := by intro k hk; rw [hQ] at hk; cases hk
  have hS1PT : ∀ k ∈ P, ∃ l r, EG (startSt s rest p pB pT lpB lpT (P ++ Q)) k l r ∧
      cmpEdgeP p pT l r p.x = .gt := fun k hk => ⟨_, _, hS1 k (List.mem_append_left _ hk), hPT k hk⟩
  have hS1QT : ∀ k ∈ Q, ∃ l r, EG (startSt s rest p pB pT lpB lpT (P ++ Q)) k l r ∧
      cmpEdgeP p pT l r p.x = .lt := by intro k hk; rw [hQ] at hk; cases hk
  have hmS : (startSt s rest p pB pT lpB lpT (P ++ Q)).mono = true := hm
  have hevs1 : ∀ a ∈ evAdd s.verts pB lpB s.edges.size rest, a.1 < s.verts.size := by
    intro a ha
    rcases evAdd_keys _ _ _ _ _ a ha with h | ⟨b, hb, h⟩
    · rw [h]; exact lt_of_get' hB
    · rw [← h]; exact hevs b hb
  have hbbE : (if (P.length == 0) = true then none else (P ++ Q)[P.length - 1]?) = some bb := by
    rw [getLast_of_pos, hP]; simp
  have httE : (P ++ Q)[P.length]? = none := by
    rw [head_of_append, hQ]; rfl
  have hPQ1 : P ++ Q = P' ++ bb :: Q := by rw [hP]; simp
  have hlen1 : ¬ (P'.length + 1 < P.length + Q.length) := by rw [hP, hQ]; simp
  have hwob' : wobP p pB (L bb) cbb.rpt = false := by rw [hbbr]; exact hwob
  have hv' : s.verts[vi]? = some ⟨p, lpB, lpT⟩ ∨ s.verts[vi]? = some ⟨p, lpT, lpB⟩ := by
    rcases hn with ⟨h1, h2⟩ | ⟨h1, h2⟩
    · left; rw [← h1, ← h2]; exact hv
    · right; rw [← h1, ← h2]; exact hv
  clear hv hn
  rcases hv' with hv | hv
  · start_head1
    start_sn_tail
  · start_head2
    start_sn_tail

end

end Cav.GenStart
