/-
  (X1) The steps `stepS`, `stepB`, `stepT` of `MonoStep*.lean` for the guarded configuration
  `MConvX`: the invariant `MInv` is preserved by every event at an abscissa up to which the
  simplicity facts have been checked.
-/
import Cav.Lemmas.MonoStep3
import Cav.Lemmas.MonoXRun

set_option linter.unusedSimpArgs false
set_option linter.unusedVariables false

namespace Cav.MonoXStep
open Cav Num Cav.Geo Cav.Sweep Cav.SweepRun Cav.TriRun Cav.QuadRun Cav.TriEvents Cav.QuadGeom
open Cav.CvxHeap Cav.CvxEvents Cav.CvxFlows Cav.CvxGeom Cav.CvxLoop Cav.MonoHeap Cav.MonoGeom
open Cav.MonoFan Cav.MonoXConv Cav.MonoFlows Cav.MonoInv Cav.MonoXRun
open Cav.MonoStep (MInv OutOK mem_pts stop_x)

section
variable {V : Array (Vtx XQ)} {mB mT : Nat} {bi ti : Nat → Nat} {b t : Nat → Rat × Rat} {ξ : Rat}

theorem isV_b (i : Nat) (hi : i ≤ mB) :
    ∀ k, 0 < k → k ≤ i → IsVtx mB mT b t (Fq (b k)) := fun k _ hk => isVtx_b k (by omega)
theorem isV_t (j : Nat) (hj : j ≤ mT) :
    ∀ k, 0 < k → k ≤ j → IsVtx mB mT b t (Fq (t k)) := fun k _ hk => isVtx_t k (by omega)

/-- a Bend on the bottom chain keeps the invariant -/
theorem stepB (hC : MConvX V mB mT bi ti b t ξ) {i j : Nat} (hi1 : i + 1 < mB) (hj : j < mT)
    (hlt : (b (i + 1)).1 < (t (j + 1)).1) (hξ : (b (i + 1)).1 ≤ ξ) {s : St XQ}
    (hinv : MInv V mB mT bi ti b t i j s) :
    ∃ s', Runs s (.ok ((), s')) handleNext ∧ MInv V mB mT bi ti b t (i + 1) j s' := by
  obtain ⟨xs, N, rm, iB, iT, evs, out, l, rfl, x1, x2, x3, x4, hq, hmode⟩ := hinv
  have hev : evs = [(bi (i + 1), [0]), (ti (j + 1), [1])] := by
    rcases hq with ⟨e1, -, -⟩ | ⟨-, h⟩ | ⟨h, -⟩
    · omega
    · exact h
    · exact absurd hlt (lt_asymm h)
  subst hev
  have xnew : (b (i + 1)).1 < (b (i + 2)).1 := hC.xB (i + 1) hi1
  have x2' : (t j).1 ≤ (b (i + 1)).1 := le_of_lt (lt_of_le_of_lt x2 x3)
  have hq' := hC.queue_B (i + 1) j hi1 hj
  have hub : IsVtx mB mT b t (Fq (b (i + 1))) := isVtx_b (i + 1) (by omega)
  rcases hmode with ⟨hseg, hG, hcnt, hok, harea⟩ | ⟨hseg, hG, hcnt, hok, harea⟩
  · -- mode A: the maximal fan from the new head
    obtain ⟨r0, hr0⟩ := hG.first
    obtain ⟨mid, g, rest, hs, hfan, hstop⟩ := fanQ_split 1 (b (i + 1)) l hG.ne_nil
    have hgl : g ∈ l := by rw [hs]; simp
    have hxg : (b (i + 1)).1 ≠ g.2.1 :=
      ne_of_gt (lt_of_le_of_lt (hG.x_le g hgl) (hC.xB i (by omega)))
    obtain ⟨N2, hrun, hseg2, hsz⟩ := bottom_run hC hi1 hj xs N rm iB iT out x2 x3 hlt hξ l r0 hr0
      hG.last hseg hG.nd hG.len hs hfan hstop hxg (stop_x hG.xd hs)
    have hG' := hG.same_end (u := b (i + 1)) rfl (hC.xB i (by omega)) hs hstop
    have hv : ∀ q ∈ (mid ++ [g]).map Prod.snd, IsVtx mB mT b t (Fq q) := by
      intro q hq
      obtain ⟨x, hx, rfl⟩ := mem_pts hq
      have hxl : x ∈ l := by
        rw [hs]
        rcases List.mem_append.mp hx with h | h
        · exact List.mem_append_left _ h
        · simp only [List.mem_singleton] at h; subst h; simp
      exact hG.all (P := fun q => IsVtx mB mT b t (Fq q)) (isV_b i (by omega))
        (isVtx_t j (by omega)) x hxl
    obtain ⟨p1, p2, p3⟩ := trisF_props (b (i + 1)) hub _ hfan hv
    obtain ⟨c1, c2⟩ := acct_same 1 (b (i + 1)) (b i) iB N.size l mid g rest out _
      (chainSum b i - chainSum t j) (i + j + 1) hs hG.first p3 (by rw [p2]; ring) hcnt harea
    refine ⟨_, hrun, (b (i + 1)).1, N2, N.size, N.size, iT, _, _, (N.size, b (i + 1)) :: g :: rest,
      rfl, le_refl _, x2', xnew, hlt, hq', Or.inl ⟨hseg2, by rw [hsz]; exact hG', ?_, ?_, ?_⟩⟩
    · rw [c1]; omega
    · intro tr htr
      rcases List.mem_append.mp htr with h | h
      · exact p1 tr h
      · exact hok tr h
    · rw [c2]; simp only [chainSum]; ring
  · -- mode B: the new head sees the whole chain
    obtain ⟨r0, hr0⟩ := hG.first
    have hsegH : Seg N none (hp l.reverse) none := by
      have := (segR_iff_seg N (hp l) none none).mp hseg
      simpa [hp] using this
    have hrev : l.reverse = r0.reverse ++ [(iT, t j)] := by rw [hr0]; simp
    obtain ⟨ys, hys⟩ := List.getLast?_eq_some_iff.mp hG.last
    have hfirstH : l.reverse = (iB, b i) :: ys.reverse := by rw [hys]; simp
    have hlastH : l.reverse.getLast? = some (iT, t j) := by rw [hrev]; simp
    have hfan : FanQ 1 (b (i + 1)) ((r0.reverse ++ [(iT, t j)]).map Prod.snd) := by
      rw [← hrev]
      have hxi : XInc ((l.reverse).map Prod.snd) := by
        rw [List.map_reverse]; exact XDec.reverse hG.xd
      have hnt : NoTurn 1 ((l.reverse).map Prod.snd) := by
        rw [List.map_reverse]
        have := NoTurn.reverse hG.nt
        simpa using this
      apply fan_first 1 (b (i + 1)) _ hxi hnt
      · intro q hq
        obtain ⟨x, hx, rfl⟩ := mem_pts hq
        have hx' : x ∈ l := List.mem_reverse.mp hx
        have hle : x.2.1 ≤ (t j).1 := hG.x_le x hx'
        linarith
      · intro c0 c1 r hc
        obtain ⟨e0, k, hk0, hkj, e1, hlt'⟩ := hG.first_two_rev hc
        subst e0; subst e1
        have hkx : (t k).1 < (b (i + 1)).1 := by
          have := hG.x_le
          obtain ⟨x, hx, hx2⟩ := mem_pts (l := l.reverse) (q := t k) (by rw [hc]; simp)
          have := hG.x_le x (List.mem_reverse.mp hx)
          rw [hx2] at this; linarith
        have hk1 : (t (k - 1)).1 ≤ (t j).1 := by
          rcases Nat.lt_or_ge (k - 1) j with h' | h'
          · exact le_of_lt (hC.xT_lt (k - 1) j h' (by omega))
          · have : k - 1 = j := by omega
            rw [this]
        have := hC.sT k i hk0 (by omega) (by omega) hlt' hkx (by linarith) (by linarith)
        have e : orient (b (i + 1)) (b i) (t k) = - orient (b i) (b (i + 1)) (t k) := by
          unfold orient; ring
        rw [e]; linarith
    have hxg : (b (i + 1)).1 ≠ (iT, t j).2.1 := ne_of_gt (lt_of_le_of_lt x2 x3)
    have hndH : ((l.reverse).map Prod.fst).Nodup := by
      rw [List.map_reverse]; exact List.nodup_reverse.mpr hG.nd
    obtain ⟨N2, hrun, hseg2, hsz⟩ := bottom_run hC hi1 hj xs N rm iB iT out x2 x3 hlt hξ l.reverse
      ys.reverse hfirstH hlastH hsegH hndH (by simpa using hG.len) hrev hfan
      (fun h r e => by cases e) hxg (fun h r e => by cases e)
    have hG' := hG.other_end (c' := b) (ic' := i) (u := b (i + 1)) rfl
      (lt_of_le_of_lt x2 x3)
    have hv : ∀ q ∈ (r0.reverse ++ [(iT, t j)]).map Prod.snd, IsVtx mB mT b t (Fq q) := by
      intro q hq
      rw [← hrev] at hq
      obtain ⟨x, hx, rfl⟩ := mem_pts hq
      exact hG.all (P := fun q => IsVtx mB mT b t (Fq q)) (isV_t j (by omega))
        (isVtx_b i (by omega)) x (List.mem_reverse.mp hx)
    obtain ⟨p1, p2, p3⟩ := trisF_props (b (i + 1)) hub _ hfan hv
    rw [← hrev] at p2 p3
    obtain ⟨c1, c2⟩ := acct_other (-1) (b (i + 1)) (t j) (b i) iT iB N.size l out _
      (chainSum b i - chainSum t j) (i + j + 1) hG.first hG.last p3 (by rw [p2]; ring) hcnt harea
    rw [hrev] at c1 c2
    refine ⟨_, hrun, (b (i + 1)).1, N2, N.size, N.size, iT, _, _, [(N.size, b (i + 1)), (iT, t j)],
      rfl, le_refl _, x2', xnew, hlt, hq', Or.inl ⟨hseg2, ?_, ?_, ?_, ?_⟩⟩
    · rw [hsz]; simpa using hG'
    · simp only [List.length_cons, List.length_nil]; omega
    · intro tr htr
      rcases List.mem_append.mp htr with h | h
      · exact p1 tr h
      · exact hok tr h
    · rw [c2]; simp only [chainSum, List.map_cons, List.map_nil, pathSum]
      unfold cross; ring

/-- the complete fan from a new tail over a chain linked from the head (mode A): the tail view,
    its fan and its first pair -/
theorem modeA_tail (hC : MConvX V mB mT bi ti b t ξ) {i j : Nat} (hi : i < mB) (hj : j < mT)
    {N : Array (Node XQ)} {iB iT : Nat} {l : List (Nat × Q)} (xs : Rat)
    (x1 : (b i).1 ≤ xs) (x4 : xs < (t (j + 1)).1) (hξ : (t (j + 1)).1 ≤ ξ)
    (hseg : Seg N none (hp l) none) (hG : CG 1 b i iB iT (t j) N.size l) :
    ∃ r0 ys, l = (iB, b i) :: r0 ∧ l.reverse = (iT, t j) :: ys ∧
      l.reverse = r0.reverse ++ [(iB, b i)] ∧ l.reverse.getLast? = some (iB, b i) ∧
      SegR N none (hp l.reverse) none ∧ ((l.reverse).map Prod.fst).Nodup ∧
      FanQ (-1) (t (j + 1)) ((r0.reverse ++ [(iB, b i)]).map Prod.snd) := by
  obtain ⟨r0, hr0⟩ := hG.first
  obtain ⟨ys, hys⟩ := List.getLast?_eq_some_iff.mp hG.last
  have hrev : l.reverse = r0.reverse ++ [(iB, b i)] := by rw [hr0]; simp
  refine ⟨r0, ys.reverse, hr0, by rw [hys]; simp, hrev, by rw [hrev]; simp, ?_, ?_, ?_⟩
  · have := (seg_iff_segR N (hp l) none none).mp hseg
    simpa [hp] using this
  · rw [List.map_reverse]; exact List.nodup_reverse.mpr hG.nd
  · rw [← hrev]
    have hxi : XInc ((l.reverse).map Prod.snd) := by
      rw [List.map_reverse]; exact XDec.reverse hG.xd
    have hnt : NoTurn (-1) ((l.reverse).map Prod.snd) := by
      rw [List.map_reverse]; exact NoTurn.reverse hG.nt
    apply fan_first (-1) (t (j + 1)) _ hxi hnt
    · intro q hq
      obtain ⟨x, hx, rfl⟩ := mem_pts hq
      have hle : x.2.1 ≤ (b i).1 := hG.x_le x (List.mem_reverse.mp hx)
      linarith
    · intro c0 c1 r hc
      obtain ⟨e0, k, hk0, hki, e1, hlt'⟩ := hG.first_two_rev hc
      subst e0; subst e1
      have hkx : (b k).1 < (t (j + 1)).1 := by
        obtain ⟨x, hx, hx2⟩ := mem_pts (l := l.reverse) (q := b k) (by rw [hc]; simp)
        have := hG.x_le x (List.mem_reverse.mp hx)
        rw [hx2] at this; linarith
      have hk1 : (b (k - 1)).1 ≤ (b i).1 := by
        rcases Nat.lt_or_ge (k - 1) i with h' | h'
        · exact le_of_lt (hC.xB_lt (k - 1) i h' (by omega))
        · have : k - 1 = i := by omega
          rw [this]
      have hj' := hC.xT j hj
      have := hC.sB k j hk0 (by omega) hj hlt' hkx (by linarith) (by linarith)
      have e : orient (t (j + 1)) (t j) (b k) = - orient (t j) (t (j + 1)) (b k) := by
        unfold orient; ring
      rw [e]; linarith

/-- a Bend on the top chain keeps the invariant -/
theorem stepT (hC : MConvX V mB mT bi ti b t ξ) {i j : Nat} (hi : i < mB) (hj1 : j + 1 < mT)
    (hlt : (t (j + 1)).1 < (b (i + 1)).1) (hξ : (t (j + 1)).1 ≤ ξ) {s : St XQ}
    (hinv : MInv V mB mT bi ti b t i j s) :
    ∃ s', Runs s (.ok ((), s')) handleNext ∧ MInv V mB mT bi ti b t i (j + 1) s' := by
  obtain ⟨xs, N, rm, iB, iT, evs, out, l, rfl, x1, x2, x3, x4, hq, hmode⟩ := hinv
  have hev : evs = [(ti (j + 1), [1]), (bi (i + 1), [0])] := by
    rcases hq with ⟨-, e2, -⟩ | ⟨h, -⟩ | ⟨-, h⟩
    · omega
    · exact absurd hlt (lt_asymm h)
    · exact h
  subst hev
  have xnew : (t (j + 1)).1 < (t (j + 2)).1 := hC.xT (j + 1) hj1
  have x1' : (b i).1 ≤ (t (j + 1)).1 := le_of_lt (lt_of_le_of_lt x1 x4)
  have hq' := hC.queue_T i (j + 1) hi hj1
  have hut : IsVtx mB mT b t (Fq (t (j + 1))) := isVtx_t (j + 1) (by omega)
  rcases hmode with ⟨hseg, hG, hcnt, hok, harea⟩ | ⟨hseg, hG, hcnt, hok, harea⟩
  · -- mode A: the new tail sees the whole chain
    obtain ⟨r0, ys, hr0, hfirstT, hrev, hlastT, hsegT, hndT, hfan⟩ :=
      modeA_tail hC hi (by omega) xs x1 x4 hξ hseg hG
    have hxg : (t (j + 1)).1 ≠ (iB, b i).2.1 := ne_of_gt (lt_of_le_of_lt x1 x4)
    obtain ⟨N2, hrun, hseg2, hsz⟩ := top_run hC hi hj1 xs N rm iB iT out x1 x4 hlt hξ l.reverse
      ys hfirstT hlastT hsegT hndT (by simpa using hG.len) hrev hfan
      (fun h r e => by cases e) hxg (fun h r e => by cases e)
    have hG' := hG.other_end (c' := t) (ic' := j) (u := t (j + 1)) rfl (lt_of_le_of_lt x1 x4)
    have hv : ∀ q ∈ (r0.reverse ++ [(iB, b i)]).map Prod.snd, IsVtx mB mT b t (Fq q) := by
      intro q hq
      rw [← hrev] at hq
      obtain ⟨x, hx, rfl⟩ := mem_pts hq
      exact hG.all (P := fun q => IsVtx mB mT b t (Fq q)) (isV_b i (by omega))
        (isVtx_t j (by omega)) x (List.mem_reverse.mp hx)
    obtain ⟨p1, p2, p3⟩ := trisB_props (t (j + 1)) hut _ hfan hv
    rw [← hrev] at p2 p3
    obtain ⟨c1, c2⟩ := acct_other 1 (t (j + 1)) (b i) (t j) iB iT N.size l out _
      (chainSum b i - chainSum t j) (i + j + 1) hG.first hG.last p3 (by rw [p2]; ring) hcnt harea
    rw [hrev] at c1 c2
    refine ⟨_, hrun, (t (j + 1)).1, N2, N.size, iB, N.size, _, _, [(N.size, t (j + 1)), (iB, b i)],
      rfl, x1', le_refl _, hlt, xnew, hq', Or.inr ⟨hseg2, ?_, ?_, ?_, ?_⟩⟩
    · rw [hsz]; exact hG'
    · simp only [List.length_cons, List.length_nil]; omega
    · intro tr htr
      rcases List.mem_append.mp htr with h | h
      · exact p1 tr h
      · exact hok tr h
    · rw [c2]; simp only [chainSum, List.map_cons, List.map_nil, pathSum]
      unfold cross; ring
  · -- mode B: the maximal fan from the new tail
    obtain ⟨r0, hr0⟩ := hG.first
    obtain ⟨mid, g, rest, hs, hfan, hstop⟩ := fanQ_split (-1) (t (j + 1)) l hG.ne_nil
    have hgl : g ∈ l := by rw [hs]; simp
    have hxg : (t (j + 1)).1 ≠ g.2.1 :=
      ne_of_gt (lt_of_le_of_lt (hG.x_le g hgl) (hC.xT j (by omega)))
    obtain ⟨N2, hrun, hseg2, hsz⟩ := top_run hC hi hj1 xs N rm iB iT out x1 x4 hlt hξ l r0 hr0
      hG.last hseg hG.nd hG.len hs hfan hstop hxg (stop_x hG.xd hs)
    have hG' := hG.same_end (u := t (j + 1)) rfl (hC.xT j (by omega)) hs hstop
    have hv : ∀ q ∈ (mid ++ [g]).map Prod.snd, IsVtx mB mT b t (Fq q) := by
      intro q hq
      obtain ⟨x, hx, rfl⟩ := mem_pts hq
      have hxl : x ∈ l := by
        rw [hs]
        rcases List.mem_append.mp hx with h | h
        · exact List.mem_append_left _ h
        · simp only [List.mem_singleton] at h; subst h; simp
      exact hG.all (P := fun q => IsVtx mB mT b t (Fq q)) (isV_t j (by omega))
        (isVtx_b i (by omega)) x hxl
    obtain ⟨p1, p2, p3⟩ := trisB_props (t (j + 1)) hut _ hfan hv
    obtain ⟨c1, c2⟩ := acct_same (-1) (t (j + 1)) (t j) iT N.size l mid g rest out _
      (chainSum b i - chainSum t j) (i + j + 1) hs hG.first p3 (by rw [p2]; ring) hcnt harea
    refine ⟨_, hrun, (t (j + 1)).1, N2, N.size, iB, N.size, _, _, (N.size, t (j + 1)) :: g :: rest,
      rfl, x1', le_refl _, hlt, xnew, hq', Or.inr ⟨hseg2, by rw [hsz]; exact hG', ?_, ?_, ?_⟩⟩
    · rw [c1]; omega
    · intro tr htr
      rcases List.mem_append.mp htr with h | h
      · exact p1 tr h
      · exact hok tr h
    · rw [c2]; simp only [chainSum]; ring

/-- the Start event establishes the invariant -/
theorem stepS (hC : MConvX V mB mT bi ti b t ξ) (hξ : (b 0).1 ≤ ξ) :
    ∃ s', Runs (stQ V [(bi 0, [])]) (.ok ((), s')) handleNext ∧ MInv V mB mT bi ti b t 0 0 s' := by
  have h3 := hC.three
  have hB := hC.hB
  have hT := hC.hT
  obtain ⟨l1, l2, hL, hl⟩ := hC.vL
  obtain ⟨a1, a2, h1⟩ := hC.lkB 1 hB
  obtain ⟨a3, a4, h2⟩ := hC.lkT 1 hT
  have xLB : (b 0).1 < (b 1).1 := hC.xB 0 (by omega)
  have xLT : (b 0).1 < (t 1).1 := by rw [hC.p0]; exact hC.xT 0 (by omega)
  have ho : 0 < orient (b 0) (b 1) (t 1) := by
    rcases lt_trichotomy (b 1).1 (t 1).1 with h | h | h
    · have h1B : 1 < mB := by
        rcases Nat.lt_or_ge 1 mB with h' | h'
        · exact h'
        · exfalso
          have e : mB = 1 := by omega
          have := hC.xT_le_R 1 hT
          rw [e] at this; linarith
      have := hC.sB 1 0 (by omega) h1B (by omega) (by rw [← hC.p0]; exact xLB) h hξ
        (by rw [← hC.p0]; exact hξ)
      rw [hC.p0]
      have e : orient (t 0) (b 1) (t 1) = - orient (t 0) (t (0 + 1)) (b 1) := by
        unfold orient; ring
      rw [e]; linarith
    · exfalso
      obtain ⟨e1, e2⟩ := hC.pend_x 1 1 (by omega) hB (by omega) hT h
      omega
    · have h1T : 1 < mT := by
        rcases Nat.lt_or_ge 1 mT with h' | h'
        · exact h'
        · exfalso
          have e : mT = 1 := by omega
          have := hC.xB_le_R 1 hB
          rw [hC.pR, e] at this; linarith
      exact hC.sT 1 0 (by omega) h1T (by omega) xLT h (by rw [← hC.p0]; exact hξ) hξ
  have hrun := start_fin V (b 1) (t 1) (bi 1) a1 a2 (bi 0) (ti 1) l1 l2 a3 a4 (b 0) hL hl h1 h2
    xLB xLT ho
  refine ⟨_, hrun, (b 0).1, _, 0, 0, 0, _, [], [(0, b 0)], rfl, le_refl _, by rw [hC.p0], xLB, xLT,
    hC.queue_T 0 0 (by omega) (by omega), Or.inl ⟨⟨rfl, trivial⟩, ?_, ?_⟩⟩
  · refine ⟨by simp, by simp, by simp, ⟨[], rfl⟩, by simp [hC.p0], trivial, trivial, by simp⟩
  · refine ⟨by simp, by simp, ?_⟩
    simp [areaSum, chainSum, pathSum]

end

end Cav.MonoXStep
