/-
  Helper lemmas for `Thm/C07Accuracy`: polynomials as `AD Rat → AD Rat` closures (`adPoly`,
  Horner's scheme on the GENERATED primitives `AD.add`, `AD.mul` of `Gen/AD.lean`), their value
  and tangent for an ARBITRARY incoming tangent (so that `D1.composition` needs no extra work),
  the agreement with `E.evalAD` on a Horner expression tree, and the two display integrands
  `f·g'` as coefficient lists.
-/
import Cav.Lemmas.AccPoly
import Cav.Model.Disp2D
import Cav.Model.Expr
import Mathlib.Analysis.Calculus.Deriv.Comp

open Cav Num
namespace Cav.C07Accuracy
open Cav.C01 Cav.Gen

/-- the polynomial `Σ_k cs[k]·x^k` as an `AD` closure: Horner's scheme with the generated
    `AD.add` / `AD.mul` (what a user closure `|x: AD| c0 + x * (c1 + x * (…))` does) -/
def adPoly : List Rat → AD Rat → AD Rat
  | [], _ => ⟨0, 0⟩
  | c :: cs, x => AD.add ⟨c, 0⟩ (AD.mul x (adPoly cs x))

/-- value component, any incoming tangent -/
theorem adPoly_v (cs : List Rat) (x d : Rat) : (adPoly cs ⟨x, d⟩).v = evalPoly cs x := by
  induction cs with
  | nil => rfl
  | cons c cs ih => simp only [adPoly, AD.add, AD.mul, ih, evalPoly_cons]

/-- tangent component: incoming tangent times the derivative polynomial (chain rule) -/
theorem adPoly_d (cs : List Rat) (x d : Rat) :
    (adPoly cs ⟨x, d⟩).d = d * evalPoly (derivCoeffs cs) x := by
  induction cs with
  | nil => simp [adPoly, derivCoeffs, derivAux]
  | cons c cs ih =>
    simp only [adPoly, AD.add, AD.mul, ih, adPoly_v, evalPoly_derivCoeffs_cons]
    ring

theorem ofNat_zero_rat : (Num.ofNat 0 : Rat) = 0 := by simp [Num.ofNat]
theorem ofNat_one_rat : (Num.ofNat 1 : Rat) = 1 := by simp [Num.ofNat]

/-- `D1::f` of the closure is the polynomial -/
theorem D1_f_adPoly (cs : List Rat) (x : Rat) : D1.f (adPoly cs) x = evalPoly cs x :=
  adPoly_v cs x _

/-- `D1::df` of the closure is the derivative polynomial -/
theorem D1_df_adPoly (cs : List Rat) (x : Rat) :
    D1.df (adPoly cs) x = evalPoly (derivCoeffs cs) x := by
  rw [D1.df, adPoly_d, ofNat_one_rat, one_mul]

theorem D1_fdf_adPoly (cs : List Rat) (x : Rat) :
    D1.fdf (adPoly cs) x = (evalPoly cs x, evalPoly (derivCoeffs cs) x) := by
  simp only [D1.fdf, adPoly_v, adPoly_d, ofNat_one_rat, one_mul]

/-- `D1::composition`: value `c(y)`, tangent `y'·c'(y)` -/
theorem D1_composition_adPoly (cs : List Rat) (y y' : Rat) :
    D1.composition (adPoly cs) (y, y') = (evalPoly cs y, y' * evalPoly (derivCoeffs cs) y) := by
  simp only [D1.composition, adPoly_v, adPoly_d]

/-! ### agreement with the expression evaluator `E.evalAD`

The coefficients enter as named constants of the context (`E.cst`), the variable is `E.var 0`. -/

/-- Horner tree `n₀ + x·(n₁ + x·(…))` over constant names; the empty sum is the literal `0` -/
def hornerE : List String → E
  | [] => .lit 0 0
  | n :: ns => .bin .add (.cst n) (.bin .mul (.var 0) (hornerE ns))

theorem evalAD_hornerE (env : EnvAD Rat) (ns : List String) (x : AD Rat) :
    (hornerE ns).evalAD env [x] = some (adPoly (ns.map env.cst) x) := by
  induction ns with
  | nil =>
    have : (Num.ofDec 0 0 : Rat) = 0 := by simp [Num.ofDec]
    simp [hornerE, E.evalAD, adPoly, AD.ofF, this, ofNat_zero_rat]
  | cons n ns ih =>
    simp [hornerE, E.evalAD, ih, adPoly, BOp.applyAD, AD.ofF, ofNat_zero_rat]

/-! ### the Riemann–Stieltjes integrand `f·g'` -/

/-- coefficients of `x ↦ pf(x)·pg'(x)` -/
def rsCoeffs (pf pg : List Rat) : List Rat := polyMul pf (derivCoeffs pg)

theorem rs_integrand_eq (pf pg : List Rat) :
    (fun x => D1.f (adPoly pf) x * D1.df (adPoly pg) x) = evalPoly (rsCoeffs pf pg) := by
  funext x
  rw [D1_f_adPoly, D1_df_adPoly, rsCoeffs, evalPoly_polyMul]

/-- formal degree: `deg (f·g') ≤ deg f + deg g − 1` -/
theorem rsCoeffs_length_le (pf pg : List Rat) :
    (rsCoeffs pf pg).length ≤ pf.length + (pg.length - 1) - 1 := by
  have := polyMul_length_le pf (derivCoeffs pg)
  rwa [derivCoeffs_length] at this

theorem evalPolyR_rsCoeffs (pf pg : List Rat) (x : ℝ) :
    evalPolyR (rsCoeffs pf pg) x = evalPolyR pf x * deriv (evalPolyR pg) x := by
  rw [rsCoeffs, evalPolyR_polyMul, deriv_evalPolyR]

/-! ### the Cavalieri integrand `f·g'`, `g(x) = x − c(f(x)) + c(0)` -/

/-- coefficients of `g'(x) = 1 − f'(x)·c'(f(x))` -/
def cavGDerivCoeffs (pf pc : List Rat) : List Rat :=
  polySub [1] (polyMul (derivCoeffs pf) (polyComp (derivCoeffs pc) pf))

/-- coefficients of `x ↦ f(x)·g'(x)` -/
def cavCoeffs (pf pc : List Rat) : List Rat := polyMul pf (cavGDerivCoeffs pf pc)

theorem evalPoly_one (x : Rat) : evalPoly [1] x = 1 := by simp

theorem D1_df_cavG_adPoly (pf pc : List Rat) (c0 x : Rat) :
    D1.df (cavG (adPoly pf) (adPoly pc) c0) x = evalPoly (cavGDerivCoeffs pf pc) x := by
  simp only [D1.df, cavG, D1_fdf_adPoly, D1_composition_adPoly, AD.add, AD.sub, ofNat_one_rat,
    QuadTiling.zero_eq, cavGDerivCoeffs, evalPoly_polySub, evalPoly_polyMul, evalPoly_polyComp,
    evalPoly_one, add_zero]

/-- the closure `g` built by `gen_display_cav` evaluates to `x − c(f(x)) + c0` -/
theorem D1_f_cavG_adPoly (pf pc : List Rat) (c0 x : Rat) :
    D1.f (cavG (adPoly pf) (adPoly pc) c0) x = x - evalPoly pc (evalPoly pf x) + c0 := by
  simp only [D1.f, cavG, D1_fdf_adPoly, D1_composition_adPoly, AD.add, AD.sub]

theorem cav_integrand_eq (pf pc : List Rat) (c0 : Rat) :
    (fun x => D1.f (adPoly pf) x * D1.df (cavG (adPoly pf) (adPoly pc) c0) x) =
      evalPoly (cavCoeffs pf pc) := by
  funext x
  rw [D1_f_adPoly, D1_df_cavG_adPoly, cavCoeffs, evalPoly_polyMul]

/-- formal degree: `deg g' ≤ max 0 (deg c · deg f − 1)` -/
theorem cavGDerivCoeffs_length_le (pf pc : List Rat) :
    (cavGDerivCoeffs pf pc).length ≤ max 1 ((pc.length - 1) * (pf.length - 1)) := by
  have h1 := polyComp_length_le (derivCoeffs pc) pf
  have h2 := polyMul_length_le (derivCoeffs pf) (polyComp (derivCoeffs pc) pf)
  rw [derivCoeffs_length] at h1 h2
  rw [cavGDerivCoeffs, polySub_length, List.length_singleton]
  by_cases hc : pc.length - 1 = 0
  · have hnil : derivCoeffs pc = [] :=
      List.eq_nil_of_length_eq_zero (by rw [derivCoeffs_length]; exact hc)
    rw [hnil, polyComp, polyMul_nil_right]
    simp
  · have hE : (pc.length - 1) * (pf.length - 1) =
        (pc.length - 1 - 1) * (pf.length - 1) + (pf.length - 1) := by
      conv_lhs => rw [show pc.length - 1 = (pc.length - 1 - 1) + 1 by omega]
      rw [Nat.add_mul, Nat.one_mul]
    rw [hE]
    omega

/-- formal degree: `deg (f·g') ≤ deg f + max 0 (deg c · deg f − 1)` -/
theorem cavCoeffs_length_le (pf pc : List Rat) :
    (cavCoeffs pf pc).length ≤ pf.length + max 1 ((pc.length - 1) * (pf.length - 1)) - 1 := by
  have h1 := polyMul_length_le pf (cavGDerivCoeffs pf pc)
  have h2 := cavGDerivCoeffs_length_le pf pc
  rw [cavCoeffs]
  omega

/-- the real function `g(x) = x − c(f(x)) + c(0)` of the Cavalieri display -/
noncomputable def cavGR (pf pc : List Rat) (x : ℝ) : ℝ :=
  x - evalPolyR pc (evalPolyR pf x) + evalPolyR pc 0

theorem cavGR_hasDerivAt (pf pc : List Rat) (x : ℝ) :
    HasDerivAt (cavGR pf pc) (evalPolyR (cavGDerivCoeffs pf pc) x) x := by
  have hc := (evalPolyR_hasDerivAt pc (evalPolyR pf x)).comp x (evalPolyR_hasDerivAt pf x)
  have h := ((hasDerivAt_id x).sub hc).add_const (evalPolyR pc 0)
  have hv : evalPolyR (cavGDerivCoeffs pf pc) x =
      1 - evalPolyR (derivCoeffs pc) (evalPolyR pf x) * evalPolyR (derivCoeffs pf) x := by
    rw [cavGDerivCoeffs, evalPolyR_polySub, evalPolyR_polyMul, evalPolyR_polyComp, evalPolyR_one]
    ring
  rw [hv]
  exact h

theorem evalPolyR_cavCoeffs (pf pc : List Rat) (x : ℝ) :
    evalPolyR (cavCoeffs pf pc) x = evalPolyR pf x * deriv (cavGR pf pc) x := by
  rw [cavCoeffs, evalPolyR_polyMul, (cavGR_hasDerivAt pf pc x).deriv]

end Cav.C07Accuracy
