/-
  Tiling by the emitted triangles, part 8: the open triangle.

  * (P1) `StrictInQ` / `ClosedInQ` are symmetric in the corners; hence `StrictIn q (sq t)` and
    `ClosedIn q (sq t)` are the notions of the ghost triple `t`;
  * (P2) for a clockwise triple the second alternative is void; the ray membership lies between the
    open and the closed triangle;
  * (P3) the open triangle is open in the horizontal direction;
  * (P4) finitely many abscissae can be avoided;
  * (P5) a point strictly inside one / two triangles can be moved to a generic abscissa.
-/
import Cav.Lemmas.GenOutInRay2
import Cav.Lemmas.GenOutInTriDefs

set_option linter.unusedVariables false
set_option linter.unusedSimpArgs false

namespace Cav.GenOutIn
open Cav Cav.Geo Cav.QuadGeom Cav.CvxEvents Cav.GenInv Cav.MonoGeom

/-! ### (P1) symmetry -/

theorem StrictInQ_rot (q a b c : Q) : StrictInQ q b c a ↔ StrictInQ q a b c := by
  unfold StrictInQ
  constructor
  · rintro (⟨h1, h2, h3⟩ | ⟨h1, h2, h3⟩)
    · exact Or.inl ⟨h3, h1, h2⟩
    · exact Or.inr ⟨h3, h1, h2⟩
  · rintro (⟨h1, h2, h3⟩ | ⟨h1, h2, h3⟩)
    · exact Or.inl ⟨h2, h3, h1⟩
    · exact Or.inr ⟨h2, h3, h1⟩

theorem ClosedInQ_rot (q a b c : Q) : ClosedInQ q b c a ↔ ClosedInQ q a b c := by
  unfold ClosedInQ
  constructor
  · rintro (⟨h1, h2, h3⟩ | ⟨h1, h2, h3⟩)
    · exact Or.inl ⟨h3, h1, h2⟩
    · exact Or.inr ⟨h3, h1, h2⟩
  · rintro (⟨h1, h2, h3⟩ | ⟨h1, h2, h3⟩)
    · exact Or.inl ⟨h2, h3, h1⟩
    · exact Or.inr ⟨h2, h3, h1⟩

/-- a transposition flips the three signs -/
theorem StrictInQ_swap (q a b c : Q) : StrictInQ q b a c ↔ StrictInQ q a b c := by
  unfold StrictInQ
  have e1 := orient_rev a b q
  have e2 := orient_rev b c q
  have e3 := orient_rev c a q
  constructor
  · rintro (⟨h1, h2, h3⟩ | ⟨h1, h2, h3⟩)
    · exact Or.inr ⟨by linarith, by linarith, by linarith⟩
    · exact Or.inl ⟨by linarith, by linarith, by linarith⟩
  · rintro (⟨h1, h2, h3⟩ | ⟨h1, h2, h3⟩)
    · exact Or.inr ⟨by linarith, by linarith, by linarith⟩
    · exact Or.inl ⟨by linarith, by linarith, by linarith⟩

theorem ClosedInQ_swap (q a b c : Q) : ClosedInQ q b a c ↔ ClosedInQ q a b c := by
  unfold ClosedInQ
  have e1 := orient_rev a b q
  have e2 := orient_rev b c q
  have e3 := orient_rev c a q
  constructor
  · rintro (⟨h1, h2, h3⟩ | ⟨h1, h2, h3⟩)
    · exact Or.inr ⟨by linarith, by linarith, by linarith⟩
    · exact Or.inl ⟨by linarith, by linarith, by linarith⟩
  · rintro (⟨h1, h2, h3⟩ | ⟨h1, h2, h3⟩)
    · exact Or.inr ⟨by linarith, by linarith, by linarith⟩
    · exact Or.inl ⟨by linarith, by linarith, by linarith⟩

/-- `StrictInQ` is invariant under every permutation of the corners -/
theorem StrictInQ_perm {q a b c p r s : Q}
    (h : (p, r, s) = (a, b, c) ∨ (p, r, s) = (a, c, b) ∨ (p, r, s) = (b, a, c) ∨
      (p, r, s) = (b, c, a) ∨ (p, r, s) = (c, a, b) ∨ (p, r, s) = (c, b, a)) :
    StrictInQ q p r s ↔ StrictInQ q a b c := by
  rcases h with h | h | h | h | h | h <;> cases h
  · exact Iff.rfl
  · rw [← StrictInQ_rot q a c b, StrictInQ_swap, StrictInQ_rot, StrictInQ_rot]
  · exact StrictInQ_swap q a b c
  · exact StrictInQ_rot q a b c
  · rw [StrictInQ_rot, StrictInQ_rot]
  · rw [StrictInQ_swap, StrictInQ_rot]

/-- `ClosedInQ` is invariant under every permutation of the corners -/
theorem ClosedInQ_perm {q a b c p r s : Q}
    (h : (p, r, s) = (a, b, c) ∨ (p, r, s) = (a, c, b) ∨ (p, r, s) = (b, a, c) ∨
      (p, r, s) = (b, c, a) ∨ (p, r, s) = (c, a, b) ∨ (p, r, s) = (c, b, a)) :
    ClosedInQ q p r s ↔ ClosedInQ q a b c := by
  rcases h with h | h | h | h | h | h <;> cases h
  · exact Iff.rfl
  · rw [← ClosedInQ_rot q a c b, ClosedInQ_swap, ClosedInQ_rot, ClosedInQ_rot]
  · exact ClosedInQ_swap q a b c
  · exact ClosedInQ_rot q a b c
  · rw [ClosedInQ_rot, ClosedInQ_rot]
  · rw [ClosedInQ_swap, ClosedInQ_rot]

theorem sq_perm (a b c : Q) :
    (toQ (sq (a, b, c)).1, toQ (sq (a, b, c)).2.1, toQ (sq (a, b, c)).2.2) = (a, b, c) ∨
    (toQ (sq (a, b, c)).1, toQ (sq (a, b, c)).2.1, toQ (sq (a, b, c)).2.2) = (a, c, b) ∨
    (toQ (sq (a, b, c)).1, toQ (sq (a, b, c)).2.1, toQ (sq (a, b, c)).2.2) = (b, a, c) ∨
    (toQ (sq (a, b, c)).1, toQ (sq (a, b, c)).2.1, toQ (sq (a, b, c)).2.2) = (b, c, a) ∨
    (toQ (sq (a, b, c)).1, toQ (sq (a, b, c)).2.1, toQ (sq (a, b, c)).2.2) = (c, a, b) ∨
    (toQ (sq (a, b, c)).1, toQ (sq (a, b, c)).2.1, toQ (sq (a, b, c)).2.2) = (c, b, a) := by
  unfold sq
  simp only
  rcases sort3_cases (Fq a) (Fq b) (Fq c) with h | h | h | h | h | h <;> rw [h] <;>
    simp only [toQ_Fq, true_or, or_true]

/-- strictly inside the emitted triangle = strictly inside the ghost triple -/
theorem StrictIn_sq (q : Q) (t : Q × Q × Q) :
    StrictIn q (sq t) ↔ StrictInQ q t.1 t.2.1 t.2.2 := by
  obtain ⟨a, b, c⟩ := t
  unfold StrictIn
  exact StrictInQ_perm (sq_perm a b c)

/-- in the closed emitted triangle = in the closed ghost triple -/
theorem ClosedIn_sq (q : Q) (t : Q × Q × Q) :
    ClosedIn q (sq t) ↔ ClosedInQ q t.1 t.2.1 t.2.2 := by
  obtain ⟨a, b, c⟩ := t
  unfold ClosedIn
  exact ClosedInQ_perm (sq_perm a b c)

/-! ### (P2) clockwise triples -/

theorem orient_sum (a b c q : Q) :
    orient a b q + orient b c q + orient c a q = orient a b c := by
  unfold orient
  ring

/-- for a clockwise triple the all-positive alternative is void -/
theorem StrictInQ_cw {q a b c : Q} (ho : orient a b c < 0) :
    StrictInQ q a b c ↔ (orient a b q < 0 ∧ orient b c q < 0 ∧ orient c a q < 0) := by
  unfold StrictInQ
  constructor
  · rintro (h | ⟨h1, h2, h3⟩)
    · exact h
    · have e := orient_sum a b c q
      exact absurd ho (by linarith)
  · exact Or.inl

theorem ClosedInQ_of_cw {q a b c : Q}
    (h : orient a b q ≤ 0 ∧ orient b c q ≤ 0 ∧ orient c a q ≤ 0) : ClosedInQ q a b c :=
  Or.inl h

/-- for a clockwise triple the all-nonnegative alternative is void, too -/
theorem ClosedInQ_cw {q a b c : Q} (ho : orient a b c < 0) :
    ClosedInQ q a b c ↔ (orient a b q ≤ 0 ∧ orient b c q ≤ 0 ∧ orient c a q ≤ 0) := by
  unfold ClosedInQ
  constructor
  · rintro (h | ⟨h1, h2, h3⟩)
    · exact h
    · have e := orient_sum a b c q
      exact absurd ho (by linarith)
  · exact Or.inl

/-- a point strictly inside a clockwise triangle lies in it in the ray sense -/
theorem StrictInQ_ray {q a b c : Q} (ho : orient a b c < 0)
    (hqa : q.1 ≠ a.1) (hqb : q.1 ≠ b.1) (hqc : q.1 ≠ c.1) (h : StrictInQ q a b c) :
    rayCount q a b c % 2 = 1 := by
  obtain ⟨h1, h2, h3⟩ := (StrictInQ_cw ho).mp h
  exact strict_inside_ray' ho hqa hqb hqc h1 h2 h3

/-- a point of a clockwise triangle in the ray sense lies in the closed triangle -/
theorem ray_ClosedInQ {q a b c : Q} (ho : orient a b c < 0)
    (hqa : q.1 ≠ a.1) (hqb : q.1 ≠ b.1) (hqc : q.1 ≠ c.1) (h : rayCount q a b c % 2 = 1) :
    ClosedInQ q a b c :=
  Or.inl (ray_closed' ho hqa hqb hqc h)

/-- the same for the emitted triangle of a clockwise ghost triple -/
theorem StrictIn_inTriV {q : Q} {t : Q × Q × Q} (ho : orient t.1 t.2.1 t.2.2 < 0)
    (hqa : q.1 ≠ t.1.1) (hqb : q.1 ≠ t.2.1.1) (hqc : q.1 ≠ t.2.2.1) (h : StrictIn q (sq t)) :
    inTriV q (sq t) :=
  (inTriV_sq q t).mpr (StrictInQ_ray ho hqa hqb hqc ((StrictIn_sq q t).mp h))

theorem inTriV_ClosedIn {q : Q} {t : Q × Q × Q} (ho : orient t.1 t.2.1 t.2.2 < 0)
    (hqa : q.1 ≠ t.1.1) (hqb : q.1 ≠ t.2.1.1) (hqc : q.1 ≠ t.2.2.1) (h : inTriV q (sq t)) :
    ClosedIn q (sq t) :=
  (ClosedIn_sq q t).mpr (ray_ClosedInQ ho hqa hqb hqc ((inTriV_sq q t).mp h))

/-! ### (P3) openness in the horizontal direction -/

theorem orient_shift (a b q : Q) (δ : Rat) :
    orient a b (q.1 + δ, q.2) = orient a b q - (b.2 - a.2) * δ := by
  unfold orient
  ring

theorem lin_neg {A k : Rat} (hA : A < 0) :
    ∃ ε : Rat, 0 < ε ∧ ∀ δ, 0 ≤ δ → δ < ε → A - k * δ < 0 := by
  have hk : 0 < |k| + 1 := by have := abs_nonneg k; linarith
  refine ⟨-A / (|k| + 1), div_pos (by linarith) hk, fun δ h0 h1 => ?_⟩
  have h2 : δ * (|k| + 1) < -A := (lt_div_iff₀ hk).mp h1
  have h3 : -k * δ ≤ |k| * δ := mul_le_mul_of_nonneg_right (neg_le_abs k) h0
  have h4 : -k * δ = -(k * δ) := by ring
  have h5 : δ * (|k| + 1) = |k| * δ + δ := by ring
  linarith

theorem lin_pos {A k : Rat} (hA : 0 < A) :
    ∃ ε : Rat, 0 < ε ∧ ∀ δ, 0 ≤ δ → δ < ε → 0 < A - k * δ := by
  obtain ⟨ε, hε, h⟩ := lin_neg (A := -A) (k := -k) (by linarith)
  refine ⟨ε, hε, fun δ h0 h1 => ?_⟩
  have := h δ h0 h1
  have e : -A - -k * δ = -(A - k * δ) := by ring
  linarith

theorem lin_neg3 {A1 A2 A3 k1 k2 k3 : Rat} (h1 : A1 < 0) (h2 : A2 < 0) (h3 : A3 < 0) :
    ∃ ε : Rat, 0 < ε ∧ ∀ δ, 0 ≤ δ → δ < ε →
      A1 - k1 * δ < 0 ∧ A2 - k2 * δ < 0 ∧ A3 - k3 * δ < 0 := by
  obtain ⟨ε1, p1, g1⟩ := lin_neg (k := k1) h1
  obtain ⟨ε2, p2, g2⟩ := lin_neg (k := k2) h2
  obtain ⟨ε3, p3, g3⟩ := lin_neg (k := k3) h3
  refine ⟨min ε1 (min ε2 ε3), lt_min p1 (lt_min p2 p3), fun δ h0 hd => ?_⟩
  have d1 : δ < ε1 := lt_of_lt_of_le hd (min_le_left _ _)
  have d23 : δ < min ε2 ε3 := lt_of_lt_of_le hd (min_le_right _ _)
  have d2 : δ < ε2 := lt_of_lt_of_le d23 (min_le_left _ _)
  have d3 : δ < ε3 := lt_of_lt_of_le d23 (min_le_right _ _)
  exact ⟨g1 δ h0 d1, g2 δ h0 d2, g3 δ h0 d3⟩

theorem lin_pos3 {A1 A2 A3 k1 k2 k3 : Rat} (h1 : 0 < A1) (h2 : 0 < A2) (h3 : 0 < A3) :
    ∃ ε : Rat, 0 < ε ∧ ∀ δ, 0 ≤ δ → δ < ε →
      0 < A1 - k1 * δ ∧ 0 < A2 - k2 * δ ∧ 0 < A3 - k3 * δ := by
  obtain ⟨ε1, p1, g1⟩ := lin_pos (k := k1) h1
  obtain ⟨ε2, p2, g2⟩ := lin_pos (k := k2) h2
  obtain ⟨ε3, p3, g3⟩ := lin_pos (k := k3) h3
  refine ⟨min ε1 (min ε2 ε3), lt_min p1 (lt_min p2 p3), fun δ h0 hd => ?_⟩
  have d1 : δ < ε1 := lt_of_lt_of_le hd (min_le_left _ _)
  have d23 : δ < min ε2 ε3 := lt_of_lt_of_le hd (min_le_right _ _)
  have d2 : δ < ε2 := lt_of_lt_of_le d23 (min_le_left _ _)
  have d3 : δ < ε3 := lt_of_lt_of_le d23 (min_le_right _ _)
  exact ⟨g1 δ h0 d1, g2 δ h0 d2, g3 δ h0 d3⟩

/-- the open triangle is open in the horizontal direction -/
theorem StrictInQ_open {q a b c : Q} (h : StrictInQ q a b c) :
    ∃ ε : Rat, 0 < ε ∧ ∀ δ, 0 ≤ δ → δ < ε → StrictInQ (q.1 + δ, q.2) a b c := by
  rcases h with ⟨h1, h2, h3⟩ | ⟨h1, h2, h3⟩
  · obtain ⟨ε, hε, g⟩ := lin_neg3 (k1 := b.2 - a.2) (k2 := c.2 - b.2) (k3 := a.2 - c.2) h1 h2 h3
    refine ⟨ε, hε, fun δ h0 hd => Or.inl ?_⟩
    rw [orient_shift, orient_shift, orient_shift]
    exact g δ h0 hd
  · obtain ⟨ε, hε, g⟩ := lin_pos3 (k1 := b.2 - a.2) (k2 := c.2 - b.2) (k3 := a.2 - c.2) h1 h2 h3
    refine ⟨ε, hε, fun δ h0 hd => Or.inr ?_⟩
    rw [orient_shift, orient_shift, orient_shift]
    exact g δ h0 hd

/-! ### (P4) avoiding finitely many abscissae -/

theorem avoid_list : ∀ (L : List Rat) (x ε : Rat), 0 < ε →
    ∃ δ, 0 < δ ∧ δ < ε ∧ ∀ y ∈ L, y ≠ x + δ
  | [], x, ε, hε => ⟨ε / 2, by linarith, by linarith, fun y hy => absurd hy (List.not_mem_nil)⟩
  | y :: L, x, ε, hε => by
    by_cases hy : x < y
    · obtain ⟨δ, h0, h1, h2⟩ := avoid_list L x (min ε (y - x)) (lt_min hε (sub_pos.mpr hy))
      have d1 : δ < ε := lt_of_lt_of_le h1 (min_le_left _ _)
      have d2 : δ < y - x := lt_of_lt_of_le h1 (min_le_right _ _)
      refine ⟨δ, h0, d1, fun z hz => ?_⟩
      rcases List.mem_cons.mp hz with rfl | hz
      · exact ne_of_gt (by linarith)
      · exact h2 z hz
    · obtain ⟨δ, h0, h1, h2⟩ := avoid_list L x ε hε
      refine ⟨δ, h0, h1, fun z hz => ?_⟩
      rcases List.mem_cons.mp hz with rfl | hz
      · exact ne_of_lt (by linarith [not_lt.mp hy])
      · exact h2 z hz

/-- an abscissa in `(x, x + ε)` that is not a vertex abscissa -/
theorem avoid_ring (R : RingQ) (x ε : Rat) (hε : 0 < ε) :
    ∃ δ, 0 < δ ∧ δ < ε ∧ ∀ v, v < R.n → R.x v ≠ x + δ := by
  obtain ⟨δ, h0, h1, h2⟩ := avoid_list ((List.range R.n).map R.x) x ε hε
  exact ⟨δ, h0, h1, fun v hv => h2 (R.x v) (List.mem_map.mpr ⟨v, List.mem_range.mpr hv, rfl⟩)⟩

/-! ### (P5) generic points of the open triangles -/

/-- a point strictly inside a triangle can be moved to a generic abscissa -/
theorem StrictInQ_generic (R : RingQ) {q a b c : Q} (h : StrictInQ q a b c) :
    ∃ q' : Q, Generic R q' ∧ StrictInQ q' a b c := by
  obtain ⟨ε, hε, g⟩ := StrictInQ_open h
  obtain ⟨δ, h0, h1, h2⟩ := avoid_ring R q.1 ε hε
  exact ⟨(q.1 + δ, q.2), fun v hv => h2 v hv, g δ (le_of_lt h0) h1⟩

/-- a point strictly inside two triangles can be moved to a generic abscissa -/
theorem StrictInQ_generic2 (R : RingQ) {q a b c a' b' c' : Q} (h : StrictInQ q a b c)
    (h' : StrictInQ q a' b' c') :
    ∃ q' : Q, Generic R q' ∧ StrictInQ q' a b c ∧ StrictInQ q' a' b' c' := by
  obtain ⟨ε, hε, g⟩ := StrictInQ_open h
  obtain ⟨ε', hε', g'⟩ := StrictInQ_open h'
  obtain ⟨δ, h0, h1, h2⟩ := avoid_ring R q.1 (min ε ε') (lt_min hε hε')
  have d1 : δ < ε := lt_of_lt_of_le h1 (min_le_left _ _)
  have d2 : δ < ε' := lt_of_lt_of_le h1 (min_le_right _ _)
  exact ⟨(q.1 + δ, q.2), fun v hv => h2 v hv, g δ (le_of_lt h0) d1, g' δ (le_of_lt h0) d2⟩

/-- the same for emitted triangles -/
theorem StrictIn_generic2 (R : RingQ) {q : Q} {t t' : Q × Q × Q} (h : StrictIn q (sq t))
    (h' : StrictIn q (sq t')) :
    ∃ q' : Q, Generic R q' ∧ StrictIn q' (sq t) ∧ StrictIn q' (sq t') := by
  obtain ⟨q', hg, k, k'⟩ := StrictInQ_generic2 R ((StrictIn_sq q t).mp h) ((StrictIn_sq q t').mp h')
  exact ⟨q', hg, (StrictIn_sq q' t).mpr k, (StrictIn_sq q' t').mpr k'⟩

theorem StrictIn_generic (R : RingQ) {q : Q} {t : Q × Q × Q} (h : StrictIn q (sq t)) :
    ∃ q' : Q, Generic R q' ∧ StrictIn q' (sq t) := by
  obtain ⟨q', hg, k⟩ := StrictInQ_generic R ((StrictIn_sq q t).mp h)
  exact ⟨q', hg, (StrictIn_sq q' t).mpr k⟩

end Cav.GenOutIn
