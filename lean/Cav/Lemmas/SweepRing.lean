/-
  The set-up phase over `XQ` establishes what the "no index panic" argument needs of the vertex
  ring (`SweepIndex.Ring`) and the initial invariant `K V none`: finite, pairwise different
  points; `prev`/`next` mutually inverse; every vertex typed; every Start vertex queued.
-/
import Cav.Lemmas.SweepIndex

set_option linter.unusedSectionVars false
set_option linter.unusedVariables false

namespace Cav.SweepRing
open Cav Num Cav.Geo Cav.Sweep Cav.SweepRun Cav.SweepHoare Cav.SweepEvents Cav.SweepReg
  Cav.SweepSetup Cav.SweepIndex

/-! ### arithmetic of the ring links -/

theorem mod_prev_next {n j : Nat} (hj : j < n) : ((j + n - 1) % n + 1) % n = j := by
  rcases Nat.eq_zero_or_pos j with rfl | hpos
  · have h0 : 0 + n - 1 = n - 1 := by omega
    have h1 : (n - 1) % n = n - 1 := Nat.mod_eq_of_lt (by omega)
    rw [h0, h1]
    have : n - 1 + 1 = n := by omega
    rw [this, Nat.mod_self]
  · have h1 : (j + n - 1) % n = j - 1 := by
      have : j + n - 1 = (j - 1) + n := by omega
      rw [this, Nat.add_mod_right]
      exact Nat.mod_eq_of_lt (by omega)
    rw [h1]
    have : j - 1 + 1 = j := by omega
    rw [this]
    exact Nat.mod_eq_of_lt hj

theorem mod_next_prev {n j : Nat} (hj : j < n) : ((j + 1) % n + n - 1) % n = j := by
  rcases Nat.lt_or_ge (j + 1) n with h | h
  · rw [Nat.mod_eq_of_lt h]
    have : j + 1 + n - 1 = j + n := by omega
    rw [this, Nat.add_mod_right]
    exact Nat.mod_eq_of_lt hj
  · have hn : j + 1 = n := by omega
    rw [hn, Nat.mod_self]
    have : 0 + n - 1 = n - 1 := by omega
    rw [this]
    have : n - 1 = j := by omega
    rw [this]
    exact Nat.mod_eq_of_lt hj

/-! ### `eventsInsertStart` keeps every key and inserts the new one -/

theorem eventsInsertStart_go_keys {V : Array (Vtx XQ)} (hfin : AllFin V) (hinj : Inj V)
    (vi : Nat) (v : Vtx XQ) (hv : V[vi]? = some v) :
    ∀ (l : List (Nat × List Nat)) (s : St XQ) (l' : List (Nat × List Nat)) (s' : St XQ),
      s.verts = V → (eventsInsertStart.go vi v.p l).run s = .ok (l', s') →
      (∀ a ∈ l, ∃ a' ∈ l', a'.1 = a.1) ∧ ∃ a' ∈ l', a'.1 = vi := by
  intro l
  induction l with
  | nil =>
    intro s l' s' hs h
    unfold eventsInsertStart.go at h
    cases h
    exact ⟨(by intro a ha; cases ha), ⟨_, List.mem_cons_self, rfl⟩⟩
  | cons ke rest ih =>
    obtain ⟨k, es⟩ := ke
    intro s l' s' hs h
    unfold eventsInsertStart.go at h
    simp only [bind_ok, getVtx_ok] at h
    obtain ⟨kv, s1, ⟨hk, rfl⟩, h⟩ := h
    rw [hs] at hk
    have fv := hfin vi v hv
    have fk := hfin k kv hk
    split at h
    · cases h
      exact ⟨fun a ha => ⟨a, List.mem_cons_of_mem _ ha, rfl⟩, ⟨_, List.mem_cons_self, rfl⟩⟩
    · rename_i hc
      cases h
      have hkv : vi = k := hinj vi k v kv hv hk ((cmp_eq_iff fv fk).mp hc)
      subst hkv
      refine ⟨?_, ⟨_, List.mem_cons_self, rfl⟩⟩
      intro a ha
      rcases List.mem_cons.mp ha with rfl | ha
      · exact ⟨_, List.mem_cons_self, rfl⟩
      · exact ⟨a, List.mem_cons_of_mem _ ha, rfl⟩
    · simp only [bind_ok, run_pure, Except.ok.injEq, Prod.mk.injEq] at h
      obtain ⟨r', s2, hgo, rfl, rfl⟩ := h
      obtain ⟨hkeys, a', ha', e⟩ := ih s1 r' s2 hs hgo
      refine ⟨?_, ⟨a', List.mem_cons_of_mem _ ha', e⟩⟩
      intro a ha
      rcases List.mem_cons.mp ha with rfl | ha
      · exact ⟨_, List.mem_cons_self, rfl⟩
      · obtain ⟨b, hb, e'⟩ := hkeys a ha
        exact ⟨b, List.mem_cons_of_mem _ hb, e'⟩

/-- `eventsInsertStart vi` keeps the vertex ring and every key of the queue; afterwards `vi` is
    in the queue -/
theorem eventsInsertStart_keys {V : Array (Vtx XQ)} (hfin : AllFin V) (hinj : Inj V) (vi : Nat)
    {s s' : St XQ} (hV : s.verts = V) (h : (eventsInsertStart vi).run s = .ok ((), s')) :
    s'.verts = V ∧ (∀ a ∈ s.events, ∃ a' ∈ s'.events, a'.1 = a.1) ∧
      ∃ a' ∈ s'.events, a'.1 = vi := by
  unfold eventsInsertStart at h
  simp only [bind_ok, run_get, Except.ok.injEq, Prod.mk.injEq, getVtx_ok, run_modify] at h
  obtain ⟨s0, s1, ⟨e0, e1⟩, v, s2, ⟨hv, e2⟩, l', s3, hgo, -, e3⟩ := h
  subst e0 e1 e2 e3
  rw [hV] at hv
  obtain ⟨hkeys, hin⟩ := eventsInsertStart_go_keys hfin hinj vi v hv _ _ _ _ hV hgo
  have hs3 := (eventsInsertStart_go_ok V hfin vi v hv _ _ l' s3 hV hgo).1
  subst hs3
  exact ⟨hV, hkeys, hin⟩


/-! ### one polygon -/

/-- the vertex pushed at position `j` of the block of `poly` that starts at index `base` -/
def blkVtx (poly : Array (Pt XQ)) (base j : Nat) : Vtx XQ :=
  ⟨poly.getD j dummyPt, base + (j + poly.size - 1) % poly.size, base + (j + 1) % poly.size⟩

/-- the type the set-up loop computes for position `j` -/
def blkType (poly : Array (Pt XQ)) (j : Nat) : Option PType :=
  fromTriplet (poly.getD j dummyPt) (poly.getD ((j + poly.size - 1) % poly.size) dummyPt)
    (poly.getD ((j + 1) % poly.size) dummyPt)

/-- the vertex array while the block of `poly` is pushed onto `V0`: `i` vertices so far -/
structure BlkV (poly : Array (Pt XQ)) (V0 : Array (Vtx XQ)) (i : Nat) (seen : List (Pt XQ))
    (A : Array (Vtx XQ)) : Prop where
  size : A.size = V0.size + i
  old : ∀ k, k < V0.size → A[k]? = V0[k]?
  new : ∀ j, j < i → A[V0.size + j]? = some (blkVtx poly V0.size j)
  seen : ∀ (k : Nat) (v : Vtx XQ), A[k]? = some v → v.p ∈ seen
  fin : AllFin A
  inj : Inj A

/-- the queue while the block is pushed: every position so far has a type, Start positions are
    queued, the keys of the queue `evs0` at the start of the block are kept -/
structure BlkE (poly : Array (Pt XQ)) (base : Nat) (evs0 : List (Nat × List Nat)) (i : Nat)
    (evs : List (Nat × List Nat)) : Prop where
  typ : ∀ j, j < i → blkType poly j ≠ none ∧
    (blkType poly j = some .start → ∃ a ∈ evs, a.1 = base + j)
  keys : ∀ a ∈ evs0, ∃ a' ∈ evs, a'.1 = a.1

theorem BlkV.push {poly : Array (Pt XQ)} {V0 A : Array (Vtx XQ)} {i : Nat}
    {seen seen' : List (Pt XQ)} (h : BlkV poly V0 i seen A)
    (hv : validPt seen (poly.getD i dummyPt) = .ok seen') :
    BlkV poly V0 (i + 1) seen' (A.push (blkVtx poly V0.size i)) := by
  obtain ⟨hfinp, hnew, rfl⟩ := (validPt_ok_iff _ _ _).mp hv
  have hfin : Geo.Finite (poly.getD i dummyPt) := finite_of_validPt hv
  have hsz := h.size
  refine ⟨by simp [hsz]; omega, ?_, ?_, ?_, ?_, ?_⟩
  · intro k hk
    rw [Array.getElem?_push_lt (by omega)]
    rw [← h.old k hk, Array.getElem?_eq_getElem (by omega)]
  · intro j hj
    rcases Nat.lt_or_ge j i with hji | hji
    · rw [Array.getElem?_push_lt (by omega), ← h.new j hji, Array.getElem?_eq_getElem (by omega)]
    · have : j = i := by omega
      subst this
      rw [← hsz, Array.getElem?_push_size]
  · intro k v hk
    rcases Nat.lt_trichotomy k A.size with hlt | heq | hgt
    · rw [Array.getElem?_push_lt hlt] at hk
      exact List.mem_cons_of_mem _ (h.seen k v (by rw [Array.getElem?_eq_getElem hlt]; exact hk))
    · subst heq
      rw [Array.getElem?_push_size] at hk
      cases hk
      exact List.mem_cons_self
    · rw [Array.getElem?_eq_none (by simp; omega)] at hk; cases hk
  · intro k v hk
    rcases Nat.lt_trichotomy k A.size with hlt | heq | hgt
    · rw [Array.getElem?_push_lt hlt] at hk
      exact h.fin k v (by rw [Array.getElem?_eq_getElem hlt]; exact hk)
    · subst heq
      rw [Array.getElem?_push_size] at hk
      cases hk
      exact hfin
    · rw [Array.getElem?_eq_none (by simp; omega)] at hk; cases hk
  · -- pairwise different points
    have key : ∀ (k : Nat) (v : Vtx XQ), k < A.size → A[k]? = some v →
        toQ v.p ≠ toQ (poly.getD i dummyPt) := by
      intro k v hk hkv he
      have hmem := h.seen k v hkv
      have hf := h.fin k v hkv
      have := (eq_iff hf hfin).mpr he
      rw [hnew _ hmem] at this
      cases this
    intro a b va vb ha hb he
    rcases Nat.lt_trichotomy a A.size with hla | hea | hga
    · rw [Array.getElem?_push_lt hla] at ha
      have ha' : A[a]? = some va := by rw [Array.getElem?_eq_getElem hla]; exact ha
      rcases Nat.lt_trichotomy b A.size with hlb | heb | hgb
      · rw [Array.getElem?_push_lt hlb] at hb
        have hb' : A[b]? = some vb := by rw [Array.getElem?_eq_getElem hlb]; exact hb
        exact h.inj a b va vb ha' hb' he
      · subst heb
        rw [Array.getElem?_push_size] at hb
        cases hb
        exact absurd he (key a va hla ha')
      · rw [Array.getElem?_eq_none (by simp; omega)] at hb; cases hb
    · subst hea
      rw [Array.getElem?_push_size] at ha
      cases ha
      rcases Nat.lt_trichotomy b A.size with hlb | heb | hgb
      · rw [Array.getElem?_push_lt hlb] at hb
        have hb' : A[b]? = some vb := by rw [Array.getElem?_eq_getElem hlb]; exact hb
        exact absurd he.symm (key b vb hlb hb')
      · exact heb.symm
      · rw [Array.getElem?_eq_none (by simp; omega)] at hb; cases hb
    · rw [Array.getElem?_eq_none (by simp; omega)] at ha; cases ha


theorem BlkE.mono {poly : Array (Pt XQ)} {base i : Nat} {evs0 evs evs' : List (Nat × List Nat)}
    (h : BlkE poly base evs0 i evs) (hk : ∀ a ∈ evs, ∃ a' ∈ evs', a'.1 = a.1) :
    BlkE poly base evs0 i evs' := by
  refine ⟨?_, ?_⟩
  · intro j hj
    refine ⟨(h.typ j hj).1, fun hs => ?_⟩
    obtain ⟨a, ha, e⟩ := (h.typ j hj).2 hs
    obtain ⟨a', ha', e'⟩ := hk a ha
    exact ⟨a', ha', e'.trans e⟩
  · intro a ha
    obtain ⟨b, hb, e⟩ := h.keys a ha
    obtain ⟨b', hb', e'⟩ := hk b hb
    exact ⟨b', hb', e'.trans e⟩

theorem BlkE.succ {poly : Array (Pt XQ)} {base i : Nat} {evs0 evs : List (Nat × List Nat)}
    (h : BlkE poly base evs0 i evs) (h1 : blkType poly i ≠ none)
    (h2 : blkType poly i = some .start → ∃ a ∈ evs, a.1 = base + i) :
    BlkE poly base evs0 (i + 1) evs := by
  refine ⟨?_, h.keys⟩
  intro j hj
  rcases Nat.lt_or_ge j i with hji | hji
  · exact h.typ j hji
  · have : j = i := by omega
    subst this
    exact ⟨h1, h2⟩

/-- one iteration of the vertex loop -/
theorem setupBody_blk (poly : Array (Pt XQ)) (V0 : Array (Vtx XQ)) (evs0 : List (Nat × List Nat))
    (i : Nat) (seen : List (Pt XQ)) (s : St XQ) (hV : BlkV poly V0 i seen s.verts)
    (hE : BlkE poly V0.size evs0 i s.events) (r : ForInStep (List (Pt XQ))) (s' : St XQ)
    (h : (setupBody poly poly.size V0.size i seen).run s = .ok (r, s')) :
    ∃ seen', r = .yield seen' ∧ BlkV poly V0 (i + 1) seen' s'.verts ∧
      BlkE poly V0.size evs0 (i + 1) s'.events := by
  unfold setupBody at h
  have hT : blkType poly i = fromTriplet (poly.getD i dummyPt)
      (poly.getD ((i + poly.size - 1) % poly.size) dummyPt)
      (poly.getD ((i + 1) % poly.size) dummyPt) := rfl
  cases hv : validPt seen (poly.getD i dummyPt) with
  | error e =>
    simp only [hv, run_bind, run_throw] at h
    cases h
  | ok seen' =>
    have hpush := hV.push hv
    simp only [hv] at h
    cases hft : fromTriplet (poly.getD i dummyPt)
        (poly.getD ((i + poly.size - 1) % poly.size) dummyPt)
        (poly.getD ((i + 1) % poly.size) dummyPt) with
    | none =>
      rw [hft] at h
      simp only [run_bind, run_modify, run_throw] at h
      cases h
    | some t =>
      rw [hft] at h
      rw [hft] at hT
      cases t with
      | start =>
        simp only [run_bind, run_modify] at h
        cases hr : (eventsInsertStart (V0.size + i)).run
            { s with verts := s.verts.push ⟨poly.getD i dummyPt,
              V0.size + (i + poly.size - 1) % poly.size, V0.size + (i + 1) % poly.size⟩ } with
        | error e => rw [hr] at h; cases h
        | ok q =>
          obtain ⟨u, s1⟩ := q
          rw [hr] at h
          simp only [run_pure, Except.ok.injEq, Prod.mk.injEq] at h
          obtain ⟨rfl, rfl⟩ := h
          obtain ⟨hV1, hkeys, hin⟩ := eventsInsertStart_keys hpush.fin hpush.inj (V0.size + i) rfl hr
          refine ⟨seen', rfl, by rw [hV1]; exact hpush, ?_⟩
          exact (hE.mono hkeys).succ (by rw [hT]; simp) (fun _ => hin)
      | end_ =>
        simp only [run_bind, run_modify, run_pure, Except.ok.injEq, Prod.mk.injEq] at h
        obtain ⟨rfl, rfl⟩ := h
        exact ⟨seen', rfl, hpush, hE.succ (by rw [hT]; simp) (by rw [hT]; simp)⟩
      | bend =>
        simp only [run_bind, run_modify, run_pure, Except.ok.injEq, Prod.mk.injEq] at h
        obtain ⟨rfl, rfl⟩ := h
        exact ⟨seen', rfl, hpush, hE.succ (by rw [hT]; simp) (by rw [hT]; simp)⟩

/-- the vertex loop over the positions `i, …, i+k-1` -/
theorem setupLoop_blk (poly : Array (Pt XQ)) (V0 : Array (Vtx XQ)) (evs0 : List (Nat × List Nat))
    (k : Nat) : ∀ (i : Nat) (seen : List (Pt XQ)) (s : St XQ),
      BlkV poly V0 i seen s.verts → BlkE poly V0.size evs0 i s.events →
      ∀ (seen' : List (Pt XQ)) (s' : St XQ),
        (forIn (List.range' i k 1) seen (setupBody poly poly.size V0.size)).run s = .ok (seen', s') →
        BlkV poly V0 (i + k) seen' s'.verts ∧ BlkE poly V0.size evs0 (i + k) s'.events := by
  induction k with
  | zero =>
    intro i seen s hV hE seen' s' h
    rw [List.range'_zero, forIn_nil_run] at h
    cases h
    exact ⟨hV, hE⟩
  | succ k ih =>
    intro i seen s hV hE seen' s' h
    rw [List.range'_succ, forIn_cons_run] at h
    cases hr : (setupBody poly poly.size V0.size i seen).run s with
    | error e => rw [hr] at h; cases h
    | ok q =>
      obtain ⟨r, s1⟩ := q
      obtain ⟨seen1, rfl, hV1, hE1⟩ := setupBody_blk poly V0 evs0 i seen s hV hE r s1 hr
      rw [hr] at h
      simp only at h
      have := ih (i + 1) seen1 s1 hV1 hE1 seen' s' h
      have e : i + 1 + k = i + (k + 1) := by omega
      rw [e] at this
      exact this


/-! ### between two polygons -/

/-- invariant between two polygons: the ring built so far is closed, typed, its Start vertices
    are queued, and `seen` holds every vertex point -/
structure Glob (seen : List (Pt XQ)) (s : St XQ) : Prop where
  fin : AllFin s.verts
  inj : Inj s.verts
  link : ∀ (u : Nat) (v : Vtx XQ), s.verts[u]? = some v →
    ∃ vp vn, s.verts[v.prev]? = some vp ∧ s.verts[v.next]? = some vn ∧ vp.next = u ∧ vn.prev = u
  typed : ∀ (u : Nat) (v vp vn : Vtx XQ), s.verts[u]? = some v → s.verts[v.prev]? = some vp →
    s.verts[v.next]? = some vn → fromTriplet v.p vp.p vn.p ≠ none
  starts : ∀ (u : Nat) (v vp vn : Vtx XQ), s.verts[u]? = some v → s.verts[v.prev]? = some vp →
    s.verts[v.next]? = some vn → fromTriplet v.p vp.p vn.p = some .start →
    ∃ a ∈ s.events, a.1 = u
  seen : ∀ (k : Nat) (v : Vtx XQ), s.verts[k]? = some v → v.p ∈ seen

/-- a completed block closes the ring again -/
theorem glob_of_block {poly : Array (Pt XQ)} {seen0 seen : List (Pt XQ)} {s0 s : St XQ}
    (hn : 0 < poly.size) (h0 : Glob seen0 s0)
    (hV : BlkV poly s0.verts poly.size seen s.verts)
    (hE : BlkE poly s0.verts.size s0.events poly.size s.events) : Glob seen s := by
  have hsize := hV.size
  -- a vertex of the new array is an old one or a block vertex
  have hcase : ∀ (u : Nat) (v : Vtx XQ), s.verts[u]? = some v →
      (u < s0.verts.size ∧ s0.verts[u]? = some v) ∨
      (∃ j, j < poly.size ∧ u = s0.verts.size + j ∧ v = blkVtx poly s0.verts.size j) := by
    intro u v hu
    rcases Nat.lt_or_ge u s0.verts.size with h | h
    · left; exact ⟨h, by rw [← hV.old u h]; exact hu⟩
    · right
      have hlt : u < s.verts.size := lt_size_of_some hu
      refine ⟨u - s0.verts.size, by omega, by omega, ?_⟩
      have := hV.new (u - s0.verts.size) (by omega)
      have e : s0.verts.size + (u - s0.verts.size) = u := by omega
      rw [e, hu] at this
      cases this; rfl
  -- old entries are unchanged
  have hold : ∀ (k : Nat) (v : Vtx XQ), s0.verts[k]? = some v → s.verts[k]? = some v := by
    intro k v hk
    rw [hV.old k (lt_size_of_some hk)]; exact hk
  -- the neighbours of a block vertex
  have hblk : ∀ j, j < poly.size →
      s.verts[(blkVtx poly s0.verts.size j).prev]? =
        some (blkVtx poly s0.verts.size ((j + poly.size - 1) % poly.size)) ∧
      s.verts[(blkVtx poly s0.verts.size j).next]? =
        some (blkVtx poly s0.verts.size ((j + 1) % poly.size)) := by
    intro j hj
    exact ⟨hV.new _ (Nat.mod_lt _ hn), hV.new _ (Nat.mod_lt _ hn)⟩
  refine ⟨hV.fin, hV.inj, ?_, ?_, ?_, hV.seen⟩
  · intro u v hu
    rcases hcase u v hu with ⟨hlt, hu0⟩ | ⟨j, hj, rfl, rfl⟩
    · obtain ⟨vp, vn, hp, hnx, e1, e2⟩ := h0.link u v hu0
      exact ⟨vp, vn, hold _ _ hp, hold _ _ hnx, e1, e2⟩
    · obtain ⟨hp, hnx⟩ := hblk j hj
      refine ⟨_, _, hp, hnx, ?_, ?_⟩
      · show s0.verts.size + ((j + poly.size - 1) % poly.size + 1) % poly.size = s0.verts.size + j
        rw [mod_prev_next hj]
      · show s0.verts.size + ((j + 1) % poly.size + poly.size - 1) % poly.size = s0.verts.size + j
        rw [mod_next_prev hj]
  · intro u v vp vn hu hp hnx
    rcases hcase u v hu with ⟨hlt, hu0⟩ | ⟨j, hj, rfl, rfl⟩
    · obtain ⟨vp0, vn0, hp0, hn0, -, -⟩ := h0.link u v hu0
      rw [hold _ _ hp0] at hp; rw [hold _ _ hn0] at hnx
      cases hp; cases hnx
      exact h0.typed u v _ _ hu0 hp0 hn0
    · obtain ⟨hp', hn'⟩ := hblk j hj
      rw [hp'] at hp; rw [hn'] at hnx
      cases hp; cases hnx
      exact (hE.typ j hj).1
  · intro u v vp vn hu hp hnx hst
    rcases hcase u v hu with ⟨hlt, hu0⟩ | ⟨j, hj, rfl, rfl⟩
    · obtain ⟨vp0, vn0, hp0, hn0, -, -⟩ := h0.link u v hu0
      rw [hold _ _ hp0] at hp; rw [hold _ _ hn0] at hnx
      cases hp; cases hnx
      obtain ⟨a, ha, e⟩ := h0.starts u v _ _ hu0 hp0 hn0 hst
      obtain ⟨a', ha', e'⟩ := hE.keys a ha
      exact ⟨a', ha', e'.trans e⟩
    · obtain ⟨hp', hn'⟩ := hblk j hj
      rw [hp'] at hp; rw [hn'] at hnx
      cases hp; cases hnx
      exact (hE.typ j hj).2 hst


theorem setupPolygon_glob (poly : Array (Pt XQ)) {seen seen' : List (Pt XQ)} {s s' : St XQ}
    (h0 : Glob seen s) (h : (setupPolygon poly seen).run s = .ok (seen', s')) : Glob seen' s' := by
  rw [setupPolygon_eq] at h
  by_cases hsz : poly.size < 3
  · simp only [hsz, if_true] at h; cases h
  · simp only [hsz, if_false] at h
    have hV0 : BlkV poly s.verts 0 seen s.verts :=
      ⟨rfl, fun _ _ => rfl, fun j hj => absurd hj (Nat.not_lt_zero _), h0.seen, h0.fin, h0.inj⟩
    have hE0 : BlkE poly s.verts.size s.events 0 s.events :=
      ⟨fun j hj => absurd hj (Nat.not_lt_zero _), fun a ha => ⟨a, ha, rfl⟩⟩
    obtain ⟨hV, hE⟩ := setupLoop_blk poly s.verts s.events poly.size 0 seen s hV0 hE0 seen' s' h
    rw [Nat.zero_add] at hV hE
    exact glob_of_block (by omega) h0 hV hE

theorem polysLoop_glob (polys : List (Array (Pt XQ))) :
    ∀ (seen : List (Pt XQ)) (s : St XQ), Glob seen s →
      ∀ (seen' : List (Pt XQ)) (s' : St XQ),
        (forIn polys seen polyBody).run s = .ok (seen', s') → Glob seen' s' := by
  induction polys with
  | nil =>
    intro seen s h0 seen' s' h
    rw [forIn_nil_run] at h
    cases h; exact h0
  | cons poly rest ih =>
    intro seen s h0 seen' s' h
    rw [forIn_cons_run] at h
    cases hr : (polyBody poly seen).run s with
    | error e => rw [hr] at h; cases h
    | ok q =>
      obtain ⟨r, s1⟩ := q
      rw [hr] at h
      unfold polyBody at hr
      obtain ⟨seen1, s2, hp, hq⟩ := bind_ok.mp hr
      simp only [run_pure, Except.ok.injEq, Prod.mk.injEq] at hq
      obtain ⟨rfl, rfl⟩ := hq
      simp only at h
      exact ih seen1 s2 (setupPolygon_glob poly h0 hp) seen' s' h

theorem glob_init : Glob [] (initSt : St XQ) := by
  refine ⟨?_, ?_, ?_, ?_, ?_, ?_⟩
  · intro i v hv; simp [initSt] at hv
  · intro i j vi vj hi; simp [initSt] at hi
  all_goals intros; simp_all [initSt]

/-! ### the initial invariant -/

theorem ring_of_glob {seen : List (Pt XQ)} {s : St XQ} (h : Glob seen s) : Ring s.verts :=
  ⟨h.fin, h.inj, h.link, h.typed⟩

theorem k_init {seen : List (Pt XQ)} {s : St XQ} (h : Glob seen s)
    (hsorted : EvSorted s.verts s.events) : K s.verts none s := by
  refine ⟨rfl, hsorted, fun _ _ => trivial, ?_, ?_⟩
  · intro w v hv _
    unfold cnt
    rw [hv]
    simp [After]
  · intro w v hv _
    obtain ⟨vp, vn, hp, hn, -, -⟩ := h.link w v hv
    have ht := tri_cases (h.fin w v hv) (h.fin _ vp hp) (h.fin _ vn hn)
    rw [← keyOf_eq hv, ← keyOf_eq hp, ← keyOf_eq hn] at ht
    cases hft : fromTriplet v.p vp.p vn.p with
    | none => exact absurd hft (h.typed w v vp vn hv hp hn)
    | some t =>
      rw [hft] at ht
      cases t with
      | start => exact Or.inl (h.starts w v vp vn hv hp hn hft)
      | bend =>
        rcases ht with ⟨-, h2, -⟩ | ⟨h1, -, -⟩
        · exact Or.inr (Or.inr ⟨trivial, h2⟩)
        · exact Or.inr (Or.inl ⟨trivial, h1⟩)
      | end_ => exact Or.inr (Or.inl ⟨trivial, ht.1⟩)

/-! ### the whole model -/

/-- **C15, no index panic** (over `XQ`): `r_edges[0]` of the Bend handler and `r_edges[0]`,
    `r_edges[1]` of the End handler always exist -/
theorem sweep_ne_index (polys : List (Array (Pt XQ))) : sweep polys ≠ .error (.panic "index") := by
  unfold sweep
  rw [run_eq]
  have hsetup := SweepHeap.forIn_list_pres (I := SweepHeap.SetupOK) (E := SweepHeap.NoPanic)
    polyBody SweepHeap.polyBody_sw polys ([] : List (Pt XQ))
  cases hr : (forIn polys ([] : List (Pt XQ)) polyBody).run (initSt : St XQ) with
  | error e =>
    simp only
    intro hc
    simp only [Except.error.injEq] at hc
    exact hsetup.err SweepHeap.setupOK_init hr "index" hc
  | ok q =>
    obtain ⟨seen, s1⟩ := q
    simp only
    have hok := (hsetup.ok SweepHeap.setupOK_init hr).1
    have hglob := polysLoop_glob polys [] initSt glob_init seen s1 hr
    have hsorted : EvSorted s1.verts s1.events :=
      ((Pres.forIn_list polyBody polyBody_sv polys ([] : List (Pt XQ))).ok setupInv_init hr).1.2
    have := loop_no_index (ring_of_glob hglob) (s1.verts.size + 1) s1 none
      ⟨0, 0, 0, SweepHeap.w_of_setupOK hok⟩ (k_init hglob hsorted)
    cases hl : (loop (s1.verts.size + 1)).run s1 with
    | error e =>
      simp only
      intro hc
      simp only [Except.error.injEq] at hc
      subst hc
      exact this hl
    | ok q2 => simp

end Cav.SweepRing
