/-
  The events of a strictly convex polygon in general position, evaluated symbolically on the
  sweep model from a canonical two-edge state `stC`: one back-chain shared by the bottom edge
  (edge 0, `bofIn = true`, left point = head of the chain) and the top edge (edge 1,
  `bofIn = false`, left point = tail of the chain).  The node array `N` is abstract: only the
  look-ups at the head `iB` and the tail `iT` of the chain are known.  Points are abstract and
  every pure geometric test of the model is a hypothesis.
-/
import Cav.Lemmas.CvxHeap

set_option linter.unusedSimpArgs false
set_option linter.unusedVariables false

namespace Cav.CvxEvents
open Cav Num Cav.Sweep Cav.SweepRun Cav.TriRun Cav.QuadRun Cav.TriEvents Cav.CvxHeap

abbrev Tri := Pt XQ × Pt XQ × Pt XQ

/-- canonical state: two active edges sharing one back-chain -/
def stC (V : Array (Vtx XQ)) (x : XQ) (N : Array (Node XQ)) (rm iB iT : Nat) (rB rT : Pt XQ)
    (evs : List (Nat × List Nat)) (out : List Tri) : St XQ :=
  { x := x, verts := V, nodes := N, chains := #[⟨rm, iB, iT⟩],
    edges := #[⟨rB, 0, true, none, some 1⟩, ⟨rT, 0, false, some 0, none⟩], active := [0, 1],
    events := evs, out := out, mono := true }

/-- the queue after `eventsAdd r e` into the one-entry queue `[(v, es)]` -/
def evMerge (o : Ordering) (r e v : Nat) (es : List Nat) : List (Nat × List Nat) :=
  match o with
  | .lt => [(r, [e]), (v, es)]
  | .eq => [(v, es ++ [e])]
  | .gt => [(v, es), (r, [e])]

section
variable (V : Array (Vtx XQ)) (x : XQ) (N : Array (Node XQ)) (rm iB iT : Nat)
  (B T p q1 q2 rp rO : Pt XQ) (vi pr nx r vO : Nat) (a1 a2 a3 a4 a5 a6 a7 a8 : Nat)
  (out : List Tri) (o : Ordering) (mx : XQ)

/-- a step whose run equation is given explicitly -/
macro "sm_by" t:term : tactic =>
  `(tactic| (sm_whnf; sm_is_bind; refine Runs.bind (b := _) (s1 := _) $t ?_; sm_whnf))

/-- Bend on the bottom chain (edge 0), chain `[B, T]` with two nodes: the triangle `p B T` is cut -/
theorem bendB
    (hNB : N[iB]? = some ⟨B, none, some iT⟩) (hNT : N[iT]? = some ⟨T, some iB, none⟩)
    (hv : V[vi]? = some ⟨p, pr, nx⟩) (h1 : V[pr]? = some ⟨q1, a1, a2⟩)
    (h2 : V[nx]? = some ⟨q2, a3, a4⟩)
    (hft : fromTriplet p q1 q2 = some .bend)
    (hr : (if q1.ge q2 = true then pr else nx) = r) (hrp : V[r]? = some ⟨rp, a5, a6⟩)
    (hO : V[vO]? = some ⟨rO, a7, a8⟩)
    (hfin : Num.isFinite mx = true)
    (hx : ofEq rp.x p.x = false)
    (hcw : clockwiseSign p B T = .c)
    (hmx : minTotal rp.x rO.x = mx)
    (hov1 : ofEq rp.x rO.x = true →
      ofGt (yExtrap p rp rp.x true) (yExtrap T rO rp.x true) = false)
    (hov2 : ofEq rp.x rO.x = false → cmpAtP p rp T rO mx true = .lt)
    (ho : rp.cmp rO = o) :
    Runs (stC V x N rm iB iT p rO [(vi, [0]), (vO, [1])] out)
      (.ok ((), stC V p.x
        (cut (appH N iB ⟨B, none, some iT⟩ p) N.size iT ⟨p, none, some iB⟩ ⟨T, some iB, none⟩)
        N.size N.size iT rp rO (evMerge o r 0 vO [1]) (sort3 p B T :: out))) handleNext := by
  have hBlt := lt_of_get hNB
  have hTlt := lt_of_get hNT
  have hBT : iB ≠ iT := by
    rintro rfl
    rw [hNB] at hNT; cases hNT
  have a1 := appH_new N iB ⟨B, none, some iT⟩ p hBlt
  have a2 := appH_old N iB ⟨B, none, some iT⟩ p hBlt
  have a3 := (appH_other N iB ⟨B, none, some iT⟩ p iT hTlt hBT.symm).trans hNT
  have c1 := cut_fst (appH N iB ⟨B, none, some iT⟩ p) N.size iT ⟨p, none, some iB⟩ ⟨T, some iB, none⟩
    (by simp [size_appH]) (Nat.ne_of_gt hTlt)
  have c3 := cut_snd (appH N iB ⟨B, none, some iT⟩ p) N.size iT ⟨p, none, some iB⟩ ⟨T, some iB, none⟩
    (by simp only [size_appH]; omega)
  simp only [] at a2 c1 c3
  unfold stC handleNext
  sm_steps [hv, h1, h2, hft]
  unfold handleBend
  sm_steps [hv, h1, h2, hft, hr, hrp, hO, hx, verticalIsCrossed, verticalIsCrossed.go]
  sm_by (run_chainAppend_head _ _ _ _ hNB)
  sm_bind
  sm_by (run_backTri_fwd_cut _ _ _ _ _ _ _ _ _ _ a1 a2 a3 (Nat.ne_of_gt hTlt) hcw)
  cases hxe : ofEq rp.x rO.x
  · have hov := hov2 hxe
    sm_steps [hrp, hr, hxe, hmx, hov, hfin, c1, c3, willOverlapBot, willOverlapTop, run_cmpAt, lpt?, lptD]
    cases o <;> (refine Runs.final ?_; sm_run [hrp, hO, ho, eventsAdd, eventsAdd.go, evMerge])
  · have hov := hov1 hxe
    sm_steps [hrp, hr, hxe, hmx, hov, hfin, c1, c3, willOverlapBot, willOverlapTop, run_yAt, lpt?, lptD]
    cases o <;> (refine Runs.final ?_; sm_run [hrp, hO, ho, eventsAdd, eventsAdd.go, evMerge])

/-- first Bend, on the bottom chain: the chain is the single node `i0`; nothing is cut -/
theorem bendB1 (i0 : Nat) (pL : Pt XQ)
    (hN0 : N[i0]? = some ⟨pL, none, none⟩)
    (hv : V[vi]? = some ⟨p, pr, nx⟩) (h1 : V[pr]? = some ⟨q1, a1, a2⟩)
    (h2 : V[nx]? = some ⟨q2, a3, a4⟩)
    (hft : fromTriplet p q1 q2 = some .bend)
    (hr : (if q1.ge q2 = true then pr else nx) = r) (hrp : V[r]? = some ⟨rp, a5, a6⟩)
    (hO : V[vO]? = some ⟨rO, a7, a8⟩)
    (hfin : Num.isFinite mx = true)
    (hx : ofEq rp.x p.x = false)
    (hmx : minTotal rp.x rO.x = mx)
    (hov1 : ofEq rp.x rO.x = true →
      ofGt (yExtrap p rp rp.x true) (yExtrap pL rO rp.x true) = false)
    (hov2 : ofEq rp.x rO.x = false → cmpAtP p rp pL rO mx true = .lt)
    (ho : rp.cmp rO = o) :
    Runs (stC V x N rm i0 i0 p rO [(vi, [0]), (vO, [1])] out)
      (.ok ((), stC V p.x (appH N i0 ⟨pL, none, none⟩ p)
        N.size N.size i0 rp rO (evMerge o r 0 vO [1]) out)) handleNext := by
  have h0lt := lt_of_get hN0
  have a1 := appH_new N i0 ⟨pL, none, none⟩ p h0lt
  have a2 := appH_old N i0 ⟨pL, none, none⟩ p h0lt
  simp only [] at a2
  unfold stC handleNext
  sm_steps [hv, h1, h2, hft]
  unfold handleBend
  sm_steps [hv, h1, h2, hft, hr, hrp, hO, hx, verticalIsCrossed, verticalIsCrossed.go]
  sm_by (run_chainAppend_head _ _ _ _ hN0)
  sm_bind
  sm_by (run_backTri_fwd_none _ _ _ _ _ _ _ a1 a2)
  cases hxe : ofEq rp.x rO.x
  · have hov := hov2 hxe
    sm_steps [hrp, hr, hxe, hmx, hov, hfin, a1, a2, willOverlapBot, willOverlapTop, run_cmpAt, lpt?, lptD]
    cases o <;> (refine Runs.final ?_; sm_run [hrp, hO, ho, eventsAdd, eventsAdd.go, evMerge])
  · have hov := hov1 hxe
    sm_steps [hrp, hr, hxe, hmx, hov, hfin, a1, a2, willOverlapBot, willOverlapTop, run_yAt, lpt?, lptD]
    cases o <;> (refine Runs.final ?_; sm_run [hrp, hO, ho, eventsAdd, eventsAdd.go, evMerge])

/-- Bend on the top chain (edge 1), chain `[B, T]` with two nodes: the triangle `B T p` is cut -/
theorem bendT
    (hNB : N[iB]? = some ⟨B, none, some iT⟩) (hNT : N[iT]? = some ⟨T, some iB, none⟩)
    (hv : V[vi]? = some ⟨p, pr, nx⟩) (h1 : V[pr]? = some ⟨q1, a1, a2⟩)
    (h2 : V[nx]? = some ⟨q2, a3, a4⟩)
    (hft : fromTriplet p q1 q2 = some .bend)
    (hr : (if q1.ge q2 = true then pr else nx) = r) (hrp : V[r]? = some ⟨rp, a5, a6⟩)
    (hO : V[vO]? = some ⟨rO, a7, a8⟩)
    (hfin : Num.isFinite mx = true)
    (hx : ofEq rp.x p.x = false)
    (hcw : clockwiseSign B T p = .c)
    (hmx : minTotal rp.x rO.x = mx)
    (hov1 : ofEq rp.x rO.x = true →
      ofLt (yExtrap p rp rp.x true) (yExtrap B rO rp.x true) = false)
    (hov2 : ofEq rp.x rO.x = false → cmpAtP p rp B rO mx true = .gt)
    (ho : rp.cmp rO = o) :
    Runs (stC V x N rm iB iT rO p [(vi, [1]), (vO, [0])] out)
      (.ok ((), stC V p.x
        (cut (appT N iT ⟨T, some iB, none⟩ p) iB N.size ⟨B, none, some iT⟩ ⟨p, some iT, none⟩)
        N.size iB N.size rO rp (evMerge o r 1 vO [0]) (sort3 B T p :: out))) handleNext := by
  have hBlt := lt_of_get hNB
  have hTlt := lt_of_get hNT
  have hBT : iB ≠ iT := by
    rintro rfl
    rw [hNB] at hNT; cases hNT
  have a1 := appT_new N iT ⟨T, some iB, none⟩ p hTlt
  have a2 := appT_old N iT ⟨T, some iB, none⟩ p hTlt
  have a3 := (appT_other N iT ⟨T, some iB, none⟩ p iB hBlt hBT).trans hNB
  have c1 := cut_fst (appT N iT ⟨T, some iB, none⟩ p) iB N.size ⟨B, none, some iT⟩ ⟨p, some iT, none⟩
    (by simp only [size_appT]; omega) (Nat.ne_of_lt hBlt)
  have c3 := cut_snd (appT N iT ⟨T, some iB, none⟩ p) iB N.size ⟨B, none, some iT⟩ ⟨p, some iT, none⟩
    (by simp [size_appT])
  simp only [] at a2 c1 c3
  unfold stC handleNext
  sm_steps [hv, h1, h2, hft]
  unfold handleBend
  sm_steps [hv, h1, h2, hft, hr, hrp, hO, hx, verticalIsCrossed, verticalIsCrossed.go]
  sm_by (run_chainAppend_tail _ _ _ _ hNT)
  sm_bind
  sm_by (run_backTri_bwd_cut _ _ _ _ _ _ _ _ _ _ a1 a2 a3 (Nat.ne_of_lt hBlt) hcw)
  cases hxe : ofEq rp.x rO.x
  · have hov := hov2 hxe
    sm_steps [hrp, hr, hxe, hmx, hov, hfin, c1, c3, willOverlapBot, willOverlapTop, run_cmpAt, lpt?, lptD]
    cases o <;> (refine Runs.final ?_; sm_run [hrp, hO, ho, eventsAdd, eventsAdd.go, evMerge])
  · have hov := hov1 hxe
    sm_steps [hrp, hr, hxe, hmx, hov, hfin, c1, c3, willOverlapBot, willOverlapTop, run_yAt, lpt?, lptD]
    cases o <;> (refine Runs.final ?_; sm_run [hrp, hO, ho, eventsAdd, eventsAdd.go, evMerge])

/-- first Bend, on the top chain -/
theorem bendT1 (i0 : Nat) (pL : Pt XQ)
    (hN0 : N[i0]? = some ⟨pL, none, none⟩)
    (hv : V[vi]? = some ⟨p, pr, nx⟩) (h1 : V[pr]? = some ⟨q1, a1, a2⟩)
    (h2 : V[nx]? = some ⟨q2, a3, a4⟩)
    (hft : fromTriplet p q1 q2 = some .bend)
    (hr : (if q1.ge q2 = true then pr else nx) = r) (hrp : V[r]? = some ⟨rp, a5, a6⟩)
    (hO : V[vO]? = some ⟨rO, a7, a8⟩)
    (hfin : Num.isFinite mx = true)
    (hx : ofEq rp.x p.x = false)
    (hmx : minTotal rp.x rO.x = mx)
    (hov1 : ofEq rp.x rO.x = true →
      ofLt (yExtrap p rp rp.x true) (yExtrap pL rO rp.x true) = false)
    (hov2 : ofEq rp.x rO.x = false → cmpAtP p rp pL rO mx true = .gt)
    (ho : rp.cmp rO = o) :
    Runs (stC V x N rm i0 i0 rO p [(vi, [1]), (vO, [0])] out)
      (.ok ((), stC V p.x (appT N i0 ⟨pL, none, none⟩ p)
        N.size i0 N.size rO rp (evMerge o r 1 vO [0]) out)) handleNext := by
  have h0lt := lt_of_get hN0
  have a1 := appT_new N i0 ⟨pL, none, none⟩ p h0lt
  have a2 := appT_old N i0 ⟨pL, none, none⟩ p h0lt
  simp only [] at a2
  unfold stC handleNext
  sm_steps [hv, h1, h2, hft]
  unfold handleBend
  sm_steps [hv, h1, h2, hft, hr, hrp, hO, hx, verticalIsCrossed, verticalIsCrossed.go]
  sm_by (run_chainAppend_tail _ _ _ _ hN0)
  sm_bind
  sm_by (run_backTri_bwd_none _ _ _ _ _ _ _ a1 a2)
  cases hxe : ofEq rp.x rO.x
  · have hov := hov2 hxe
    sm_steps [hrp, hr, hxe, hmx, hov, hfin, a1, a2, willOverlapBot, willOverlapTop, run_cmpAt, lpt?, lptD]
    cases o <;> (refine Runs.final ?_; sm_run [hrp, hO, ho, eventsAdd, eventsAdd.go, evMerge])
  · have hov := hov1 hxe
    sm_steps [hrp, hr, hxe, hmx, hov, hfin, a1, a2, willOverlapBot, willOverlapTop, run_yAt, lpt?, lptD]
    cases o <;> (refine Runs.final ?_; sm_run [hrp, hO, ho, eventsAdd, eventsAdd.go, evMerge])

/-- state after the End event -/
def stE (V : Array (Vtx XQ)) (x : XQ) (N : Array (Node XQ)) (rm iB iT : Nat) (rB rT : Pt XQ)
    (out : List Tri) : St XQ :=
  { x := x, verts := V, nodes := N, chains := #[⟨rm, iB, iT⟩],
    edges := #[⟨rB, 0, true, none, some 1⟩, ⟨rT, 0, false, some 0, none⟩], active := [],
    events := [], out := out, mono := true }

/-- the End event: both edges are removed, the last triangle `B T p` is cut -/
theorem endC (es : List Nat)
    (hNB : N[iB]? = some ⟨B, none, some iT⟩) (hNT : N[iT]? = some ⟨T, some iB, none⟩)
    (hv : V[vi]? = some ⟨p, pr, nx⟩) (h1 : V[pr]? = some ⟨q1, a1, a2⟩)
    (h2 : V[nx]? = some ⟨q2, a3, a4⟩)
    (hft : fromTriplet p q1 q2 = some .end_)
    (hes : es = [0, 1] ∨ es = [1, 0])
    (hfin : Num.isFinite x = true)
    (hg1 : ofGe (B.grad p) (T.grad p) = true) (hg2 : ofGe (T.grad p) (B.grad p) = false)
    (hc : cmpEdgeP B p T p x = .lt)
    (hcw : clockwiseSign B T p = .c) :
    Runs (stC V x N rm iB iT p p [(vi, es)] out)
      (.ok ((), stE V p.x
        (cut (appT N iT ⟨T, some iB, none⟩ p) iB N.size ⟨B, none, some iT⟩ ⟨p, some iT, none⟩)
        N.size iB N.size p p (sort3 B T p :: out))) handleNext := by
  have hBlt := lt_of_get hNB
  have hTlt := lt_of_get hNT
  have hBT : iB ≠ iT := by
    rintro rfl
    rw [hNB] at hNT; cases hNT
  have a1 := appT_new N iT ⟨T, some iB, none⟩ p hTlt
  have a2 := appT_old N iT ⟨T, some iB, none⟩ p hTlt
  have a3 := (appT_other N iT ⟨T, some iB, none⟩ p iB hBlt hBT).trans hNB
  simp only [] at a2
  unfold stC stE handleNext
  sm_steps [hv, h1, h2, hft]
  unfold handleEnd
  rcases hes with rfl | rfl
  all_goals
    sm_steps [hNB, hNT, hfin, hg1, hg2, hc, cmpEdgeP_self, run_edgeGrad, run_cmpEdge, lpt?, lptD,
      activeRemove, search, searchPos, cmpAll, isMono]
    sm_by (run_chainAppend_tail _ _ _ _ hNT)
    sm_bind
    sm_by (run_backTri_bwd_cut _ _ _ _ _ _ _ _ _ _ a1 a2 a3 (Nat.ne_of_lt hBlt) hcw)
    sm_eval

/-- the Start event of a polygon with a single Start vertex -/
theorem startC (L vB vT : Nat) (pL pB pT : Pt XQ) (l1 l2 : Nat)
    (hL : V[L]? = some ⟨pL, l1, l2⟩) (hl : Nbrs l1 l2 vB vT)
    (hB : V[vB]? = some ⟨pB, a1, a2⟩) (hT : V[vT]? = some ⟨pT, a3, a4⟩)
    (hfin : Num.isFinite pL.x = true)
    (hs1 : fromTriplet pL pB pT = some .start) (hs2 : fromTriplet pL pT pB = some .start)
    (hc1 : cmpEdgeP pL pB pL pT pL.x = .lt) (hc2 : cmpEdgeP pL pT pL pB pL.x = .gt)
    (ho : pT.cmp pB = o) :
    Runs (stQ V [(L, [])])
      (.ok ((), stC V pL.x #[⟨pL, none, none⟩] 0 0 0 pB pT (evMerge o vT 1 vB [0]) []))
      handleNext := by
  unfold stQ stC handleNext handleStart
  rcases hl with ⟨rfl, rfl⟩ | ⟨rfl, rfl⟩ <;> cases o
  all_goals
    sm_eval [hL, hB, hT, hs1, hs2, run_cmpEdge, lpt?, lptD, hc1, hc2, hfin, ho, evMerge,
      verticalIsCrossed, verticalIsCrossed.go, eventsAdd, eventsAdd.go, search, searchPos, cmpAll,
      isMono, activeInsert]

end

end Cav.CvxEvents
