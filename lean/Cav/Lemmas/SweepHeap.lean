/-
  Heap adequacy of the sweep model, part 1: the well-formedness invariant `W V N C D` of the
  heap (vertex ring `V`; exactly `N` nodes, `C` chains, `D` edges; every stored index in range)
  and its preservation by every program of the sweep that does not allocate.  With the
  precondition "the index is in range" the getters never fail, so none of these programs can
  raise one of the four model panics.
-/
import Cav.Lemmas.SweepHoare

set_option linter.unusedSectionVars false
set_option linter.unusedVariables false

namespace Cav.SweepHeap
open Cav Num Cav.Sweep Cav.SweepRun Cav.SweepHoare

variable {α : Type} {β : Type}

/-- an optional index is in range -/
def OptLt (o : Option Nat) (n : Nat) : Prop := ∀ i, o = some i → i < n

@[simp] theorem optLt_none (n : Nat) : OptLt none n := by intro i h; cases h
@[simp] theorem optLt_some (i n : Nat) : OptLt (some i) n ↔ i < n := by
  constructor
  · intro h; exact h i rfl
  · intro h j hj; cases hj; exact h
theorem OptLt.mono {o : Option Nat} {n m : Nat} (h : OptLt o n) (hnm : n ≤ m) : OptLt o m :=
  fun i hi => Nat.lt_of_lt_of_le (h i hi) hnm

/-- the links of a vertex are in range -/
def VtxOk (V : Nat) (v : Vtx α) : Prop := v.prev < V ∧ v.next < V
/-- the links of a node are in range -/
def NodeOk (N : Nat) (n : Node α) : Prop := OptLt n.prev N ∧ OptLt n.next N
/-- the node indices of a chain are in range -/
def ChainOk (N : Nat) (c : Chain) : Prop := c.rm < N ∧ c.head < N ∧ c.tail < N
/-- chain and partner indices of an edge are in range -/
def EdgeOk (C D : Nat) (e : Edge α) : Prop := e.chain < C ∧ OptLt e.bPart D ∧ OptLt e.tPart D
/-- vertex and edge ids of a queue entry are in range -/
def EvOk (V D : Nat) (ev : Nat × List Nat) : Prop := ev.1 < V ∧ ∀ e ∈ ev.2, e < D

theorem NodeOk.mono {N N' : Nat} {n : Node α} (h : NodeOk N n) (hN : N ≤ N') : NodeOk N' n :=
  ⟨h.1.mono hN, h.2.mono hN⟩
theorem ChainOk.mono {N N' : Nat} {c : Chain} (h : ChainOk N c) (hN : N ≤ N') : ChainOk N' c :=
  ⟨by have := h.1; omega, by have := h.2.1; omega, by have := h.2.2; omega⟩
theorem EdgeOk.mono {C D C' D' : Nat} {e : Edge α} (h : EdgeOk C D e) (hC : C ≤ C') (hD : D ≤ D') :
    EdgeOk C' D' e :=
  ⟨by have := h.1; omega, h.2.1.mono hD, h.2.2.mono hD⟩
theorem EvOk.mono {V D D' : Nat} {ev : Nat × List Nat} (h : EvOk V D ev) (hD : D ≤ D') :
    EvOk V D' ev :=
  ⟨h.1, fun e he => Nat.lt_of_lt_of_le (h.2 e he) hD⟩

/-- **heap well-formedness** with explicit sizes: the vertex ring is `V` (links in range), there
    are exactly `N` nodes, `C` chains and `D` edges, and every index stored in a cell, in the
    active list or in the event queue is in range of its array -/
structure W (V : Array (Vtx α)) (N C D : Nat) (s : St α) : Prop where
  verts : s.verts = V
  ring : ∀ v ∈ V.toList, VtxOk V.size v
  nsz : s.nodes.size = N
  csz : s.chains.size = C
  esz : s.edges.size = D
  nodes : ∀ n ∈ s.nodes.toList, NodeOk N n
  chains : ∀ c ∈ s.chains.toList, ChainOk N c
  edges : ∀ e ∈ s.edges.toList, EdgeOk C D e
  active : ∀ a ∈ s.active, a < D
  events : ∀ ev ∈ s.events, EvOk V.size D ev

/-- heap well-formedness, sizes left open -/
def HeapWF (V : Array (Vtx α)) (s : St α) : Prop := ∃ N C D, W V N C D s

/-- the errors a handler may raise apart from `panic "index"`: overlap, `NoPointType` and the
    `RefCell` borrow panic -/
structure BaseErr (E : SErr α → Prop) : Prop where
  overlap : ∀ k p, E (.overlap k p)
  npt : ∀ p, E (.noPointType p)
  borrow : E (.panic "borrow")

variable {V : Array (Vtx α)} {N C D : Nat} {E : SErr α → Prop}

theorem mem_setIfInBounds {γ : Type} {a : Array γ} {i : Nat} {x y : γ}
    (h : y ∈ (a.setIfInBounds i x).toList) : y = x ∨ y ∈ a.toList := by
  rw [Array.mem_toList_iff] at h ⊢
  rcases Array.mem_iff_getElem.mp h with ⟨j, hj, rfl⟩
  have hj' : j < a.size := by simpa using hj
  rw [Array.getElem_setIfInBounds hj']
  split
  · exact Or.inl rfl
  · exact Or.inr (Array.getElem_mem hj')

/-- the invariant does not look at `x`, `out`, `mono` -/
theorem w_congr (s s' : St α) (h1 : s'.verts = s.verts) (h2 : s'.nodes = s.nodes)
    (h3 : s'.chains = s.chains) (h4 : s'.edges = s.edges) (h5 : s'.active = s.active)
    (h6 : s'.events = s.events) (h : W V N C D s) : W V N C D s' :=
  ⟨h1 ▸ h.verts, h.ring, h2 ▸ h.nsz, h3 ▸ h.csz, h4 ▸ h.esz, h2 ▸ h.nodes, h3 ▸ h.chains,
    h4 ▸ h.edges, h5 ▸ h.active, h6 ▸ h.events⟩

theorem w_active (s : St α) (l : List Nat) (hl : ∀ a ∈ l, a < D) (h : W V N C D s) :
    W V N C D { s with active := l } :=
  ⟨h.verts, h.ring, h.nsz, h.csz, h.esz, h.nodes, h.chains, h.edges, hl, h.events⟩

theorem w_events (s : St α) (l : List (Nat × List Nat)) (hl : ∀ ev ∈ l, EvOk V.size D ev)
    (h : W V N C D s) : W V N C D { s with events := l } :=
  ⟨h.verts, h.ring, h.nsz, h.csz, h.esz, h.nodes, h.chains, h.edges, h.active, hl⟩

/-! ### getters: in range, hence no failure; the cell read is well-formed -/

variable [Num α]

theorem getNode_wf (i : Nat) (hi : i < N) :
    Pres (W V N C D) E (NodeOk N) (getNode i : SM α _) := by
  apply Pres.intro; intro s hs
  rw [run_getNode]
  cases h : s.nodes[i]? with
  | none =>
    have : i < s.nodes.size := by rw [hs.nsz]; exact hi
    rw [Array.getElem?_eq_getElem this] at h; cases h
  | some n => exact ⟨hs, hs.nodes n (Array.mem_toList_iff.mpr (Array.mem_of_getElem? h))⟩

theorem getChain_wf (i : Nat) (hi : i < C) :
    Pres (W V N C D) E (ChainOk N) (getChain i : SM α _) := by
  apply Pres.intro; intro s hs
  unfold getChain
  simp only [run_bind, run_get]
  cases h : s.chains[i]? with
  | none =>
    have : i < s.chains.size := by rw [hs.csz]; exact hi
    rw [Array.getElem?_eq_getElem this] at h; cases h
  | some n => exact ⟨hs, hs.chains n (Array.mem_toList_iff.mpr (Array.mem_of_getElem? h))⟩

theorem getEdge_wf (i : Nat) (hi : i < D) :
    Pres (W V N C D) E (EdgeOk C D) (getEdge i : SM α _) := by
  apply Pres.intro; intro s hs
  unfold getEdge
  simp only [run_bind, run_get]
  cases h : s.edges[i]? with
  | none =>
    have : i < s.edges.size := by rw [hs.esz]; exact hi
    rw [Array.getElem?_eq_getElem this] at h; cases h
  | some n => exact ⟨hs, hs.edges n (Array.mem_toList_iff.mpr (Array.mem_of_getElem? h))⟩

theorem getVtx_wf (i : Nat) (hi : i < V.size) :
    Pres (W V N C D) E (fun v => VtxOk V.size v ∧ V[i]? = some v) (getVtx i : SM α _) := by
  apply Pres.intro; intro s hs
  rw [run_getVtx]
  cases h : s.verts[i]? with
  | none =>
    have : i < s.verts.size := by rw [hs.verts]; exact hi
    rw [Array.getElem?_eq_getElem this] at h; cases h
  | some v =>
    refine ⟨hs, hs.ring v ?_, by rw [← hs.verts]; exact h⟩
    rw [← hs.verts]
    exact Array.mem_toList_iff.mpr (Array.mem_of_getElem? h)

/-! ### setters: the value written is well-formed -/

theorem setNode_wf (i : Nat) (n : Node α) (hn : NodeOk N n) :
    Pres (W V N C D) E (fun _ => True) (setNode i n : SM α _) := by
  apply Pres.intro; intro s hs
  refine ⟨⟨hs.verts, hs.ring, ?_, hs.csz, hs.esz, ?_, hs.chains, hs.edges, hs.active, hs.events⟩,
    trivial⟩
  · simpa using hs.nsz
  · intro m hm
    rcases mem_setIfInBounds hm with rfl | hm
    · exact hn
    · exact hs.nodes m hm

theorem setChain_wf (i : Nat) (c : Chain) (hc : ChainOk N c) :
    Pres (W V N C D) E (fun _ => True) (setChain i c : SM α _) := by
  apply Pres.intro; intro s hs
  refine ⟨⟨hs.verts, hs.ring, hs.nsz, ?_, hs.esz, hs.nodes, ?_, hs.edges, hs.active, hs.events⟩,
    trivial⟩
  · simpa using hs.csz
  · intro m hm
    rcases mem_setIfInBounds hm with rfl | hm
    · exact hc
    · exact hs.chains m hm

theorem setEdge_wf (i : Nat) (e : Edge α) (he : EdgeOk C D e) :
    Pres (W V N C D) E (fun _ => True) (setEdge i e : SM α _) := by
  apply Pres.intro; intro s hs
  refine ⟨⟨hs.verts, hs.ring, hs.nsz, hs.csz, ?_, hs.nodes, hs.chains, ?_, hs.active, hs.events⟩,
    trivial⟩
  · simpa using hs.esz
  · intro m hm
    rcases mem_setIfInBounds hm with rfl | hm
    · exact he
    · exact hs.edges m hm


theorem w_active_insert (s : St α) (i ei : Nat) (hei : ei < D) (h : W V N C D s) :
    W V N C D { s with active := s.active.take i ++ ei :: s.active.drop i } := by
  refine w_active _ _ ?_ h
  intro a ha
  rcases List.mem_append.mp ha with ha | ha
  · exact h.active a (List.mem_of_mem_take ha)
  · rcases List.mem_cons.mp ha with rfl | ha
    · exact hei
    · exact h.active a (List.mem_of_mem_drop ha)

theorem w_active_remove (s : St α) (i : Nat) (h : W V N C D s) :
    W V N C D { s with active := s.active.take i ++ s.active.drop (i + 1) } := by
  refine w_active _ _ ?_ h
  intro a ha
  rcases List.mem_append.mp ha with ha | ha
  · exact h.active a (List.mem_of_mem_take ha)
  · exact h.active a (List.mem_of_mem_drop ha)

/-! ### automation -/

open Lean Meta Elab Tactic in
/-- as `pres_lookup` of `SweepHoare`, for lemmas named `f_wf` -/
elab "wf_lookup" : tactic => do
  let g ← getMainGoal
  let t := (← instantiateMVars (← g.getType)).consumeMData
  unless t.isApp do throwError "wf_lookup: not an application"
  let prog := t.appArg!
  let .const c _ := prog.getAppFn | throwError "wf_lookup: no head constant"
  let base := c.replacePrefix `Cav.Sweep .anonymous
  if base == c then throwError "wf_lookup: not a model function"
  let str := (base.toString (escape := false)).replace "." "_"
  let id := mkIdent (Name.mkSimple (str ++ "_wf"))
  evalTactic (← `(tactic| (apply $id <;> first | assumption | pres_side)))

macro_rules | `(tactic| pres_prim) => `(tactic| wf_lookup)
-- induction hypotheses first (otherwise the lookup finds the theorem being proved)
macro_rules | `(tactic| pres_prim) => `(tactic| apply_pres_hyp)

/-- `get` returns a well-formed state; the facts about its lists are spelled out -/
theorem get_wf : Pres (W V N C D) E (fun s => (∀ a ∈ s.active, a < D) ∧
    (∀ ev ∈ s.events, EvOk V.size D ev) ∧ W V N C D s) (get : SM α (St α)) := by
  apply Pres.intro; intro s hs
  exact ⟨hs, hs.active, hs.events, hs⟩

macro_rules | `(tactic| pres_prim) => `(tactic| exact get_wf)

/-- closes the side conditions of the heap invariant -/
macro "wf_side" : tactic => `(tactic| first
  | assumption
  | exact True.intro
  | omega
  | (refine w_congr _ _ ?_ ?_ ?_ ?_ ?_ ?_ (by assumption) <;> rfl)
  | exact BaseErr.overlap (by assumption) _ _
  | exact BaseErr.npt (by assumption) _
  | exact BaseErr.borrow (by assumption)
  | exact w_active_insert _ _ _ (by assumption) (by assumption)
  | exact w_active_remove _ _ (by assumption)
  | exact w_events _ _ (by assumption) (by assumption)
  | (refine w_events _ _ ?_ ?_ <;> grind [EvOk])
  | grind [NodeOk, ChainOk, EdgeOk, VtxOk, EvOk, OptLt, List.getElem_mem])
macro_rules | `(tactic| pres_side) => `(tactic| wf_side)

/-! ### programs that do not allocate -/

theorem edgeLpt_wf (e : Edge α) (he : EdgeOk C D e) :
    Pres (W V N C D) E (fun _ => True) (edgeLpt e : SM α _) := by
  unfold edgeLpt; pres_auto

theorem yAt_wf (e : Edge α) (x : α) (r : Bool) (he : EdgeOk C D e) :
    Pres (W V N C D) E (fun _ => True) (yAt e x r : SM α _) := by
  unfold yAt; pres_auto

theorem edgeGrad_wf (e : Edge α) (he : EdgeOk C D e) :
    Pres (W V N C D) E (fun _ => True) (edgeGrad e : SM α _) := by
  unfold edgeGrad; pres_auto

theorem tieGrad_wf (e : Edge α) (he : EdgeOk C D e) :
    Pres (W V N C D) E (fun _ => True) (tieGrad e : SM α _) := by
  unfold tieGrad; pres_auto

theorem cmpEdge_wf (a b : Edge α) (ha : EdgeOk C D a) (hb : EdgeOk C D b) :
    Pres (W V N C D) E (fun _ => True) (cmpEdge a b : SM α _) := by
  unfold cmpEdge; pres_auto

theorem partialCmpEdge_wf (a b : Edge α) (ha : EdgeOk C D a) (hb : EdgeOk C D b) :
    Pres (W V N C D) E (fun _ => True) (partialCmpEdge a b : SM α _) := by
  unfold partialCmpEdge; pres_auto

theorem cmpAt_wf (a b : Edge α) (x : α) (r : Bool) (ha : EdgeOk C D a) (hb : EdgeOk C D b) :
    Pres (W V N C D) E (fun _ => True) (cmpAt a b x r : SM α _) := by
  unfold cmpAt; pres_auto


theorem willOverlapBot_wf (hE : BaseErr E) (ei : Nat) (b : Bool) (hei : ei < D) :
    Pres (W V N C D) E (fun _ => True) (willOverlapBot ei b : SM α _) := by
  unfold willOverlapBot; pres_auto

theorem willOverlapTop_wf (hE : BaseErr E) (ei : Nat) (b : Bool) (hei : ei < D) :
    Pres (W V N C D) E (fun _ => True) (willOverlapTop ei b : SM α _) := by
  unfold willOverlapTop; pres_auto

theorem searchPos_wf (key : Edge α) (hk : EdgeOk C D key) (l : List Nat) (hl : ∀ k ∈ l, k < D)
    (i : Nat) : Pres (W V N C D) E (fun _ => True) (searchPos key l i : SM α _) := by
  induction l generalizing i with
  | nil => unfold searchPos; pres_auto
  | cons k ks ih =>
    have hk' : k < D := hl k List.mem_cons_self
    have ih' := ih (fun a ha => hl a (List.mem_cons_of_mem _ ha))
    unfold searchPos; pres_auto

theorem noteMono_wf (key : Edge α) (l : List Nat) :
    Pres (W V N C D) E (fun _ => True) (noteMono key l : SM α _) := by
  apply Pres.intro; intro s hs
  exact ⟨w_congr s _ rfl rfl rfl rfl rfl rfl hs, trivial⟩

theorem search_wf (key : Edge α) (hk : EdgeOk C D key) (l : List Nat) (hl : ∀ k ∈ l, k < D) :
    Pres (W V N C D) E (fun _ => True) (search key l : SM α _) := by
  unfold search; pres_auto

theorem activeInsert_wf (ei : Nat) (hei : ei < D) :
    Pres (W V N C D) E (fun _ => True) (activeInsert ei : SM α _) := by
  unfold activeInsert; pres_auto

theorem activeRemove_wf (ei : Nat) (hei : ei < D) :
    Pres (W V N C D) E (fun _ => True) (activeRemove ei : SM α _) := by
  unfold activeRemove; pres_auto

theorem nodeTriangulate_wf (from_ : Nat) (hf : from_ < N) (bw : Bool) (fuel : Nat) :
    Pres (W V N C D) E (fun _ => True) (nodeTriangulate from_ bw fuel : SM α _) := by
  induction fuel with
  | zero => unfold nodeTriangulate; pres_auto
  | succ fuel ih =>
    unfold nodeTriangulate
    simp only [pure_bind]
    pres_auto_inline

theorem nodeFuel_wf :
    Pres (W V N C D) E (fun _ => True) (nodeFuel : SM α _) := by
  unfold nodeFuel; pres_auto

theorem backTriangulate_wf (c : Chain) (hc : ChainOk N c) (b : Bool) :
    Pres (W V N C D) E (fun _ => True) (backTriangulate c b : SM α _) := by
  unfold backTriangulate; pres_auto


theorem eventsAdd_go_wf (vi ei : Nat) (hvi : vi < V.size) (hei : ei < D) (p : Pt α)
    (l : List (Nat × List Nat)) (hl : ∀ ev ∈ l, EvOk V.size D ev) :
    Pres (W V N C D) E (fun r => ∀ ev ∈ r, EvOk V.size D ev) (eventsAdd.go vi ei p l : SM α _) := by
  induction l with
  | nil => unfold eventsAdd.go; pres_auto
  | cons k ks ih =>
    have hk := hl k List.mem_cons_self
    have ih' := ih (fun a ha => hl a (List.mem_cons_of_mem _ ha))
    unfold eventsAdd.go; pres_auto

theorem eventsAdd_wf (vi ei : Nat) (hvi : vi < V.size) (hei : ei < D) :
    Pres (W V N C D) E (fun _ => True) (eventsAdd vi ei : SM α _) := by
  unfold eventsAdd; pres_auto

theorem verticalIsCrossed_go_wf (skip : Option Nat) (p rp : Pt α) (l : List Nat)
    (hl : ∀ k ∈ l, k < D) :
    Pres (W V N C D) E (fun _ => True) (verticalIsCrossed.go skip p rp l : SM α _) := by
  induction l with
  | nil => unfold verticalIsCrossed.go; pres_auto
  | cons k ks ih =>
    have hk := hl k List.mem_cons_self
    have ih' := ih (fun a ha => hl a (List.mem_cons_of_mem _ ha))
    unfold verticalIsCrossed.go; pres_auto

theorem verticalIsCrossed_wf (skip : Option Nat) (p rp : Pt α) :
    Pres (W V N C D) E (fun _ => True) (verticalIsCrossed skip p rp : SM α _) := by
  unfold verticalIsCrossed; pres_auto

end Cav.SweepHeap

