/-
  Helper lemmas for `Thm/C11Simple`: pure real analysis.

  A continuous real function on `[l, r]` that is non-zero at both ends and has exactly one zero `ζ`
  in `[l, r]`, at which it is differentiable with NON-ZERO derivative (a simple zero), has values of
  strictly opposite sign at `l` and `r` (`sign_change_of_unique_simple_zero`).
-/
import Mathlib.Analysis.Calculus.Deriv.Slope
import Mathlib.Analysis.Calculus.Deriv.Add
import Mathlib.Topology.Order.IntermediateValue

namespace Cav.RootSimple
open Set Filter Topology

/-- a function with positive derivative at a zero `ζ` is negative just left and positive just right
    of `ζ`: there is `ε > 0` with `F x < 0` on `(ζ − ε, ζ)` and `0 < F x` on `(ζ, ζ + ε)` -/
theorem local_signs_of_pos_deriv {F : ℝ → ℝ} {ζ d : ℝ} (hζ : F ζ = 0) (hd : HasDerivAt F d ζ)
    (hd0 : 0 < d) :
    ∃ ε : ℝ, 0 < ε ∧ (∀ x, ζ - ε < x → x < ζ → F x < 0) ∧ (∀ x, ζ < x → x < ζ + ε → 0 < F x) := by
  have h1 : ∀ᶠ x in 𝓝[≠] ζ, 0 < slope F ζ x :=
    (hasDerivAt_iff_tendsto_slope.mp hd).eventually (lt_mem_nhds hd0)
  rw [eventually_nhdsWithin_iff, Metric.eventually_nhds_iff] at h1
  obtain ⟨ε, hε, h⟩ := h1
  have hs : ∀ x, slope F ζ x = (x - ζ)⁻¹ * F x := by
    intro x
    rw [slope_def_field, hζ, sub_zero, div_eq_inv_mul]
  refine ⟨ε, hε, ?_, ?_⟩
  · intro x g1 g2
    have hx : dist x ζ < ε := by rw [Real.dist_eq, abs_lt]; constructor <;> linarith
    have := h hx (ne_of_lt g2)
    rw [hs] at this
    have hneg : (x - ζ)⁻¹ < 0 := inv_lt_zero.mpr (by linarith)
    by_contra hc
    have : (x - ζ)⁻¹ * F x ≤ 0 := mul_nonpos_of_nonpos_of_nonneg (le_of_lt hneg) (not_lt.mp hc)
    linarith
  · intro x g1 g2
    have hx : dist x ζ < ε := by rw [Real.dist_eq, abs_lt]; constructor <;> linarith
    have := h hx (ne_of_gt g1)
    rw [hs] at this
    have hpos : 0 < (x - ζ)⁻¹ := inv_pos.mpr (by linarith)
    exact (mul_pos_iff_of_pos_left hpos).mp this

/-- a continuous function without zero on `[a, b]` that is positive at `a` is positive at `b` -/
theorem pos_of_no_zero_right {F : ℝ → ℝ} {a b : ℝ} (hab : a ≤ b) (hF : ContinuousOn F (Icc a b))
    (hnz : ∀ x ∈ Icc a b, F x ≠ 0) (ha : 0 < F a) : 0 < F b := by
  by_contra hc
  obtain ⟨x, hx, hx0⟩ := intermediate_value_Icc' hab hF ⟨not_lt.mp hc, le_of_lt ha⟩
  exact hnz x hx hx0

/-- a continuous function without zero on `[a, b]` that is negative at `b` is negative at `a` -/
theorem neg_of_no_zero_left {F : ℝ → ℝ} {a b : ℝ} (hab : a ≤ b) (hF : ContinuousOn F (Icc a b))
    (hnz : ∀ x ∈ Icc a b, F x ≠ 0) (hb : F b < 0) : F a < 0 := by
  by_contra hc
  obtain ⟨x, hx, hx0⟩ := intermediate_value_Icc' hab hF ⟨le_of_lt hb, not_lt.mp hc⟩
  exact hnz x hx hx0

/-- the case of a POSITIVE derivative at the zero: negative at the left end, positive at the right -/
theorem signs_of_unique_zero_pos_deriv {F : ℝ → ℝ} {l r ζ d : ℝ}
    (hF : ContinuousOn F (Icc l r)) (hmem : ζ ∈ Icc l r) (hl : F l ≠ 0) (hr : F r ≠ 0)
    (hζ : F ζ = 0) (huniq : ∀ x ∈ Icc l r, F x = 0 → x = ζ)
    (hd : HasDerivAt F d ζ) (hd0 : 0 < d) : F l < 0 ∧ 0 < F r := by
  obtain ⟨m1, m2⟩ := hmem
  have hlζ : l < ζ := lt_of_le_of_ne m1 (fun e => hl (by rw [e]; exact hζ))
  have hζr : ζ < r := lt_of_le_of_ne m2 (fun e => hr (by rw [← e]; exact hζ))
  obtain ⟨ε, hε, hL, hR⟩ := local_signs_of_pos_deriv hζ hd hd0
  constructor
  · -- a point just left of ζ
    set x := max l (ζ - ε / 2) with hx
    have x1 : l ≤ x := le_max_left _ _
    have x2 : x < ζ := max_lt hlζ (by linarith)
    have x3 : ζ - ε < x := lt_of_lt_of_le (by linarith) (le_max_right _ _)
    have hxneg : F x < 0 := hL x x3 x2
    refine neg_of_no_zero_left x1 (hF.mono (Icc_subset_Icc (le_refl _) (by linarith))) ?_ hxneg
    intro y hy hy0
    have := huniq y ⟨hy.1, by linarith [hy.2]⟩ hy0
    linarith [hy.2]
  · set x := min r (ζ + ε / 2) with hx
    have x1 : x ≤ r := min_le_left _ _
    have x2 : ζ < x := lt_min hζr (by linarith)
    have x3 : x < ζ + ε := lt_of_le_of_lt (min_le_right _ _) (by linarith)
    have hxpos : 0 < F x := hR x x2 x3
    refine pos_of_no_zero_right x1 (hF.mono (Icc_subset_Icc (by linarith) (le_refl _))) ?_ hxpos
    intro y hy hy0
    have := huniq y ⟨by linarith [hy.1], hy.2⟩ hy0
    linarith [hy.1]

/-- **Sign change at a unique simple zero.**  `F` continuous on `[l, r]`, non-zero at `l` and at
    `r`; `ζ ∈ [l, r]` is the only zero of `F` in `[l, r]`, and `F` has a NON-ZERO derivative `d` at
    `ζ`.  Then `F l` and `F r` have strictly opposite signs. -/
theorem sign_change_of_unique_simple_zero {F : ℝ → ℝ} {l r ζ d : ℝ}
    (hF : ContinuousOn F (Icc l r)) (hmem : ζ ∈ Icc l r) (hl : F l ≠ 0) (hr : F r ≠ 0)
    (hζ : F ζ = 0) (huniq : ∀ x ∈ Icc l r, F x = 0 → x = ζ)
    (hd : HasDerivAt F d ζ) (hd0 : d ≠ 0) : F l * F r < 0 := by
  rcases lt_or_gt_of_ne hd0 with hneg | hpos
  · have hG : ContinuousOn (fun x => -F x) (Icc l r) := hF.neg
    obtain ⟨a, b⟩ := signs_of_unique_zero_pos_deriv (F := fun x => -F x) (d := -d) hG hmem
      (by simpa using hl) (by simpa using hr) (by simpa using hζ)
      (fun x hx h0 => huniq x hx (by simpa using h0)) hd.neg (by linarith)
    nlinarith
  · obtain ⟨a, b⟩ := signs_of_unique_zero_pos_deriv hF hmem hl hr hζ huniq hd hpos
    nlinarith

end Cav.RootSimple
