/-
  Output of the sweep on general valid input, part 12: the arc invariant `ArcInv` holds initially
  and is preserved by the START event.  Position lemmas for `pos` under insertion of two adjacent
  edges and under replacement of an edge by one with the same id; `uSum` recursions.
-/
import Cav.Lemmas.GenOutArcDefs
import Mathlib.Tactic.Ring
import Mathlib.Tactic.Linarith

set_option linter.unusedVariables false
set_option linter.unusedSimpArgs false

namespace Cav.GenOutArc
open Cav Cav.Geo Cav.GenInv

/-! ### (A1) positions -/

/-- the position shift caused by inserting two elements at position `n` -/
def shift (n p : Nat) : Nat := if p < n then p else p + 2

theorem shift_lt_iff (n p q : Nat) : shift n p < shift n q ↔ p < q := by
  unfold shift; split_ifs <;> omega

theorem shift_ne_n (n p : Nat) : shift n p ≠ n := by
  unfold shift; split_ifs <;> omega

theorem shift_ne_n1 (n p : Nat) : shift n p ≠ n + 1 := by
  unfold shift; split_ifs <;> omega

theorem idxOf_ins {p q : List Nat} {a b x : Nat} (hnd : (p ++ a :: b :: q).Nodup)
    (hx : x ∈ p ++ q) :
    (p ++ a :: b :: q).idxOf x = shift p.length ((p ++ q).idxOf x) := by
  unfold shift
  by_cases hp : x ∈ p
  · rw [List.idxOf_append, List.idxOf_append, if_pos hp, if_pos hp,
      if_pos (List.idxOf_lt_length_of_mem hp)]
  · have hq : x ∈ q := (List.mem_append.mp hx).resolve_left hp
    rw [List.nodup_append] at hnd
    obtain ⟨-, h2, -⟩ := hnd
    rw [List.nodup_cons, List.nodup_cons] at h2
    have hxa : a ≠ x := by
      rintro rfl; exact h2.1 (List.mem_cons_of_mem _ hq)
    have hxb : b ≠ x := by
      rintro rfl; exact h2.2.1 hq
    rw [List.idxOf_append, List.idxOf_append, if_neg hp, if_neg hp, List.idxOf_cons, List.idxOf_cons]
    have e1 : (a == x) = false := by simpa using hxa
    have e2 : (b == x) = false := by simpa using hxb
    rw [e1, e2, if_neg (by omega)]
    simp only [cond_false]
    omega

theorem idxOf_ins_a {p q : List Nat} {a b : Nat} (hnd : (p ++ a :: b :: q).Nodup) :
    (p ++ a :: b :: q).idxOf a = p.length := by
  rw [List.nodup_append] at hnd
  obtain ⟨-, -, h3⟩ := hnd
  have hp : a ∉ p := fun h => h3 a h a List.mem_cons_self rfl
  rw [List.idxOf_append, if_neg hp, List.idxOf_cons_self]
  omega

theorem idxOf_ins_b {p q : List Nat} {a b : Nat} (hnd : (p ++ a :: b :: q).Nodup) :
    (p ++ a :: b :: q).idxOf b = p.length + 1 := by
  rw [List.nodup_append] at hnd
  obtain ⟨-, h2, h3⟩ := hnd
  have hp : b ∉ p := fun h => h3 b h b (List.mem_cons_of_mem _ List.mem_cons_self) rfl
  rw [List.nodup_cons] at h2
  have hab : a ≠ b := by
    rintro rfl; exact h2.1 List.mem_cons_self
  have e1 : (a == b) = false := by simpa using hab
  rw [List.idxOf_append, if_neg hp, List.idxOf_cons, e1, List.idxOf_cons_self]
  simp only [cond_false]
  omega

theorem pos_ins {P Q : List AE} {a b e : AE}
    (hnd : ((P ++ a :: b :: Q).map (·.id)).Nodup) (he : e ∈ P ++ Q) :
    pos (P ++ a :: b :: Q) e.id = shift P.length (pos (P ++ Q) e.id) := by
  unfold pos
  simp only [List.map_append, List.map_cons] at hnd ⊢
  have := idxOf_ins hnd (x := e.id) (by
    rw [← List.map_append]; exact List.mem_map_of_mem he)
  rw [this, List.length_map]

/-- the explicit form of `pos_ins` -/
theorem pos_ins' {P Q : List AE} {a b e : AE}
    (hnd : ((P ++ a :: b :: Q).map (·.id)).Nodup) (he : e ∈ P ++ Q) :
    pos (P ++ a :: b :: Q) e.id =
      if pos (P ++ Q) e.id < P.length then pos (P ++ Q) e.id else pos (P ++ Q) e.id + 2 :=
  pos_ins hnd he

theorem pos_ins_lt_iff {P Q : List AE} {a b e f : AE}
    (hnd : ((P ++ a :: b :: Q).map (·.id)).Nodup) (he : e ∈ P ++ Q) (hf : f ∈ P ++ Q) :
    pos (P ++ a :: b :: Q) e.id < pos (P ++ a :: b :: Q) f.id ↔
      pos (P ++ Q) e.id < pos (P ++ Q) f.id := by
  rw [pos_ins hnd he, pos_ins hnd hf, shift_lt_iff]

theorem pos_ins_a {P Q : List AE} {a b : AE}
    (hnd : ((P ++ a :: b :: Q).map (·.id)).Nodup) :
    pos (P ++ a :: b :: Q) a.id = P.length := by
  unfold pos
  simp only [List.map_append, List.map_cons] at hnd ⊢
  rw [idxOf_ins_a hnd, List.length_map]

theorem pos_ins_b {P Q : List AE} {a b : AE}
    (hnd : ((P ++ a :: b :: Q).map (·.id)).Nodup) :
    pos (P ++ a :: b :: Q) b.id = P.length + 1 := by
  unfold pos
  simp only [List.map_append, List.map_cons] at hnd ⊢
  rw [idxOf_ins_b hnd, List.length_map]

theorem map_id_replace {F1 F2 : List AE} {a a' : AE} (h : a'.id = a.id) :
    (F1 ++ a' :: F2).map (·.id) = (F1 ++ a :: F2).map (·.id) := by
  simp only [List.map_append, List.map_cons, h]

theorem pos_replace {F1 F2 : List AE} {a a' : AE} (h : a'.id = a.id) (i : Nat) :
    pos (F1 ++ a' :: F2) i = pos (F1 ++ a :: F2) i := by
  unfold pos; rw [map_id_replace h]

/-- two elements of a list with pairwise distinct ids and the same id are equal -/
theorem eq_of_id {E : List AE} (hnd : (E.map (·.id)).Nodup) {a b : AE} (ha : a ∈ E) (hb : b ∈ E)
    (h : a.id = b.id) : a = b :=
  List.inj_on_of_nodup_map hnd ha hb h

/-! ### `uSum` -/

theorem uSum_zero (R : RingQ) (v0 : Nat) : uSum R v0 0 = turnE R v0 := by
  simp [uSum]

theorem uSum_succ (R : RingQ) (v0 k : Nat) :
    uSum R v0 (k + 1) = uSum R v0 k + turnE R (R.nxt^[k + 1] v0) := by
  unfold uSum
  rw [List.range_succ (n := k + 1), List.map_append, List.sum_append]
  simp

theorem uSum_succ' (R : RingQ) (v0 k : Nat) :
    uSum R v0 (k + 1) = turnE R v0 + uSum R (R.nxt v0) k := by
  unfold uSum
  rw [List.range_succ_eq_map (n := k + 1), List.map_cons, List.sum_cons, List.map_map]
  rfl

/-! ### (A0) the initial state -/

theorem arcInv_init {R : RingQ} {xs : Rat} (h : ∀ v, v < R.n → xs < R.x v) :
    ArcInv R xs [] [] [] where
  arcs := by intro α hα; cases hα
  ends := by intro e he; cases he
  nd := by simp
  nc := List.Pairwise.nil
  cyc := by intro c hc; cases hc
  cover := by
    intro v hv hx
    exact absurd (h v hv) (not_lt.mpr hx)

/-! ### (A2) the Start event -/

theorem mem_ins {P Q : List AE} {a b e : AE} (he : e ∈ P ++ Q) : e ∈ P ++ a :: b :: Q := by
  rcases List.mem_append.mp he with h | h
  · exact List.mem_append_left _ h
  · exact List.mem_append_right _ (List.mem_cons_of_mem _ (List.mem_cons_of_mem _ h))

theorem id_ne_ins_a {P Q : List AE} {a b e : AE}
    (hnd : ((P ++ a :: b :: Q).map (·.id)).Nodup) (he : e ∈ P ++ Q) : a.id ≠ e.id := by
  intro h
  have h1 := pos_ins_a hnd
  rw [h, pos_ins hnd he] at h1
  exact shift_ne_n _ _ h1

theorem id_ne_ins_b {P Q : List AE} {a b e : AE}
    (hnd : ((P ++ a :: b :: Q).map (·.id)).Nodup) (he : e ∈ P ++ Q) : b.id ≠ e.id := by
  intro h
  have h1 := pos_ins_b hnd
  rw [h, pos_ins hnd he] at h1
  exact shift_ne_n1 _ _ h1

theorem id_ne_ins_ab {P Q : List AE} {a b : AE}
    (hnd : ((P ++ a :: b :: Q).map (·.id)).Nodup) : a.id ≠ b.id := by
  intro h
  have h1 := pos_ins_a hnd
  have h2 := pos_ins_b hnd
  rw [h] at h1
  omega

theorem ArcOK.t_mem {R : RingQ} {xs : Rat} {E : List AE} {α : Arc} (h : ArcOK R xs E α) :
    ∃ a ∈ E, a.id = α.t := by
  obtain ⟨a, ha, e, -⟩ := h.tail
  exact ⟨a, ha, e⟩

theorem ArcOK.h_mem {R : RingQ} {xs : Rat} {E : List AE} {α : Arc} (h : ArcOK R xs E α) :
    ∃ a ∈ E, a.id = α.h := by
  obtain ⟨a, ha, e, -⟩ := h.head
  exact ⟨a, ha, e⟩

theorem pos_ins_t {R : RingQ} {xs : Rat} {P Q : List AE} {a b : AE} {α : Arc}
    (hnd : ((P ++ a :: b :: Q).map (·.id)).Nodup) (h : ArcOK R xs (P ++ Q) α) :
    pos (P ++ a :: b :: Q) α.t = shift P.length (pos (P ++ Q) α.t) := by
  obtain ⟨e, he, h1⟩ := h.t_mem
  rw [← h1]
  exact pos_ins hnd he

theorem pos_ins_h {R : RingQ} {xs : Rat} {P Q : List AE} {a b : AE} {α : Arc}
    (hnd : ((P ++ a :: b :: Q).map (·.id)).Nodup) (h : ArcOK R xs (P ++ Q) α) :
    pos (P ++ a :: b :: Q) α.h = shift P.length (pos (P ++ Q) α.h) := by
  obtain ⟨e, he, h1⟩ := h.h_mem
  rw [← h1]
  exact pos_ins hnd he

/-- an old arc stays an arc after the insertion of two adjacent edges -/
theorem arcOK_ins {R : RingQ} {xs xs' : Rat} {P Q : List AE} {a b : AE} {α : Arc}
    (hnd : ((P ++ a :: b :: Q).map (·.id)).Nodup) (hx : xs ≤ xs')
    (h : ArcOK R xs (P ++ Q) α) : ArcOK R xs' (P ++ a :: b :: Q) α where
  tail := by
    obtain ⟨e, he, h1⟩ := h.tail
    exact ⟨e, mem_ins he, h1⟩
  head := by
    obtain ⟨e, he, h1⟩ := h.head
    exact ⟨e, mem_ins he, h1⟩
  lt := h.lt
  le := fun j hj => le_trans (h.le j hj) hx
  sum := by
    rw [pos_ins_t hnd h, pos_ins_h hnd h]
    simp only [shift_lt_iff]
    exact h.sum

/-- the non-crossing condition on four positions -/
def NCn (a b c d : Nat) : Prop :=
  ¬ (min a b < min c d ∧ min c d < max a b ∧ max a b < max c d) ∧
  ¬ (min c d < min a b ∧ min a b < max c d ∧ max c d < max a b)

theorem nonCross_iff (E : List AE) (α β : Arc) :
    NonCross E α β ↔ NCn (pos E α.t) (pos E α.h) (pos E β.t) (pos E β.h) := Iff.rfl

theorem shift_min (n a b : Nat) : min (shift n a) (shift n b) = shift n (min a b) := by
  unfold shift; simp only [Nat.min_def]; split_ifs <;> omega

theorem shift_max (n a b : Nat) : max (shift n a) (shift n b) = shift n (max a b) := by
  unfold shift; simp only [Nat.max_def]; split_ifs <;> omega

theorem NCn_shift {n a b c d : Nat} (h : NCn a b c d) :
    NCn (shift n a) (shift n b) (shift n c) (shift n d) := by
  unfold NCn at *
  simp only [shift_min, shift_max, shift_lt_iff]
  exact h

theorem NCn_new {n a b c d : Nat} (hab : (a = n ∧ b = n + 1) ∨ (a = n + 1 ∧ b = n))
    (hc : c ≠ n) (hc' : c ≠ n + 1) (hd : d ≠ n) (hd' : d ≠ n + 1) : NCn a b c d := by
  unfold NCn
  simp only [Nat.min_def, Nat.max_def]
  split_ifs <;> omega

theorem nonCross_ins {R : RingQ} {xs : Rat} {P Q : List AE} {a b : AE} {α β : Arc}
    (hnd : ((P ++ a :: b :: Q).map (·.id)).Nodup) (hα : ArcOK R xs (P ++ Q) α)
    (hβ : ArcOK R xs (P ++ Q) β) (h : NonCross (P ++ Q) α β) :
    NonCross (P ++ a :: b :: Q) α β := by
  rw [nonCross_iff] at h ⊢
  rw [pos_ins_t hnd hα, pos_ins_h hnd hα, pos_ins_t hnd hβ, pos_ins_h hnd hβ]
  exact NCn_shift h

theorem nonCross_new {R : RingQ} {xs : Rat} {P Q : List AE} {a b : AE} {α β : Arc}
    (hnd : ((P ++ a :: b :: Q).map (·.id)).Nodup) (hα : ArcOK R xs (P ++ Q) α)
    (hth : (β.t = a.id ∧ β.h = b.id) ∨ (β.t = b.id ∧ β.h = a.id)) :
    NonCross (P ++ a :: b :: Q) β α := by
  rw [nonCross_iff, pos_ins_t hnd hα, pos_ins_h hnd hα]
  refine NCn_new (n := P.length) ?_ (shift_ne_n _ _) (shift_ne_n1 _ _) (shift_ne_n _ _)
    (shift_ne_n1 _ _)
  rcases hth with ⟨h1, h2⟩ | ⟨h1, h2⟩
  · left; rw [h1, h2]; exact ⟨pos_ins_a hnd, pos_ins_b hnd⟩
  · right; rw [h1, h2]; exact ⟨pos_ins_b hnd, pos_ins_a hnd⟩

/-- the end ids of the arcs are ids of active edges -/
theorem mem_ends {R : RingQ} {xs : Rat} {E : List AE} {A : List Arc}
    (hA : ∀ α ∈ A, ArcOK R xs E α) {x : Nat}
    (hx : x ∈ A.flatMap fun α => [α.t, α.h]) : ∃ e ∈ E, e.id = x := by
  obtain ⟨α, hα, hx⟩ := List.mem_flatMap.mp hx
  simp only [List.mem_cons, List.not_mem_nil, or_false] at hx
  rcases hx with rfl | rfl
  · exact (hA α hα).t_mem
  · exact (hA α hα).h_mem

/-- the Start event with an abstract new arc -/
theorem arc_start_core {R : RingQ} {V : Array (Vtx XQ)} (hR : RingOK R V) {xs : Rat} {P Q : List AE}
    {A : List Arc} {D : List Cyc} (hA : ArcInv R xs (P ++ Q) A D)
    {w : Nat} {e1 e2 : AE} (hw : w < R.n) (hxs : xs < R.x w)
    (hgap : ∀ v, v < R.n → xs < R.x v → R.x w ≤ R.x v)
    (hnd : ((P ++ e1 :: e2 :: Q).map (·.id)).Nodup)
    {β : Arc} (hβ : ArcOK R (R.x w) (P ++ e1 :: e2 :: Q) β) (hv0 : β.v0 = w)
    (hth : (β.t = e1.id ∧ β.h = e2.id) ∨ (β.t = e2.id ∧ β.h = e1.id)) :
    ArcInv R (R.x w) (P ++ e1 :: e2 :: Q) (β :: A) D where
  arcs := by
    intro α hα
    rcases List.mem_cons.mp hα with rfl | hα
    · exact hβ
    · exact arcOK_ins hnd (le_of_lt hxs) (hA.arcs α hα)
  ends := by
    intro e he
    rcases List.mem_append.mp he with h | h
    · obtain ⟨α, hα, h1⟩ := hA.ends e (List.mem_append_left _ h)
      exact ⟨α, List.mem_cons_of_mem _ hα, h1⟩
    · rcases List.mem_cons.mp h with rfl | h
      · refine ⟨β, List.mem_cons_self, ?_⟩
        rcases hth with ⟨h1, h2⟩ | ⟨h1, h2⟩
        · exact Or.inl h1
        · exact Or.inr h2
      · rcases List.mem_cons.mp h with rfl | h
        · refine ⟨β, List.mem_cons_self, ?_⟩
          rcases hth with ⟨h1, h2⟩ | ⟨h1, h2⟩
          · exact Or.inr h2
          · exact Or.inl h1
        · obtain ⟨α, hα, h1⟩ := hA.ends e (List.mem_append_right _ h)
          exact ⟨α, List.mem_cons_of_mem _ hα, h1⟩
  nd := by
    rw [List.flatMap_cons, List.nodup_append]
    have hab := id_ne_ins_ab hnd
    refine ⟨?_, hA.nd, ?_⟩
    · rcases hth with ⟨h1, h2⟩ | ⟨h1, h2⟩
      · rw [h1, h2]; simp [hab]
      · rw [h1, h2]; simp [hab.symm]
    · intro x hx y hy hxy
      subst hxy
      obtain ⟨e, he, rfl⟩ := mem_ends hA.arcs hy
      have ha := id_ne_ins_a hnd he
      have hb := id_ne_ins_b hnd he
      simp only [List.mem_cons, List.not_mem_nil, or_false] at hx
      rcases hth with ⟨h1, h2⟩ | ⟨h1, h2⟩
      · rw [h1, h2] at hx
        rcases hx with hx | hx
        · exact ha hx.symm
        · exact hb hx.symm
      · rw [h1, h2] at hx
        rcases hx with hx | hx
        · exact hb hx.symm
        · exact ha hx.symm
  nc := by
    rw [List.pairwise_cons]
    refine ⟨fun α hα => nonCross_new hnd (hA.arcs α hα) hth, ?_⟩
    exact hA.nc.imp_of_mem fun {α γ} hα hγ h =>
      nonCross_ins hnd (hA.arcs α hα) (hA.arcs γ hγ) h
  cyc := hA.cyc
  cover := by
    intro v hv hx
    by_cases hvx : R.x v ≤ xs
    · rcases hA.cover v hv hvx with ⟨α, hα, h1⟩ | h1
      · exact Or.inl ⟨α, List.mem_cons_of_mem _ hα, h1⟩
      · exact Or.inr h1
    · have h1 := hgap v hv (not_le.mp hvx)
      have h2 : v = w := hR.distinct v w hv hw (le_antisymm hx h1)
      exact Or.inl ⟨β, List.mem_cons_self, 0, Nat.zero_le _, by rw [hv0, h2]; rfl⟩

theorem orient_rot (a b c : Rat × Rat) : orient c a b = orient a b c := by
  unfold orient; ring

theorem orient_swap (a b c : Rat × Rat) : orient b a c = - orient a b c := by
  unfold orient; ring

theorem turnE_start_pos {R : RingQ} {w : Nat} (h1 : R.x w < R.x (R.prv w))
    (h2 : R.x w < R.x (R.nxt w))
    (ho : 0 < orient (R.pt (R.prv w)) (R.pt w) (R.pt (R.nxt w))) : turnE R w = 1 := by
  unfold turnE; rw [if_pos (Or.inr ⟨h1, h2⟩), if_pos ho]

theorem turnE_start_neg {R : RingQ} {w : Nat} (h1 : R.x w < R.x (R.prv w))
    (h2 : R.x w < R.x (R.nxt w))
    (ho : ¬ 0 < orient (R.pt (R.prv w)) (R.pt w) (R.pt (R.nxt w))) : turnE R w = -1 := by
  unfold turnE; rw [if_pos (Or.inr ⟨h1, h2⟩), if_neg ho]

/-- **Start event**: the arc invariant is preserved -/
theorem arc_start {R : RingQ} {V : Array (Vtx XQ)} (hR : RingOK R V) {xs : Rat} {P Q : List AE}
    {A : List Arc} {D : List Cyc} (hA : ArcInv R xs (P ++ Q) A D) (hE : EOK R xs (P ++ Q))
    {w wB wT i1 i2 : Nat} (hw : w < R.n) (hxs : xs < R.x w)
    (hgap : ∀ v, v < R.n → xs < R.x v → R.x w ≤ R.x v)
    (hnb : (R.prv w = wB ∧ R.nxt w = wT) ∨ (R.prv w = wT ∧ R.nxt w = wB))
    (hxB : R.x w < R.x wB) (hxT : R.x w < R.x wT)
    (ho : 0 < orient (R.pt w) (R.pt wB) (R.pt wT))
    (hE' : EOK R (R.x w) (P ++ ⟨i1, w, wB⟩ :: ⟨i2, w, wT⟩ :: Q)) :
    ∃ A' D', ArcInv R (R.x w) (P ++ ⟨i1, w, wB⟩ :: ⟨i2, w, wT⟩ :: Q) A' D' := by
  have hnd := hE'.ids
  have p1 : pos (P ++ ⟨i1, w, wB⟩ :: ⟨i2, w, wT⟩ :: Q) i1 = P.length := pos_ins_a hnd
  have p2 : pos (P ++ ⟨i1, w, wB⟩ :: ⟨i2, w, wT⟩ :: Q) i2 = P.length + 1 := pos_ins_b hnd
  have m1 : (⟨i1, w, wB⟩ : AE) ∈ P ++ ⟨i1, w, wB⟩ :: ⟨i2, w, wT⟩ :: Q :=
    List.mem_append_right _ List.mem_cons_self
  have m2 : (⟨i2, w, wT⟩ : AE) ∈ P ++ ⟨i1, w, wB⟩ :: ⟨i2, w, wT⟩ :: Q :=
    List.mem_append_right _ (List.mem_cons_of_mem _ List.mem_cons_self)
  rcases hnb with ⟨hp, hn⟩ | ⟨hp, hn⟩
  · -- the tail edge is the lower one: a right turn
    refine ⟨⟨w, 0, i1, i2⟩ :: A, D, arc_start_core hR hA hw hxs hgap hnd ?_ rfl
      (Or.inl ⟨rfl, rfl⟩)⟩
    refine ⟨⟨_, m1, rfl, rfl, hp.symm⟩, ⟨_, m2, rfl, rfl, hn.symm⟩, ?_, ?_, ?_⟩
    · intro j hj
      obtain rfl : j = 0 := by simpa using hj
      exact hw
    · intro j hj
      obtain rfl : j = 0 := by simpa using hj
      exact le_refl _
    · show uSum R w 0 = if pos _ i2 < pos _ i1 then 1 else -1
      rw [p1, p2, if_neg (by omega), uSum_zero]
      refine turnE_start_neg (by rw [hp]; exact hxB) (by rw [hn]; exact hxT) ?_
      rw [hp, hn, orient_swap]
      linarith
  · -- the head edge is the lower one: a left turn
    refine ⟨⟨w, 0, i2, i1⟩ :: A, D, arc_start_core hR hA hw hxs hgap hnd ?_ rfl
      (Or.inr ⟨rfl, rfl⟩)⟩
    refine ⟨⟨_, m2, rfl, rfl, hp.symm⟩, ⟨_, m1, rfl, rfl, hn.symm⟩, ?_, ?_, ?_⟩
    · intro j hj
      obtain rfl : j = 0 := by simpa using hj
      exact hw
    · intro j hj
      obtain rfl : j = 0 := by simpa using hj
      exact le_refl _
    · show uSum R w 0 = if pos _ i1 < pos _ i2 then 1 else -1
      rw [p1, p2, if_pos (by omega), uSum_zero]
      refine turnE_start_pos (by rw [hp]; exact hxT) (by rw [hn]; exact hxB) ?_
      rw [hp, hn, orient_rot]
      exact ho

end Cav.GenOutArc
