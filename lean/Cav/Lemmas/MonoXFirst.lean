/-
  (X3) The first violation: if no vertex touches the line of a spanning edge of the other chain
  (`NoTouch`) and the simplicity facts hold at the Start vertex, then either the top chain lies
  above the bottom chain everywhere, or the event loop stops with `.overlap .bend` at the first
  Bend (in sweep order) whose look-ahead test fails.
-/
import Cav.Lemmas.MonoXReach

set_option linter.unusedSimpArgs false
set_option linter.unusedVariables false

namespace Cav.MonoXFirst
open Cav Num Cav.Geo Cav.Sweep Cav.SweepRun Cav.TriRun Cav.QuadRun Cav.TriEvents Cav.QuadGeom
open Cav.CvxEvents Cav.CvxLoop Cav.MonoXConv Cav.MonoXLoop Cav.MonoXReach

/-- no vertex lies on the line of the edge of the other chain that spans its abscissa -/
def NoTouch (b t : Nat → Rat × Rat) (mB mT : Nat) : Prop :=
  (∀ k, k < mB → ∀ l, l < mT → 0 < k → (t l).1 < (b k).1 → (b k).1 < (t (l + 1)).1 →
      orient (t l) (t (l + 1)) (b k) ≠ 0) ∧
  (∀ l, l < mT → ∀ k, k < mB → 0 < l → (b k).1 < (t l).1 → (t l).1 < (b (k + 1)).1 →
      orient (b k) (b (k + 1)) (t l) ≠ 0)

instance (b t : Nat → Rat × Rat) (mB mT : Nat) : Decidable (NoTouch b t mB mT) := by
  unfold NoTouch; exact @instDecidableAnd _ _ inferInstance inferInstance

section
variable {V : Array (Vtx XQ)} {mB mT : Nat} {bi ti : Nat → Nat} {b t : Nat → Rat × Rat} {ξ : Rat}

/-- indices from abscissae -/
theorem _root_.Cav.MonoXConv.MConvX.idxB (hC : MConvX V mB mT bi ti b t ξ) {a c : Nat} (ha : a ≤ mB) (hc : c ≤ mB)
    (h : (b a).1 ≤ (b c).1) : a ≤ c := by
  rcases Nat.lt_or_ge c a with h' | h'
  · have := hC.xB_lt c a h' ha; linarith
  · exact h'

theorem _root_.Cav.MonoXConv.MConvX.idxT (hC : MConvX V mB mT bi ti b t ξ) {a c : Nat} (ha : a ≤ mT) (hc : c ≤ mT)
    (h : (t a).1 ≤ (t c).1) : a ≤ c := by
  rcases Nat.lt_or_ge c a with h' | h'
  · have := hC.xT_lt c a h' ha; linarith
  · exact h'

theorem _root_.Cav.MonoXConv.MConvX.leB (hC : MConvX V mB mT bi ti b t ξ) {a c : Nat} (hac : a ≤ c) (hc : c ≤ mB) :
    (b a).1 ≤ (b c).1 := by
  rcases Nat.lt_or_ge a c with h' | h'
  · exact le_of_lt (hC.xB_lt a c h' hc)
  · have : a = c := by omega
    rw [this]

theorem _root_.Cav.MonoXConv.MConvX.leT (hC : MConvX V mB mT bi ti b t ξ) {a c : Nat} (hac : a ≤ c) (hc : c ≤ mT) :
    (t a).1 ≤ (t c).1 := by
  rcases Nat.lt_or_ge a c with h' | h'
  · exact le_of_lt (hC.xT_lt a c h' hc)
  · have : a = c := by omega
    rw [this]

/-- the facts checked up to a new abscissa -/
theorem _root_.Cav.MonoXConv.MConvX.extend (hC : MConvX V mB mT bi ti b t ξ) (ξ' : Rat)
    (hB : ∀ k l, 0 < k → k < mB → l < mT → (t l).1 < (b k).1 → (b k).1 < (t (l + 1)).1 →
      (b (k - 1)).1 ≤ ξ' → (t l).1 ≤ ξ' → orient (t l) (t (l + 1)) (b k) < 0)
    (hT : ∀ l k, 0 < l → l < mT → k < mB → (b k).1 < (t l).1 → (t l).1 < (b (k + 1)).1 →
      (t (l - 1)).1 ≤ ξ' → (b k).1 ≤ ξ' → 0 < orient (b k) (b (k + 1)) (t l)) :
    MConvX V mB mT bi ti b t ξ' :=
  { hB := hC.hB, hT := hC.hT, three := hC.three, p0 := hC.p0, pR := hC.pR, xB := hC.xB,
    xT := hC.xT, sB := hB, sT := hT, i0 := hC.i0, iR := hC.iR, xBT := hC.xBT, vB := hC.vB,
    vT := hC.vT, vL := hC.vL, vR := hC.vR }

/-- a Bend on the bottom chain whose test passes: the facts are checked up to `b (i+1)` -/
theorem _root_.Cav.MonoXConv.MConvX.passB (hC : MConvX V mB mT bi ti b t ξ) {i j : Nat} (hr : Reach mB mT b t i j)
    (hi1 : i + 1 < mB) (g1 : (b i).1 ≤ ξ) (g2 : (t j).1 ≤ ξ)
    (hlt : (b (i + 1)).1 < (t (j + 1)).1)
    (h1 : (b (i + 2)).1 < (t (j + 1)).1 → orient (t j) (t (j + 1)) (b (i + 2)) < 0)
    (h2 : (t (j + 1)).1 < (b (i + 2)).1 → 0 < orient (b (i + 1)) (b (i + 2)) (t (j + 1))) :
    MConvX V mB mT bi ti b t (b (i + 1)).1 := by
  obtain ⟨hi, hj, r1, r2⟩ := hr
  refine hC.extend _ ?_ ?_
  · intro k l hk0 hk hl p1 p2 q1 q2
    have hl' : l ≤ j := by
      rcases Nat.lt_or_ge j l with h | h
      · exfalso
        have := hC.leT (a := j + 1) (c := l) (by omega) (by omega)
        linarith
      · exact h
    have hk' : k - 1 ≤ i + 1 := hC.idxB (by omega) (by omega) q1
    rcases Nat.lt_or_ge (k - 1) (i + 1) with h | h
    · exact hC.sB k l hk0 hk hl p1 p2
        (le_trans (hC.leB (a := k - 1) (c := i) (by omega) (by omega)) g1)
        (le_trans (hC.leT (a := l) (c := j) hl' (by omega)) g2)
    · have ek : k = i + 2 := by omega
      subst ek
      have el : l = j := by
        rcases Nat.lt_or_ge l j with h' | h'
        · exfalso
          have := hC.leT (a := l + 1) (c := j) (by omega) (by omega)
          have := hC.xB (i + 1) hi1
          linarith
        · omega
      subst el
      exact h1 p2
  · intro l k hl0 hl hk p1 p2 q1 q2
    have hk' : k ≤ i + 1 := hC.idxB (by omega) (by omega) q2
    have hl' : l - 1 ≤ j := by
      rcases Nat.lt_or_ge j (l - 1) with h | h
      · exfalso
        have := hC.leT (a := j + 1) (c := l - 1) (by omega) (by omega)
        linarith
      · exact h
    rcases Nat.lt_or_ge k (i + 1) with h | h
    · exact hC.sT l k hl0 hl hk p1 p2
        (le_trans (hC.leT (a := l - 1) (c := j) hl' (by omega)) g2)
        (le_trans (hC.leB (a := k) (c := i) (by omega) (by omega)) g1)
    · have ek : k = i + 1 := by omega
      subst ek
      have el : l = j + 1 := by
        rcases Nat.lt_or_ge l (j + 1) with h' | h'
        · exfalso
          have := hC.leT (a := l) (c := j) (by omega) (by omega)
          linarith
        · omega
      subst el
      exact h2 p2

/-- a Bend on the top chain whose test passes: the facts are checked up to `t (j+1)` -/
theorem _root_.Cav.MonoXConv.MConvX.passT (hC : MConvX V mB mT bi ti b t ξ) {i j : Nat} (hr : Reach mB mT b t i j)
    (hj1 : j + 1 < mT) (g1 : (b i).1 ≤ ξ) (g2 : (t j).1 ≤ ξ)
    (hlt : (t (j + 1)).1 < (b (i + 1)).1)
    (h1 : (t (j + 2)).1 < (b (i + 1)).1 → 0 < orient (b i) (b (i + 1)) (t (j + 2)))
    (h2 : (b (i + 1)).1 < (t (j + 2)).1 → orient (t (j + 1)) (t (j + 2)) (b (i + 1)) < 0) :
    MConvX V mB mT bi ti b t (t (j + 1)).1 := by
  obtain ⟨hi, hj, r1, r2⟩ := hr
  refine hC.extend _ ?_ ?_
  · intro k l hk0 hk hl p1 p2 q1 q2
    have hl' : l ≤ j + 1 := hC.idxT (by omega) (by omega) q2
    have hk' : k - 1 ≤ i := by
      rcases Nat.lt_or_ge i (k - 1) with h | h
      · exfalso
        have := hC.leB (a := i + 1) (c := k - 1) (by omega) (by omega)
        linarith
      · exact h
    rcases Nat.lt_or_ge l (j + 1) with h | h
    · exact hC.sB k l hk0 hk hl p1 p2
        (le_trans (hC.leB (a := k - 1) (c := i) hk' (by omega)) g1)
        (le_trans (hC.leT (a := l) (c := j) (by omega) (by omega)) g2)
    · have el : l = j + 1 := by omega
      subst el
      have ek : k = i + 1 := by
        rcases Nat.lt_or_ge k (i + 1) with h' | h'
        · exfalso
          have := hC.leB (a := k) (c := i) (by omega) (by omega)
          linarith
        · omega
      subst ek
      exact h2 p2
  · intro l k hl0 hl hk p1 p2 q1 q2
    have hl' : l - 1 ≤ j + 1 := hC.idxT (by omega) (by omega) q1
    have hk' : k ≤ i := by
      rcases Nat.lt_or_ge i k with h | h
      · exfalso
        have := hC.leB (a := i + 1) (c := k) (by omega) (by omega)
        linarith
      · exact h
    rcases Nat.lt_or_ge (l - 1) (j + 1) with h | h
    · exact hC.sT l k hl0 hl hk p1 p2
        (le_trans (hC.leT (a := l - 1) (c := j) (by omega) (by omega)) g2)
        (le_trans (hC.leB (a := k) (c := i) hk' (by omega)) g1)
    · have el : l = j + 2 := by omega
      subst el
      have ek : k = i := by
        rcases Nat.lt_or_ge k i with h' | h'
        · exfalso
          have := hC.leB (a := k + 1) (c := i) (by omega) (by omega)
          have := hC.xT (j + 1) hj1
          linarith
        · omega
      subst ek
      exact h1 p2

/-- **the first violation**: from a reachable state up to which everything has been checked,
    either the top chain is above the bottom chain everywhere, or the loop stops at the first
    Bend whose look-ahead test fails -/
theorem first_viol (hNT : NoTouch b t mB mT) :
    ∀ (k i j : Nat), (mB - 1 - i) + (mT - 1 - j) = k → Reach mB mT b t i j →
    ∀ ξ, MConvX V mB mT bi ti b t ξ → (b i).1 ≤ ξ → (t j).1 ≤ ξ →
      (∀ ξ', MConvX V mB mT bi ti b t ξ') ∨
      ∃ p, IsVtx mB mT b t (Fq p) ∧ ∀ fuel, mB + mT + 1 ≤ fuel →
        (loop fuel).run (stQ V [(bi 0, [])]) = .error (.overlap .bend (Fq p)) := by
  intro k
  induction k with
  | zero =>
    intro i j hk hr ξ hC g1 g2
    obtain ⟨hi, hj, r1, r2⟩ := hr
    left
    intro ξ'
    refine hC.extend ξ' ?_ ?_
    · intro k l hk0 hk' hl p1 p2 _ _
      exact hC.sB k l hk0 hk' hl p1 p2
        (le_trans (hC.leB (a := k - 1) (c := i) (by omega) (by omega)) g1)
        (le_trans (hC.leT (a := l) (c := j) (by omega) (by omega)) g2)
    · intro l k hl0 hl hk' p1 p2 _ _
      exact hC.sT l k hl0 hl hk' p1 p2
        (le_trans (hC.leT (a := l - 1) (c := j) (by omega) (by omega)) g2)
        (le_trans (hC.leB (a := k) (c := i) (by omega) (by omega)) g1)
  | succ k ih =>
    intro i j hk hr ξ hC g1 g2
    have hr' := hr
    obtain ⟨hi, hj, r1, r2⟩ := hr
    rcases lt_trichotomy (b (i + 1)).1 (t (j + 1)).1 with hlt | heq | hlt
    · -- the next event is the Bend `b (i+1)`
      have hi1 : i + 1 < mB := by
        rcases Nat.lt_or_ge (i + 1) mB with h | h
        · exact h
        · exfalso
          have e : i + 1 = mB := by omega
          have := hC.xT_le_R (j + 1) (by omega)
          rw [e] at hlt; linarith
      have xb := hC.xB (i + 1) hi1
      have hfail : ∀ hbad, ∃ p, IsVtx mB mT b t (Fq p) ∧ ∀ fuel, mB + mT + 1 ≤ fuel →
          (loop fuel).run (stQ V [(bi 0, [])]) = .error (.overlap .bend (Fq p)) :=
        fun hbad => ⟨b (i + 1), isVtx_b (i + 1) (by omega),
          fun fuel hf => reject_B hC hr' g1 g2 hlt hbad fuel (by omega)⟩
      have hpass : ∀ h1 h2, _ := fun h1 h2 =>
        ih (i + 1) j (by omega) ⟨hi1, hj, by linarith, by linarith⟩ (b (i + 1)).1
          (hC.passB hr' hi1 g1 g2 hlt h1 h2) (le_refl _) (by linarith)
      rcases lt_trichotomy (b (i + 2)).1 (t (j + 1)).1 with h | h | h
      · have hi2 : i + 2 < mB := by
          rcases Nat.lt_or_ge (i + 2) mB with h' | h'
          · exact h'
          · exfalso
            have e : i + 2 = mB := by omega
            have := hC.xT_le_R (j + 1) (by omega)
            rw [e] at h; linarith
        have hne := hNT.1 (i + 2) hi2 j hj (by omega) (by linarith) h
        rcases lt_or_gt_of_ne hne with ho | ho
        · exact hpass (fun _ => ho) (fun h' => absurd h (lt_asymm h'))
        · exact Or.inr (hfail (Or.inl ⟨h, ho⟩))
      · exact hpass (fun h' => absurd h (ne_of_lt h')) (fun h' => absurd h.symm (ne_of_lt h'))
      · have hj1 : j + 1 < mT := by
          rcases Nat.lt_or_ge (j + 1) mT with h' | h'
          · exact h'
          · exfalso
            have e : j + 1 = mT := by omega
            have := hC.xB_le_R (i + 2) (by omega)
            rw [e, ← hC.pR] at h; linarith
        have hne := hNT.2 (j + 1) hj1 (i + 1) hi1 (by omega) hlt h
        rcases lt_or_gt_of_ne hne with ho | ho
        · exact Or.inr (hfail (Or.inr ⟨h, ho⟩))
        · exact hpass (fun h' => absurd h (lt_asymm h')) (fun _ => ho)
    · exfalso
      obtain ⟨e1, e2⟩ := hC.pend_x (i + 1) (j + 1) (by omega) (by omega) (by omega) (by omega) heq
      omega
    · -- the next event is the Bend `t (j+1)`
      have hj1 : j + 1 < mT := by
        rcases Nat.lt_or_ge (j + 1) mT with h | h
        · exact h
        · exfalso
          have e : j + 1 = mT := by omega
          have := hC.xB_le_R (i + 1) (by omega)
          rw [e, ← hC.pR] at hlt; linarith
      have xt := hC.xT (j + 1) hj1
      have hfail : ∀ hbad, ∃ p, IsVtx mB mT b t (Fq p) ∧ ∀ fuel, mB + mT + 1 ≤ fuel →
          (loop fuel).run (stQ V [(bi 0, [])]) = .error (.overlap .bend (Fq p)) :=
        fun hbad => ⟨t (j + 1), isVtx_t (j + 1) (by omega),
          fun fuel hf => reject_T hC hr' g1 g2 hlt hbad fuel (by omega)⟩
      have hpass : ∀ h1 h2, _ := fun h1 h2 =>
        ih i (j + 1) (by omega) ⟨hi, hj1, by linarith, by linarith⟩ (t (j + 1)).1
          (hC.passT hr' hj1 g1 g2 hlt h1 h2) (by linarith) (le_refl _)
      rcases lt_trichotomy (t (j + 2)).1 (b (i + 1)).1 with h | h | h
      · have hj2 : j + 2 < mT := by
          rcases Nat.lt_or_ge (j + 2) mT with h' | h'
          · exact h'
          · exfalso
            have e : j + 2 = mT := by omega
            have := hC.xB_le_R (i + 1) (by omega)
            rw [e, ← hC.pR] at h; linarith
        have hne := hNT.2 (j + 2) hj2 i hi (by omega) (by linarith) h
        rcases lt_or_gt_of_ne hne with ho | ho
        · exact Or.inr (hfail (Or.inl ⟨h, ho⟩))
        · exact hpass (fun _ => ho) (fun h' => absurd h (lt_asymm h'))
      · exact hpass (fun h' => absurd h (ne_of_lt h')) (fun h' => absurd h.symm (ne_of_lt h'))
      · have hi1 : i + 1 < mB := by
          rcases Nat.lt_or_ge (i + 1) mB with h' | h'
          · exact h'
          · exfalso
            have e : i + 1 = mB := by omega
            have := hC.xT_le_R (j + 2) (by omega)
            rw [e] at h; linarith
        have hne := hNT.1 (i + 1) hi1 (j + 1) hj1 (by omega) hlt h
        rcases lt_or_gt_of_ne hne with ho | ho
        · exact hpass (fun h' => absurd h (lt_asymm h')) (fun _ => ho)
        · exact Or.inr (hfail (Or.inr ⟨h, ho⟩))

end

end Cav.MonoXFirst
