/-
  Helper lemmas for `Cav/Thm/C11Glue.lean`: gluing the cells of the shifted grid, and the real
  analysis step "no zero of a continuous derivative on a segment ⇒ constant strict sign ⇒ strictly
  monotone / antitone", and the distance of a trimmed piece from a sorted list of points.  Nothing
  here mentions the split routine.
-/
import Cav.Thm.C11Mono
import Mathlib.Analysis.Calculus.Deriv.MeanValue

namespace Cav.RootGlue
open Cav Cav.C11Roots Cav.BrentL

/-- **gluing, array form.**  `X` any array of rationals, `σ` any rational.  A real `z` that is, in the
    direction `σ`, not before `X[0]` and not after `X[k]` (`1 ≤ k`) lies in one of the oriented closed
    cells `[X[i-1], X[i]]`, `1 ≤ i ≤ k`.  (No monotonicity of `X` is needed: take the first index
    whose point is not before `z`.) -/
theorem point_in_some_cell (σ : Rat) (X : Array Rat) (z : ℝ) :
    ∀ k, 1 ≤ k → (σ : ℝ) * ((X.getD 0 0 : Rat) : ℝ) ≤ (σ : ℝ) * z →
      (σ : ℝ) * z ≤ (σ : ℝ) * ((X.getD k 0 : Rat) : ℝ) →
      ∃ i, 1 ≤ i ∧ i ≤ k ∧ InCellR σ (X.getD (i - 1) 0) (X.getD i 0) z := by
  intro k
  induction k with
  | zero => intro h; omega
  | succ k ih =>
    intro _ hlo hhi
    rcases Nat.eq_zero_or_pos k with rfl | hk
    · exact ⟨1, le_refl _, le_refl _, hlo, hhi⟩
    · rcases le_total ((σ : ℝ) * ((X.getD k 0 : Rat) : ℝ)) ((σ : ℝ) * z) with hge | hle
      · exact ⟨k + 1, by omega, le_refl _, by simpa using hge, hhi⟩
      · obtain ⟨i, i1, i2, hin⟩ := ih hk hlo hle
        exact ⟨i, i1, by omega, hin⟩

/-- a continuous real function without a zero between `x` and `y` has the same strict sign at `x`
    and at `y` (intermediate value theorem) -/
theorem same_sign_of_no_zero_between {F : ℝ → ℝ} (hF : Continuous F) (x y : ℝ)
    (hnz : ∀ z : ℝ, min x y ≤ z → z ≤ max x y → F z ≠ 0) : 0 < F x * F y := by
  have hxn : F x ≠ 0 := hnz x (min_le_left _ _) (le_max_left _ _)
  have hyn : F y ≠ 0 := hnz y (min_le_right _ _) (le_max_right _ _)
  rcases lt_or_gt_of_ne (mul_ne_zero hxn hyn) with hneg | hpos
  · obtain ⟨ξ, hξ, g1, g2⟩ := exists_zero_strictly_between hF x y hneg
    exact absurd hξ (hnz ξ (le_of_lt g1) (le_of_lt g2))
  · exact hpos

/-- `0 < a * b` and `0 < a` give `0 < b`; `0 < a * b` and `a < 0` give `b < 0` -/
theorem pos_of_mul_pos_left {a b : ℝ} (h : 0 < a * b) (ha : 0 < a) : 0 < b :=
  (pos_iff_pos_of_mul_pos h).mp ha

theorem neg_of_mul_pos_left {a b : ℝ} (h : 0 < a * b) (ha : a < 0) : b < 0 := by
  rcases lt_trichotomy b 0 with hb | hb | hb
  · exact hb
  · rw [hb, mul_zero] at h; exact absurd h (lt_irrefl _)
  · have := mul_neg_of_neg_of_pos ha hb; linarith

/-- **no zero of the derivative on `[u, v]` ⇒ strictly monotone or strictly antitone.**
    `G` differentiable everywhere with derivative `F`, `F` continuous, `F` without zero on the closed
    interval `[u, v]`.  Then EITHER `F > 0` on all of `[u, v]` and `G` is strictly increasing there,
    OR `F < 0` on all of `[u, v]` and `G` is strictly decreasing there. -/
theorem strictMono_or_strictAnti_of_no_zero {F G : ℝ → ℝ} (hF : Continuous F)
    (hG : ∀ z, HasDerivAt G (F z) z) (u v : ℝ)
    (hnz : ∀ z ∈ Set.Icc u v, F z ≠ 0) :
    ((∀ w ∈ Set.Icc u v, 0 < F w) ∧ StrictMonoOn G (Set.Icc u v)) ∨
    ((∀ w ∈ Set.Icc u v, F w < 0) ∧ StrictAntiOn G (Set.Icc u v)) := by
  have hcont : ContinuousOn G (Set.Icc u v) := fun z _ => (hG z).continuousAt.continuousWithinAt
  rcases lt_or_ge v u with hvu | huv
  · -- empty interval: both alternatives hold trivially
    left
    have he : Set.Icc u v = ∅ := Set.Icc_eq_empty (not_le.mpr hvu)
    rw [he]
    exact ⟨fun w hw => absurd hw (Set.notMem_empty w), fun a ha => absurd ha (Set.notMem_empty a)⟩
  have hu : u ∈ Set.Icc u v := ⟨le_refl _, huv⟩
  have hsame : ∀ w ∈ Set.Icc u v, 0 < F u * F w := by
    intro w hw
    refine same_sign_of_no_zero_between hF u w (fun z g1 g2 => ?_)
    rw [min_eq_left hw.1] at g1
    rw [max_eq_right hw.1] at g2
    exact hnz z ⟨g1, le_trans g2 hw.2⟩
  rcases lt_or_gt_of_ne (hnz u hu) with hneg | hpos
  · right
    have hall : ∀ w ∈ Set.Icc u v, F w < 0 := fun w hw => neg_of_mul_pos_left (hsame w hw) hneg
    refine ⟨hall, strictAntiOn_of_deriv_neg (convex_Icc u v) hcont (fun z hz => ?_)⟩
    rw [interior_Icc] at hz
    rw [(hG z).deriv]
    exact hall z ⟨le_of_lt hz.1, le_of_lt hz.2⟩
  · left
    have hall : ∀ w ∈ Set.Icc u v, 0 < F w := fun w hw => pos_of_mul_pos_left (hsame w hw) hpos
    refine ⟨hall, strictMonoOn_of_deriv_pos (convex_Icc u v) hcont (fun z hz => ?_)⟩
    rw [interior_Icc] at hz
    rw [(hG z).deriv]
    exact hall z ⟨le_of_lt hz.1, le_of_lt hz.2⟩

/-- in a list sorted by `R`, every element is `R`-before the last one, or is the last one -/
theorem le_last_of_pairwise {R : Rat → Rat → Prop} (hrefl : ∀ a, R a a) (l : List Rat) (p : Rat)
    (hl : l.getLast? = some p) (hs : l.Pairwise R) : ∀ r ∈ l, R r p := by
  obtain ⟨ys, rfl⟩ := List.getLast?_eq_some_iff.mp hl
  intro r hr
  rcases List.mem_append.mp hr with h | h
  · exact (List.pairwise_append.mp hs).2.2 r h p (List.mem_singleton.mpr rfl)
  · rw [List.mem_singleton.mp h]; exact hrefl p

/-- in a list sorted by `R`, the first element is `R`-before every element, or is that element -/
theorem head_le_of_pairwise {R : Rat → Rat → Prop} (hrefl : ∀ a, R a a) (l : List Rat) (q : Rat)
    (hl : l.head? = some q) (hs : l.Pairwise R) : ∀ r ∈ l, R q r := by
  obtain ⟨ys, rfl⟩ := List.head?_eq_some_iff.mp hl
  intro r hr
  rcases List.mem_cons.mp hr with h | h
  · rw [h]; exact hrefl q
  · exact (List.pairwise_cons.mp hs).1 r h

/-- **the trimmed piece is far from every returned point.**  `l₁ ++ l₂` sorted in the direction `σ`;
    if the two ends `u ≤ v` of a real interval lie at least `2·tol` after the LAST element of `l₁` (if
    any) and at least `2·tol` before the FIRST element of `l₂` (if any), every point of `[u, v]` is at
    least `2·tol` away from every element of `l₁ ++ l₂`. -/
theorem far_of_trimmed_piece {σ tol : Rat} (hσ : σ = 1 ∨ σ = -1) (l1 l2 : List Rat)
    (hs : (l1 ++ l2).Pairwise (fun p q => σ * p ≤ σ * q)) (u v : ℝ)
    (h1 : ∀ p, l1.getLast? = some p →
      (σ : ℝ) * (p : ℝ) + 2 * (tol : ℝ) ≤ (σ : ℝ) * u ∧ (σ : ℝ) * (p : ℝ) + 2 * (tol : ℝ) ≤ (σ : ℝ) * v)
    (h2 : ∀ q, l2.head? = some q →
      (σ : ℝ) * u ≤ (σ : ℝ) * (q : ℝ) - 2 * (tol : ℝ) ∧ (σ : ℝ) * v ≤ (σ : ℝ) * (q : ℝ) - 2 * (tol : ℝ)) :
    ∀ z ∈ Set.Icc u v, ∀ r ∈ l1 ++ l2, 2 * (tol : ℝ) ≤ |(r : ℝ) - z| := by
  intro z hz r hr
  obtain ⟨s1, -, -⟩ := List.pairwise_append.mp hs
  obtain ⟨-, s2, -⟩ := List.pairwise_append.mp hs
  have hzlo : min ((σ : ℝ) * u) ((σ : ℝ) * v) ≤ (σ : ℝ) * z := by
    rcases hσ with rfl | rfl
    · simp only [Rat.cast_one, one_mul]; exact le_trans (min_le_left _ _) hz.1
    · simp only [Rat.cast_neg, Rat.cast_one, neg_mul, one_mul]
      exact le_trans (min_le_right _ _) (neg_le_neg hz.2)
  have hzhi : (σ : ℝ) * z ≤ max ((σ : ℝ) * u) ((σ : ℝ) * v) := by
    rcases hσ with rfl | rfl
    · simp only [Rat.cast_one, one_mul]; exact le_trans hz.2 (le_max_right _ _)
    · simp only [Rat.cast_neg, Rat.cast_one, neg_mul, one_mul]
      exact le_trans (neg_le_neg hz.1) (le_max_left _ _)
  have habs : |(r : ℝ) - z| = |(σ : ℝ) * (r : ℝ) - (σ : ℝ) * z| := by
    rw [← mul_sub, abs_mul]
    rcases hσ with rfl | rfl <;> simp
  rw [habs]
  rcases List.mem_append.mp hr with hm | hm
  · cases hlast : l1.getLast? with
    | none => rw [List.getLast?_eq_none_iff.mp hlast] at hm; cases hm
    | some p =>
      have hrp : σ * r ≤ σ * p := le_last_of_pairwise (R := fun p q => σ * p ≤ σ * q) (fun a => le_refl _) l1 p hlast s1 r hm
      have hrp' : (σ : ℝ) * (r : ℝ) ≤ (σ : ℝ) * (p : ℝ) := by exact_mod_cast hrp
      obtain ⟨a1, a2⟩ := h1 p hlast
      have := le_min a1 a2
      have := neg_le_abs ((σ : ℝ) * (r : ℝ) - (σ : ℝ) * z)
      linarith
  · cases hhead : l2.head? with
    | none => rw [List.head?_eq_none_iff.mp hhead] at hm; cases hm
    | some q =>
      have hqr : σ * q ≤ σ * r := head_le_of_pairwise (R := fun p q => σ * p ≤ σ * q) (fun a => le_refl _) l2 q hhead s2 r hm
      have hqr' : (σ : ℝ) * (q : ℝ) ≤ (σ : ℝ) * (r : ℝ) := by exact_mod_cast hqr
      obtain ⟨a1, a2⟩ := h2 q hhead
      have := max_le a1 a2
      have := le_abs_self ((σ : ℝ) * (r : ℝ) - (σ : ℝ) * z)
      linarith

end Cav.RootGlue
