/-
  Structural characterisation of `genDisplayCav` / `genDisplayRs` (every `Num α`):
  the two accumulator recursions `pieces` / `ivs` (`let rec`s of the models) are
  `mapE` / `bindListE` of a one-piece function.

  No law of arithmetic is used, so every statement also holds for the `Float` instance.
-/
import Cav.Model.Disp2D
import Cav.Lemmas.DispList

namespace Cav.DispL
open Cav Num Gen

variable {α : Type} [Num α]

/-! ### `gen_display_cav` -/

/-- the curve bundle of one piece: for every attachment index `i` the points
    `(r·fv[i], gv[i] + cc (r·fv[i]))`, `r` running over `yrv` -/
def cavCurves (cfg : Cfg2D α) (cc : α → α) (xv fv gv : List α) : List (Nat × List (α × α)) :=
  (curveIdx (α := α) xv.length cfg.intermCs).map fun i =>
    (i, (vecFromRes (zero : α) one cfg.yRes).map fun r =>
      (r * fv.getD i zero, gv.getD i zero + cc (r * fv.getD i zero)))

/-- the record `gen_display_cav` pushes for the piece `[a,b]` with integration value `integ` -/
def cavPiece (f : AD α → AD α) (cfg : Cfg2D α) (g : AD α → AD α) (cc : α → α) (a b : α)
    (integ : Option (α × α)) : Disp2D α :=
  ⟨a, b,
   (vecFromRes a b cfg.xRes).map (D1.f f),
   vecFromRes a b cfg.xRes,
   cavCurves cfg cc (vecFromRes a b cfg.xRes) ((vecFromRes a b cfg.xRes).map (D1.f f))
     ((vecFromRes a b cfg.xRes).map (fun x => (D1.fdf g x).1)),
   (vecFromRes a b cfg.xRes).map (fun x => (D1.fdf g x).1),
   (vecFromRes a b cfg.xRes).map (fun x => (D1.fdf g x).2),
   integ⟩

/-- one iteration of the piece loop -/
def cavPieceE (f : AD α → AD α) (cfg : Cfg2D α) (g : AD α → AD α) (cc : α → α) (p : α × α) :
    Except DispErr (Disp2D α) :=
  match pieceInteg cfg f g p.1 p.2 with
  | .error e => .error e
  | .ok integ => .ok (cavPiece f cfg g cc p.1 p.2 integ)

/-- one iteration of the interval loop: split, then all pieces -/
def cavIntervalE (f : AD α → AD α) (cfg : Cfg2D α) (g : AD α → AD α) (cc : α → α) (p : α × α) :
    Except DispErr (List (Disp2D α)) :=
  match splitStrictlyMonotone g (vecFromRes p.1 p.2 cfg.xRes) cfg.tol cfg.maxRfIters with
  | .error e => .error e
  | .ok splits => mapE (cavPieceE f cfg g cc) (chainPairs (p.1 :: splits ++ [p.2]))

theorem cav_pieces_eq (f : AD α → AD α) (cfg : Cfg2D α) (g : AD α → AD α) (cc : α → α)
    (l : List (α × α)) (acc : List (Disp2D α)) :
    genDisplayCav.pieces f cfg g cc l acc = prependE acc (mapE (cavPieceE f cfg g cc) l) := by
  induction l generalizing acc with
  | nil => simp [genDisplayCav.pieces, mapE]
  | cons p rest ih =>
    obtain ⟨a, b⟩ := p
    rw [genDisplayCav.pieces.eq_2]
    cases hI : pieceInteg cfg f g a b with
    | error e =>
      have hx : cavPieceE f cfg g cc (a, b) = .error e := by simp [cavPieceE, hI]
      rw [mapE_cons_err1 hx]; simp
    | ok integ =>
      have hx : cavPieceE f cfg g cc (a, b) = .ok (cavPiece f cfg g cc a b integ) := by
        simp [cavPieceE, hI]
      simp only []
      rw [ih]
      cases hR : mapE (cavPieceE f cfg g cc) rest with
      | error e => rw [mapE_cons_err2 hx hR]; simp
      | ok r =>
        rw [mapE_cons_of_ok hx hR]
        simp only [prependE_ok, List.append_assoc, List.singleton_append]
        simp only [cavPiece, cavCurves, List.map_map]
        rfl

theorem cav_ivs_eq (f : AD α → AD α) (cfg : Cfg2D α) (g : AD α → AD α) (cc : α → α)
    (l : List (α × α)) (acc : List (Disp2D α)) :
    genDisplayCav.ivs f cfg g cc l acc = prependE acc (bindListE (cavIntervalE f cfg g cc) l) := by
  induction l generalizing acc with
  | nil => simp [genDisplayCav.ivs, bindListE]
  | cons p rest ih =>
    obtain ⟨a, b⟩ := p
    rw [genDisplayCav.ivs.eq_2]
    cases hS : splitStrictlyMonotone g (vecFromRes a b cfg.xRes) cfg.tol cfg.maxRfIters with
    | error e =>
      have hx : cavIntervalE f cfg g cc (a, b) = .error e := by simp [cavIntervalE, hS]
      rw [bindListE_cons_err1 hx]; simp
    | ok splits =>
      simp only []
      rw [cav_pieces_eq]
      cases hP : mapE (cavPieceE f cfg g cc) (chainPairs (a :: splits ++ [b])) with
      | error e =>
        have hx : cavIntervalE f cfg g cc (a, b) = .error e := by simp only [cavIntervalE, hS]; exact hP
        rw [bindListE_cons_err1 hx]; simp
      | ok r1 =>
        have hx : cavIntervalE f cfg g cc (a, b) = .ok r1 := by simp only [cavIntervalE, hS]; exact hP
        simp only [prependE_ok]
        rw [ih]
        cases hR : bindListE (cavIntervalE f cfg g cc) rest with
        | error e => rw [bindListE_cons_err2 hx hR]; simp
        | ok r2 => rw [bindListE_cons_of_ok hx hR]; simp

/-- the `g` of `gen_display_cav` -/
abbrev cavGof (f c : AD α → AD α) : AD α → AD α := cavG f c (D1.f c zero)
/-- the normalised `c` of `gen_display_cav`: `cc y = c(y) − c(0)` -/
abbrev cavCC (c : AD α → AD α) : α → α := fun y => D1.f c y - D1.f c zero

/-- **characterisation**: `gen_display_cav` is the independent treatment of every interval -/
theorem genDisplayCav_eq (f c : AD α → AD α) (ivs : List (α × α)) (cfg : Cfg2D α) :
    genDisplayCav f c ivs cfg = bindListE (cavIntervalE f cfg (cavGof f c) (cavCC c)) ivs := by
  unfold genDisplayCav
  simp only []
  rw [cav_ivs_eq, prependE_nil]

/-- every display of a successful run is `cavPiece` of its own end points and integration value,
    and that value is what `pieceInteg` returned for exactly this piece -/
theorem genDisplayCav_mem {f c : AD α → AD α} {ivs : List (α × α)} {cfg : Cfg2D α}
    {ds : List (Disp2D α)} (h : genDisplayCav f c ivs cfg = .ok ds) {d : Disp2D α} (hd : d ∈ ds) :
    pieceInteg cfg f (cavGof f c) d.a d.b = .ok d.integ ∧
      d = cavPiece f cfg (cavGof f c) (cavCC c) d.a d.b d.integ := by
  rw [genDisplayCav_eq] at h
  obtain ⟨p, _, rx, hrx, hdx⟩ := bindListE_mem h hd
  unfold cavIntervalE at hrx
  split at hrx
  · cases hrx
  · obtain ⟨q, _, hq⟩ := mapE_mem hrx hdx
    unfold cavPieceE at hq
    split at hq
    · cases hq
    · rename_i integ hI
      cases hq
      exact ⟨hI, rfl⟩

/-! ### `gen_display_rs` -/

/-- one point of an rs-curve -/
def rsPointE (cRaw : α → Except DispErr α) (k fx xr r : α) : Except DispErr (α × α) :=
  match cRaw (r * fx) with
  | .error e => .error e
  | .ok cy => .ok (r * fx, xr + (cy - k))

theorem rs_curve_eq (cRaw : α → Except DispErr α) (k fx xr : α) (rs : List α) (acc : List (α × α)) :
    rsPiece.curve cRaw k fx xr rs acc = prependE acc.reverse (mapE (rsPointE cRaw k fx xr) rs) := by
  induction rs generalizing acc with
  | nil => simp [rsPiece.curve, mapE]
  | cons r rest ih =>
    rw [rsPiece.curve.eq_2]
    cases hc : cRaw (r * fx) with
    | error e =>
      have hx : rsPointE cRaw k fx xr r = .error e := by simp [rsPointE, hc]
      rw [mapE_cons_err1 hx]; rfl
    | ok cy =>
      have hx : rsPointE cRaw k fx xr r = .ok (r * fx, xr + (cy - k)) := by simp [rsPointE, hc]
      simp only []
      rw [ih]
      cases hR : mapE (rsPointE cRaw k fx xr) rest with
      | error e => rw [mapE_cons_err2 hx hR]; simp
      | ok l => rw [mapE_cons_of_ok hx hR]; simp

/-- one curve of an rs-display -/
def rsCurveE (fv : List α) (cRaw : α → Except DispErr α) (k : α) (gv yrv : List α) (i : Nat) :
    Except DispErr (Nat × List (α × α)) :=
  match mapE (rsPointE cRaw k (fv.getD i zero) (gv.getD i zero)) yrv with
  | .error e => .error e
  | .ok cv => .ok (i, cv)

theorem rs_curves_eq (fv : List α) (cRaw : α → Except DispErr α) (k : α) (gv yrv : List α)
    (is : List Nat) (acc : List (Nat × List (α × α))) :
    rsPiece.curves fv cRaw k gv yrv is acc =
      prependE acc.reverse (mapE (rsCurveE fv cRaw k gv yrv) is) := by
  induction is generalizing acc with
  | nil => simp [rsPiece.curves, mapE]
  | cons i rest ih =>
    rw [rsPiece.curves.eq_2, rs_curve_eq]
    simp only [List.reverse_nil, prependE_nil]
    cases hc : mapE (rsPointE cRaw k (fv.getD i zero) (gv.getD i zero)) yrv with
    | error e =>
      have hx : rsCurveE fv cRaw k gv yrv i = .error e := by unfold rsCurveE; rw [hc]
      rw [mapE_cons_err1 hx]; rfl
    | ok cv =>
      have hx : rsCurveE fv cRaw k gv yrv i = .ok (i, cv) := by unfold rsCurveE; rw [hc]
      simp only []
      rw [ih]
      cases hR : mapE (rsCurveE fv cRaw k gv yrv) rest with
      | error e => rw [mapE_cons_err2 hx hR]; simp
      | ok l => rw [mapE_cons_of_ok hx hR]; simp

theorem rsPointE_fst {cRaw : α → Except DispErr α} {k fx xr r : α} {p : α × α}
    (h : rsPointE cRaw k fx xr r = .ok p) : p.1 = r * fx := by
  unfold rsPointE at h
  split at h
  · cases h
  · cases h; rfl

/-- the curves of a successful `rsPiece`: attachment indices and abscissae -/
theorem rsPiece_ok_curves {f g : AD α → AD α} {cfg : Cfg2D α} {a b : α} {d : Disp2D α}
    (h : rsPiece f g cfg a b = .ok d) :
    d.cvs.map (·.1) = curveIdx (α := α) d.xv.length cfg.intermCs ∧
    (∃ k, d.gv = (d.xv.map (fun x => (D1.fdf g x).1)).map (· + k)) ∧
    ∀ cv ∈ d.cvs, cv.2.map (·.1) =
      (vecFromRes (zero : α) one cfg.yRes).map (· * d.fv.getD cv.1 zero) := by
  unfold rsPiece at h
  split at h
  · cases h
  · simp only [] at h
    split at h
    · cases h
    · rename_i k hk
      split at h
      · cases h
      · rename_i cvs hcvs
        cases h
        rw [rs_curves_eq] at hcvs
        simp only [List.reverse_nil, prependE_nil] at hcvs
        refine ⟨?_, ⟨k, by simp [List.map_map]⟩, ?_⟩
        · have := mapE_map_eq hcvs (fun cv => cv.1) id (fun i cv hi => by
            unfold rsCurveE at hi
            split at hi
            · cases hi
            · cases hi; rfl)
          simpa using this
        · intro cv hcv
          obtain ⟨i, _, hi⟩ := mapE_mem hcvs hcv
          unfold rsCurveE at hi
          split at hi
          · cases hi
          · rename_i pts hpts
            cases hi
            exact mapE_map_eq hpts (fun p => p.1) _ (fun r p hp => rsPointE_fst hp)
/-- `rsPiece` on a pair -/
def rsPieceE (f g : AD α → AD α) (cfg : Cfg2D α) (q : α × α) : Except DispErr (Disp2D α) :=
  rsPiece f g cfg q.1 q.2

/-- what a successful `rsPiece` records about its piece (the curves and the shifted `gv` depend
    on root finding and are not characterised here) -/
theorem rsPiece_ok {f g : AD α → AD α} {cfg : Cfg2D α} {a b : α} {d : Disp2D α}
    (h : rsPiece f g cfg a b = .ok d) :
    d.a = a ∧ d.b = b ∧ pieceInteg cfg f g a b = .ok d.integ ∧
      d.xv = vecFromRes a b cfg.xRes ∧ d.fv = d.xv.map (D1.f f) ∧
      d.dgv = d.xv.map (fun x => (D1.fdf g x).2) := by
  unfold rsPiece at h
  split at h
  · cases h
  · rename_i integ hI
    simp only [] at h
    split at h
    · cases h
    · split at h
      · cases h
      · cases h
        simp [hI, List.map_map]

/-- one iteration of the interval loop of `gen_display_rs` -/
def rsIntervalE (f g : AD α → AD α) (cfg : Cfg2D α) (p : α × α) :
    Except DispErr (List (Disp2D α)) :=
  match splitTranslational f g (vecFromRes p.1 p.2 cfg.xRes) cfg.tol cfg.maxRfIters with
  | .error e => .error e
  | .ok splits => mapE (rsPieceE f g cfg) (chainPairs (p.1 :: splits ++ [p.2]))

theorem rs_pieces_eq (f g : AD α → AD α) (cfg : Cfg2D α)
    (l : List (α × α)) (acc : List (Disp2D α)) :
    genDisplayRs.pieces f g cfg l acc = prependE acc (mapE (rsPieceE f g cfg) l) := by
  induction l generalizing acc with
  | nil => simp [genDisplayRs.pieces, mapE]
  | cons p rest ih =>
    obtain ⟨a, b⟩ := p
    rw [genDisplayRs.pieces.eq_2]
    cases hI : rsPiece f g cfg a b with
    | error e =>
      have hx : rsPieceE f g cfg (a, b) = .error e := hI
      rw [mapE_cons_err1 hx]; simp
    | ok d =>
      have hx : rsPieceE f g cfg (a, b) = .ok d := hI
      simp only []
      rw [ih]
      cases hR : mapE (rsPieceE f g cfg) rest with
      | error e => rw [mapE_cons_err2 hx hR]; simp
      | ok r => rw [mapE_cons_of_ok hx hR]; simp

theorem rs_ivs_eq (f g : AD α → AD α) (cfg : Cfg2D α)
    (l : List (α × α)) (acc : List (Disp2D α)) :
    genDisplayRs.ivs f g cfg l acc = prependE acc (bindListE (rsIntervalE f g cfg) l) := by
  induction l generalizing acc with
  | nil => simp [genDisplayRs.ivs, bindListE]
  | cons p rest ih =>
    obtain ⟨a, b⟩ := p
    rw [genDisplayRs.ivs.eq_2]
    cases hS : splitTranslational f g (vecFromRes a b cfg.xRes) cfg.tol cfg.maxRfIters with
    | error e =>
      have hx : rsIntervalE f g cfg (a, b) = .error e := by simp [rsIntervalE, hS]
      rw [bindListE_cons_err1 hx]; simp
    | ok splits =>
      simp only []
      rw [rs_pieces_eq]
      cases hP : mapE (rsPieceE f g cfg) (chainPairs (a :: splits ++ [b])) with
      | error e =>
        have hx : rsIntervalE f g cfg (a, b) = .error e := by simp only [rsIntervalE, hS]; exact hP
        rw [bindListE_cons_err1 hx]; simp
      | ok r1 =>
        have hx : rsIntervalE f g cfg (a, b) = .ok r1 := by simp only [rsIntervalE, hS]; exact hP
        simp only [prependE_ok]
        rw [ih]
        cases hR : bindListE (rsIntervalE f g cfg) rest with
        | error e => rw [bindListE_cons_err2 hx hR]; simp
        | ok r2 => rw [bindListE_cons_of_ok hx hR]; simp

theorem genDisplayRs_eq (f g : AD α → AD α) (ivs : List (α × α)) (cfg : Cfg2D α) :
    genDisplayRs f g ivs cfg = bindListE (rsIntervalE f g cfg) ivs := by
  unfold genDisplayRs
  rw [rs_ivs_eq, prependE_nil]

theorem genDisplayRs_mem {f g : AD α → AD α} {ivs : List (α × α)} {cfg : Cfg2D α}
    {ds : List (Disp2D α)} (h : genDisplayRs f g ivs cfg = .ok ds) {d : Disp2D α} (hd : d ∈ ds) :
    rsPiece f g cfg d.a d.b = .ok d := by
  rw [genDisplayRs_eq] at h
  obtain ⟨p, _, rx, hrx, hdx⟩ := bindListE_mem h hd
  unfold rsIntervalE at hrx
  split at hrx
  · cases hrx
  · obtain ⟨q, _, hq⟩ := mapE_mem hrx hdx
    unfold rsPieceE at hq
    obtain ⟨ha, hb, _⟩ := rsPiece_ok hq
    rw [ha, hb]; exact hq

end Cav.DispL
