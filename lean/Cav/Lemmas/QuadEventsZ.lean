/-
  Event chains of a quadrilateral in general position (`p1.x < p2.x < p3.x < p4.x`), evaluated
  symbolically on the sweep model: ring `Z` (cyclic order `p1 p3 p2 p4`: Start Start End End; the second Start is improper (inside the polygon) or the first End merges two back-chains).  The vertex ring `V` is abstract (look-ups at the
  four vertices, both ring orientations `ori`), the points are abstract, and the outcome of every
  pure geometric test of the model is a hypothesis `g…`.
-/
import Cav.Lemmas.QuadRun

set_option linter.unusedSimpArgs false
set_option linter.unusedVariables false
set_option maxRecDepth 4000

namespace Cav.QuadEvents
open Cav Num Cav.Sweep Cav.SweepRun Cav.TriRun Cav.QuadRun Cav.TriEvents

/-- ring `p1 p3 p2 p4`, edge `p1 p4` below edge `p1 p3`, `p2` between them: improper Start -/
theorem flow_Zia (ori : Bool) (V : Array (Vtx XQ)) (i1 i2 i3 i4 : Nat) (p1 p2 p3 p4 : Pt XQ)
    (h1 : V[i1]? = some ⟨p1, (nb ori i4 i3).1, (nb ori i4 i3).2⟩)
    (h2 : V[i2]? = some ⟨p2, (nb ori i3 i4).1, (nb ori i3 i4).2⟩)
    (h3 : V[i3]? = some ⟨p3, (nb ori i1 i2).1, (nb ori i1 i2).2⟩)
    (h4 : V[i4]? = some ⟨p4, (nb ori i2 i1).1, (nb ori i2 i1).2⟩)
    (hO : Ord4 p1 p2 p3 p4)
    (g1 : cmpEdgeP p1 p4 p1 p3 p1.x = .lt)
    (g2 : cmpEdgeP p1 p3 p1 p4 p1.x = .gt)
    (g3 : cmpEdgeP p2 p4 p2 p3 p2.x = .lt)
    (g4 : cmpEdgeP p2 p3 p2 p4 p2.x = .gt)
    (g5 : cmpEdgeP p2 p4 p1 p4 p2.x = .gt)
    (g6 : cmpEdgeP p2 p4 p1 p3 p2.x = .lt)
    (g7 : cmpEdgeP p2 p3 p1 p4 p2.x = .gt)
    (g8 : cmpEdgeP p2 p3 p1 p3 p2.x = .lt)
    (g9 : cmpEdgeP p1 p4 p1 p3 p2.x = .lt)
    (g10 : cmpEdgeP p1 p3 p1 p4 p2.x = .gt)
    (g11 : partialCmpEdgeP p1 p4 p1 p3 p2.x = some .lt)
    (g12 : ofLt (yExtrap p2 p4 p4.x true) (yExtrap p1 p4 p4.x true) = false)
    (g13 : ofGt (yExtrap p2 p3 p3.x true) (yExtrap p1 p3 p3.x true) = false)
    (g14 : ofGe (p1.grad p3) (p2.grad p3) = false)
    (g15 : cmpEdgeP p1 p3 p2 p4 p2.x = .gt)
    (g16 : clockwiseSign p2 p1 p3 = .c)
    (g17 : ofGe (p1.grad p4) (p2.grad p4) = true)
    (g18 : cmpEdgeP p1 p4 p2 p4 p3.x = .lt)
    (g19 : clockwiseSign p1 p2 p4 = .c) :
    ∃ s', Runs (stQ V [(i1, []), (i2, [])]) (.ok ((), s')) (loop 5) ∧
      s'.out = [sort3 p1 p2 p4, sort3 p2 p1 p3] ∧ s'.mono = true := by
  obtain ⟨f1, f2, f3, f4, c11, c12, c13, c14, c21, c22, c23, c24, c31, c32, c33, c34, c41, c42, c43, c44, e12, e13, e14, e21, e23, e24, e31, e32, e34, e41, e42, e43, x11, x12, x13, x14, x21, x22, x23, x24, x31, x32, x33, x34, x41, x42, x43, x44, m12, m13, m14, m21, m23, m24, m31, m32, m34, m41, m42, m43⟩ := hO
  unfold stQ
  cases ori <;> simp only [nb, if_true, if_false, Bool.false_eq_true] at h1 h2 h3 h4
  all_goals
    refine ⟨?_, ?run, ?out⟩
    case run =>
      qev [g1, g2, g3, g4, g5, g6, g7, g8, g9, g10, g11, g12, g13, g14, g15, g16, g17, g18, g19]
      qev [g1, g2, g3, g4, g5, g6, g7, g8, g9, g10, g11, g12, g13, g14, g15, g16, g17, g18, g19]
      qev [g1, g2, g3, g4, g5, g6, g7, g8, g9, g10, g11, g12, g13, g14, g15, g16, g17, g18, g19]
      qev [g1, g2, g3, g4, g5, g6, g7, g8, g9, g10, g11, g12, g13, g14, g15, g16, g17, g18, g19]
      refine Runs.loop_done (n := 0) ?_
      rfl
    case out => exact ⟨by rfl, by rfl⟩

/-- ring `p1 p3 p2 p4`, edge `p1 p3` below edge `p1 p4`, `p2` between them: improper Start -/
theorem flow_Zib (ori : Bool) (V : Array (Vtx XQ)) (i1 i2 i3 i4 : Nat) (p1 p2 p3 p4 : Pt XQ)
    (h1 : V[i1]? = some ⟨p1, (nb ori i4 i3).1, (nb ori i4 i3).2⟩)
    (h2 : V[i2]? = some ⟨p2, (nb ori i3 i4).1, (nb ori i3 i4).2⟩)
    (h3 : V[i3]? = some ⟨p3, (nb ori i1 i2).1, (nb ori i1 i2).2⟩)
    (h4 : V[i4]? = some ⟨p4, (nb ori i2 i1).1, (nb ori i2 i1).2⟩)
    (hO : Ord4 p1 p2 p3 p4)
    (g1 : cmpEdgeP p1 p3 p1 p4 p1.x = .lt)
    (g2 : cmpEdgeP p1 p4 p1 p3 p1.x = .gt)
    (g3 : cmpEdgeP p2 p3 p2 p4 p2.x = .lt)
    (g4 : cmpEdgeP p2 p4 p2 p3 p2.x = .gt)
    (g5 : cmpEdgeP p2 p3 p1 p3 p2.x = .gt)
    (g6 : cmpEdgeP p2 p3 p1 p4 p2.x = .lt)
    (g7 : cmpEdgeP p2 p4 p1 p3 p2.x = .gt)
    (g8 : cmpEdgeP p2 p4 p1 p4 p2.x = .lt)
    (g9 : cmpEdgeP p1 p3 p1 p4 p2.x = .lt)
    (g10 : cmpEdgeP p1 p4 p1 p3 p2.x = .gt)
    (g11 : partialCmpEdgeP p1 p3 p1 p4 p2.x = some .lt)
    (g12 : ofLt (yExtrap p2 p3 p3.x true) (yExtrap p1 p3 p3.x true) = false)
    (g13 : ofGt (yExtrap p2 p4 p4.x true) (yExtrap p1 p4 p4.x true) = false)
    (g14 : ofGe (p1.grad p3) (p2.grad p3) = true)
    (g15 : cmpEdgeP p1 p3 p2 p3 p2.x = .lt)
    (g16 : cmpEdgeP p1 p3 p2 p4 p2.x = .lt)
    (g17 : clockwiseSign p1 p2 p3 = .c)
    (g18 : ofGe (p1.grad p4) (p2.grad p4) = false)
    (g19 : cmpEdgeP p2 p4 p1 p4 p3.x = .lt)
    (g20 : clockwiseSign p2 p1 p4 = .c) :
    ∃ s', Runs (stQ V [(i1, []), (i2, [])]) (.ok ((), s')) (loop 5) ∧
      s'.out = [sort3 p2 p1 p4, sort3 p1 p2 p3] ∧ s'.mono = true := by
  obtain ⟨f1, f2, f3, f4, c11, c12, c13, c14, c21, c22, c23, c24, c31, c32, c33, c34, c41, c42, c43, c44, e12, e13, e14, e21, e23, e24, e31, e32, e34, e41, e42, e43, x11, x12, x13, x14, x21, x22, x23, x24, x31, x32, x33, x34, x41, x42, x43, x44, m12, m13, m14, m21, m23, m24, m31, m32, m34, m41, m42, m43⟩ := hO
  unfold stQ
  cases ori <;> simp only [nb, if_true, if_false, Bool.false_eq_true] at h1 h2 h3 h4
  all_goals
    refine ⟨?_, ?run, ?out⟩
    case run =>
      qev [g1, g2, g3, g4, g5, g6, g7, g8, g9, g10, g11, g12, g13, g14, g15, g16, g17, g18, g19, g20]
      qev [g1, g2, g3, g4, g5, g6, g7, g8, g9, g10, g11, g12, g13, g14, g15, g16, g17, g18, g19, g20]
      qev [g1, g2, g3, g4, g5, g6, g7, g8, g9, g10, g11, g12, g13, g14, g15, g16, g17, g18, g19, g20]
      qev [g1, g2, g3, g4, g5, g6, g7, g8, g9, g10, g11, g12, g13, g14, g15, g16, g17, g18, g19, g20]
      refine Runs.loop_done (n := 0) ?_
      rfl
    case out => exact ⟨by rfl, by rfl⟩

/-- ring `p1 p3 p2 p4`, edge `p1 p4` below edge `p1 p3`, `p2` above both: the End at `p3` merges two chains -/
theorem flow_Zab (ori : Bool) (V : Array (Vtx XQ)) (i1 i2 i3 i4 : Nat) (p1 p2 p3 p4 : Pt XQ)
    (h1 : V[i1]? = some ⟨p1, (nb ori i4 i3).1, (nb ori i4 i3).2⟩)
    (h2 : V[i2]? = some ⟨p2, (nb ori i3 i4).1, (nb ori i3 i4).2⟩)
    (h3 : V[i3]? = some ⟨p3, (nb ori i1 i2).1, (nb ori i1 i2).2⟩)
    (h4 : V[i4]? = some ⟨p4, (nb ori i2 i1).1, (nb ori i2 i1).2⟩)
    (hO : Ord4 p1 p2 p3 p4)
    (g1 : cmpEdgeP p1 p4 p1 p3 p1.x = .lt)
    (g2 : cmpEdgeP p1 p3 p1 p4 p1.x = .gt)
    (g3 : cmpEdgeP p2 p3 p2 p4 p2.x = .lt)
    (g4 : cmpEdgeP p2 p4 p2 p3 p2.x = .gt)
    (g5 : cmpEdgeP p2 p3 p1 p4 p2.x = .gt)
    (g6 : cmpEdgeP p2 p3 p1 p3 p2.x = .gt)
    (g7 : cmpEdgeP p2 p4 p1 p4 p2.x = .gt)
    (g8 : cmpEdgeP p2 p4 p1 p3 p2.x = .gt)
    (g9 : cmpEdgeP p1 p3 p1 p4 p2.x = .gt)
    (g10 : ofLt (yExtrap p2 p3 p3.x true) (yExtrap p1 p3 p3.x true) = false)
    (g11 : ofGe (p1.grad p3) (p2.grad p3) = true)
    (g12 : cmpEdgeP p1 p3 p2 p3 p2.x = .lt)
    (g13 : cmpEdgeP p1 p3 p2 p4 p2.x = .lt)
    (g14 : ofGt (yExtrap p1 p4 p4.x true) (yExtrap p2 p4 p4.x true) = false)
    (g15 : ofGe (p1.grad p4) (p2.grad p4) = true)
    (g16 : cmpEdgeP p1 p4 p2 p4 p3.x = .lt)
    (g17 : clockwiseSign p3 p2 p4 = .c)
    (g18 : clockwiseSign p1 p3 p4 = .c) :
    ∃ s', Runs (stQ V [(i1, []), (i2, [])]) (.ok ((), s')) (loop 5) ∧
      s'.out = [sort3 p1 p3 p4, sort3 p3 p2 p4] ∧ s'.mono = true := by
  obtain ⟨f1, f2, f3, f4, c11, c12, c13, c14, c21, c22, c23, c24, c31, c32, c33, c34, c41, c42, c43, c44, e12, e13, e14, e21, e23, e24, e31, e32, e34, e41, e42, e43, x11, x12, x13, x14, x21, x22, x23, x24, x31, x32, x33, x34, x41, x42, x43, x44, m12, m13, m14, m21, m23, m24, m31, m32, m34, m41, m42, m43⟩ := hO
  unfold stQ
  cases ori <;> simp only [nb, if_true, if_false, Bool.false_eq_true] at h1 h2 h3 h4
  all_goals
    refine ⟨?_, ?run, ?out⟩
    case run =>
      qev [g1, g2, g3, g4, g5, g6, g7, g8, g9, g10, g11, g12, g13, g14, g15, g16, g17, g18]
      qev [g1, g2, g3, g4, g5, g6, g7, g8, g9, g10, g11, g12, g13, g14, g15, g16, g17, g18]
      qev [g1, g2, g3, g4, g5, g6, g7, g8, g9, g10, g11, g12, g13, g14, g15, g16, g17, g18]
      qev [g1, g2, g3, g4, g5, g6, g7, g8, g9, g10, g11, g12, g13, g14, g15, g16, g17, g18]
      refine Runs.loop_done (n := 0) ?_
      rfl
    case out => exact ⟨by rfl, by rfl⟩

/-- ring `p1 p3 p2 p4`, edge `p1 p3` below edge `p1 p4`, `p2` below both: the End at `p3` merges two chains -/
theorem flow_Zbe (ori : Bool) (V : Array (Vtx XQ)) (i1 i2 i3 i4 : Nat) (p1 p2 p3 p4 : Pt XQ)
    (h1 : V[i1]? = some ⟨p1, (nb ori i4 i3).1, (nb ori i4 i3).2⟩)
    (h2 : V[i2]? = some ⟨p2, (nb ori i3 i4).1, (nb ori i3 i4).2⟩)
    (h3 : V[i3]? = some ⟨p3, (nb ori i1 i2).1, (nb ori i1 i2).2⟩)
    (h4 : V[i4]? = some ⟨p4, (nb ori i2 i1).1, (nb ori i2 i1).2⟩)
    (hO : Ord4 p1 p2 p3 p4)
    (g1 : cmpEdgeP p1 p3 p1 p4 p1.x = .lt)
    (g2 : cmpEdgeP p1 p4 p1 p3 p1.x = .gt)
    (g3 : cmpEdgeP p2 p4 p2 p3 p2.x = .lt)
    (g4 : cmpEdgeP p2 p3 p2 p4 p2.x = .gt)
    (g5 : cmpEdgeP p2 p4 p1 p3 p2.x = .lt)
    (g6 : cmpEdgeP p2 p4 p1 p4 p2.x = .lt)
    (g7 : cmpEdgeP p2 p3 p1 p3 p2.x = .lt)
    (g8 : cmpEdgeP p2 p3 p1 p4 p2.x = .lt)
    (g9 : ofGt (yExtrap p2 p3 p3.x true) (yExtrap p1 p3 p3.x true) = false)
    (g10 : ofGe (p1.grad p3) (p2.grad p3) = false)
    (g11 : cmpEdgeP p1 p3 p2 p4 p2.x = .gt)
    (g12 : cmpEdgeP p1 p3 p1 p4 p2.x = .lt)
    (g13 : ofGt (yExtrap p2 p4 p4.x true) (yExtrap p1 p4 p4.x true) = false)
    (g14 : ofGe (p1.grad p4) (p2.grad p4) = false)
    (g15 : cmpEdgeP p2 p4 p1 p4 p3.x = .lt)
    (g16 : clockwiseSign p3 p1 p4 = .c)
    (g17 : clockwiseSign p2 p3 p4 = .c) :
    ∃ s', Runs (stQ V [(i1, []), (i2, [])]) (.ok ((), s')) (loop 5) ∧
      s'.out = [sort3 p2 p3 p4, sort3 p3 p1 p4] ∧ s'.mono = true := by
  obtain ⟨f1, f2, f3, f4, c11, c12, c13, c14, c21, c22, c23, c24, c31, c32, c33, c34, c41, c42, c43, c44, e12, e13, e14, e21, e23, e24, e31, e32, e34, e41, e42, e43, x11, x12, x13, x14, x21, x22, x23, x24, x31, x32, x33, x34, x41, x42, x43, x44, m12, m13, m14, m21, m23, m24, m31, m32, m34, m41, m42, m43⟩ := hO
  unfold stQ
  cases ori <;> simp only [nb, if_true, if_false, Bool.false_eq_true] at h1 h2 h3 h4
  all_goals
    refine ⟨?_, ?run, ?out⟩
    case run =>
      qev [g1, g2, g3, g4, g5, g6, g7, g8, g9, g10, g11, g12, g13, g14, g15, g16, g17]
      qev [g1, g2, g3, g4, g5, g6, g7, g8, g9, g10, g11, g12, g13, g14, g15, g16, g17]
      qev [g1, g2, g3, g4, g5, g6, g7, g8, g9, g10, g11, g12, g13, g14, g15, g16, g17]
      qev [g1, g2, g3, g4, g5, g6, g7, g8, g9, g10, g11, g12, g13, g14, g15, g16, g17]
      refine Runs.loop_done (n := 0) ?_
      rfl
    case out => exact ⟨by rfl, by rfl⟩

end Cav.QuadEvents
