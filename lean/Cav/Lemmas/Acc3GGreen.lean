/-
  Green's formula on the unit simplex for polynomials in two variables (iterated interval
  integrals, no measure theory in two dimensions):

    `∫_0^1 ∫_0^{1−s} ∂_s p (s, r) dr ds = ∫_0^1 p(s, 1−s) ds − ∫_0^1 p(0, r) dr`   (`green_s`)
    `∫_0^1 ∫_0^{1−s} ∂_r p (s, r) dr ds = ∫_0^1 p(s, 1−s) ds − ∫_0^1 p(s, 0) ds`   (`green_r`)

  for `p : MvPolynomial (Fin 2) ℝ`, by induction on `p` (monomials: the fundamental theorem of
  calculus in one variable).
-/
import Mathlib.Algebra.MvPolynomial.PDeriv
import Mathlib.Topology.Algebra.MvPolynomial
import Mathlib.MeasureTheory.Integral.DominatedConvergence
import Mathlib.Analysis.SpecialFunctions.Integrals.Basic
import Mathlib.Analysis.Calculus.Deriv.Mul
import Mathlib.Analysis.Calculus.Deriv.Add
import Mathlib.Analysis.Calculus.Deriv.Pow
import Mathlib.Tactic.Ring
import Mathlib.Tactic.FieldSimp
import Mathlib.Tactic.Linarith

namespace Cav.Acc3G
open MvPolynomial

noncomputable def E2 (p : MvPolynomial (Fin 2) ℝ) (s r : ℝ) : ℝ := eval ![s, r] p

theorem E2_add (p q : MvPolynomial (Fin 2) ℝ) (s r : ℝ) : E2 (p + q) s r = E2 p s r + E2 q s r := by
  simp [E2]

theorem E2_monomial (m : Fin 2 →₀ ℕ) (c s r : ℝ) :
    E2 (monomial m c) s r = c * s ^ m 0 * r ^ m 1 := by
  simp [E2, eval_monomial, Finsupp.prod_fintype, Fin.prod_univ_two, mul_assoc]

theorem cont_vec : Continuous fun q : ℝ × ℝ => (![q.1, q.2] : Fin 2 → ℝ) := by
  refine continuous_pi fun i => ?_
  fin_cases i
  · exact continuous_fst
  · exact continuous_snd

theorem E2_continuous (p : MvPolynomial (Fin 2) ℝ) :
    Continuous fun q : ℝ × ℝ => E2 p q.1 q.2 :=
  (MvPolynomial.continuous_eval p).comp cont_vec

theorem E2_continuous_comp (p : MvPolynomial (Fin 2) ℝ) {f g : ℝ → ℝ} (hf : Continuous f)
    (hg : Continuous g) : Continuous fun x => E2 p (f x) (g x) :=
  ((E2_continuous p).comp (hf.prodMk hg) :
    Continuous ((fun q : ℝ × ℝ => E2 p q.1 q.2) ∘ fun x => (f x, g x)))

theorem E2_continuous_right (p : MvPolynomial (Fin 2) ℝ) (s : ℝ) : Continuous fun r => E2 p s r :=
  E2_continuous_comp p continuous_const continuous_id

theorem E2_continuous_left (p : MvPolynomial (Fin 2) ℝ) (r : ℝ) : Continuous fun s => E2 p s r :=
  E2_continuous_comp p continuous_id continuous_const

theorem E2_pderiv0_monomial (m : Fin 2 →₀ ℕ) (c s r : ℝ) :
    E2 (pderiv 0 (monomial m c)) s r = c * (m 0 : ℝ) * s ^ (m 0 - 1) * r ^ m 1 := by
  rw [pderiv_monomial, E2_monomial]
  simp

theorem E2_pderiv1_monomial (m : Fin 2 →₀ ℕ) (c s r : ℝ) :
    E2 (pderiv 1 (monomial m c)) s r = c * (m 1 : ℝ) * s ^ m 0 * r ^ (m 1 - 1) := by
  rw [pderiv_monomial, E2_monomial]
  simp

/-- the partial derivative in `r` -/
theorem hasDerivAt_E2_right (p : MvPolynomial (Fin 2) ℝ) (s r : ℝ) :
    HasDerivAt (fun r => E2 p s r) (E2 (pderiv 1 p) s r) r := by
  induction p using MvPolynomial.induction_on' with
  | monomial m c =>
    simp only [E2_pderiv1_monomial, E2_monomial]
    exact ((hasDerivAt_pow (m 1) r).const_mul (c * s ^ m 0)).congr_deriv (by ring)
  | add p q hp hq =>
    simp only [E2_add, map_add]
    exact hp.add hq

/-- the partial derivative in `s` -/
theorem hasDerivAt_E2_left (p : MvPolynomial (Fin 2) ℝ) (s r : ℝ) :
    HasDerivAt (fun s => E2 p s r) (E2 (pderiv 0 p) s r) s := by
  induction p using MvPolynomial.induction_on' with
  | monomial m c =>
    simp only [E2_pderiv0_monomial, E2_monomial]
    exact (((hasDerivAt_pow (m 0) s).const_mul c).mul_const (r ^ m 1)).congr_deriv (by ring)
  | add p q hp hq =>
    simp only [E2_add, map_add]
    exact hp.add hq

/-- the inner integral of the `r`-derivative -/
theorem inner_green_r (p : MvPolynomial (Fin 2) ℝ) (s b : ℝ) :
    ∫ r in (0 : ℝ)..b, E2 (pderiv 1 p) s r = E2 p s b - E2 p s 0 :=
  intervalIntegral.integral_eq_sub_of_hasDerivAt (fun r _ => hasDerivAt_E2_right p s r)
    ((E2_continuous_right _ s).intervalIntegrable _ _)

/-- continuity of the inner integral as a function of the outer variable -/
theorem inner_continuous (p : MvPolynomial (Fin 2) ℝ) :
    Continuous fun s : ℝ => ∫ r in (0 : ℝ)..(1 - s), E2 p s r := by
  have hf : Continuous (Function.uncurry fun s r : ℝ => E2 p s r) := E2_continuous p
  exact intervalIntegral.continuous_parametric_intervalIntegral_of_continuous hf
    (continuous_const.sub continuous_id)

/-- **Green's formula on the simplex, `r`-derivative** -/
theorem green_r (p : MvPolynomial (Fin 2) ℝ) :
    ∫ s in (0 : ℝ)..1, ∫ r in (0 : ℝ)..(1 - s), E2 (pderiv 1 p) s r =
      (∫ s in (0 : ℝ)..1, E2 p s (1 - s)) - ∫ s in (0 : ℝ)..1, E2 p s 0 := by
  simp only [inner_green_r]
  refine intervalIntegral.integral_sub ?_ ?_
  · exact (E2_continuous_comp p continuous_id (continuous_const.sub continuous_id)).intervalIntegrable _ _
  · exact (E2_continuous_left p 0).intervalIntegrable _ _

theorem E2_continuous_diag (p : MvPolynomial (Fin 2) ℝ) : Continuous fun s : ℝ => E2 p s (1 - s) :=
  E2_continuous_comp p continuous_id (continuous_const.sub continuous_id)

theorem green_s_monomial (m : Fin 2 →₀ ℕ) (c : ℝ) :
    ∫ s in (0 : ℝ)..1, ∫ r in (0 : ℝ)..(1 - s), E2 (pderiv 0 (monomial m c)) s r =
      (∫ s in (0 : ℝ)..1, E2 (monomial m c) s (1 - s)) - ∫ r in (0 : ℝ)..1, E2 (monomial m c) 0 r := by
  simp only [E2_pderiv0_monomial, E2_monomial]
  generalize m 0 = a
  generalize m 1 = b
  have hb : ((b : ℝ) + 1) ≠ 0 := by positivity
  have hin : ∀ s : ℝ, ∫ r in (0 : ℝ)..(1 - s), c * (a : ℝ) * s ^ (a - 1) * r ^ b =
      c * (a : ℝ) * s ^ (a - 1) * (1 - s) ^ (b + 1) / ((b : ℝ) + 1) := by
    intro s
    rw [intervalIntegral.integral_const_mul, integral_pow]
    simp
    ring
  simp only [hin]
  have hlast : ∫ r in (0 : ℝ)..1, c * (0 : ℝ) ^ a * r ^ b = c * (0 : ℝ) ^ a / ((b : ℝ) + 1) := by
    rw [intervalIntegral.integral_const_mul, integral_pow]
    simp
    ring
  rw [hlast]
  have hG : ∀ s : ℝ, HasDerivAt (fun s : ℝ => c * s ^ a * (1 - s) ^ (b + 1) / ((b : ℝ) + 1))
      (c * (a : ℝ) * s ^ (a - 1) * (1 - s) ^ (b + 1) / ((b : ℝ) + 1) - c * s ^ a * (1 - s) ^ b) s := by
    intro s
    have h1 := (hasDerivAt_pow a s).const_mul c
    have h2 := ((hasDerivAt_id s).const_sub 1).pow (b + 1)
    have h3 := (h1.mul h2).div_const ((b : ℝ) + 1)
    refine h3.congr_deriv ?_
    simp only [id, Pi.pow_apply, Nat.add_sub_cancel]
    generalize s ^ (a - 1) = X
    push_cast
    field_simp
    ring
  have hA : Continuous fun s : ℝ => c * (a : ℝ) * s ^ (a - 1) * (1 - s) ^ (b + 1) / ((b : ℝ) + 1) := by
    fun_prop
  have hB : Continuous fun s : ℝ => c * s ^ a * (1 - s) ^ b := by fun_prop
  have hftc := intervalIntegral.integral_eq_sub_of_hasDerivAt (a := (0 : ℝ)) (b := 1)
    (fun s _ => hG s) ((hA.sub hB).intervalIntegrable _ _)
  rw [intervalIntegral.integral_sub (hA.intervalIntegrable _ _) (hB.intervalIntegrable _ _)] at hftc
  have e : c * (1 : ℝ) ^ a * (1 - 1) ^ (b + 1) / ((b : ℝ) + 1) -
      c * (0 : ℝ) ^ a * (1 - 0) ^ (b + 1) / ((b : ℝ) + 1) = - (c * (0 : ℝ) ^ a / ((b : ℝ) + 1)) := by
    rw [sub_self, zero_pow (Nat.succ_ne_zero b), sub_zero, one_pow, one_pow]
    ring
  rw [e] at hftc
  linarith

/-- **Green's formula on the simplex, `s`-derivative** -/
theorem green_s (p : MvPolynomial (Fin 2) ℝ) :
    ∫ s in (0 : ℝ)..1, ∫ r in (0 : ℝ)..(1 - s), E2 (pderiv 0 p) s r =
      (∫ s in (0 : ℝ)..1, E2 p s (1 - s)) - ∫ r in (0 : ℝ)..1, E2 p 0 r := by
  induction p using MvPolynomial.induction_on' with
  | monomial m c => exact green_s_monomial m c
  | add p q hp hq =>
    simp only [map_add, E2_add]
    have i1 : ∀ s : ℝ, ∫ r in (0 : ℝ)..(1 - s), (E2 (pderiv 0 p) s r + E2 (pderiv 0 q) s r) =
        (∫ r in (0 : ℝ)..(1 - s), E2 (pderiv 0 p) s r) + ∫ r in (0 : ℝ)..(1 - s), E2 (pderiv 0 q) s r :=
      fun s => intervalIntegral.integral_add ((E2_continuous_right _ s).intervalIntegrable _ _)
        ((E2_continuous_right _ s).intervalIntegrable _ _)
    simp only [i1]
    rw [intervalIntegral.integral_add ((inner_continuous _).intervalIntegrable _ _)
        ((inner_continuous _).intervalIntegrable _ _),
      intervalIntegral.integral_add ((E2_continuous_diag p).intervalIntegrable _ _)
        ((E2_continuous_diag q).intervalIntegrable _ _),
      intervalIntegral.integral_add ((E2_continuous_right p 0).intervalIntegrable _ _)
        ((E2_continuous_right q 0).intervalIntegrable _ _), hp, hq]
    ring
end Cav.Acc3G
