/-
  Rejection of crossing input, part 1 (geometry).  `PairOK a b`: the look-ahead fact the model
  tests when the active edges `a` (below) and `b` (above) become neighbours — at the smaller of
  their right abscissae `a` is strictly below `b`, or they end in the same vertex.  Neighbours
  with this fact do not meet before the next event (`advance_T`, `heights_advance_T`: the
  replacement of the global `NoCross` in the step lemmas).  Under the strictness hypothesis
  `NoTouch` a negative overlap test of the model gives `PairOK` (`wob_decode`, `wot_decode`).
  A proper crossing of two segments is a common point strictly inside both abscissa ranges
  (`cross_meet`).
-/
import Cav.Lemmas.GenStepEnd
import Cav.Lemmas.QuadCases
import Cav.Lemmas.GenValid

set_option linter.unusedSimpArgs false
set_option linter.unusedVariables false

namespace Cav.GenXGeom
open Cav Num Cav.Geo Cav.Sweep Cav.TriRun Cav.QuadRun Cav.TriGeom Cav.QuadGeom Cav.CvxFlows
open Cav.GenQuery Cav.GenGeom Cav.GenInv Cav.GenQueue Cav.GenOrder Cav.GenStepBend Cav.GenStepEnd

variable {R : RingQ} {V : Array (Vtx XQ)}

/-- the look-ahead fact for the neighbours `a` (below) and `b` (above) -/
def PairOK (R : RingQ) (a b : AE) : Prop :=
  a.rv = b.rv ∨ hY R a (min (R.x a.rv) (R.x b.rv)) < hY R b (min (R.x a.rv) (R.x b.rv))

/-- no vertex lies on a ring edge whose abscissa range contains it -/
def NoTouch (R : RingQ) : Prop :=
  ∀ i, i < R.n → ∀ z, z < R.n →
    ((R.x i < R.x z ∧ R.x z < R.x (R.nxt i)) ∨ (R.x (R.nxt i) < R.x z ∧ R.x z < R.x i)) →
    orient (R.pt i) (R.pt (R.nxt i)) (R.pt z) ≠ 0

instance (R : RingQ) : Decidable (NoTouch R) := by unfold NoTouch; exact inferInstance

/-- `NoTouch` for a left-to-right ring edge `u → v` -/
theorem NoTouch.adj (hT : NoTouch R) (hR : RingOK R V) {u v z : Nat} (hu : u < R.n) (hv : v < R.n)
    (hz : z < R.n) (h : Adj R u v) (h1 : R.x u < R.x z) (h2 : R.x z < R.x v) :
    orient (R.pt u) (R.pt v) (R.pt z) ≠ 0 := by
  rcases h with h | h
  · have := hT u hu z hz (Or.inl ⟨h1, by rw [h]; exact h2⟩)
    rw [h] at this; exact this
  · have hn : R.nxt v = u := by rw [← h]; exact hR.nxt_prv u hu
    have := hT v hv z hz (Or.inr ⟨by rw [hn]; exact h1, h2⟩)
    rw [hn] at this
    intro e
    apply this
    have : orient (R.pt v) (R.pt u) (R.pt z) = - orient (R.pt u) (R.pt v) (R.pt z) := by
      unfold orient; ring
    rw [this, e, neg_zero]

/-- the order of two heights at `x'` between `x0` and `x1` where it is the same -/
theorem between_lt (a b c d : Q) (hab : a.1 < b.1) (hcd : c.1 < d.1) (x0 x1 x' : Rat)
    (h0 : lineY a b x0 ≤ lineY c d x0) (h1 : lineY a b x1 < lineY c d x1) (hx0 : x0 < x') (hx1 : x' ≤ x1) :
    lineY a b x' < lineY c d x' := by
  have h01 : x0 < x1 := lt_of_lt_of_le hx0 hx1
  have hd : 0 < x1 - x0 := sub_pos.mpr h01
  set t := (x' - x0) / (x1 - x0) with ht
  have ht0 : 0 < t := div_pos (sub_pos.mpr hx0) hd
  have ht1 : t ≤ 1 := by rw [ht, div_le_one hd]; linarith
  have hx : x' = (1 - t) * x0 + t * x1 := by
    rw [ht]; field_simp; ring
  rw [hx, lineY_combo a b hab, lineY_combo c d hcd]
  have h2 : 0 ≤ 1 - t := by linarith
  nlinarith [mul_le_mul_of_nonneg_left h0 h2, mul_lt_mul_of_pos_left h1 ht0]

/-- two edges into the same right point keep their order to the left of it -/
theorem fanR_lt (a c d : Q) (had : a.1 < d.1) (hcd : c.1 < d.1) (x0 x' : Rat) (hx0 : x0 < d.1)
    (hx' : x' < d.1) (h0 : lineY a d x0 < lineY c d x0) : lineY a d x' < lineY c d x' := by
  have e0 := lineY_sub_sameR a c d x0 had hcd
  have e1 := lineY_sub_sameR a c d x' had hcd
  have hden : 0 < (d.1 - a.1) * (d.1 - c.1) := mul_pos (sub_pos.mpr had) (sub_pos.mpr hcd)
  have ho : orient a c d < 0 := by
    by_contra hcon
    have : 0 ≤ (d.1 - x0) * orient a c d / ((d.1 - a.1) * (d.1 - c.1)) :=
      div_nonneg (mul_nonneg (le_of_lt (sub_pos.mpr hx0)) (not_lt.mp hcon)) (le_of_lt hden)
    linarith
  have : (d.1 - x') * orient a c d / ((d.1 - a.1) * (d.1 - c.1)) < 0 :=
    div_neg_of_neg_of_pos (mul_neg_of_pos_of_neg (sub_pos.mpr hx') ho) hden
  linarith

/-- **neighbours with the look-ahead fact do not meet before the next event** -/
theorem advance_T {xs x' : Rat} {a b : AE} (ha : Span R xs a) (hb : Span R xs b)
    (hab : Below R xs a b) (hp : PairOK R a b) (hx : xs < x')
    (hxa : x' ≤ R.x a.rv) (hxb : x' ≤ R.x b.rv) :
    hY R a x' < hY R b x' ∨ (x' = R.x a.rv ∧ a.rv = b.rv) := by
  rcases hab with hlt | ⟨h1, h2, h3⟩
  · rcases hp with hp | hp
    · -- the same right end
      rcases lt_or_eq_of_le hxa with h | h
      · left
        have hbr : (R.pt b.lv).1 < (R.pt a.rv).1 := by rw [hp]; exact hb.lt
        have := fanR_lt (R.pt a.lv) (R.pt b.lv) (R.pt a.rv) ha.lt hbr xs x' ha.gt h
          (by have := hlt; rw [← hp] at this; exact this)
        show lineY (R.pt a.lv) (R.pt a.rv) x' < lineY (R.pt b.lv) (R.pt b.rv) x'
        rw [← hp]; exact this
      · exact Or.inr ⟨h, hp⟩
    · left
      exact between_lt _ _ _ _ ha.lt hb.lt xs _ x' (le_of_lt hlt) hp hx (le_min hxa hxb)
  · left
    show lineY (R.pt a.lv) (R.pt a.rv) x' < lineY (R.pt b.lv) (R.pt b.rv) x'
    rw [← h1]
    have hbl : (R.pt a.lv).1 < (R.pt b.rv).1 := by have := hb.lt; rw [← h1] at this; exact this
    exact fan_lt _ _ _ ha.lt hbl x' (by show R.x a.lv < x'; rw [h2]; exact hx) h3

/-- the look-ahead facts of all neighbours in the active list -/
def Tested (R : RingQ) : List AE → Prop
  | [] => True
  | [_] => True
  | a :: b :: t => PairOK R a b ∧ Tested R (b :: t)

theorem tested_append : ∀ (A B : List AE), Tested R (A ++ B) ↔
    Tested R A ∧ Tested R B ∧ ∀ a b, A.getLast? = some a → B.head? = some b → PairOK R a b
  | [], B => by simp [Tested]
  | [a], [] => by simp [Tested]
  | [a], b :: B => by
    simp only [List.singleton_append, Tested, true_and, List.getLast?_singleton, List.head?_cons,
      Option.some.injEq]
    constructor
    · rintro ⟨h1, h2⟩
      exact ⟨h2, fun a' b' e1 e2 => by rw [← e1, ← e2]; exact h1⟩
    · rintro ⟨h2, h1⟩
      exact ⟨h1 a b rfl rfl, h2⟩
  | a :: a' :: A, B => by
    have ih := tested_append (a' :: A) B
    simp only [List.cons_append, Tested] at ih ⊢
    rw [ih]
    have : (a :: a' :: A).getLast? = (a' :: A).getLast? := by simp [List.getLast?_cons_cons]
    rw [this]
    tauto

/-- the order of the heights at `x'`, non-strict only for edges ending there in the same vertex -/
def Rel (R : RingQ) (x' : Rat) (a b : AE) : Prop :=
  hY R a x' < hY R b x' ∨ (x' = R.x a.rv ∧ a.rv = b.rv)

theorem Rel.trans {x' : Rat} {a b c : AE} (hb : (R.pt b.lv).1 < (R.pt b.rv).1)
    (hc : (R.pt c.lv).1 < (R.pt c.rv).1) (ha : (R.pt a.lv).1 < (R.pt a.rv).1)
    (h1 : Rel R x' a b) (h2 : Rel R x' b c) : Rel R x' a c := by
  have hyr : ∀ e : AE, (R.pt e.lv).1 < (R.pt e.rv).1 → x' = R.x e.rv → hY R e x' = (R.pt e.rv).2 := by
    intro e he hx; rw [hx]; exact lineY_right _ _ he
  rcases h1 with h1 | ⟨h1, h1'⟩ <;> rcases h2 with h2 | ⟨h2, h2'⟩
  · exact Or.inl (lt_trans h1 h2)
  · left
    have e1 := hyr b hb h2
    have e2 := hyr c hc (by rw [← h2']; exact h2)
    rw [e2, ← h2', ← e1]; exact h1
  · left
    have e1 := hyr a ha h1
    have e2 := hyr b hb (by rw [← h1']; exact h1)
    rw [e1, h1', ← e2]; exact h2
  · exact Or.inr ⟨h1, h1'.trans h2'⟩

/-- the heights of all active edges at the next event abscissa, from the look-ahead facts of the
    neighbours (replaces `heights_advance`) -/
theorem heights_advance_T {xs x' : Rat} : ∀ {L : List AE},
    (∀ a ∈ L, Span R xs a) → L.Pairwise (Below R xs) → Tested R L → xs < x' →
    (∀ a ∈ L, x' ≤ R.x a.rv) → L.Pairwise (Rel R x')
  | [], _, _, _, _, _ => List.Pairwise.nil
  | [a], _, _, _, _, _ => by simp
  | a :: b :: t, hS, hP, hT, hx, hr => by
    have hP' := List.pairwise_cons.mp hP
    have hT' : PairOK R a b ∧ Tested R (b :: t) := hT
    have ih := heights_advance_T (L := b :: t) (fun c hc => hS c (List.mem_cons_of_mem _ hc)) hP'.2
      hT'.2 hx (fun c hc => hr c (List.mem_cons_of_mem _ hc))
    have hab : Rel R x' a b := advance_T (hS a (by simp)) (hS b (by simp)) (hP'.1 b (by simp)) hT'.1 hx
      (hr a (by simp)) (hr b (by simp))
    refine List.pairwise_cons.mpr ⟨?_, ih⟩
    intro c hc
    rcases List.mem_cons.mp hc with rfl | hc
    · exact hab
    · exact Rel.trans (hS b (by simp)).lt (hS c (by simp [hc])).lt (hS a (by simp)).lt hab
        ((List.pairwise_cons.mp ih).1 c hc)

/-! ### decoding the overlap tests -/

/-- a negative `willOverlapBot` of the edge `e` against the edge `b` below it -/
theorem wob_decode (hR : RingOK R V) (hT : NoTouch R) {b e : AE} {x0 : Rat}
    (hb : Span R x0 b) (he : Span R x0 e)
    (h : wobP (Fq (R.pt e.lv)) (Fq (R.pt e.rv)) (Fq (R.pt b.lv)) (Fq (R.pt b.rv)) = false) :
    PairOK R b e := by
  unfold wobP at h
  rcases lt_trichotomy (R.x e.rv) (R.x b.rv) with hlt | heq | hgt
  · right
    have hx : ofEq (Fq (R.pt e.rv)).x (Fq (R.pt b.rv)).x = false := by
      simp only [F_x, ofEq_fin, decide_eq_false_iff_not]; exact ne_of_lt hlt
    rw [hx] at h
    simp only [Bool.false_eq_true, if_false] at h
    have em : minTotal (Fq (R.pt e.rv)).x (Fq (R.pt b.rv)).x = XQ.fin (min (R.pt e.rv).1 (R.pt b.rv).1) :=
      minTotal_fin _ _
    rw [em, min_eq_left (le_of_lt hlt)] at h
    rw [min_eq_right (le_of_lt hlt)]
    have hne := hT.adj hR hb.lv_lt hb.rv_lt he.rv_lt hb.adj (lt_of_le_of_lt hb.le he.gt) hlt
    rcases lt_or_gt_of_ne hne with ho | ho
    · rw [cmpAt_keyEnd_lt _ _ _ _ he.lt hb.lt (le_trans hb.le (le_of_lt he.gt)) (le_of_lt hlt) ho] at h
      exact absurd h (by decide)
    · have := above_of_orient_pos _ _ _ hb.lt ho
      show lineY _ _ (R.pt e.rv).1 < lineY _ _ (R.pt e.rv).1
      rw [lineY_right _ _ he.lt]; exact this
  · exact Or.inl (hR.distinct _ _ he.rv_lt hb.rv_lt heq).symm
  · right
    have hx : ofEq (Fq (R.pt e.rv)).x (Fq (R.pt b.rv)).x = false := by
      simp only [F_x, ofEq_fin, decide_eq_false_iff_not]; exact ne_of_gt hgt
    rw [hx] at h
    simp only [Bool.false_eq_true, if_false] at h
    have em : minTotal (Fq (R.pt e.rv)).x (Fq (R.pt b.rv)).x = XQ.fin (min (R.pt e.rv).1 (R.pt b.rv).1) :=
      minTotal_fin _ _
    rw [em, min_eq_right (le_of_lt hgt)] at h
    rw [min_eq_left (le_of_lt hgt)]
    have hne := hT.adj hR he.lv_lt he.rv_lt hb.rv_lt he.adj (lt_of_le_of_lt he.le hb.gt) hgt
    rcases lt_or_gt_of_ne hne with ho | ho
    · have := below_of_orient_neg _ _ _ he.lt ho
      show lineY _ _ (R.pt b.rv).1 < lineY _ _ (R.pt b.rv).1
      rw [lineY_right _ _ hb.lt]; exact this
    · rw [cmpAt_otherEnd_lt _ _ _ _ he.lt hb.lt (le_trans he.le (le_of_lt hb.gt)) (le_of_lt hgt) ho] at h
      exact absurd h (by decide)

/-- a negative `willOverlapTop` of the edge `e` against the edge `t` above it -/
theorem wot_decode (hR : RingOK R V) (hT : NoTouch R) {t e : AE} {x0 : Rat}
    (ht : Span R x0 t) (he : Span R x0 e)
    (h : wotP (Fq (R.pt e.lv)) (Fq (R.pt e.rv)) (Fq (R.pt t.lv)) (Fq (R.pt t.rv)) = false) :
    PairOK R e t := by
  unfold wotP at h
  rcases lt_trichotomy (R.x e.rv) (R.x t.rv) with hlt | heq | hgt
  · right
    have hx : ofEq (Fq (R.pt e.rv)).x (Fq (R.pt t.rv)).x = false := by
      simp only [F_x, ofEq_fin, decide_eq_false_iff_not]; exact ne_of_lt hlt
    rw [hx] at h
    simp only [Bool.false_eq_true, if_false] at h
    have em : minTotal (Fq (R.pt e.rv)).x (Fq (R.pt t.rv)).x = XQ.fin (min (R.pt e.rv).1 (R.pt t.rv).1) :=
      minTotal_fin _ _
    rw [em, min_eq_left (le_of_lt hlt)] at h
    rw [min_eq_left (le_of_lt hlt)]
    have hne := hT.adj hR ht.lv_lt ht.rv_lt he.rv_lt ht.adj (lt_of_le_of_lt ht.le he.gt) hlt
    rcases lt_or_gt_of_ne hne with ho | ho
    · have := below_of_orient_neg _ _ _ ht.lt ho
      show lineY _ _ (R.pt e.rv).1 < lineY _ _ (R.pt e.rv).1
      rw [lineY_right _ _ he.lt]; exact this
    · rw [cmpAt_keyEnd_gt _ _ _ _ he.lt ht.lt (le_trans ht.le (le_of_lt he.gt)) (le_of_lt hlt) ho] at h
      exact absurd h (by decide)
  · exact Or.inl (hR.distinct _ _ he.rv_lt ht.rv_lt heq)
  · right
    have hx : ofEq (Fq (R.pt e.rv)).x (Fq (R.pt t.rv)).x = false := by
      simp only [F_x, ofEq_fin, decide_eq_false_iff_not]; exact ne_of_gt hgt
    rw [hx] at h
    simp only [Bool.false_eq_true, if_false] at h
    have em : minTotal (Fq (R.pt e.rv)).x (Fq (R.pt t.rv)).x = XQ.fin (min (R.pt e.rv).1 (R.pt t.rv).1) :=
      minTotal_fin _ _
    rw [em, min_eq_right (le_of_lt hgt)] at h
    rw [min_eq_right (le_of_lt hgt)]
    have hne := hT.adj hR he.lv_lt he.rv_lt ht.rv_lt he.adj (lt_of_le_of_lt he.le ht.gt) hgt
    rcases lt_or_gt_of_ne hne with ho | ho
    · rw [cmpAt_otherEnd_gt _ _ _ _ he.lt ht.lt (le_trans he.le (le_of_lt ht.gt)) (le_of_lt hgt) ho] at h
      exact absurd h (by decide)
    · have := above_of_orient_pos _ _ _ he.lt ho
      show lineY _ _ (R.pt t.rv).1 < lineY _ _ (R.pt t.rv).1
      rw [lineY_right _ _ ht.lt]; exact this

/-- a vertex strictly inside the abscissa range of an edge is not on it -/
theorem off_edge (hR : RingOK R V) (hT : NoTouch R) {a : AE} {x0 : Rat} (ha : Span R x0 a) {w : Nat} (hw : w < R.n)
    (h1 : R.x a.lv < R.x w) (h2 : R.x w < R.x a.rv) : hY R a (R.x w) ≠ (R.pt w).2 := by
  intro he
  have hne := hT.adj hR ha.lv_lt ha.rv_lt hw ha.adj h1 h2
  have e := pt_sub_lineY (R.pt a.lv) (R.pt a.rv) (R.pt w) ha.lt
  have he' : lineY (R.pt a.lv) (R.pt a.rv) (R.pt w).1 = (R.pt w).2 := he
  rw [he', sub_self] at e
  rcases div_eq_zero_iff.mp e.symm with h | h
  · exact hne h
  · exact absurd h (ne_of_gt (sub_pos.mpr ha.lt))

/-- two edges out of one vertex (the lower first) have the look-ahead fact -/
theorem pairOK_fan {a b : AE} (h1 : a.lv = b.lv) (ha : (R.pt a.lv).1 < (R.pt a.rv).1)
    (hb : (R.pt b.lv).1 < (R.pt b.rv).1) (ho : 0 < orient (R.pt a.lv) (R.pt a.rv) (R.pt b.rv)) :
    PairOK R a b := by
  right
  show lineY (R.pt a.lv) (R.pt a.rv) _ < lineY (R.pt b.lv) (R.pt b.rv) _
  rw [← h1]
  have hbl : (R.pt a.lv).1 < (R.pt b.rv).1 := by rw [h1]; exact hb
  exact fan_lt _ _ _ ha hbl _ (lt_min ha hbl) ho


/-! ### a proper crossing is a common point inside both abscissa ranges -/

theorem on_line_zero (a b : Q) (hab : a.1 < b.1) (x y : Rat) (h : orient a b (x, y) = 0) :
    y = lineY a b x := by
  have e := pt_sub_lineY a b (x, y) hab
  simp only at e
  rw [h, zero_div] at e
  linarith

theorem zero_of_on_line (a b : Q) (hab : a.1 < b.1) (x : Rat) : orient a b (x, lineY a b x) = 0 := by
  have e := pt_sub_lineY a b (x, lineY a b x) hab
  simp only [sub_self] at e
  rcases div_eq_zero_iff.mp e.symm with h | h
  · exact h
  · exact absurd h (ne_of_gt (sub_pos.mpr hab))

/-- a zero of `(β - x) p + (x - α) q` with `p q < 0` lies strictly between `α` and `β` -/
theorem between_of_zero {α β x p q : Rat} (hαβ : α < β) (hpq : p * q < 0)
    (h : (β - x) * p + (x - α) * q = 0) : α < x ∧ x < β := by
  rcases mul_neg_iff.mp hpq with ⟨hp, hq⟩ | ⟨hp, hq⟩
  · constructor
    · by_contra hc
      have h1 : 0 ≤ α - x := by linarith
      nlinarith [mul_pos (show 0 < β - x by linarith) hp, mul_nonneg h1 (le_of_lt (neg_pos.mpr hq))]
    · by_contra hc
      have h1 : 0 ≤ x - β := by linarith
      nlinarith [mul_pos (show 0 < x - α by linarith) (neg_pos.mpr hq), mul_nonneg h1 (le_of_lt hp)]
  · constructor
    · by_contra hc
      have h1 : 0 ≤ α - x := by linarith
      nlinarith [mul_pos (show 0 < β - x by linarith) (neg_pos.mpr hp), mul_nonneg h1 (le_of_lt hq)]
    · by_contra hc
      have h1 : 0 ≤ x - β := by linarith
      nlinarith [mul_pos (show 0 < x - α by linarith) hq, mul_nonneg h1 (le_of_lt (neg_pos.mpr hp))]

theorem cross_meet (a b c d : Q) (hab : a.1 < b.1) (hcd : c.1 < d.1) (h : QuadCases.Cross a b c d) :
    ∃ x, a.1 < x ∧ x < b.1 ∧ c.1 < x ∧ x < d.1 ∧ lineY a b x = lineY c d x := by
  obtain ⟨h1, h2⟩ := h
  have hne : orient a b c - orient a b d ≠ 0 := by
    intro e
    have : orient a b c = orient a b d := by linarith
    rw [this] at h1
    nlinarith [mul_self_nonneg (orient a b d)]
  refine ⟨(d.1 * orient a b c - c.1 * orient a b d) / (orient a b c - orient a b d), ?_⟩
  set x := (d.1 * orient a b c - c.1 * orient a b d) / (orient a b c - orient a b d) with hx
  have key : (d.1 - x) * orient a b c + (x - c.1) * orient a b d = 0 := by
    rw [hx]; field_simp; ring
  obtain ⟨hc1, hc2⟩ := between_of_zero hcd h1 key
  have hz : orient a b (x, lineY c d x) = 0 := by
    have e := GenValid.orient_on_line a b c d hcd x
    rw [key] at e
    rcases mul_eq_zero.mp e with e | e
    · exact absurd e (ne_of_gt (sub_pos.mpr hcd))
    · exact e
  have heq : lineY c d x = lineY a b x := on_line_zero a b hab x _ hz
  have hz2 : orient c d (x, lineY a b x) = 0 := by rw [← heq]; exact zero_of_on_line c d hcd x
  have e2 := GenValid.orient_on_line c d a b hab x
  rw [hz2, mul_zero] at e2
  obtain ⟨ha1, ha2⟩ := between_of_zero hab h2 e2.symm
  exact ⟨ha1, ha2, hc1, hc2, heq.symm⟩

end Cav.GenXGeom
