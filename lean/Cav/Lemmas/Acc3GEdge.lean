/-
  Green's formula for one triangle and a polynomial integrand, in rational closed form.

  * `potTerms terms`: the antiderivative in `x` (`c·x^i·y^j ↦ c/(i+1)·x^(i+1)·y^j`);
  * `edgePoly a b terms`, `edgeInt terms a b = ∫_0^1 terms(a + τ(b − a)) dτ` (a rational number,
    `edgeInt_real`), `edgeInt_symm`;
  * `omegaQ terms a b = (b.y − a.y) · edgeInt (potTerms terms) a b = ∫_a^b F dy` — THE EDGE WEIGHT
    (antisymmetric: `omegaQ_swap`);
  * `simplex_green` (reals, from `Acc3GGreen.green_s`, `green_r` and the chain rule `green_id` for
    `MvPolynomial`), `orient_mul_simplex`;
  * `triExactQ_boundary`: `triExactQ terms (a, b, c) = ± (ω(a,b) + ω(b,c) + ω(c,a))`, the sign being
    the sign of the orientation determinant.
-/
import Cav.Lemmas.Acc3GGreen
import Cav.Lemmas.Acc3Real
import Mathlib.Tactic.LinearCombination
namespace Cav.Acc3G
open MvPolynomial Cav Cav.Acc3 Cav.Acc2 Cav.C01 Cav.C09Accuracy Cav.C07Accuracy

noncomputable def linP (a0 a1 a2 : ℝ) : MvPolynomial (Fin 2) ℝ := C a0 + C a1 * X 0 + C a2 * X 1

theorem E2_linP (a0 a1 a2 s r : ℝ) : E2 (linP a0 a1 a2) s r = a0 + a1 * s + a2 * r := by
  simp [E2, linP]

theorem pderiv0_linP (a0 a1 a2 : ℝ) : pderiv 0 (linP a0 a1 a2) = C a1 := by
  simp [linP, pderiv_X]

theorem pderiv1_linP (a0 a1 a2 : ℝ) : pderiv 1 (linP a0 a1 a2) = C a2 := by
  simp [linP, pderiv_X]

noncomputable def termsP (lx ly : MvPolynomial (Fin 2) ℝ) :
    List (Nat × Nat × Rat) → MvPolynomial (Fin 2) ℝ
  | [] => 0
  | tm :: ts => C ((tm.2.2 : Rat) : ℝ) * lx ^ tm.1 * ly ^ tm.2.1 + termsP lx ly ts

theorem E2_termsP (lx ly : MvPolynomial (Fin 2) ℝ) (terms : List (Nat × Nat × Rat)) (s r : ℝ) :
    E2 (termsP lx ly terms) s r = evalTermsR terms (E2 lx s r) (E2 ly s r) := by
  induction terms with
  | nil => simp [termsP, E2]
  | cons tm ts ih =>
    rw [evalTermsR_cons, ← ih]
    simp [termsP, E2]

/-- antiderivative in `x`: `c·x^i·y^j ↦ c/(i+1)·x^(i+1)·y^j` -/
def potTerms (terms : List (Nat × Nat × Rat)) : List (Nat × Nat × Rat) :=
  terms.map fun tm => (tm.1 + 1, tm.2.1, tm.2.2 / ((tm.1 : Rat) + 1))

theorem green_id (x0 ux vx y0 uy vy : ℝ) (terms : List (Nat × Nat × Rat)) :
    C vy * pderiv 0 (termsP (linP x0 ux vx) (linP y0 uy vy) (potTerms terms)) -
        C uy * pderiv 1 (termsP (linP x0 ux vx) (linP y0 uy vy) (potTerms terms)) =
      C (ux * vy - uy * vx) * termsP (linP x0 ux vx) (linP y0 uy vy) terms := by
  induction terms with
  | nil => simp [termsP, potTerms]
  | cons tm ts ih =>
    have ih' := ih
    simp only [potTerms] at ih' ⊢
    simp only [List.map_cons, termsP, map_add, mul_add]
    rw [← ih']
    simp only [Derivation.leibniz, Derivation.leibniz_pow, pderiv0_linP, pderiv1_linP, pderiv_C,
      smul_eq_mul, nsmul_eq_mul, Nat.add_sub_cancel, C_sub, C_mul]
    have hc : (C (((tm.2.2 / ((tm.1 : Rat) + 1) : Rat)) : ℝ) : MvPolynomial (Fin 2) ℝ) *
        (((tm.1 + 1 : ℕ) : MvPolynomial (Fin 2) ℝ)) = C ((tm.2.2 : Rat) : ℝ) := by
      rw [← map_natCast (C : ℝ →+* MvPolynomial (Fin 2) ℝ), ← C_mul]
      congr 1
      push_cast
      field_simp
    linear_combination ((C ux * C vy - C uy * C vx) * linP x0 ux vx ^ tm.1 * linP y0 uy vy ^ tm.2.1) * hc

theorem E2_C_mul (a : ℝ) (p : MvPolynomial (Fin 2) ℝ) (s r : ℝ) : E2 (C a * p) s r = a * E2 p s r := by
  simp [E2]

theorem E2_sub (p q : MvPolynomial (Fin 2) ℝ) (s r : ℝ) : E2 (p - q) s r = E2 p s r - E2 q s r := by
  simp [E2]

/-- linear combinations under the iterated integral over the simplex -/
theorem simplex_lin (a b : ℝ) (p q : MvPolynomial (Fin 2) ℝ) :
    ∫ s in (0 : ℝ)..1, ∫ r in (0 : ℝ)..(1 - s), (a * E2 p s r - b * E2 q s r) =
      a * (∫ s in (0 : ℝ)..1, ∫ r in (0 : ℝ)..(1 - s), E2 p s r) -
        b * ∫ s in (0 : ℝ)..1, ∫ r in (0 : ℝ)..(1 - s), E2 q s r := by
  have i1 : ∀ s : ℝ, ∫ r in (0 : ℝ)..(1 - s), (a * E2 p s r - b * E2 q s r) =
      a * (∫ r in (0 : ℝ)..(1 - s), E2 p s r) - b * ∫ r in (0 : ℝ)..(1 - s), E2 q s r := by
    intro s
    rw [intervalIntegral.integral_sub
      (((E2_continuous_right p s).const_mul a).intervalIntegrable _ _)
      (((E2_continuous_right q s).const_mul b).intervalIntegrable _ _),
      intervalIntegral.integral_const_mul, intervalIntegral.integral_const_mul]
  simp only [i1]
  rw [intervalIntegral.integral_sub
    (((inner_continuous p).const_mul a).intervalIntegrable _ _)
    (((inner_continuous q).const_mul b).intervalIntegrable _ _),
    intervalIntegral.integral_const_mul, intervalIntegral.integral_const_mul]

/-- **Green's formula for a triangle in the parametrisation `P(s,r) = p0 + s·u + r·v`**: the
    determinant times the simplex integral of the polynomial is a combination of three integrals of
    its `x`-antiderivative along the sides -/
theorem simplex_green (x0 ux vx y0 uy vy : ℝ) (terms : List (Nat × Nat × Rat)) :
    (ux * vy - uy * vx) * (∫ s in (0 : ℝ)..1, ∫ r in (0 : ℝ)..(1 - s),
        evalTermsR terms (x0 + ux * s + vx * r) (y0 + uy * s + vy * r)) =
      uy * (∫ s in (0 : ℝ)..1, evalTermsR (potTerms terms) (x0 + ux * s + vx * 0) (y0 + uy * s + vy * 0)) -
        vy * (∫ r in (0 : ℝ)..1, evalTermsR (potTerms terms) (x0 + ux * 0 + vx * r) (y0 + uy * 0 + vy * r)) +
        (vy - uy) * ∫ s in (0 : ℝ)..1,
          evalTermsR (potTerms terms) (x0 + ux * s + vx * (1 - s)) (y0 + uy * s + vy * (1 - s)) := by
  have hQ : ∀ s r : ℝ, evalTermsR terms (x0 + ux * s + vx * r) (y0 + uy * s + vy * r) =
      E2 (termsP (linP x0 ux vx) (linP y0 uy vy) terms) s r := by
    intro s r; rw [E2_termsP, E2_linP, E2_linP]
  have hP : ∀ s r : ℝ, evalTermsR (potTerms terms) (x0 + ux * s + vx * r) (y0 + uy * s + vy * r) =
      E2 (termsP (linP x0 ux vx) (linP y0 uy vy) (potTerms terms)) s r := by
    intro s r; rw [E2_termsP, E2_linP, E2_linP]
  simp only [hQ, hP]
  have e : ∀ s r : ℝ, (ux * vy - uy * vx) * E2 (termsP (linP x0 ux vx) (linP y0 uy vy) terms) s r =
      vy * E2 (pderiv 0 (termsP (linP x0 ux vx) (linP y0 uy vy) (potTerms terms))) s r -
        uy * E2 (pderiv 1 (termsP (linP x0 ux vx) (linP y0 uy vy) (potTerms terms))) s r := by
    intro s r
    rw [← E2_C_mul, ← green_id, E2_sub, E2_C_mul, E2_C_mul]
  have key : (ux * vy - uy * vx) * (∫ s in (0 : ℝ)..1, ∫ r in (0 : ℝ)..(1 - s),
      E2 (termsP (linP x0 ux vx) (linP y0 uy vy) terms) s r) =
      ∫ s in (0 : ℝ)..1, ∫ r in (0 : ℝ)..(1 - s),
        (vy * E2 (pderiv 0 (termsP (linP x0 ux vx) (linP y0 uy vy) (potTerms terms))) s r -
          uy * E2 (pderiv 1 (termsP (linP x0 ux vx) (linP y0 uy vy) (potTerms terms))) s r) := by
    rw [← intervalIntegral.integral_const_mul]
    simp only [← intervalIntegral.integral_const_mul, e]
  rw [key, simplex_lin, green_s, green_r]
  ring

/-! ### the sides: rational closed forms -/

/-- coefficient list of `(a0 + a1·τ)^n` -/
def linPow (a0 a1 : Rat) : Nat → List Rat
  | 0 => [1]
  | n + 1 => polyMul [a0, a1] (linPow a0 a1 n)

theorem evalPoly_linPow (a0 a1 : Rat) (n : Nat) (τ : Rat) :
    evalPoly (linPow a0 a1 n) τ = (a0 + a1 * τ) ^ n := by
  induction n with
  | zero => simp [linPow, evalPoly_cons]
  | succ n ih =>
    rw [linPow, evalPoly_polyMul, ih, pow_succ]
    simp only [evalPoly_cons, evalPoly_nil]
    ring

/-- coefficient list of `τ ↦ terms(a + τ·(b − a))` -/
def edgePoly (a b : Rat × Rat) : List (Nat × Nat × Rat) → List Rat
  | [] => []
  | tm :: ts =>
    polyAdd (polyScale tm.2.2 (polyMul (linPow a.1 (b.1 - a.1) tm.1) (linPow a.2 (b.2 - a.2) tm.2.1)))
      (edgePoly a b ts)

theorem evalPoly_edgePoly (a b : Rat × Rat) (terms : List (Nat × Nat × Rat)) (τ : Rat) :
    evalPoly (edgePoly a b terms) τ =
      evalTerms terms (a.1 + (b.1 - a.1) * τ) (a.2 + (b.2 - a.2) * τ) := by
  induction terms with
  | nil => simp [edgePoly]
  | cons tm ts ih =>
    rw [edgePoly, evalPoly_polyAdd, evalPoly_polyScale, evalPoly_polyMul, evalPoly_linPow,
      evalPoly_linPow, ih, evalTerms_cons]
    ring

theorem evalPolyR_edgePoly (a b : Rat × Rat) (terms : List (Nat × Nat × Rat)) (τ : ℝ) :
    evalPolyR (edgePoly a b terms) τ =
      evalTermsR terms ((a.1 : ℝ) + ((b.1 - a.1 : Rat) : ℝ) * τ) ((a.2 : ℝ) + ((b.2 - a.2 : Rat) : ℝ) * τ) := by
  have hc : Continuous fun τ : ℝ => evalTermsR terms ((a.1 : ℝ) + ((b.1 - a.1 : Rat) : ℝ) * τ)
      ((a.2 : ℝ) + ((b.2 - a.2 : Rat) : ℝ) * τ) := by
    have hg : Continuous fun τ : ℝ => (((a.1 : ℝ) + ((b.1 - a.1 : Rat) : ℝ) * τ,
        (a.2 : ℝ) + ((b.2 - a.2 : Rat) : ℝ) * τ) : ℝ × ℝ) := by fun_prop
    exact ((evalTermsR_continuous terms).comp hg :
      Continuous ((fun p : ℝ × ℝ => evalTermsR terms p.1 p.2) ∘ _))
  refine eq_of_eq_on_rat (F := fun τ => evalPolyR (edgePoly a b terms) τ) (evalPolyR_continuous _) hc
    (fun q => ?_) τ
  show evalPolyR (edgePoly a b terms) (q : ℝ) = _
  rw [evalPolyR_cast, evalPoly_edgePoly, ← evalTermsR_cast]
  push_cast
  rfl

/-- `∫_0^1 terms(a + τ·(b − a)) dτ` as a rational number -/
def edgeInt (terms : List (Nat × Nat × Rat)) (a b : Rat × Rat) : Rat := exactInt (edgePoly a b terms) 0 1

theorem edgeInt_real (terms : List (Nat × Nat × Rat)) (a b : Rat × Rat) :
    ((edgeInt terms a b : Rat) : ℝ) = ∫ τ in (0 : ℝ)..1,
      evalTermsR terms ((a.1 : ℝ) + ((b.1 - a.1 : Rat) : ℝ) * τ) ((a.2 : ℝ) + ((b.2 - a.2 : Rat) : ℝ) * τ) := by
  rw [edgeInt, ← integral_eq_exactInt]
  simp only [Rat.cast_zero, Rat.cast_one, evalPolyR_edgePoly]

/-- the integral along a side does not depend on the direction -/
theorem edgeInt_symm (terms : List (Nat × Nat × Rat)) (a b : Rat × Rat) :
    edgeInt terms b a = edgeInt terms a b := by
  apply Rat.cast_injective (α := ℝ)
  rw [edgeInt_real, edgeInt_real]
  have := intervalIntegral.integral_comp_sub_left (a := (0 : ℝ)) (b := 1)
    (fun τ : ℝ => evalTermsR terms ((a.1 : ℝ) + ((b.1 - a.1 : Rat) : ℝ) * τ)
      ((a.2 : ℝ) + ((b.2 - a.2 : Rat) : ℝ) * τ)) 1
  simp only [sub_self, sub_zero] at this
  rw [← this]
  apply intervalIntegral.integral_congr
  intro τ _
  simp only []
  congr 1 <;> push_cast <;> ring

/-- **the edge weight**: `∫_a^b F dy` for the `x`-antiderivative `F` of the polynomial -/
def omegaQ (terms : List (Nat × Nat × Rat)) (a b : Rat × Rat) : Rat :=
  (b.2 - a.2) * edgeInt (potTerms terms) a b

theorem omegaQ_swap (terms : List (Nat × Nat × Rat)) (a b : Rat × Rat) :
    omegaQ terms b a = - omegaQ terms a b := by
  unfold omegaQ
  rw [edgeInt_symm]
  ring

theorem triFactor_orient (t : (Rat × Rat) × (Rat × Rat) × (Rat × Rat)) :
    triFactor t = |Geo.orient t.1 t.2.1 t.2.2| := by
  obtain ⟨p0, p1, p2⟩ := t
  show Num.abs _ = _
  rw [numAbs_eq]
  unfold Geo.orient
  congr 1
  ring

/-- **Green's formula for a triangle**: the orientation determinant times the simplex integral is
    the sum of the edge weights around the triangle -/
theorem orient_mul_simplex (terms : List (Nat × Nat × Rat))
    (t : (Rat × Rat) × (Rat × Rat) × (Rat × Rat)) :
    ((Geo.orient t.1 t.2.1 t.2.2 : Rat) : ℝ) *
        (∫ s in (0 : ℝ)..1, ∫ r in (0 : ℝ)..(1 - s),
          evalTermsR terms (paramX t s r) (paramY t s r)) =
      ((omegaQ terms t.1 t.2.1 + omegaQ terms t.2.1 t.2.2 + omegaQ terms t.2.2 t.1 : Rat) : ℝ) := by
  obtain ⟨p0, p1, p2⟩ := t
  have h := simplex_green (p0.1 : ℝ) ((p1.1 - p0.1 : Rat) : ℝ) ((p2.1 - p0.1 : Rat) : ℝ)
    (p0.2 : ℝ) ((p1.2 - p0.2 : Rat) : ℝ) ((p2.2 - p0.2 : Rat) : ℝ) terms
  have e0 : ((Geo.orient p0 p1 p2 : Rat) : ℝ) =
      ((p1.1 - p0.1 : Rat) : ℝ) * ((p2.2 - p0.2 : Rat) : ℝ) -
        ((p1.2 - p0.2 : Rat) : ℝ) * ((p2.1 - p0.1 : Rat) : ℝ) := by
    unfold Geo.orient; push_cast; ring
  simp only [paramX, paramY]
  rw [e0, h]
  have j1 : ∫ s in (0 : ℝ)..1, evalTermsR (potTerms terms)
      ((p0.1 : ℝ) + ((p1.1 - p0.1 : Rat) : ℝ) * s + ((p2.1 - p0.1 : Rat) : ℝ) * 0)
      ((p0.2 : ℝ) + ((p1.2 - p0.2 : Rat) : ℝ) * s + ((p2.2 - p0.2 : Rat) : ℝ) * 0) =
      ((edgeInt (potTerms terms) p0 p1 : Rat) : ℝ) := by
    rw [edgeInt_real]
    simp only [mul_zero, add_zero]
  have j2 : ∫ r in (0 : ℝ)..1, evalTermsR (potTerms terms)
      ((p0.1 : ℝ) + ((p1.1 - p0.1 : Rat) : ℝ) * 0 + ((p2.1 - p0.1 : Rat) : ℝ) * r)
      ((p0.2 : ℝ) + ((p1.2 - p0.2 : Rat) : ℝ) * 0 + ((p2.2 - p0.2 : Rat) : ℝ) * r) =
      ((edgeInt (potTerms terms) p0 p2 : Rat) : ℝ) := by
    rw [edgeInt_real]
    simp only [mul_zero, add_zero]
  have j3 : ∫ s in (0 : ℝ)..1, evalTermsR (potTerms terms)
      ((p0.1 : ℝ) + ((p1.1 - p0.1 : Rat) : ℝ) * s + ((p2.1 - p0.1 : Rat) : ℝ) * (1 - s))
      ((p0.2 : ℝ) + ((p1.2 - p0.2 : Rat) : ℝ) * s + ((p2.2 - p0.2 : Rat) : ℝ) * (1 - s)) =
      ((edgeInt (potTerms terms) p2 p1 : Rat) : ℝ) := by
    rw [edgeInt_real]
    apply intervalIntegral.integral_congr
    intro s _
    simp only []
    congr 1 <;> push_cast <;> ring
  rw [j1, j2, j3]
  have e1 : omegaQ terms p2 p0 = - ((p2.2 - p0.2) * edgeInt (potTerms terms) p0 p2) := by
    rw [omegaQ_swap]; rfl
  have e2 : omegaQ terms p1 p2 = - ((p1.2 - p2.2) * edgeInt (potTerms terms) p2 p1) := by
    rw [omegaQ_swap]; rfl
  rw [e1, e2]
  unfold omegaQ
  push_cast
  ring

/-- the sum of the edge weights around a triangle -/
def triSum (terms : List (Nat × Nat × Rat)) (t : (Rat × Rat) × (Rat × Rat) × (Rat × Rat)) : Rat :=
  omegaQ terms t.1 t.2.1 + omegaQ terms t.2.1 t.2.2 + omegaQ terms t.2.2 t.1

/-- **the exact value of a triangle as a boundary sum**, for either orientation -/
theorem triExactQ_boundary (terms : List (Nat × Nat × Rat))
    (t : (Rat × Rat) × (Rat × Rat) × (Rat × Rat)) :
    (0 < Geo.orient t.1 t.2.1 t.2.2 → triExactQ terms t = triSum terms t) ∧
      (Geo.orient t.1 t.2.1 t.2.2 < 0 → triExactQ terms t = - triSum terms t) := by
  have h1 := triExactQ_terms terms t
  have h2 := orient_mul_simplex terms t
  rw [triFactor_orient] at h1
  constructor
  · intro h
    apply Rat.cast_injective (α := ℝ)
    rw [h1, abs_of_pos h, h2, triSum]
  · intro h
    apply Rat.cast_injective (α := ℝ)
    rw [h1, abs_of_neg h, Rat.cast_neg, neg_mul, h2, triSum, Rat.cast_neg]
end Cav.Acc3G
