/-
  The pure geometric tests of the sweep model on a non-degenerate triangle with finite
  (rational) corners `L < M < R` (lexicographic order): if the triangle `L M R` is
  counter-clockwise (`M` below the long edge) the tests of `FlowA` hold, if it is clockwise those
  of `FlowB`.  Vertical edges (`xl = xm` or `xm = xr`) are included.
-/
import Cav.Lemmas.TriEvents
import Cav.Thm.C15

set_option linter.unusedSimpArgs false
set_option linter.unusedVariables false

namespace Cav.TriGeom
open Cav Num Cav.Geo Cav.Sweep Cav.TriRun Cav.TriEvents

/-! ### `totalCmp`, `tieP` on `XQ` -/

theorem totalCmp_fin (a b : Rat) :
    Num.totalCmp (XQ.fin a) (XQ.fin b) = if a < b then .lt else if b < a then .gt else .eq := rfl

theorem totalCmp_self (a : XQ) : Num.totalCmp a a = .eq := by
  cases a with
  | fin q => simp [totalCmp_fin]
  | _ => decide +kernel

theorem totalCmp_fin_pinf (a : Rat) : Num.totalCmp (XQ.fin a) XQ.pinf = .lt := rfl

theorem tieP_fin (a : Rat) : tieP (XQ.fin a) = XQ.fin a := by
  unfold tieP
  have : Num.ofEq (XQ.fin a) (Num.inf : XQ) = false := rfl
  rw [this]; rfl

theorem cmpEdgeP_self (l r : Pt XQ) (x : XQ) : cmpEdgeP l r l r x = .eq := by
  unfold cmpEdgeP
  split
  · rfl
  · simp only [totalCmp_self]
    split <;> rfl

theorem ofGe_fin_pinf (a : Rat) : Num.ofGe (XQ.fin a) XQ.pinf = false := rfl

theorem cmpEdgeP_y_lt {la ra lb rb : Pt XQ} {x ya yb : Rat}
    (ha : yExtrap la ra (.fin x) true = .fin ya) (hb : yExtrap lb rb (.fin x) true = .fin yb)
    (h : ya < yb) : cmpEdgeP la ra lb rb (.fin x) = .lt := by
  unfold cmpEdgeP
  simp only [isFinite_fin, ha, hb, totalCmp_fin, h, if_true, Bool.not_true, Bool.false_eq_true,
    if_false]

theorem cmpEdgeP_y_gt {la ra lb rb : Pt XQ} {x ya yb : Rat}
    (ha : yExtrap la ra (.fin x) true = .fin ya) (hb : yExtrap lb rb (.fin x) true = .fin yb)
    (h : yb < ya) : cmpEdgeP la ra lb rb (.fin x) = .gt := by
  unfold cmpEdgeP
  simp only [isFinite_fin, ha, hb, totalCmp_fin, h, lt_asymm h, if_true, Bool.not_true,
    Bool.false_eq_true, if_false]

theorem cmpEdgeP_y_eq_tie {la ra lb rb : Pt XQ} {x y : Rat}
    (ha : yExtrap la ra (.fin x) true = .fin y) (hb : yExtrap lb rb (.fin x) true = .fin y)
    (h : (ra.eq rb && Num.ofEq ra.x (.fin x)) = false) :
    cmpEdgeP la ra lb rb (.fin x) = Num.totalCmp (tieP (la.grad ra)) (tieP (lb.grad rb)) := by
  unfold cmpEdgeP
  simp only [isFinite_fin, ha, hb, totalCmp_fin, lt_irrefl, h, Bool.not_true, Bool.false_eq_true,
    if_false]

theorem cmpEdgeP_y_eq_end {la ra lb rb : Pt XQ} {x y : Rat}
    (ha : yExtrap la ra (.fin x) true = .fin y) (hb : yExtrap lb rb (.fin x) true = .fin y)
    (h : (ra.eq rb && Num.ofEq ra.x (.fin x)) = true) :
    cmpEdgeP la ra lb rb (.fin x) = Num.totalCmp (lb.grad rb) (la.grad ra) := by
  unfold cmpEdgeP
  simp only [isFinite_fin, ha, hb, totalCmp_fin, lt_irrefl, h, Bool.not_true, Bool.false_eq_true,
    if_false, if_true]

theorem grad_fin_ne (a b c d : Rat) (h : c ≠ a) : (F a b).grad (F c d) = .fin ((d - b) / (c - a)) := by
  rw [grad_fin]; simp [h]

theorem grad_fin_up (a b d : Rat) (h : b < d) : (F a b).grad (F a d) = .pinf := by
  rw [grad_fin]; simp [lt_asymm h]

/-! ### `yExtrap` at the end points and in the interior of an edge -/

theorem yE_right (a b c d : Rat) (h : lexLt (a, b) (c, d)) :
    yExtrap (F a b) (F c d) (.fin c) true = .fin d := by
  have h' : ¬ lexLt (c, d) (a, b) := fun h2 => C15.lexLt_irrefl _ (C15.lexLt_trans h h2)
  rw [yExtrap_sorted a b c d c true h']
  unfold lexLt at h
  congr 1
  by_cases hac : c = a
  · simp [hac]
  · have : a < c := by grind
    simp [hac, not_le.mpr this]

theorem yE_left (a b c d : Rat) (h : a < c) :
    yExtrap (F a b) (F c d) (.fin a) true = .fin b := by
  have h' : ¬ lexLt (c, d) (a, b) := by unfold lexLt; simp; grind
  rw [yExtrap_sorted a b c d a true h']
  simp [ne_of_lt h]

theorem yE_mid (a b c d x : Rat) (h1 : a < x) (h2 : x < c) :
    yExtrap (F a b) (F c d) (.fin x) true =
      .fin ((1 - (x - a) / (c - a)) * b + (x - a) / (c - a) * d) := by
  have h' : ¬ lexLt (c, d) (a, b) := by unfold lexLt; simp; grind
  rw [yExtrap_sorted a b c d x true h']
  simp [ne_of_gt h1, not_le.mpr h1, not_le.mpr h2]


/-! ### the three slope / height comparisons in terms of the orientation determinant -/

section
variable (xl yl xm ym xr yr : Rat)

local notation "D" => orient (xl, yl) (xm, ym) (xr, yr)

theorem gLR_sub_gLM (h1 : xl < xm) (h2 : xl < xr) :
    (yr - yl) / (xr - xl) - (ym - yl) / (xm - xl) = D / ((xm - xl) * (xr - xl)) := by
  have a : xm - xl ≠ 0 := ne_of_gt (sub_pos.mpr h1)
  have b : xr - xl ≠ 0 := ne_of_gt (sub_pos.mpr h2)
  unfold orient
  field_simp

theorem gMR_sub_gLR (h1 : xm < xr) (h2 : xl < xr) :
    (yr - ym) / (xr - xm) - (yr - yl) / (xr - xl) = D / ((xr - xl) * (xr - xm)) := by
  have a : xr - xm ≠ 0 := ne_of_gt (sub_pos.mpr h1)
  have b : xr - xl ≠ 0 := ne_of_gt (sub_pos.mpr h2)
  unfold orient
  field_simp
  ring

theorem interp_sub_ym (h2 : xl < xr) :
    ((1 - (xm - xl) / (xr - xl)) * yl + (xm - xl) / (xr - xl) * yr) - ym = D / (xr - xl) := by
  have b : xr - xl ≠ 0 := ne_of_gt (sub_pos.mpr h2)
  unfold orient
  field_simp
  ring


theorem lexLt_asymm {p q : Rat × Rat} (h : lexLt p q) : ¬ lexLt q p :=
  fun h2 => C15.lexLt_irrefl _ (C15.lexLt_trans h h2)

theorem flowC (hLM : lexLt (xl, yl) (xm, ym)) (hMR : lexLt (xm, ym) (xr, yr)) :
    FlowC (F xl yl) (F xm ym) (F xr yr) := by
  have hLR : lexLt (xl, yl) (xr, yr) := C15.lexLt_trans hLM hMR
  refine
    { finL := rfl, finM := rfl
      sLMR := (C15.fromTriplet_start_fin _ _ _ _ _ _).mpr ⟨hLM, hLR⟩
      sLRM := (C15.fromTriplet_start_fin _ _ _ _ _ _).mpr ⟨hLR, hLM⟩
      bMLR := (C15.fromTriplet_bend_fin _ _ _ _ _ _).mpr (Or.inl ⟨hLM, hMR⟩)
      bMRL := (C15.fromTriplet_bend_fin _ _ _ _ _ _).mpr (Or.inr ⟨hLM, hMR⟩)
      eRLM := (C15.fromTriplet_end_fin _ _ _ _ _ _).mpr ⟨hLR, hMR⟩
      eRML := (C15.fromTriplet_end_fin _ _ _ _ _ _).mpr ⟨hMR, hLR⟩
      cMR := (Geo.Pt.cmp_fin_lt _ _ _ _).mpr hMR
      cRM := (Geo.Pt.cmp_fin_gt _ _ _ _).mpr hMR
      cRR := (Geo.Pt.cmp_fin_eq _ _ _ _).mpr ⟨rfl, rfl⟩
      geLR := ?_, geRL := ?_, xRR := ?_, vcross := ?_ }
  · cases h : (F xl yl).ge (F xr yr) with
    | false => rfl
    | true => exact absurd hLR ((C15.Pt.ge_fin _ _ _ _).mp h)
  · exact (C15.Pt.ge_fin _ _ _ _).mpr (lexLt_asymm hLR)
  · simp
  · intro hx
    simp only [F_x, ofEq_fin, decide_eq_true_eq] at hx
    subst hx
    simp only [F_x, F_y]
    rw [yE_right xl yl xr yr hLR]
    simp


theorem flowA (hLM : lexLt (xl, yl) (xm, ym)) (hMR : lexLt (xm, ym) (xr, yr)) (hD : 0 < D) :
    FlowA (F xl yl) (F xm ym) (F xr yr) := by
  have hLR : lexLt (xl, yl) (xr, yr) := C15.lexLt_trans hLM hMR
  have hC := flowC xl yl xm ym xr yr hLM hMR
  have hx1 : xl < xm := by
    unfold lexLt at hLM hMR; unfold orient at hD; simp only at hLM hMR hD
    rcases hLM with h | ⟨h, h'⟩
    · exact h
    · exfalso
      subst h
      rcases hMR with g | ⟨g, g'⟩
      · nlinarith [mul_pos (sub_pos.mpr h') (sub_pos.mpr g)]
      · subst g; simp at hD
  have hx2 : xm ≤ xr := by
    unfold lexLt at hMR; simp only at hMR; rcases hMR with g | ⟨g, -⟩ <;> linarith
  have hx3 : xl < xr := lt_of_lt_of_le hx1 hx2
  have hMRne : ((F xm ym).eq (F xr yr)) = false := by
    rw [Geo.Pt.eq_fin]; simp only [decide_eq_false_iff_not]
    rintro ⟨rfl, rfl⟩; exact C15.lexLt_irrefl _ hMR
  have hRMne : ((F xr yr).eq (F xm ym)) = false := by
    rw [Geo.Pt.eq_fin]; simp only [decide_eq_false_iff_not]
    rintro ⟨rfl, rfl⟩; exact C15.lexLt_irrefl _ hMR
  have hg1 : (ym - yl) / (xm - xl) < (yr - yl) / (xr - xl) := by
    have := gLR_sub_gLM xl yl xm ym xr yr hx1 hx3
    have : 0 < D / ((xm - xl) * (xr - xl)) :=
      div_pos hD (mul_pos (sub_pos.mpr hx1) (sub_pos.mpr hx3))
    linarith
  refine { hC with s1 := ?_, s2 := ?_, wt := ?_, g := ?_, r1 := ?_, r2 := ?_, r3 := ?_, cw := ?_ }
  · rw [F_x, cmpEdgeP_y_eq_tie (yE_left xl yl xm ym hx1) (yE_left xl yl xr yr hx3) (by simp [hMRne]),
      grad_fin_ne _ _ _ _ (ne_of_gt hx1), grad_fin_ne _ _ _ _ (ne_of_gt hx3), tieP_fin, tieP_fin,
      totalCmp_fin, if_pos hg1]
  · rw [F_x, cmpEdgeP_y_eq_tie (yE_left xl yl xr yr hx3) (yE_left xl yl xm ym hx1) (by simp [hRMne]),
      grad_fin_ne _ _ _ _ (ne_of_gt hx1), grad_fin_ne _ _ _ _ (ne_of_gt hx3), tieP_fin, tieP_fin,
      totalCmp_fin, if_neg (lt_asymm hg1), if_pos hg1]
  · simp only [F_x]
    rw [yE_right _ _ _ _ hMR, yE_right _ _ _ _ hLR]
    simp
  · rcases lt_or_eq_of_le hx2 with h | h
    · rw [grad_fin_ne _ _ _ _ (ne_of_gt hx3), grad_fin_ne _ _ _ _ (ne_of_gt h), ofGe_fin]
      have := gMR_sub_gLR xl yl xm ym xr yr h hx3
      have : 0 < D / ((xr - xl) * (xr - xm)) :=
        div_pos hD (mul_pos (sub_pos.mpr hx3) (sub_pos.mpr h))
      simp only [decide_eq_false_iff_not, not_le]
      linarith
    · subst h
      have hy : ym < yr := by unfold lexLt at hMR; simpa using hMR
      rw [grad_fin_ne _ _ _ _ (ne_of_gt hx3), grad_fin_up _ _ _ hy, ofGe_fin_pinf]
  · exact cmpEdgeP_self _ _ _
  · rcases lt_or_eq_of_le hx2 with h | h
    · rw [F_x]
      refine cmpEdgeP_y_lt (yE_left xm ym xr yr h) (yE_mid xl yl xr yr xm hx1 h) ?_
      have := interp_sub_ym xl yl xm ym xr yr hx3
      have : 0 < D / (xr - xl) := div_pos hD (sub_pos.mpr hx3)
      linarith
    · subst h
      have hy : ym < yr := by unfold lexLt at hMR; simpa using hMR
      rw [F_x, cmpEdgeP_y_eq_end (yE_right _ _ _ _ hMR) (yE_right _ _ _ _ hLR) (by simp [Pt.eq]),
        grad_fin_ne _ _ _ _ (ne_of_gt hx3), grad_fin_up _ _ _ hy, totalCmp_fin_pinf]
  · exact cmpEdgeP_self _ _ _
  · refine (clockwiseSign_c_iff _ _ _ _ _ _).mpr (Or.inl ?_)
    have : orient (xm, ym) (xl, yl) (xr, yr) = - D := by unfold orient; ring
    linarith


theorem flowB (hLM : lexLt (xl, yl) (xm, ym)) (hMR : lexLt (xm, ym) (xr, yr)) (hD : D < 0) :
    FlowB (F xl yl) (F xm ym) (F xr yr) := by
  have hLR : lexLt (xl, yl) (xr, yr) := C15.lexLt_trans hLM hMR
  have hC := flowC xl yl xm ym xr yr hLM hMR
  have hx2 : xm < xr := by
    unfold lexLt at hLM hMR; unfold orient at hD; simp only at hLM hMR hD
    rcases hMR with h | ⟨h, h'⟩
    · exact h
    · exfalso
      subst h
      rcases hLM with g | ⟨g, g'⟩
      · nlinarith [mul_pos (sub_pos.mpr h') (sub_pos.mpr g)]
      · subst g; simp at hD
  have hx1 : xl ≤ xm := by
    unfold lexLt at hLM; simp only at hLM; rcases hLM with g | ⟨g, -⟩ <;> linarith
  have hx3 : xl < xr := lt_of_le_of_lt hx1 hx2
  have hMRne : ((F xm ym).eq (F xr yr)) = false := by
    rw [Geo.Pt.eq_fin]; simp only [decide_eq_false_iff_not]
    rintro ⟨rfl, rfl⟩; exact C15.lexLt_irrefl _ hMR
  have hRMne : ((F xr yr).eq (F xm ym)) = false := by
    rw [Geo.Pt.eq_fin]; simp only [decide_eq_false_iff_not]
    rintro ⟨rfl, rfl⟩; exact C15.lexLt_irrefl _ hMR
  refine { hC with s1 := ?_, s2 := ?_, wb := ?_, g := ?_, r1 := ?_, r2 := ?_, r3 := ?_, cw := ?_ }
  · rcases lt_or_eq_of_le hx1 with h | h
    · have hg1 : (yr - yl) / (xr - xl) < (ym - yl) / (xm - xl) := by
        have := gLR_sub_gLM xl yl xm ym xr yr h hx3
        have : D / ((xm - xl) * (xr - xl)) < 0 :=
          div_neg_of_neg_of_pos hD (mul_pos (sub_pos.mpr h) (sub_pos.mpr hx3))
        linarith
      rw [F_x, cmpEdgeP_y_eq_tie (yE_left xl yl xr yr hx3) (yE_left xl yl xm ym h) (by simp [hRMne]),
        grad_fin_ne _ _ _ _ (ne_of_gt h), grad_fin_ne _ _ _ _ (ne_of_gt hx3), tieP_fin, tieP_fin,
        totalCmp_fin, if_pos hg1]
    · subst h
      have hy : yl < ym := by unfold lexLt at hLM; simpa using hLM
      rw [F_x]
      exact cmpEdgeP_y_lt (yE_left xl yl xr yr hx3) (yE_right _ _ _ _ hLM) hy
  · rcases lt_or_eq_of_le hx1 with h | h
    · have hg1 : (yr - yl) / (xr - xl) < (ym - yl) / (xm - xl) := by
        have := gLR_sub_gLM xl yl xm ym xr yr h hx3
        have : D / ((xm - xl) * (xr - xl)) < 0 :=
          div_neg_of_neg_of_pos hD (mul_pos (sub_pos.mpr h) (sub_pos.mpr hx3))
        linarith
      rw [F_x, cmpEdgeP_y_eq_tie (yE_left xl yl xm ym h) (yE_left xl yl xr yr hx3) (by simp [hMRne]),
        grad_fin_ne _ _ _ _ (ne_of_gt h), grad_fin_ne _ _ _ _ (ne_of_gt hx3), tieP_fin, tieP_fin,
        totalCmp_fin, if_neg (lt_asymm hg1), if_pos hg1]
    · subst h
      have hy : yl < ym := by unfold lexLt at hLM; simpa using hLM
      rw [F_x]
      exact cmpEdgeP_y_gt (yE_right _ _ _ _ hLM) (yE_left xl yl xr yr hx3) hy
  · simp only [F_x]
    rw [yE_right _ _ _ _ hMR, yE_right _ _ _ _ hLR]
    simp
  · rw [grad_fin_ne _ _ _ _ (ne_of_gt hx3), grad_fin_ne _ _ _ _ (ne_of_gt hx2), ofGe_fin]
    have := gMR_sub_gLR xl yl xm ym xr yr hx2 hx3
    have : D / ((xr - xl) * (xr - xm)) < 0 :=
      div_neg_of_neg_of_pos hD (mul_pos (sub_pos.mpr hx3) (sub_pos.mpr hx2))
    simp only [decide_eq_true_eq]
    linarith
  · exact cmpEdgeP_self _ _ _
  · rw [F_x]
    rcases lt_or_eq_of_le hx1 with h | h
    · refine cmpEdgeP_y_lt (yE_mid xl yl xr yr xm h hx2) (yE_left xm ym xr yr hx2) ?_
      have := interp_sub_ym xl yl xm ym xr yr hx3
      have : D / (xr - xl) < 0 := div_neg_of_neg_of_pos hD (sub_pos.mpr hx3)
      linarith
    · subst h
      have hy : yl < ym := by unfold lexLt at hLM; simpa using hLM
      exact cmpEdgeP_y_lt (yE_left xl yl xr yr hx3) (yE_left xl ym xr yr hx2) hy
  · exact cmpEdgeP_self _ _ _
  · exact (clockwiseSign_c_iff _ _ _ _ _ _).mpr (Or.inl hD)

end

end Cav.TriGeom
