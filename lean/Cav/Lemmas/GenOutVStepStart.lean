/-
  Output of the sweep WITHOUT the hypothesis of distinct abscissae, part 2: the Start event.
  EXPLICIT versions of the step theorems of `GenVStepW.lean` (every event keeps `InvV`, vertical
  edges allowed).  The proofs are copies; the statements additionally export the position of the
  event in the list of in-intervals, the new list, the new chain cells and the intermediate runs
  that produce the new node heap and output (`BendLoV`, … of `GenOutVDefs.lean`), exactly as
  `GenOutStep*.lean` do for `GenStep*.lean`.
-/
import Cav.Lemmas.GenVStepW
import Cav.Lemmas.GenOutVDefs
import Cav.Lemmas.GenOutVRunSplit

set_option linter.unusedSimpArgs false
set_option linter.unusedVariables false

namespace Cav.GenOutVStep
open Cav Num Cav.Geo Cav.Sweep Cav.TriRun Cav.QuadRun Cav.QuadGeom Cav.CvxFlows Cav.SweepOut
open Cav.GenNodes Cav.GenQuery Cav.GenGeom Cav.GenBend Cav.GenInv Cav.GenQueue Cav.GenOrder
open Cav.GenLinks Cav.GenStepBend Cav.GenStepEnd Cav.GenEnd Cav.TriGeom Cav.GenStart Cav.TriEvents
open Cav.GenStepStart Cav.GenStep Cav.GenVShear Cav.GenVBridge Cav.GenVInv Cav.GenVHeap Cav.GenVStep
open Cav.GenVStepW Cav.GenOutV Cav.GenOutVRun

variable {R : RingQ} {ε : Rat} {Vε : Array (Vtx XQ)}

/-- **the proper Start keeps the invariant** -/
theorem stepW_start_proper_x (hSh : ShOK R ε Vε) {s : St XQ} {xs X : Rat} {pre post : List IV}
    (hI : InvV R ε s xs X (pre ++ post))
    {w : Nat} {es : List Nat} {rest : List (Nat × List Nat)} (hev : s.events = (w, es) :: rest)
    {wB wT : Nat} (hnb : (R.prv w = wB ∧ R.nxt w = wT) ∨ (R.prv w = wT ∧ R.nxt w = wB))
    (hxB : (shearRing ε R).x w < (shearRing ε R).x wB) (hxT : (shearRing ε R).x w < (shearRing ε R).x wT)
    (hPlow : ∀ a ∈ flatE pre, hY (shearRing ε R) a ((shearRing ε R).x w) < (R.pt w).2)
    (hQhigh : ∀ a ∈ flatE post, (R.pt w).2 < hY (shearRing ε R) a ((shearRing ε R).x w))
    (g3 : ∀ a ∈ flatE pre ++ flatE post, Span (shearRing ε R) ((shearRing ε R).x w) a)
    (g4 : (flatE pre ++ flatE post).Pairwise (fun a b => hY (shearRing ε R) a ((shearRing ε R).x w) < hY (shearRing ε R) b ((shearRing ε R).x w)))
    (g5 : ∀ a ∈ flatE pre ++ (⟨s.edges.size, w, wB⟩ : AE) :: (⟨s.edges.size + 1, w, wT⟩ : AE) :: flatE post,
      Span (shearRing ε R) ((shearRing ε R).x w) a)
    (g6 : (flatE pre ++ (⟨s.edges.size, w, wB⟩ : AE) :: (⟨s.edges.size + 1, w, wT⟩ : AE) :: flatE post).Pairwise
      (Below (shearRing ε R) ((shearRing ε R).x w)))
    (g7 : QCore (shearRing ε R) ((shearRing ε R).x w)
      (flatE pre ++ (⟨s.edges.size, w, wB⟩ : AE) :: (⟨s.edges.size + 1, w, wT⟩ : AE) :: flatE post)
      (qAdd (shearRing ε R) wT (s.edges.size + 1) (qAdd (shearRing ε R) wB s.edges.size rest)))
    (g8 : Cross (shearRing ε R) ((shearRing ε R).x w)
      (flatE pre ++ (⟨s.edges.size, w, wB⟩ : AE) :: (⟨s.edges.size + 1, w, wT⟩ : AE) :: flatE post)) :
    StartProperV R ε s pre post w wB wT := by
  have hR := hSh.ring
  have hN := hSh.nocross
  have hq := hI.q
  rw [hev, flatE_append] at hq
  have hwq := hq.gt (w, es) List.mem_cons_self
  have hwn : w < R.n := hwq.1
  obtain ⟨hBn, hTn, hadjB, hadjT, hBT, hnbrs⟩ := start_nbrs hR hwn hnb
  have hid := hq.idinj
  obtain ⟨t1, t2, t3, t4, t5, t6, t7⟩ := startW_tests hSh (cpl_at hSh hwn) hid g5 g6
  have hG := ids_eg hI.lk hI.q.idinj
  rw [flatE_append, List.map_append] at hG
  rw [List.map_append] at t5
  have hact : s.active = (flatE pre).map (·.id) ++ (flatE post).map (·.id) := by
    rw [hI.act, flatE_append, List.map_append]
  have hevs : ∀ a ∈ rest, a.1 < s.verts.size := by
    intro a ha
    rw [hI.vget.1]
    exact (hq.gt a (List.mem_cons_of_mem _ ha)).1
  have hlk := hI.lk
  rw [linked_append] at hlk
  obtain ⟨hlpre, hlpost⟩ := hlk
  have hmemP : ∀ x ∈ flatE pre, x ∈ flatE pre ++ flatE post := fun x hx => List.mem_append_left _ hx
  have hmemQ : ∀ x ∈ flatE post, x ∈ flatE pre ++ flatE post := fun x hx => List.mem_append_right _ hx
  have hyB : hY (shearRing ε R) (⟨s.edges.size, w, wB⟩ : AE) ((shearRing ε R).x w) = (R.pt w).2 := lineY_left _ _
  have hyT : hY (shearRing ε R) (⟨s.edges.size + 1, w, wT⟩ : AE) ((shearRing ε R).x w) = (R.pt w).2 := lineY_left _ _
  have hnd : (flatE pre ++ flatE post).Nodup := by
    have := nodup_of_pairwise_below hI.sorted
    rw [flatE_append] at this; exact this
  have hprepost : ∀ x ∈ flatE pre, ∀ y ∈ flatE post, x.id ≠ y.id := by
    intro x hx y hy e
    have := hid x (hmemP x hx) y (hmemQ y hy) e
    subst this
    rw [List.nodup_append] at hnd
    exact hnd.2.2 x hx x hy rfl
  have hidlt : ∀ a ∈ flatE pre ++ flatE post, a.id < s.edges.size := by
    intro a ha
    rw [← flatE_append] at ha
    obtain ⟨e, he, -⟩ := Linked.eg hI.lk a ha
    exact lt_of_get' he
  have hbb : ∀ bb, ((flatE pre).map (·.id)).getLast? = some bb → ∃ cbb, s.edges[bb]? = some cbb ∧
      cbb.bofIn = false ∧ wobP (Fq (R.pt w)) (Fq (R.pt wB)) (Lf R (flatE pre ++ flatE post) bb)
        (Rf R (flatE pre ++ flatE post) bb) = false := by
    intro bb h
    rw [ids_getLast] at h
    obtain ⟨pre', ivb, e1, rfl⟩ := lastHi_eq_some h
    obtain ⟨_, _, -, hcb, -⟩ := Linked.mem hlpre ivb (by rw [e1]; simp)
    have hm : ivb.hi ∈ flatE pre := by rw [e1]; simp
    refine ⟨_, hcb, rfl, ?_⟩
    rw [Lf_id hid (hmemP _ hm), Rf_id hid (hmemP _ hm)]
    exact wobW hSh (cpl_at hSh hwn) (lo := ivb.hi) (up := ⟨s.edges.size, w, wB⟩)
      (g3 _ (hmemP _ hm)) (g5 _ (by simp)) (by rw [hyB]; exact hPlow _ hm)
      (fun e => lv_ne_of_height (R := shearRing ε R) (ne_of_lt (hPlow _ hm)) e.1)
  have htt : ∀ tt, ((flatE post).map (·.id)).head? = some tt → ∃ ctt, s.edges[tt]? = some ctt ∧
      ctt.bofIn = true ∧ wotP (Fq (R.pt w)) (Fq (R.pt wT)) (Lf R (flatE pre ++ flatE post) tt)
        (Rf R (flatE pre ++ flatE post) tt) = false := by
    intro tt h
    rw [ids_head] at h
    obtain ⟨ivt, post', e1, rfl⟩ := nxtLo_eq_some h
    obtain ⟨_, _, hct, -, -⟩ := Linked.mem hlpost ivt (by rw [e1]; simp)
    have hm : ivt.lo ∈ flatE post := by rw [e1]; simp
    refine ⟨_, hct, rfl, ?_⟩
    rw [Lf_id hid (hmemQ _ hm), Rf_id hid (hmemQ _ hm)]
    exact wotW hSh (cpl_at hSh hwn) (lo := ⟨s.edges.size + 1, w, wT⟩) (up := ivt.lo)
      (g5 _ (by simp)) (g3 _ (hmemQ _ hm)) (by rw [hyT]; exact hQhigh _ hm)
      (fun e => lv_ne_of_height (R := shearRing ε R) (ne_of_gt (hQhigh _ hm)) e.1.symm)
  have hpc : ∀ bb tt, ((flatE pre).map (·.id)).getLast? = some bb →
      ((flatE post).map (·.id)).head? = some tt → bb ≠ tt ∧
      partialCmpEdgeP (Lf R (flatE pre ++ flatE post) bb) (Rf R (flatE pre ++ flatE post) bb)
        (Lf R (flatE pre ++ flatE post) tt) (Rf R (flatE pre ++ flatE post) tt) (.fin (R.x w)) = some .lt := by
    intro bb tt h1 h2
    rw [ids_getLast] at h1
    rw [ids_head] at h2
    obtain ⟨pre', ivb, e1, rfl⟩ := lastHi_eq_some h1
    obtain ⟨ivt, post', e2, rfl⟩ := nxtLo_eq_some h2
    have hm1 : ivb.hi ∈ flatE pre := by rw [e1]; simp
    have hm2 : ivt.lo ∈ flatE post := by rw [e2]; simp
    refine ⟨hprepost _ hm1 _ hm2, ?_⟩
    rw [Lf_id hid (hmemP _ hm1), Rf_id hid (hmemP _ hm1), Lf_id hid (hmemQ _ hm2), Rf_id hid (hmemQ _ hm2)]
    have s1 := g3 _ (hmemP _ hm1)
    have s2 := g3 _ (hmemQ _ hm2)
    exact partialCmp_lt _ _ _ _ _ (belowW_pt hSh hwn s1 (hPlow _ hm1)).1 (aboveW_pt hSh hwn s2 (hQhigh _ hm2)).1
      (span_orig (cpl_at hSh hwn) s1).1 (span_orig (cpl_at hSh hwn) s1).2
      (span_orig (cpl_at hSh hwn) s2).1 (span_orig (cpl_at hSh hwn) s2).2
      (lt_trans (belowW_pt hSh hwn s1 (hPlow _ hm1)).2 (aboveW_pt hSh hwn s2 (hQhigh _ hm2)).2)
  have hvc := vicfree_start (iB := s.edges.size) (iT := s.edges.size + 1) hSh hwn hBn hTn hadjT hxB hxT hid
    hPlow hQhigh g3 g6
  obtain ⟨E', hrun, hPE⟩ := start_run_properV s w (R.prv w) (R.nxt w) wB wT _ _ _ _ es rest
    (Fq (R.pt w)) (Fq (R.pt wB)) (Fq (R.pt wT)) ((flatE pre).map (·.id)) ((flatE post).map (·.id))
    (Lf R (flatE pre ++ flatE post)) (Rf R (flatE pre ++ flatE post)) hev (hI.vget.2 w hwn) hnb
    (hI.vget.2 wB hBn) (hI.vget.2 wT hTn) (ftV_start hSh hwn hBn hTn hxB hxT) (ftV_start hSh hwn hTn hBn hxT hxB)
    hvc.1 hvc.2 t6 t7 hevs hI.mono hact hG t1 t2 t3 t4 t5
    (fun k _ => TriGeom.cmpEdgeP_self _ _ _) hbb htt hpc
  rw [ids_getLast, ids_head] at hPE
  refine ⟨hPlow, hQhigh, _, hrun, rfl, rfl, rfl, ?_⟩
  have hflat' : flatE (pre ++ (⟨⟨s.edges.size, w, wB⟩, ⟨s.edges.size + 1, w, wT⟩, s.chains.size⟩ : IV) :: post) =
      flatE pre ++ (⟨s.edges.size, w, wB⟩ : AE) :: (⟨s.edges.size + 1, w, wT⟩ : AE) :: flatE post := by simp
  have hcilt : ∀ j ∈ pre ++ post, j.ci < s.chains.size := by
    intro j hj
    obtain ⟨_, _, -, -, c, hc, -⟩ := Linked.mem hI.lk j hj
    exact lt_of_get' hc
  have hptN : ∀ i, i < s.nodes.size → ptAt (s.nodes.push ⟨Fq (R.pt w), none, none⟩) i = ptAt s.nodes i :=
    fun i hi => ptAt_push_lt _ _ hi
  have hszN : s.nodes.size ≤ (s.nodes.push ⟨Fq (R.pt w), none, none⟩).size := by
    rw [Array.size_push]; omega
  have hchain : ∀ j ∈ pre ++ post,
      (s.chains.push ⟨s.nodes.size, s.nodes.size, s.nodes.size⟩)[j.ci]? = s.chains[j.ci]? := by
    intro j hj
    have := hcilt j hj
    rw [Array.getElem?_push_lt this, ← Array.getElem?_eq_getElem this]
  refine ⟨hI.vget, hI.mono, fun _ => rfl, ?_, ?_, ?_, ?_, ?_, ?_, ?_, ?_, cpl_at hSh hwn⟩
  · show (flatE pre).map (·.id) ++ s.edges.size :: (s.edges.size + 1) :: (flatE post).map (·.id) = _
    rw [hflat']; simp
  · have := hI.cind
    rw [List.map_append] at this
    rw [List.map_append, List.map_cons]
    have hfresh : s.chains.size ∉ pre.map (·.ci) ++ post.map (·.ci) := by
      intro hm
      rw [← List.map_append] at hm
      obtain ⟨j, hj, e⟩ := List.mem_map.mp hm
      have := hcilt j hj
      omega
    rw [List.nodup_append] at this ⊢
    obtain ⟨n1, n2, n3⟩ := this
    refine ⟨n1, List.nodup_cons.mpr ⟨fun h => hfresh (List.mem_append_right _ h), n2⟩, ?_⟩
    intro a ha b hb
    rcases List.mem_cons.mp hb with rfl | hb
    · rintro rfl
      exact hfresh (List.mem_append_left _ ha)
    · exact n3 a ha b hb
  · rw [linked_append]
    constructor
    · -- the in-intervals below
      show Linked _ R none pre (some s.edges.size)
      refine Linked.set_above hlpre ?_ ?_ hszN hptN ?_
      · intro j hj
        have hjm := mem_flatE_of hj
        refine ⟨hPE.fr _ (hidlt _ (hmemP _ hjm.1)) ?_ ?_, hchain j (List.mem_append_left _ hj)⟩
        · intro e
          obtain ⟨pre', ivb, e1, e2⟩ := lastHi_eq_some e
          exact Linked.lo_ne_hi hlpre (j := j) (k := ivb) hj (by rw [e1]; simp) e2
        · intro e
          obtain ⟨ivt, post', e1, e2⟩ := nxtLo_eq_some e
          exact hprepost _ hjm.1 ivt.lo (by rw [e1]; simp) e2
      · intro j hj
        have hjpre : j ∈ pre := List.mem_of_mem_dropLast hj
        have hjm := mem_flatE_of hjpre
        refine hPE.fr _ (hidlt _ (hmemP _ hjm.2)) ?_ ?_
        · intro e
          obtain ⟨pre', ivb, e1, e2⟩ := lastHi_eq_some e
          rw [e1, List.dropLast_concat] at hj
          have hndpre : (flatE pre' ++ ivb.lo :: ivb.hi :: ([] : List AE)).Nodup := by
            have := (List.nodup_append.mp hnd).1
            rw [e1] at this
            simpa using this
          have := (nodup_mid hndpre).2 j.hi (by simpa using (mem_flatE_of hj).2)
          apply this.2
          exact hid _ (hmemP _ hjm.2) _ (hmemP _ (by rw [e1]; simp)) e2
        · intro e
          obtain ⟨ivt, post', e1, e2⟩ := nxtLo_eq_some e
          exact hprepost _ hjm.2 ivt.lo (by rw [e1]; simp) e2
      · intro pre' ivb e1
        have hcb : ECell s R ivb.hi ivb.ci false (some ivb.lo.id) (nxtLo post none) := by
          have := hlpre
          rw [e1, linked_append] at this
          exact this.2.2.1
        exact hPE.bb ivb.hi.id _ (by rw [e1, lastHi_snoc]) hcb
    · refine ⟨?_, ?_, ?_, ?_⟩
      · exact hPE.bot
      · show E'[s.edges.size + 1]? = _
        rw [hPE.top]
      · refine ⟨_, Array.getElem?_push_size, ?_, ptAt_push_size _ _, ptAt_push_size _ _⟩
        show s.nodes.size < (s.nodes.push _).size
        rw [Array.size_push]; omega
      · -- the in-intervals above
        refine Linked.set_below hlpost ?_ ?_ hszN hptN ?_
        · intro j hj
          have hjm := mem_flatE_of hj
          refine ⟨hPE.fr _ (hidlt _ (hmemQ _ hjm.2)) ?_ ?_, hchain j (List.mem_append_right _ hj)⟩
          · intro e
            obtain ⟨pre', ivb, e1, e2⟩ := lastHi_eq_some e
            exact hprepost ivb.hi (by rw [e1]; simp) _ hjm.2 e2.symm
          · intro e
            obtain ⟨ivt, post', e1, e2⟩ := nxtLo_eq_some e
            exact Linked.lo_ne_hi hlpost (j := ivt) (k := j) (by rw [e1]; simp) hj e2.symm
        · intro j hj
          have hjpost : j ∈ post := List.mem_of_mem_tail hj
          have hjm := mem_flatE_of hjpost
          refine hPE.fr _ (hidlt _ (hmemQ _ hjm.1)) ?_ ?_
          · intro e
            obtain ⟨pre', ivb, e1, e2⟩ := lastHi_eq_some e
            exact hprepost ivb.hi (by rw [e1]; simp) _ hjm.1 e2.symm
          · intro e
            obtain ⟨ivt, post', e1, e2⟩ := nxtLo_eq_some e
            rw [e1, List.tail_cons] at hj
            have hndpost : (([] : List AE) ++ ivt.lo :: ivt.hi :: flatE post').Nodup := by
              have := (List.nodup_append.mp hnd).2.1
              rw [e1] at this
              simpa using this
            have := (nodup_mid hndpost).2 j.lo (by simpa using (mem_flatE_of hj).1)
            apply this.1
            exact hid _ (hmemQ _ hjm.1) _ (hmemQ _ (by rw [e1]; simp)) e2
        · intro ivt post' e1
          have hct : ECell s R ivt.lo ivt.ci true (lastHi pre none) (some ivt.hi.id) := by
            have := hlpost
            rw [e1] at this
            exact this.1
          exact hPE.tt ivt.lo.id _ (by rw [e1]; rfl) hct
  · exact nodesOk_push hI.nok _ (oLt_none _) (oLt_none _)
  · rw [hflat']; exact g5
  · rw [hflat']; exact g6
  · rw [hflat']
    show QCore (shearRing ε R) ((shearRing ε R).x w) _ (evAdd s.verts (Fq (R.pt wT)) wT (s.edges.size + 1)
      (evAdd s.verts (Fq (R.pt wB)) wB s.edges.size rest))
    rw [startV_events hSh hI.vget hq hBn hTn]
    exact g7
  · rw [hflat']; exact g8

/-- **the improper Start keeps the invariant** -/
theorem stepW_start_split_x (hSh : ShOK R ε Vε) {s : St XQ} {xs X : Rat} {pre post : List IV} {iv : IV}
    (hI : InvV R ε s xs X (pre ++ iv :: post))
    {w : Nat} {es : List Nat} {rest : List (Nat × List Nat)} (hev : s.events = (w, es) :: rest)
    {wB wT : Nat} (hnb : (R.prv w = wB ∧ R.nxt w = wT) ∨ (R.prv w = wT ∧ R.nxt w = wB))
    (hxB : (shearRing ε R).x w < (shearRing ε R).x wB) (hxT : (shearRing ε R).x w < (shearRing ε R).x wT)
    (hPlow : ∀ a ∈ flatE pre ++ [iv.lo], hY (shearRing ε R) a ((shearRing ε R).x w) < (R.pt w).2)
    (hQhigh : ∀ a ∈ iv.hi :: flatE post, (R.pt w).2 < hY (shearRing ε R) a ((shearRing ε R).x w))
    (g3 : ∀ a ∈ (flatE pre ++ [iv.lo]) ++ iv.hi :: flatE post, Span (shearRing ε R) ((shearRing ε R).x w) a)
    (g5 : ∀ a ∈ (flatE pre ++ [iv.lo]) ++ (⟨s.edges.size, w, wB⟩ : AE) :: (⟨s.edges.size + 1, w, wT⟩ : AE) ::
      (iv.hi :: flatE post), Span (shearRing ε R) ((shearRing ε R).x w) a)
    (g6 : ((flatE pre ++ [iv.lo]) ++ (⟨s.edges.size, w, wB⟩ : AE) :: (⟨s.edges.size + 1, w, wT⟩ : AE) ::
      (iv.hi :: flatE post)).Pairwise (Below (shearRing ε R) ((shearRing ε R).x w)))
    (g7 : QCore (shearRing ε R) ((shearRing ε R).x w)
      ((flatE pre ++ [iv.lo]) ++ (⟨s.edges.size, w, wB⟩ : AE) :: (⟨s.edges.size + 1, w, wT⟩ : AE) ::
        (iv.hi :: flatE post))
      (qAdd (shearRing ε R) wT (s.edges.size + 1) (qAdd (shearRing ε R) wB s.edges.size rest)))
    (g8 : Cross (shearRing ε R) ((shearRing ε R).x w)
      ((flatE pre ++ [iv.lo]) ++ (⟨s.edges.size, w, wB⟩ : AE) :: (⟨s.edges.size + 1, w, wT⟩ : AE) ::
        (iv.hi :: flatE post))) :
    StartSplitV R ε s pre iv post w wB wT := by
  have hR := hSh.ring
  have hN := hSh.nocross
  have hq := hI.q
  have hflat : flatE (pre ++ iv :: post) = (flatE pre ++ [iv.lo]) ++ iv.hi :: flatE post := by simp
  rw [hev, hflat] at hq
  have hwq := hq.gt (w, es) List.mem_cons_self
  have hwn : w < R.n := hwq.1
  obtain ⟨hBn, hTn, hadjB, hadjT, hBT, hnbrs⟩ := start_nbrs hR hwn hnb
  have hid := hq.idinj
  obtain ⟨t1, t2, t3, t4, t5, t6, t7⟩ := startW_tests hSh (cpl_at hSh hwn) hid g5 g6
  have hG := ids_eg hI.lk hI.q.idinj
  rw [hflat, List.map_append] at hG
  rw [List.map_append] at t5
  have hact : s.active = (flatE pre ++ [iv.lo]).map (·.id) ++ (iv.hi :: flatE post).map (·.id) := by
    rw [hI.act, hflat, List.map_append]
  have hevs : ∀ a ∈ rest, a.1 < s.verts.size := by
    intro a ha
    rw [hI.vget.1]
    exact (hq.gt a (List.mem_cons_of_mem _ ha)).1
  have hlom : iv.lo ∈ (flatE pre ++ [iv.lo]) ++ iv.hi :: flatE post := by simp
  have hhim : iv.hi ∈ (flatE pre ++ [iv.lo]) ++ iv.hi :: flatE post := by simp
  have hyB : hY (shearRing ε R) (⟨s.edges.size, w, wB⟩ : AE) ((shearRing ε R).x w) = (R.pt w).2 := lineY_left _ _
  have hyT : hY (shearRing ε R) (⟨s.edges.size + 1, w, wT⟩ : AE) ((shearRing ε R).x w) = (R.pt w).2 := lineY_left _ _
  have hnd : ((flatE pre ++ [iv.lo]) ++ iv.hi :: flatE post).Nodup := by
    have := nodup_of_pairwise_below hI.sorted
    rw [hflat] at this; exact this
  have hnd' : (flatE pre ++ iv.lo :: iv.hi :: flatE post).Nodup := by simpa using hnd
  obtain ⟨hlohi, hothers⟩ := nodup_mid hnd'
  obtain ⟨hc1, hc2, hc3⟩ := Linked.mid hI.lk
  obtain ⟨c, hc, hrm, hh, ht⟩ := hc3
  have hlow := hPlow iv.lo (by simp)
  have hhigh := hQhigh iv.hi (by simp)
  have hidne : iv.lo.id ≠ iv.hi.id := fun e => hlohi (hid _ hlom _ hhim e)
  -- comparisons of the two bounding edges with the others
  have hpwB : ((flatE pre).map (·.id) ++ iv.lo.id :: (iv.hi :: flatE post).map (·.id)).Pairwise
      (CmpLt (Lf R ((flatE pre ++ [iv.lo]) ++ iv.hi :: flatE post))
        (Rf R ((flatE pre ++ [iv.lo]) ++ iv.hi :: flatE post)) (.fin (R.x w))) := by
    simpa using t5
  have hpwT : ((flatE pre ++ [iv.lo]).map (·.id) ++ iv.hi.id :: (flatE post).map (·.id)).Pairwise
      (CmpLt (Lf R ((flatE pre ++ [iv.lo]) ++ iv.hi :: flatE post))
        (Rf R ((flatE pre ++ [iv.lo]) ++ iv.hi :: flatE post)) (.fin (R.x w))) := by
    simpa using t5
  obtain ⟨b1, b2⟩ := pairwise_at hpwB
  obtain ⟨b3, b4⟩ := pairwise_at hpwT
  have s1 := g3 _ hlom
  have s2 := g3 _ hhim
  have hpc : partialCmpEdgeP (Lf R ((flatE pre ++ [iv.lo]) ++ iv.hi :: flatE post) iv.lo.id)
      (Rf R ((flatE pre ++ [iv.lo]) ++ iv.hi :: flatE post) iv.lo.id)
      (Lf R ((flatE pre ++ [iv.lo]) ++ iv.hi :: flatE post) iv.hi.id)
      (Rf R ((flatE pre ++ [iv.lo]) ++ iv.hi :: flatE post) iv.hi.id) (.fin (R.x w)) = some .lt := by
    rw [Lf_id hid hlom, Rf_id hid hlom, Lf_id hid hhim, Rf_id hid hhim]
    exact partialCmp_lt _ _ _ _ _ (belowW_pt hSh hwn s1 hlow).1 (aboveW_pt hSh hwn s2 hhigh).1
      (span_orig (cpl_at hSh hwn) s1).1 (span_orig (cpl_at hSh hwn) s1).2
      (span_orig (cpl_at hSh hwn) s2).1 (span_orig (cpl_at hSh hwn) s2).2
      (lt_trans (belowW_pt hSh hwn s1 hlow).2 (aboveW_pt hSh hwn s2 hhigh).2)
  have hwob : wobP (Fq (R.pt w)) (Fq (R.pt wB))
      (Lf R ((flatE pre ++ [iv.lo]) ++ iv.hi :: flatE post) iv.lo.id)
      (Rf R ((flatE pre ++ [iv.lo]) ++ iv.hi :: flatE post) iv.lo.id) = false := by
    rw [Lf_id hid hlom, Rf_id hid hlom]
    exact wobW hSh (cpl_at hSh hwn) (lo := iv.lo) (up := ⟨s.edges.size, w, wB⟩)
      s1 (g5 _ (by simp)) (by rw [hyB]; exact hlow) (fun e => lv_ne_of_height (R := shearRing ε R) (ne_of_lt hlow) e.1)
  have hwot : wotP (Fq (R.pt w)) (Fq (R.pt wT))
      (Lf R ((flatE pre ++ [iv.lo]) ++ iv.hi :: flatE post) iv.hi.id)
      (Rf R ((flatE pre ++ [iv.lo]) ++ iv.hi :: flatE post) iv.hi.id) = false := by
    rw [Lf_id hid hhim, Rf_id hid hhim]
    exact wotW hSh (cpl_at hSh hwn) (lo := ⟨s.edges.size + 1, w, wT⟩) (up := iv.hi)
      (g5 _ (by simp)) s2 (by rw [hyT]; exact hhigh) (fun e => lv_ne_of_height (R := shearRing ε R) (ne_of_gt hhigh) e.1.symm)
  have hvc := vicfree_start (iB := s.edges.size) (iT := s.edges.size + 1) hSh hwn hBn hTn hadjT hxB hxT hid
    hPlow hQhigh g3 g6
  obtain ⟨sm0, N2, N3, out3, N4, out4, hsm0n, hsm0o, hr1, hr2, hr3, hrun, hN4, hsz4, hpt4, hp1, hp2, hp3⟩ :=
    start_run_splitV_x s w (R.prv w) (R.nxt w) wB wT
    (R.prv wB) (R.nxt wB) (R.prv wT) (R.nxt wT) es rest (Fq (R.pt w)) (Fq (R.pt wB)) (Fq (R.pt wT))
    ((flatE pre ++ [iv.lo]).map (·.id)) ((iv.hi :: flatE post).map (·.id))
    (Lf R ((flatE pre ++ [iv.lo]) ++ iv.hi :: flatE post)) (Rf R ((flatE pre ++ [iv.lo]) ++ iv.hi :: flatE post))
    ((flatE pre).map (·.id)) ((flatE post).map (·.id)) iv.lo.id iv.hi.id
    ⟨Fq (R.pt iv.lo.rv), iv.ci, true, lastHi pre none, some iv.hi.id⟩
    ⟨Fq (R.pt iv.hi.rv), iv.ci, false, some iv.lo.id, nxtLo post none⟩ c
    hev (hI.vget.2 w hwn) hnb
    (hI.vget.2 wB hBn) (hI.vget.2 wT hTn) (ftV_start hSh hwn hBn hTn hxB hxT) (ftV_start hSh hwn hTn hBn hxT hxB)
    hvc.1 hvc.2 t6 t7 hevs hI.mono (by simp) (by simp)
    hact hG t1 t2 t3 t4 hc1 hc2 rfl rfl rfl hidne
    (fun k hk => (b1 k hk).2) (TriGeom.cmpEdgeP_self _ _ _) (fun k hk => (b2 k hk).1)
    (fun k hk => (b3 k hk).2) (TriGeom.cmpEdgeP_self _ _ _) (fun k hk => (b4 k hk).1)
    hpc hwob hwot hI.nok hc hrm
  have hite : (if c.tail = c.rm then s.nodes.size + 1 + 1 else c.tail) =
      (if c.tail == c.rm then s.nodes.size + 1 + 1 else c.tail) := by
    by_cases e : c.tail = c.rm
    · rw [if_pos e, if_pos (by simpa using e)]
    · rw [if_neg e, if_neg (by simpa using e)]
  refine ⟨hPlow, hQhigh, c, sm0, N2, N3, out3, N4, out4, _, hc, hsm0n, hsm0o, hr1, hr2, hr3, hrun, rfl, rfl, ?hch, ?_⟩
  case hch =>
    show ((s.chains.push _).push _).push ⟨_, _, if c.tail = c.rm then s.nodes.size + 1 + 1 else c.tail⟩ = _
    rw [hite]
  show InvV R ε _ ((shearRing ε R).x w) (R.x w) (pre ++ ([⟨iv.lo, ⟨s.edges.size, w, wB⟩, s.chains.size + 1⟩,
    ⟨⟨s.edges.size + 1, w, wT⟩, iv.hi, s.chains.size + 1 + 1⟩] ++ post))
  refine GenVStepW.splitV_inv hSh hI hev hwn hBn hTn hc hh ht hN4 hsz4 hpt4 hp1 hp2 hp3 ?_ ?_ ?_ ?_ ?_ ?_ ?_ ?_ g5 g6 g7 g8
  · rfl
  · rfl
  · rfl
  · rfl
  · (unfold splitRes; with_reducible rfl)
  · rfl
  · rfl
  · rfl

/-- **the Start event keeps the invariant** -/
theorem stepW_start_x (hSh : ShOK R ε Vε) {s : St XQ} {xs X : Rat} {ivs : List IV}
    (hI : InvV R ε s xs X ivs)
    {w : Nat} {es : List Nat} {rest : List (Nat × List Nat)} (hev : s.events = (w, es) :: rest)
    {wB wT : Nat} (hnb : (R.prv w = wB ∧ R.nxt w = wT) ∨ (R.prv w = wT ∧ R.nxt w = wB))
    (hxB : (shearRing ε R).x w < (shearRing ε R).x wB) (hxT : (shearRing ε R).x w < (shearRing ε R).x wT)
    (ho : 0 < orient ((shearRing ε R).pt w) ((shearRing ε R).pt wB) ((shearRing ε R).pt wT)) :
    (∃ pre post, ivs = pre ++ post ∧ StartProperV R ε s pre post w wB wT) ∨
    (∃ pre iv post, ivs = pre ++ iv :: post ∧ StartSplitV R ε s pre iv post w wB wT) := by
  have hR := hSh.ring
  have hN := hSh.nocross
  have hq := hI.q
  rw [hev] at hq
  have hidlt : ∀ a ∈ flatE ivs, a.id < s.edges.size := by
    intro a ha
    obtain ⟨e, he, -⟩ := Linked.eg hI.lk a ha
    exact lt_of_get' he
  obtain ⟨-, P, Q, hE, hlow, hhigh, g3, g4, g5, g6, g7, g8⟩ := start_flat hR hN s.edges.size
    (s.edges.size + 1) hI.span hI.sorted hq hI.cross hnb hxB hxT ho
    (fun a ha => ne_of_lt (hidlt a ha)) (fun a ha => by have := hidlt a ha; omega) (by omega)
  rcases flat_split ivs P Q hE with ⟨pre, post, rfl, rfl, rfl⟩ | ⟨pre, iv, post, rfl, rfl, rfl⟩
  · rw [flatE_append] at g3 g4
    exact Or.inl ⟨pre, post, rfl, stepW_start_proper_x hSh hI hev hnb hxB hxT hlow hhigh g3 g4 g5 g6 g7 g8⟩
  · have hflat : flatE (pre ++ iv :: post) = (flatE pre ++ [iv.lo]) ++ iv.hi :: flatE post := by simp
    rw [hflat] at g3
    exact Or.inr ⟨pre, iv, post, rfl, stepW_start_split_x hSh hI hev hnb hxB hxT hlow hhigh g3 g5 g6 g7 g8⟩



end Cav.GenOutVStep
