/-
  Helper lemmas for `Thm/C02` (tiling invariant of `gk1dLoop` over `Rat`).

  * over `Rat`, `panelCmp` is the lexicographic strict total order on `(err, val, a, b)`;
  * `setInsert` / `setRemove` on a strictly sorted list behave as set insert / remove;
  * chains of intervals, bisection of a piece;
  * the loop invariant `Inv` and `gk1dLoop_tiling`.
-/
import Cav.Model.Quad
import Cav.Inst.Rat
import Mathlib.Tactic.Ring
import Mathlib.Tactic.Linarith
import Mathlib.Algebra.Order.Field.Rat
import Mathlib.Algebra.BigOperators.Group.List.Basic
import Mathlib.Data.Prod.Lex
open Cav Num
namespace Cav.QuadTiling

theorem partialCmp_rat (x y : Rat) :
    partialCmp x y = if x < y then some .lt else if y < x then some .gt else some .eq := by
  unfold partialCmp
  by_cases h1 : x < y
  · simp [Num.lt, h1]
  · by_cases h2 : y < x
    · simp [Num.lt, h1, h2]
    · have : x = y := le_antisymm (not_lt.mp h2) (not_lt.mp h1)
      simp [Num.lt, Num.beq, this]

/-- lexicographic key of a panel -/
def key (p : Panel Rat) : Rat ×ₗ Rat ×ₗ Rat ×ₗ Rat :=
  toLex (p.err, toLex (p.val, toLex (p.a, p.b)))

def plt (p q : Panel Rat) : Prop := key p < key q

theorem plt_iff (p q : Panel Rat) : plt p q ↔
    p.err < q.err ∨ p.err = q.err ∧ (p.val < q.val ∨ p.val = q.val ∧
      (p.a < q.a ∨ p.a = q.a ∧ p.b < q.b)) := by
  simp only [plt, key, Prod.Lex.lt_iff, ofLex_toLex]

theorem plt_trans {p q r : Panel Rat} : plt p q → plt q r → plt p r := lt_trans
theorem plt_irrefl (p : Panel Rat) : ¬ plt p p := lt_irrefl _

theorem panelCmp_cases (p q : Panel Rat) :
    (panelCmp p q = .lt ∧ plt p q) ∨ (panelCmp p q = .gt ∧ plt q p) ∨ (panelCmp p q = .eq ∧ p = q) := by
  obtain ⟨e1, v1, a1, b1⟩ := p
  obtain ⟨e2, v2, a2, b2⟩ := q
  simp only [panelCmp, partialCmp_rat, plt_iff]
  rcases lt_trichotomy e1 e2 with h | h | h
  · simp [h]
  · subst h
    rcases lt_trichotomy v1 v2 with h | h | h
    · simp [h]
    · subst h
      rcases lt_trichotomy a1 a2 with h | h | h
      · simp [h]
      · subst h
        rcases lt_trichotomy b1 b2 with h | h | h
        · simp [h]
        · subst h; simp
        · simp [h, lt_asymm h]
      · simp [h, lt_asymm h]
    · simp [h, lt_asymm h]
  · simp [h, lt_asymm h]

/-! ### the sorted-list set -/

abbrev Sorted (s : List (Panel Rat)) : Prop := s.Pairwise plt

theorem mem_setInsert {p q : Panel Rat} {s : List (Panel Rat)} (h : q ∈ setInsert p s) :
    q = p ∨ q ∈ s := by
  induction s with
  | nil => simpa [setInsert] using h
  | cons k ks ih =>
    unfold setInsert at h
    rcases panelCmp_cases p k with ⟨hc, _⟩ | ⟨hc, _⟩ | ⟨hc, _⟩ <;> simp only [hc] at h
    · simpa using h
    · rcases List.mem_cons.mp h with h | h
      · exact Or.inr (h ▸ List.mem_cons_self)
      · rcases ih h with h | h
        · exact Or.inl h
        · exact Or.inr (List.mem_cons_of_mem _ h)
    · exact Or.inr h

theorem setInsert_perm {p : Panel Rat} {s : List (Panel Rat)} (hp : p ∉ s) :
    (setInsert p s).Perm (p :: s) := by
  induction s with
  | nil => simp [setInsert]
  | cons k ks ih =>
    unfold setInsert
    rcases panelCmp_cases p k with ⟨hc, _⟩ | ⟨hc, _⟩ | ⟨hc, he⟩ <;> simp only [hc]
    · exact List.Perm.refl _
    · have : p ∉ ks := fun h => hp (List.mem_cons_of_mem _ h)
      exact ((ih this).cons k).trans (List.Perm.swap p k ks)
    · exact absurd (he ▸ List.mem_cons_self) hp

theorem setInsert_sorted {p : Panel Rat} {s : List (Panel Rat)} (hs : Sorted s) :
    Sorted (setInsert p s) := by
  induction s with
  | nil => simp [setInsert, Sorted]
  | cons k ks ih =>
    have hk := List.pairwise_cons.mp hs
    unfold setInsert
    rcases panelCmp_cases p k with ⟨hc, hl⟩ | ⟨hc, hl⟩ | ⟨hc, _⟩ <;> simp only [hc]
    · refine List.pairwise_cons.mpr ⟨?_, hs⟩
      intro q hq
      rcases List.mem_cons.mp hq with rfl | hq
      · exact hl
      · exact plt_trans hl (hk.1 q hq)
    · refine List.pairwise_cons.mpr ⟨?_, ih hk.2⟩
      intro q hq
      rcases mem_setInsert hq with rfl | hq
      · exact hl
      · exact hk.1 q hq
    · exact hs

theorem setRemove_perm {p : Panel Rat} {s : List (Panel Rat)} (hs : Sorted s) (hp : p ∈ s) :
    s.Perm (p :: setRemove p s) := by
  induction s with
  | nil => simp at hp
  | cons k ks ih =>
    have hk := List.pairwise_cons.mp hs
    unfold setRemove
    rcases panelCmp_cases p k with ⟨hc, hl⟩ | ⟨hc, hl⟩ | ⟨hc, he⟩ <;> simp only [hc]
    · exfalso
      rcases List.mem_cons.mp hp with rfl | hp
      · exact plt_irrefl _ hl
      · exact plt_irrefl _ (plt_trans hl (hk.1 p hp))
    · rcases List.mem_cons.mp hp with rfl | hp
      · exact absurd hl (plt_irrefl _)
      · exact ((ih hk.2 hp).cons k).trans (List.Perm.swap p k _)
    · subst he; exact List.Perm.refl _

theorem setRemove_sublist (p : Panel Rat) (s : List (Panel Rat)) :
    (setRemove p s).Sublist s := by
  induction s with
  | nil => simp [setRemove]
  | cons k ks ih =>
    unfold setRemove
    rcases panelCmp_cases p k with ⟨hc, _⟩ | ⟨hc, _⟩ | ⟨hc, _⟩ <;> simp only [hc]
    · exact List.Sublist.refl _
    · exact ih.cons_cons k
    · exact List.sublist_cons_self k ks

theorem setRemove_sorted {p : Panel Rat} {s : List (Panel Rat)} (hs : Sorted s) :
    Sorted (setRemove p s) := hs.sublist (setRemove_sublist p s)

/-! ### chains -/

/-- chain of consecutive intervals from `a` to `b`, the empty chain allowed when `a = b` -/
def Chain : Rat → Rat → List (Rat × Rat) → Prop
  | a, b, [] => a = b
  | a, b, p :: rest => p.1 = a ∧ Chain p.2 b rest

theorem chain_append {a b : Rat} {L1 L2 : List (Rat × Rat)} :
    Chain a b (L1 ++ L2) ↔ ∃ c, Chain a c L1 ∧ Chain c b L2 := by
  induction L1 generalizing a with
  | nil =>
    constructor
    · intro h; exact ⟨a, rfl, h⟩
    · rintro ⟨c, hc, h⟩; simp only [Chain] at hc; subst hc; exact h
  | cons p rest ih =>
    simp only [List.cons_append, Chain, ih]
    constructor
    · rintro ⟨h1, c, h2, h3⟩; exact ⟨c, ⟨h1, h2⟩, h3⟩
    · rintro ⟨c, ⟨h1, h2⟩, h3⟩; exact ⟨h1, c, h2, h3⟩

/-- a strict order on `Rat` that midpoints respect: `<` or `>` -/
structure Dir (r : Rat → Rat → Prop) : Prop where
  irrefl : ∀ x, ¬ r x x
  trans : ∀ {x y z}, r x y → r y z → r x z
  midl : ∀ {x y}, r x y → r x ((x + y) / 2)
  midr : ∀ {x y}, r x y → r ((x + y) / 2) y

theorem dir_lt : Dir (fun x y : Rat => x < y) where
  irrefl := lt_irrefl
  trans := lt_trans
  midl := by intro x y h; linarith
  midr := by intro x y h; linarith

theorem dir_gt : Dir (fun x y : Rat => y < x) where
  irrefl := lt_irrefl
  trans := fun h1 h2 => lt_trans h2 h1
  midl := by intro x y h; linarith
  midr := by intro x y h; linarith

/-- in a directed chain from `c` to `b` every piece lies weakly after `c` and before `b` -/
theorem chain_bounds {r : Rat → Rat → Prop} (hr : Dir r) {c b : Rat} {L : List (Rat × Rat)}
    (hc : Chain c b L) (hd : ∀ p ∈ L, r p.1 p.2) :
    ∀ q ∈ L, (c = q.1 ∨ r c q.1) ∧ (q.2 = b ∨ r q.2 b) := by
  induction L generalizing c with
  | nil => intro q hq; simp at hq
  | cons p rest ih =>
    obtain ⟨h1, h2⟩ := hc
    have hp : r p.1 p.2 := hd p List.mem_cons_self
    have hrest : ∀ q ∈ rest, r q.1 q.2 := fun q hq => hd q (List.mem_cons_of_mem _ hq)
    -- p.2 is weakly before b
    have hpb : p.2 = b ∨ r p.2 b := by
      cases rest with
      | nil => exact Or.inl h2
      | cons p' rest' =>
        rcases (ih h2 hrest p' List.mem_cons_self) with ⟨h3, h4⟩
        have : r p'.1 p'.2 := hrest p' List.mem_cons_self
        have h5 : r p.2 p'.2 := by
          rcases h3 with h3 | h3
          · rw [h3]; exact this
          · exact hr.trans h3 this
        rcases h4 with h4 | h4
        · exact Or.inr (h4 ▸ h5)
        · exact Or.inr (hr.trans h5 h4)
    intro q hq
    rcases List.mem_cons.mp hq with rfl | hq
    · exact ⟨Or.inl h1.symm, hpb⟩
    · obtain ⟨h3, h4⟩ := ih h2 hrest q hq
      refine ⟨Or.inr ?_, h4⟩
      rw [← h1]
      rcases h3 with h3 | h3
      · exact h3 ▸ hp
      · exact hr.trans hp h3

/-- a piece `(x', y')` of a directed chain that contains `(x, y)` is `(x, y)` itself, or ends
    weakly before `x`, or starts weakly after `y` -/
theorem chain_mem_cases {r : Rat → Rat → Prop} (hr : Dir r) {a b x y : Rat}
    {L1 L2 : List (Rat × Rat)} (hc : Chain a b (L1 ++ (x, y) :: L2))
    (hd : ∀ p ∈ L1 ++ (x, y) :: L2, r p.1 p.2) {q : Rat × Rat} (hq : q ∈ L1 ++ (x, y) :: L2) :
    q = (x, y) ∨ (q.2 = x ∨ r q.2 x) ∨ (y = q.1 ∨ r y q.1) := by
  obtain ⟨c, hc1, hc2⟩ := chain_append.mp hc
  obtain ⟨hcx, hc3⟩ := hc2
  simp only at hcx hc3
  subst hcx
  rcases List.mem_append.mp hq with hq | hq
  · exact Or.inr (Or.inl (chain_bounds hr hc1 (fun p hp => hd p (List.mem_append_left _ hp)) q hq).2)
  · rcases List.mem_cons.mp hq with hq | hq
    · exact Or.inl hq
    · exact Or.inr (Or.inr (chain_bounds hr hc3
        (fun p hp => hd p (List.mem_append_right _ (List.mem_cons_of_mem _ hp))) q hq).1)

/-- the two halves of a piece are not pieces of the chain -/
theorem chain_left_not_mem {r : Rat → Rat → Prop} (hr : Dir r) {a b x y m : Rat}
    {L1 L2 : List (Rat × Rat)} (hc : Chain a b (L1 ++ (x, y) :: L2))
    (hd : ∀ p ∈ L1 ++ (x, y) :: L2, r p.1 p.2) (hxm : r x m) (hmy : r m y) :
    (x, m) ∉ L1 ++ (x, y) :: L2 := by
  intro hq
  rcases chain_mem_cases hr hc hd hq with h | (h | h) | (h | h)
  · have : m = y := congrArg Prod.snd h
    exact hr.irrefl _ (this ▸ hmy)
  · simp only at h; exact hr.irrefl _ (h ▸ hxm)
  · exact hr.irrefl _ (hr.trans hxm h)
  · simp only at h; exact hr.irrefl _ (hr.trans hxm (h ▸ hmy))
  · exact hr.irrefl _ (hr.trans (hr.trans hxm hmy) h)

theorem chain_right_not_mem {r : Rat → Rat → Prop} (hr : Dir r) {a b x y m : Rat}
    {L1 L2 : List (Rat × Rat)} (hc : Chain a b (L1 ++ (x, y) :: L2))
    (hd : ∀ p ∈ L1 ++ (x, y) :: L2, r p.1 p.2) (hxm : r x m) (hmy : r m y) :
    (m, y) ∉ L1 ++ (x, y) :: L2 := by
  intro hq
  rcases chain_mem_cases hr hc hd hq with h | (h | h) | (h | h)
  · have : m = x := congrArg Prod.fst h
    exact hr.irrefl _ (this ▸ hxm)
  · simp only at h; exact hr.irrefl _ (hr.trans hxm (h ▸ hmy))
  · exact hr.irrefl _ (hr.trans (hr.trans hxm hmy) h)
  · simp only at h; exact hr.irrefl _ (h ▸ hmy)
  · exact hr.irrefl _ (hr.trans hmy h)

/-- bisecting a piece keeps the chain -/
theorem chain_bisect {a b x y m : Rat} {L1 L2 : List (Rat × Rat)}
    (hc : Chain a b (L1 ++ (x, y) :: L2)) : Chain a b (L1 ++ (x, m) :: (m, y) :: L2) := by
  obtain ⟨c, hc1, hc2⟩ := chain_append.mp hc
  exact chain_append.mpr ⟨c, hc1, hc2.1, rfl, hc2.2⟩

/-! ### the loop invariant -/

/-- the interval of a panel -/
def ab (p : Panel Rat) : Rat × Rat := (p.a, p.b)

theorem two_eq : (Num.two : Rat) = 2 := by simp [Num.two, Num.ofNat]
theorem zero_eq : (Num.zero : Rat) = 0 := by simp [Num.zero, Num.ofNat]

theorem sumVals_eq (s0 : Rat) (s : List (Panel Rat)) :
    sumVals s0 s = s0 + (s.map (·.val)).sum := by
  unfold sumVals
  induction s generalizing s0 with
  | nil => simp
  | cons p ps ih =>
    simp only [List.foldl_cons, List.map_cons, List.sum_cons, ih]
    ring

/-- invariant of `gk1dLoop f tol fuel accu set tr` over `Rat`, for the run on `[a,b]` -/
structure Inv (f : Rat → Rat) (r : Rat → Rat → Prop) (a b : Rat)
    (accu : Rat) (set : List (Panel Rat)) (tr : List (Rat × Rat)) : Prop where
  sorted : Sorted set
  eval : ∀ p ∈ set, p.val = (gkApprox f p.a p.b).1 ∧ p.err = (gkApprox f p.a p.b).2
  traced : ∀ p ∈ set, (p.a, p.b) ∈ tr
  tiling : ∃ L : List (Rat × Rat), L.Perm (set.map ab) ∧ Chain a b L ∧ ∀ p ∈ L, r p.1 p.2
  accu : accu = (set.map (·.err)).sum

theorem Inv.init (f : Rat → Rat) {r : Rat → Rat → Prop} {a b : Rat} (hab : r a b) :
    Inv f r a b (gkApprox f a b).2 [⟨(gkApprox f a b).2, (gkApprox f a b).1, a, b⟩] [(a, b)] where
  sorted := List.pairwise_singleton _ _
  eval := by intro p hp; rw [List.mem_singleton.mp hp]; exact ⟨rfl, rfl⟩
  traced := by intro p hp; rw [List.mem_singleton.mp hp]; exact List.mem_singleton.mpr rfl
  tiling := ⟨[(a, b)], List.Perm.refl _, ⟨rfl, rfl⟩, by
    intro p hp; rw [List.mem_singleton.mp hp]; exact hab⟩
  accu := by simp

/-- one bisection step preserves the invariant; the selected panel is non-degenerate -/
theorem Inv.step {f : Rat → Rat} {r : Rat → Rat → Prop} (hr : Dir r) {a b accu : Rat}
    {set : List (Panel Rat)} {tr : List (Rat × Rat)} (inv : Inv f r a b accu set tr)
    {iv : Panel Rat} (hiv : iv ∈ set) {m : Rat} (hm : m = (iv.a + iv.b) / 2) :
    iv.a ≠ iv.b ∧
    Inv f r a b (accu - iv.err + ((gkApprox f iv.a m).2 + (gkApprox f m iv.b).2))
      (setRemove iv
        (setInsert ⟨(gkApprox f m iv.b).2, (gkApprox f m iv.b).1, m, iv.b⟩
          (setInsert ⟨(gkApprox f iv.a m).2, (gkApprox f iv.a m).1, iv.a, m⟩ set)))
      ((m, iv.b) :: (iv.a, m) :: tr) := by
  obtain ⟨L, hperm, hchain, hdir⟩ := inv.tiling
  have hivL : (iv.a, iv.b) ∈ L := hperm.mem_iff.mpr (List.mem_map.mpr ⟨iv, hiv, rfl⟩)
  obtain ⟨L1, L2, rfl⟩ := List.append_of_mem hivL
  have hxy : r iv.a iv.b := hdir _ hivL
  have hxm : r iv.a m := hm ▸ hr.midl hxy
  have hmy : r m iv.b := hm ▸ hr.midr hxy
  refine ⟨fun h => hr.irrefl _ (h ▸ hxy), ?_⟩
  generalize hLp : (⟨(gkApprox f iv.a m).2, (gkApprox f iv.a m).1, iv.a, m⟩ : Panel Rat) = Lp
  generalize hRp : (⟨(gkApprox f m iv.b).2, (gkApprox f m iv.b).1, m, iv.b⟩ : Panel Rat) = Rp
  have hLab : ab Lp = (iv.a, m) := by rw [← hLp]; rfl
  have hRab : ab Rp = (m, iv.b) := by rw [← hRp]; rfl
  have hLev : Lp.val = (gkApprox f Lp.a Lp.b).1 ∧ Lp.err = (gkApprox f Lp.a Lp.b).2 := by
    rw [← hLp]; exact ⟨rfl, rfl⟩
  have hRev : Rp.val = (gkApprox f Rp.a Rp.b).1 ∧ Rp.err = (gkApprox f Rp.a Rp.b).2 := by
    rw [← hRp]; exact ⟨rfl, rfl⟩
  have hLerr : Lp.err = (gkApprox f iv.a m).2 := by rw [← hLp]
  have hRerr : Rp.err = (gkApprox f m iv.b).2 := by rw [← hRp]
  -- the children are new
  have hLnew : Lp ∉ set := by
    intro h
    have : ab Lp ∈ L1 ++ (iv.a, iv.b) :: L2 := hperm.mem_iff.mpr (List.mem_map.mpr ⟨Lp, h, rfl⟩)
    rw [hLab] at this
    exact chain_left_not_mem hr hchain hdir hxm hmy this
  have hRnew : Rp ∉ setInsert Lp set := by
    intro h
    rcases mem_setInsert h with h | h
    · have h' : ab Rp = ab Lp := by rw [h]
      rw [hLab, hRab] at h'
      have : m = iv.a := congrArg Prod.fst h'
      exact hr.irrefl _ (this ▸ hxm)
    · have : ab Rp ∈ L1 ++ (iv.a, iv.b) :: L2 := hperm.mem_iff.mpr (List.mem_map.mpr ⟨Rp, h, rfl⟩)
      rw [hRab] at this
      exact chain_right_not_mem hr hchain hdir hxm hmy this
  have hs2 : Sorted (setInsert Rp (setInsert Lp set)) := setInsert_sorted (setInsert_sorted inv.sorted)
  have hp2 : (setInsert Rp (setInsert Lp set)).Perm (Rp :: Lp :: set) :=
    (setInsert_perm hRnew).trans ((setInsert_perm hLnew).cons Rp)
  have hiv2 : iv ∈ setInsert Rp (setInsert Lp set) :=
    hp2.mem_iff.mpr (List.mem_cons_of_mem _ (List.mem_cons_of_mem _ hiv))
  have hp3 := setRemove_perm hs2 hiv2
  have hs3 : Sorted (setRemove iv (setInsert Rp (setInsert Lp set))) := setRemove_sorted hs2
  generalize setRemove iv (setInsert Rp (setInsert Lp set)) = set' at hp3 hs3 ⊢
  have hp4 : (iv :: set').Perm (Rp :: Lp :: set) := hp3.symm.trans hp2
  have hmem : ∀ p ∈ set', p = Rp ∨ p = Lp ∨ p ∈ set := by
    intro p hp
    have := hp4.mem_iff.mp (List.mem_cons_of_mem _ hp)
    simpa using this
  refine ⟨hs3, ?_, ?_, ?_, ?_⟩
  · intro p hp
    rcases hmem p hp with rfl | rfl | h
    · exact hRev
    · exact hLev
    · exact inv.eval p h
  · intro p hp
    rcases hmem p hp with rfl | rfl | h
    · have : (p.a, p.b) = (m, iv.b) := hRab
      rw [this]; exact List.mem_cons_self
    · have : (p.a, p.b) = (iv.a, m) := hLab
      rw [this]; exact List.mem_cons_of_mem _ List.mem_cons_self
    · exact List.mem_cons_of_mem _ (List.mem_cons_of_mem _ (inv.traced p h))
  · refine ⟨L1 ++ (iv.a, m) :: (m, iv.b) :: L2, ?_, chain_bisect hchain, ?_⟩
    · have h1 : ((iv.a, iv.b) :: set'.map ab).Perm ((m, iv.b) :: (iv.a, m) :: set.map ab) := by
        have := hp4.map ab
        have hiab : ab iv = (iv.a, iv.b) := rfl
        simpa only [List.map_cons, hLab, hRab, hiab] using this
      have h2 : ((m, iv.b) :: (iv.a, m) :: set.map ab).Perm
          ((m, iv.b) :: (iv.a, m) :: (iv.a, iv.b) :: (L1 ++ L2)) :=
        ((hperm.symm.trans List.perm_middle).cons _).cons _
      have h3 : ((m, iv.b) :: (iv.a, m) :: (iv.a, iv.b) :: (L1 ++ L2)).Perm
          ((iv.a, iv.b) :: (m, iv.b) :: (iv.a, m) :: (L1 ++ L2)) :=
        List.perm_middle (l₁ := [(m, iv.b), (iv.a, m)])
      have h4 : (set'.map ab).Perm ((m, iv.b) :: (iv.a, m) :: (L1 ++ L2)) :=
        (h1.trans (h2.trans h3)).cons_inv
      have h5 : (L1 ++ (iv.a, m) :: (m, iv.b) :: L2).Perm ((iv.a, m) :: (m, iv.b) :: (L1 ++ L2)) :=
        List.perm_middle.trans (List.perm_middle.cons _)
      exact (h5.trans (List.Perm.swap _ _ _)).trans h4.symm
    · intro p hp
      rcases List.mem_append.mp hp with h | h
      · exact hdir p (List.mem_append_left _ h)
      · rcases List.mem_cons.mp h with rfl | h
        · exact hxm
        · rcases List.mem_cons.mp h with rfl | h
          · exact hmy
          · exact hdir p (List.mem_append_right _ (List.mem_cons_of_mem _ h))
  · have h1 := (hp4.map (·.err)).sum_eq
    simp only [List.map_cons, List.sum_cons] at h1
    rw [inv.accu, ← hLerr, ← hRerr]
    linarith

/-! ### the loop -/

/-- a successful run of the loop from a state satisfying the invariant returns a tiling sum -/
theorem gk1dLoop_tiling {r : Rat → Rat → Prop} (hr : Dir r) (f : Rat → Rat) (tol a b : Rat) :
    ∀ (fuel : Nat) (accu : Rat) (set : List (Panel Rat)) (tr : List (Rat × Rat)) (v e : Rat),
      Inv f r a b accu set tr →
      (gk1dLoop f tol fuel accu set tr).res = .ok (v, e) →
      ∃ L : List (Rat × Rat), Chain a b L ∧ (∀ p ∈ L, r p.1 p.2) ∧
        v = (L.map (fun p => (gkApprox f p.1 p.2).1)).sum ∧
        e = (L.map (fun p => (gkApprox f p.1 p.2).2)).sum ∧
        ∀ p ∈ L, p ∈ (gk1dLoop f tol fuel accu set tr).panels := by
  intro fuel
  induction fuel with
  | zero => intro accu set tr v e _ h; simp [gk1dLoop] at h
  | succ n ih =>
    intro accu set tr v e inv h
    unfold gk1dLoop at h ⊢
    have hn : Num.isNaN accu = false := rfl
    simp only [hn] at h ⊢
    by_cases hl : Num.lt accu tol = true
    · simp only [hl, if_true, Bool.false_eq_true, if_false] at h ⊢
      injection h with h
      injection h with hv he
      obtain ⟨L, hperm, hchain, hdir⟩ := inv.tiling
      refine ⟨L, hchain, hdir, ?_, ?_, ?_⟩
      · rw [← hv, sumVals_eq, zero_eq, neg_zero, zero_add]
        rw [(hperm.map _).sum_eq, List.map_map]
        congr 1
        apply List.map_congr_left
        intro p hp
        exact (inv.eval p hp).1
      · rw [← he, inv.accu, (hperm.map _).sum_eq, List.map_map]
        congr 1
        apply List.map_congr_left
        intro p hp
        exact (inv.eval p hp).2
      · intro p hp
        obtain ⟨q, hq, rfl⟩ := List.mem_map.mp (hperm.mem_iff.mp hp)
        exact List.mem_reverse.mpr (inv.traced q hq)
    · simp only [hl, Bool.false_eq_true, if_false] at h ⊢
      cases hs : set.getLast? with
      | none => simp [hs] at h
      | some iv =>
        simp only [hs] at h ⊢
        have hiv : iv ∈ set := List.mem_of_getLast? hs
        obtain ⟨hne, inv'⟩ := inv.step hr hiv (m := (iv.a + iv.b) / two) (by rw [two_eq])
        have hb : Num.bne iv.a iv.b = true := by
          simp [Num.bne, Num.beq, hne]
        simp only [hb, if_true] at h ⊢
        exact ih _ _ _ _ _ inv' h

end Cav.QuadTiling
