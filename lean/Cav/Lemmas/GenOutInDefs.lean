/-
  Tiling by the emitted triangles, part 1: the bookkeeping of the area identity for an ARBITRARY
  antisymmetric weight `w` on pairs of points in place of `cross`.

  The area identity `areaSum out = wDone R xs + Σ pathSum chain` of `XInv` uses of `cross` only that
  it is antisymmetric and that the doubled area of a clockwise triangle `(a, b, c)` is
  `-(cross a b + cross b c + cross c a)`.  Replacing `cross` by the weight `below q` ("the segment
  walked from left to right passes below the point `q`": `+1`, from right to left: `-1`) turns the
  measure of a triangle into the indicator of `q` and the right-hand side into the indicator of the
  even-odd region: the same bookkeeping proves that the triangles tile the region.

  `GenF` is the additional invariant: the emitted triangles are the sorted versions of a ghost list
  `Tg` of clockwise rational triples and, for every antisymmetric `w`,
  `Σ_{t ∈ Tg} muW w t = wDoneW R w xs + Σ pathSumW w chain`.
-/
import Cav.Lemmas.GenOutInv

set_option linter.unusedVariables false
set_option linter.unusedSimpArgs false

namespace Cav.GenOutIn
open Cav Num Cav.Geo Cav.Sweep Cav.QuadGeom Cav.CvxEvents Cav.CvxLoop Cav.GenInv Cav.MonoGeom
open Cav.GenOutShape Cav.GenOutDefs Cav.GenOutInv

/-- a weight on ordered pairs of points -/
abbrev W := Q → Q → Rat

/-- antisymmetric weights -/
def AS (w : W) : Prop := ∀ a b, w b a = - w a b

/-- sum of the weights of the consecutive pairs -/
def pathSumW (w : W) : List Q → Rat
  | u :: v :: r => w u v + pathSumW w (v :: r)
  | _ => 0

/-- `Σ (w u q0 + w q0 q1 + w q1 u)` over the consecutive pairs -/
def orientSumW (w : W) (u : Q) : List Q → Rat
  | q0 :: q1 :: r => (w u q0 + w q0 q1 + w q1 u) + orientSumW w u (q1 :: r)
  | _ => 0

/-- the measure of the clockwise triangle `t` -/
def muW (w : W) (t : Q × Q × Q) : Rat := - (w t.1 t.2.1 + w t.2.1 t.2.2 + w t.2.2 t.1)

/-- the emitted (sorted) triangle of a rational triple -/
def sq (t : Q × Q × Q) : Tri := sort3 (Fq t.1) (Fq t.2.1) (Fq t.2.2)

/-- ghost triples of a forward fan (same order as `trisF`) -/
def trisFq (u : Q) : List Q → List (Q × Q × Q)
  | q0 :: q1 :: r => trisFq u (q1 :: r) ++ [(u, q0, q1)]
  | _ => []

/-- ghost triples of a backward fan (same order as `trisB`) -/
def trisBq (u : Q) : List Q → List (Q × Q × Q)
  | q0 :: q1 :: r => trisBq u (q1 :: r) ++ [(q1, q0, u)]
  | _ => []

/-- signed weight of the left-to-right ring edge `u → v` -/
def eSignedW (R : RingQ) (w : W) (u v : Nat) : Rat :=
  (if isLo R u v then 1 else -1) * w (R.pt u) (R.pt v)

def eTermW (R : RingQ) (w : W) (xs : Rat) (u v : Nat) : Rat :=
  if R.x u < R.x v ∧ R.x v ≤ xs then eSignedW R w u v else 0

def wDoneW (R : RingQ) (w : W) (xs : Rat) : Rat :=
  ((List.range R.n).map fun u => eTermW R w xs u (R.nxt u) + eTermW R w xs u (R.prv u)).sum

def eAllW (R : RingQ) (w : W) (u v : Nat) : Rat := if R.x u < R.x v then eSignedW R w u v else 0

/-- the total signed weight of the ring: lower boundary edges count positively, upper ones
    negatively -/
def areaW (R : RingQ) (w : W) : Rat :=
  ((List.range R.n).map fun u => eAllW R w u (R.nxt u) + eAllW R w u (R.prv u)).sum

def pathTotW (w : W) (G : Nat → CH) (ivs : List IV) : Rat :=
  (ivs.map fun iv => pathSumW w ((G iv.ci).l.map Prod.snd)).sum

@[simp] theorem pathTotW_nil (w : W) (G : Nat → CH) : pathTotW w G [] = 0 := rfl
@[simp] theorem pathTotW_cons (w : W) (G : Nat → CH) (iv : IV) (r : List IV) :
    pathTotW w G (iv :: r) = pathSumW w ((G iv.ci).l.map Prod.snd) + pathTotW w G r := by
  simp [pathTotW]
@[simp] theorem pathTotW_append (w : W) (G : Nat → CH) (a b : List IV) :
    pathTotW w G (a ++ b) = pathTotW w G a + pathTotW w G b := by
  simp [pathTotW]

theorem pathTotW_congr {w : W} {G G' : Nat → CH} {l : List IV} (h : ∀ j ∈ l, G' j.ci = G j.ci) :
    pathTotW w G' l = pathTotW w G l := by
  unfold pathTotW
  congr 1
  exact List.map_congr_left (fun j hj => by rw [h j hj])

/-- total measure of a list of ghost triples -/
def muSum (w : W) (T : List (Q × Q × Q)) : Rat := (T.map (muW w)).sum

@[simp] theorem muSum_nil (w : W) : muSum w [] = 0 := rfl
theorem muSum_append (w : W) (a b : List (Q × Q × Q)) : muSum w (a ++ b) = muSum w a + muSum w b := by
  simp [muSum]

/-- **the additional invariant**: ghost triples and the generic identity -/
def GenF (R : RingQ) (s : St XQ) (xs : Rat) (ivs : List IV) (G : Nat → CH) : Prop :=
  ∃ Tg : List (Q × Q × Q), s.out = Tg.map sq ∧ (∀ t ∈ Tg, orient t.1 t.2.1 t.2.2 < 0) ∧
    ∀ w, AS w → muSum w Tg = wDoneW R w xs + pathTotW w G ivs

/-- the strengthened invariant with the generic identity -/
structure XInvT (R : RingQ) (s : St XQ) (xs : Rat) (ivs : List IV) (G : Nat → CH) : Prop where
  base : XInv R s xs ivs G
  gen : GenF R s xs ivs G

end Cav.GenOutIn
