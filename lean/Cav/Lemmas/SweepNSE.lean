/-
  The errors `.noPolygon`, `.nonFinite`, `.duplicate` are thrown only by the set-up loop:
  no program of the sweep proper (`handleNext`, `loop` and everything below) can fail with them.
-/
import Cav.Lemmas.SweepFrame

set_option linter.unusedSectionVars false
set_option linter.unusedVariables false

namespace Cav.SweepNSE
open Cav Num Cav.Sweep Cav.SweepRun Cav.SweepHoare Cav.SweepFrame

variable {α : Type} {β : Type}

/-- errors that the sweep proper may raise: everything except the three set-up errors -/
def LoopErr : SErr α → Prop
  | .noPolygon | .nonFinite | .duplicate _ => False
  | _ => True

/-- errors that the event handlers may raise: overlap, `NoPointType` and panics -/
def HandlerErr : SErr α → Prop
  | .overlap _ _ | .noPointType _ | .panic _ => True
  | _ => False

theorem panicOk_handlerErr : PanicOk (HandlerErr : SErr α → Prop) := fun _ => True.intro

theorem HandlerErr.loopErr {e : SErr α} (h : HandlerErr e) : LoopErr e := by
  cases e <;> simp_all [HandlerErr, LoopErr]

/-- "fails only with an overlap, `NoPointType` or a panic" -/
abbrev NSE (m : SM α β) : Prop := Pres (fun _ => True) HandlerErr (fun _ => True) m

variable [Num α]

theorem eventsAdd_go_nse (vi ei : Nat) (p : Pt α) (l : List (Nat × List Nat)) :
    NSE (eventsAdd.go vi ei p l) := by
  have hI : VEInv (fun _ : St α => True) := veInv_true
  have hE : PanicOk (HandlerErr : SErr α → Prop) := panicOk_handlerErr
  induction l with
  | nil => unfold eventsAdd.go; pres_auto
  | cons k ks ih => unfold eventsAdd.go; pres_auto
theorem eventsAdd_nse (vi ei : Nat) : NSE (eventsAdd vi ei : SM α _) := by
  have hI : VEInv (fun _ : St α => True) := veInv_true
  have hE : PanicOk (HandlerErr : SErr α → Prop) := panicOk_handlerErr
  unfold eventsAdd; pres_auto

theorem handleStart_nse (p : Pt α) (lp1 lp2 : Nat) : NSE (handleStart p lp1 lp2) := by
  have hI : VEInv (fun _ : St α => True) := veInv_true
  have hE : PanicOk (HandlerErr : SErr α → Prop) := panicOk_handlerErr
  unfold handleStart; pres_auto
theorem handleBend_nse (p : Pt α) (lp1 lp2 : Nat) (r : List Nat) : NSE (handleBend p lp1 lp2 r) := by
  have hI : VEInv (fun _ : St α => True) := veInv_true
  have hE : PanicOk (HandlerErr : SErr α → Prop) := panicOk_handlerErr
  unfold handleBend; pres_auto
theorem handleEnd_nse (p : Pt α) (r : List Nat) : NSE (handleEnd p r) := by
  have hI : VEInv (fun _ : St α => True) := veInv_true
  have hE : PanicOk (HandlerErr : SErr α → Prop) := panicOk_handlerErr
  unfold handleEnd; pres_auto
theorem handleNext_nse : NSE (handleNext : SM α _) := by
  have hI : VEInv (fun _ : St α => True) := veInv_true
  have hE : PanicOk (HandlerErr : SErr α → Prop) := panicOk_handlerErr
  unfold handleNext; pres_auto
theorem handleNext_spec :
    Pres (fun _ => True) LoopErr (fun _ => True) (handleNext : SM α _) :=
  handleNext_nse.mono_err (fun _ h => h.loopErr)
theorem loop_nse (fuel : Nat) :
    Pres (fun _ => True) LoopErr (fun _ => True) (loop fuel : SM α _) := by
  induction fuel with
  | zero => unfold loop; pres_auto
  | succ fuel ih => unfold loop; pres_auto

theorem eventsInsertStart_go_nse (vi : Nat) (p : Pt α) (l : List (Nat × List Nat)) :
    NSE (eventsInsertStart.go vi p l) := by
  have hI : VEInv (fun _ : St α => True) := veInv_true
  have hE : PanicOk (HandlerErr : SErr α → Prop) := panicOk_handlerErr
  induction l with
  | nil => unfold eventsInsertStart.go; pres_auto
  | cons k ks ih => unfold eventsInsertStart.go; pres_auto
theorem eventsInsertStart_nse (vi : Nat) : NSE (eventsInsertStart vi : SM α _) := by
  have hI : VEInv (fun _ : St α => True) := veInv_true
  have hE : PanicOk (HandlerErr : SErr α → Prop) := panicOk_handlerErr
  unfold eventsInsertStart; pres_auto

/-- **the sweep proper never reports a set-up error** -/
theorem loop_error {fuel : Nat} {s : St α} {e : SErr α} (h : (loop fuel).run s = .error e) :
    e ≠ .noPolygon ∧ e ≠ .nonFinite ∧ ∀ p, e ≠ .duplicate p := by
  have := (loop_nse (α := α) fuel).err (s := s) True.intro h
  cases e <;> simp_all [LoopErr]

theorem eventsInsertStart_error {vi : Nat} {s : St α} {e : SErr α}
    (h : (eventsInsertStart vi).run s = .error e) :
    e ≠ .noPolygon ∧ e ≠ .nonFinite ∧ ∀ p, e ≠ .duplicate p := by
  have := (eventsInsertStart_nse (α := α) vi).err (s := s) True.intro h
  cases e <;> simp_all [HandlerErr]

end Cav.SweepNSE
