/-
  Output of the sweep on general valid input, part 13: the arc invariant `ArcInv` is preserved by
  the BEND event.  The active edge `a0 = (u → w)` ending in the Bend vertex `w` is an end of exactly
  one arc; this arc is extended by `w` at its head (if `w = nxt u`) or at its tail (if `w = prv u`),
  all other arcs are untouched.  Ids and hence all positions are unchanged and the half-turn at a
  Bend vertex is `0`.
-/
import Cav.Lemmas.GenOutArcA

set_option linter.unusedVariables false
set_option linter.unusedSimpArgs false

namespace Cav.GenOutArc
open Cav Cav.Geo Cav.GenInv

/-! ### replacing an edge by one with the same id -/

theorem mem_replace {F1 F2 : List AE} {a a' e : AE} (he : e ∈ F1 ++ a :: F2) (hne : e ≠ a) :
    e ∈ F1 ++ a' :: F2 := by
  rcases List.mem_append.mp he with h | h
  · exact List.mem_append_left _ h
  · rcases List.mem_cons.mp h with h | h
    · exact absurd h hne
    · exact List.mem_append_right _ (List.mem_cons_of_mem _ h)

theorem mem_replace_id {F1 F2 : List AE} {a a' e : AE} (hid : a'.id = a.id)
    (he : e ∈ F1 ++ a' :: F2) : ∃ e0 ∈ F1 ++ a :: F2, e0.id = e.id := by
  rcases List.mem_append.mp he with h | h
  · exact ⟨e, List.mem_append_left _ h, rfl⟩
  · rcases List.mem_cons.mp h with h | h
    · exact ⟨a, List.mem_append_right _ List.mem_cons_self, by rw [h, hid]⟩
    · exact ⟨e, List.mem_append_right _ (List.mem_cons_of_mem _ h), rfl⟩

theorem mem_mid {F1 F2 : List AE} {a : AE} : a ∈ F1 ++ a :: F2 :=
  List.mem_append_right _ List.mem_cons_self

/-- an arc none of whose ends is the replaced edge stays an arc -/
theorem arcOK_replace {R : RingQ} {xs xs' : Rat} {F1 F2 : List AE} {a a' : AE} {α : Arc}
    (hid : a'.id = a.id) (hx : xs ≤ xs') (h : ArcOK R xs (F1 ++ a :: F2) α)
    (ht : α.t ≠ a.id) (hh : α.h ≠ a.id) : ArcOK R xs' (F1 ++ a' :: F2) α where
  tail := by
    obtain ⟨e, he, h1⟩ := h.tail
    refine ⟨e, mem_replace he ?_, h1⟩
    rintro rfl; exact ht h1.1.symm
  head := by
    obtain ⟨e, he, h1⟩ := h.head
    refine ⟨e, mem_replace he ?_, h1⟩
    rintro rfl; exact hh h1.1.symm
  lt := h.lt
  le := fun j hj => le_trans (h.le j hj) hx
  sum := by
    simp only [pos_replace hid]
    exact h.sum

theorem nonCross_congr {E E' : List AE} (hpos : ∀ i, pos E' i = pos E i) {α α' β β' : Arc}
    (h1 : α'.t = α.t) (h2 : α'.h = α.h) (h3 : β'.t = β.t) (h4 : β'.h = β.h)
    (h : NonCross E α β) : NonCross E' α' β' := by
  unfold NonCross at *
  rw [h1, h2, h3, h4]
  simp only [hpos]
  exact h

theorem t_ne_h : ∀ {A : List Arc}, (A.flatMap fun α => [α.t, α.h]).Nodup → ∀ β ∈ A, β.t ≠ β.h
  | [], _, β, hβ => by cases hβ
  | α :: A, h, β, hβ => by
    rw [List.flatMap_cons, List.nodup_append] at h
    rcases List.mem_cons.mp hβ with rfl | hβ
    · have := h.1
      simpa using this
    · exact t_ne_h h.2.1 β hβ

/-! ### the edge of an end -/

theorem tail_eq {R : RingQ} {xs : Rat} {E : List AE} (hE : EOK R xs E) {a0 : AE} (ha0 : a0 ∈ E)
    {β : Arc} (hβ : ArcOK R xs E β) (h : β.t = a0.id) :
    a0.lv = β.v0 ∧ a0.rv = R.prv β.v0 := by
  obtain ⟨e, he, e1, e2, e3⟩ := hβ.tail
  obtain rfl : e = a0 := eq_of_id hE.ids he ha0 (e1.trans h)
  exact ⟨e2, e3⟩

theorem head_eq {R : RingQ} {xs : Rat} {E : List AE} (hE : EOK R xs E) {a0 : AE} (ha0 : a0 ∈ E)
    {β : Arc} (hβ : ArcOK R xs E β) (h : β.h = a0.id) :
    a0.lv = R.nxt^[β.k] β.v0 ∧ a0.rv = R.nxt (R.nxt^[β.k] β.v0) := by
  obtain ⟨e, he, e1, e2, e3⟩ := hβ.head
  obtain rfl : e = a0 := eq_of_id hE.ids he ha0 (e1.trans h)
  exact ⟨e2, e3⟩

/-- an edge `u → nxt u` is not a tail edge -/
theorem not_tail {R : RingQ} {V : Array (Vtx XQ)} (hR : RingOK R V) {xs : Rat} {E : List AE}
    (hE : EOK R xs E) {a0 : AE} (ha0 : a0 ∈ E) {w : Nat} (hw : w < R.n) (hrv : a0.rv = w)
    (hp : R.prv w = a0.lv) {β : Arc} (hβ : ArcOK R xs E β) (h : β.t = a0.id) : False := by
  obtain ⟨e1, e2⟩ := tail_eq hE ha0 hβ h
  have hu := (hE.span a0 ha0).lv_lt
  have h1 : R.nxt a0.lv = w := by rw [← hp]; exact hR.nxt_prv w hw
  have h2 : R.prv a0.lv = w := by rw [e1, ← e2, hrv]
  exact hR.ne _ hu (h2.trans h1.symm)

/-- an edge `u → prv u` is not a head edge -/
theorem not_head {R : RingQ} {V : Array (Vtx XQ)} (hR : RingOK R V) {xs : Rat} {E : List AE}
    (hE : EOK R xs E) {a0 : AE} (ha0 : a0 ∈ E) {w : Nat} (hw : w < R.n) (hrv : a0.rv = w)
    (hn : R.nxt w = a0.lv) {β : Arc} (hβ : ArcOK R xs E β) (h : β.h = a0.id) : False := by
  obtain ⟨e1, e2⟩ := head_eq hE ha0 hβ h
  have hu := (hE.span a0 ha0).lv_lt
  have h1 : R.prv a0.lv = w := by rw [← hn]; exact hR.prv_nxt w hw
  have h2 : R.nxt a0.lv = w := by rw [e1, ← e2, hrv]
  exact hR.ne _ hu (h1.trans h2.symm)

/-! ### the half-turn at a Bend vertex -/

theorem turnE_bend {R : RingQ} {w : Nat} (h1 : R.x (R.prv w) < R.x w) (h2 : R.x w < R.x (R.nxt w)) :
    turnE R w = 0 := by
  unfold turnE
  rw [if_neg]
  rintro (⟨a, b⟩ | ⟨a, b⟩)
  · exact absurd (lt_trans b h2) (lt_irrefl _)
  · exact absurd (lt_trans a h1) (lt_irrefl _)

theorem turnE_bend' {R : RingQ} {w : Nat} (h1 : R.x (R.nxt w) < R.x w) (h2 : R.x w < R.x (R.prv w)) :
    turnE R w = 0 := by
  unfold turnE
  rw [if_neg]
  rintro (⟨a, b⟩ | ⟨a, b⟩)
  · exact absurd (lt_trans a h2) (lt_irrefl _)
  · exact absurd (lt_trans b h1) (lt_irrefl _)

/-! ### the Bend event with an abstract modification of the arcs -/

theorem arc_bend_core {R : RingQ} {V : Array (Vtx XQ)} (hR : RingOK R V) {xs : Rat}
    {F1 F2 : List AE} {a0 a0' : AE} {A : List Arc} {D : List Cyc}
    (hA : ArcInv R xs (F1 ++ a0 :: F2) A D) (hid : a0'.id = a0.id)
    {w : Nat} (hw : w < R.n) (hxs : xs < R.x w)
    (hgap : ∀ v, v < R.n → xs < R.x v → R.x w ≤ R.x v)
    (g : Arc → Arc) (gt : ∀ β, (g β).t = β.t) (gh : ∀ β, (g β).h = β.h)
    (gok : ∀ β ∈ A, ArcOK R (R.x w) (F1 ++ a0' :: F2) (g β))
    (gcov : ∀ β ∈ A, ∀ j, j ≤ β.k → ∃ j', j' ≤ (g β).k ∧ R.nxt^[j] β.v0 = R.nxt^[j'] (g β).v0)
    (gw : ∃ β ∈ A, ∃ j, j ≤ (g β).k ∧ w = R.nxt^[j] (g β).v0) :
    ArcInv R (R.x w) (F1 ++ a0' :: F2) (A.map g) D where
  arcs := by
    intro α hα
    obtain ⟨β, hβ, rfl⟩ := List.mem_map.mp hα
    exact gok β hβ
  ends := by
    intro e he
    obtain ⟨e0, he0, h0⟩ := mem_replace_id hid he
    obtain ⟨β, hβ, h1⟩ := hA.ends e0 he0
    refine ⟨g β, List.mem_map_of_mem hβ, ?_⟩
    rw [gt, gh, ← h0]
    exact h1
  nd := by
    simp only [List.flatMap_map, gt, gh]
    exact hA.nd
  nc := by
    rw [List.pairwise_map]
    exact hA.nc.imp fun {α β} h =>
      nonCross_congr (pos_replace hid) (gt α) (gh α) (gt β) (gh β) h
  cyc := hA.cyc
  cover := by
    intro v hv hx
    by_cases hvx : R.x v ≤ xs
    · rcases hA.cover v hv hvx with ⟨α, hα, j, hj, h1⟩ | h1
      · obtain ⟨j', hj', h2⟩ := gcov α hα j hj
        exact Or.inl ⟨g α, List.mem_map_of_mem hα, j', hj', h1.trans h2⟩
      · exact Or.inr h1
    · have h1 := hgap v hv (not_le.mp hvx)
      have h2 : v = w := hR.distinct v w hv hw (le_antisymm hx h1)
      obtain ⟨β, hβ, j, hj, h3⟩ := gw
      exact Or.inl ⟨g β, List.mem_map_of_mem hβ, j, hj, h2.trans h3⟩

/-! ### extension at the head -/

/-- extend the arc with head id `i` by one step at its head -/
def extH (i : Nat) (β : Arc) : Arc := if β.h = i then ⟨β.v0, β.k + 1, β.t, β.h⟩ else β

theorem extH_t (i : Nat) (β : Arc) : (extH i β).t = β.t := by unfold extH; split_ifs <;> rfl
theorem extH_h (i : Nat) (β : Arc) : (extH i β).h = β.h := by unfold extH; split_ifs <;> rfl
theorem extH_v0 (i : Nat) (β : Arc) : (extH i β).v0 = β.v0 := by unfold extH; split_ifs <;> rfl
theorem extH_k (i : Nat) (β : Arc) : β.k ≤ (extH i β).k := by
  unfold extH; split_ifs
  · exact Nat.le_succ _
  · exact Nat.le_refl _

/-- the arc whose head edge is `a0 = (u → w)`, `w = nxt u`, extended by the Bend vertex `w` -/
theorem arcOK_extH {R : RingQ} {V : Array (Vtx XQ)} (hR : RingOK R V) {xs : Rat}
    {F1 F2 : List AE} {a0 : AE} (hE : EOK R xs (F1 ++ a0 :: F2))
    {w w' : Nat} (hw : w < R.n) (hxs : xs < R.x w) (hrv : a0.rv = w)
    (hp : R.prv w = a0.lv) (hn : R.nxt w = w') (hxu : R.x a0.lv < R.x w) (hxw' : R.x w < R.x w')
    {β : Arc} (hβ : ArcOK R xs (F1 ++ a0 :: F2) β) (hh : β.h = a0.id) (hth : β.t ≠ β.h) :
    ArcOK R (R.x w) (F1 ++ ⟨a0.id, w, w'⟩ :: F2) ⟨β.v0, β.k + 1, β.t, β.h⟩ := by
  obtain ⟨e1, e2⟩ := head_eq hE mem_mid hβ hh
  have hwk : R.nxt^[β.k + 1] β.v0 = w := by
    rw [Function.iterate_succ_apply', ← e2, hrv]
  refine ⟨?_, ?_, ?_, ?_, ?_⟩
  · obtain ⟨e, he, h1⟩ := hβ.tail
    refine ⟨e, mem_replace he ?_, h1⟩
    rintro rfl; exact hth (h1.1.symm.trans hh.symm)
  · refine ⟨⟨a0.id, w, w'⟩, mem_mid, hh.symm, ?_, ?_⟩
    · exact hwk.symm
    · show w' = R.nxt (R.nxt^[β.k + 1] β.v0)
      rw [hwk, hn]
  · intro j hj
    rcases Nat.lt_or_ge j (β.k + 1) with h | h
    · exact hβ.lt j (Nat.le_of_lt_succ h)
    · obtain rfl : j = β.k + 1 := Nat.le_antisymm hj h
      show R.nxt^[β.k + 1] β.v0 < R.n
      rw [hwk]; exact hw
  · intro j hj
    rcases Nat.lt_or_ge j (β.k + 1) with h | h
    · exact le_trans (hβ.le j (Nat.le_of_lt_succ h)) (le_of_lt hxs)
    · obtain rfl : j = β.k + 1 := Nat.le_antisymm hj h
      show R.x (R.nxt^[β.k + 1] β.v0) ≤ R.x w
      rw [hwk]
  · show uSum R β.v0 (β.k + 1) = if pos _ β.h < pos _ β.t then 1 else -1
    rw [uSum_succ, hwk, turnE_bend (by rw [hp]; exact hxu) (by rw [hn]; exact hxw'), add_zero]
    simp only [pos_replace (a' := ⟨a0.id, w, w'⟩) (a := a0) rfl]
    exact hβ.sum

/-! ### extension at the tail -/

/-- extend the arc with tail id `i` by the vertex `w` at its tail -/
def extT (i w : Nat) (β : Arc) : Arc := if β.t = i then ⟨w, β.k + 1, β.t, β.h⟩ else β

theorem extT_t (i w : Nat) (β : Arc) : (extT i w β).t = β.t := by unfold extT; split_ifs <;> rfl
theorem extT_h (i w : Nat) (β : Arc) : (extT i w β).h = β.h := by unfold extT; split_ifs <;> rfl

/-- the arc whose tail edge is `a0 = (u → w)`, `w = prv u`, extended by the Bend vertex `w` -/
theorem arcOK_extT {R : RingQ} {V : Array (Vtx XQ)} (hR : RingOK R V) {xs : Rat}
    {F1 F2 : List AE} {a0 : AE} (hE : EOK R xs (F1 ++ a0 :: F2))
    {w w' : Nat} (hw : w < R.n) (hxs : xs < R.x w) (hrv : a0.rv = w)
    (hp : R.prv w = w') (hn : R.nxt w = a0.lv) (hxu : R.x a0.lv < R.x w) (hxw' : R.x w < R.x w')
    {β : Arc} (hβ : ArcOK R xs (F1 ++ a0 :: F2) β) (ht : β.t = a0.id) (hth : β.t ≠ β.h) :
    ArcOK R (R.x w) (F1 ++ ⟨a0.id, w, w'⟩ :: F2) ⟨w, β.k + 1, β.t, β.h⟩ := by
  obtain ⟨e1, e2⟩ := tail_eq hE mem_mid hβ ht
  have hnv : R.nxt w = β.v0 := hn.trans e1
  have hit : ∀ j, R.nxt^[j + 1] w = R.nxt^[j] β.v0 := by
    intro j; rw [Function.iterate_succ_apply, hnv]
  refine ⟨?_, ?_, ?_, ?_, ?_⟩
  · exact ⟨⟨a0.id, w, w'⟩, mem_mid, ht.symm, rfl, hp.symm⟩
  · obtain ⟨e, he, h1, h2, h3⟩ := hβ.head
    refine ⟨e, mem_replace he ?_, h1, ?_, ?_⟩
    · rintro rfl; exact hth (ht.trans h1)
    · show e.lv = R.nxt^[β.k + 1] w
      rw [hit]; exact h2
    · show e.rv = R.nxt (R.nxt^[β.k + 1] w)
      rw [hit]; exact h3
  · intro j hj
    cases j with
    | zero => exact hw
    | succ j =>
      show R.nxt^[j + 1] w < R.n
      rw [hit]; exact hβ.lt j (Nat.le_of_succ_le_succ hj)
  · intro j hj
    cases j with
    | zero => exact le_refl _
    | succ j =>
      show R.x (R.nxt^[j + 1] w) ≤ R.x w
      rw [hit]; exact le_trans (hβ.le j (Nat.le_of_succ_le_succ hj)) (le_of_lt hxs)
  · show uSum R w (β.k + 1) = if pos _ β.h < pos _ β.t then 1 else -1
    rw [uSum_succ', hnv, turnE_bend' (by rw [hn]; exact hxu) (by rw [hp]; exact hxw'), zero_add]
    simp only [pos_replace (a' := ⟨a0.id, w, w'⟩) (a := a0) rfl]
    exact hβ.sum

/-! ### (A3) the Bend event -/

/-- **Bend event**: the arc invariant is preserved -/
theorem arc_bend {R : RingQ} {V : Array (Vtx XQ)} (hR : RingOK R V) {xs : Rat} {F1 F2 : List AE} {a0 : AE}
    {A : List Arc} {D : List Cyc} (hA : ArcInv R xs (F1 ++ a0 :: F2) A D) (hE : EOK R xs (F1 ++ a0 :: F2))
    {w u w' : Nat} (hw : w < R.n) (hxs : xs < R.x w)
    (hgap : ∀ v, v < R.n → xs < R.x v → R.x w ≤ R.x v)
    (hnb : (R.prv w = u ∧ R.nxt w = w') ∨ (R.prv w = w' ∧ R.nxt w = u))
    (hxu : R.x u < R.x w) (hxw' : R.x w < R.x w') (hlv : a0.lv = u) (hrv : a0.rv = w)
    (hE' : EOK R (R.x w) (F1 ++ ⟨a0.id, w, w'⟩ :: F2)) :
    ∃ A' D', ArcInv R (R.x w) (F1 ++ ⟨a0.id, w, w'⟩ :: F2) A' D' := by
  subst hlv
  have ha0 : a0 ∈ F1 ++ a0 :: F2 := mem_mid
  obtain ⟨α, hα, hth⟩ := hA.ends a0 ha0
  rcases hnb with ⟨hp, hn⟩ | ⟨hp, hn⟩
  · -- `w = nxt u`: `a0` is a head edge
    have hαh : α.h = a0.id :=
      hth.resolve_left fun h => not_tail hR hE ha0 hw hrv hp (hA.arcs α hα) h
    refine ⟨A.map (extH a0.id), D, arc_bend_core (a0' := ⟨a0.id, w, w'⟩) hR hA rfl hw hxs hgap _ (extH_t _) (extH_h _)
      ?_ ?_ ?_⟩
    · intro β hβ
      by_cases hh : β.h = a0.id
      · have : extH a0.id β = ⟨β.v0, β.k + 1, β.t, β.h⟩ := by unfold extH; rw [if_pos hh]
        rw [this]
        exact arcOK_extH hR hE hw hxs hrv hp hn hxu hxw' (hA.arcs β hβ) hh (t_ne_h hA.nd β hβ)
      · have : extH a0.id β = β := by unfold extH; rw [if_neg hh]
        rw [this]
        refine arcOK_replace (a := a0) rfl (le_of_lt hxs) (hA.arcs β hβ) ?_ hh
        exact fun h => not_tail hR hE ha0 hw hrv hp (hA.arcs β hβ) h
    · intro β hβ j hj
      exact ⟨j, le_trans hj (extH_k _ _), by rw [extH_v0]⟩
    · have : extH a0.id α = ⟨α.v0, α.k + 1, α.t, α.h⟩ := by unfold extH; rw [if_pos hαh]
      refine ⟨α, hα, α.k + 1, by rw [this], ?_⟩
      rw [this]
      obtain ⟨e1, e2⟩ := head_eq hE ha0 (hA.arcs α hα) hαh
      show w = R.nxt^[α.k + 1] α.v0
      rw [Function.iterate_succ_apply', ← e2, hrv]
  · -- `w = prv u`: `a0` is a tail edge
    have hαt : α.t = a0.id :=
      hth.resolve_right fun h => not_head hR hE ha0 hw hrv hn (hA.arcs α hα) h
    refine ⟨A.map (extT a0.id w), D, arc_bend_core (a0' := ⟨a0.id, w, w'⟩) hR hA rfl hw hxs hgap _ (extT_t _ _)
      (extT_h _ _) ?_ ?_ ?_⟩
    · intro β hβ
      by_cases ht : β.t = a0.id
      · have : extT a0.id w β = ⟨w, β.k + 1, β.t, β.h⟩ := by unfold extT; rw [if_pos ht]
        rw [this]
        exact arcOK_extT hR hE hw hxs hrv hp hn hxu hxw' (hA.arcs β hβ) ht (t_ne_h hA.nd β hβ)
      · have : extT a0.id w β = β := by unfold extT; rw [if_neg ht]
        rw [this]
        refine arcOK_replace (a := a0) rfl (le_of_lt hxs) (hA.arcs β hβ) ht ?_
        exact fun h => not_head hR hE ha0 hw hrv hn (hA.arcs β hβ) h
    · intro β hβ j hj
      by_cases ht : β.t = a0.id
      · have : extT a0.id w β = ⟨w, β.k + 1, β.t, β.h⟩ := by unfold extT; rw [if_pos ht]
        rw [this]
        obtain ⟨e1, e2⟩ := tail_eq hE ha0 (hA.arcs β hβ) ht
        refine ⟨j + 1, Nat.succ_le_succ hj, ?_⟩
        show R.nxt^[j] β.v0 = R.nxt^[j + 1] w
        rw [Function.iterate_succ_apply, hn, e1]
      · have : extT a0.id w β = β := by unfold extT; rw [if_neg ht]
        rw [this]
        exact ⟨j, hj, rfl⟩
    · have : extT a0.id w α = ⟨w, α.k + 1, α.t, α.h⟩ := by unfold extT; rw [if_pos hαt]
      refine ⟨α, hα, 0, Nat.zero_le _, ?_⟩
      rw [this]
      rfl

end Cav.GenOutArc
