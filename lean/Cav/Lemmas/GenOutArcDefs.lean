/-
  Output of the sweep on general valid input, part 11: ARCS.  The part of the polygon boundaries
  to the left of the sweep line consists of arcs — maximal processed paths `v0, nxt v0, …,
  nxt^k v0` of the vertex ring — and of completed polygons.  The two ends of an arc are active
  edges: the tail edge `v0 → prv v0` and the head edge `nxt^k v0 → nxt (nxt^k v0)`.  Arcs do not
  cross (planarity), and the sum of the signed half-turns (`turnE`: `+1` for a left turn at a
  Start/End vertex, `-1` for a right turn, `0` at a Bend vertex) along an arc is `+1` if its head
  edge lies below its tail edge on the sweep line and `-1` otherwise.  When the two ends of one
  arc meet in an End vertex `w` the polygon is complete and its half-turns add up to
  `2 * turnE w` (the theorem of turning tangents for simple polygons, in the form needed here).
-/
import Cav.Lemmas.GenInv
import Mathlib.Logic.Function.Iterate

set_option linter.unusedVariables false

namespace Cav.GenOutArc
open Cav Cav.Geo Cav.GenInv

/-- signed half-turn at an extremal vertex (`+1` left turn, `-1` right turn), `0` at a Bend -/
def turnE (R : RingQ) (v : Nat) : Int :=
  if (R.x (R.prv v) < R.x v ∧ R.x (R.nxt v) < R.x v) ∨ (R.x v < R.x (R.prv v) ∧ R.x v < R.x (R.nxt v)) then
    (if 0 < orient (R.pt (R.prv v)) (R.pt v) (R.pt (R.nxt v)) then 1 else -1)
  else 0

/-- position of the edge with id `i` in the active list -/
def pos (E : List AE) (i : Nat) : Nat := (E.map (·.id)).idxOf i

/-- sum of the half-turns along the path `v0, nxt v0, …, nxt^k v0` -/
def uSum (R : RingQ) (v0 k : Nat) : Int :=
  ((List.range (k + 1)).map fun j => turnE R (R.nxt^[j] v0)).sum

/-- an arc: first vertex, number of steps, ids of the active edges at its tail and at its head -/
structure Arc where
  v0 : Nat
  k : Nat
  t : Nat
  h : Nat

structure ArcOK (R : RingQ) (xs : Rat) (E : List AE) (α : Arc) : Prop where
  tail : ∃ a ∈ E, a.id = α.t ∧ a.lv = α.v0 ∧ a.rv = R.prv α.v0
  head : ∃ a ∈ E, a.id = α.h ∧ a.lv = R.nxt^[α.k] α.v0 ∧ a.rv = R.nxt (R.nxt^[α.k] α.v0)
  lt : ∀ j, j ≤ α.k → R.nxt^[j] α.v0 < R.n
  le : ∀ j, j ≤ α.k → R.x (R.nxt^[j] α.v0) ≤ xs
  sum : uSum R α.v0 α.k = if pos E α.h < pos E α.t then 1 else -1

/-- the ends of two arcs do not interleave on the sweep line -/
def NonCross (E : List AE) (α β : Arc) : Prop :=
  ¬ (min (pos E α.t) (pos E α.h) < min (pos E β.t) (pos E β.h) ∧
      min (pos E β.t) (pos E β.h) < max (pos E α.t) (pos E α.h) ∧
      max (pos E α.t) (pos E α.h) < max (pos E β.t) (pos E β.h)) ∧
  ¬ (min (pos E β.t) (pos E β.h) < min (pos E α.t) (pos E α.h) ∧
      min (pos E α.t) (pos E α.h) < max (pos E β.t) (pos E β.h) ∧
      max (pos E β.t) (pos E β.h) < max (pos E α.t) (pos E α.h))

/-- a completed polygon: the path `v0, …, nxt^k v0`, closed by the End vertex `w` -/
structure Cyc where
  v0 : Nat
  k : Nat
  w : Nat

structure CycOK (R : RingQ) (c : Cyc) : Prop where
  close1 : R.nxt (R.nxt^[c.k] c.v0) = c.w
  close2 : R.nxt c.w = c.v0
  wlt : c.w < R.n
  lt : ∀ j, j ≤ c.k → R.nxt^[j] c.v0 < R.n ∧ R.x (R.nxt^[j] c.v0) < R.x c.w
  sum : uSum R c.v0 c.k + turnE R c.w = 2 * turnE R c.w

/-- what is used of the general sweep invariant about the active list -/
structure EOK (R : RingQ) (xs : Rat) (E : List AE) : Prop where
  span : ∀ a ∈ E, Span R xs a
  ids : (E.map (·.id)).Nodup
  uniq : ∀ a ∈ E, ∀ b ∈ E, a.lv = b.lv → a.rv = b.rv → a = b

/-- **the arc invariant** -/
structure ArcInv (R : RingQ) (xs : Rat) (E : List AE) (A : List Arc) (D : List Cyc) : Prop where
  arcs : ∀ α ∈ A, ArcOK R xs E α
  ends : ∀ e ∈ E, ∃ α ∈ A, α.t = e.id ∨ α.h = e.id
  nd : (A.flatMap fun α => [α.t, α.h]).Nodup
  nc : A.Pairwise (NonCross E)
  cyc : ∀ c ∈ D, CycOK R c
  cover : ∀ v, v < R.n → R.x v ≤ xs →
    (∃ α ∈ A, ∃ j, j ≤ α.k ∧ v = R.nxt^[j] α.v0) ∨
    (∃ c ∈ D, v = c.w ∨ ∃ j, j ≤ c.k ∧ v = R.nxt^[j] c.v0)

end Cav.GenOutArc
