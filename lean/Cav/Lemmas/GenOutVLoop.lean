/-
  Output of the sweep WITHOUT the hypothesis of distinct abscissae, part 6: every event keeps the
  strengthened invariant `XInvV` (`xstepV`), the event loop (`xloopV`), the final state
  (`xinvV_final`: `out.length = triCountR`, `areaSum out = areaR` of the SHEARED ring), and the
  result of `sweepMon` on a polygon list whose sheared ring is in order (`outputV_of_shOK`).
-/
import Cav.Lemmas.GenOutVXBendHi
import Cav.Lemmas.GenOutVXMerge
import Cav.Lemmas.GenOutVXSplit
import Cav.Lemmas.GenOutVStepBend
import Cav.Lemmas.GenOutVStepEnd
import Cav.Lemmas.GenOutVStepStart
import Cav.Lemmas.GenOutFinal
import Cav.Lemmas.GenVAcceptW

set_option linter.unusedVariables false
set_option linter.unusedSimpArgs false

namespace Cav.GenOutVLoop
open Cav Num Cav.Geo Cav.Sweep Cav.SweepRun Cav.TriRun Cav.QuadRun Cav.QuadGeom Cav.SweepOut Cav.CvxEvents
open Cav.CvxLoop Cav.TriEvents Cav.GenNodes Cav.GenInv Cav.GenQueue Cav.GenOutShape Cav.GenOutDefs
open Cav.GenOutInv Cav.GenOutCount Cav.GenStep Cav.GenLoop Cav.GenOutLoop Cav.GenOutFinal Cav.GenRing
open Cav.GenSetup Cav.GenAccept Cav.SweepSetup
open Cav.GenVShear Cav.GenVBridge Cav.GenVInv Cav.GenVAccept Cav.GenVSetup
open Cav.GenOutV Cav.GenOutVX Cav.GenOutVStep
open Cav.GenGeom hiding Q

variable {R : RingQ} {ε : Rat} {Vε : Array (Vtx XQ)}

/-- **every event keeps the strengthened invariant**, equal abscissae and vertical edges allowed -/
theorem xstepV (hSh : ShOK R ε Vε) {s : St XQ} {xs X : Rat} {ivs : List IV} {G : Nat → CH}
    (hX : XInvV R ε s xs X ivs G)
    {w : Nat} {es : List Nat} {rest : List (Nat × List Nat)} (hev : s.events = (w, es) :: rest) :
    ∃ s' ivs' G', (handleNext : SM XQ Unit).run s = .ok ((), s') ∧
      XInvV R ε s' ((shearRing ε R).x w) (R.x w) ivs' G' := by
  have hI := hX.inv
  have hR := hSh.ring
  have hN := hSh.nocross
  have hq := hI.q
  rw [hev] at hq
  have hwn : w < R.n := (hq.gt (w, es) List.mem_cons_self).1
  have hpn := hR.prv_lt w hwn
  have hnn := hR.nxt_lt w hwn
  have hp : (shearRing ε R).x (R.prv w) ≠ (shearRing ε R).x w := by
    intro e
    have e' := hR.distinct _ _ hpn hwn e
    have h1 := hR.nxt_prv w hwn
    rw [e'] at h1
    exact hR.ne w hwn (e'.trans h1.symm)
  have hn : (shearRing ε R).x (R.nxt w) ≠ (shearRing ε R).x w := by
    intro e
    have e' := hR.distinct _ _ hnn hwn e
    have h1 := hR.prv_nxt w hwn
    rw [e'] at h1
    exact hR.ne w hwn (h1.trans e'.symm)
  have bend : ∀ {u w' : Nat}, ((R.prv w = u ∧ R.nxt w = w') ∨ (R.prv w = w' ∧ R.nxt w = u)) →
      (shearRing ε R).x u < (shearRing ε R).x w → (shearRing ε R).x w < (shearRing ε R).x w' →
      ∃ s' ivs' G', (handleNext : SM XQ Unit).run s = .ok ((), s') ∧
        XInvV R ε s' ((shearRing ε R).x w) (R.x w) ivs' G' := by
    intro u w' hnb hxu hxw'
    obtain ⟨pre, iv, post, rfl, hB | hB⟩ := stepW_bend_x hSh hI hev hnb hxu hxw'
    · obtain ⟨s', G', hr, hX'⟩ := xbendV_lo hSh hX hev hnb hxu hxw' hB
      exact ⟨s', _, G', hr, hX'⟩
    · obtain ⟨s', G', hr, hX'⟩ := xbendV_hi hSh hX hev hnb hxu hxw' hB
      exact ⟨s', _, G', hr, hX'⟩
  have start : ∀ {wB wT : Nat}, ((R.prv w = wB ∧ R.nxt w = wT) ∨ (R.prv w = wT ∧ R.nxt w = wB)) →
      (shearRing ε R).x w < (shearRing ε R).x wB → (shearRing ε R).x w < (shearRing ε R).x wT →
      0 < orient ((shearRing ε R).pt w) ((shearRing ε R).pt wB) ((shearRing ε R).pt wT) →
      ∃ s' ivs' G', (handleNext : SM XQ Unit).run s = .ok ((), s') ∧
        XInvV R ε s' ((shearRing ε R).x w) (R.x w) ivs' G' := by
    intro wB wT hnb hxB hxT ho
    rcases stepW_start_x hSh hI hev hnb hxB hxT ho with ⟨pre, post, rfl, hS⟩ | ⟨pre, iv, post, rfl, hS⟩
    · obtain ⟨s', G', hr, hX'⟩ := xstartV_proper hSh hX hev hnb hxB hxT ho hS
      exact ⟨s', _, G', hr, hX'⟩
    · obtain ⟨s', G', hr, hX'⟩ := xstartV_split hSh hX hev hnb hxB hxT ho hS
      exact ⟨s', _, G', hr, hX'⟩
  rcases lt_or_gt_of_ne hp with h0 | h0 <;> rcases lt_or_gt_of_ne hn with h1 | h1
  · rcases stepW_end_x hSh hI hev h0 h1 with ⟨pre, iv, post, rfl, hE⟩ | ⟨pre, iv1, iv2, post, rfl, hE⟩
    · obtain ⟨s', G', hr, hX'⟩ := xendV_close hSh hX hev h0 h1 hE
      exact ⟨s', _, G', hr, hX'⟩
    · obtain ⟨s', G', hr, hX'⟩ := xendV_merge hSh hX hev h0 h1 hE
      exact ⟨s', _, G', hr, hX'⟩
  · exact bend (Or.inl ⟨rfl, rfl⟩) h0 h1
  · exact bend (Or.inr ⟨rfl, rfl⟩) h1 h0
  · have hne : R.prv w ≠ R.nxt w := hR.ne w hwn
    rcases lt_trichotomy 0 (orient ((shearRing ε R).pt w) ((shearRing ε R).pt (R.prv w))
        ((shearRing ε R).pt (R.nxt w))) with ho | ho | ho
    · exact start (Or.inl ⟨rfl, rfl⟩) h0 h1 ho
    · exfalso
      rcases le_total ((shearRing ε R).x (R.prv w)) ((shearRing ε R).x (R.nxt w)) with hle | hle
      · exact fan_ne hN hwn hpn hnn (Or.inr rfl) (Or.inl rfl) hne h0 h1 hle ho.symm
      · apply fan_ne hN hwn hnn hpn (Or.inl rfl) (Or.inr rfl) (Ne.symm hne) h1 h0 hle
        show orient ((shearRing ε R).pt w) ((shearRing ε R).pt (R.nxt w)) ((shearRing ε R).pt (R.prv w)) = 0
        have := orient_swap ((shearRing ε R).pt w) ((shearRing ε R).pt (R.prv w)) ((shearRing ε R).pt (R.nxt w))
        linarith
    · refine start (Or.inr ⟨rfl, rfl⟩) h1 h0 ?_
      have := orient_swap ((shearRing ε R).pt w) ((shearRing ε R).pt (R.prv w)) ((shearRing ε R).pt (R.nxt w))
      linarith

/-- what the strengthened invariant says when the queue is empty -/
theorem xinvV_final (hSh : ShOK R ε Vε) {s : St XQ} {xs X : Rat} {ivs : List IV} {G : Nat → CH}
    (hX : XInvV R ε s xs X ivs G) (hev : s.events = []) :
    s.mono = true ∧ s.out.length = triCountR (shearRing ε R) ∧ areaSum s.out = areaR (shearRing ε R) ∧
      (∀ v, v < R.n → Coh (shearRing ε R) v) ∧
      (∀ v, v < R.n → (∀ u, u < R.n → (shearRing ε R).x u ≤ (shearRing ε R).x v) →
        vWeight (shearRing ε R) v = 0) ∧
      ∀ tr ∈ s.out, 0 < triArea tr := by
  have hI := hX.inv
  have hq := hI.q
  rw [hev] at hq
  obtain ⟨hE, hall⟩ := all_done hSh.ring hq hI.cross
  have hivs : ivs = [] := by
    cases ivs with
    | nil => rfl
    | cons a r => simp at hE
  subst hivs
  obtain ⟨h1, h2⟩ := cnt_wDone_right hSh.ring hall
  refine ⟨hI.mono, ?_, ?_, fun v hv => hX.coh v hv (hall v hv),
    fun v hv hmax => hX.fin rfl v hv (hall v hv) (fun u hu _ => hmax u hu), hX.posA⟩
  · have := hX.count
    simpa [h1] using this
  · have := hX.area
    simpa [h2] using this

/-- **the event loop from a state with the strengthened invariant** -/
theorem xloopV (hSh : ShOK R ε Vε) : ∀ (fuel : Nat) (s : St XQ) (xs X : Rat) (ivs : List IV)
    (G : Nat → CH), XInvV R ε s xs X ivs G → meas (shearRing ε R) xs < fuel →
    ∃ s', (loop fuel).run s = .ok ((), s') ∧ s'.mono = true ∧
      s'.out.length = triCountR (shearRing ε R) ∧ areaSum s'.out = areaR (shearRing ε R) ∧
      (∀ v, v < R.n → Coh (shearRing ε R) v) ∧
      (∀ v, v < R.n → (∀ u, u < R.n → (shearRing ε R).x u ≤ (shearRing ε R).x v) →
        vWeight (shearRing ε R) v = 0) ∧
      ∀ tr ∈ s'.out, 0 < triArea tr
  | 0, _, _, _, _, _, _, h => by omega
  | fuel + 1, s, xs, X, ivs, G, hX, hf => by
    rw [loop_succ_run]
    cases hev : s.events with
    | nil =>
      exact ⟨s, by simp, xinvV_final hSh hX hev⟩
    | cons ev rest =>
      obtain ⟨w, es⟩ := ev
      obtain ⟨s1, ivs', G', hrun, hX'⟩ := xstepV hSh hX hev
      have hq := hX.inv.q
      rw [hev] at hq
      have hwq := hq.gt (w, es) List.mem_cons_self
      have hm : meas (shearRing ε R) ((shearRing ε R).x w) < meas (shearRing ε R) xs :=
        meas_lt hwq.1 hwq.2
      obtain ⟨s', hl, hrest⟩ := xloopV hSh fuel s1 _ _ ivs' G' hX' (by omega)
      refine ⟨s', ?_, hrest⟩
      simp only [List.isEmpty_cons, Bool.false_eq_true, if_false, hrun]
      exact hl

/-- the strengthened invariant holds after the set-up phase -/
theorem xinvV_init (hSh : ShOK R ε Vε) {V : Array (Vtx XQ)} {evs : List (Nat × List Nat)} {xs X : Rat}
    (hI : InvV R ε (stQ V evs) xs X []) (hxs : ∀ v, v < R.n → xs < (shearRing ε R).x v) :
    XInvV R ε (stQ V evs) xs X [] (fun _ => ⟨[], (0, (0, 0)), []⟩) := by
  obtain ⟨h1, h2⟩ := cnt_wDone_left hSh.ring hxs
  refine ⟨hI, fun iv h => (by cases h), List.nodup_nil, fun iv h => (by cases h), ?_, ?_, ?_, ?_,
    fun tr h => (by simp [stQ] at h)⟩
  · simp [stQ, h1]
  · simp [stQ, h2, areaSum]
  · intro v hv hle
    exact absurd (hxs v hv) (not_lt.mpr hle)
  · intro _ v hv hle _
    exact absurd (hxs v hv) (not_lt.mpr hle)

/-- **the output of the sweep on a polygon list whose sheared ring is in order** (no hypothesis on
    the abscissae of the polygons themselves), in terms of the SHEARED vertex ring: number of
    triangles, total doubled area, coherence, the last vertex is a closing End vertex, all
    triangles have positive area -/
theorem outputV_of_shOK (polys : List (Array (Rat × Rat))) (h3 : ∀ p ∈ polys, 3 ≤ p.size)
    (hSh : ShOK (ringOf polys) ε Vε) :
    ∃ T, sweepMon (polys.map (fun p => p.map Fq)) = .ok (T, true) ∧
      T.length = triCountR (shearRing ε (ringOf polys)) ∧
      areaSum T = areaR (shearRing ε (ringOf polys)) ∧
      (∀ v, v < (ringOf polys).n → Coh (shearRing ε (ringOf polys)) v) ∧
      (∀ v, v < (ringOf polys).n →
        (∀ u, u < (ringOf polys).n →
          (shearRing ε (ringOf polys)).x u ≤ (shearRing ε (ringOf polys)).x v) →
        vWeight (shearRing ε (ringOf polys)) v = 0) ∧
      ∀ tr ∈ T, 0 < triArea tr := by
  obtain ⟨seen, evs, hset, hE⟩ := setupV_all polys h3 hSh
  obtain ⟨xs, hxs⟩ := exists_lt_all
    ((List.range (ringOf polys).n).map (shearRing ε (ringOf polys)).x)
  obtain ⟨X, hX⟩ := exists_lt_all ((List.range (ringOf polys).n).map (ringOf polys).x)
  have hxs' : ∀ v, v < (ringOf polys).n → xs < (shearRing ε (ringOf polys)).x v :=
    fun v hv => hxs _ (List.mem_map.mpr ⟨v, List.mem_range.mpr hv, rfl⟩)
  have hI : InvV (ringOf polys) ε (stQ (vertsOf (cellsAll 0 polys)) evs) xs X [] :=
    invV_init hSh (vget_vertsOf polys) hE hxs'
      (fun v hv => le_of_lt (hX _ (List.mem_map.mpr ⟨v, List.mem_range.mpr hv, rfl⟩)))
  obtain ⟨s', hl, hm, hlen, harea, hcoh, hfin, hpos⟩ := xloopV hSh ((ringOf polys).n + 1) _ xs X [] _
    (xinvV_init hSh hI hxs') (Nat.lt_succ_of_le (meas_le xs))
  refine ⟨s'.out.reverse, ?_, by rw [List.length_reverse]; exact hlen,
    by rw [areaSum_rev]; exact harea, hcoh, hfin, fun tr h => hpos tr (List.mem_reverse.mp h)⟩
  unfold sweepMon
  rw [run_eq, hset]
  have hsz : (stQ (vertsOf (cellsAll 0 polys)) evs).verts.size = (ringOf polys).n := (vget_vertsOf polys).1
  simp only [hsz, hl, hm]

end Cav.GenOutVLoop
