/-
  The pure geometric tests of the sweep model on finite points in LEXICOGRAPHIC position
  (abscissae may coincide: vertical edges, vertically aligned vertices), expressed through
  orientation determinants.  Lexicographic versions of the lemmas of `QuadGeom.lean`, plus the
  mirrors `vcP`, `wobP`, `wotP` of `QuadVRun.lean`.
-/
import Cav.Lemmas.QuadGeom
import Cav.Lemmas.QuadVRun

set_option linter.unusedSimpArgs false
set_option linter.unusedVariables false

namespace Cav.QuadVGeom
open Cav Num Cav.Geo Cav.Sweep Cav.TriRun Cav.QuadRun Cav.QuadVRun Cav.TriGeom Cav.QuadGeom

/-! ### edges in lexicographic position -/

theorem lexLt_cases {a b : Rat × Rat} (h : lexLt a b) : a.1 < b.1 ∨ (a.1 = b.1 ∧ a.2 < b.2) := h

theorem lexLt_le {a b : Rat × Rat} (h : lexLt a b) : a.1 ≤ b.1 := by
  rcases h with h | ⟨h, -⟩ <;> linarith

/-- height of a vertical edge (right-hand limit): its upper end -/
theorem yE_vert (a b : Rat × Rat) (hx : a.1 = b.1) (hy : a.2 < b.2) :
    yExtrap (Fq a) (Fq b) (.fin b.1) true = .fin b.2 :=
  yE_right a.1 a.2 b.1 b.2 (Or.inr ⟨hx, hy⟩)

theorem grad_vert (a b : Rat × Rat) (hx : a.1 = b.1) (hy : a.2 < b.2) :
    (Fq a).grad (Fq b) = .pinf := by
  have := grad_fin_up a.1 a.2 b.2 hy
  show (F a.1 a.2).grad (F b.1 b.2) = .pinf
  rw [← hx]; exact this

theorem totalCmp_pinf_fin (a : Rat) : Num.totalCmp XQ.pinf (XQ.fin a) = .gt := rfl
theorem ofGe_pinf_fin (a : Rat) : Num.ofGe XQ.pinf (XQ.fin a) = true := rfl

/-- orientation with a vertical edge `a b` (`a.1 = b.1`) -/
theorem orient_vert12 (a b d : Rat × Rat) (hx : a.1 = b.1) :
    orient a b d = - ((b.2 - a.2) * (d.1 - a.1)) := by unfold orient; rw [← hx]; ring
theorem orient_vert13 (a b d : Rat × Rat) (hx : a.1 = d.1) :
    orient a b d = (b.1 - a.1) * (d.2 - a.2) := by unfold orient; rw [← hx]; ring
theorem orient_vert23 (a b d : Rat × Rat) (hx : b.1 = d.1) :
    orient a b d = (b.1 - a.1) * (d.2 - b.2) := by unfold orient; rw [← hx]; ring


theorem yE_vert_left (a b : Rat × Rat) (hx : a.1 = b.1) (hy : a.2 < b.2) :
    yExtrap (Fq a) (Fq b) (.fin a.1) true = .fin b.2 := by
  have := yE_vert a b hx hy
  rwa [← hx] at this

/-! ### `cmpEdgeP` -/

/-- two edges out of the same left point, compared at that point -/
theorem cmpEL_fanL0_lt (a b d : Rat × Rat) (hab : lexLt a b) (had : lexLt a d)
    (ho : 0 < orient a b d) : cmpEdgeP (Fq a) (Fq b) (Fq a) (Fq d) (.fin a.1) = .lt := by
  rcases hab with hab | ⟨hxb, hyb⟩ <;> rcases had with had | ⟨hxd, hyd⟩
  · exact cmpE_fanL0_lt a b d hab had ho
  · refine cmpEdgeP_y_lt (yE_in a b a.1 hab le_rfl hab.le) (yE_vert_left a d hxd hyd) ?_
    rw [lineY_left]; exact hyd
  · exfalso
    rw [orient_vert12 a b d hxb] at ho
    nlinarith [mul_pos (sub_pos.mpr hyb) (sub_pos.mpr had)]
  · exfalso
    rw [orient_vert12 a b d hxb, ← hxd] at ho
    simp at ho

theorem cmpEL_fanL0_gt (a b d : Rat × Rat) (hab : lexLt a b) (had : lexLt a d)
    (ho : orient a b d < 0) : cmpEdgeP (Fq a) (Fq b) (Fq a) (Fq d) (.fin a.1) = .gt := by
  rcases hab with hab | ⟨hxb, hyb⟩ <;> rcases had with had | ⟨hxd, hyd⟩
  · exact cmpE_fanL0_gt a b d hab had ho
  · exfalso
    rw [orient_vert13 a b d hxd] at ho
    nlinarith [mul_pos (sub_pos.mpr hab) (sub_pos.mpr hyd)]
  · refine cmpEdgeP_y_gt (yE_vert_left a b hxb hyb) (yE_in a d a.1 had le_rfl had.le) ?_
    rw [lineY_left]; exact hyb
  · exfalso
    rw [orient_vert12 a b d hxb, ← hxd] at ho
    simp at ho

/-- two edges out of the same left point `a`, compared at an abscissa `x ≥ a.1` -/
theorem cmpEL_fanL_lt (a b d : Rat × Rat) (x : Rat) (hax : a.1 ≤ x) (hxb : x ≤ b.1) (hxd : x ≤ d.1)
    (hab : lexLt a b) (had : lexLt a d) (ho : 0 < orient a b d) :
    cmpEdgeP (Fq a) (Fq b) (Fq a) (Fq d) (.fin x) = .lt := by
  rcases lt_or_eq_of_le hax with h | h
  · exact cmpE_fanL_lt a b d x h hxb hxd ho
  · subst h; exact cmpEL_fanL0_lt a b d hab had ho

theorem cmpEL_fanL_gt (a b d : Rat × Rat) (x : Rat) (hax : a.1 ≤ x) (hxb : x ≤ b.1) (hxd : x ≤ d.1)
    (hab : lexLt a b) (had : lexLt a d) (ho : orient a b d < 0) :
    cmpEdgeP (Fq a) (Fq b) (Fq a) (Fq d) (.fin x) = .gt := by
  rcases lt_or_eq_of_le hax with h | h
  · exact cmpE_fanL_gt a b d x h hxb hxd ho
  · subst h; exact cmpEL_fanL0_gt a b d hab had ho

/-- two non-vertical edges into the same right point `d`, compared at `x ≤ d.1` -/
theorem cmpEL_fanR_lt (a c d : Rat × Rat) (x : Rat) (hax : a.1 ≤ x) (hcx : c.1 ≤ x) (hxd : x ≤ d.1)
    (had : a.1 < d.1) (hcd : c.1 < d.1) (ho : orient a c d < 0) :
    cmpEdgeP (Fq a) (Fq d) (Fq c) (Fq d) (.fin x) = .lt := by
  rcases lt_or_eq_of_le hxd with h | h
  · exact cmpE_fanR_lt a c d x hax hcx h ho
  · subst h
    have hs := slope_sub_sameR a c d had hcd
    have : orient a c d / ((d.1 - a.1) * (d.1 - c.1)) < 0 :=
      neg_div ho (mul_pos (sub_pos.mpr had) (sub_pos.mpr hcd))
    have hy1 := yE_in a d d.1 had had.le le_rfl
    have hy2 := yE_in c d d.1 hcd hcd.le le_rfl
    rw [lineY_right a d had] at hy1
    rw [lineY_right c d hcd] at hy2
    rw [cmpEdgeP_y_eq_end hy1 hy2 (by simp [Pt.eq]), grad_eq_slope a d had, grad_eq_slope c d hcd,
      totalCmp_fin, if_pos (by linarith)]


/-- the key edge starts at `s` (it may be vertical); the other edge `c d` is not vertical -/
theorem cmpEL_ptKey_gt (s b c d : Rat × Rat) (hsb : lexLt s b) (hcd : c.1 < d.1) (hcs : c.1 ≤ s.1)
    (hsd : s.1 ≤ d.1) (ho : 0 < orient c d s) (hv : s.1 = b.1 → b ≠ d → 0 < orient c d b) :
    cmpEdgeP (Fq s) (Fq b) (Fq c) (Fq d) (.fin s.1) = .gt := by
  rcases hsb with h | ⟨hx, hy⟩
  · exact cmpE_ptKey_gt s b c d h hcd hcs hsd ho
  · by_cases hbd : b = d
    · exfalso
      subst hbd
      rw [orient_vert23 c b s hx.symm] at ho
      nlinarith [mul_pos (sub_pos.mpr hcd) (sub_pos.mpr hy)]
    · have hvb := hv hx hbd
      have h := pt_sub_lineY c d b hcd
      have : 0 < orient c d b / (d.1 - c.1) := pos_div hvb (sub_pos.mpr hcd)
      refine cmpEdgeP_y_gt (yE_vert_left s b hx hy) (yE_in c d s.1 hcd hcs hsd) ?_
      rw [hx]; linarith

theorem cmpEL_ptKey_lt (s b c d : Rat × Rat) (hsb : lexLt s b) (hcd : c.1 < d.1) (hcs : c.1 ≤ s.1)
    (hsd : s.1 ≤ d.1) (ho : orient c d s < 0) (hv : s.1 = b.1 → b ≠ d → orient c d b < 0) :
    cmpEdgeP (Fq s) (Fq b) (Fq c) (Fq d) (.fin s.1) = .lt := by
  rcases hsb with h | ⟨hx, hy⟩
  · exact cmpE_ptKey_lt s b c d h hcd hcs hsd ho
  · by_cases hbd : b = d
    · subst hbd
      have hy2 := yE_in c b s.1 hcd hcs hsd
      rw [hx, lineY_right c b hcd, ← hx] at hy2
      rw [cmpEdgeP_y_eq_end (yE_vert_left s b hx hy) hy2 (by simp [Pt.eq, hx]), grad_eq_slope c b hcd,
        grad_vert s b hx hy, totalCmp_fin_pinf]
    · have hvb := hv hx hbd
      have h := pt_sub_lineY c d b hcd
      have : orient c d b / (d.1 - c.1) < 0 := neg_div hvb (sub_pos.mpr hcd)
      refine cmpEdgeP_y_lt (yE_vert_left s b hx hy) (yE_in c d s.1 hcd hcs hsd) ?_
      rw [hx]; linarith

/-- the other edge starts at `s` (it may be vertical, then it ends where the key edge ends);
    the key edge `a b` is not vertical -/
theorem cmpEL_ptOther_lt (a b s d : Rat × Rat) (hab : a.1 < b.1) (hsd : lexLt s d) (has : a.1 ≤ s.1)
    (hsb : s.1 ≤ b.1) (ho : 0 < orient a b s) (hv : s.1 = d.1 → d = b) :
    cmpEdgeP (Fq a) (Fq b) (Fq s) (Fq d) (.fin s.1) = .lt := by
  rcases hsd with h | ⟨hx, hy⟩
  · exact cmpE_ptOther_lt a b s d hab h has hsb ho
  · exfalso
    have hdb := hv hx
    subst hdb
    rw [orient_vert23 a d s hx.symm] at ho
    nlinarith [mul_pos (sub_pos.mpr hab) (sub_pos.mpr hy)]

theorem cmpEL_ptOther_gt (a b s d : Rat × Rat) (hab : a.1 < b.1) (hsd : lexLt s d) (has : a.1 ≤ s.1)
    (hsb : s.1 ≤ b.1) (ho : orient a b s < 0) (hv : s.1 = d.1 → d = b) :
    cmpEdgeP (Fq a) (Fq b) (Fq s) (Fq d) (.fin s.1) = .gt := by
  rcases hsd with h | ⟨hx, hy⟩
  · exact cmpE_ptOther_gt a b s d hab h has hsb ho
  · have hdb := hv hx
    subst hdb
    have hy1 := yE_in a d s.1 hab has hsb
    rw [hx, lineY_right a d hab, ← hx] at hy1
    rw [cmpEdgeP_y_eq_end hy1 (yE_vert_left s d hx hy) (by simp [Pt.eq, hx]), grad_vert s d hx hy,
      grad_eq_slope a d hab, totalCmp_pinf_fin]


/-! ### gradients at a common right end point; `partialCmpEdgeP` -/

theorem ofGeL_true (a c d : Rat × Rat) (had : lexLt a d) (hcd : lexLt c d) (ho : orient a c d < 0) :
    Num.ofGe ((Fq a).grad (Fq d)) ((Fq c).grad (Fq d)) = true := by
  rcases had with had | ⟨hxa, hya⟩ <;> rcases hcd with hcd | ⟨hxc, hyc⟩
  · exact ofGe_gradR_true a c d had hcd ho
  · exfalso
    rw [orient_vert23 a c d hxc] at ho
    nlinarith [mul_pos (sub_pos.mpr (hxc ▸ had)) (sub_pos.mpr hyc)]
  · rw [grad_vert a d hxa hya, grad_eq_slope c d hcd, ofGe_pinf_fin]
  · exfalso
    rw [orient_vert23 a c d hxc, hxc, ← hxa] at ho
    simp at ho

theorem ofGeL_false (a c d : Rat × Rat) (had : lexLt a d) (hcd : lexLt c d) (ho : 0 < orient a c d) :
    Num.ofGe ((Fq a).grad (Fq d)) ((Fq c).grad (Fq d)) = false := by
  rcases had with had | ⟨hxa, hya⟩ <;> rcases hcd with hcd | ⟨hxc, hyc⟩
  · exact ofGe_gradR_false a c d had hcd ho
  · rw [grad_vert c d hxc hyc, grad_eq_slope a d had, ofGe_fin_pinf]
  · exfalso
    rw [orient_vert13 a c d hxa] at ho
    nlinarith [mul_pos (sub_pos.mpr (hxa ▸ hcd)) (sub_pos.mpr hya)]
  · exfalso
    rw [orient_vert23 a c d hxc, hxc, ← hxa] at ho
    simp at ho

theorem partialCmpL_fanL_lt (a b d : Rat × Rat) (x : Rat) (hax : a.1 ≤ x) (hxb : x ≤ b.1)
    (hxd : x ≤ d.1) (hab : a.1 < b.1) (had : a.1 < d.1) (ho : 0 < orient a b d) :
    partialCmpEdgeP (Fq a) (Fq b) (Fq a) (Fq d) (.fin x) = some .lt := by
  rcases lt_or_eq_of_le hax with h | h
  · exact partialCmp_fanL_lt a b d x h hxb hxd ho
  · subst h
    have hs := slope_sub_sameL a b d hab had
    have : 0 < orient a b d / ((b.1 - a.1) * (d.1 - a.1)) :=
      pos_div ho (mul_pos (sub_pos.mpr hab) (sub_pos.mpr had))
    have hsl : slope a b < slope a d := by linarith
    unfold partialCmpEdgeP
    simp only [isFinite_fin, Bool.not_true, Bool.false_eq_true, if_false, yE_in a b a.1 hab le_rfl hab.le,
      yE_in a d a.1 had le_rfl had.le, lineY_left, ofCmp_fin, lt_irrefl, grad_eq_slope a b hab,
      grad_eq_slope a d had, if_pos hsl]

/-! ### `verticalIsCrossed` -/

theorem vcP_nonvert (p rp : Rat × Rat) (ys : List XQ) (h : p.1 < rp.1) :
    vcP (Fq p) (Fq rp) ys = false := by
  unfold vcP
  simp [ne_of_gt h]

theorem vcP_cons (p rp : Rat × Rat) (y : XQ) (ys : List XQ)
    (h1 : rp.1 = p.1 → ¬ (Num.ofLt (Fq p).y y = true ∧ Num.ofLt y (Fq rp).y = true))
    (h2 : vcP (Fq p) (Fq rp) ys = false) : vcP (Fq p) (Fq rp) (y :: ys) = false := by
  unfold vcP at h2 ⊢
  by_cases hx : rp.1 = p.1
  · have h1' := h1 hx
    simp only [F_x, ofEq_fin, hx, decide_true, Bool.not_true, Bool.false_eq_true, if_false,
      List.any_cons, Bool.or_eq_false_iff] at h2 ⊢
    refine ⟨?_, h2⟩
    cases ha : Num.ofLt (Fq p).y y <;> cases hb : Num.ofLt y (Fq rp).y <;> simp_all
  · simp [hx]

/-- the height of the edge `a b` at the abscissa of the vertical edge `p rp` is not strictly
    between them when both end points lie on the same side of the line `a b` -/
theorem nb_sameSide (p rp a b : Rat × Rat) (hab : a.1 < b.1) (h1 : a.1 ≤ p.1) (h2 : p.1 ≤ b.1)
    (hs : (0 < orient a b p ∧ 0 < orient a b rp) ∨ (orient a b p < 0 ∧ orient a b rp < 0))
    (hx : rp.1 = p.1) :
    ¬ (Num.ofLt (Fq p).y (yExtrap (Fq a) (Fq b) (.fin p.1) true) = true ∧
      Num.ofLt (yExtrap (Fq a) (Fq b) (.fin p.1) true) (Fq rp).y = true) := by
  rw [yE_in a b p.1 hab h1 h2]
  have e1 := pt_sub_lineY a b p hab
  have e2 := pt_sub_lineY a b rp hab
  rw [hx] at e2
  simp only [F_y, ofLt_fin, decide_eq_true_eq, not_and, not_lt]
  intro h
  rcases hs with ⟨s1, s2⟩ | ⟨s1, s2⟩
  · have := pos_div s1 (sub_pos.mpr hab); linarith
  · have := neg_div s2 (sub_pos.mpr hab); linarith

/-- the edge `a rp` ends at the upper end of the vertical edge `p rp` -/
theorem nb_endsAt (p rp a : Rat × Rat) (har : a.1 < rp.1) (hx : rp.1 = p.1) :
    ¬ (Num.ofLt (Fq p).y (yExtrap (Fq a) (Fq rp) (.fin p.1) true) = true ∧
      Num.ofLt (yExtrap (Fq a) (Fq rp) (.fin p.1) true) (Fq rp).y = true) := by
  rw [← hx, yE_in a rp rp.1 har har.le le_rfl, lineY_right a rp har]
  simp


/-! ### `willOverlapBot`, `willOverlapTop` -/

theorem yE_lex_right (a d : Rat × Rat) (h : lexLt a d) :
    yExtrap (Fq a) (Fq d) (.fin d.1) true = .fin d.2 := yE_right a.1 a.2 d.1 d.2 h

theorem minTotal_fin_le (x y : Rat) (h : x ≤ y) : minTotal (XQ.fin x) (XQ.fin y) = XQ.fin x := by
  unfold minTotal
  rw [totalCmp_fin]
  rcases lt_or_eq_of_le h with h | h
  · simp [h]
  · subst h; simp

theorem minTotal_fin_ge (x y : Rat) (h : y < x) : minTotal (XQ.fin x) (XQ.fin y) = XQ.fin y := by
  unfold minTotal
  rw [totalCmp_fin]
  simp [h, lt_asymm h]

/-- an edge and its partner end at the same point -/
theorem wobP_sameR (a c d : Rat × Rat) (had : lexLt a d) (hcd : lexLt c d) :
    wobP (Fq a) (Fq d) (Fq c) (Fq d) = false := by
  unfold wobP
  simp only [F_x, ofEq_fin, decide_true, if_true, yE_lex_right a d had, yE_lex_right c d hcd]
  simp

theorem wotP_sameR (a c d : Rat × Rat) (had : lexLt a d) (hcd : lexLt c d) :
    wotP (Fq a) (Fq d) (Fq c) (Fq d) = false := by
  unfold wotP
  simp only [F_x, ofEq_fin, decide_true, if_true, yE_lex_right a d had, yE_lex_right c d hcd]
  simp

/-- the partner `c s` ends at `s`, not after the edge `a b`, which passes over `s` -/
theorem wotP_otherEnd (a b c s : Rat × Rat) (hab : a.1 < b.1) (hcs : c.1 < s.1) (has : a.1 ≤ s.1)
    (hsb : lexLt s b) (ho : 0 < orient a b s) : wotP (Fq a) (Fq b) (Fq c) (Fq s) = false := by
  rcases hsb with h | ⟨hx, hy⟩
  · unfold wotP
    simp only [F_x, ofEq_fin, ne_of_gt h, decide_false, Bool.false_eq_true, if_false,
      minTotal_fin_ge b.1 s.1 h, cmpAt_otherEnd_lt a b c s hab hcs has h.le ho]
    rfl
  · exfalso
    rw [orient_vert23 a b s hx.symm] at ho
    nlinarith [mul_pos (sub_pos.mpr hab) (sub_pos.mpr hy)]

theorem wobP_otherEnd (a b c s : Rat × Rat) (hab : a.1 < b.1) (hcs : c.1 < s.1) (has : a.1 ≤ s.1)
    (hsb : lexLt s b) (ho : orient a b s < 0) : wobP (Fq a) (Fq b) (Fq c) (Fq s) = false := by
  rcases hsb with h | ⟨hx, hy⟩
  · unfold wobP
    simp only [F_x, ofEq_fin, ne_of_gt h, decide_false, Bool.false_eq_true, if_false,
      minTotal_fin_ge b.1 s.1 h, cmpAt_otherEnd_gt a b c s hab hcs has h.le ho]
    rfl
  · unfold wobP
    have e1 := yE_in a b b.1 hab hab.le le_rfl
    rw [lineY_right a b hab] at e1
    have e2 := yE_in c s s.1 hcs hcs.le le_rfl
    rw [lineY_right c s hcs, hx] at e2
    simp only [F_x, ofEq_fin, hx, decide_true, if_true, e1, e2, ofLt_fin, decide_eq_false_iff_not,
      not_lt]
    exact hy.le

/-- `cmpAtP` at the right end `s` of the key edge `a s` (possibly vertical) -/
theorem cmpAtL_keyEnd_gt (a s c d : Rat × Rat) (has : lexLt a s) (hcd : c.1 < d.1) (hcs : c.1 ≤ s.1)
    (hsd : s.1 ≤ d.1) (ho : 0 < orient c d s) :
    cmpAtP (Fq a) (Fq s) (Fq c) (Fq d) (.fin s.1) true = .gt := by
  have h := pt_sub_lineY c d s hcd
  have : 0 < orient c d s / (d.1 - c.1) := pos_div ho (sub_pos.mpr hcd)
  unfold cmpAtP
  have hy : lineY c d s.1 < s.2 := by linarith
  simp only [isFinite_fin, Bool.not_true, Bool.false_eq_true, if_false, yE_in c d s.1 hcd hcs hsd,
    yE_lex_right a s has, totalCmp_fin, if_neg (lt_asymm hy), if_pos hy, thenOrd_gt]

theorem cmpAtL_keyEnd_lt (a s c d : Rat × Rat) (has : lexLt a s) (hcd : c.1 < d.1) (hcs : c.1 ≤ s.1)
    (hsd : s.1 ≤ d.1) (ho : orient c d s < 0) :
    cmpAtP (Fq a) (Fq s) (Fq c) (Fq d) (.fin s.1) true = .lt := by
  have h := pt_sub_lineY c d s hcd
  have : orient c d s / (d.1 - c.1) < 0 := neg_div ho (sub_pos.mpr hcd)
  unfold cmpAtP
  have hy : s.2 < lineY c d s.1 := by linarith
  simp only [isFinite_fin, Bool.not_true, Bool.false_eq_true, if_false, yE_in c d s.1 hcd hcs hsd,
    yE_lex_right a s has, totalCmp_fin, if_pos hy, thenOrd_lt]

/-- the edge `a s` ends at `s`, not after its partner `c d`, which passes under `s` -/
theorem wobP_keyEnd (a s c d : Rat × Rat) (has : lexLt a s) (hcd : c.1 < d.1) (hcs : c.1 ≤ s.1)
    (hsd : lexLt s d) (ho : 0 < orient c d s) : wobP (Fq a) (Fq s) (Fq c) (Fq d) = false := by
  rcases hsd with h | ⟨hx, hy⟩
  · unfold wobP
    simp only [F_x, ofEq_fin, ne_of_lt h, decide_false, Bool.false_eq_true, if_false,
      minTotal_fin_le s.1 d.1 h.le, cmpAtL_keyEnd_gt a s c d has hcd hcs h.le ho]
    rfl
  · exfalso
    rw [orient_vert23 c d s hx.symm] at ho
    nlinarith [mul_pos (sub_pos.mpr hcd) (sub_pos.mpr hy)]

theorem wotP_keyEnd (a s c d : Rat × Rat) (has : lexLt a s) (hcd : c.1 < d.1) (hcs : c.1 ≤ s.1)
    (hsd : lexLt s d) (ho : orient c d s < 0) : wotP (Fq a) (Fq s) (Fq c) (Fq d) = false := by
  rcases hsd with h | ⟨hx, hy⟩
  · unfold wotP
    simp only [F_x, ofEq_fin, ne_of_lt h, decide_false, Bool.false_eq_true, if_false,
      minTotal_fin_le s.1 d.1 h.le, cmpAtL_keyEnd_lt a s c d has hcd hcs h.le ho]
    rfl
  · unfold wotP
    have e1 : yExtrap (Fq a) (Fq s) (.fin s.1) true = .fin s.2 := yE_lex_right a s has
    have e2 : yExtrap (Fq c) (Fq d) (.fin s.1) true = .fin d.2 := by
      rw [hx]
      have := yE_in c d d.1 hcd hcd.le le_rfl
      rwa [lineY_right c d hcd] at this
    have hxx : Num.ofEq (Fq s).x (Fq d).x = true := by simp [hx]
    rw [if_pos hxx]
    show Num.ofGt (yExtrap (Fq a) (Fq s) (.fin s.1) true) (yExtrap (Fq c) (Fq d) (.fin s.1) true) = false
    rw [e1, e2]
    simp [hy.le]

end Cav.QuadVGeom
