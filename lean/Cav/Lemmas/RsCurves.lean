/-
  The translated `c`-curves of one piece of `gen_display_rs` (`rsPiece`): the local quantities of
  the model text (`minX`, `maxX`, `minFdf`, `maxFdf`, the decay rates, `cx`, `cRaw`) are given
  names, `rsPiece` is shown to be (definitionally) the program written with these names, and the
  curves of a successful piece are characterised point by point.

  Sections 1–2 are structural (every `Num α`, no law of arithmetic).
-/
import Cav.Lemmas.Disp2D
import Cav.Lemmas.DispHelpers
import Cav.Thm.C12

namespace Cav.RsCurves
open Cav Num Gen Cav.DispL

/-! ## 1  names for the local quantities of `rsPiece` -/

section defs
variable {α : Type} [Num α]

/-- the end points of the piece in increasing order (`if b < a then (b, a) else (a, b)`) -/
def rsOrd (a b : α) : α × α := if Num.lt b a then (b, a) else (a, b)

/-- lower end, moved inwards by `tol` -/
def rsLo (cfg : Cfg2D α) (a b : α) : α := (rsOrd a b).1 + cfg.tol
/-- upper end, moved inwards by `tol` -/
def rsHi (cfg : Cfg2D α) (a b : α) : α := (rsOrd a b).2 - cfg.tol

/-- `true` iff `(f, f')` at the trimmed lower end is lexicographically greater than at the trimmed
    upper end (then the two ends are exchanged) -/
def rsSw (f : AD α → AD α) (cfg : Cfg2D α) (a b : α) : Bool :=
  tupleGt (D1.fdf f (rsLo cfg a b)) (D1.fdf f (rsHi cfg a b))

/-- `(f, f')` at the end where `f` is smaller -/
def rsMinFdf (f : AD α → AD α) (cfg : Cfg2D α) (a b : α) : α × α :=
  (if rsSw f cfg a b then (D1.fdf f (rsHi cfg a b), D1.fdf f (rsLo cfg a b))
   else (D1.fdf f (rsLo cfg a b), D1.fdf f (rsHi cfg a b))).1
/-- `(f, f')` at the end where `f` is larger -/
def rsMaxFdf (f : AD α → AD α) (cfg : Cfg2D α) (a b : α) : α × α :=
  (if rsSw f cfg a b then (D1.fdf f (rsHi cfg a b), D1.fdf f (rsLo cfg a b))
   else (D1.fdf f (rsLo cfg a b), D1.fdf f (rsHi cfg a b))).2

/-- the abscissa at which `f` takes the value `(rsMinFdf …).1`: one of the trimmed ends -/
def rsMinX (f : AD α → AD α) (cfg : Cfg2D α) (a b : α) : α :=
  (if rsSw f cfg a b then (rsHi cfg a b, rsLo cfg a b) else (rsLo cfg a b, rsHi cfg a b)).1
/-- the abscissa at which `f` takes the value `(rsMaxFdf …).1`: the other trimmed end -/
def rsMaxX (f : AD α → AD α) (cfg : Cfg2D α) (a b : α) : α :=
  (if rsSw f cfg a b then (rsHi cfg a b, rsLo cfg a b) else (rsLo cfg a b, rsHi cfg a b)).2

/-- `cx x = x − g(x)` -/
def rsCx (g : AD α → AD α) (x : α) : α := x - D1.f g x

/-- the bound `c_grad_max · |maxX − minX|` on the decay rates -/
def rsDecayMax (f : AD α → AD α) (cfg : Cfg2D α) (a b : α) : α :=
  (Num.ofNat 10 : α) * Num.abs (rsMaxX f cfg a b - rsMinX f cfg a b)

/-- decay rate of the logarithmic tail below the range of `f` -/
def rsMinDcy (f g : AD α → AD α) (cfg : Cfg2D α) (a b : α) : α :=
  if !(Num.lt (Num.abs ((one - D1.df g (rsMinX f cfg a b)) / (rsMinFdf f cfg a b).2))
      (rsDecayMax f cfg a b)) then zero
  else (one - D1.df g (rsMinX f cfg a b)) / (rsMinFdf f cfg a b).2

/-- decay rate of the logarithmic tail above the range of `f` -/
def rsMaxDcy (f g : AD α → AD α) (cfg : Cfg2D α) (a b : α) : α :=
  if !(Num.lt (Num.abs ((one - D1.df g (rsMaxX f cfg a b)) / (rsMaxFdf f cfg a b).2))
      (rsDecayMax f cfg a b)) then zero
  else (one - D1.df g (rsMaxX f cfg a b)) / (rsMaxFdf f cfg a b).2

/-- **`c_raw`** of the model: for `y` inside `[minFdf.1, maxFdf.1]` (neither `lt` test fires) the
    value `cx x*` at the Brent root `x*` of `f − y` on `[minX, maxX]`; a logarithmic tail outside -/
def rsCRaw (f g : AD α → AD α) (cfg : Cfg2D α) (a b : α) : α → Except DispErr α := fun y =>
  if Num.lt y (rsMinFdf f cfg a b).1 then
    .ok (rsCx g (rsMinX f cfg a b) - signVal (rsMinDcy f g cfg a b) *
      Num.ln1p (Num.abs (rsMinDcy f g cfg a b) * ((rsMinFdf f cfg a b).1 - y)))
  else if Num.lt (rsMaxFdf f cfg a b).1 y then
    .ok (rsCx g (rsMaxX f cfg a b) + signVal (rsMaxDcy f g cfg a b) *
      Num.ln1p (Num.abs (rsMaxDcy f g cfg a b) * (y - (rsMaxFdf f cfg a b).1)))
  else
    match findRootBrent (rsMinX f cfg a b) (rsMaxX f cfg a b) (fun x => D1.f f x - y) cfg.tol
        cfg.maxRfIters with
    | .ok x => .ok (rsCx g x)
    | .error e => .error (.root e)

/-- `c_raw` as a total function (`zero` where the root finder failed) -/
def rsCVal (f g : AD α → AD α) (cfg : Cfg2D α) (a b : α) (y : α) : α :=
  match rsCRaw f g cfg a b y with
  | .ok cy => cy
  | .error _ => zero

/-- **the one `c`-curve of the piece `[a,b]`**: `C(y) = c_raw(y) − c_raw(0)` -/
def rsC (f g : AD α → AD α) (cfg : Cfg2D α) (a b : α) (y : α) : α :=
  rsCVal f g cfg a b y - rsCVal f g cfg a b zero

/-- `rsPiece` written with the names above -/
def rsPieceN (f g : AD α → AD α) (cfg : Cfg2D α) (a b : α) : Except DispErr (Disp2D α) :=
  match pieceInteg cfg f g a b with
  | .error e => .error e
  | .ok integ =>
    match rsCRaw f g cfg a b zero with
    | .error e => .error e
    | .ok k =>
      match mapE (rsCurveE ((vecFromRes a b cfg.xRes).map (D1.f f)) (rsCRaw f g cfg a b) k
          ((((vecFromRes a b cfg.xRes).map (D1.fdf g)).map (·.1)).map (· + k))
          (vecFromRes (zero : α) one cfg.yRes))
          (curveIdx (α := α) (vecFromRes a b cfg.xRes).length cfg.intermCs) with
      | .error e => .error e
      | .ok cvs =>
        .ok ⟨a, b, (vecFromRes a b cfg.xRes).map (D1.f f), vecFromRes a b cfg.xRes, cvs,
          (((vecFromRes a b cfg.xRes).map (D1.fdf g)).map (·.1)).map (· + k),
          ((vecFromRes a b cfg.xRes).map (D1.fdf g)).map (·.2), integ⟩

/-- intermediate form: the named quantities, but still the model's accumulator loop `curves` -/
def rsPieceM (f g : AD α → AD α) (cfg : Cfg2D α) (a b : α) : Except DispErr (Disp2D α) :=
  match pieceInteg cfg f g a b with
  | .error e => .error e
  | .ok integ =>
    match rsCRaw f g cfg a b zero with
    | .error e => .error e
    | .ok k =>
      match rsPiece.curves ((vecFromRes a b cfg.xRes).map (D1.f f)) (rsCRaw f g cfg a b) k
          ((((vecFromRes a b cfg.xRes).map (D1.fdf g)).map (·.1)).map (· + k))
          (vecFromRes (zero : α) one cfg.yRes)
          (curveIdx (α := α) (vecFromRes a b cfg.xRes).length cfg.intermCs) [] with
      | .error e => .error e
      | .ok cvs =>
        .ok ⟨a, b, (vecFromRes a b cfg.xRes).map (D1.f f), vecFromRes a b cfg.xRes, cvs,
          (((vecFromRes a b cfg.xRes).map (D1.fdf g)).map (·.1)).map (· + k),
          ((vecFromRes a b cfg.xRes).map (D1.fdf g)).map (·.2), integ⟩

theorem rsPiece_eq_M (f g : AD α → AD α) (cfg : Cfg2D α) (a b : α) :
    rsPiece f g cfg a b = rsPieceM f g cfg a b := rfl

/-- the model text and the named form are the same program -/
theorem rsPiece_eq_named (f g : AD α → AD α) (cfg : Cfg2D α) (a b : α) :
    rsPiece f g cfg a b = rsPieceN f g cfg a b := by
  rw [rsPiece_eq_M]
  unfold rsPieceM rsPieceN
  cases pieceInteg cfg f g a b with
  | error e => rfl
  | ok integ =>
    simp only []
    cases rsCRaw f g cfg a b zero with
    | error e => rfl
    | ok k =>
      simp only []
      rw [rs_curves_eq]
      simp only [List.reverse_nil, prependE_nil]

/-! ## 2  the curves of a successful piece (structural) -/

theorem rsCVal_of_ok {f g : AD α → AD α} {cfg : Cfg2D α} {a b y cy : α}
    (h : rsCRaw f g cfg a b y = .ok cy) : rsCVal f g cfg a b y = cy := by
  unfold rsCVal; rw [h]

theorem rsC_of_ok {f g : AD α → AD α} {cfg : Cfg2D α} {a b y cy k : α}
    (hk : rsCRaw f g cfg a b zero = .ok k) (h : rsCRaw f g cfg a b y = .ok cy) :
    rsC f g cfg a b y = cy - k := by
  unfold rsC; rw [rsCVal_of_ok hk, rsCVal_of_ok h]

theorem forall2_left {β γ : Type} {R : β → γ → Prop} {l : List β} {r : List γ}
    (h : Forall2 R l r) : ∀ x ∈ l, ∃ y, R x y := by
  induction h with
  | nil => intro x hx; cases hx
  | cons h1 _ ih =>
    intro x hx
    rcases List.mem_cons.mp hx with rfl | hx'
    · exact ⟨_, h1⟩
    · exact ih x hx'

/-- a successful run of the point loop: every `c_raw` call succeeded and the result is a `map` -/
theorem rs_points_ok {f g : AD α → AD α} {cfg : Cfg2D α} {a b k fx xr : α} {yrv : List α}
    {pts : List (α × α)} (hk : rsCRaw f g cfg a b zero = .ok k)
    (h : mapE (rsPointE (rsCRaw f g cfg a b) k fx xr) yrv = .ok pts) :
    (∀ r ∈ yrv, ∃ cy, rsCRaw f g cfg a b (r * fx) = .ok cy) ∧
      pts = yrv.map (fun r => (r * fx, xr + rsC f g cfg a b (r * fx))) := by
  constructor
  · intro r hr
    obtain ⟨p, hp⟩ := forall2_left ((mapE_ok_iff _ _ _).mp h) r hr
    unfold rsPointE at hp
    split at hp
    · cases hp
    · rename_i cy hcy; exact ⟨cy, hcy⟩
  · have := mapE_map_eq h id (fun r => (r * fx, xr + rsC f g cfg a b (r * fx))) (fun r p hp => by
      unfold rsPointE at hp
      split at hp
      · cases hp
      · rename_i cy hcy
        cases hp
        rw [rsC_of_ok hk hcy]; rfl)
    simpa using this

/-- **what a successful `rsPiece` is**, in the named quantities: `k = c_raw(0)` succeeded, the
    sample vectors are the model's, and the curve list is the `mapE` of the one-curve function -/
theorem rsPiece_ok_named {f g : AD α → AD α} {cfg : Cfg2D α} {a b : α} {d : Disp2D α}
    (h : rsPiece f g cfg a b = .ok d) :
    ∃ k, rsCRaw f g cfg a b zero = .ok k ∧
      d.a = a ∧ d.b = b ∧
      d.xv = vecFromRes a b cfg.xRes ∧ d.fv = d.xv.map (D1.f f) ∧
      d.gv = (d.xv.map (fun x => (D1.fdf g x).1)).map (· + k) ∧
      mapE (rsCurveE d.fv (rsCRaw f g cfg a b) k d.gv (vecFromRes (zero : α) one cfg.yRes))
        (curveIdx (α := α) d.xv.length cfg.intermCs) = .ok d.cvs := by
  rw [rsPiece_eq_named] at h
  unfold rsPieceN at h
  split at h
  · cases h
  · split at h
    · cases h
    · rename_i k hk
      split at h
      · cases h
      · rename_i cvs hcvs
        cases h
        exact ⟨k, hk, rfl, rfl, rfl, rfl, by simp [List.map_map, Function.comp_def], hcvs⟩

/-- **the curves of a successful piece are translates of the one curve `rsC`**: with
    `k = c_raw(0)`, the curve attached at index `i` is
    `r ↦ (r·fv[i], gv[i] + C(r·fv[i]))`, `C = rsC`, and every `c_raw` call it made succeeded -/
theorem rsPiece_ok_translates {f g : AD α → AD α} {cfg : Cfg2D α} {a b : α} {d : Disp2D α}
    (h : rsPiece f g cfg a b = .ok d) :
    ∃ k, rsCRaw f g cfg a b zero = .ok k ∧
      d.gv = (d.xv.map (fun x => (D1.fdf g x).1)).map (· + k) ∧
      ∀ cv ∈ d.cvs, cv.1 ∈ curveIdx (α := α) d.xv.length cfg.intermCs ∧
        (∀ r ∈ vecFromRes (zero : α) one cfg.yRes,
          ∃ cy, rsCRaw f g cfg a b (r * d.fv.getD cv.1 zero) = .ok cy) ∧
        cv.2 = (vecFromRes (zero : α) one cfg.yRes).map (fun r =>
          (r * d.fv.getD cv.1 zero,
           d.gv.getD cv.1 zero + rsC f g cfg a b (r * d.fv.getD cv.1 zero))) := by
  obtain ⟨k, hk, -, -, -, -, hgv, hcvs⟩ := rsPiece_ok_named h
  refine ⟨k, hk, hgv, fun cv hcv => ?_⟩
  obtain ⟨i, hi, hcur⟩ := mapE_mem hcvs hcv
  unfold rsCurveE at hcur
  split at hcur
  · cases hcur
  · rename_i pts hpts
    cases hcur
    obtain ⟨h1, h2⟩ := rs_points_ok hk hpts
    exact ⟨hi, h1, h2⟩

/-- inside the range of `f` (neither `lt` test of the model fires) a successful `c_raw(y)` is
    `cx x*` for a successful Brent run on `f − y` over `[minX, maxX]` -/
theorem rsCRaw_interior {f g : AD α → AD α} {cfg : Cfg2D α} {a b y cy : α}
    (hlo : Num.lt y (rsMinFdf f cfg a b).1 = false) (hhi : Num.lt (rsMaxFdf f cfg a b).1 y = false)
    (h : rsCRaw f g cfg a b y = .ok cy) :
    ∃ x, findRootBrent (rsMinX f cfg a b) (rsMaxX f cfg a b) (fun x => D1.f f x - y) cfg.tol
        cfg.maxRfIters = .ok x ∧ cy = rsCx g x := by
  unfold rsCRaw at h
  simp only [hlo, hhi, Bool.false_eq_true, if_false] at h
  split at h
  · rename_i x hx; cases h; exact ⟨x, hx, rfl⟩
  · cases h

/-- every attachment index of a successful piece is a valid grid index -/
theorem rsPiece_idx_lt {f g : AD α → AD α} {cfg : Cfg2D α} {a b : α} {d : Disp2D α}
    (h : rsPiece f g cfg a b = .ok d) : ∀ cv ∈ d.cvs, cv.1 < d.xv.length := by
  intro cv hcv
  obtain ⟨k, -, -, hi⟩ := rsPiece_ok_translates h
  obtain ⟨-, -, -, -, hxv, -⟩ := rsPiece_ok_named h
  have hl : d.xv.length = max (cfg.xRes + 1) 2 := by rw [hxv, vecFromRes_length]
  exact C12.curveIdx_lt (α := α) d.xv.length cfg.intermCs (by omega) cv.1 (hi cv hcv).1

end defs

/-! ## 3  over `Rat`: first and last point of every curve -/

section rat
variable {f g : AD Rat → AD Rat} {cfg : Cfg2D Rat} {a b : Rat} {d : Disp2D Rat}

/-- the one curve passes through the origin: `C(0) = c_raw(0) − c_raw(0) = 0` -/
theorem rsC_zero (f g : AD Rat → AD Rat) (cfg : Cfg2D Rat) (a b : Rat) : rsC f g cfg a b 0 = 0 := by
  unfold rsC; rw [rat_zero]; exact sub_self _

theorem one_mem_yrv (res : Nat) : (1 : Rat) ∈ vecFromRes (0 : Rat) 1 res :=
  List.mem_of_getLast? (vecFromRes_getLast 0 1 res)

/-- first point: `(0, gv[i])` -/
theorem rsPiece_curve_head (h : rsPiece f g cfg a b = .ok d) :
    ∀ cv ∈ d.cvs, cv.2.head? = some (0, d.gv.getD cv.1 0) := by
  intro cv hcv
  obtain ⟨k, -, -, hc⟩ := rsPiece_ok_translates h
  rw [(hc cv hcv).2.2, List.head?_map, rat_zero, rat_one, vecFromRes_head]
  simp [rsC_zero]

/-- last point: `(fv[i], gv[i] + C(fv[i]))`, and `c_raw(fv[i])` succeeded -/
theorem rsPiece_curve_last (h : rsPiece f g cfg a b = .ok d) :
    ∀ cv ∈ d.cvs, (∃ cy, rsCRaw f g cfg a b (d.fv.getD cv.1 0) = .ok cy) ∧
      cv.2.getLast? = some (d.fv.getD cv.1 0,
        d.gv.getD cv.1 0 + rsC f g cfg a b (d.fv.getD cv.1 0)) := by
  intro cv hcv
  obtain ⟨k, -, -, hc⟩ := rsPiece_ok_translates h
  obtain ⟨-, hall, hmap⟩ := hc cv hcv
  rw [rat_zero, rat_one] at hall hmap
  constructor
  · obtain ⟨cy, hcy⟩ := hall 1 (one_mem_yrv _)
    rw [one_mul] at hcy
    exact ⟨cy, hcy⟩
  · rw [hmap, List.getLast?_map, vecFromRes_getLast]
    simp

/-- the samples at a valid attachment index -/
theorem rsPiece_samples_at (h : rsPiece f g cfg a b = .ok d) :
    ∃ k, rsCRaw f g cfg a b 0 = .ok k ∧ ∀ cv ∈ d.cvs, ∃ xi, d.xv[cv.1]? = some xi ∧
      d.fv.getD cv.1 0 = D1.f f xi ∧ d.gv.getD cv.1 0 = (D1.fdf g xi).1 + k := by
  obtain ⟨k, hk, -, -, -, hfv, hgv, -⟩ := rsPiece_ok_named h
  rw [rat_zero] at hk
  refine ⟨k, hk, fun cv hcv => ?_⟩
  have hlt := rsPiece_idx_lt h cv hcv
  refine ⟨d.xv[cv.1], List.getElem?_eq_getElem hlt, ?_, ?_⟩
  · rw [hfv, List.getD_eq_getElem?_getD, List.getElem?_map, List.getElem?_eq_getElem hlt]
    rfl
  · rw [hgv, List.getD_eq_getElem?_getD, List.getElem?_map, List.getElem?_map,
      List.getElem?_eq_getElem hlt]
    rfl

/-- **last point inside the range of `f`**: if `fv[i]` passes both range tests of the model then
    the root finder succeeded on `f − f(x_i)` with some `x*`, and the curve ends at
    `(f(x_i), x* + (g(x_i) − g(x*)))` (`g(x_i)` is the value part of `fdf`, `g(x*)` is `D1.f`) -/
theorem rsPiece_curve_last_interior (h : rsPiece f g cfg a b = .ok d)
    (cv : Nat × List (Rat × Rat)) (hcv : cv ∈ d.cvs)
    (hlo : Num.lt (d.fv.getD cv.1 0) (rsMinFdf f cfg a b).1 = false)
    (hhi : Num.lt (rsMaxFdf f cfg a b).1 (d.fv.getD cv.1 0) = false) :
    ∃ xi xs, d.xv[cv.1]? = some xi ∧ d.fv.getD cv.1 0 = D1.f f xi ∧
      findRootBrent (rsMinX f cfg a b) (rsMaxX f cfg a b) (fun x => D1.f f x - D1.f f xi) cfg.tol
        cfg.maxRfIters = .ok xs ∧
      cv.2.getLast? = some (D1.f f xi, xs + ((D1.fdf g xi).1 - D1.f g xs)) := by
  obtain ⟨k, hk, hs⟩ := rsPiece_samples_at h
  obtain ⟨xi, hxi, hfi, hgi⟩ := hs cv hcv
  obtain ⟨⟨cy, hcy⟩, hlast⟩ := rsPiece_curve_last h cv hcv
  obtain ⟨xs, hxs, rfl⟩ := rsCRaw_interior hlo hhi hcy
  refine ⟨xi, xs, hxi, hfi, by rw [← hfi]; exact hxs, ?_⟩
  rw [hlast, rsC_of_ok (by rw [rat_zero]; exact hk) hcy, hgi, ← hfi]
  congr 2
  unfold rsCx
  ring

end rat

end Cav.RsCurves
