/-
  Rejection of crossing input, part 9: every event under `XInv` succeeds with `XInv` or stops
  with `.overlap` (`xstep`); two active edges do not meet before the next event (`no_meet`); the
  queue is not empty while a vertex lies to the right of the sweep line (`queue_nonempty`); hence
  the event loop on an input with two ring edges that meet strictly inside their abscissa ranges
  ends with `.overlap k p` at an input vertex `p` strictly to the left of the meeting point
  (`xloop`).
-/
import Cav.Lemmas.GenXStepStart
import Cav.Lemmas.GenLoop

set_option linter.unusedSimpArgs false
set_option linter.unusedVariables false

namespace Cav.GenXLoop
open Cav Num Cav.Geo Cav.Sweep Cav.TriRun Cav.QuadRun Cav.QuadGeom Cav.SweepOut Cav.TriEvents
open Cav.GenGeom Cav.GenInv Cav.GenQueue Cav.GenOrder Cav.GenStepBend Cav.GenStepEnd Cav.GenLoop
open Cav.GenValid Cav.GenXGeom Cav.GenXStep

variable {R : RingQ}

/-- **every event: success with `XInv`, or `.overlap` at the vertex of the event** -/
theorem xstep (hS : NoSpike R) (hT : NoTouch R) {s : St XQ} {xs : Rat} {ivs : List IV}
    (hX : XInv R s xs ivs) {w : Nat} {es : List Nat} {rest : List (Nat × List Nat)}
    (hev : s.events = (w, es) :: rest) :
    (∃ s', (handleNext : SM XQ Unit).run s = .ok ((), s') ∧ ∃ ivs', XInv R s' (R.x w) ivs') ∨
      ∃ k, (handleNext : SM XQ Unit).run s = .error (.overlap k (Fq (R.pt w))) := by
  have hI := hX.inv
  have hR := hI.ring
  have hq := hI.q
  rw [hev] at hq
  have hwn : w < R.n := (hq.gt (w, es) List.mem_cons_self).1
  have hpn := hR.prv_lt w hwn
  have hnn := hR.nxt_lt w hwn
  have hp : R.x (R.prv w) ≠ R.x w := by
    intro e
    have e' := hR.distinct _ _ hpn hwn e
    have h1 := hR.nxt_prv w hwn
    rw [e'] at h1
    exact hR.ne w hwn (e'.trans h1.symm)
  have hn : R.x (R.nxt w) ≠ R.x w := by
    intro e
    have e' := hR.distinct _ _ hnn hwn e
    have h1 := hR.prv_nxt w hwn
    rw [e'] at h1
    exact hR.ne w hwn (h1.trans e'.symm)
  rcases lt_or_gt_of_ne hp with h0 | h0 <;> rcases lt_or_gt_of_ne hn with h1 | h1
  · exact xstep_end hT hX hev h0 h1
  · exact xstep_bend hT hX hev (Or.inl ⟨rfl, rfl⟩) h0 h1
  · exact xstep_bend hT hX hev (Or.inr ⟨rfl, rfl⟩) h1 h0
  · have hsp := hS w hwn ⟨fun h => absurd h (not_lt.mpr (le_of_lt h0)),
      fun h => absurd h (not_lt.mpr (le_of_lt h1))⟩
    have e : orient (R.pt w) (R.pt (R.prv w)) (R.pt (R.nxt w)) =
        - orient (R.pt (R.prv w)) (R.pt w) (R.pt (R.nxt w)) := by unfold orient; ring
    have e2 : orient (R.pt w) (R.pt (R.nxt w)) (R.pt (R.prv w)) =
        orient (R.pt (R.prv w)) (R.pt w) (R.pt (R.nxt w)) := by unfold orient; ring
    rcases lt_or_gt_of_ne hsp with ho | ho
    · exact xstep_start hT hX hev (Or.inl ⟨rfl, rfl⟩) h0 h1 (by rw [e]; linarith)
    · exact xstep_start hT hX hev (Or.inr ⟨rfl, rfl⟩) h1 h0 (by rw [e2]; exact ho)

/-- with an empty queue no vertex lies to the right of the sweep line -/
theorem queue_nonempty {V : Array (Vtx XQ)} (hR : RingOK R V) {xs : Rat} {E : List AE}
    (h : QCore R xs E []) (hc : Cross R xs E) : ∀ v, v < R.n → ¬ xs < R.x v := by
  have main : ∀ k v, v < R.n →
      (List.range R.n).countP (fun i => decide (R.x i < R.x v)) = k → ¬ xs < R.x v := by
    intro k
    induction k using Nat.strong_induction_on with
    | _ k ih =>
      intro v hv hk hx
      have hp := hR.prv_lt v hv
      have hn := hR.nxt_lt v hv
      have step : ∀ u, u < R.n → Adj R v u → R.x u < R.x v → False := by
        intro u hu hadj hux
        by_cases hus : R.x u ≤ xs
        · obtain ⟨a, ha, h1, h2⟩ := hc u v hu hv (adj_symm hR hv hadj) hus hx
          obtain ⟨es', hm⟩ := h.regAll a ha
          cases hm
        · have hus : xs < R.x u := not_le.mp hus
          have hcnt : (List.range R.n).countP (fun i => decide (R.x i < R.x u)) < k := by
            rw [← hk]
            apply SweepEvents.countP_lt_countP
            · intro i _ hi
              simp only [decide_eq_true_eq] at hi ⊢
              exact lt_trans hi hux
            · exact ⟨u, List.mem_range.mpr hu, by simpa using hux, by simp⟩
          exact ih _ hcnt u hu rfl hus
      by_cases hst : IsStart R v
      · obtain ⟨es', hm⟩ := h.starts v hv hx hst
        cases hm
      · unfold IsStart at hst
        rw [not_and_or] at hst
        rcases hst with hst | hst
        · have hne : R.x (R.prv v) ≠ R.x v := by
            intro he
            have := hR.distinct _ _ hp hv he
            have h2 := hR.nxt_prv v hv
            rw [this] at h2
            exact hR.ne v hv (this.trans h2.symm)
          exact step _ hp (Or.inr rfl) (lt_of_le_of_ne (not_lt.mp hst) hne)
        · have hne : R.x (R.nxt v) ≠ R.x v := by
            intro he
            have := hR.distinct _ _ hn hv he
            have h2 := hR.prv_nxt v hv
            rw [this] at h2
            exact hR.ne v hv (h2.trans this.symm)
          exact step _ hn (Or.inl rfl) (lt_of_le_of_ne (not_lt.mp hst) hne)
  intro v hv
  exact main _ v hv rfl

theorem pairwise_either {β : Type} {r : β → β → Prop} : ∀ {l : List β}, l.Pairwise r →
    ∀ {a b : β}, a ∈ l → b ∈ l → a ≠ b → r a b ∨ r b a
  | [], _, a, _, ha, _, _ => by cases ha
  | c :: l, h, a, b, ha, hb, hne => by
    have h' := List.pairwise_cons.mp h
    rcases List.mem_cons.mp ha with e1 | ha' <;> rcases List.mem_cons.mp hb with e2 | hb'
    · exact absurd (e1.trans e2.symm) hne
    · rw [e1]; exact Or.inl (h'.1 b hb')
    · rw [e2]; exact Or.inr (h'.1 a ha')
    · exact pairwise_either h'.2 ha' hb' hne

/-- **two active edges do not meet before the next event** (at the abscissa of the next event
    only edges ending there in the same vertex) -/
theorem no_meet {s : St XQ} {xs : Rat} {ivs : List IV} (hX : XInv R s xs ivs)
    {w : Nat} {es : List Nat} {rest : List (Nat × List Nat)} (hev : s.events = (w, es) :: rest)
    {a b : AE} (ha : a ∈ flatE ivs) (hb : b ∈ flatE ivs) (hne : a ≠ b) {x' : Rat} (h1 : xs < x')
    (h2 : x' ≤ R.x w) (he : hY R a x' = hY R b x') : a.rv = b.rv := by
  have hI := hX.inv
  have hq := hI.q
  rw [hev] at hq
  have hreach := reach_head hq
  have hH := heights_advance_T hI.span hI.sorted hX.tested h1
    (fun c hc => le_trans h2 (hreach c hc).1)
  have := pairwise_either hH ha hb hne
  rcases this with (h | ⟨-, h⟩) | (h | ⟨-, h⟩)
  · exact absurd he (ne_of_lt h)
  · exact h
  · exact absurd he.symm (ne_of_lt h)
  · exact h.symm

/-- two left-to-right ring edges without a common vertex that meet at the abscissa `x`, strictly
    inside both abscissa ranges -/
structure MeetAt (R : RingQ) (u v u' v' : Nat) (x : Rat) : Prop where
  hu : u < R.n
  hv : v < R.n
  hu' : u' < R.n
  hv' : v' < R.n
  adj : Adj R u v
  adj' : Adj R u' v'
  n1 : u ≠ u'
  n2 : u ≠ v'
  n3 : v ≠ u'
  n4 : v ≠ v'
  l1 : R.x u < x
  r1 : x < R.x v
  l2 : R.x u' < x
  r2 : x < R.x v'
  eq : lineY (R.pt u) (R.pt v) x = lineY (R.pt u') (R.pt v') x

/-- **the event loop on crossing input**: from a state with `XInv` whose sweep line is to the
    left of the meeting point of two ring edges, the loop ends with `.overlap k p`, `p` an input
    vertex strictly to the left of the meeting point -/
theorem xloop (hS : NoSpike R) (hT : NoTouch R) {u v u' v' : Nat} {xm : Rat}
    (hM : MeetAt R u v u' v' xm) : ∀ (fuel : Nat) (s : St XQ) (xs : Rat) (ivs : List IV),
    XInv R s xs ivs → meas R xs < fuel → xs < xm →
    ∃ k z, z < R.n ∧ R.x z < xm ∧ (loop fuel).run s = .error (.overlap k (Fq (R.pt z)))
  | 0, _, _, _, _, h, _ => by omega
  | fuel + 1, s, xs, ivs, hX, hf, hxm => by
    have hI := hX.inv
    have hR := hI.ring
    rw [loop_succ_run]
    cases hev : s.events with
    | nil =>
      exfalso
      have hq := hI.q
      rw [hev] at hq
      exact queue_nonempty hR hq hI.cross v hM.hv (lt_trans hxm hM.r1)
    | cons ev rest =>
      obtain ⟨w, es⟩ := ev
      have hq := hI.q
      rw [hev] at hq
      have hwq := hq.gt (w, es) List.mem_cons_self
      have hgap := no_gap hR hq hI.cross
      -- the next event lies to the left of the meeting point
      have hwx : R.x w < xm := by
        by_contra hcon
        have hle : xm ≤ R.x w := not_lt.mp hcon
        have hu1 : R.x u ≤ xs := by
          by_contra h
          have := hgap u hM.hu (not_le.mp h)
          exact absurd (lt_of_lt_of_le hM.l1 hle) (not_lt.mpr this)
        have hu2 : R.x u' ≤ xs := by
          by_contra h
          have := hgap u' hM.hu' (not_le.mp h)
          exact absurd (lt_of_lt_of_le hM.l2 hle) (not_lt.mpr this)
        obtain ⟨a, ha, a1, a2⟩ := hI.cross u v hM.hu hM.hv hM.adj hu1 (lt_trans hxm hM.r1)
        obtain ⟨b, hb, b1, b2⟩ := hI.cross u' v' hM.hu' hM.hv' hM.adj' hu2 (lt_trans hxm hM.r2)
        have hne : a ≠ b := by
          intro e
          rw [e] at a1
          exact hM.n1 (a1.symm.trans b1)
        have he : hY R a xm = hY R b xm := by
          show lineY (R.pt a.lv) (R.pt a.rv) xm = lineY (R.pt b.lv) (R.pt b.rv) xm
          rw [a1, a2, b1, b2]; exact hM.eq
        have := no_meet hX hev ha hb hne hxm hle he
        rw [a2, b2] at this
        exact hM.n4 this
      rcases xstep hS hT hX hev with ⟨s1, hrun, ivs', hX'⟩ | ⟨k, hrun⟩
      · have hm : meas R (R.x w) < meas R xs := meas_lt hwq.1 hwq.2
        obtain ⟨k, z, hz, hzx, hl⟩ := xloop hS hT hM fuel s1 (R.x w) ivs' hX' (by omega) hwx
        refine ⟨k, z, hz, hzx, ?_⟩
        simp only [List.isEmpty_cons, Bool.false_eq_true, if_false, hrun]
        exact hl
      · refine ⟨k, w, hwq.1, hwx, ?_⟩
        simp only [List.isEmpty_cons, Bool.false_eq_true, if_false, hrun]

end Cav.GenXLoop
