/-
  The lexers of the parser model (`digit1`, `alpha1`, `lexDouble`, `parseConst`, `lexI32`,
  `negCount`, `parseVar`): decomposition of `lexDouble` into its stages, and the CONSUMPTION lemmas
  (a successful lexer returns a strictly shorter rest).
-/
import Cav.Model.Parse

namespace Cav.ParseLemmas
open Cav

/-! ### stages of `lexDouble` -/

/-- optional sign -/
def stripSign (s : List Char) : Bool × List Char :=
  match s with
  | '+' :: t => (false, t)
  | '-' :: t => (true, t)
  | _ => (false, s)

/-- `digits [. digits?] | . digits` -/
def lexMant (s1 : List Char) : Option (Nat × Nat × List Char) :=
  match digit1 s1 with
  | some (ip, r) =>
    match r with
    | '.' :: r2 =>
      match digit1 r2 with
      | some (fp, r3) => some (digitsVal (ip ++ fp), fp.length, r3)
      | none => some (digitsVal ip, 0, r2)
    | _ => some (digitsVal ip, 0, r)
  | none =>
    match s1 with
    | '.' :: r2 =>
      match digit1 r2 with
      | some (fp, r3) => some (digitsVal fp, fp.length, r3)
      | none => none
    | _ => none

/-- does an exponent follow? -/
def isExpMark (r : List Char) : Bool :=
  match r with | 'e' :: _ => true | 'E' :: _ => true | _ => false

/-- signed exponent value -/
def expVal (eneg : Bool) (ed : List Char) : Int :=
  if eneg then -(digitsVal ed : Int) else (digitsVal ed : Int)

/-- optional exponent and construction of the leaf -/
def lexExpo (neg : Bool) (m fd : Nat) (r : List Char) : Option (List Char × E) :=
  if isExpMark r then
    match digit1 (stripSign (r.drop 1)).2 with
    | some (ed, r3) =>
      if neg then some (r3, .un .neg (.lit m (expVal (stripSign (r.drop 1)).1 ed - fd)))
      else some (r3, .lit m (expVal (stripSign (r.drop 1)).1 ed - fd))
    | none => none
  else
    if neg then some (r, .un .neg (.lit m (-(fd : Int)))) else some (r, .lit m (-(fd : Int)))

/-- `nan` / `inf` -/
def lexSpecial (s : List Char) : Option (List Char × E) :=
  match tagNoCase ['n', 'a', 'n'] s with
  | some r => some (r, .litNan)
  | none =>
    match tagNoCase ['i', 'n', 'f'] s with
    | some r => some (r, .litInf)
    | none => none

theorem lexDouble_eq (s : List Char) :
    lexDouble s =
      match lexMant (stripSign s).2 with
      | some (m, fd, r) => lexExpo (stripSign s).1 m fd r
      | none => lexSpecial s := rfl

/-! ### consumption -/

theorem takeWhile_length_add (p : Char → Bool) (s : List Char) :
    (s.takeWhile p).length + (s.dropWhile p).length = s.length := by
  have := congrArg List.length (List.takeWhile_append_dropWhile (p := p) (l := s))
  rw [List.length_append] at this
  exact this

theorem digit1_some {s ds r : List Char} (h : digit1 s = some (ds, r)) :
    ds = s.takeWhile isDigit ∧ r = s.dropWhile isDigit ∧ ds ≠ [] := by
  unfold digit1 at h
  simp only at h
  split at h
  · cases h
  · rename_i hne
    cases h
    exact ⟨rfl, rfl, by simpa using hne⟩

theorem digit1_length {s ds r : List Char} (h : digit1 s = some (ds, r)) : r.length < s.length := by
  obtain ⟨h1, h2, h3⟩ := digit1_some h
  have := takeWhile_length_add isDigit s
  have : 0 < ds.length := List.length_pos_iff.mpr h3
  subst h1 h2; omega

theorem alpha1_some {s n r : List Char} (h : alpha1 s = some (n, r)) :
    n = s.takeWhile isAlpha ∧ r = s.dropWhile isAlpha ∧ n ≠ [] := by
  unfold alpha1 at h
  simp only at h
  split at h
  · cases h
  · rename_i hne
    cases h
    exact ⟨rfl, rfl, by simpa using hne⟩

theorem alpha1_length {s n r : List Char} (h : alpha1 s = some (n, r)) : r.length < s.length := by
  obtain ⟨h1, h2, h3⟩ := alpha1_some h
  have := takeWhile_length_add isAlpha s
  have : 0 < n.length := List.length_pos_iff.mpr h3
  subst h1 h2; omega

theorem stripSign_length (s : List Char) : (stripSign s).2.length ≤ s.length := by
  unfold stripSign
  split <;> simp

theorem lexMant_length {s1 r : List Char} {m fd : Nat} (h : lexMant s1 = some (m, fd, r)) :
    r.length < s1.length := by
  unfold lexMant at h
  split at h
  · rename_i ip r0 hd
    have h0 := digit1_length hd
    split at h
    · rename_i r2
      split at h
      · rename_i fp r3 hd2
        have := digit1_length hd2
        cases h; simp at h0; omega
      · cases h; simp at h0; omega
    · cases h; exact h0
  · split at h
    · rename_i r2
      split at h
      · rename_i fp r3 hd2
        have := digit1_length hd2
        cases h; simp; omega
      · cases h
    · cases h

theorem lexExpo_length {neg : Bool} {m fd : Nat} {r r' : List Char} {t : E}
    (h : lexExpo neg m fd r = some (r', t)) : r'.length ≤ r.length := by
  unfold lexExpo at h
  split at h
  · split at h
    · rename_i ed r3 hd
      have h1 := digit1_length hd
      have h2 : r'.length = r3.length := by
        split at h <;> cases h <;> rfl
      have h4 := stripSign_length (r.drop 1)
      have h5 : (r.drop 1).length ≤ r.length := by simp
      omega
    · cases h
  · split at h <;> cases h <;> exact Nat.le_refl _

theorem tagNoCase_length {pat s r : List Char} (h : tagNoCase pat s = some r) :
    r.length + pat.length = s.length := by
  unfold tagNoCase at h
  split at h
  · rename_i hc
    cases h
    simp at hc ⊢
    omega
  · cases h

theorem lexSpecial_length {s r : List Char} {t : E} (h : lexSpecial s = some (r, t)) :
    r.length < s.length := by
  unfold lexSpecial at h
  split at h
  · rename_i r0 ht
    have := tagNoCase_length ht
    cases h; simp at this; omega
  · split at h
    · rename_i r0 ht
      have := tagNoCase_length ht
      cases h; simp at this; omega
    · cases h

theorem lexDouble_length {s r : List Char} {t : E} (h : lexDouble s = some (r, t)) :
    r.length < s.length := by
  rw [lexDouble_eq] at h
  split at h
  · rename_i m fd r0 hm
    have h1 := lexMant_length hm
    have h2 := lexExpo_length h
    have h3 := stripSign_length s
    omega
  · exact lexSpecial_length h

/-! ### `parseConst`: `lexDouble` plus the "word is the beginning of a name" guard -/

theorem parseConst_eq (s : List Char) :
    parseConst s =
      match lexDouble s with
      | some (rest, t) =>
        if endsWithAlpha (s.take (s.length - rest.length)) && startsWithAlpha rest then none
        else some (rest, t)
      | none => none := rfl

/-- `parseConst` accepts only what `lexDouble` accepts, with the same result -/
theorem parseConst_some {s r : List Char} {t : E} (h : parseConst s = some (r, t)) :
    lexDouble s = some (r, t) := by
  rw [parseConst_eq] at h
  split at h
  · rename_i rest t0 hl
    split at h
    · cases h
    · cases h; exact hl
  · cases h

theorem parseConst_of_lexDouble_none {s : List Char} (h : lexDouble s = none) : parseConst s = none := by
  rw [parseConst_eq, h]

/-- the guard does not fire when the rest does not start with a letter -/
theorem parseConst_of_stop {s r : List Char} {t : E} (h : lexDouble s = some (r, t))
    (hr : startsWithAlpha r = false) : parseConst s = some (r, t) := by
  rw [parseConst_eq, h]
  simp [hr]

/-- the guard does not fire when the consumed text does not end with a letter -/
theorem parseConst_of_noword {s r : List Char} {t : E} (h : lexDouble s = some (r, t))
    (hc : endsWithAlpha (s.take (s.length - r.length)) = false) : parseConst s = some (r, t) := by
  rw [parseConst_eq, h]
  simp [hc]

/-- the guard fires -/
theorem parseConst_guard {s r : List Char} {t : E} (h : lexDouble s = some (r, t))
    (hc : endsWithAlpha (s.take (s.length - r.length)) = true) (hr : startsWithAlpha r = true) :
    parseConst s = none := by
  rw [parseConst_eq, h]
  simp [hc, hr]

theorem parseConst_length {s r : List Char} {t : E} (h : parseConst s = some (r, t)) :
    r.length < s.length :=
  lexDouble_length (parseConst_some h)

/-- the checked accumulation step of `lexI32` -/
def i32Step (neg : Bool) (acc : Option Int) (c : Char) : Option Int :=
  match acc with
  | none => none
  | some v =>
    let v' : Int := if neg then v * 10 - (digitVal c : Int) else v * 10 + (digitVal c : Int)
    if -2147483648 ≤ v' && v' ≤ 2147483647 then some v' else none

theorem lexI32_eq (s : List Char) :
    lexI32 s =
      match digit1 (stripSign s).2 with
      | none => none
      | some (ds, r) =>
        match ds.foldl (i32Step (stripSign s).1) (some 0) with
        | some v => some (r, v)
        | none => none := rfl

theorem lexI32_length {s r : List Char} {n : Int} (h : lexI32 s = some (r, n)) :
    r.length < s.length := by
  rw [lexI32_eq] at h
  split at h
  · cases h
  · rename_i ds r0 hd
    have h1 := digit1_length hd
    have h4 := stripSign_length s
    split at h
    · cases h; omega
    · cases h

theorem negCount_length (s : List Char) : (negCount s).2.length ≤ s.length := by
  unfold negCount
  have := takeWhile_length_add (· == '-') s
  simp only
  omega

theorem parseVar_length {ctx : Ctx} {s r : List Char} {t : E} (h : parseVar ctx s = .ok r t) :
    r.length < s.length := by
  unfold parseVar at h
  split at h
  · cases h
  · rename_i name r0 ha
    have := alpha1_length ha
    split at h
    · cases h; exact this
    · cases h; exact this
    · cases h

end Cav.ParseLemmas
