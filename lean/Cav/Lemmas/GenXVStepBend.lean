/-
  Failure side with equal abscissae, part 5 (L1): the Bend event under `XInvV` — the old and the
  new edge may be vertical.  `verticalIsCrossed` fires (`.overlap .bend`), or one of the two
  look-ahead tests of the updated edge is positive (`.overlap .bend`), or the event succeeds and
  `XInvV` holds again.  (Merge of `xstep_bend` and `stepW_bend`.)
-/
import Cav.Lemmas.GenXVInv

set_option linter.unusedSimpArgs false
set_option linter.unusedVariables false

namespace Cav.GenXV
open Cav Num Cav.Geo Cav.Sweep Cav.TriRun Cav.QuadRun Cav.QuadGeom Cav.CvxFlows Cav.SweepOut
open Cav.GenNodes Cav.GenQuery Cav.GenGeom Cav.GenBend Cav.GenInv Cav.GenQueue Cav.GenOrder
open Cav.GenLinks Cav.GenStepBend Cav.GenStepEnd Cav.GenVShear Cav.GenVBridge Cav.GenVInv Cav.GenVHeap
open Cav.GenXGeom Cav.GenXFlat Cav.GenXFail Cav.GenXStep Cav.GenXVFail

variable {R : RingQ} {ε : Rat} {Vε : Array (Vtx XQ)}

/-- **the Bend event: success with `XInv`, or `.overlap`** -/
theorem xstepV_bend (hSh : ShX R ε Vε) {s : St XQ} {xs X : Rat} {ivs : List IV} (hX : XInvV R ε s xs X ivs)
    {w : Nat} {es : List Nat} {rest : List (Nat × List Nat)} (hev : s.events = (w, es) :: rest)
    {u w' : Nat} (hnb : (R.prv w = u ∧ R.nxt w = w') ∨ (R.prv w = w' ∧ R.nxt w = u))
    (hxu : (shearRing ε R).x u < (shearRing ε R).x w) (hxw' : (shearRing ε R).x w < (shearRing ε R).x w') :
    (∃ s', (handleNext : SM XQ Unit).run s = .ok ((), s') ∧
      ∃ ivs', XInvV R ε s' ((shearRing ε R).x w) (R.x w) ivs') ∨
      ∃ k, (handleNext : SM XQ Unit).run s = .error (.overlap k (Fq (R.pt w))) := by
  have hI := hX.inv
  have hR := hSh.ring
  have hq := hI.q
  rw [hev] at hq
  obtain ⟨F1, a0, F2, hE, hl0, hr0, hes, honly⟩ := bend_es hR hI.span hq hI.cross hnb hxu hxw'
  have ha0 : a0 ∈ flatE ivs := by rw [hE]; simp
  obtain ⟨pre, iv, post, hivs, hcase⟩ := mem_flatE ha0
  subst hivs
  subst hes
  clear hE F1 F2
  have hwq := hq.gt (w, [a0.id]) List.mem_cons_self
  have hwn : w < R.n := hwq.1
  have hw'n : w' < R.n := by
    rcases hnb with ⟨-, h⟩ | ⟨h, -⟩
    · rw [← h]; exact hR.nxt_lt w hwn
    · rw [← h]; exact hR.prv_lt w hwn
  have hadj : Adj R w w' := by
    rcases hnb with ⟨-, h⟩ | ⟨h, -⟩
    · exact Or.inl h
    · exact Or.inr h
  have hright := bend_right hR hnb hxu
  obtain ⟨hc1, hc2, hc3⟩ := Linked.mid hI.lk
  have hflat : flatE (pre ++ iv :: post) = flatE pre ++ iv.lo :: iv.hi :: flatE post := by simp
  have hnd : (flatE pre ++ iv.lo :: iv.hi :: flatE post).Nodup := by
    rw [← hflat]; exact nodup_of_pairwise_below hI.sorted
  obtain ⟨hlohi, hothers⟩ := nodup_mid hnd
  -- the model reads the ring
  have hv := hI.vget.2 w hwn
  have h1 := hI.vget.2 _ (hR.prv_lt w hwn)
  have h2 := hI.vget.2 _ (hR.nxt_lt w hwn)
  have hrp := hI.vget.2 w' hw'n
  have hun : u < R.n := by
    rcases hnb with ⟨e, -⟩ | ⟨-, e⟩
    · rw [← e]; exact hR.prv_lt w hwn
    · rw [← e]; exact hR.nxt_lt w hwn
  have hft := bendV_ftX hSh hwn hun hw'n hnb hxu hxw'
  have hr := bendV_rlpX hSh hun hw'n hnb (lt_trans hxu hxw')
  have hcpl := cpl_atX hSh hwn
  have hlww' : lexLt (R.pt w) (R.pt w') := (hSh.key _ _ hwn hw'n).mp hxw'
  have hreach := reach_head hq
  have hadv := ordM_advance hSh hI.cpl hwn hwq.2 hI.span hI.sorted hX.tested (fun a ha => (hreach a ha).1)
    hq.uniq hX.ordM
  have hevs : ∀ a ∈ rest, a.1 < s.verts.size := by
    intro a ha
    rw [hI.vget.1]
    exact (hq.gt a (List.mem_cons_of_mem _ ha)).1
  have hidne : ∀ a ∈ flatE (pre ++ iv :: post), ∀ b ∈ flatE (pre ++ iv :: post), a ≠ b → a.id ≠ b.id :=
    fun a ha b hb hne e => hne (hq.idinj a ha b hb e)
  have hcine : ∀ j ∈ pre ++ post, j.ci ≠ iv.ci := by
    have := hI.cind
    rw [List.map_append, List.map_cons] at this
    intro j hj
    have hm : j.ci ∈ pre.map (·.ci) ++ post.map (·.ci) := by
      rw [← List.map_append]; exact List.mem_map_of_mem hj
    exact nodup_mid1 this _ hm
  have hlo_mem : iv.lo ∈ flatE (pre ++ iv :: post) := by rw [hflat]; simp
  have hhi_mem : iv.hi ∈ flatE (pre ++ iv :: post) := by rw [hflat]; simp
  have hjmem : ∀ j ∈ pre ++ post, j.lo ∈ flatE (pre ++ iv :: post) ∧ j.hi ∈ flatE (pre ++ iv :: post) ∧
      j.lo ∈ flatE pre ++ flatE post ∧ j.hi ∈ flatE pre ++ flatE post := by
    intro j hj
    have : j.lo ∈ flatE (pre ++ post) ∧ j.hi ∈ flatE (pre ++ post) := mem_flatE_of hj
    rw [flatE_append] at this
    refine ⟨?_, ?_, this.1, this.2⟩
    · rw [hflat]
      rcases List.mem_append.mp this.1 with h | h
      · exact List.mem_append_left _ h
      · exact List.mem_append_right _ (List.mem_cons_of_mem _ (List.mem_cons_of_mem _ h))
    · rw [hflat]
      rcases List.mem_append.mp this.2 with h | h
      · exact List.mem_append_left _ h
      · exact List.mem_append_right _ (List.mem_cons_of_mem _ (List.mem_cons_of_mem _ h))
  obtain ⟨c, hc, hrm, hh, ht⟩ := hc3
  rcases hcase with rfl | rfl
  · -- the bending edge is the lower edge of its in-interval
    obtain ⟨g1, g2, g3, g4⟩ := xbend_flat hR (F1 := flatE pre) (F2 := iv.hi :: flatE post)
      (a0 := iv.lo) (by rw [← hflat]; exact hI.span) (by rw [← hflat]; exact hI.sorted)
      (by rw [← hflat]; exact hX.tested) (by rw [← hflat]; exact hq) (by rw [← hflat]; exact hI.cross) hw'n hadj hxw' hright hr0
      (by rw [← hflat]; exact honly)
    obtain ⟨h, hnode⟩ := node_of_ptAt hh
    have hnewspan : Span (shearRing ε R) ((shearRing ε R).x w) (⟨iv.lo.id, w, w'⟩ : AE) := g1 _ (by simp)
    have hspO : ∀ a ∈ flatE pre ++ (iv.hi :: flatE post), Span (shearRing ε R) ((shearRing ε R).x w) a := by
      intro a ha
      apply g1
      rcases List.mem_append.mp ha with h' | h'
      · exact List.mem_append_left _ h'
      · exact List.mem_append_right _ (List.mem_cons_of_mem _ h')
    have hlvne : ∀ x ∈ flatE pre ++ (iv.hi :: flatE post), x.lv ≠ w := by
      intro x hx e
      have hm : x ∈ flatE (pre ++ iv :: post) := by
        rw [hflat]
        rcases List.mem_append.mp hx with h' | h'
        · exact List.mem_append_left _ h'
        · exact List.mem_append_right _ (List.mem_cons_of_mem _ h')
      have := (hI.span x hm).le
      rw [e] at this
      exact absurd hwq.2 (not_lt.mpr this)
    rcases vic_bend hSh hI.lk hI.act (F1 := flatE pre) (F2 := iv.hi :: flatE post) (a0 := iv.lo)
      hflat hq.idinj hnd hwn hspO (w' := w') with hhit | ⟨hvc, hvicN⟩
    · right
      exact ⟨_, bend_vic s w iv.lo.id w' (R.prv w) (R.nxt w) _ _ _ _ _ _ [] rest (Fq (R.pt w))
        (Fq (R.pt (R.prv w))) (Fq (R.pt (R.nxt w))) (Fq (R.pt w')) hev hv h1 h2 hft hr hrp hhit⟩
    have hBdec : (PartnerOk s iv.lo.id iv.ci true (lastHi pre none)
          (fun lb rb => wobP (Fq (R.pt w)) (Fq (R.pt w')) lb rb) ∧
        ∀ b, (flatE pre).getLast? = some b → PairOK (shearRing ε R) b ⟨iv.lo.id, w, w'⟩) ∨
        PartnerBad s iv.lo.id iv.ci true (lastHi pre none)
          (fun lb rb => wobP (Fq (R.pt w)) (Fq (R.pt w')) lb rb) := by
      rcases lastHi_cases pre none with ⟨e0, e⟩ | ⟨pre', ivb, e1, e2⟩
      · exact Or.inl ⟨Or.inl e, fun b hb => by rw [e0] at hb; cases hb⟩
      · have hivb : ivb ∈ pre ++ post := by rw [e1]; simp
        obtain ⟨m1, m2, m3, m4⟩ := hjmem ivb hivb
        obtain ⟨bb, aa, -, hcb, hccb⟩ := Linked.mem hI.lk ivb (by rw [e1]; simp)
        have hne := hidne _ m2 _ hlo_mem (hothers _ m4).1
        cases hv : wobP (Fq (R.pt w)) (Fq (R.pt w')) (Fq (R.pt ivb.hi.lv)) (Fq (R.pt ivb.hi.rv))
        · left
          refine ⟨Or.inr ⟨ivb.hi.id, _, Fq (R.pt ivb.hi.lv), e2, hne, hcb, lpt_hi hcb hccb,
            Or.inl (hcine ivb hivb), hv⟩, ?_⟩
          intro b hb
          have : b = ivb.hi := by rw [e1] at hb; simpa using hb.symm
          subst this
          exact wobX_decode hSh hcpl (g1 _ (by rw [e1]; simp)) hnewspan hv
        · right
          exact ⟨ivb.hi.id, _, Fq (R.pt ivb.hi.lv), e2, hne, hcb, lpt_hi hcb hccb,
            Or.inl (hcine ivb hivb), hv⟩
    have hTdec : (PartnerOk s iv.lo.id iv.ci true (some iv.hi.id)
          (fun lt rt => wotP (Fq (R.pt w)) (Fq (R.pt w')) lt rt) ∧ PairOK (shearRing ε R) ⟨iv.lo.id, w, w'⟩ iv.hi) ∨
        PartnerBad s iv.lo.id iv.ci true (some iv.hi.id)
          (fun lt rt => wotP (Fq (R.pt w)) (Fq (R.pt w')) lt rt) := by
      have hne := hidne _ hhi_mem _ hlo_mem (Ne.symm hlohi)
      cases hv : wotP (Fq (R.pt w)) (Fq (R.pt w')) (Fq (R.pt iv.hi.lv)) (Fq (R.pt iv.hi.rv))
      · left
        exact ⟨Or.inr ⟨iv.hi.id, _, Fq (R.pt iv.hi.lv), rfl, hne, hc2, lpt_hi hc2 ⟨c, hc, hrm, hh, ht⟩,
          Or.inr rfl, hv⟩, wotX_decode hSh hcpl hnewspan (g1 _ (by simp)) hv⟩
      · right
        exact ⟨iv.hi.id, _, Fq (R.pt iv.hi.lv), rfl, hne, hc2, lpt_hi hc2 ⟨c, hc, hrm, hh, ht⟩,
          Or.inr rfl, hv⟩
    have hc1' : s.edges[iv.lo.id]? = some ⟨Fq (R.pt w), iv.ci, true, lastHi pre none, some iv.hi.id⟩ := by
      have := hc1; unfold ECell at this; rw [hr0] at this; exact this
    rcases hBdec with ⟨hB, hBok⟩ | hBbad
    swap
    · right
      exact ⟨_, bend_failV s w iv.lo.id w' (R.prv w) (R.nxt w)
        _ _ _ _ _ _ iv.ci [] rest (Fq (R.pt w)) (Fq (R.pt (R.prv w))) (Fq (R.pt (R.nxt w)))
        (Fq (R.pt w')) (Fq (R.pt w)) true (lastHi pre none) (some iv.hi.id) c h hev hv h1 h2 hft hr hrp hvc
        hevs hc1' hc hI.nok hnode (Or.inl hBbad)⟩
    rcases hTdec with ⟨hT, hTok⟩ | hTbad
    swap
    · right
      exact ⟨_, bend_failV s w iv.lo.id w' (R.prv w) (R.nxt w)
        _ _ _ _ _ _ iv.ci [] rest (Fq (R.pt w)) (Fq (R.pt (R.prv w))) (Fq (R.pt (R.nxt w)))
        (Fq (R.pt w')) (Fq (R.pt w)) true (lastHi pre none) (some iv.hi.id) c h hev hv h1 h2 hft hr hrp hvc
        hevs hc1' hc hI.nok hnode (Or.inr ⟨hB, hTbad⟩)⟩
    obtain ⟨N2, out2, hrun, hN2, hsz2, hpt2, hnew2⟩ := bend_runV s w iv.lo.id w' (R.prv w) (R.nxt w)
      _ _ _ _ _ _ iv.ci [] rest (Fq (R.pt w)) (Fq (R.pt (R.prv w))) (Fq (R.pt (R.nxt w)))
      (Fq (R.pt w')) (Fq (R.pt w)) true (lastHi pre none) (some iv.hi.id) c h hev hv h1 h2 hft hr hrp hvc
      hevs hc1' hc hI.nok hnode hB hT
    refine Or.inl ⟨_, hrun, pre ++ ⟨⟨iv.lo.id, w, w'⟩, iv.hi, iv.ci⟩ :: post, ?inv, ?tst, ?ord⟩
    case tst =>
      have hflat' : flatE (pre ++ (⟨⟨iv.lo.id, w, w'⟩, iv.hi, iv.ci⟩ : IV) :: post) =
          flatE pre ++ (⟨iv.lo.id, w, w'⟩ : AE) :: (iv.hi :: flatE post) := by simp
      rw [hflat']
      refine tested_replace (by rw [← hflat]; exact hX.tested) hBok ?_
      intro t ht
      simp only [List.head?_cons, Option.some.injEq] at ht
      rw [← ht]; exact hTok
    case ord =>
      have hflat' : flatE (pre ++ (⟨⟨iv.lo.id, w, w'⟩, iv.hi, iv.ci⟩ : IV) :: post) =
          flatE pre ++ (⟨iv.lo.id, w, w'⟩ : AE) :: (iv.hi :: flatE post) := by simp
      rw [hflat']
      exact ordM_bend hSh hwn hw'n hlww' hr0 (edge_lexX hSh (hI.span _ hlo_mem))
        (by rw [← hflat]; exact honly) hnd hspO hlvne
        (fun e b hb => hvicN e b (List.mem_append_right _ hb)) (by rw [← hflat]; exact hadv)
    have hflat' : flatE (pre ++ (⟨⟨iv.lo.id, w, w'⟩, iv.hi, iv.ci⟩ : IV) :: post) =
        flatE pre ++ (⟨iv.lo.id, w, w'⟩ : AE) :: iv.hi :: flatE post := by simp
    have helt : iv.lo.id < s.edges.size := lt_of_get' hc1'
    have hclt : iv.ci < s.chains.size := lt_of_get' hc
    refine ⟨hI.vget, hI.mono, fun _ => rfl, ?_, ?_, ?_, hN2, ?_, ?_, ?_, ?_, hcpl⟩
    · show s.active = _
      rw [hI.act, hflat, hflat']
      simp
    · have := hI.cind
      simpa using this
    · refine Linked.replace hI.lk rfl rfl ?_ (by show s.nodes.size ≤ N2.size; omega) hpt2 ?_ ?_ ?_
      · intro j hj
        obtain ⟨m1, m2, m3, m4⟩ := hjmem j hj
        refine ⟨?_, ?_, ?_⟩
        · exact Array.getElem?_setIfInBounds_ne (Ne.symm (hidne _ m1 _ hlo_mem (hothers _ m3).1))
        · exact Array.getElem?_setIfInBounds_ne (Ne.symm (hidne _ m2 _ hlo_mem (hothers _ m4).1))
        · exact Array.getElem?_setIfInBounds_ne (Ne.symm (hcine j hj))
      · show (s.edges.setIfInBounds iv.lo.id _)[iv.lo.id]? = _
        rw [Array.getElem?_setIfInBounds_self_of_lt helt]
      · show (s.edges.setIfInBounds iv.lo.id _)[iv.hi.id]? = _
        rw [Array.getElem?_setIfInBounds_ne (hidne _ hlo_mem _ hhi_mem hlohi)]
        exact hc2
      · refine ⟨_, Array.getElem?_setIfInBounds_self_of_lt hclt, ?_, ?_, ?_⟩
        · show s.nodes.size < N2.size; omega
        · exact hnew2
        · show ptAt N2 c.tail = _
          rw [hpt2 _ (ptAt_some_lt ht)]; exact ht
    · rw [hflat']; exact g1
    · rw [hflat']; exact g2
    · rw [hflat']
      show QCore (shearRing ε R) ((shearRing ε R).x w) _ (evAdd s.verts (Fq (R.pt w')) w' iv.lo.id rest)
      rw [evAddV_eq_qAddX hSh hI.vget w' iv.lo.id hw'n rest (fun a ha => (hq.gt a (List.mem_cons_of_mem _ ha)).1)]
      exact g3
    · rw [hflat']; exact g4
  · -- the bending edge is the upper edge of its in-interval
    have hflat2 : flatE (pre ++ iv :: post) = (flatE pre ++ [iv.lo]) ++ iv.hi :: flatE post := by simp
    obtain ⟨g1, g2, g3, g4⟩ := xbend_flat hR (F1 := flatE pre ++ [iv.lo]) (F2 := flatE post)
      (a0 := iv.hi) (by rw [← hflat2]; exact hI.span) (by rw [← hflat2]; exact hI.sorted)
      (by rw [← hflat2]; exact hX.tested) (by rw [← hflat2]; exact hq) (by rw [← hflat2]; exact hI.cross) hw'n hadj hxw' hright hr0
      (by rw [← hflat2]; exact honly)
    obtain ⟨h, hnode⟩ := node_of_ptAt ht
    have hnewspan : Span (shearRing ε R) ((shearRing ε R).x w) (⟨iv.hi.id, w, w'⟩ : AE) := g1 _ (by simp)
    have hnd2 : ((flatE pre ++ [iv.lo]) ++ iv.hi :: flatE post).Nodup := by simpa using hnd
    have hspO : ∀ a ∈ (flatE pre ++ [iv.lo]) ++ flatE post, Span (shearRing ε R) ((shearRing ε R).x w) a := by
      intro a ha
      apply g1
      rcases List.mem_append.mp ha with h' | h'
      · exact List.mem_append_left _ h'
      · exact List.mem_append_right _ (List.mem_cons_of_mem _ h')
    have hlvne : ∀ x ∈ (flatE pre ++ [iv.lo]) ++ flatE post, x.lv ≠ w := by
      intro x hx e
      have hm : x ∈ flatE (pre ++ iv :: post) := by
        rw [hflat2]
        rcases List.mem_append.mp hx with h' | h'
        · exact List.mem_append_left _ h'
        · exact List.mem_append_right _ (List.mem_cons_of_mem _ h')
      have := (hI.span x hm).le
      rw [e] at this
      exact absurd hwq.2 (not_lt.mpr this)
    rcases vic_bend hSh hI.lk hI.act (F1 := flatE pre ++ [iv.lo]) (F2 := flatE post) (a0 := iv.hi)
      hflat2 hq.idinj hnd2 hwn hspO (w' := w') with hhit | ⟨hvc, hvicN⟩
    · right
      exact ⟨_, bend_vic s w iv.hi.id w' (R.prv w) (R.nxt w) _ _ _ _ _ _ [] rest (Fq (R.pt w))
        (Fq (R.pt (R.prv w))) (Fq (R.pt (R.nxt w))) (Fq (R.pt w')) hev hv h1 h2 hft hr hrp hhit⟩
    have hBdec : (PartnerOk s iv.hi.id iv.ci false (some iv.lo.id)
          (fun lb rb => wobP (Fq (R.pt w)) (Fq (R.pt w')) lb rb) ∧ PairOK (shearRing ε R) iv.lo ⟨iv.hi.id, w, w'⟩) ∨
        PartnerBad s iv.hi.id iv.ci false (some iv.lo.id)
          (fun lb rb => wobP (Fq (R.pt w)) (Fq (R.pt w')) lb rb) := by
      have hne := hidne _ hlo_mem _ hhi_mem hlohi
      cases hv : wobP (Fq (R.pt w)) (Fq (R.pt w')) (Fq (R.pt iv.lo.lv)) (Fq (R.pt iv.lo.rv))
      · left
        exact ⟨Or.inr ⟨iv.lo.id, _, Fq (R.pt iv.lo.lv), rfl, hne, hc1, lpt_lo hc1 ⟨c, hc, hrm, hh, ht⟩,
          Or.inr rfl, hv⟩, wobX_decode hSh hcpl (g1 _ (by simp)) hnewspan hv⟩
      · right
        exact ⟨iv.lo.id, _, Fq (R.pt iv.lo.lv), rfl, hne, hc1, lpt_lo hc1 ⟨c, hc, hrm, hh, ht⟩,
          Or.inr rfl, hv⟩
    have hTdec : (PartnerOk s iv.hi.id iv.ci false (nxtLo post none)
          (fun lt rt => wotP (Fq (R.pt w)) (Fq (R.pt w')) lt rt) ∧
        ∀ t, (flatE post).head? = some t → PairOK (shearRing ε R) ⟨iv.hi.id, w, w'⟩ t) ∨
        PartnerBad s iv.hi.id iv.ci false (nxtLo post none)
          (fun lt rt => wotP (Fq (R.pt w)) (Fq (R.pt w')) lt rt) := by
      rcases nxtLo_cases post none with ⟨e0, e⟩ | ⟨ivt, post', e1, e2⟩
      · exact Or.inl ⟨Or.inl e, fun t ht => by rw [e0] at ht; cases ht⟩
      · have hivt : ivt ∈ pre ++ post := by rw [e1]; simp
        obtain ⟨m1, m2, m3, m4⟩ := hjmem ivt hivt
        obtain ⟨bb, aa, hct, -, hcct⟩ := Linked.mem hI.lk ivt (by rw [e1]; simp)
        have hne := hidne _ m1 _ hhi_mem (hothers _ m3).2
        cases hv : wotP (Fq (R.pt w)) (Fq (R.pt w')) (Fq (R.pt ivt.lo.lv)) (Fq (R.pt ivt.lo.rv))
        · left
          refine ⟨Or.inr ⟨ivt.lo.id, _, Fq (R.pt ivt.lo.lv), e2, hne, hct, lpt_lo hct hcct,
            Or.inl (hcine ivt hivt), hv⟩, ?_⟩
          intro t ht
          have : t = ivt.lo := by rw [e1] at ht; simpa using ht.symm
          subst this
          exact wotX_decode hSh hcpl hnewspan (g1 _ (by rw [e1]; simp)) hv
        · right
          exact ⟨ivt.lo.id, _, Fq (R.pt ivt.lo.lv), e2, hne, hct, lpt_lo hct hcct,
            Or.inl (hcine ivt hivt), hv⟩
    have hc2' : s.edges[iv.hi.id]? = some ⟨Fq (R.pt w), iv.ci, false, some iv.lo.id, nxtLo post none⟩ := by
      have := hc2; unfold ECell at this; rw [hr0] at this; exact this
    rcases hBdec with ⟨hB, hBok⟩ | hBbad
    swap
    · right
      exact ⟨_, bend_failV s w iv.hi.id w' (R.prv w) (R.nxt w)
        _ _ _ _ _ _ iv.ci [] rest (Fq (R.pt w)) (Fq (R.pt (R.prv w))) (Fq (R.pt (R.nxt w)))
        (Fq (R.pt w')) (Fq (R.pt w)) false (some iv.lo.id) (nxtLo post none) c h hev hv h1 h2 hft hr hrp hvc
        hevs hc2' hc hI.nok hnode (Or.inl hBbad)⟩
    rcases hTdec with ⟨hT, hTok⟩ | hTbad
    swap
    · right
      exact ⟨_, bend_failV s w iv.hi.id w' (R.prv w) (R.nxt w)
        _ _ _ _ _ _ iv.ci [] rest (Fq (R.pt w)) (Fq (R.pt (R.prv w))) (Fq (R.pt (R.nxt w)))
        (Fq (R.pt w')) (Fq (R.pt w)) false (some iv.lo.id) (nxtLo post none) c h hev hv h1 h2 hft hr hrp hvc
        hevs hc2' hc hI.nok hnode (Or.inr ⟨hB, hTbad⟩)⟩
    obtain ⟨N2, out2, hrun, hN2, hsz2, hpt2, hnew2⟩ := bend_runV s w iv.hi.id w' (R.prv w) (R.nxt w)
      _ _ _ _ _ _ iv.ci [] rest (Fq (R.pt w)) (Fq (R.pt (R.prv w))) (Fq (R.pt (R.nxt w)))
      (Fq (R.pt w')) (Fq (R.pt w)) false (some iv.lo.id) (nxtLo post none) c h hev hv h1 h2 hft hr hrp hvc
      hevs hc2' hc hI.nok hnode hB hT
    refine Or.inl ⟨_, hrun, pre ++ ⟨iv.lo, ⟨iv.hi.id, w, w'⟩, iv.ci⟩ :: post, ?inv2, ?tst2, ?ord2⟩
    case tst2 =>
      have hflat' : flatE (pre ++ (⟨iv.lo, ⟨iv.hi.id, w, w'⟩, iv.ci⟩ : IV) :: post) =
          (flatE pre ++ [iv.lo]) ++ (⟨iv.hi.id, w, w'⟩ : AE) :: flatE post := by simp
      rw [hflat']
      refine tested_replace (by rw [← hflat2]; exact hX.tested) ?_ hTok
      intro b hb
      have : b = iv.lo := by simpa using hb.symm
      rw [this]; exact hBok
    case ord2 =>
      have hflat' : flatE (pre ++ (⟨iv.lo, ⟨iv.hi.id, w, w'⟩, iv.ci⟩ : IV) :: post) =
          (flatE pre ++ [iv.lo]) ++ (⟨iv.hi.id, w, w'⟩ : AE) :: flatE post := by simp
      rw [hflat']
      exact ordM_bend hSh hwn hw'n hlww' hr0 (edge_lexX hSh (hI.span _ hhi_mem))
        (by rw [← hflat2]; exact honly) hnd2 hspO hlvne
        (fun e b hb => hvicN e b (List.mem_append_right _ hb)) (by rw [← hflat2]; exact hadv)
    have hflat' : flatE (pre ++ (⟨iv.lo, ⟨iv.hi.id, w, w'⟩, iv.ci⟩ : IV) :: post) =
        (flatE pre ++ [iv.lo]) ++ (⟨iv.hi.id, w, w'⟩ : AE) :: flatE post := by simp
    have helt : iv.hi.id < s.edges.size := lt_of_get' hc2'
    have hclt : iv.ci < s.chains.size := lt_of_get' hc
    refine ⟨hI.vget, hI.mono, fun _ => rfl, ?_, ?_, ?_, hN2, ?_, ?_, ?_, ?_, hcpl⟩
    · show s.active = _
      rw [hI.act, hflat, hflat']
      simp
    · have := hI.cind
      simpa using this
    · refine Linked.replace hI.lk rfl rfl ?_ (by show s.nodes.size ≤ N2.size; omega) hpt2 ?_ ?_ ?_
      · intro j hj
        obtain ⟨m1, m2, m3, m4⟩ := hjmem j hj
        refine ⟨?_, ?_, ?_⟩
        · exact Array.getElem?_setIfInBounds_ne (Ne.symm (hidne _ m1 _ hhi_mem (hothers _ m3).2))
        · exact Array.getElem?_setIfInBounds_ne (Ne.symm (hidne _ m2 _ hhi_mem (hothers _ m4).2))
        · exact Array.getElem?_setIfInBounds_ne (Ne.symm (hcine j hj))
      · show (s.edges.setIfInBounds iv.hi.id _)[iv.lo.id]? = _
        rw [Array.getElem?_setIfInBounds_ne (hidne _ hhi_mem _ hlo_mem (Ne.symm hlohi))]
        exact hc1
      · show (s.edges.setIfInBounds iv.hi.id _)[iv.hi.id]? = _
        rw [Array.getElem?_setIfInBounds_self_of_lt helt]
      · refine ⟨_, Array.getElem?_setIfInBounds_self_of_lt hclt, ?_, ?_, ?_⟩
        · show s.nodes.size < N2.size; omega
        · show ptAt N2 c.head = _
          rw [hpt2 _ (ptAt_some_lt hh)]; exact hh
        · exact hnew2
    · rw [hflat']; exact g1
    · rw [hflat']; exact g2
    · rw [hflat']
      show QCore (shearRing ε R) ((shearRing ε R).x w) _ (evAdd s.verts (Fq (R.pt w')) w' iv.hi.id rest)
      rw [evAddV_eq_qAddX hSh hI.vget w' iv.hi.id hw'n rest (fun a ha => (hq.gt a (List.mem_cons_of_mem _ ha)).1)]
      exact g3
    · rw [hflat']; exact g4

end Cav.GenXV
