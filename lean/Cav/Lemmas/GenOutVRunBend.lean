/-
  Output of the sweep, equal abscissae allowed (heap level): EXPLICIT version of
  `Cav.GenVHeap.bend_runV` (Bend event with `VicFree` in place of "the new edge is not vertical").
  The proof is a copy; the statement additionally exports the `backTriangulate` run on the
  intermediate state (after `chainAppend`), exactly as `Cav.GenOutBend.bend_run_x` does for
  `Cav.GenBend.bend_run`.
-/
import Cav.Lemmas.GenVHeap

set_option linter.unusedSimpArgs false
set_option linter.unusedVariables false
set_option linter.unusedSectionVars false

namespace Cav.GenOutVRun
open Cav Num Cav.Sweep Cav.SweepRun Cav.TriRun Cav.QuadRun Cav.CvxHeap Cav.CvxEvents Cav.SweepOut
open Cav.GenNodes Cav.GenQuery Cav.GenBend Cav.SweepHeap Cav.GenStart Cav.GenVHeap

variable {α : Type} [Num α]

section
variable (s : St α) (vi e r pr nx a1 a2 a3 a4 a5 a6 ci : Nat) (es' : List Nat)
  (rest : List (Nat × List Nat)) (p q1 q2 rp ro : Pt α) (bof : Bool) (bP tP : Option Nat)
  (c : Chain) (h : Node α)

theorem bend_runV_x
    (hev : s.events = (vi, e :: es') :: rest)
    (hv : s.verts[vi]? = some ⟨p, pr, nx⟩) (h1 : s.verts[pr]? = some ⟨q1, a1, a2⟩)
    (h2 : s.verts[nx]? = some ⟨q2, a3, a4⟩)
    (hft : fromTriplet p q1 q2 = some .bend)
    (hr : (if q1.ge q2 = true then pr else nx) = r) (hrp : s.verts[r]? = some ⟨rp, a5, a6⟩)
    (hvc : VicFree s (some e) p rp)
    (hevs : ∀ a ∈ rest, a.1 < s.verts.size)
    (he : s.edges[e]? = some ⟨ro, ci, bof, bP, tP⟩)
    (hc : s.chains[ci]? = some c)
    (hN : NodesOk s.nodes)
    (hnode : s.nodes[if bof then c.head else c.tail]? = some h)
    (hB : PartnerOk s e ci bof bP (fun lb rb => wobP p rp lb rb))
    (hT : PartnerOk s e ci bof tP (fun lt rt => wotP p rp lt rt)) :
    ∃ (N2 : Array (Node α)) (out2 : List (Pt α × Pt α × Pt α)) (smid : St α),
      (handleNext : SM α Unit).run s = .ok ((),
        { s with x := p.x, nodes := N2,
                 chains := s.chains.setIfInBounds ci (bendChain c bof s.nodes.size),
                 edges := s.edges.setIfInBounds e ⟨rp, ci, bof, bP, tP⟩,
                 events := evAdd s.verts rp r e rest, out := out2 }) ∧
      NodesOk N2 ∧ N2.size = s.nodes.size + 1 ∧
      (∀ i, i < s.nodes.size → ptAt N2 i = ptAt s.nodes i) ∧ ptAt N2 s.nodes.size = some p ∧
      smid.nodes = (if bof then appH s.nodes c.head h p else appT s.nodes c.tail h p) ∧
      smid.out = s.out ∧
      (backTriangulate (bendChain c bof s.nodes.size) (!bof)).run smid =
        .ok ((), { smid with nodes := N2, out := out2 }) := by
  rw [handleNext_run_cons hev]
  unfold nextBody
  cases bof
  · -- the edge is the top of its in-interval: the chain grows at the tail
    simp only [Bool.false_eq_true, if_false] at hnode
    obtain ⟨hN1, hsz1, hpt1, hnew1⟩ := appT_props hN hnode p
    obtain ⟨N2, out2, hbt, hN2, hsz2, hpt2⟩ := bt_ok ⟨s.nodes.size, c.head, s.nodes.size⟩ true
      { s with events := rest, x := p.x, nodes := appT s.nodes c.tail h p,
               chains := s.chains.setIfInBounds ci ⟨s.nodes.size, c.head, s.nodes.size⟩ }
      hN1 (by simp only [if_true]; rw [hsz1]; exact Nat.lt_succ_self _)
    have hptA : ∀ i, i < s.nodes.size → ptAt N2 i = ptAt s.nodes i := fun i hi => by
      rw [hpt2 i]; exact hpt1 i hi
    have hnewA : ptAt N2 s.nodes.size = some p := by rw [hpt2]; exact hnew1
    refine ⟨N2, out2,
      { s with events := rest, x := p.x, nodes := appT s.nodes c.tail h p,
               chains := s.chains.setIfInBounds ci ⟨s.nodes.size, c.head, s.nodes.size⟩ },
      ?_, hN2, by rw [hsz2]; exact hsz1, hptA, hnewA, rfl, rfl, hbt⟩
    show Runs s _ _
    sm_steps [hv, h1, h2, hft]
    unfold handleBend
    sm_steps [hv, h1, h2, hft, hr, hrp]
    sm_use (run_vic _ (some e) p rp ?h1)
    case h1 => exact hvc.congr rfl rfl rfl rfl
    sm_whnf
    sm_steps [hv, h1, h2, hft, hr, hrp, he, hc]
    sm_by (run_chainAppend_tail _ _ _ _ hnode)
    sm_bind
    sm_by hbt
    sm_bind [he]
    sm_bind
    sm_by (wob_false s _ e ci false bP tP p rp c ⟨s.nodes.size, c.head, s.nodes.size⟩ true rfl
      (lt_of_get' he) hc rfl rfl hptA hnewA hB)
    sm_cond
    sm_by (wot_false s _ e ci false bP tP p rp c ⟨s.nodes.size, c.head, s.nodes.size⟩ true rfl
      (lt_of_get' he) hc rfl rfl hptA hnewA hT)
    sm_cond
    rw [hr]
    refine Runs.final ?_
    exact Eq.trans (run_eventsAdd r e _ ⟨rp, a5, a6⟩ (by exact hrp) (by exact hevs)) rfl
  · -- the edge is the bottom of its in-interval: the chain grows at the head
    simp only [if_true] at hnode
    obtain ⟨hN1, hsz1, hpt1, hnew1⟩ := appH_props hN hnode p
    obtain ⟨N2, out2, hbt, hN2, hsz2, hpt2⟩ := bt_ok ⟨s.nodes.size, s.nodes.size, c.tail⟩ false
      { s with events := rest, x := p.x, nodes := appH s.nodes c.head h p,
               chains := s.chains.setIfInBounds ci ⟨s.nodes.size, s.nodes.size, c.tail⟩ }
      hN1 (by simp only [Bool.false_eq_true, if_false]; rw [hsz1]; exact Nat.lt_succ_self _)
    have hptA : ∀ i, i < s.nodes.size → ptAt N2 i = ptAt s.nodes i := fun i hi => by
      rw [hpt2 i]; exact hpt1 i hi
    have hnewA : ptAt N2 s.nodes.size = some p := by rw [hpt2]; exact hnew1
    refine ⟨N2, out2,
      { s with events := rest, x := p.x, nodes := appH s.nodes c.head h p,
               chains := s.chains.setIfInBounds ci ⟨s.nodes.size, s.nodes.size, c.tail⟩ },
      ?_, hN2, by rw [hsz2]; exact hsz1, hptA, hnewA, rfl, rfl, hbt⟩
    show Runs s _ _
    sm_steps [hv, h1, h2, hft]
    unfold handleBend
    sm_steps [hv, h1, h2, hft, hr, hrp]
    sm_use (run_vic _ (some e) p rp ?h1)
    case h1 => exact hvc.congr rfl rfl rfl rfl
    sm_whnf
    sm_steps [hv, h1, h2, hft, hr, hrp, he, hc]
    sm_by (run_chainAppend_head _ _ _ _ hnode)
    sm_bind
    sm_by hbt
    sm_bind [he]
    sm_bind
    sm_by (wob_false s _ e ci true bP tP p rp c ⟨s.nodes.size, s.nodes.size, c.tail⟩ true rfl
      (lt_of_get' he) hc rfl rfl hptA hnewA hB)
    sm_cond
    sm_by (wot_false s _ e ci true bP tP p rp c ⟨s.nodes.size, s.nodes.size, c.tail⟩ true rfl
      (lt_of_get' he) hc rfl rfl hptA hnewA hT)
    sm_cond
    rw [hr]
    refine Runs.final ?_
    exact Eq.trans (run_eventsAdd r e _ ⟨rp, a5, a6⟩ (by exact hrp) (by exact hevs)) rfl

end

end Cav.GenOutVRun
