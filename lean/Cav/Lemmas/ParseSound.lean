/-
  Soundness of the parser model w.r.t. the grammar `Spec/Grammar.lean` (C17 part A):
  lexer lemmas and the simultaneous fuel induction over the seven mutual parser functions.
-/
import Cav.Spec.Grammar
import Cav.Lemmas.GrammarInd

namespace Cav.ParseSound
open Cav Grammar

/-! ### list helpers -/

theorem mem_takeWhile {α} (p : α → Bool) (l : List α) : ∀ c ∈ l.takeWhile p, p c = true := by
  induction l with
  | nil => simp
  | cons a t ih =>
    intro c hc
    by_cases h : p a = true
    · simp [h] at hc
      rcases hc with rfl | hc
      · exact h
      · exact ih c hc
    · simp [h] at hc

theorem head_dropWhile {α} (p : α → Bool) (l : List α) (c : α)
    (h : (l.dropWhile p).head? = some c) : p c = false := by
  have := List.head?_dropWhile_not p l
  rw [h] at this
  simpa using this

/-! ### `alpha1`, `digit1`, `negCount` -/

theorem alpha1_spec {s name r : List Char} (h : alpha1 s = some (name, r)) :
    s = name ++ r ∧ IsName name ∧ (∀ c, r.head? = some c → isAlpha c = false) := by
  unfold alpha1 at h
  simp only at h
  split at h
  · cases h
  · rename_i hne
    cases h
    refine ⟨List.takeWhile_append_dropWhile.symm, ⟨?_, mem_takeWhile _ _⟩, head_dropWhile _ _⟩
    intro h; simp [h] at hne

theorem digit1_spec {s ds r : List Char} (h : digit1 s = some (ds, r)) :
    s = ds ++ r ∧ Digits ds ∧ (∀ c, r.head? = some c → isDigit c = false) := by
  unfold digit1 at h
  simp only at h
  split at h
  · cases h
  · rename_i hne
    cases h
    refine ⟨List.takeWhile_append_dropWhile.symm, ⟨?_, mem_takeWhile _ _⟩, head_dropWhile _ _⟩
    intro h; simp [h] at hne

theorem negCount_spec (s : List Char) :
    s = List.replicate (negCount s).1 '-' ++ (negCount s).2 ∧ (negCount s).2.head? ≠ some '-' := by
  unfold negCount
  simp only
  refine ⟨?_, ?_⟩
  · have h1 : List.takeWhile (· == '-') s = List.replicate (List.takeWhile (· == '-') s).length '-' := by
      rw [List.eq_replicate_iff]
      refine ⟨rfl, ?_⟩
      intro b hb
      simpa using mem_takeWhile _ _ b hb
    rw [← h1]
    exact List.takeWhile_append_dropWhile.symm
  · intro h
    have := head_dropWhile _ _ _ h
    simp at this

/-! ### the pieces of `lexDouble` / `lexI32` -/

def signOf (s : List Char) : Bool × List Char :=
  match s with
  | '+' :: t => (false, t)
  | '-' :: t => (true, t)
  | _ => (false, s)

def mantOf (s1 : List Char) : Option (Nat × Nat × List Char) :=
    match digit1 s1 with
    | some (ip, r) =>
      match r with
      | '.' :: r2 =>
        match digit1 r2 with
        | some (fp, r3) => some (digitsVal (ip ++ fp), fp.length, r3)
        | none => some (digitsVal ip, 0, r2)
      | _ => some (digitsVal ip, 0, r)
    | none =>
      match s1 with
      | '.' :: r2 =>
        match digit1 r2 with
        | some (fp, r3) => some (digitsVal fp, fp.length, r3)
        | none => none
      | _ => none

def isE (r : List Char) : Bool := match r with | 'e' :: _ => true | 'E' :: _ => true | _ => false

def finish (neg : Bool) (m fd : Nat) (r : List Char) : Option (List Char × E) :=
    if isE r then
      match digit1 (signOf (r.drop 1)).2 with
      | some (ed, r3) =>
        if neg then some (r3, .un .neg (.lit m ((if (signOf (r.drop 1)).1 then -(digitsVal ed : Int) else (digitsVal ed : Int)) - fd)))
        else some (r3, .lit m ((if (signOf (r.drop 1)).1 then -(digitsVal ed : Int) else (digitsVal ed : Int)) - fd))
      | none => none
    else
      if neg then some (r, .un .neg (.lit m (-(fd : Int)))) else some (r, .lit m (-(fd : Int)))

def nanInf (s : List Char) : Option (List Char × E) :=
    match tagNoCase ['n', 'a', 'n'] s with
    | some r => some (r, .litNan)
    | none =>
      match tagNoCase ['i', 'n', 'f'] s with
      | some r => some (r, .litInf)
      | none => none

theorem lexDouble_eq (s : List Char) : lexDouble s =
      match mantOf (signOf s).2 with
      | some (m, fd, r) => finish (signOf s).1 m fd r
      | none => nanInf s := rfl

def i32Step (neg : Bool) (acc : Option Int) (c : Char) : Option Int :=
  match acc with
  | none => none
  | some v =>
    let v' : Int := if neg then v * 10 - (digitVal c : Int) else v * 10 + (digitVal c : Int)
    if -2147483648 ≤ v' && v' ≤ 2147483647 then some v' else none

theorem lexI32_eq (s : List Char) : lexI32 s =
    match digit1 (signOf s).2 with
    | none => none
    | some (ds, r) =>
      match ds.foldl (i32Step (signOf s).1) (some 0) with
      | some v => some (r, v)
      | none => none := rfl

theorem signOf_cases (s : List Char) :
    (∃ t, s = '+' :: t ∧ signOf s = (false, t)) ∨ (∃ t, s = '-' :: t ∧ signOf s = (true, t)) ∨
    (signOf s = (false, s) ∧ s.head? ≠ some '+' ∧ s.head? ≠ some '-') := by
  unfold signOf
  split
  · exact .inl ⟨_, rfl, rfl⟩
  · exact .inr (.inl ⟨_, rfl, rfl⟩)
  · rename_i h1 h2
    refine .inr (.inr ⟨rfl, ?_, ?_⟩)
    · intro h; cases s with
      | nil => simp at h
      | cons a t => simp at h; subst h; exact h1 t rfl
    · intro h; cases s with
      | nil => simp at h
      | cons a t => simp at h; subst h; exact h2 t rfl

theorem mantOf_spec {s1 : List Char} {m fd : Nat} {r : List Char} (h : mantOf s1 = some (m, fd, r)) :
    ∃ ms, s1 = ms ++ r ∧ Mantissa m fd ms := by
  unfold mantOf at h
  split at h
  · rename_i ip r0 hd
    obtain ⟨hs, hip, -⟩ := digit1_spec hd
    split at h
    · rename_i r2
      split at h
      · rename_i fp r3 hd2
        obtain ⟨hs2, hfp, -⟩ := digit1_spec hd2
        cases h
        refine ⟨ip ++ '.' :: fp, ?_, Mantissa.intFrac ip fp hip hfp⟩
        rw [hs, hs2]; simp
      · cases h
        refine ⟨ip ++ ['.'], ?_, Mantissa.intDot ip hip⟩
        rw [hs]; simp
    · cases h
      exact ⟨ip, hs, Mantissa.int ip hip⟩
  · split at h
    · rename_i r2
      split at h
      · rename_i fp r3 hd2
        obtain ⟨hs2, hfp, -⟩ := digit1_spec hd2
        cases h
        refine ⟨'.' :: fp, ?_, Mantissa.frac fp hfp⟩
        rw [hs2]; simp
      · cases h
    · cases h

theorem finish_spec {m fd : Nat} {r r' : List Char} {t : E} (h : finish false m fd r = some (r', t)) :
    ∃ ev es, r = es ++ r' ∧ Exponent ev es ∧ t = .lit m (ev - fd) := by
  unfold finish at h
  split at h
  · rename_i hE
    split at h
    · rename_i ed r3 hd
      obtain ⟨hs, hed, -⟩ := digit1_spec hd
      simp only [Bool.false_eq_true, if_false] at h
      cases h
      -- the marker
      have hr : ∃ c r1, r = c :: r1 ∧ (c = 'e' ∨ c = 'E') := by
        unfold isE at hE
        split at hE
        · exact ⟨_, _, rfl, .inl rfl⟩
        · exact ⟨_, _, rfl, .inr rfl⟩
        · cases hE
      obtain ⟨c, r1, rfl, hc⟩ := hr
      simp only [List.drop_one, List.tail_cons] at hs hd ⊢
      rcases signOf_cases r1 with ⟨t1, rfl, hsg⟩ | ⟨t1, rfl, hsg⟩ | ⟨hsg, -, -⟩
      · rw [hsg] at hs ⊢
        simp only at hs
        refine ⟨_, c :: '+' :: ed, ?_, Exponent.plus c ed hc hed, ?_⟩
        · rw [hs]; simp
        · simp
      · rw [hsg] at hs ⊢
        simp only at hs
        refine ⟨_, c :: '-' :: ed, ?_, Exponent.minus c ed hc hed, ?_⟩
        · rw [hs]; simp
        · simp
      · rw [hsg] at hs ⊢
        simp only at hs
        refine ⟨_, c :: ed, ?_, Exponent.pos c ed hc hed, ?_⟩
        · rw [hs]; simp
        · simp
    · cases h
  · simp only [Bool.false_eq_true, if_false] at h
    cases h
    exact ⟨0, [], rfl, Exponent.none, by simp⟩

theorem tagNoCase_spec {pat s r : List Char} (h : tagNoCase pat s = some r) :
    s = s.take pat.length ++ r ∧ (s.take pat.length).map lower = pat := by
  unfold tagNoCase at h
  split at h
  · rename_i hc
    cases h
    simp only [Bool.and_eq_true, beq_iff_eq, decide_eq_true_eq] at hc
    exact ⟨(List.take_append_drop _ _).symm, hc.1⟩
  · cases h

theorem nanInf_spec {s r : List Char} {t : E} (h : nanInf s = some (r, t)) :
    ∃ pre, s = pre ++ r ∧ NumLeaf t pre := by
  unfold nanInf at h
  split at h
  · rename_i r0 ht
    cases h
    obtain ⟨h1, h2⟩ := tagNoCase_spec ht
    exact ⟨_, h1, NumLeaf.nan _ h2⟩
  · split at h
    · rename_i r0 ht
      cases h
      obtain ⟨h1, h2⟩ := tagNoCase_spec ht
      exact ⟨_, h1, NumLeaf.inf _ h2⟩
    · cases h

/-- `lexDouble` on an input that does not start with '-' recognises a `NumLeaf` -/
theorem lexDouble_sound {s r : List Char} {t : E} (h : lexDouble s = some (r, t))
    (hneg : s.head? ≠ some '-') : ∃ pre, s = pre ++ r ∧ NumLeaf t pre := by
  rw [lexDouble_eq] at h
  split at h
  · rename_i m fd r0 hm
    obtain ⟨ms, hms, hM⟩ := mantOf_spec hm
    rcases signOf_cases s with ⟨t1, rfl, hsg⟩ | ⟨t1, rfl, hsg⟩ | ⟨hsg, -, -⟩
    · rw [hsg] at h hms
      simp only at h hms
      obtain ⟨ev, es, hr0, hE, rfl⟩ := finish_spec h
      refine ⟨'+' :: ms ++ es, ?_, NumLeaf.plusDec m fd ev ms es hM hE⟩
      rw [hms, hr0]; simp
    · simp at hneg
    · rw [hsg] at h hms
      simp only at h hms
      obtain ⟨ev, es, hr0, hE, rfl⟩ := finish_spec h
      refine ⟨ms ++ es, ?_, NumLeaf.dec m fd ev ms es hM hE⟩
      rw [hms, hr0]; simp
  · exact nanInf_spec h


/-- `parse_const` accepts only what `lexDouble` accepts -/
theorem parseConst_some {s r : List Char} {t : E} (h : parseConst s = some (r, t)) :
    lexDouble s = some (r, t) := by
  unfold parseConst at h
  split at h
  · rename_i rest t0 hl
    split at h
    · cases h
    · cases h; exact hl
  · cases h

/-- `parseConst` on an input that does not start with '-' recognises a `NumLeaf` -/
theorem parseConst_sound {s r : List Char} {t : E} (h : parseConst s = some (r, t))
    (hneg : s.head? ≠ some '-') : ∃ pre, s = pre ++ r ∧ NumLeaf t pre :=
  lexDouble_sound (parseConst_some h) hneg

theorem foldl_i32Step_none (neg : Bool) (ds : List Char) : ds.foldl (i32Step neg) none = none := by
  induction ds with
  | nil => rfl
  | cons c t ih => simpa [List.foldl_cons, i32Step] using ih

theorem foldl_i32Step_pos (ds : List Char) (n0 : Nat) (v : Int) (h0 : (n0 : Int) ≤ 2147483647)
    (h : ds.foldl (i32Step false) (some (n0 : Int)) = some v) :
    v = ((ds.foldl (fun acc c => acc * 10 + digitVal c) n0 : Nat) : Int) ∧ v ≤ 2147483647 := by
  induction ds generalizing n0 with
  | nil => simp at h; subst h; exact ⟨rfl, h0⟩
  | cons c t ih =>
    rw [List.foldl_cons] at h
    by_cases hr : ((n0 : Int) * 10 + (digitVal c : Int)) ≤ 2147483647
    · have hstep : i32Step false (some (n0 : Int)) c = some (((n0 * 10 + digitVal c : Nat)) : Int) := by
        simp only [i32Step, Bool.false_eq_true, if_false]
        have : (-2147483648 : Int) ≤ (n0 : Int) * 10 + (digitVal c : Int) := by omega
        simp [this, hr]
      rw [hstep] at h
      have := ih (n0 * 10 + digitVal c) (by omega) h
      simpa [List.foldl_cons] using this
    · have hstep : i32Step false (some (n0 : Int)) c = none := by
        simp only [i32Step, Bool.false_eq_true, if_false]
        simp [hr]
      rw [hstep, foldl_i32Step_none] at h
      cases h

theorem foldl_i32Step_neg (ds : List Char) (n0 : Nat) (v : Int) (h0 : (n0 : Int) ≤ 2147483648)
    (h : ds.foldl (i32Step true) (some (-(n0 : Int))) = some v) :
    v = -((ds.foldl (fun acc c => acc * 10 + digitVal c) n0 : Nat) : Int) ∧
      ((ds.foldl (fun acc c => acc * 10 + digitVal c) n0 : Nat) : Int) ≤ 2147483648 := by
  induction ds generalizing n0 with
  | nil => simp at h; subst h; exact ⟨rfl, h0⟩
  | cons c t ih =>
    rw [List.foldl_cons] at h
    by_cases hr : ((n0 : Int) * 10 + (digitVal c : Int)) ≤ 2147483648
    · have hstep : i32Step true (some (-(n0 : Int))) c = some (-((n0 * 10 + digitVal c : Nat) : Int)) := by
        simp only [i32Step, if_true]
        have h1 : (-2147483648 : Int) ≤ -(n0 : Int) * 10 - (digitVal c : Int) := by omega
        have h2 : -(n0 : Int) * 10 - (digitVal c : Int) ≤ 2147483647 := by omega
        simp [h1, h2]; omega
      rw [hstep] at h
      have := ih (n0 * 10 + digitVal c) (by omega) h
      simpa [List.foldl_cons] using this
    · have hstep : i32Step true (some (-(n0 : Int))) c = none := by
        simp only [i32Step, if_true]
        have h1 : ¬ (-2147483648 : Int) ≤ -(n0 : Int) * 10 - (digitVal c : Int) := by omega
        simp [h1]
      rw [hstep, foldl_i32Step_none] at h
      cases h

/-- `lexI32` recognises an `I32Text` -/
theorem lexI32_sound {s r : List Char} {n : Int} (h : lexI32 s = some (r, n)) :
    ∃ pre, s = pre ++ r ∧ I32Text n pre := by
  rw [lexI32_eq] at h
  split at h
  · cases h
  · rename_i ds r0 hd
    obtain ⟨hs, hds, -⟩ := digit1_spec hd
    split at h
    · rename_i v hf
      cases h
      rcases signOf_cases s with ⟨t1, rfl, hsg⟩ | ⟨t1, rfl, hsg⟩ | ⟨hsg, -, -⟩
      · rw [hsg] at hs hf
        simp only at hs hf
        obtain ⟨rfl, hle⟩ := foldl_i32Step_pos ds 0 n (by decide) hf
        exact ⟨'+' :: ds, by rw [hs]; simp, I32Text.plus ds hds hle⟩
      · rw [hsg] at hs hf
        simp only at hs hf
        obtain ⟨rfl, hle⟩ := foldl_i32Step_neg ds 0 n (by decide) (by simpa using hf)
        exact ⟨'-' :: ds, by rw [hs]; simp, I32Text.minus ds hds hle⟩
      · rw [hsg] at hs hf
        simp only at hs hf
        obtain ⟨rfl, hle⟩ := foldl_i32Step_pos ds 0 n (by decide) hf
        exact ⟨ds, hs, I32Text.pos ds hds hle⟩
    · cases h


/-! ### `parseVar` -/

theorem parseVar_sound {ctx : Ctx} {s rest : List Char} {t : E} (h : parseVar ctx s = .ok rest t) :
    ∃ pre, s = pre ++ rest ∧ PAtom ctx t pre := by
  unfold parseVar at h
  split at h
  · cases h
  · rename_i name r ha
    obtain ⟨hs, hn, -⟩ := alpha1_spec ha
    split at h
    · rename_i hg; cases h; exact ⟨name, hs, PAtom.cst hn hg⟩
    · rename_i i hg; cases h; exact ⟨name, hs, PAtom.var hn hg⟩
    · cases h

/-! ### the simultaneous statement -/

/-- all seven mutual functions are sound at a given fuel -/
structure SoundAt (ctx : Ctx) (fuel : Nat) : Prop where
  expr : ∀ s rest t, parseExpr fuel ctx s = .ok rest t → ∃ pre, s = pre ++ rest ∧ PExpr ctx t pre
  ladd : ∀ s acc rest t pre0, PExpr ctx acc pre0 → loopAdd fuel ctx s acc = .ok rest t →
    ∃ pre, s = pre ++ rest ∧ PExpr ctx t (pre0 ++ pre)
  mul : ∀ s a rest t, parseMul fuel ctx s a = .ok rest t → ∃ pre, s = pre ++ rest ∧ PMul ctx a t pre
  lmul : ∀ s a acc rest t pre0, PMul ctx a acc pre0 → loopMul fuel ctx s acc = .ok rest t →
    ∃ pre, s = pre ++ rest ∧ PMul ctx a t (pre0 ++ pre)
  term : ∀ s a rest t, parseTerm fuel ctx s a = .ok rest t → ∃ pre, s = pre ++ rest ∧ PTerm ctx a t pre
  par : ∀ s rest t, parseParenth fuel ctx s = .ok rest t → ∃ pre, s = pre ++ rest ∧ PAtom ctx t pre
  func : ∀ s rest t, parseFunc fuel ctx s = .ok rest t → ∃ pre, s = pre ++ rest ∧ PAtom ctx t pre

/-- the alternative chain of `parse_term` -/
def atomR (fuel : Nat) (ctx : Ctx) (s1 : List Char) : R E :=
  match parseParenth fuel ctx s1 with
  | .ok r t => .ok r t
  | .oof => .oof
  | .fail =>
    match parseConst s1 with
    | some (r, t) => .ok r t
    | none =>
      match parseFunc fuel ctx s1 with
      | .ok r t => .ok r t
      | .oof => .oof
      | .fail => parseVar ctx s1

/-- the exponent part of `parse_term` -/
def powR (fuel : Nat) (ctx : Ctx) (rest : List Char) (base : E) : R E :=
  match rest with
  | '^' :: r1 =>
    match parseTerm fuel ctx r1 true with
    | .ok r2 ex => .ok r2 (.bin .pow base ex)
    | .oof => .oof
    | .fail => .ok rest base
  | '*' :: '*' :: r1 =>
    match lexI32 r1 with
    | some (r2, n) => .ok r2 (.powi base n)
    | none => .ok rest base
  | _ => .ok rest base

theorem parseTerm_succ (fuel : Nat) (ctx : Ctx) (s : List Char) (a : Bool) :
    parseTerm (fuel + 1) ctx s a =
      if !((negCount s).1 == 0 || (a && (negCount s).1 == 1)) then .fail
      else
        match atomR fuel ctx (negCount s).2 with
        | .fail => .fail
        | .oof => .oof
        | .ok rest base =>
          match powR fuel ctx rest base with
          | .ok r t => if (negCount s).1 == 1 then .ok r (.un .neg t) else .ok r t
          | .fail => .fail
          | .oof => .oof := by
  rw [parseTerm]
  rfl

theorem atomR_sound {ctx : Ctx} {fuel : Nat} (ih : SoundAt ctx fuel) {s1 rest : List Char} {t : E}
    (h : atomR fuel ctx s1 = .ok rest t) (hneg : s1.head? ≠ some '-') :
    ∃ pre, s1 = pre ++ rest ∧ PAtom ctx t pre := by
  unfold atomR at h
  split at h
  · rename_i r t0 hp; cases h; exact ih.par _ _ _ hp
  · cases h
  · split at h
    · rename_i r t0 hl; cases h; obtain ⟨pre, hs, hn⟩ := parseConst_sound hl hneg
      exact ⟨pre, hs, PAtom.num hn⟩
    · split at h
      · rename_i r t0 hf; cases h; exact ih.func _ _ _ hf
      · cases h
      · exact parseVar_sound h

theorem powR_sound {ctx : Ctx} {fuel : Nat} (ih : SoundAt ctx fuel) {rest r pre0 : List Char} {base t : E}
    (hb : PAtom ctx base pre0) (h : powR fuel ctx rest base = .ok r t) :
    ∃ pre, rest = pre ++ r ∧ PPow ctx t (pre0 ++ pre) := by
  unfold powR at h
  split at h
  · rename_i r1
    split at h
    · rename_i r2 ex hp
      cases h
      obtain ⟨pre, hs, hT⟩ := ih.term _ _ _ _ hp
      exact ⟨'^' :: pre, by rw [hs]; simp, PPow.pow hb hT⟩
    · cases h
    · cases h; exact ⟨[], by simp, by simpa using PPow.up hb⟩
  · rename_i r1
    split at h
    · rename_i r2 n hl
      cases h
      obtain ⟨pre, hs, hI⟩ := lexI32_sound hl
      exact ⟨'*' :: '*' :: pre, by rw [hs]; simp, PPow.powi hb hI⟩
    · cases h; exact ⟨[], by simp, by simpa using PPow.up hb⟩
  · cases h; exact ⟨[], by simp, by simpa using PPow.up hb⟩

theorem soundAt_zero (ctx : Ctx) : SoundAt ctx 0 := by
  constructor <;> intros <;> rename_i h <;> simp [parseExpr, loopAdd, parseMul, loopMul, parseTerm, parseParenth, parseFunc] at h

theorem soundAt_succ {ctx : Ctx} {fuel : Nat} (ih : SoundAt ctx fuel) : SoundAt ctx (fuel + 1) := by
  constructor
  · -- parseExpr
    intro s rest t h
    rw [parseExpr] at h
    split at h
    · rename_i r0 t0 hm
      obtain ⟨pre0, hs0, hM⟩ := ih.mul _ _ _ _ hm
      obtain ⟨pre, hs, hE⟩ := ih.ladd _ _ _ _ pre0 (PExpr.up hM) h
      exact ⟨pre0 ++ pre, by rw [hs0, hs]; simp, hE⟩
    · cases h
    · cases h
  · -- loopAdd
    intro s acc rest t pre0 hacc h
    unfold loopAdd at h
    split at h
    · rename_i r0
      split at h
      · rename_i r1 t1 hm
        obtain ⟨pre1, hs1, hM⟩ := ih.mul _ _ _ _ hm
        obtain ⟨pre, hs, hE⟩ := ih.ladd _ _ _ _ _ (PExpr.add hacc hM) h
        exact ⟨'+' :: pre1 ++ pre, by rw [hs1, hs]; simp, by simpa using hE⟩
      · cases h
      · cases h
    · rename_i r0
      split at h
      · rename_i r1 t1 hm
        obtain ⟨pre1, hs1, hM⟩ := ih.mul _ _ _ _ hm
        obtain ⟨pre, hs, hE⟩ := ih.ladd _ _ _ _ _ (PExpr.sub hacc hM) h
        exact ⟨'-' :: pre1 ++ pre, by rw [hs1, hs]; simp, by simpa using hE⟩
      · cases h
      · cases h
    · cases h; exact ⟨[], by simp, by simpa using hacc⟩
  · -- parseMul
    intro s a rest t h
    rw [parseMul] at h
    split at h
    · rename_i r0 t0 hm
      obtain ⟨pre0, hs0, hT⟩ := ih.term _ _ _ _ hm
      obtain ⟨pre, hs, hE⟩ := ih.lmul _ a _ _ _ pre0 (PMul.up hT) h
      exact ⟨pre0 ++ pre, by rw [hs0, hs]; simp, hE⟩
    · cases h
    · cases h
  · -- loopMul
    intro s a acc rest t pre0 hacc h
    unfold loopMul at h
    split at h
    · rename_i r0
      split at h
      · rename_i r1 t1 hm
        obtain ⟨pre1, hs1, hT⟩ := ih.term _ _ _ _ hm
        obtain ⟨pre, hs, hE⟩ := ih.lmul _ a _ _ _ _ (PMul.mul hacc hT) h
        exact ⟨'*' :: pre1 ++ pre, by rw [hs1, hs]; simp, by simpa using hE⟩
      · cases h
      · cases h
    · rename_i r0
      split at h
      · rename_i r1 t1 hm
        obtain ⟨pre1, hs1, hT⟩ := ih.term _ _ _ _ hm
        obtain ⟨pre, hs, hE⟩ := ih.lmul _ a _ _ _ _ (PMul.div hacc hT) h
        exact ⟨'/' :: pre1 ++ pre, by rw [hs1, hs]; simp, by simpa using hE⟩
      · cases h
      · cases h
    · cases h; exact ⟨[], by simp, by simpa using hacc⟩
  · -- parseTerm
    intro s a rest t h
    rw [parseTerm_succ] at h
    obtain ⟨hs, hhead⟩ := negCount_spec s
    split at h
    · cases h
    · rename_i hcond
      split at h
      · cases h
      · cases h
      · rename_i r0 base hat
        obtain ⟨pre0, hs0, hA⟩ := atomR_sound ih hat hhead
        split at h
        · rename_i r1 t1 hp
          obtain ⟨pre1, hs1, hP⟩ := powR_sound ih hA hp
          split at h
          · rename_i hn1
            cases h
            have hn : (negCount s).1 = 1 := by simpa using hn1
            have ha : a = true := by
              cases a with
              | true => rfl
              | false => simp [hn] at hcond
            subst ha
            refine ⟨'-' :: (pre0 ++ pre1), ?_, PTerm.neg hP⟩
            rw [hs, hn, hs0, hs1]; simp
          · rename_i hn1
            cases h
            have hn : (negCount s).1 = 0 := by
              have : (negCount s).1 ≠ 1 := by simpa using hn1
              cases a <;> simp at hcond <;> omega
            refine ⟨pre0 ++ pre1, ?_, PTerm.pos hP⟩
            rw [hs, hn, hs0, hs1]; simp
        · cases h
        · cases h
  · -- parseParenth
    intro s rest t h
    unfold parseParenth at h
    split at h
    · rename_i r
      split at h
      · rename_i r2 t0 he
        cases h
        obtain ⟨pre, hs, hE⟩ := ih.expr _ _ _ he
        exact ⟨'(' :: pre ++ [')'], by rw [hs]; simp, PAtom.paren hE⟩
      · cases h
      · cases h
      · cases h
    · cases h
  · -- parseFunc
    intro s rest t h
    rw [parseFunc] at h
    split at h
    · cases h
    · rename_i name r ha
      obtain ⟨hs, hn, -⟩ := alpha1_spec ha
      split at h
      · rename_i hg
        split at h
        · rename_i r1
          split at h
          · rename_i r2 t0 he
            cases h
            obtain ⟨pre, hs1, hE⟩ := ih.expr _ _ _ he
            exact ⟨name ++ '(' :: pre ++ [')'], by rw [hs, hs1]; simp, PAtom.call hn hg hE⟩
          · cases h
          · cases h
          · cases h
        · cases h
      · cases h

theorem soundAt (ctx : Ctx) : ∀ fuel, SoundAt ctx fuel
  | 0 => soundAt_zero ctx
  | fuel + 1 => soundAt_succ (soundAt ctx fuel)


/-- the context check at the head of `compile` -/
def ctxOOB (arity : Nat) (ctx : Ctx) : Bool :=
  ctx.any (fun p => match p.2 with | .var i => decide (arity ≤ i) | _ => false)

theorem compile_eq (arity : Nat) (ctx : Ctx) (src : List Char) :
    compile arity ctx src =
      if ctxOOB arity ctx then .error .paramOOB
      else
        match parseExpr (fuelFor (stripWs src)) ctx (stripWs src) with
        | .oof => .error .outOfFuel
        | .fail => .error .parsing
        | .ok rest t => if rest.isEmpty then .ok t else .error .residue := rfl

/-- what a successful `compile` means -/
theorem compile_ok_iff {arity : Nat} {ctx : Ctx} {src : List Char} {t : E} :
    compile arity ctx src = .ok t ↔
      (ctxOOB arity ctx = false ∧ parseExpr (fuelFor (stripWs src)) ctx (stripWs src) = .ok [] t) := by
  rw [compile_eq]
  cases hc : ctxOOB arity ctx
  · simp only [Bool.false_eq_true, if_false, true_and]
    split
    · rename_i he; simp [he]
    · rename_i he; simp [he]
    · rename_i rest t0 he
      cases rest with
      | nil => simp [he]
      | cons c r => simp [he]
  · simp

theorem parse_sound (arity : Nat) (ctx : Ctx) (src : List Char) (t : E)
    (h : compile arity ctx src = .ok t) : Prints ctx t (stripWs src) := by
  obtain ⟨-, hp⟩ := compile_ok_iff.1 h
  obtain ⟨pre, hs, hE⟩ := (soundAt ctx _).expr _ _ _ hp
  rw [hs]; simpa using hE


/-! ### variable indices -/

theorem Ctx.get_mem {ctx : Ctx} {n : String} {e : CtxEl} (h : ctx.get n = some e) :
    ∃ n', (n', e) ∈ ctx := by
  unfold Ctx.get at h
  cases hf : ctx.find? (fun p => p.1 == n) with
  | none => simp [hf] at h
  | some p =>
    simp [hf] at h
    subst h
    exact ⟨p.1, List.mem_of_find?_eq_some hf⟩

theorem ctxOOB_false {arity : Nat} {ctx : Ctx} (h : ctxOOB arity ctx = false) :
    ∀ p ∈ ctx, ∀ i, p.2 = .var i → i < arity := by
  intro p hp i hi
  unfold ctxOOB at h
  rw [List.any_eq_false] at h
  have := h p hp
  rw [hi] at this
  simpa using this

theorem ctxOOB_true {arity : Nat} {ctx : Ctx} (h : ∃ p ∈ ctx, ∃ i, p.2 = .var i ∧ arity ≤ i) :
    ctxOOB arity ctx = true := by
  obtain ⟨p, hp, i, hi, hle⟩ := h
  unfold ctxOOB
  rw [List.any_eq_true]
  exact ⟨p, hp, by rw [hi]; simpa using hle⟩

/-- variable leaves of a grammar tree come from the context -/
theorem prints_varsLt {ctx : Ctx} {arity : Nat} (hctx : ∀ p ∈ ctx, ∀ i, p.2 = .var i → i < arity)
    {t : E} {s : List Char} (h : Prints ctx t s) : t.varsLt arity = true := by
  have := @grammar_induction ctx (fun t _ => t.varsLt arity = true) (fun _ t _ => t.varsLt arity = true)
    (fun _ t _ => t.varsLt arity = true) (fun t _ => t.varsLt arity = true) (fun t _ => t.varsLt arity = true)
    (fun _ _ h1 h2 => by simp [E.varsLt, h1, h2]) (fun _ _ h1 h2 => by simp [E.varsLt, h1, h2]) (fun _ h => h)
    (fun _ _ h1 h2 => by simp [E.varsLt, h1, h2]) (fun _ _ h1 h2 => by simp [E.varsLt, h1, h2]) (fun _ h => h)
    (fun _ h => by simpa [E.varsLt] using h) (fun _ h => h)
    (fun _ _ h1 h2 => by simp [E.varsLt, h1, h2]) (fun _ _ h1 => by simpa [E.varsLt] using h1) (fun _ h => h)
    (fun _ h => h) (fun h => by cases h <;> rfl) (fun _ _ _ h => by simpa [E.varsLt] using h)
    (fun _ _ => rfl)
    (fun {n i} _ hg => by
      obtain ⟨n', hm⟩ := Ctx.get_mem hg
      simpa [E.varsLt] using hctx _ hm i rfl)
  exact this.1 h


end Cav.ParseSound
