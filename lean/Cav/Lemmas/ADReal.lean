/-
  Helper lemmas for `Cav/Thm/C05.lean` (forward-mode AD over `ℝ`).

  * derivatives missing from Mathlib v4.33.0: `Real.tanh`, `Real.artanh`
  * `i32sub n 1 = n - 1` away from `i32::MIN`
  * evaluability of `E.evalF` / `E.evalAD` depends only on the number of variables
  * `ADCorrectAt`: the invariant of `C05.ad_correct`, and its induction steps, stated against
    abstract per-node specifications (the specifications themselves are the property theorems
    `C05.AD.*_spec`)
  * algebraic facts about the generated primitives used for value-independence / linearity
-/
import Cav.Inst.Real
import Cav.Gen.AD
import Cav.Model.Expr
import Mathlib.Analysis.SpecialFunctions.Trigonometric.Deriv
import Mathlib.Analysis.SpecialFunctions.Trigonometric.ArctanDeriv
import Mathlib.Analysis.SpecialFunctions.Trigonometric.InverseDeriv
import Mathlib.Analysis.SpecialFunctions.Trigonometric.DerivHyp
import Mathlib.Analysis.SpecialFunctions.ExpDeriv
import Mathlib.Analysis.SpecialFunctions.Log.Deriv
import Mathlib.Analysis.SpecialFunctions.Sqrt
import Mathlib.Analysis.SpecialFunctions.Pow.Deriv
import Mathlib.Analysis.Calculus.Deriv.Abs
import Mathlib.Analysis.Calculus.Deriv.ZPow

namespace Cav.ADReal
open Gen

theorem hasDerivAt_tanh (x : ℝ) : HasDerivAt Real.tanh (1 / Real.cosh x ^ 2) x := by
  have hc : Real.cosh x ≠ 0 := (Real.cosh_pos x).ne'
  have h : HasDerivAt (fun y => Real.sinh y / Real.cosh y) _ x :=
    (Real.hasDerivAt_sinh x).div (Real.hasDerivAt_cosh x) hc
  have he : Real.tanh = fun y => Real.sinh y / Real.cosh y := by
    funext y; exact Real.tanh_eq_sinh_div_cosh y
  rw [he]
  refine h.congr_deriv ?_
  have := Real.cosh_sq x
  field_simp
  linarith

theorem hasDerivAt_artanh {x : ℝ} (h1 : -1 < x) (h2 : x < 1) :
    HasDerivAt Real.artanh (1 / (1 - x * x)) x := by
  have hp : 0 < 1 + x := by linarith
  have hm : 0 < 1 - x := by linarith
  have hq : (1 + x) / (1 - x) ≠ 0 := (div_pos hp hm).ne'
  have hnum : HasDerivAt (fun y : ℝ => 1 + y) 1 x := by
    simpa using (hasDerivAt_id x).const_add 1
  have hden : HasDerivAt (fun y : ℝ => 1 - y) (-1) x := by
    simpa using (hasDerivAt_id x).const_sub 1
  have hdiv := hnum.div hden hm.ne'
  have hlog := (hdiv.log hq).const_mul (1 / 2 : ℝ)
  have hev : Real.artanh =ᶠ[nhds x] fun y => 1 / 2 * Real.log ((1 + y) / (1 - y)) := by
    have hmem : Set.Ioo (-1 : ℝ) 1 ∈ nhds x := Ioo_mem_nhds h1 h2
    filter_upwards [hmem] with y hy
    exact Real.artanh_eq_half_log ⟨hy.1.le, hy.2.le⟩
  refine (hlog.congr_of_eventuallyEq hev).congr_deriv ?_
  have : 1 - x * x = (1 - x) * (1 + x) := by ring
  rw [this]
  simp only [Pi.div_apply]
  field_simp
  ring

theorem i32sub_one {n : Int} (h1 : -2147483648 < n) (h2 : n < 2147483648) :
    Gen.i32sub n 1 = n - 1 := by
  unfold Gen.i32sub Gen.i32wrap
  omega


/-! ### evaluability depends only on the number of variables -/

section generic
variable {α : Type} [Num α]

theorem evalF_isSome (env : EnvF α) (xs : List α) (e : E) :
    (e.evalF env xs).isSome = e.varsLt xs.length := by
  induction e with
  | var i => by_cases h : i < xs.length <;> simp [E.evalF, E.varsLt, h]
  | lit m k => rfl
  | litInf => rfl
  | litNan => rfl
  | cst n => rfl
  | un f x ih => simpa [E.evalF, E.varsLt] using ih
  | bin op l r ihl ihr =>
    simp only [E.evalF, E.varsLt, ← ihl, ← ihr]
    cases l.evalF env xs <;> cases r.evalF env xs <;> rfl
  | powi x n ih => simpa [E.evalF, E.varsLt] using ih

theorem evalAD_isSome (env : EnvAD α) (vs : List (AD α)) (e : E) :
    (e.evalAD env vs).isSome = e.varsLt vs.length := by
  induction e with
  | var i => by_cases h : i < vs.length <;> simp [E.evalAD, E.varsLt, h]
  | lit m k => rfl
  | litInf => rfl
  | litNan => rfl
  | cst n => rfl
  | un f x ih => simpa [E.evalAD, E.varsLt] using ih
  | bin op l r ihl ihr =>
    simp only [E.evalAD, E.varsLt, ← ihl, ← ihr]
    cases l.evalAD env vs <;> cases r.evalAD env vs <;> rfl
  | powi x n ih => simpa [E.evalAD, E.varsLt] using ih

theorem evalF_isSome_congr (env : EnvF α) {xs ys : List α} (h : xs.length = ys.length) (e : E) :
    (e.evalF env xs).isSome = (e.evalF env ys).isSome := by
  rw [evalF_isSome, evalF_isSome, h]

end generic

/-! ### the invariant of `ad_correct` and its induction steps -/

/-- the conclusion of `C05.ad_correct` for one tree -/
def ADCorrectAt (cst : String → ℝ) (ρ : List (ℝ → ℝ)) (ρ' : List ℝ) (t : ℝ) (e : E) : Prop :=
  ∃ r : Gen.AD ℝ,
    e.evalAD ⟨cst, fun _ x => x⟩ (List.zipWith (fun f d => ⟨f t, d⟩) ρ ρ') = some r ∧
    e.evalF ⟨cst, fun _ x => x⟩ (ρ.map (· t)) = some r.v ∧
    HasDerivAt (fun s => (e.evalF ⟨cst, fun _ x => x⟩ (ρ.map (· s))).getD 0) r.d t

variable {cst : String → ℝ} {ρ : List (ℝ → ℝ)} {ρ' : List ℝ} {t : ℝ}

theorem ADCorrectAt.var (hlen : ρ'.length = ρ.length) {i : Nat} (hi : i < ρ.length)
    (hρ : HasDerivAt (ρ[i]) (ρ'[i]'(by omega)) t) : ADCorrectAt cst ρ ρ' t (.var i) := by
  refine ⟨⟨ρ[i] t, ρ'[i]'(by omega)⟩, ?_, ?_, ?_⟩
  · have hi' : i < ρ'.length := by omega
    simp [E.evalAD, hi, hi']
  · simp [E.evalF, hi]
  · have : (fun s => ((E.var i).evalF ⟨cst, fun _ x => x⟩ (ρ.map (· s))).getD 0) = ρ[i] := by
      funext s; simp [E.evalF, hi]
    rw [this]; exact hρ

theorem ADCorrectAt.const {e : E} (c : ℝ)
    (hF : ∀ xs, e.evalF ⟨cst, fun _ x => x⟩ xs = some c)
    (hAD : ∀ vs, e.evalAD ⟨cst, fun _ x => x⟩ vs = some (AD.ofF c)) :
    ADCorrectAt cst ρ ρ' t e := by
  refine ⟨AD.ofF c, hAD _, hF _, ?_⟩
  simp only [hF, Option.getD_some]
  simpa [AD.ofF, Num.ofNat] using hasDerivAt_const t c

/-- one-argument node (`un f x` and `powi x n`) -/
theorem ADCorrectAt.map1 {x e : E} (gF : ℝ → ℝ) (gAD : AD ℝ → AD ℝ)
    (hF : ∀ xs, e.evalF ⟨cst, fun _ x => x⟩ xs = (x.evalF ⟨cst, fun _ x => x⟩ xs).map gF)
    (hAD : ∀ vs, e.evalAD ⟨cst, fun _ x => x⟩ vs = (x.evalAD ⟨cst, fun _ x => x⟩ vs).map gAD)
    (ih : ADCorrectAt cst ρ ρ' t x)
    (hspec : ∀ (u : ℝ → ℝ) (u' : ℝ), HasDerivAt u u' t →
      x.evalF ⟨cst, fun _ x => x⟩ (ρ.map (· t)) = some (u t) →
      (gAD ⟨u t, u'⟩).v = gF (u t) ∧ HasDerivAt (fun s => gF (u s)) (gAD ⟨u t, u'⟩).d t) :
    ADCorrectAt cst ρ ρ' t e := by
  obtain ⟨r, hAD0, hF0, hD0⟩ := ih
  have hut : (x.evalF ⟨cst, fun _ x => x⟩ (ρ.map (· t))).getD 0 = r.v := by rw [hF0]; rfl
  obtain ⟨hv, hd⟩ := hspec _ r.d hD0 (by rw [hut]; exact hF0)
  rw [hut] at hv hd
  refine ⟨gAD r, ?_, ?_, ?_⟩
  · rw [hAD, hAD0]; rfl
  · rw [hF, hF0, hv]; rfl
  · have hfun : (fun s => (e.evalF ⟨cst, fun _ x => x⟩ (ρ.map (· s))).getD 0) =
        fun s => gF ((x.evalF ⟨cst, fun _ x => x⟩ (ρ.map (· s))).getD 0) := by
      funext s
      have hs : (x.evalF ⟨cst, fun _ x => x⟩ (ρ.map (· s))).isSome = true := by
        rw [evalF_isSome_congr _ (ys := ρ.map (· t)) (by simp), hF0]; rfl
      obtain ⟨w, hw⟩ := Option.isSome_iff_exists.mp hs
      rw [hF, hw]; rfl
    rw [hfun]; exact hd

/-- two-argument node (`bin op l r`) -/
theorem ADCorrectAt.map2 {l r e : E} (gF : ℝ → ℝ → ℝ) (gAD : AD ℝ → AD ℝ → AD ℝ)
    (hF : ∀ xs a b, l.evalF ⟨cst, fun _ x => x⟩ xs = some a →
      r.evalF ⟨cst, fun _ x => x⟩ xs = some b → e.evalF ⟨cst, fun _ x => x⟩ xs = some (gF a b))
    (hAD : ∀ vs a b, l.evalAD ⟨cst, fun _ x => x⟩ vs = some a →
      r.evalAD ⟨cst, fun _ x => x⟩ vs = some b → e.evalAD ⟨cst, fun _ x => x⟩ vs = some (gAD a b))
    (ihl : ADCorrectAt cst ρ ρ' t l) (ihr : ADCorrectAt cst ρ ρ' t r)
    (hspec : ∀ (u v : ℝ → ℝ) (u' v' : ℝ), HasDerivAt u u' t → HasDerivAt v v' t →
      l.evalF ⟨cst, fun _ x => x⟩ (ρ.map (· t)) = some (u t) →
      r.evalF ⟨cst, fun _ x => x⟩ (ρ.map (· t)) = some (v t) →
      (gAD ⟨u t, u'⟩ ⟨v t, v'⟩).v = gF (u t) (v t) ∧
      HasDerivAt (fun s => gF (u s) (v s)) (gAD ⟨u t, u'⟩ ⟨v t, v'⟩).d t) :
    ADCorrectAt cst ρ ρ' t e := by
  obtain ⟨a, hADa, hFa, hDa⟩ := ihl
  obtain ⟨b, hADb, hFb, hDb⟩ := ihr
  have hut : (l.evalF ⟨cst, fun _ x => x⟩ (ρ.map (· t))).getD 0 = a.v := by rw [hFa]; rfl
  have hvt : (r.evalF ⟨cst, fun _ x => x⟩ (ρ.map (· t))).getD 0 = b.v := by rw [hFb]; rfl
  obtain ⟨hv, hd⟩ := hspec _ _ a.d b.d hDa hDb (by rw [hut]; exact hFa) (by rw [hvt]; exact hFb)
  rw [hut, hvt] at hv hd
  refine ⟨gAD a b, hAD _ _ _ hADa hADb, ?_, ?_⟩
  · rw [hF _ _ _ hFa hFb, hv]
  · have hfun : (fun s => (e.evalF ⟨cst, fun _ x => x⟩ (ρ.map (· s))).getD 0) =
        fun s => gF ((l.evalF ⟨cst, fun _ x => x⟩ (ρ.map (· s))).getD 0)
          ((r.evalF ⟨cst, fun _ x => x⟩ (ρ.map (· s))).getD 0) := by
      funext s
      have hsl : (l.evalF ⟨cst, fun _ x => x⟩ (ρ.map (· s))).isSome = true := by
        rw [evalF_isSome_congr _ (ys := ρ.map (· t)) (by simp), hFa]; rfl
      have hsr : (r.evalF ⟨cst, fun _ x => x⟩ (ρ.map (· s))).isSome = true := by
        rw [evalF_isSome_congr _ (ys := ρ.map (· t)) (by simp), hFb]; rfl
      obtain ⟨w, hw⟩ := Option.isSome_iff_exists.mp hsl
      obtain ⟨z, hz⟩ := Option.isSome_iff_exists.mp hsr
      rw [hF _ _ _ hw hz, hw, hz]; rfl
    rw [hfun]; exact hd


/-! ### value-independence and linearity in the tangent (pure algebra, no domain needed) -/

/-- `p₂`, `p₃` have the value of `p₁`, and the tangent of `p₃` is `a·p₁.d + b·p₂.d` -/
def LinRel (a b : ℝ) (p₁ p₂ p₃ : AD ℝ) : Prop :=
  p₂.v = p₁.v ∧ p₃.v = p₁.v ∧ p₃.d = a * p₁.d + b * p₂.d

def LinRelO (a b : ℝ) : Option (AD ℝ) → Option (AD ℝ) → Option (AD ℝ) → Prop
  | some p₁, some p₂, some p₃ => LinRel a b p₁ p₂ p₃
  | none, none, none => True
  | _, _, _ => False

theorem LinRel.un {a b : ℝ} {p₁ p₂ p₃ : AD ℝ} (h : LinRel a b p₁ p₂ p₃) (f : UFn) :
    LinRel a b (f.applyAD (fun _ x => x) p₁) (f.applyAD (fun _ x => x) p₂)
      (f.applyAD (fun _ x => x) p₃) := by
  obtain ⟨v₁, d₁⟩ := p₁; obtain ⟨v₂, d₂⟩ := p₂; obtain ⟨v₃, d₃⟩ := p₃
  obtain ⟨h2, h3, hd⟩ := h
  simp only at h2 h3 hd
  subst h2 h3 hd
  cases f <;>
    simp only [LinRel, UFn.applyAD, AD.abs, AD.sin, AD.cos, AD.tan, AD.asin, AD.acos, AD.atan,
      AD.ln, AD.exp, AD.sqrt, AD.sinh, AD.cosh, AD.tanh, AD.asinh, AD.acosh, AD.atanh, AD.neg,
      true_and] <;>
    first
      | ring1
      | (split_ifs <;> ring1)

theorem LinRel.bin {a b : ℝ} {p₁ p₂ p₃ q₁ q₂ q₃ : AD ℝ} (hp : LinRel a b p₁ p₂ p₃)
    (hq : LinRel a b q₁ q₂ q₃) (op : BOp) :
    LinRel a b (op.applyAD p₁ q₁) (op.applyAD p₂ q₂) (op.applyAD p₃ q₃) := by
  obtain ⟨v₁, d₁⟩ := p₁; obtain ⟨v₂, d₂⟩ := p₂; obtain ⟨v₃, d₃⟩ := p₃
  obtain ⟨w₁, e₁⟩ := q₁; obtain ⟨w₂, e₂⟩ := q₂; obtain ⟨w₃, e₃⟩ := q₃
  obtain ⟨h2, h3, hd⟩ := hp
  obtain ⟨k2, k3, kd⟩ := hq
  simp only at h2 h3 hd k2 k3 kd
  subst h2 h3 hd k2 k3 kd
  cases op <;>
    simp only [LinRel, BOp.applyAD, AD.add, AD.sub, AD.mul, AD.div, BA.powAD, AD.pow, AD.exp,
      AD.ln, true_and] <;>
    ring

theorem LinRel.powi {a b : ℝ} {p₁ p₂ p₃ : AD ℝ} (h : LinRel a b p₁ p₂ p₃) (n : Int) :
    LinRel a b (BA.powiAD p₁ n) (BA.powiAD p₂ n) (BA.powiAD p₃ n) := by
  obtain ⟨v₁, d₁⟩ := p₁; obtain ⟨v₂, d₂⟩ := p₂; obtain ⟨v₃, d₃⟩ := p₃
  obtain ⟨h2, h3, hd⟩ := h
  simp only at h2 h3 hd
  subst h2 h3 hd
  simp only [LinRel, BA.powiAD, AD.powi, true_and]
  ring

theorem LinRel.ofF (a b c : ℝ) : LinRel a b (AD.ofF c) (AD.ofF c) (AD.ofF c) := by
  simp [LinRel, AD.ofF, Num.ofNat]

/-- if the three variable lists are pointwise `LinRel`-related, so are the three results (and the
    three evaluations succeed or fail together) -/
theorem evalAD_linRel (cst : String → ℝ) (a b : ℝ) {vs₁ vs₂ vs₃ : List (AD ℝ)}
    (hvar : ∀ i : Nat, LinRelO a b vs₁[i]? vs₂[i]? vs₃[i]?) (e : E) :
    LinRelO a b (e.evalAD ⟨cst, fun _ x => x⟩ vs₁) (e.evalAD ⟨cst, fun _ x => x⟩ vs₂)
      (e.evalAD ⟨cst, fun _ x => x⟩ vs₃) := by
  induction e with
  | var i => exact hvar i
  | lit m k => exact LinRel.ofF a b _
  | litInf => exact LinRel.ofF a b _
  | litNan => exact LinRel.ofF a b _
  | cst n => exact LinRel.ofF a b _
  | un f x ih =>
    simp only [E.evalAD]
    revert ih
    cases x.evalAD ⟨cst, fun _ x => x⟩ vs₁ <;> cases x.evalAD ⟨cst, fun _ x => x⟩ vs₂ <;>
      cases x.evalAD ⟨cst, fun _ x => x⟩ vs₃ <;> intro ih <;>
      first | exact ih.elim | trivial | exact LinRel.un ih f
  | bin op l r ihl ihr =>
    simp only [E.evalAD]
    revert ihl ihr
    cases l.evalAD ⟨cst, fun _ x => x⟩ vs₁ <;> cases l.evalAD ⟨cst, fun _ x => x⟩ vs₂ <;>
      cases l.evalAD ⟨cst, fun _ x => x⟩ vs₃ <;>
      cases r.evalAD ⟨cst, fun _ x => x⟩ vs₁ <;> cases r.evalAD ⟨cst, fun _ x => x⟩ vs₂ <;>
      cases r.evalAD ⟨cst, fun _ x => x⟩ vs₃ <;> intro ihl ihr <;>
      first | exact ihl.elim | exact ihr.elim | trivial | exact LinRel.bin ihl ihr op
  | powi x n ih =>
    simp only [E.evalAD]
    revert ih
    cases x.evalAD ⟨cst, fun _ x => x⟩ vs₁ <;> cases x.evalAD ⟨cst, fun _ x => x⟩ vs₂ <;>
      cases x.evalAD ⟨cst, fun _ x => x⟩ vs₃ <;> intro ih <;>
      first | exact ih.elim | trivial | exact LinRel.powi ih n


theorem linRelO_zip (a b : ℝ) (xs d₁ d₂ d₃ : List ℝ) (h₁ : d₁.length = xs.length)
    (h₂ : d₂.length = xs.length) (h₃ : d₃.length = xs.length)
    (hd : ∀ i (h : i < xs.length), d₃[i] = a * d₁[i] + b * d₂[i]) (i : Nat) :
    LinRelO a b (List.zipWith AD.mk xs d₁)[i]? (List.zipWith AD.mk xs d₂)[i]?
      (List.zipWith AD.mk xs d₃)[i]? := by
  by_cases hi : i < xs.length
  · have hi₁ : i < d₁.length := by omega
    have hi₂ : i < d₂.length := by omega
    have hi₃ : i < d₃.length := by omega
    simp [LinRelO, LinRel, hi, hi₁, hi₂, hi₃, hd i hi]
  · have hi₁ : ¬ i < d₁.length := by omega
    have hi₂ : ¬ i < d₂.length := by omega
    have hi₃ : ¬ i < d₃.length := by omega
    simp [LinRelO, hi, hi₁, hi₂, hi₃]

theorem zipWith_eval (ρ : List (ℝ → ℝ)) (ρ' : List ℝ) (t : ℝ) :
    List.zipWith (fun f d => (⟨f t, d⟩ : AD ℝ)) ρ ρ' = List.zipWith AD.mk (ρ.map (· t)) ρ' := by
  rw [List.zipWith_map_left]

end Cav.ADReal
