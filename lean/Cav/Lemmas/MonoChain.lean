/-
  Chains as lists: the head view and the tail view of a linked back-chain are mirror images
  (`seg_iff_segR`), `chainAppend` extends a chain at either end, `backTriangulate` is
  `nodeTriangulate` with enough fuel, and every chain has a maximal fan (`fanF_split`,
  `fanB_split`).
-/
import Cav.Lemmas.MonoHeap

set_option linter.unusedSimpArgs false
set_option linter.unusedVariables false
set_option linter.unusedSectionVars false

namespace Cav.MonoHeap
open Cav Num Cav.Sweep Cav.SweepRun Cav.TriRun Cav.QuadRun Cav.CvxHeap

variable {α : Type} [Num α]

theorem nxtOf_snoc (m : List (Nat × Pt α)) (i : Nat) (p : Pt α) (a : Option Nat) :
    nxtOf (m ++ [(i, p)]) a = nxtOf m (some i) := by
  cases m with
  | nil => rfl
  | cons hd tl => obtain ⟨j, q⟩ := hd; rfl

theorem segR_snoc (N : Array (Node α)) : ∀ (m : List (Nat × Pt α)) (s : Option Nat) (i : Nat)
    (p : Pt α) (a : Option Nat),
    SegR N s (m ++ [(i, p)]) a ↔ SegR N s m (some i) ∧ N[i]? = some ⟨p, a, nxtOf m.reverse s⟩
  | [], s, i, p, a => by simp [SegR, nxtOf]
  | (j, q) :: m', s, i, p, a => by
    have ih := segR_snoc N m' (some j) i p a
    simp only [List.cons_append, SegR, nxtOf_snoc, ih, List.reverse_cons, and_assoc]

theorem seg_snoc (N : Array (Node α)) : ∀ (m : List (Nat × Pt α)) (s : Option Nat) (i : Nat)
    (p : Pt α) (a : Option Nat),
    Seg N s (m ++ [(i, p)]) a ↔ Seg N s m (some i) ∧ N[i]? = some ⟨p, nxtOf m.reverse s, a⟩
  | [], s, i, p, a => by simp [Seg, nxtOf]
  | (j, q) :: m', s, i, p, a => by
    have ih := seg_snoc N m' (some j) i p a
    simp only [List.cons_append, Seg, nxtOf_snoc, ih, List.reverse_cons, and_assoc]

/-- the head view of a chain is the tail view of the reversed list -/
theorem seg_iff_segR (N : Array (Node α)) : ∀ (l : List (Nat × Pt α)) (a e : Option Nat),
    Seg N a l e ↔ SegR N e l.reverse a
  | [], a, e => by simp [Seg, SegR]
  | (i, p) :: rest, a, e => by
    have ih := seg_iff_segR N rest (some i) e
    simp only [List.reverse_cons, segR_snoc, Seg, ih, List.reverse_reverse]
    exact And.comm

theorem segR_iff_seg (N : Array (Node α)) (l : List (Nat × Pt α)) (a e : Option Nat) :
    SegR N a l e ↔ Seg N e l.reverse a := by
  rw [seg_iff_segR, List.reverse_reverse]

/-- every index of a chain is a valid cell -/
theorem Seg.lt {N : Array (Node α)} : ∀ {l : List (Nat × Pt α)} {a e : Option Nat},
    Seg N a l e → ∀ x ∈ l, x.1 < N.size
  | [], _, _, _, x, hx => by cases hx
  | (i, p) :: rest, a, e, hs, x, hx => by
    obtain ⟨h1, h2⟩ := hs
    rcases List.mem_cons.mp hx with rfl | hx
    · exact lt_of_get h1
    · exact Seg.lt h2 x hx

theorem SegR.lt {N : Array (Node α)} {l : List (Nat × Pt α)} {a e : Option Nat}
    (h : SegR N a l e) : ∀ x ∈ l, x.1 < N.size := by
  intro x hx
  exact Seg.lt ((segR_iff_seg N l a e).mp h) x (by simpa using hx)

/-! ### `chainAppend` -/

/-- a new head in front of the chain -/
theorem seg_appH {N : Array (Node α)} {iB : Nat} {pB : Pt α} {rest : List (Nat × Pt α)} (p : Pt α)
    (hs : Seg N none ((iB, pB) :: rest) none)
    (hnd : (((iB, pB) :: rest).map Prod.fst).Nodup) :
    Seg (appH N iB ⟨pB, none, nxtOf rest none⟩ p) none ((N.size, p) :: (iB, pB) :: rest) none := by
  have hlt := Seg.lt hs
  obtain ⟨h1, h2⟩ := hs
  have hB := lt_of_get h1
  refine ⟨appH_new N iB _ p hB, appH_old N iB _ p hB, Seg.congr ?_ h2⟩
  intro k hk
  simp only [List.mem_map] at hk
  obtain ⟨x, hx, rfl⟩ := hk
  apply appH_other N iB _ p x.1 (hlt x (List.mem_cons_of_mem _ hx))
  simp only [List.map_cons, List.nodup_cons, List.mem_map, not_exists, not_and] at hnd
  exact fun e => hnd.1 x hx e

/-- a new tail behind the chain (tail view) -/
theorem segR_appT {N : Array (Node α)} {iT : Nat} {pT : Pt α} {rest : List (Nat × Pt α)} (p : Pt α)
    (hs : SegR N none ((iT, pT) :: rest) none)
    (hnd : (((iT, pT) :: rest).map Prod.fst).Nodup) :
    SegR (appT N iT ⟨pT, nxtOf rest none, none⟩ p) none ((N.size, p) :: (iT, pT) :: rest) none := by
  have hlt := SegR.lt hs
  obtain ⟨h1, h2⟩ := hs
  have hT := lt_of_get h1
  refine ⟨appT_new N iT _ p hT, appT_old N iT _ p hT, SegR.congr ?_ h2⟩
  intro k hk
  simp only [List.mem_map] at hk
  obtain ⟨x, hx, rfl⟩ := hk
  apply appT_other N iT _ p x.1 (hlt x (List.mem_cons_of_mem _ hx))
  simp only [List.map_cons, List.nodup_cons, List.mem_map, not_exists, not_and] at hnd
  exact fun e => hnd.1 x hx e

/-! ### `backTriangulate` -/

theorem run_backTri (c : Chain) (bw : Bool) (s : St α) :
    (backTriangulate c bw).run s =
      (nodeTriangulate (if bw then c.tail else c.head) bw (s.nodes.size + 2)).run s := by
  unfold backTriangulate nodeFuel
  simp only [↓run_bind, run_pure, run_get]

/-- prepend-and-fan: `backTriangulate` from the new head over the old chain -/
theorem fan_head {N : Array (Node α)} {iB : Nat} {pB : Pt α} {rest : List (Nat × Pt α)} (p : Pt α)
    (s1 : St α) (c : Chain)
    (hN : s1.nodes = appH N iB ⟨pB, none, nxtOf rest none⟩ p) (hc : c.head = N.size)
    (hs : Seg N none ((iB, pB) :: rest) none)
    (hnd : (((iB, pB) :: rest).map Prod.fst).Nodup)
    {mid : List (Nat × Pt α)} {g : Nat} {pg : Pt α} {rest' : List (Nat × Pt α)}
    (hsplit : (iB, pB) :: rest = mid ++ (g, pg) :: rest')
    (hfan : FanF p (mid.map Prod.snd ++ [pg])) (hstop : StopF p pg rest')
    (hlen : mid.length ≤ N.size + 3) :
    ∃ N', (backTriangulate c false).run s1 =
        .ok ((), { s1 with nodes := N', out := trisF p (mid.map Prod.snd ++ [pg]) ++ s1.out }) ∧
      Seg N' none ((N.size, p) :: (g, pg) :: rest') none ∧ N'.size = N.size + 1 := by
  have hseg := seg_appH p hs hnd
  have hlt := Seg.lt hs
  have hnd' : (((N.size, p) :: mid ++ (g, pg) :: rest').map Prod.fst).Nodup := by
    rw [List.cons_append, ← hsplit]
    simp only [List.map_cons, List.nodup_cons] at hnd ⊢
    refine ⟨?_, hnd⟩
    intro hmem
    rw [← List.map_cons (f := Prod.fst) (a := (iB, pB)), List.mem_map] at hmem
    obtain ⟨x, hx, hx'⟩ := hmem
    have := hlt x hx
    omega
  rw [hsplit] at hseg
  rw [← hN] at hseg
  obtain ⟨N', hrun, hseg', hsz, -⟩ := nt_fwd_fan mid s1 N.size p none g pg rest' (s1.nodes.size + 2)
    hseg hnd' hfan hstop (by rw [hN, size_appH]; omega)
  refine ⟨N', ?_, hseg', by rw [hsz, hN, size_appH]⟩
  rw [run_backTri]
  simp only [Bool.false_eq_true, if_false, hc]
  exact hrun

/-- append-and-fan: `backTriangulate` from the new tail over the old chain (tail view) -/
theorem fan_tail {N : Array (Node α)} {iT : Nat} {pT : Pt α} {rest : List (Nat × Pt α)} (p : Pt α)
    (s1 : St α) (c : Chain)
    (hN : s1.nodes = appT N iT ⟨pT, nxtOf rest none, none⟩ p) (hc : c.tail = N.size)
    (hs : SegR N none ((iT, pT) :: rest) none)
    (hnd : (((iT, pT) :: rest).map Prod.fst).Nodup)
    {mid : List (Nat × Pt α)} {g : Nat} {pg : Pt α} {rest' : List (Nat × Pt α)}
    (hsplit : (iT, pT) :: rest = mid ++ (g, pg) :: rest')
    (hfan : FanB p (mid.map Prod.snd ++ [pg])) (hstop : StopB p pg rest')
    (hlen : mid.length ≤ N.size + 3) :
    ∃ N', (backTriangulate c true).run s1 =
        .ok ((), { s1 with nodes := N', out := trisB p (mid.map Prod.snd ++ [pg]) ++ s1.out }) ∧
      SegR N' none ((N.size, p) :: (g, pg) :: rest') none ∧ N'.size = N.size + 1 := by
  have hseg := segR_appT p hs hnd
  have hlt := SegR.lt hs
  have hnd' : (((N.size, p) :: mid ++ (g, pg) :: rest').map Prod.fst).Nodup := by
    rw [List.cons_append, ← hsplit]
    simp only [List.map_cons, List.nodup_cons] at hnd ⊢
    refine ⟨?_, hnd⟩
    intro hmem
    rw [← List.map_cons (f := Prod.fst) (a := (iT, pT)), List.mem_map] at hmem
    obtain ⟨x, hx, hx'⟩ := hmem
    have := hlt x hx
    omega
  rw [hsplit] at hseg
  rw [← hN] at hseg
  obtain ⟨N', hrun, hseg', hsz, -⟩ := nt_bwd_fan mid s1 N.size p none g pg rest' (s1.nodes.size + 2)
    hseg hnd' hfan hstop (by rw [hN, size_appT]; omega)
  refine ⟨N', ?_, hseg', by rw [hsz, hN, size_appT]⟩
  rw [run_backTri]
  simp only [if_true, hc]
  exact hrun

/-! ### the maximal fan of a chain -/

instance (a b : PSign) : Decidable (a = b) := inferInstance

theorem fanF_split (pf : Pt α) : ∀ (q : List (Nat × Pt α)), q ≠ [] →
    ∃ mid g pg rest, q = mid ++ (g, pg) :: rest ∧ FanF pf (mid.map Prod.snd ++ [pg]) ∧
      StopF pf pg rest
  | [], h => absurd rfl h
  | [(g, pg)], _ => ⟨[], g, pg, [], rfl, trivial, trivial⟩
  | (x, px) :: (y, py) :: q', _ => by
    by_cases hc : clockwiseSign pf px py = .c
    · obtain ⟨mid, g, pg, rest, he, hf, hs⟩ := fanF_split pf ((y, py) :: q') (by simp)
      refine ⟨(x, px) :: mid, g, pg, rest, by rw [he]; rfl, ?_, hs⟩
      cases mid with
      | nil =>
        simp only [List.nil_append, List.cons.injEq] at he
        obtain ⟨⟨-, rfl⟩, -⟩ := he
        exact ⟨hc, trivial⟩
      | cons hd tl =>
        simp only [List.cons_append, List.cons.injEq] at he
        obtain ⟨rfl, -⟩ := he
        exact ⟨hc, hf⟩
    · exact ⟨[], x, px, (y, py) :: q', rfl, trivial, hc⟩

theorem fanB_split (pf : Pt α) : ∀ (q : List (Nat × Pt α)), q ≠ [] →
    ∃ mid g pg rest, q = mid ++ (g, pg) :: rest ∧ FanB pf (mid.map Prod.snd ++ [pg]) ∧
      StopB pf pg rest
  | [], h => absurd rfl h
  | [(g, pg)], _ => ⟨[], g, pg, [], rfl, trivial, trivial⟩
  | (x, px) :: (y, py) :: q', _ => by
    by_cases hc : clockwiseSign py px pf = .c
    · obtain ⟨mid, g, pg, rest, he, hf, hs⟩ := fanB_split pf ((y, py) :: q') (by simp)
      refine ⟨(x, px) :: mid, g, pg, rest, by rw [he]; rfl, ?_, hs⟩
      cases mid with
      | nil =>
        simp only [List.nil_append, List.cons.injEq] at he
        obtain ⟨⟨-, rfl⟩, -⟩ := he
        exact ⟨hc, trivial⟩
      | cons hd tl =>
        simp only [List.cons_append, List.cons.injEq] at he
        obtain ⟨rfl, -⟩ := he
        exact ⟨hc, hf⟩
    · exact ⟨[], x, px, (y, py) :: q', rfl, trivial, hc⟩

end Cav.MonoHeap
