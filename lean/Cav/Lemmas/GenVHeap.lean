/-
  Equal abscissae, part 11 (vertical edges, heap level): `verticalIsCrossed` on a state in which no
  active edge passes strictly between the end points of the vertical edge (`VicFree`, `run_vic`),
  and the Bend event with this hypothesis in place of "the new edge is not vertical".
-/
import Cav.Lemmas.GenBend
import Cav.Lemmas.GenStart4

set_option linter.unusedSimpArgs false
set_option linter.unusedVariables false
set_option linter.unusedSectionVars false

namespace Cav.GenVHeap
open Cav Num Cav.Sweep Cav.SweepRun Cav.TriRun Cav.QuadRun Cav.CvxHeap Cav.CvxEvents Cav.SweepOut
open Cav.GenNodes Cav.GenQuery Cav.GenBend Cav.SweepHeap Cav.GenStart

variable {α : Type} [Num α]

/-- no active edge (except `skip`) passes strictly between `p` and `rp` on the sweep line, or
    the edge `p → rp` is not vertical -/
def VicFree (s : St α) (skip : Option Nat) (p rp : Pt α) : Prop :=
  ofEq rp.x p.x = false ∨ ∀ k ∈ s.active, skip ≠ some k → ∃ l r, EG s k l r ∧
    (ofLt p.y (yExtrap l r p.x true) && ofLt (yExtrap l r p.x true) rp.y) = false

theorem VicFree.congr {s s' : St α} {skip : Option Nat} {p rp : Pt α} (h : VicFree s skip p rp)
    (h0 : s'.active = s.active) (h1 : s'.edges = s.edges) (h2 : s'.chains = s.chains)
    (h3 : s'.nodes = s.nodes) : VicFree s' skip p rp := by
  rcases h with h | h
  · exact Or.inl h
  · right
    intro k hk hs
    rw [h0] at hk
    obtain ⟨l, r, hg, ht⟩ := h k hk hs
    exact ⟨l, r, EG.congr h1 h2 h3 hg, ht⟩

theorem run_vic_go (s : St α) (skip : Option Nat) (p rp : Pt α) : ∀ (l : List Nat),
    (∀ k ∈ l, skip ≠ some k → ∃ l' r, EG s k l' r ∧
      (ofLt p.y (yExtrap l' r p.x true) && ofLt (yExtrap l' r p.x true) rp.y) = false) →
    (verticalIsCrossed.go skip p rp l).run s = .ok (false, s)
  | [], _ => rfl
  | a :: rest, h => by
    have ih := run_vic_go s skip p rp rest (fun k hk => h k (List.mem_cons_of_mem _ hk))
    unfold verticalIsCrossed.go
    by_cases hs : skip = some a
    · have : (skip == some a) = true := by rw [hs]; simp
      simp only [this, if_true]
      exact ih
    · have : (skip == some a) = false := by simpa using hs
      simp only [this, Bool.false_eq_true, if_false]
      obtain ⟨l', r, ⟨e, he, hl, hr⟩, ht⟩ := h a List.mem_cons_self hs
      simp only [↓run_bind, run_getEdge, he, run_yAt e _ _ s (lpt_isSome hl), lptD_eq hl, hr, ht,
        Bool.false_eq_true, if_false]
      exact ih

theorem run_vic (s : St α) (skip : Option Nat) (p rp : Pt α) (h : VicFree s skip p rp) :
    (verticalIsCrossed skip p rp).run s = .ok (false, s) := by
  unfold verticalIsCrossed
  rcases h with h | h
  · simp only [h, Bool.not_false, if_true, run_pure]
  · by_cases hx : ofEq rp.x p.x = true
    · simp only [hx, Bool.not_true, Bool.false_eq_true, if_false, ↓run_bind, run_get]
      exact run_vic_go s skip p rp s.active h
    · have : ofEq rp.x p.x = false := by simpa using hx
      simp only [this, Bool.not_false, if_true, run_pure]

section
variable (s : St α) (vi e r pr nx a1 a2 a3 a4 a5 a6 ci : Nat) (es' : List Nat)
  (rest : List (Nat × List Nat)) (p q1 q2 rp ro : Pt α) (bof : Bool) (bP tP : Option Nat)
  (c : Chain) (h : Node α)

theorem bend_runV
    (hev : s.events = (vi, e :: es') :: rest)
    (hv : s.verts[vi]? = some ⟨p, pr, nx⟩) (h1 : s.verts[pr]? = some ⟨q1, a1, a2⟩)
    (h2 : s.verts[nx]? = some ⟨q2, a3, a4⟩)
    (hft : fromTriplet p q1 q2 = some .bend)
    (hr : (if q1.ge q2 = true then pr else nx) = r) (hrp : s.verts[r]? = some ⟨rp, a5, a6⟩)
    (hvc : VicFree s (some e) p rp)
    (hevs : ∀ a ∈ rest, a.1 < s.verts.size)
    (he : s.edges[e]? = some ⟨ro, ci, bof, bP, tP⟩)
    (hc : s.chains[ci]? = some c)
    (hN : NodesOk s.nodes)
    (hnode : s.nodes[if bof then c.head else c.tail]? = some h)
    (hB : PartnerOk s e ci bof bP (fun lb rb => wobP p rp lb rb))
    (hT : PartnerOk s e ci bof tP (fun lt rt => wotP p rp lt rt)) :
    ∃ N2 out2, (handleNext : SM α Unit).run s = .ok ((),
        { s with x := p.x, nodes := N2,
                 chains := s.chains.setIfInBounds ci (bendChain c bof s.nodes.size),
                 edges := s.edges.setIfInBounds e ⟨rp, ci, bof, bP, tP⟩,
                 events := evAdd s.verts rp r e rest, out := out2 }) ∧
      NodesOk N2 ∧ N2.size = s.nodes.size + 1 ∧
      (∀ i, i < s.nodes.size → ptAt N2 i = ptAt s.nodes i) ∧ ptAt N2 s.nodes.size = some p := by
  rw [handleNext_run_cons hev]
  unfold nextBody
  cases bof
  · -- the edge is the top of its in-interval: the chain grows at the tail
    simp only [Bool.false_eq_true, if_false] at hnode
    obtain ⟨hN1, hsz1, hpt1, hnew1⟩ := appT_props hN hnode p
    obtain ⟨N2, out2, hbt, hN2, hsz2, hpt2⟩ := bt_ok ⟨s.nodes.size, c.head, s.nodes.size⟩ true
      { s with events := rest, x := p.x, nodes := appT s.nodes c.tail h p,
               chains := s.chains.setIfInBounds ci ⟨s.nodes.size, c.head, s.nodes.size⟩ }
      hN1 (by simp only [if_true]; rw [hsz1]; exact Nat.lt_succ_self _)
    have hptA : ∀ i, i < s.nodes.size → ptAt N2 i = ptAt s.nodes i := fun i hi => by
      rw [hpt2 i]; exact hpt1 i hi
    have hnewA : ptAt N2 s.nodes.size = some p := by rw [hpt2]; exact hnew1
    refine ⟨N2, out2, ?_, hN2, by rw [hsz2]; exact hsz1, hptA, hnewA⟩
    show Runs s _ _
    sm_steps [hv, h1, h2, hft]
    unfold handleBend
    sm_steps [hv, h1, h2, hft, hr, hrp]
    sm_use (run_vic _ (some e) p rp ?h1)
    case h1 => exact hvc.congr rfl rfl rfl rfl
    sm_whnf
    sm_steps [hv, h1, h2, hft, hr, hrp, he, hc]
    sm_by (run_chainAppend_tail _ _ _ _ hnode)
    sm_bind
    sm_by hbt
    sm_bind [he]
    sm_bind
    sm_by (wob_false s _ e ci false bP tP p rp c ⟨s.nodes.size, c.head, s.nodes.size⟩ true rfl
      (lt_of_get' he) hc rfl rfl hptA hnewA hB)
    sm_cond
    sm_by (wot_false s _ e ci false bP tP p rp c ⟨s.nodes.size, c.head, s.nodes.size⟩ true rfl
      (lt_of_get' he) hc rfl rfl hptA hnewA hT)
    sm_cond
    rw [hr]
    refine Runs.final ?_
    exact Eq.trans (run_eventsAdd r e _ ⟨rp, a5, a6⟩ (by exact hrp) (by exact hevs)) rfl
  · -- the edge is the bottom of its in-interval: the chain grows at the head
    simp only [if_true] at hnode
    obtain ⟨hN1, hsz1, hpt1, hnew1⟩ := appH_props hN hnode p
    obtain ⟨N2, out2, hbt, hN2, hsz2, hpt2⟩ := bt_ok ⟨s.nodes.size, s.nodes.size, c.tail⟩ false
      { s with events := rest, x := p.x, nodes := appH s.nodes c.head h p,
               chains := s.chains.setIfInBounds ci ⟨s.nodes.size, s.nodes.size, c.tail⟩ }
      hN1 (by simp only [Bool.false_eq_true, if_false]; rw [hsz1]; exact Nat.lt_succ_self _)
    have hptA : ∀ i, i < s.nodes.size → ptAt N2 i = ptAt s.nodes i := fun i hi => by
      rw [hpt2 i]; exact hpt1 i hi
    have hnewA : ptAt N2 s.nodes.size = some p := by rw [hpt2]; exact hnew1
    refine ⟨N2, out2, ?_, hN2, by rw [hsz2]; exact hsz1, hptA, hnewA⟩
    show Runs s _ _
    sm_steps [hv, h1, h2, hft]
    unfold handleBend
    sm_steps [hv, h1, h2, hft, hr, hrp]
    sm_use (run_vic _ (some e) p rp ?h1)
    case h1 => exact hvc.congr rfl rfl rfl rfl
    sm_whnf
    sm_steps [hv, h1, h2, hft, hr, hrp, he, hc]
    sm_by (run_chainAppend_head _ _ _ _ hnode)
    sm_bind
    sm_by hbt
    sm_bind [he]
    sm_bind
    sm_by (wob_false s _ e ci true bP tP p rp c ⟨s.nodes.size, s.nodes.size, c.tail⟩ true rfl
      (lt_of_get' he) hc rfl rfl hptA hnewA hB)
    sm_cond
    sm_by (wot_false s _ e ci true bP tP p rp c ⟨s.nodes.size, s.nodes.size, c.tail⟩ true rfl
      (lt_of_get' he) hc rfl rfl hptA hnewA hT)
    sm_cond
    rw [hr]
    refine Runs.final ?_
    exact Eq.trans (run_eventsAdd r e _ ⟨rp, a5, a6⟩ (by exact hrp) (by exact hevs)) rfl

end

end Cav.GenVHeap
