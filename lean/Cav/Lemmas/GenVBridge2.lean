/-
  Equal abscissae, part 3: the bridging lemmas on the ring.  `R` is the original ring, the order
  facts are those of `shearRing ε R` at the sheared sweep abscissa `xs`; the model compares the
  points of `R` at the original sweep abscissa `X` (`Cpl`: the vertices up to `xs` lie at or to
  the left of `X`, the others at or to the right).
-/
import Cav.Lemmas.GenVBridge

set_option linter.unusedSimpArgs false
set_option linter.unusedVariables false

namespace Cav.GenVBridge
open Cav Num Cav.Geo Cav.Sweep Cav.TriRun Cav.QuadRun Cav.TriGeom Cav.QuadGeom Cav.CvxFlows
open Cav.GenQuery Cav.GenGeom Cav.GenInv Cav.GenQueue Cav.GenOrder Cav.GenStepBend Cav.GenStepEnd
open Cav.GenValid Cav.GenVShear

variable {R : RingQ} {ε : Rat} {Vε : Array (Vtx XQ)}

/-- no vertical ring edge -/
def NoVert (R : RingQ) : Prop := ∀ i, i < R.n → R.x i ≠ R.x (R.nxt i)

instance (R : RingQ) : Decidable (NoVert R) := by unfold NoVert; exact inferInstance

/-- the sheared sweep abscissa `xs` and the original sweep abscissa `X` -/
def Cpl (R : RingQ) (ε : Rat) (xs X : Rat) : Prop :=
  ∀ v, v < R.n → ((shearRing ε R).x v ≤ xs → R.x v ≤ X) ∧ (xs < (shearRing ε R).x v → X ≤ R.x v)

theorem lexLt_le {a b : Q} (h : lexLt a b) : a.1 ≤ b.1 := by
  rcases h with h | ⟨h, -⟩ <;> linarith

/-- at an event vertex -/
theorem cpl_at (h : ShOK R ε Vε) {w : Nat} (hw : w < R.n) : Cpl R ε ((shearRing ε R).x w) (R.x w) := by
  intro v hv
  constructor
  · intro hle
    by_contra hcon
    have : lexLt (R.pt w) (R.pt v) := Or.inl (not_le.mp hcon)
    exact absurd ((h.key w v hw hv).mpr this) (not_lt.mpr hle)
  · intro hlt
    exact lexLt_le ((h.key w v hw hv).mp hlt)

theorem segApartV_swapL {a b c d : Q} (h : SegApartV a b c d) : SegApartV b a c d := by
  rcases h with h | h | ⟨h1, h2, h3, h4⟩ | ⟨h1, h2, h3, h4⟩
  · left
    have e1 : orient b a c = - orient a b c := by unfold orient; ring
    have e2 : orient b a d = - orient a b d := by unfold orient; ring
    rw [e1, e2]; linarith [h]
  · right; left; linarith [h, mul_comm (orient c d a) (orient c d b)]
  · exact Or.inr (Or.inr (Or.inl ⟨h3, h4, h1, h2⟩))
  · exact Or.inr (Or.inr (Or.inr ⟨h2, h1, h4, h3⟩))

theorem segApartV_symm {a b c d : Q} (h : SegApartV a b c d) : SegApartV c d a b := by
  rcases h with h | h | ⟨h1, h2, h3, h4⟩ | ⟨h1, h2, h3, h4⟩
  · exact Or.inr (Or.inl h)
  · exact Or.inl h
  · exact Or.inr (Or.inr (Or.inr ⟨h1, h2, h3, h4⟩))
  · exact Or.inr (Or.inr (Or.inl ⟨h1, h2, h3, h4⟩))

theorem segApartV_swapR {a b c d : Q} (h : SegApartV a b c d) : SegApartV a b d c :=
  segApartV_symm (segApartV_swapL (segApartV_symm h))

/-- two ring edges without a common vertex are apart -/
theorem apartV_of (h : ShOK R ε Vε) {u v u' v' : Nat} (hu : u < R.n) (hv : v < R.n)
    (hu' : u' < R.n) (hv' : v' < R.n) (ha : Adj R u v) (ha' : Adj R u' v')
    (n1 : u ≠ u') (n2 : u ≠ v') (n3 : v ≠ u') (n4 : v ≠ v') :
    SegApartV (R.pt u) (R.pt v) (R.pt u') (R.pt v') := by
  have hR := h.ring
  have hA := h.apart
  rcases edge_form hR hu hv ha with e | e <;> rcases edge_form hR hu' hv' ha' with e' | e'
  · have e1 : R.nxt u = v := e
    have e2 : R.nxt u' = v' := e'
    have := hA u hu u' hu' n1 (by rw [e1]; exact n3) (by rw [e2]; exact Ne.symm n2)
    rw [e1, e2] at this; exact this
  · have e1 : R.nxt u = v := e
    have e2 : R.nxt v' = u' := e'
    have := hA u hu v' hv' n2 (by rw [e1]; exact n4) (by rw [e2]; exact Ne.symm n1)
    rw [e1, e2] at this; exact segApartV_swapR this
  · have e1 : R.nxt v = u := e
    have e2 : R.nxt u' = v' := e'
    have := hA v hv u' hu' n3 (by rw [e1]; exact n1) (by rw [e2]; exact Ne.symm n4)
    rw [e1, e2] at this; exact segApartV_swapL this
  · have e1 : R.nxt v = u := e
    have e2 : R.nxt v' = u' := e'
    have := hA v hv v' hv' n4 (by rw [e1]; exact n2) (by rw [e2]; exact Ne.symm n3)
    rw [e1, e2] at this; exact segApartV_swapR (segApartV_swapL this)

/-- an active edge of the sheared ring, in the original ring -/
theorem edge_orig (h : ShOK R ε Vε) (hNV : NoVert R) {a : AE} {xs : Rat}
    (ha : Span (shearRing ε R) xs a) :
    lexLt (R.pt a.lv) (R.pt a.rv) ∧ R.x a.lv < R.x a.rv := by
  have hl : lexLt (R.pt a.lv) (R.pt a.rv) := (h.key _ _ ha.lv_lt ha.rv_lt).mp ha.lt
  refine ⟨hl, lt_of_le_of_ne (lexLt_le hl) ?_⟩
  rcases edge_form h.ring ha.lv_lt ha.rv_lt ha.adj with e | e
  · have e' : R.nxt a.lv = a.rv := e
    have := hNV a.lv ha.lv_lt
    rw [e'] at this; exact this
  · have e' : R.nxt a.rv = a.lv := e
    have := hNV a.rv ha.rv_lt
    rw [e'] at this; exact Ne.symm this

theorem span_orig {xs X : Rat} (hc : Cpl R ε xs X) {a : AE} (ha : Span (shearRing ε R) xs a) :
    R.x a.lv ≤ X ∧ X ≤ R.x a.rv :=
  ⟨(hc a.lv ha.lv_lt).1 ha.le, (hc a.rv ha.rv_lt).2 ha.gt⟩

/-- **the comparator of the model at the original sweep abscissa, from the order of the sheared
    ring** -/
theorem cmpV_of_below (h : ShOK R ε Vε) (hNV : NoVert R) {xs X : Rat} (hc : Cpl R ε xs X) {a b : AE}
    (ha : Span (shearRing ε R) xs a) (hb : Span (shearRing ε R) xs b)
    (hab : Below (shearRing ε R) xs a b) :
    cmpEdgeP (Fq (R.pt a.lv)) (Fq (R.pt a.rv)) (Fq (R.pt b.lv)) (Fq (R.pt b.rv)) (.fin X) = .lt ∧
    cmpEdgeP (Fq (R.pt b.lv)) (Fq (R.pt b.rv)) (Fq (R.pt a.lv)) (Fq (R.pt a.rv)) (.fin X) = .gt := by
  obtain ⟨-, na⟩ := edge_orig h hNV ha
  obtain ⟨-, nb⟩ := edge_orig h hNV hb
  obtain ⟨xa1, xa2⟩ := span_orig hc ha
  obtain ⟨xb1, xb2⟩ := span_orig hc hb
  have strict : lineY (R.pt a.lv) (R.pt a.rv) X < lineY (R.pt b.lv) (R.pt b.rv) X →
      cmpEdgeP (Fq (R.pt a.lv)) (Fq (R.pt a.rv)) (Fq (R.pt b.lv)) (Fq (R.pt b.rv)) (.fin X) = .lt ∧
      cmpEdgeP (Fq (R.pt b.lv)) (Fq (R.pt b.rv)) (Fq (R.pt a.lv)) (Fq (R.pt a.rv)) (.fin X) = .gt :=
    fun hl => ⟨cmpE_lt _ _ _ _ X na nb xa1 xa2 xb1 xb2 hl, cmpE_gt _ _ _ _ X nb na xb1 xb2 xa1 xa2 hl⟩
  by_cases c1 : a.lv = b.lv
  · -- a common left end point
    have o : 0 < orient ((shearRing ε R).pt a.lv) ((shearRing ε R).pt a.rv) ((shearRing ε R).pt b.rv) := by
      rcases hab with hlt | ⟨-, -, h3⟩
      · have hne : (shearRing ε R).x a.lv ≠ xs := by
          intro e
          have e1 : lineY ((shearRing ε R).pt a.lv) ((shearRing ε R).pt a.rv) xs = ((shearRing ε R).pt a.lv).2 := by
            rw [← e]; exact lineY_left _ _
          have e2 : lineY ((shearRing ε R).pt b.lv) ((shearRing ε R).pt b.rv) xs = ((shearRing ε R).pt a.lv).2 := by
            rw [← e, ← c1]; exact lineY_left _ _
          have hlt' : lineY ((shearRing ε R).pt a.lv) ((shearRing ε R).pt a.rv) xs <
              lineY ((shearRing ε R).pt b.lv) ((shearRing ε R).pt b.rv) xs := hlt
          rw [e1, e2] at hlt'; exact lt_irrefl _ hlt'
        have hbl : ((shearRing ε R).pt a.lv).1 < ((shearRing ε R).pt b.rv).1 := by
          have := hb.lt; rw [← c1] at this; exact this
        refine fanL_orient _ _ _ ha.lt hbl xs (lt_of_le_of_ne ha.le hne) ?_
        have : lineY ((shearRing ε R).pt a.lv) ((shearRing ε R).pt a.rv) xs <
            lineY ((shearRing ε R).pt b.lv) ((shearRing ε R).pt b.rv) xs := hlt
        rw [← c1] at this; exact this
      · exact h3
    rw [orient_ring] at o
    have nb' : (R.pt a.lv).1 < (R.pt b.rv).1 := by rw [c1]; exact nb
    rw [← c1]
    rcases lt_or_eq_of_le xa1 with hl | he
    · have := fan_lt _ _ _ na nb' X hl o
      rw [← c1] at strict
      exact strict this
    · have hX : X = (R.pt a.lv).1 := he.symm
      rw [hX]
      refine ⟨cmpE_fanL0_lt _ _ _ na nb' o, cmpE_fanL0_gt _ _ _ nb' na ?_⟩
      have := orient_swap (R.pt a.lv) (R.pt a.rv) (R.pt b.rv)
      linarith
  have hltS : hY (shearRing ε R) a xs < hY (shearRing ε R) b xs := by
    rcases hab with hlt | ⟨e, -, -⟩
    · exact hlt
    · exact absurd e c1
  by_cases c2 : a.rv = b.rv
  · -- a common right end point
    have hbr : ((shearRing ε R).pt b.lv).1 < ((shearRing ε R).pt a.rv).1 := by rw [c2]; exact hb.lt
    have o : orient ((shearRing ε R).pt a.lv) ((shearRing ε R).pt b.lv) ((shearRing ε R).pt a.rv) < 0 := by
      refine fanR_orient _ _ _ ha.lt hbr xs ha.gt ?_
      have : lineY ((shearRing ε R).pt a.lv) ((shearRing ε R).pt a.rv) xs <
          lineY ((shearRing ε R).pt b.lv) ((shearRing ε R).pt b.rv) xs := hltS
      rw [← c2] at this; exact this
    rw [orient_ring] at o
    have nb' : (R.pt b.lv).1 < (R.pt a.rv).1 := by rw [c2]; exact nb
    rw [← c2]
    rcases lt_or_eq_of_le xa2 with hl | he
    · have := fanR_lt_of_orient _ _ _ na nb' X hl o
      rw [← c2] at strict
      exact strict this
    · have hX : X = (R.pt a.rv).1 := he
      rw [hX]
      refine ⟨cmpE_fanR0_lt _ _ _ na nb' o, cmpE_fanR0_gt _ _ _ nb' na ?_⟩
      have : orient (R.pt b.lv) (R.pt a.lv) (R.pt a.rv) = - orient (R.pt a.lv) (R.pt b.lv) (R.pt a.rv) := by
        unfold orient; ring
      rw [this]; linarith
  -- no common vertex
  have c3 : a.rv ≠ b.lv := by
    intro e
    have := hb.le; rw [← e] at this
    exact absurd ha.gt (not_lt.mpr this)
  have c4 : a.lv ≠ b.rv := by
    intro e
    have := ha.le; rw [e] at this
    exact absurd hb.gt (not_lt.mpr this)
  apply strict
  rcases apartV_of h ha.lv_lt ha.rv_lt hb.lv_lt hb.rv_lt ha.adj hb.adj c1 c4 c3 c2 with
    hs | hs | ⟨-, -, l3, -⟩ | ⟨-, -, l3, -⟩
  · have hs' : 0 < orient ((shearRing ε R).pt a.lv) ((shearRing ε R).pt a.rv) ((shearRing ε R).pt b.lv) *
        orient ((shearRing ε R).pt a.lv) ((shearRing ε R).pt a.rv) ((shearRing ε R).pt b.rv) := by
      rw [orient_ring, orient_ring]; exact hs
    obtain ⟨o1, o2⟩ := sides_above _ _ _ _ ha.lt hb.lt hs' xs hb.le (le_of_lt hb.gt) hltS
    rw [orient_ring] at o1 o2
    exact two_above _ _ _ _ na nb o1 o2 X xb1 xb2
  · have hs' : 0 < orient ((shearRing ε R).pt b.lv) ((shearRing ε R).pt b.rv) ((shearRing ε R).pt a.lv) *
        orient ((shearRing ε R).pt b.lv) ((shearRing ε R).pt b.rv) ((shearRing ε R).pt a.rv) := by
      rw [orient_ring, orient_ring]; exact hs
    obtain ⟨o1, o2⟩ := sides_below _ _ _ _ ha.lt hb.lt hs' xs ha.le (le_of_lt ha.gt) hltS
    rw [orient_ring] at o1 o2
    exact two_below _ _ _ _ na nb o1 o2 X xa1 xa2
  · exfalso
    have := (h.key _ _ ha.rv_lt hb.lv_lt).mpr l3
    exact absurd (lt_of_le_of_lt hb.le ha.gt) (not_lt.mpr (le_of_lt this))
  · exfalso
    have := (h.key _ _ hb.rv_lt ha.lv_lt).mpr l3
    exact absurd (lt_of_le_of_lt ha.le hb.gt) (not_lt.mpr (le_of_lt this))


/-! ### the look-ahead tests -/

/-- the right end point of the edge that ends first, against the other edge (any ring with
    distinct abscissae and `NoCross`) -/
theorem look_facts {R' : RingQ} {V' : Array (Vtx XQ)} (hR : RingOK R' V') (hN : NoCross R')
    {lo up : AE} {x0 : Rat} (hlo : Span R' x0 lo) (hup : Span R' x0 up)
    (hlt : hY R' lo x0 < hY R' up x0) (hne : ¬ (lo.lv = up.lv ∧ lo.rv = up.rv)) :
    (R'.x up.rv < R'.x lo.rv → 0 < orient (R'.pt lo.lv) (R'.pt lo.rv) (R'.pt up.rv)) ∧
    (R'.x lo.rv < R'.x up.rv → orient (R'.pt up.lv) (R'.pt up.rv) (R'.pt lo.rv) < 0) := by
  constructor
  · intro h
    rcases advance hN hlo hup (Or.inl hlt) hne hup.gt (le_of_lt h) (le_refl _) with h1 | ⟨h1, -⟩
    · apply orient_pos_of_above _ _ _ hlo.lt
      have e : hY R' up (R'.x up.rv) = (R'.pt up.rv).2 := lineY_right _ _ hup.lt
      rw [← e]; exact h1
    · exact absurd h1 (ne_of_lt h)
  · intro h
    rcases advance hN hlo hup (Or.inl hlt) hne hlo.gt (le_refl _) (le_of_lt h) with h1 | ⟨-, h1⟩
    · apply orient_neg_of_below _ _ _ hup.lt
      have e : hY R' lo (R'.x lo.rv) = (R'.pt lo.rv).2 := lineY_right _ _ hlo.lt
      rw [← e]; exact h1
    · exact absurd h (by rw [h1]; exact lt_irrefl _)

/-- the two right end points in the original ring -/
theorem look_orig (h : ShOK R ε Vε) {xs : Rat} {lo up : AE}
    (hlo : Span (shearRing ε R) xs lo) (hup : Span (shearRing ε R) xs up)
    (hlt : hY (shearRing ε R) lo xs < hY (shearRing ε R) up xs)
    (hne : ¬ (lo.lv = up.lv ∧ lo.rv = up.rv)) :
    (lexLt (R.pt up.rv) (R.pt lo.rv) → 0 < orient (R.pt lo.lv) (R.pt lo.rv) (R.pt up.rv)) ∧
    (lexLt (R.pt lo.rv) (R.pt up.rv) → orient (R.pt up.lv) (R.pt up.rv) (R.pt lo.rv) < 0) := by
  obtain ⟨f1, f2⟩ := look_facts h.ring h.nocross hlo hup hlt hne
  constructor
  · intro hl
    have := f1 ((h.key _ _ hup.rv_lt hlo.rv_lt).mpr hl)
    rw [orient_ring] at this; exact this
  · intro hl
    have := f2 ((h.key _ _ hlo.rv_lt hup.rv_lt).mpr hl)
    rw [orient_ring] at this; exact this

/-- `willOverlapBot` of the upper edge against the lower edge is negative -/
theorem wobV (h : ShOK R ε Vε) (hNV : NoVert R) {xs X : Rat} (hc : Cpl R ε xs X) {lo up : AE}
    (hlo : Span (shearRing ε R) xs lo) (hup : Span (shearRing ε R) xs up)
    (hlt : hY (shearRing ε R) lo xs < hY (shearRing ε R) up xs)
    (hne : ¬ (lo.lv = up.lv ∧ lo.rv = up.rv)) :
    wobP (Fq (R.pt up.lv)) (Fq (R.pt up.rv)) (Fq (R.pt lo.lv)) (Fq (R.pt lo.rv)) = false := by
  obtain ⟨-, nl⟩ := edge_orig h hNV hlo
  obtain ⟨-, nu⟩ := edge_orig h hNV hup
  obtain ⟨xl1, xl2⟩ := span_orig hc hlo
  obtain ⟨xu1, xu2⟩ := span_orig hc hup
  obtain ⟨g1, g2⟩ := look_orig h hlo hup hlt hne
  refine wobP_false_V _ _ _ _ nu nl (le_trans xl1 xu2) (le_trans xu1 xl2) ?_
    (fun hx => g1 (Or.inl hx)) (fun hx => g2 (Or.inl hx))
  intro hx
  by_contra hcon
  have hl : lexLt (R.pt up.rv) (R.pt lo.rv) := Or.inr ⟨hx, not_le.mp hcon⟩
  have o := g1 hl
  rw [orient_same_x _ _ _ hx] at o
  have : 0 < (R.pt lo.rv).1 - (R.pt lo.lv).1 := sub_pos.mpr nl
  have h2 : (R.pt up.rv).2 - (R.pt lo.rv).2 < 0 := by linarith [not_le.mp hcon]
  nlinarith [mul_pos this (neg_pos.mpr h2)]

/-- `willOverlapTop` of the lower edge against the upper edge is negative -/
theorem wotV (h : ShOK R ε Vε) (hNV : NoVert R) {xs X : Rat} (hc : Cpl R ε xs X) {lo up : AE}
    (hlo : Span (shearRing ε R) xs lo) (hup : Span (shearRing ε R) xs up)
    (hlt : hY (shearRing ε R) lo xs < hY (shearRing ε R) up xs)
    (hne : ¬ (lo.lv = up.lv ∧ lo.rv = up.rv)) :
    wotP (Fq (R.pt lo.lv)) (Fq (R.pt lo.rv)) (Fq (R.pt up.lv)) (Fq (R.pt up.rv)) = false := by
  obtain ⟨-, nl⟩ := edge_orig h hNV hlo
  obtain ⟨-, nu⟩ := edge_orig h hNV hup
  obtain ⟨xl1, xl2⟩ := span_orig hc hlo
  obtain ⟨xu1, xu2⟩ := span_orig hc hup
  obtain ⟨g1, g2⟩ := look_orig h hlo hup hlt hne
  refine wotP_false_V _ _ _ _ nl nu (le_trans xu1 xl2) (le_trans xl1 xu2) ?_
    (fun hx => g2 (Or.inl hx)) (fun hx => g1 (Or.inl hx))
  intro hx
  by_contra hcon
  have hl : lexLt (R.pt up.rv) (R.pt lo.rv) := Or.inr ⟨hx.symm, not_le.mp hcon⟩
  have o := g1 hl
  rw [orient_same_x _ _ _ hx.symm] at o
  have : 0 < (R.pt lo.rv).1 - (R.pt lo.lv).1 := sub_pos.mpr nl
  have h2 : (R.pt up.rv).2 - (R.pt lo.rv).2 < 0 := by linarith [not_le.mp hcon]
  nlinarith [mul_pos this (neg_pos.mpr h2)]

/-! ### a vertex against an active edge -/

theorem shear_y (i : Nat) : ((shearRing ε R).pt i).2 = (R.pt i).2 := rfl

/-- the active edge `a` is below the vertex `w` (sheared ring) : so it is in the original ring -/
theorem belowV_pt (h : ShOK R ε Vε) (hNV : NoVert R) {a : AE} {w : Nat}
    (ha : Span (shearRing ε R) ((shearRing ε R).x w) a)
    (hlt : hY (shearRing ε R) a ((shearRing ε R).x w) < (R.pt w).2) :
    lineY (R.pt a.lv) (R.pt a.rv) (R.x w) < (R.pt w).2 := by
  obtain ⟨-, na⟩ := edge_orig h hNV ha
  have o := orient_pos_of_above _ _ ((shearRing ε R).pt w) ha.lt hlt
  rw [orient_ring] at o
  exact above_of_orient_pos _ _ _ na o

theorem aboveV_pt (h : ShOK R ε Vε) (hNV : NoVert R) {a : AE} {w : Nat}
    (ha : Span (shearRing ε R) ((shearRing ε R).x w) a)
    (hlt : (R.pt w).2 < hY (shearRing ε R) a ((shearRing ε R).x w)) :
    (R.pt w).2 < lineY (R.pt a.lv) (R.pt a.rv) (R.x w) := by
  obtain ⟨-, na⟩ := edge_orig h hNV ha
  have o := orient_neg_of_below _ _ ((shearRing ε R).pt w) ha.lt hlt
  rw [orient_ring] at o
  exact below_of_orient_neg _ _ _ na o

/-! ### vertex classification, the queue -/

theorem ftV_start (h : ShOK R ε Vε) {w a c : Nat} (hw : w < R.n) (ha : a < R.n) (hc : c < R.n)
    (h1 : (shearRing ε R).x w < (shearRing ε R).x a) (h2 : (shearRing ε R).x w < (shearRing ε R).x c) :
    fromTriplet (Fq (R.pt w)) (Fq (R.pt a)) (Fq (R.pt c)) = some .start :=
  (C15.fromTriplet_start_fin _ _ _ _ _ _).mpr ⟨(h.key _ _ hw ha).mp h1, (h.key _ _ hw hc).mp h2⟩

theorem ftV_end (h : ShOK R ε Vε) {w a c : Nat} (hw : w < R.n) (ha : a < R.n) (hc : c < R.n)
    (h1 : (shearRing ε R).x a < (shearRing ε R).x w) (h2 : (shearRing ε R).x c < (shearRing ε R).x w) :
    fromTriplet (Fq (R.pt w)) (Fq (R.pt a)) (Fq (R.pt c)) = some .end_ :=
  (C15.fromTriplet_end_fin _ _ _ _ _ _).mpr ⟨(h.key _ _ ha hw).mp h1, (h.key _ _ hc hw).mp h2⟩

theorem ftV_bend (h : ShOK R ε Vε) {w a c : Nat} (hw : w < R.n) (ha : a < R.n) (hc : c < R.n)
    (h1 : (shearRing ε R).x a < (shearRing ε R).x w) (h2 : (shearRing ε R).x w < (shearRing ε R).x c) :
    fromTriplet (Fq (R.pt w)) (Fq (R.pt a)) (Fq (R.pt c)) = some .bend ∧
      fromTriplet (Fq (R.pt w)) (Fq (R.pt c)) (Fq (R.pt a)) = some .bend :=
  ⟨(C15.fromTriplet_bend_fin _ _ _ _ _ _).mpr (Or.inl ⟨(h.key _ _ ha hw).mp h1, (h.key _ _ hw hc).mp h2⟩),
   (C15.fromTriplet_bend_fin _ _ _ _ _ _).mpr (Or.inr ⟨(h.key _ _ ha hw).mp h1, (h.key _ _ hw hc).mp h2⟩)⟩

theorem geV_false (h : ShOK R ε Vε) {a c : Nat} (ha : a < R.n) (hc : c < R.n)
    (hx : (shearRing ε R).x a < (shearRing ε R).x c) : (Fq (R.pt a)).ge (Fq (R.pt c)) = false := by
  cases hg : (Fq (R.pt a)).ge (Fq (R.pt c)) with
  | false => rfl
  | true => exact absurd ((h.key _ _ ha hc).mp hx) ((C15.Pt.ge_fin _ _ _ _).mp hg)

theorem geV_true (h : ShOK R ε Vε) {a c : Nat} (ha : a < R.n) (hc : c < R.n)
    (hx : (shearRing ε R).x a < (shearRing ε R).x c) : (Fq (R.pt c)).ge (Fq (R.pt a)) = true :=
  (C15.Pt.ge_fin _ _ _ _).mpr (lexLt_asymm ((h.key _ _ ha hc).mp hx))

/-- the vertex array holds the original points -/
def VGet (R : RingQ) (V : Array (Vtx XQ)) : Prop :=
  V.size = R.n ∧ ∀ i, i < R.n → V[i]? = some ⟨Fq (R.pt i), R.prv i, R.nxt i⟩

/-- the queue of the model (keys compared as points) is the queue of the sheared ring -/
theorem evAddV_eq_qAdd (h : ShOK R ε Vε) {V : Array (Vtx XQ)} (hV : VGet R V) (v e : Nat) (hv : v < R.n) :
    ∀ (evs : List (Nat × List Nat)), (∀ a ∈ evs, a.1 < R.n) →
      evAdd V (Fq (R.pt v)) v e evs = qAdd (shearRing ε R) v e evs
  | [], _ => rfl
  | (k, es) :: rest, hk' => by
    have hk : k < R.n := hk' (k, es) List.mem_cons_self
    unfold evAdd qAdd
    rw [hV.2 k hk]
    simp only
    rcases lt_trichotomy ((shearRing ε R).x v) ((shearRing ε R).x k) with hlt | heq | hgt
    · rw [(Geo.Pt.cmp_fin_lt _ _ _ _).mpr ((h.key _ _ hv hk).mp hlt), if_pos hlt]
    · have : v = k := h.ring.distinct v k hv hk heq
      subst this
      rw [cmp_self, if_neg (lt_irrefl _), if_pos rfl]
    · have hne : k ≠ v := by rintro rfl; exact lt_irrefl _ hgt
      rw [(Geo.Pt.cmp_fin_gt _ _ _ _).mpr ((h.key _ _ hk hv).mp hgt), if_neg (lt_asymm hgt), if_neg hne,
        evAddV_eq_qAdd h hV v e hv rest (fun a ha => hk' a (List.mem_cons_of_mem _ ha))]

end Cav.GenVBridge
