/-
  The state invariant of the sweep on a simple x-monotone polygon (`MInv`) and its preservation
  by a Bend on the bottom chain (`stepB`).
-/
import Cav.Lemmas.MonoRun

set_option linter.unusedSimpArgs false
set_option linter.unusedVariables false

namespace Cav.MonoStep
open Cav Num Cav.Geo Cav.Sweep Cav.SweepRun Cav.TriRun Cav.QuadRun Cav.TriEvents Cav.QuadGeom
open Cav.CvxHeap Cav.CvxEvents Cav.CvxFlows Cav.CvxGeom Cav.CvxLoop Cav.MonoHeap Cav.MonoGeom
open Cav.MonoFan Cav.MonoConv Cav.MonoFlows Cav.MonoInv Cav.MonoRun

/-- the triangles emitted so far: their number, corners, non-degeneracy and total area -/
def OutOK (mB mT : Nat) (b t : Nat → Q) (i j : Nat) (σ : Rat) (out : List Tri)
    (l : List (Nat × Q)) : Prop :=
  out.length + l.length = i + j + 1 ∧ (∀ tr ∈ out, TriOK mB mT b t tr ∧ 0 < triArea tr) ∧
    areaSum out = chainSum b i - chainSum t j + σ * pathSum (l.map Prod.snd)

/-- the state after the Start event, `i` Bends on the bottom chain and `j` Bends on the top
    chain: the back-chain is linked from the head (mode A: its points but the last lie on the
    bottom chain) or from the tail (mode B: on the top chain) -/
def MInv (V : Array (Vtx XQ)) (mB mT : Nat) (bi ti : Nat → Nat) (b t : Nat → Q) (i j : Nat)
    (s : St XQ) : Prop :=
  ∃ xs N rm iB iT evs out l,
    s = stC V (.fin xs) N rm iB iT (Fq (b (i + 1))) (Fq (t (j + 1))) evs out ∧
    (b i).1 ≤ xs ∧ (t j).1 ≤ xs ∧ xs < (b (i + 1)).1 ∧ xs < (t (j + 1)).1 ∧
    QueueOK mB mT bi ti b t i j evs ∧
    ((Seg N none (hp l) none ∧ CG 1 b i iB iT (t j) N.size l ∧ OutOK mB mT b t i j 1 out l) ∨
     (SegR N none (hp l) none ∧ CG (-1) t j iT iB (b i) N.size l ∧ OutOK mB mT b t i j (-1) out l))

section
variable {V : Array (Vtx XQ)} {mB mT : Nat} {bi ti : Nat → Nat} {b t : Nat → Rat × Rat}

theorem isV_b (hC : MConv V mB mT bi ti b t) (i : Nat) (hi : i ≤ mB) :
    ∀ k, 0 < k → k ≤ i → IsVtx mB mT b t (Fq (b k)) := fun k _ hk => isVtx_b k (by omega)
theorem isV_t (hC : MConv V mB mT bi ti b t) (j : Nat) (hj : j ≤ mT) :
    ∀ k, 0 < k → k ≤ j → IsVtx mB mT b t (Fq (t k)) := fun k _ hk => isVtx_t k (by omega)

theorem mem_pts {l : List (Nat × Q)} {q : Q} (h : q ∈ l.map Prod.snd) : ∃ x ∈ l, x.2 = q := by
  obtain ⟨x, hx, rfl⟩ := List.mem_map.mp h
  exact ⟨x, hx, rfl⟩

/-- distinct abscissae behind the stop point (from `XDec`) -/
theorem stop_x {l mid : List (Nat × Q)} {g : Nat × Q} {rest : List (Nat × Q)}
    (hxd : XDec (l.map Prod.snd)) (hs : l = mid ++ g :: rest) :
    ∀ h r, rest = h :: r → g.2.1 ≠ h.2.1 := by
  intro h r e
  rw [hs, e, List.map_append, List.map_cons, List.map_cons] at hxd
  exact ne_of_gt (XDec.at hxd)

/-- a Bend on the bottom chain keeps the invariant -/
theorem stepB (hC : MConv V mB mT bi ti b t) {i j : Nat} (hi1 : i + 1 < mB) (hj : j < mT)
    (hlt : (b (i + 1)).1 < (t (j + 1)).1) {s : St XQ} (hinv : MInv V mB mT bi ti b t i j s) :
    ∃ s', Runs s (.ok ((), s')) handleNext ∧ MInv V mB mT bi ti b t (i + 1) j s' := by
  obtain ⟨xs, N, rm, iB, iT, evs, out, l, rfl, x1, x2, x3, x4, hq, hmode⟩ := hinv
  have hev : evs = [(bi (i + 1), [0]), (ti (j + 1), [1])] := by
    rcases hq with ⟨e1, -, -⟩ | ⟨-, h⟩ | ⟨h, -⟩
    · omega
    · exact h
    · exact absurd hlt (lt_asymm h)
  subst hev
  have xnew : (b (i + 1)).1 < (b (i + 2)).1 := hC.xB (i + 1) hi1
  have x2' : (t j).1 ≤ (b (i + 1)).1 := le_of_lt (lt_of_le_of_lt x2 x3)
  have hq' := hC.queue_B (i + 1) j hi1 hj
  have hub : IsVtx mB mT b t (Fq (b (i + 1))) := isVtx_b (i + 1) (by omega)
  rcases hmode with ⟨hseg, hG, hcnt, hok, harea⟩ | ⟨hseg, hG, hcnt, hok, harea⟩
  · -- mode A: the maximal fan from the new head
    obtain ⟨r0, hr0⟩ := hG.first
    obtain ⟨mid, g, rest, hs, hfan, hstop⟩ := fanQ_split 1 (b (i + 1)) l hG.ne_nil
    have hgl : g ∈ l := by rw [hs]; simp
    have hxg : (b (i + 1)).1 ≠ g.2.1 :=
      ne_of_gt (lt_of_le_of_lt (hG.x_le g hgl) (hC.xB i (by omega)))
    obtain ⟨N2, hrun, hseg2, hsz⟩ := bottom_run hC hi1 hj xs N rm iB iT out x2 x3 hlt l r0 hr0
      hG.last hseg hG.nd hG.len hs hfan hstop hxg (stop_x hG.xd hs)
    have hG' := hG.same_end (u := b (i + 1)) rfl (hC.xB i (by omega)) hs hstop
    have hv : ∀ q ∈ (mid ++ [g]).map Prod.snd, IsVtx mB mT b t (Fq q) := by
      intro q hq
      obtain ⟨x, hx, rfl⟩ := mem_pts hq
      have hxl : x ∈ l := by
        rw [hs]
        rcases List.mem_append.mp hx with h | h
        · exact List.mem_append_left _ h
        · simp only [List.mem_singleton] at h; subst h; simp
      exact hG.all (P := fun q => IsVtx mB mT b t (Fq q)) (isV_b hC i (by omega))
        (isVtx_t j (by omega)) x hxl
    obtain ⟨p1, p2, p3⟩ := trisF_props (b (i + 1)) hub _ hfan hv
    obtain ⟨c1, c2⟩ := acct_same 1 (b (i + 1)) (b i) iB N.size l mid g rest out _
      (chainSum b i - chainSum t j) (i + j + 1) hs hG.first p3 (by rw [p2]; ring) hcnt harea
    refine ⟨_, hrun, (b (i + 1)).1, N2, N.size, N.size, iT, _, _, (N.size, b (i + 1)) :: g :: rest,
      rfl, le_refl _, x2', xnew, hlt, hq', Or.inl ⟨hseg2, by rw [hsz]; exact hG', ?_, ?_, ?_⟩⟩
    · rw [c1]; omega
    · intro tr htr
      rcases List.mem_append.mp htr with h | h
      · exact p1 tr h
      · exact hok tr h
    · rw [c2]; simp only [chainSum]; ring
  · -- mode B: the new head sees the whole chain
    obtain ⟨r0, hr0⟩ := hG.first
    have hsegH : Seg N none (hp l.reverse) none := by
      have := (segR_iff_seg N (hp l) none none).mp hseg
      simpa [hp] using this
    have hrev : l.reverse = r0.reverse ++ [(iT, t j)] := by rw [hr0]; simp
    obtain ⟨ys, hys⟩ := List.getLast?_eq_some_iff.mp hG.last
    have hfirstH : l.reverse = (iB, b i) :: ys.reverse := by rw [hys]; simp
    have hlastH : l.reverse.getLast? = some (iT, t j) := by rw [hrev]; simp
    have hfan : FanQ 1 (b (i + 1)) ((r0.reverse ++ [(iT, t j)]).map Prod.snd) := by
      rw [← hrev]
      have hxi : XInc ((l.reverse).map Prod.snd) := by
        rw [List.map_reverse]; exact XDec.reverse hG.xd
      have hnt : NoTurn 1 ((l.reverse).map Prod.snd) := by
        rw [List.map_reverse]
        have := NoTurn.reverse hG.nt
        simpa using this
      apply fan_first 1 (b (i + 1)) _ hxi hnt
      · intro q hq
        obtain ⟨x, hx, rfl⟩ := mem_pts hq
        have hx' : x ∈ l := List.mem_reverse.mp hx
        have hle : x.2.1 ≤ (t j).1 := hG.x_le x hx'
        linarith
      · intro c0 c1 r hc
        obtain ⟨e0, k, hk0, hkj, e1, hlt'⟩ := hG.first_two_rev hc
        subst e0; subst e1
        have hkx : (t k).1 < (b (i + 1)).1 := by
          have := hG.x_le
          obtain ⟨x, hx, hx2⟩ := mem_pts (l := l.reverse) (q := t k) (by rw [hc]; simp)
          have := hG.x_le x (List.mem_reverse.mp hx)
          rw [hx2] at this; linarith
        have := hC.sT k i hk0 (by omega) (by omega) hlt' hkx
        have e : orient (b (i + 1)) (b i) (t k) = - orient (b i) (b (i + 1)) (t k) := by
          unfold orient; ring
        rw [e]; linarith
    have hxg : (b (i + 1)).1 ≠ (iT, t j).2.1 := ne_of_gt (lt_of_le_of_lt x2 x3)
    have hndH : ((l.reverse).map Prod.fst).Nodup := by
      rw [List.map_reverse]; exact List.nodup_reverse.mpr hG.nd
    obtain ⟨N2, hrun, hseg2, hsz⟩ := bottom_run hC hi1 hj xs N rm iB iT out x2 x3 hlt l.reverse
      ys.reverse hfirstH hlastH hsegH hndH (by simpa using hG.len) hrev hfan
      (fun h r e => by cases e) hxg (fun h r e => by cases e)
    have hG' := hG.other_end (c' := b) (ic' := i) (u := b (i + 1)) rfl
      (lt_of_le_of_lt x2 x3)
    have hv : ∀ q ∈ (r0.reverse ++ [(iT, t j)]).map Prod.snd, IsVtx mB mT b t (Fq q) := by
      intro q hq
      rw [← hrev] at hq
      obtain ⟨x, hx, rfl⟩ := mem_pts hq
      exact hG.all (P := fun q => IsVtx mB mT b t (Fq q)) (isV_t hC j (by omega))
        (isVtx_b i (by omega)) x (List.mem_reverse.mp hx)
    obtain ⟨p1, p2, p3⟩ := trisF_props (b (i + 1)) hub _ hfan hv
    rw [← hrev] at p2 p3
    obtain ⟨c1, c2⟩ := acct_other (-1) (b (i + 1)) (t j) (b i) iT iB N.size l out _
      (chainSum b i - chainSum t j) (i + j + 1) hG.first hG.last p3 (by rw [p2]; ring) hcnt harea
    rw [hrev] at c1 c2
    refine ⟨_, hrun, (b (i + 1)).1, N2, N.size, N.size, iT, _, _, [(N.size, b (i + 1)), (iT, t j)],
      rfl, le_refl _, x2', xnew, hlt, hq', Or.inl ⟨hseg2, ?_, ?_, ?_, ?_⟩⟩
    · rw [hsz]; simpa using hG'
    · simp only [List.length_cons, List.length_nil]; omega
    · intro tr htr
      rcases List.mem_append.mp htr with h | h
      · exact p1 tr h
      · exact hok tr h
    · rw [c2]; simp only [chainSum, List.map_cons, List.map_nil, pathSum]
      unfold cross; ring

end

end Cav.MonoStep
