/-
  The event chains of `QuadVEvents*.lean` instantiated at finite points `q1 < q2 < q3 < q4` in
  LEXICOGRAPHIC order (`q1.1 < q3.1`, `q2.1 < q4.1`: no three on a vertical line): every
  geometric hypothesis is discharged from the signs of the orientation determinants
  (`QuadVGeom.lean`).
-/
import Cav.Lemmas.QuadVGeom
import Cav.Lemmas.QuadVEventsO
import Cav.Lemmas.QuadVEventsA
import Cav.Lemmas.QuadVEventsZ

set_option linter.unusedSimpArgs false
set_option linter.unusedVariables false

namespace Cav.QuadVFlows
open Cav Num Cav.Geo Cav.Sweep Cav.TriRun Cav.QuadRun Cav.QuadVRun Cav.QuadGeom Cav.QuadVGeom
  Cav.QuadVEvents

/-- lexicographic order facts -/
macro "lx" : tactic => `(tactic| assumption)
/-- weak / strict order facts between the abscissae -/
macro "xw" : tactic =>
  `(tactic| first | assumption | exact le_rfl | exact le_of_lt (by assumption))
macro "xs" : tactic => `(tactic| assumption)
/-- sign of an orientation determinant from the sign of a permuted one -/
macro "osgn" : tactic => `(tactic| (simp only [orient] at *; linarith))

theorem ord4L_fin (q1 q2 q3 q4 : Rat × Rat) (l12 : lexLt q1 q2) (l23 : lexLt q2 q3)
    (l34 : lexLt q3 q4) : Ord4L (Fq q1) (Fq q2) (Fq q3) (Fq q4) := by
  have l13 := C15.lexLt_trans l12 l23
  have l24 := C15.lexLt_trans l23 l34
  have l14 := C15.lexLt_trans l13 l34
  have ne : ∀ {p q : Rat × Rat}, lexLt p q → (Fq p).eq (Fq q) = false := by
    intro p q h
    rw [Geo.Pt.eq_fin]; simp only [decide_eq_false_iff_not]
    rintro ⟨h1, h2⟩
    exact C15.lexLt_irrefl q (by rwa [show p = q from Prod.ext h1 h2] at h)
  have ne' : ∀ {p q : Rat × Rat}, lexLt p q → (Fq q).eq (Fq p) = false := by
    intro p q h
    rw [Geo.Pt.eq_fin]; simp only [decide_eq_false_iff_not]
    rintro ⟨h1, h2⟩
    exact C15.lexLt_irrefl q (by rwa [show p = q from (Prod.ext h1 h2).symm] at h)
  exact {
    f1 := rfl,
    f2 := rfl,
    f3 := rfl,
    f4 := rfl,
    c11 := (Geo.Pt.cmp_fin_eq _ _ _ _).mpr ⟨rfl, rfl⟩,
    c12 := (Geo.Pt.cmp_fin_lt _ _ _ _).mpr l12,
    c13 := (Geo.Pt.cmp_fin_lt _ _ _ _).mpr l13,
    c14 := (Geo.Pt.cmp_fin_lt _ _ _ _).mpr l14,
    c21 := (Geo.Pt.cmp_fin_gt _ _ _ _).mpr l12,
    c22 := (Geo.Pt.cmp_fin_eq _ _ _ _).mpr ⟨rfl, rfl⟩,
    c23 := (Geo.Pt.cmp_fin_lt _ _ _ _).mpr l23,
    c24 := (Geo.Pt.cmp_fin_lt _ _ _ _).mpr l24,
    c31 := (Geo.Pt.cmp_fin_gt _ _ _ _).mpr l13,
    c32 := (Geo.Pt.cmp_fin_gt _ _ _ _).mpr l23,
    c33 := (Geo.Pt.cmp_fin_eq _ _ _ _).mpr ⟨rfl, rfl⟩,
    c34 := (Geo.Pt.cmp_fin_lt _ _ _ _).mpr l34,
    c41 := (Geo.Pt.cmp_fin_gt _ _ _ _).mpr l14,
    c42 := (Geo.Pt.cmp_fin_gt _ _ _ _).mpr l24,
    c43 := (Geo.Pt.cmp_fin_gt _ _ _ _).mpr l34,
    c44 := (Geo.Pt.cmp_fin_eq _ _ _ _).mpr ⟨rfl, rfl⟩,
    e12 := ne l12,
    e13 := ne l13,
    e14 := ne l14,
    e21 := ne' l12,
    e23 := ne l23,
    e24 := ne l24,
    e31 := ne' l13,
    e32 := ne' l23,
    e34 := ne l34,
    e41 := ne' l14,
    e42 := ne' l24,
    e43 := ne' l34 }

theorem runV_Oa (ori : Bool) (V : Array (Vtx XQ)) (i1 i2 i3 i4 : Nat) (q1 q2 q3 q4 : Rat × Rat)
    (h1 : V[i1]? = some ⟨Fq q1, (nb ori i2 i3).1, (nb ori i2 i3).2⟩)
    (h2 : V[i2]? = some ⟨Fq q2, (nb ori i4 i1).1, (nb ori i4 i1).2⟩)
    (h3 : V[i3]? = some ⟨Fq q3, (nb ori i1 i4).1, (nb ori i1 i4).2⟩)
    (h4 : V[i4]? = some ⟨Fq q4, (nb ori i3 i2).1, (nb ori i3 i2).2⟩)
    (l12 : lexLt q1 q2) (l23 : lexLt q2 q3) (l34 : lexLt q3 q4) (x13 : q1.1 < q3.1) (x24 : q2.1 < q4.1)
    (s123 : 0 < orient q1 q2 q3) (s234 : orient q2 q3 q4 < 0) :
    ∃ s', Runs (stQ V [(i1, [])]) (.ok ((), s')) (loop 5) ∧
      s'.out = [sort3 (Fq q2) (Fq q3) (Fq q4), sort3 (Fq q2) (Fq q1) (Fq q3)] ∧ s'.mono = true := by
  have l13 := C15.lexLt_trans l12 l23
  have l24 := C15.lexLt_trans l23 l34
  have l14 := C15.lexLt_trans l13 l34
  have w12 := lexLt_le l12
  have w23 := lexLt_le l23
  have w34 := lexLt_le l34
  have x14 : q1.1 < q4.1 := lt_of_lt_of_le x13 w34
  have w13 := x13.le
  have w24 := x24.le
  have w14 := x14.le
  exact flowV_Oa ori V i1 i2 i3 i4 (Fq q1) (Fq q2) (Fq q3) (Fq q4) h1 h2 h3 h4
    (ord4L_fin q1 q2 q3 q4 l12 l23 l34)
    (cmpEL_fanL0_lt q1 q2 q3 (by lx) (by lx) (by osgn))
    (cmpEL_fanL0_gt q1 q3 q2 (by lx) (by lx) (by osgn))
    (cw_c q2 q1 q3 (by osgn))
    (ofGeL_true q2 q3 q4 (by lx) (by lx) (by osgn))
    (cmpEL_ptOther_lt q2 q4 q3 q4 (by xs) (by lx) (by xw) (by xw) (by osgn) (fun _ => rfl))
    (cw_c q2 q3 q4 (by osgn))
    (vcP_nonvert q2 q4 _ (by xs))
    (wotP_otherEnd q2 q4 q1 q3 (by xs) (by xs) (by xw) (by lx) (by osgn))
    ((vcP_cons q3 q4 _ _ (nb_endsAt q3 q4 q2 (by xs)) (vcP_nil _ _)))
    (wobP_sameR q3 q2 q4 (by lx) (by lx))

theorem runV_Ob (ori : Bool) (V : Array (Vtx XQ)) (i1 i2 i3 i4 : Nat) (q1 q2 q3 q4 : Rat × Rat)
    (h1 : V[i1]? = some ⟨Fq q1, (nb ori i2 i3).1, (nb ori i2 i3).2⟩)
    (h2 : V[i2]? = some ⟨Fq q2, (nb ori i4 i1).1, (nb ori i4 i1).2⟩)
    (h3 : V[i3]? = some ⟨Fq q3, (nb ori i1 i4).1, (nb ori i1 i4).2⟩)
    (h4 : V[i4]? = some ⟨Fq q4, (nb ori i3 i2).1, (nb ori i3 i2).2⟩)
    (l12 : lexLt q1 q2) (l23 : lexLt q2 q3) (l34 : lexLt q3 q4) (x13 : q1.1 < q3.1) (x24 : q2.1 < q4.1)
    (s123 : orient q1 q2 q3 < 0) (s234 : 0 < orient q2 q3 q4) :
    ∃ s', Runs (stQ V [(i1, [])]) (.ok ((), s')) (loop 5) ∧
      s'.out = [sort3 (Fq q3) (Fq q2) (Fq q4), sort3 (Fq q3) (Fq q1) (Fq q2)] ∧ s'.mono = true := by
  have l13 := C15.lexLt_trans l12 l23
  have l24 := C15.lexLt_trans l23 l34
  have l14 := C15.lexLt_trans l13 l34
  have w12 := lexLt_le l12
  have w23 := lexLt_le l23
  have w34 := lexLt_le l34
  have x14 : q1.1 < q4.1 := lt_of_lt_of_le x13 w34
  have w13 := x13.le
  have w24 := x24.le
  have w14 := x14.le
  exact flowV_Ob ori V i1 i2 i3 i4 (Fq q1) (Fq q2) (Fq q3) (Fq q4) h1 h2 h3 h4
    (ord4L_fin q1 q2 q3 q4 l12 l23 l34)
    (cmpEL_fanL0_lt q1 q3 q2 (by lx) (by lx) (by osgn))
    (cmpEL_fanL0_gt q1 q2 q3 (by lx) (by lx) (by osgn))
    (cw_c q3 q1 q2 (by osgn))
    (ofGeL_false q2 q3 q4 (by lx) (by lx) (by osgn))
    (cmpEL_ptKey_lt q3 q4 q2 q4 (by lx) (by xs) (by xw) (by xw) (by osgn) (fun _ h => absurd rfl h))
    (cw_c q3 q2 q4 (by osgn))
    (vcP_nonvert q2 q4 _ (by xs))
    (wobP_otherEnd q2 q4 q1 q3 (by xs) (by xs) (by xw) (by lx) (by osgn))
    ((vcP_cons q3 q4 _ _ (nb_endsAt q3 q4 q2 (by xs)) (vcP_nil _ _)))
    (wotP_sameR q3 q2 q4 (by lx) (by lx))

theorem runV_At (ori : Bool) (V : Array (Vtx XQ)) (i1 i2 i3 i4 : Nat) (q1 q2 q3 q4 : Rat × Rat)
    (h1 : V[i1]? = some ⟨Fq q1, (nb ori i4 i2).1, (nb ori i4 i2).2⟩)
    (h2 : V[i2]? = some ⟨Fq q2, (nb ori i1 i3).1, (nb ori i1 i3).2⟩)
    (h3 : V[i3]? = some ⟨Fq q3, (nb ori i2 i4).1, (nb ori i2 i4).2⟩)
    (h4 : V[i4]? = some ⟨Fq q4, (nb ori i3 i1).1, (nb ori i3 i1).2⟩)
    (l12 : lexLt q1 q2) (l23 : lexLt q2 q3) (l34 : lexLt q3 q4) (x13 : q1.1 < q3.1) (x24 : q2.1 < q4.1)
    (s124 : orient q1 q2 q4 < 0) (s134 : orient q1 q3 q4 < 0) (s123 : orient q1 q2 q3 < 0) :
    ∃ s', Runs (stQ V [(i1, [])]) (.ok ((), s')) (loop 5) ∧
      s'.out = [sort3 (Fq q1) (Fq q3) (Fq q4), sort3 (Fq q1) (Fq q2) (Fq q3)] ∧ s'.mono = true := by
  have l13 := C15.lexLt_trans l12 l23
  have l24 := C15.lexLt_trans l23 l34
  have l14 := C15.lexLt_trans l13 l34
  have w12 := lexLt_le l12
  have w23 := lexLt_le l23
  have w34 := lexLt_le l34
  have x14 : q1.1 < q4.1 := lt_of_lt_of_le x13 w34
  have w13 := x13.le
  have w24 := x24.le
  have w14 := x14.le
  exact flowV_At ori V i1 i2 i3 i4 (Fq q1) (Fq q2) (Fq q3) (Fq q4) h1 h2 h3 h4
    (ord4L_fin q1 q2 q3 q4 l12 l23 l34)
    (cmpEL_fanL0_lt q1 q4 q2 (by lx) (by lx) (by osgn))
    (cmpEL_fanL0_gt q1 q2 q4 (by lx) (by lx) (by osgn))
    (cw_c q1 q2 q3 (by osgn))
    (ofGeL_true q1 q3 q4 (by lx) (by lx) (by osgn))
    (cmpEL_ptOther_lt q1 q4 q3 q4 (by xs) (by lx) (by xw) (by xw) (by osgn) (fun _ => rfl))
    (cw_c q1 q3 q4 (by osgn))
    ((vcP_cons q2 q3 _ _ (nb_sameSide q2 q3 q1 q4 (by xs) (by xw) (by xw) (Or.inl ⟨by osgn, by osgn⟩)) (vcP_nil _ _)))
    (wobP_keyEnd q2 q3 q1 q4 (by lx) (by xs) (by xw) (by lx) (by osgn))
    ((vcP_cons q3 q4 _ _ (nb_endsAt q3 q4 q1 (by xs)) (vcP_nil _ _)))
    (wobP_sameR q3 q1 q4 (by lx) (by lx))

theorem runV_Atr (ori : Bool) (V : Array (Vtx XQ)) (i1 i2 i3 i4 : Nat) (q1 q2 q3 q4 : Rat × Rat)
    (h1 : V[i1]? = some ⟨Fq q1, (nb ori i4 i2).1, (nb ori i4 i2).2⟩)
    (h2 : V[i2]? = some ⟨Fq q2, (nb ori i1 i3).1, (nb ori i1 i3).2⟩)
    (h3 : V[i3]? = some ⟨Fq q3, (nb ori i2 i4).1, (nb ori i2 i4).2⟩)
    (h4 : V[i4]? = some ⟨Fq q4, (nb ori i3 i1).1, (nb ori i3 i1).2⟩)
    (l12 : lexLt q1 q2) (l23 : lexLt q2 q3) (l34 : lexLt q3 q4) (x13 : q1.1 < q3.1) (x24 : q2.1 < q4.1)
    (s124 : orient q1 q2 q4 < 0) (s134 : orient q1 q3 q4 < 0) (s123 : 0 < orient q1 q2 q3) (s234 : orient q2 q3 q4 < 0) :
    ∃ s', Runs (stQ V [(i1, [])]) (.ok ((), s')) (loop 5) ∧
      s'.out = [sort3 (Fq q1) (Fq q2) (Fq q4), sort3 (Fq q2) (Fq q3) (Fq q4)] ∧ s'.mono = true := by
  have l13 := C15.lexLt_trans l12 l23
  have l24 := C15.lexLt_trans l23 l34
  have l14 := C15.lexLt_trans l13 l34
  have w12 := lexLt_le l12
  have w23 := lexLt_le l23
  have w34 := lexLt_le l34
  have x14 : q1.1 < q4.1 := lt_of_lt_of_le x13 w34
  have w13 := x13.le
  have w24 := x24.le
  have w14 := x14.le
  exact flowV_Atr ori V i1 i2 i3 i4 (Fq q1) (Fq q2) (Fq q3) (Fq q4) h1 h2 h3 h4
    (ord4L_fin q1 q2 q3 q4 l12 l23 l34)
    (cmpEL_fanL0_lt q1 q4 q2 (by lx) (by lx) (by osgn))
    (cmpEL_fanL0_gt q1 q2 q4 (by lx) (by lx) (by osgn))
    (cw_cc q1 q2 q3 (by osgn))
    (ofGeL_true q1 q3 q4 (by lx) (by lx) (by osgn))
    (cmpEL_ptOther_lt q1 q4 q3 q4 (by xs) (by lx) (by xw) (by xw) (by osgn) (fun _ => rfl))
    (cw_c q2 q3 q4 (by osgn))
    (cw_c q1 q2 q4 (by osgn))
    ((vcP_cons q2 q3 _ _ (nb_sameSide q2 q3 q1 q4 (by xs) (by xw) (by xw) (Or.inl ⟨by osgn, by osgn⟩)) (vcP_nil _ _)))
    (wobP_keyEnd q2 q3 q1 q4 (by lx) (by xs) (by xw) (by lx) (by osgn))
    ((vcP_cons q3 q4 _ _ (nb_endsAt q3 q4 q1 (by xs)) (vcP_nil _ _)))
    (wobP_sameR q3 q1 q4 (by lx) (by lx))

theorem runV_Ab (ori : Bool) (V : Array (Vtx XQ)) (i1 i2 i3 i4 : Nat) (q1 q2 q3 q4 : Rat × Rat)
    (h1 : V[i1]? = some ⟨Fq q1, (nb ori i4 i2).1, (nb ori i4 i2).2⟩)
    (h2 : V[i2]? = some ⟨Fq q2, (nb ori i1 i3).1, (nb ori i1 i3).2⟩)
    (h3 : V[i3]? = some ⟨Fq q3, (nb ori i2 i4).1, (nb ori i2 i4).2⟩)
    (h4 : V[i4]? = some ⟨Fq q4, (nb ori i3 i1).1, (nb ori i3 i1).2⟩)
    (l12 : lexLt q1 q2) (l23 : lexLt q2 q3) (l34 : lexLt q3 q4) (x13 : q1.1 < q3.1) (x24 : q2.1 < q4.1)
    (s124 : 0 < orient q1 q2 q4) (s134 : 0 < orient q1 q3 q4) (s123 : 0 < orient q1 q2 q3) :
    ∃ s', Runs (stQ V [(i1, [])]) (.ok ((), s')) (loop 5) ∧
      s'.out = [sort3 (Fq q3) (Fq q1) (Fq q4), sort3 (Fq q3) (Fq q2) (Fq q1)] ∧ s'.mono = true := by
  have l13 := C15.lexLt_trans l12 l23
  have l24 := C15.lexLt_trans l23 l34
  have l14 := C15.lexLt_trans l13 l34
  have w12 := lexLt_le l12
  have w23 := lexLt_le l23
  have w34 := lexLt_le l34
  have x14 : q1.1 < q4.1 := lt_of_lt_of_le x13 w34
  have w13 := x13.le
  have w24 := x24.le
  have w14 := x14.le
  exact flowV_Ab ori V i1 i2 i3 i4 (Fq q1) (Fq q2) (Fq q3) (Fq q4) h1 h2 h3 h4
    (ord4L_fin q1 q2 q3 q4 l12 l23 l34)
    (cmpEL_fanL0_lt q1 q2 q4 (by lx) (by lx) (by osgn))
    (cmpEL_fanL0_gt q1 q4 q2 (by lx) (by lx) (by osgn))
    (cw_c q3 q2 q1 (by osgn))
    (ofGeL_false q1 q3 q4 (by lx) (by lx) (by osgn))
    (cmpEL_ptKey_lt q3 q4 q1 q4 (by lx) (by xs) (by xw) (by xw) (by osgn) (fun _ h => absurd rfl h))
    (cw_c q3 q1 q4 (by osgn))
    ((vcP_cons q2 q3 _ _ (nb_sameSide q2 q3 q1 q4 (by xs) (by xw) (by xw) (Or.inr ⟨by osgn, by osgn⟩)) (vcP_nil _ _)))
    (wotP_keyEnd q2 q3 q1 q4 (by lx) (by xs) (by xw) (by lx) (by osgn))
    ((vcP_cons q3 q4 _ _ (nb_endsAt q3 q4 q1 (by xs)) (vcP_nil _ _)))
    (wotP_sameR q3 q1 q4 (by lx) (by lx))

theorem runV_Abr (ori : Bool) (V : Array (Vtx XQ)) (i1 i2 i3 i4 : Nat) (q1 q2 q3 q4 : Rat × Rat)
    (h1 : V[i1]? = some ⟨Fq q1, (nb ori i4 i2).1, (nb ori i4 i2).2⟩)
    (h2 : V[i2]? = some ⟨Fq q2, (nb ori i1 i3).1, (nb ori i1 i3).2⟩)
    (h3 : V[i3]? = some ⟨Fq q3, (nb ori i2 i4).1, (nb ori i2 i4).2⟩)
    (h4 : V[i4]? = some ⟨Fq q4, (nb ori i3 i1).1, (nb ori i3 i1).2⟩)
    (l12 : lexLt q1 q2) (l23 : lexLt q2 q3) (l34 : lexLt q3 q4) (x13 : q1.1 < q3.1) (x24 : q2.1 < q4.1)
    (s124 : 0 < orient q1 q2 q4) (s134 : 0 < orient q1 q3 q4) (s123 : orient q1 q2 q3 < 0) (s234 : 0 < orient q2 q3 q4) :
    ∃ s', Runs (stQ V [(i1, [])]) (.ok ((), s')) (loop 5) ∧
      s'.out = [sort3 (Fq q3) (Fq q2) (Fq q4), sort3 (Fq q2) (Fq q1) (Fq q4)] ∧ s'.mono = true := by
  have l13 := C15.lexLt_trans l12 l23
  have l24 := C15.lexLt_trans l23 l34
  have l14 := C15.lexLt_trans l13 l34
  have w12 := lexLt_le l12
  have w23 := lexLt_le l23
  have w34 := lexLt_le l34
  have x14 : q1.1 < q4.1 := lt_of_lt_of_le x13 w34
  have w13 := x13.le
  have w24 := x24.le
  have w14 := x14.le
  exact flowV_Abr ori V i1 i2 i3 i4 (Fq q1) (Fq q2) (Fq q3) (Fq q4) h1 h2 h3 h4
    (ord4L_fin q1 q2 q3 q4 l12 l23 l34)
    (cmpEL_fanL0_lt q1 q2 q4 (by lx) (by lx) (by osgn))
    (cmpEL_fanL0_gt q1 q4 q2 (by lx) (by lx) (by osgn))
    (cw_cc q3 q2 q1 (by osgn))
    (ofGeL_false q1 q3 q4 (by lx) (by lx) (by osgn))
    (cmpEL_ptKey_lt q3 q4 q1 q4 (by lx) (by xs) (by xw) (by xw) (by osgn) (fun _ h => absurd rfl h))
    (cw_c q2 q1 q4 (by osgn))
    (cw_c q3 q2 q4 (by osgn))
    ((vcP_cons q2 q3 _ _ (nb_sameSide q2 q3 q1 q4 (by xs) (by xw) (by xw) (Or.inr ⟨by osgn, by osgn⟩)) (vcP_nil _ _)))
    (wotP_keyEnd q2 q3 q1 q4 (by lx) (by xs) (by xw) (by lx) (by osgn))
    ((vcP_cons q3 q4 _ _ (nb_endsAt q3 q4 q1 (by xs)) (vcP_nil _ _)))
    (wotP_sameR q3 q1 q4 (by lx) (by lx))

theorem runV_Zia (ori : Bool) (V : Array (Vtx XQ)) (i1 i2 i3 i4 : Nat) (q1 q2 q3 q4 : Rat × Rat)
    (h1 : V[i1]? = some ⟨Fq q1, (nb ori i4 i3).1, (nb ori i4 i3).2⟩)
    (h2 : V[i2]? = some ⟨Fq q2, (nb ori i3 i4).1, (nb ori i3 i4).2⟩)
    (h3 : V[i3]? = some ⟨Fq q3, (nb ori i1 i2).1, (nb ori i1 i2).2⟩)
    (h4 : V[i4]? = some ⟨Fq q4, (nb ori i2 i1).1, (nb ori i2 i1).2⟩)
    (l12 : lexLt q1 q2) (l23 : lexLt q2 q3) (l34 : lexLt q3 q4) (x13 : q1.1 < q3.1) (x24 : q2.1 < q4.1)
    (s134 : orient q1 q3 q4 < 0) (s124 : orient q1 q2 q4 < 0) (s123 : 0 < orient q1 q2 q3) (s234 : orient q2 q3 q4 < 0) :
    ∃ s', Runs (stQ V [(i1, []), (i2, [])]) (.ok ((), s')) (loop 5) ∧
      s'.out = [sort3 (Fq q1) (Fq q2) (Fq q4), sort3 (Fq q2) (Fq q1) (Fq q3)] ∧ s'.mono = true := by
  have l13 := C15.lexLt_trans l12 l23
  have l24 := C15.lexLt_trans l23 l34
  have l14 := C15.lexLt_trans l13 l34
  have w12 := lexLt_le l12
  have w23 := lexLt_le l23
  have w34 := lexLt_le l34
  have x14 : q1.1 < q4.1 := lt_of_lt_of_le x13 w34
  have w13 := x13.le
  have w24 := x24.le
  have w14 := x14.le
  exact flowV_Zia ori V i1 i2 i3 i4 (Fq q1) (Fq q2) (Fq q3) (Fq q4) h1 h2 h3 h4
    (ord4L_fin q1 q2 q3 q4 l12 l23 l34)
    (cmpEL_fanL0_lt q1 q4 q3 (by lx) (by lx) (by osgn))
    (cmpEL_fanL0_gt q1 q3 q4 (by lx) (by lx) (by osgn))
    (cmpEL_fanL0_lt q2 q4 q3 (by lx) (by lx) (by osgn))
    (cmpEL_fanL0_gt q2 q3 q4 (by lx) (by lx) (by osgn))
    (cmpEL_ptKey_gt q2 q4 q1 q4 (by lx) (by xs) (by xw) (by xw) (by osgn) (fun _ h => absurd rfl h))
    (cmpEL_ptKey_lt q2 q4 q1 q3 (by lx) (by xs) (by xw) (by xw) (by osgn) (fun h _ => absurd h (ne_of_lt (by xs))))
    (cmpEL_ptKey_gt q2 q3 q1 q4 (by lx) (by xs) (by xw) (by xw) (by osgn) (fun _ _ => by osgn))
    (cmpEL_ptKey_lt q2 q3 q1 q3 (by lx) (by xs) (by xw) (by xw) (by osgn) (fun _ h => absurd rfl h))
    (cmpEL_fanL_lt q1 q4 q3 q2.1 (by xw) (by xw) (by xw) (by lx) (by lx) (by osgn))
    (cmpEL_fanL_gt q1 q3 q4 q2.1 (by xw) (by xw) (by xw) (by lx) (by lx) (by osgn))
    (partialCmpL_fanL_lt q1 q4 q3 q2.1 (by xw) (by xw) (by xw) (by xs) (by xs) (by osgn))
    (ofGeL_false q1 q2 q3 (by lx) (by lx) (by osgn))
    (cmpEL_ptOther_gt q1 q3 q2 q4 (by xs) (by lx) (by xw) (by xw) (by osgn) (fun h => absurd h (ne_of_lt (by xs))))
    (cw_c q2 q1 q3 (by osgn))
    (ofGeL_true q1 q2 q4 (by lx) (by lx) (by osgn))
    (cmpEL_fanR_lt q1 q2 q4 q3.1 (by xw) (by xw) (by xw) (by xs) (by xs) (by osgn))
    (cw_c q1 q2 q4 (by osgn))
    (vcP_nonvert q2 q4 _ (by xs))
    ((vcP_cons q2 q3 _ _ (nb_sameSide q2 q3 q1 q4 (by xs) (by xw) (by xw) (Or.inl ⟨by osgn, by osgn⟩)) (vcP_cons q2 q3 _ _ (nb_endsAt q2 q3 q1 (by xs)) (vcP_nil _ _))))
    (wobP_sameR q2 q1 q4 (by lx) (by lx))
    (wotP_sameR q2 q1 q3 (by lx) (by lx))

theorem runV_Zib (ori : Bool) (V : Array (Vtx XQ)) (i1 i2 i3 i4 : Nat) (q1 q2 q3 q4 : Rat × Rat)
    (h1 : V[i1]? = some ⟨Fq q1, (nb ori i4 i3).1, (nb ori i4 i3).2⟩)
    (h2 : V[i2]? = some ⟨Fq q2, (nb ori i3 i4).1, (nb ori i3 i4).2⟩)
    (h3 : V[i3]? = some ⟨Fq q3, (nb ori i1 i2).1, (nb ori i1 i2).2⟩)
    (h4 : V[i4]? = some ⟨Fq q4, (nb ori i2 i1).1, (nb ori i2 i1).2⟩)
    (l12 : lexLt q1 q2) (l23 : lexLt q2 q3) (l34 : lexLt q3 q4) (x13 : q1.1 < q3.1) (x24 : q2.1 < q4.1)
    (s134 : 0 < orient q1 q3 q4) (s124 : 0 < orient q1 q2 q4) (s123 : orient q1 q2 q3 < 0) (s234 : 0 < orient q2 q3 q4) :
    ∃ s', Runs (stQ V [(i1, []), (i2, [])]) (.ok ((), s')) (loop 5) ∧
      s'.out = [sort3 (Fq q2) (Fq q1) (Fq q4), sort3 (Fq q1) (Fq q2) (Fq q3)] ∧ s'.mono = true := by
  have l13 := C15.lexLt_trans l12 l23
  have l24 := C15.lexLt_trans l23 l34
  have l14 := C15.lexLt_trans l13 l34
  have w12 := lexLt_le l12
  have w23 := lexLt_le l23
  have w34 := lexLt_le l34
  have x14 : q1.1 < q4.1 := lt_of_lt_of_le x13 w34
  have w13 := x13.le
  have w24 := x24.le
  have w14 := x14.le
  exact flowV_Zib ori V i1 i2 i3 i4 (Fq q1) (Fq q2) (Fq q3) (Fq q4) h1 h2 h3 h4
    (ord4L_fin q1 q2 q3 q4 l12 l23 l34)
    (cmpEL_fanL0_lt q1 q3 q4 (by lx) (by lx) (by osgn))
    (cmpEL_fanL0_gt q1 q4 q3 (by lx) (by lx) (by osgn))
    (cmpEL_fanL0_lt q2 q3 q4 (by lx) (by lx) (by osgn))
    (cmpEL_fanL0_gt q2 q4 q3 (by lx) (by lx) (by osgn))
    (cmpEL_ptKey_gt q2 q3 q1 q3 (by lx) (by xs) (by xw) (by xw) (by osgn) (fun _ h => absurd rfl h))
    (cmpEL_ptKey_lt q2 q3 q1 q4 (by lx) (by xs) (by xw) (by xw) (by osgn) (fun _ _ => by osgn))
    (cmpEL_ptKey_gt q2 q4 q1 q3 (by lx) (by xs) (by xw) (by xw) (by osgn) (fun h _ => absurd h (ne_of_lt (by xs))))
    (cmpEL_ptKey_lt q2 q4 q1 q4 (by lx) (by xs) (by xw) (by xw) (by osgn) (fun _ h => absurd rfl h))
    (cmpEL_fanL_lt q1 q3 q4 q2.1 (by xw) (by xw) (by xw) (by lx) (by lx) (by osgn))
    (cmpEL_fanL_gt q1 q4 q3 q2.1 (by xw) (by xw) (by xw) (by lx) (by lx) (by osgn))
    (partialCmpL_fanL_lt q1 q3 q4 q2.1 (by xw) (by xw) (by xw) (by xs) (by xs) (by osgn))
    (ofGeL_true q1 q2 q3 (by lx) (by lx) (by osgn))
    (cmpEL_ptOther_lt q1 q3 q2 q3 (by xs) (by lx) (by xw) (by xw) (by osgn) (fun _ => rfl))
    (cmpEL_ptOther_lt q1 q3 q2 q4 (by xs) (by lx) (by xw) (by xw) (by osgn) (fun h => absurd h (ne_of_lt (by xs))))
    (cw_c q1 q2 q3 (by osgn))
    (ofGeL_false q1 q2 q4 (by lx) (by lx) (by osgn))
    (cmpEL_fanR_lt q2 q1 q4 q3.1 (by xw) (by xw) (by xw) (by xs) (by xs) (by osgn))
    (cw_c q2 q1 q4 (by osgn))
    ((vcP_cons q2 q3 _ _ (nb_endsAt q2 q3 q1 (by xs)) (vcP_cons q2 q3 _ _ (nb_sameSide q2 q3 q1 q4 (by xs) (by xw) (by xw) (Or.inr ⟨by osgn, by osgn⟩)) (vcP_nil _ _))))
    (vcP_nonvert q2 q4 _ (by xs))
    (wobP_sameR q2 q1 q3 (by lx) (by lx))
    (wotP_sameR q2 q1 q4 (by lx) (by lx))

theorem runV_Zab (ori : Bool) (V : Array (Vtx XQ)) (i1 i2 i3 i4 : Nat) (q1 q2 q3 q4 : Rat × Rat)
    (h1 : V[i1]? = some ⟨Fq q1, (nb ori i4 i3).1, (nb ori i4 i3).2⟩)
    (h2 : V[i2]? = some ⟨Fq q2, (nb ori i3 i4).1, (nb ori i3 i4).2⟩)
    (h3 : V[i3]? = some ⟨Fq q3, (nb ori i1 i2).1, (nb ori i1 i2).2⟩)
    (h4 : V[i4]? = some ⟨Fq q4, (nb ori i2 i1).1, (nb ori i2 i1).2⟩)
    (l12 : lexLt q1 q2) (l23 : lexLt q2 q3) (l34 : lexLt q3 q4) (x13 : q1.1 < q3.1) (x24 : q2.1 < q4.1)
    (s134 : orient q1 q3 q4 < 0) (s123 : orient q1 q2 q3 < 0) (s234 : 0 < orient q2 q3 q4) (s124 : orient q1 q2 q4 < 0) :
    ∃ s', Runs (stQ V [(i1, []), (i2, [])]) (.ok ((), s')) (loop 5) ∧
      s'.out = [sort3 (Fq q1) (Fq q3) (Fq q4), sort3 (Fq q3) (Fq q2) (Fq q4)] ∧ s'.mono = true := by
  have l13 := C15.lexLt_trans l12 l23
  have l24 := C15.lexLt_trans l23 l34
  have l14 := C15.lexLt_trans l13 l34
  have w12 := lexLt_le l12
  have w23 := lexLt_le l23
  have w34 := lexLt_le l34
  have x14 : q1.1 < q4.1 := lt_of_lt_of_le x13 w34
  have w13 := x13.le
  have w24 := x24.le
  have w14 := x14.le
  exact flowV_Zab ori V i1 i2 i3 i4 (Fq q1) (Fq q2) (Fq q3) (Fq q4) h1 h2 h3 h4
    (ord4L_fin q1 q2 q3 q4 l12 l23 l34)
    (cmpEL_fanL0_lt q1 q4 q3 (by lx) (by lx) (by osgn))
    (cmpEL_fanL0_gt q1 q3 q4 (by lx) (by lx) (by osgn))
    (cmpEL_fanL0_lt q2 q3 q4 (by lx) (by lx) (by osgn))
    (cmpEL_fanL0_gt q2 q4 q3 (by lx) (by lx) (by osgn))
    (cmpEL_ptKey_gt q2 q3 q1 q4 (by lx) (by xs) (by xw) (by xw) (by osgn) (fun _ _ => by osgn))
    (cmpEL_ptKey_gt q2 q3 q1 q3 (by lx) (by xs) (by xw) (by xw) (by osgn) (fun _ h => absurd rfl h))
    (cmpEL_ptKey_gt q2 q4 q1 q4 (by lx) (by xs) (by xw) (by xw) (by osgn) (fun _ h => absurd rfl h))
    (cmpEL_ptKey_gt q2 q4 q1 q3 (by lx) (by xs) (by xw) (by xw) (by osgn) (fun h _ => absurd h (ne_of_lt (by xs))))
    (cmpEL_fanL_gt q1 q3 q4 q2.1 (by xw) (by xw) (by xw) (by lx) (by lx) (by osgn))
    (ofGeL_true q1 q2 q3 (by lx) (by lx) (by osgn))
    (cmpEL_ptOther_lt q1 q3 q2 q3 (by xs) (by lx) (by xw) (by xw) (by osgn) (fun _ => rfl))
    (cmpEL_ptOther_lt q1 q3 q2 q4 (by xs) (by lx) (by xw) (by xw) (by osgn) (fun h => absurd h (ne_of_lt (by xs))))
    (ofGeL_true q1 q2 q4 (by lx) (by lx) (by osgn))
    (cmpEL_fanR_lt q1 q2 q4 q3.1 (by xw) (by xw) (by xw) (by xs) (by xs) (by osgn))
    (cw_c q3 q2 q4 (by osgn))
    (cw_c q1 q3 q4 (by osgn))
    ((vcP_cons q2 q3 _ _ (nb_sameSide q2 q3 q1 q4 (by xs) (by xw) (by xw) (Or.inl ⟨by osgn, by osgn⟩)) (vcP_cons q2 q3 _ _ (nb_endsAt q2 q3 q1 (by xs)) (vcP_nil _ _))))
    (vcP_nonvert q2 q4 _ (by xs))
    (wobP_sameR q2 q1 q3 (by lx) (by lx))
    (wotP_sameR q1 q2 q4 (by lx) (by lx))

theorem runV_Zbe (ori : Bool) (V : Array (Vtx XQ)) (i1 i2 i3 i4 : Nat) (q1 q2 q3 q4 : Rat × Rat)
    (h1 : V[i1]? = some ⟨Fq q1, (nb ori i4 i3).1, (nb ori i4 i3).2⟩)
    (h2 : V[i2]? = some ⟨Fq q2, (nb ori i3 i4).1, (nb ori i3 i4).2⟩)
    (h3 : V[i3]? = some ⟨Fq q3, (nb ori i1 i2).1, (nb ori i1 i2).2⟩)
    (h4 : V[i4]? = some ⟨Fq q4, (nb ori i2 i1).1, (nb ori i2 i1).2⟩)
    (l12 : lexLt q1 q2) (l23 : lexLt q2 q3) (l34 : lexLt q3 q4) (x13 : q1.1 < q3.1) (x24 : q2.1 < q4.1)
    (s134 : 0 < orient q1 q3 q4) (s123 : 0 < orient q1 q2 q3) (s234 : orient q2 q3 q4 < 0) (s124 : 0 < orient q1 q2 q4) :
    ∃ s', Runs (stQ V [(i1, []), (i2, [])]) (.ok ((), s')) (loop 5) ∧
      s'.out = [sort3 (Fq q2) (Fq q3) (Fq q4), sort3 (Fq q3) (Fq q1) (Fq q4)] ∧ s'.mono = true := by
  have l13 := C15.lexLt_trans l12 l23
  have l24 := C15.lexLt_trans l23 l34
  have l14 := C15.lexLt_trans l13 l34
  have w12 := lexLt_le l12
  have w23 := lexLt_le l23
  have w34 := lexLt_le l34
  have x14 : q1.1 < q4.1 := lt_of_lt_of_le x13 w34
  have w13 := x13.le
  have w24 := x24.le
  have w14 := x14.le
  exact flowV_Zbe ori V i1 i2 i3 i4 (Fq q1) (Fq q2) (Fq q3) (Fq q4) h1 h2 h3 h4
    (ord4L_fin q1 q2 q3 q4 l12 l23 l34)
    (cmpEL_fanL0_lt q1 q3 q4 (by lx) (by lx) (by osgn))
    (cmpEL_fanL0_gt q1 q4 q3 (by lx) (by lx) (by osgn))
    (cmpEL_fanL0_lt q2 q4 q3 (by lx) (by lx) (by osgn))
    (cmpEL_fanL0_gt q2 q3 q4 (by lx) (by lx) (by osgn))
    (cmpEL_ptKey_lt q2 q4 q1 q3 (by lx) (by xs) (by xw) (by xw) (by osgn) (fun h _ => absurd h (ne_of_lt (by xs))))
    (cmpEL_ptKey_lt q2 q4 q1 q4 (by lx) (by xs) (by xw) (by xw) (by osgn) (fun _ h => absurd rfl h))
    (cmpEL_ptKey_lt q2 q3 q1 q3 (by lx) (by xs) (by xw) (by xw) (by osgn) (fun _ h => absurd rfl h))
    (cmpEL_ptKey_lt q2 q3 q1 q4 (by lx) (by xs) (by xw) (by xw) (by osgn) (fun _ _ => by osgn))
    (ofGeL_false q1 q2 q3 (by lx) (by lx) (by osgn))
    (cmpEL_ptOther_gt q1 q3 q2 q4 (by xs) (by lx) (by xw) (by xw) (by osgn) (fun h => absurd h (ne_of_lt (by xs))))
    (cmpEL_fanL_lt q1 q3 q4 q2.1 (by xw) (by xw) (by xw) (by lx) (by lx) (by osgn))
    (ofGeL_false q1 q2 q4 (by lx) (by lx) (by osgn))
    (cmpEL_fanR_lt q2 q1 q4 q3.1 (by xw) (by xw) (by xw) (by xs) (by xs) (by osgn))
    (cw_c q3 q1 q4 (by osgn))
    (cw_c q2 q3 q4 (by osgn))
    (vcP_nonvert q2 q4 _ (by xs))
    ((vcP_cons q2 q3 _ _ (nb_endsAt q2 q3 q1 (by xs)) (vcP_cons q2 q3 _ _ (nb_sameSide q2 q3 q1 q4 (by xs) (by xw) (by xw) (Or.inr ⟨by osgn, by osgn⟩)) (vcP_nil _ _))))
    (wotP_sameR q2 q1 q3 (by lx) (by lx))
    (wotP_sameR q2 q1 q4 (by lx) (by lx))
end Cav.QuadVFlows
