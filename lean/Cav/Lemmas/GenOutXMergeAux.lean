/-
  Output of the sweep on general valid input: **the merging End event keeps the strengthened
  invariant**.  Two in-intervals `iv1` (below) and `iv2` (above) are neighbours in the active list,
  the upper edge of `iv1` and the lower edge of `iv2` end at the vertex `w`.  The two back-chains
  are joined through a new node carrying the point of `w`; the new node sees, backward, the upper
  part of the lower chain up to its rightmost node and, forward, the lower part of the upper chain
  up to its rightmost node; the two maximal fans stop in the far parts.  One in-interval less, one
  node more, two chains joined: the count grows by two, the area by the doubled signed areas under
  the two finished edges.
-/
import Cav.Lemmas.GenOutXBend
import Cav.Lemmas.GenOutStepEnd
import Cav.Lemmas.GenOutHeap2

set_option linter.unusedVariables false
set_option linter.unusedSimpArgs false

namespace Cav.GenOutXEnd
open Cav Num Cav.Geo Cav.Sweep Cav.TriRun Cav.QuadRun Cav.QuadGeom Cav.SweepOut Cav.CvxEvents Cav.CvxLoop
open Cav.CvxHeap Cav.GenNodes Cav.GenInv Cav.GenQueue Cav.MonoGeom Cav.MonoHeap Cav.MonoFan Cav.GenOutShape
open Cav.GenOutDefs Cav.GenLinks Cav.GenOrder Cav.GenOutInv Cav.GenOutCount Cav.GenOutAux
open Cav.GenOutStepAux Cav.GenOutFan Cav.GenOutBend Cav.GenOutEnd Cav.GenOutHeap Cav.GenStepBend
open Cav.GenOutXBend
open Cav.GenGeom hiding Q

variable {R : RingQ}

/-! ### runs -/

/-- two successful runs of the same program from the same state end in the same state -/
theorem run_state_inj {β : Type} {s1 sA sB : St XQ} {m : SM XQ β} {a b : β}
    (h1 : m.run s1 = .ok (a, sA)) (h2 : m.run s1 = .ok (b, sB)) : sA = sB := by
  rw [h1] at h2
  simp only [Except.ok.injEq, Prod.mk.injEq] at h2
  exact h2.2

/-! ### lists -/

/-- `Nodup` after replacing the indices of two neighbouring chains by a fresh index between a
    sublist of the first and a sublist of the second -/
theorem nodup_replace2 {A B old1 old2 sub1 sub2 : List Nat} {n : Nat}
    (h : (A ++ (old1 ++ (old2 ++ B))).Nodup) (h1 : sub1.Sublist old1) (h2 : sub2.Sublist old2)
    (hn : ∀ k ∈ A ++ (old1 ++ (old2 ++ B)), k ≠ n) : (A ++ ((sub1 ++ n :: sub2) ++ B)).Nodup := by
  have hs : (A ++ (sub1 ++ (sub2 ++ B))).Sublist (A ++ (old1 ++ (old2 ++ B))) :=
    List.Sublist.append (List.Sublist.refl A)
      (List.Sublist.append h1 (List.Sublist.append h2 (List.Sublist.refl B)))
  have hnd : (A ++ (sub1 ++ (sub2 ++ B))).Nodup := h.sublist hs
  have e : A ++ ((sub1 ++ n :: sub2) ++ B) = (A ++ sub1) ++ n :: (sub2 ++ B) := by simp
  rw [e]
  apply List.nodup_middle.mpr
  rw [List.nodup_cons]
  refine ⟨?_, by simpa using hnd⟩
  intro hm
  have : n ∈ A ++ (sub1 ++ (sub2 ++ B)) := by simpa using hm
  exact hn n (hs.subset this) rfl

/-- the node indices of two neighbouring chains -/
theorem nd_pair {G : Nat → CH} {pre post : List IV} {iv1 iv2 : IV}
    (h : (idxs G (pre ++ iv1 :: iv2 :: post)).Nodup) :
    ((G iv1.ci).l.map Prod.fst ++ (G iv2.ci).l.map Prod.fst).Nodup := by
  rw [idxs_append, idxs_cons, idxs_cons, List.nodup_append] at h
  obtain ⟨-, h2, -⟩ := h
  rw [← List.append_assoc, List.nodup_append] at h2
  exact h2.1

/-- the node indices of the other chains -/
theorem nd_disj2 {G : Nat → CH} {pre post : List IV} {iv1 iv2 : IV}
    (h : (idxs G (pre ++ iv1 :: iv2 :: post)).Nodup) :
    ∀ j ∈ pre ++ post, ∀ x ∈ (G j.ci).l, ∀ y ∈ (G iv1.ci).l ++ (G iv2.ci).l, x.1 ≠ y.1 := by
  have e : pre ++ iv1 :: iv2 :: post = (pre ++ [iv1]) ++ iv2 :: post := by simp
  have h' : (idxs G ((pre ++ [iv1]) ++ iv2 :: post)).Nodup := by rw [← e]; exact h
  intro j hj x hx y hy
  rcases List.mem_append.mp hy with hy | hy
  · refine nd_disj h j ?_ x hx y hy
    rcases List.mem_append.mp hj with hj | hj
    · exact List.mem_append_left _ hj
    · exact List.mem_append_right _ (List.mem_cons_of_mem _ hj)
  · refine nd_disj h' j ?_ x hx y hy
    rcases List.mem_append.mp hj with hj | hj
    · exact List.mem_append_left _ (List.mem_append_left _ hj)
    · exact List.mem_append_right _ hj

/-! ### geometry at an End vertex -/

/-- the right end `w` of an edge `b` that lies above `a` is strictly above `a`, if `a` goes on -/
theorem pt_above_end (hN : NoCross R) {xs : Rat} {a b : AE} {w : Nat} (ha : Span R xs a)
    (hb : Span R xs b) (hab : Below R xs a b) (hbr : b.rv = w) (hlt : R.x w < R.x a.rv) :
    0 < orient (R.pt a.lv) (R.pt a.rv) (R.pt w) := by
  have hxs : xs < R.x w := by have := hb.gt; rwa [hbr] at this
  have hne : ¬ (a.lv = b.lv ∧ a.rv = b.rv) := by
    rintro ⟨-, e⟩
    rw [e, hbr] at hlt
    exact lt_irrefl _ hlt
  rcases advance hN ha hb hab hne hxs (le_of_lt hlt) (by rw [hbr]) with h | ⟨e, -⟩
  · apply orient_pos_of_above _ _ _ ha.lt
    have hbl := hb.lt
    have e2 : hY R b (R.x w) = (R.pt w).2 := by
      show lineY (R.pt b.lv) (R.pt b.rv) (R.pt w).1 = _
      rw [hbr] at hbl ⊢
      exact lineY_right _ _ hbl
    rw [e2] at h
    exact h
  · rw [e] at hlt
    exact absurd hlt (lt_irrefl _)

/-- the right end `w` of an edge `a` that lies below `b` is strictly below `b`, if `b` goes on -/
theorem pt_below_end (hN : NoCross R) {xs : Rat} {a b : AE} {w : Nat} (ha : Span R xs a)
    (hb : Span R xs b) (hab : Below R xs a b) (har : a.rv = w) (hlt : R.x w < R.x b.rv) :
    orient (R.pt b.lv) (R.pt b.rv) (R.pt w) < 0 := by
  have hxs : xs < R.x w := by have := ha.gt; rwa [har] at this
  have hne : ¬ (a.lv = b.lv ∧ a.rv = b.rv) := by
    rintro ⟨-, e⟩
    rw [← e, har] at hlt
    exact lt_irrefl _ hlt
  rcases advance hN ha hb hab hne hxs (by rw [har]) (le_of_lt hlt) with h | ⟨e, e2⟩
  · apply orient_neg_of_below _ _ _ hb.lt
    have hal := ha.lt
    have e2 : hY R a (R.x w) = (R.pt w).2 := by
      show lineY (R.pt a.lv) (R.pt a.rv) (R.pt w).1 = _
      rw [har] at hal ⊢
      exact lineY_right _ _ hal
    rw [e2] at h
    exact h
  · rw [← e2, har] at hlt
    exact absurd hlt (lt_irrefl _)

/-- the two ring neighbours of an End vertex are the left ends of the two ending edges -/
theorem end_nb {V : Array (Vtx XQ)} (hR : RingOK R V) {xs : Rat} {a b : AE} {w : Nat}
    (ha : Span R xs a) (hb : Span R xs b) (har : a.rv = w) (hbr : b.rv = w) (hne : a.lv ≠ b.lv) :
    (R.prv w = a.lv ∧ R.nxt w = b.lv) ∨ (R.prv w = b.lv ∧ R.nxt w = a.lv) := by
  have h1 := adj_cases (adj_symm hR ha.lv_lt ha.adj)
  have h2 := adj_cases (adj_symm hR hb.lv_lt hb.adj)
  rw [har] at h1
  rw [hbr] at h2
  rcases h1 with h1 | h1 <;> rcases h2 with h2 | h2
  · exact absurd (h1.trans h2.symm) hne
  · exact Or.inr ⟨h2.symm, h1.symm⟩
  · exact Or.inl ⟨h1.symm, h2.symm⟩
  · exact absurd (h1.trans h2.symm) hne

/-- coherence at an End vertex -/
theorem coh_endM {w uB uT : Nat} (hnb : (R.prv w = uB ∧ R.nxt w = uT) ∨ (R.prv w = uT ∧ R.nxt w = uB))
    (hxB : R.x uB < R.x w) (hxT : R.x uT < R.x w) (hB : ¬ isLo R uB w) (hT : isLo R uT w) :
    Coh R w := by
  unfold Coh
  rcases hnb with ⟨e1, e2⟩ | ⟨e1, e2⟩
  · rw [e1, e2, if_pos hxB, if_neg (not_lt.mpr (le_of_lt hxT))]
    exact ⟨fun h => absurd h hB, fun h => absurd hT h⟩
  · rw [e1, e2, if_pos hxT, if_neg (not_lt.mpr (le_of_lt hxB))]
    exact ⟨fun _ => hB, fun _ => hT⟩

/-- the two finished edges in `wDone` at an End vertex -/
theorem wDone_endM {V : Array (Vtx XQ)} (hR : RingOK R V) {xs : Rat} {w uB uT : Nat} (hw : w < R.n)
    (hxs : xs < R.x w) (hgap : ∀ v, v < R.n → xs < R.x v → R.x w ≤ R.x v)
    (hnb : (R.prv w = uB ∧ R.nxt w = uT) ∨ (R.prv w = uT ∧ R.nxt w = uB))
    (hxB : R.x uB < R.x w) (hxT : R.x uT < R.x w) :
    wDone R (R.x w) = wDone R xs + eSigned R uB w + eSigned R uT w := by
  rw [wDone_step hR hw hxs hgap]
  rcases hnb with ⟨e1, e2⟩ | ⟨e1, e2⟩
  · rw [e1, e2, if_pos hxB, if_pos hxT]
  · rw [e1, e2, if_pos hxB, if_pos hxT]; ring

/-! ### the area of the merged chain -/

theorem pathSum_cons_head (p h : Q) : ∀ (L : List Q), L.head? = some h →
    pathSum (p :: L) = cross p h + pathSum L
  | [], hh => by cases hh
  | [a], hh => by
    simp only [List.head?_cons, Option.some.injEq] at hh
    subst hh
    simp [pathSum]
  | a :: b :: r, hh => by
    simp only [List.head?_cons, Option.some.injEq] at hh
    subst hh
    simp [pathSum]

/-- the path of the merged chain: `L1` (head to tail, read backward from its tail `uB`) and `L2`
    (read forward from its head `uT`), the fans `M1 ++ [g1]`, `M2 ++ [g2]` cut off by the apex `p` -/
theorem merge_acct (p uB uT : Q) (M1 : List Q) (g1 : Q) (r1 : List Q) (M2 : List Q) (g2 : Q)
    (r2 : List Q) (L1 L2 : List Q)
    (h1 : L1.reverse = M1 ++ g1 :: r1) (hh1 : L1.reverse.head? = some uB)
    (h2 : L2 = M2 ++ g2 :: r2) (hh2 : L2.head? = some uT) :
    pathSum (r1.reverse ++ g1 :: p :: g2 :: r2) =
      pathSum L1 + pathSum L2 + orientSum p (M1 ++ [g1]) - orientSum p (M2 ++ [g2])
        - cross p uB + cross p uT := by
  have hv1 := view_acct p M1 g1 r1
  have hv2 := view_acct p M2 g2 r2
  rw [← h1, pathSum_cons_head p uB _ hh1, pathSum_reverse] at hv1
  rw [← h2, pathSum_cons_head p uT _ hh2] at hv2
  have e1 : r1.reverse ++ g1 :: p :: g2 :: r2 = (r1.reverse ++ [g1]) ++ p :: (g2 :: r2) := by simp
  have e2 : (r1.reverse ++ [g1]) ++ [p] = (p :: g1 :: r1).reverse := by simp
  rw [e1, pathSum_append, e2, pathSum_reverse]
  linarith

end Cav.GenOutXEnd
