/-
  Output of the sweep on general valid input, part 5: bookkeeping lemmas shared by the event steps
  of the strengthened invariant (disjointness of the chains, the untouched in-intervals, sums).
-/
import Cav.Lemmas.GenOutAux

set_option linter.unusedVariables false
set_option linter.unusedSimpArgs false

namespace Cav.GenOutStepAux
open Cav Num Cav.Geo Cav.Sweep Cav.TriRun Cav.QuadRun Cav.QuadGeom Cav.SweepOut Cav.CvxEvents Cav.CvxLoop
open Cav.GenNodes Cav.GenInv Cav.MonoGeom Cav.MonoHeap Cav.MonoFan Cav.GenOutShape
open Cav.GenOutDefs Cav.GenLinks Cav.GenOrder Cav.GenOutInv Cav.GenOutCount Cav.GenOutAux
open Cav.GenGeom hiding Q

variable {R : RingQ}

/-! ### chain ids and node indices of different in-intervals -/

theorem ci_ne_mid {pre post : List IV} {iv : IV} (h : ((pre ++ iv :: post).map (·.ci)).Nodup) :
    ∀ j ∈ pre ++ post, j.ci ≠ iv.ci := by
  rw [List.map_append, List.map_cons, List.nodup_append] at h
  obtain ⟨-, h2, h3⟩ := h
  rw [List.nodup_cons] at h2
  intro j hj e
  rcases List.mem_append.mp hj with hj | hj
  · exact h3 _ (List.mem_map_of_mem hj) _ List.mem_cons_self e
  · exact h2.1 (by rw [← e]; exact List.mem_map_of_mem hj)

theorem nd_self {G : Nat → CH} {pre post : List IV} {iv : IV} (h : (idxs G (pre ++ iv :: post)).Nodup) :
    ((G iv.ci).l.map Prod.fst).Nodup := by
  rw [idxs_append, idxs_cons, List.nodup_append] at h
  obtain ⟨-, h2, -⟩ := h
  rw [List.nodup_append] at h2
  exact h2.1

theorem nd_disj {G : Nat → CH} {pre post : List IV} {iv : IV} (h : (idxs G (pre ++ iv :: post)).Nodup) :
    ∀ j ∈ pre ++ post, ∀ x ∈ (G j.ci).l, ∀ y ∈ (G iv.ci).l, x.1 ≠ y.1 := by
  rw [idxs_append, idxs_cons, List.nodup_append] at h
  obtain ⟨-, h2, h3⟩ := h
  rw [List.nodup_append] at h2
  obtain ⟨-, -, h4⟩ := h2
  intro j hj x hx y hy e
  have hy' : y.1 ∈ (G iv.ci).l.map Prod.fst := List.mem_map_of_mem hy
  rcases List.mem_append.mp hj with hj | hj
  · have hx' : x.1 ∈ idxs G pre := mem_idxs.mpr ⟨j, hj, x, hx, rfl⟩
    exact h3 _ hx' _ (List.mem_append_left _ hy') e
  · have hx' : x.1 ∈ idxs G post := mem_idxs.mpr ⟨j, hj, x, hx, rfl⟩
    exact h4 _ hy' _ hx' e.symm

/-- the indices of a chain are below the size of the node heap, hence different from it -/
theorem idx_ne_size {s : St XQ} {xs : Rat} {ivs : List IV} {G : Nat → CH} (h : XInv R s xs ivs G) :
    ∀ k ∈ idxs G ivs, k ≠ s.nodes.size := fun k hk => Nat.ne_of_lt (h.idx_lt k hk)

/-- the last elements of a list and of a suffix of it -/
theorem lastD_suffix {β : Type} {m g : β} {Y dr rest : List β} (h : m :: Y = dr ++ g :: rest) :
    lastD m Y = lastD g rest := by
  have h1 := getLast?_cons_lastD m Y
  have h2 := getLast?_cons_lastD g rest
  rw [h, List.getLast?_append, h2] at h1
  simpa using h1.symm

/-- the part of the chain that survives a fan is a sublist -/
theorem sub_of_split {β : Type} {l mid rest : List β} {g : β} (h : l = mid ++ g :: rest) :
    (g :: rest).Sublist l := by
  rw [h]; exact List.sublist_append_right _ _

/-! ### the untouched in-intervals -/

/-- an in-interval whose chain cell, description and node cells are untouched -/
theorem other_ok {s s' : St XQ} {xs xs' : Rat} {ivs : List IV} {G G' : Nat → CH}
    (hX : XInv R s xs ivs G) (hx : xs ≤ xs') {j : IV} (hj : j ∈ ivs) (hG : G' j.ci = G j.ci)
    (hch : s'.chains[j.ci]? = s.chains[j.ci]?)
    (hfr : ∀ x ∈ (G j.ci).l, s'.nodes[x.1]? = s.nodes[x.1]?) : ChainOK R s' xs' j (G' j.ci) := by
  rw [hG]
  exact (hX.ok j hj).transfer hch hfr hx

/-- coherence of the vertices processed so far after an event at `w` -/
theorem coh_step {V : Array (Vtx XQ)} (hR : RingOK R V) {xs : Rat} {w : Nat} (hw : w < R.n)
    (hxs : xs < R.x w) (hgap : ∀ v, v < R.n → xs < R.x v → R.x w ≤ R.x v)
    (hold : ∀ v, v < R.n → R.x v ≤ xs → Coh R v) (hnew : Coh R w) :
    ∀ v, v < R.n → R.x v ≤ R.x w → Coh R v := by
  intro v hv hle
  by_cases e : v = w
  · rw [e]; exact hnew
  · exact hold v hv ((le_iff_of_gap hR hw hxs hgap hv e).mp hle)

end Cav.GenOutStepAux
