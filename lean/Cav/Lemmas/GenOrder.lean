/-
  General sweep invariant, part 7 (the vertical order of the active edges): neighbouring edges of
  a valid input keep their order up to the next event (`advance`); the comparator of the model
  read at the sweep abscissa agrees with the order (`cmp_of_below`).
-/
import Cav.Lemmas.GenQueue

set_option linter.unusedSimpArgs false
set_option linter.unusedVariables false

namespace Cav.GenOrder
open Cav Num Cav.Geo Cav.Sweep Cav.TriRun Cav.QuadRun Cav.QuadGeom Cav.CvxFlows
open Cav.GenQuery Cav.GenGeom Cav.GenInv Cav.GenQueue

variable {R : RingQ} {V : Array (Vtx XQ)}

/-- height of an edge at abscissa `x` -/
abbrev hY (R : RingQ) (a : AE) (x : Rat) : Rat := lineY (R.pt a.lv) (R.pt a.rv) x

theorem _root_.Cav.GenInv.Span.lt {xs : Rat} {a : AE} (h : Span R xs a) : (R.pt a.lv).1 < (R.pt a.rv).1 :=
  lt_of_le_of_lt h.le h.gt

theorem below_irrefl (xs : Rat) (a : AE) : ¬ Below R xs a a := by
  rintro (h | ⟨-, -, h⟩)
  · exact lt_irrefl _ h
  · have : orient (R.pt a.lv) (R.pt a.rv) (R.pt a.rv) = 0 := by unfold orient; ring
    rw [this] at h; exact lt_irrefl _ h

/-- **neighbouring edges do not cross before the next event**: two different active edges, the
    first below the second at `xs`, both reaching `x' > xs`: the first is strictly below the
    second at `x'`, unless both end there in the same vertex -/
theorem advance (hN : NoCross R) {xs x' : Rat} {a b : AE} (ha : Span R xs a) (hb : Span R xs b)
    (hab : Below R xs a b) (hne : ¬ (a.lv = b.lv ∧ a.rv = b.rv)) (hx : xs < x')
    (hxa : x' ≤ R.x a.rv) (hxb : x' ≤ R.x b.rv) :
    hY R a x' < hY R b x' ∨ (x' = R.x a.rv ∧ a.rv = b.rv) := by
  rcases hab with hlt | ⟨h1, h2, h3⟩
  · by_cases hs : hY R a x' < hY R b x'
    · exact Or.inl hs
    · right
      obtain ⟨x, hx0, hx1, he⟩ := nc_meet _ _ _ _ ha.lt hb.lt xs x' (le_of_lt hx) hlt hs
      have hua : R.x a.lv ≤ x := le_trans ha.le (le_of_lt hx0)
      have hub : R.x b.lv ≤ x := le_trans hb.le (le_of_lt hx0)
      rcases hN a.lv a.rv b.lv b.rv ha.lv_lt ha.rv_lt hb.lv_lt hb.rv_lt ha.adj hb.adj ha.lt hb.lt hne x hua hub
        (le_trans hx1 hxa) (le_trans hx1 hxb) he with ⟨e, -⟩ | ⟨e, e2⟩ | e | e
      · exact absurd (lt_of_le_of_lt ha.le hx0) (by rw [e]; exact lt_irrefl _)
      · refine ⟨le_antisymm hxa ?_, e2⟩
        rw [← e]; exact hx1
      · exfalso
        have h1 : R.x a.rv ≤ xs := by rw [e]; exact hb.le
        exact absurd ha.gt (not_lt.mpr h1)
      · exfalso
        have h1 : R.x b.rv ≤ xs := by rw [← e]; exact ha.le
        exact absurd hb.gt (not_lt.mpr h1)
  · left
    show lineY (R.pt a.lv) (R.pt a.rv) x' < lineY (R.pt b.lv) (R.pt b.rv) x'
    rw [← h1]
    have hbl : (R.pt a.lv).1 < (R.pt b.rv).1 := by have := hb.lt; rw [← h1] at this; exact this
    exact fan_lt _ _ _ ha.lt hbl x' (by show R.x a.lv < x'; rw [h2]; exact hx) h3

/-- the comparator of the model at the sweep abscissa: `a` below `b` -/
theorem cmp_of_below {xs : Rat} {a b : AE} (ha : Span R xs a) (hb : Span R xs b)
    (hab : Below R xs a b) :
    cmpEdgeP (Fq (R.pt a.lv)) (Fq (R.pt a.rv)) (Fq (R.pt b.lv)) (Fq (R.pt b.rv)) (.fin xs) = .lt ∧
    cmpEdgeP (Fq (R.pt b.lv)) (Fq (R.pt b.rv)) (Fq (R.pt a.lv)) (Fq (R.pt a.rv)) (.fin xs) = .gt := by
  have hax : R.x a.lv ≤ xs ∧ xs < R.x a.rv := ⟨ha.le, ha.gt⟩
  have hbx : R.x b.lv ≤ xs ∧ xs < R.x b.rv := ⟨hb.le, hb.gt⟩
  rcases hab with hlt | ⟨h1, h2, h3⟩
  · exact ⟨cmpE_lt _ _ _ _ xs ha.lt hb.lt hax.1 (le_of_lt hax.2) hbx.1 (le_of_lt hbx.2) hlt,
      cmpE_gt _ _ _ _ xs hb.lt ha.lt hbx.1 (le_of_lt hbx.2) hax.1 (le_of_lt hax.2) hlt⟩
  · have hbl : (R.pt a.lv).1 < (R.pt b.rv).1 := by have := hb.lt; rw [← h1] at this; exact this
    have e : xs = (R.pt a.lv).1 := h2.symm
    rw [← h1, e]
    refine ⟨cmpE_fanL0_lt _ _ _ ha.lt hbl h3, cmpE_fanL0_gt _ _ _ hbl ha.lt ?_⟩
    have := orient_swap (R.pt a.lv) (R.pt a.rv) (R.pt b.rv)
    linarith

/-- a strict order of heights is `Below` -/
theorem below_of_lt {x : Rat} {a b : AE} (h : hY R a x < hY R b x) : Below R x a b := Or.inl h

end Cav.GenOrder
