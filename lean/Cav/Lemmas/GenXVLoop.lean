/-
  Failure side with equal abscissae, part 9: every event under `XInvV` succeeds with `XInvV` or
  stops with `.overlap` at its vertex (`xstepV`); two active edges of the sheared ring do not meet
  before the next event (`no_meetV`); hence the event loop runs to the end or stops with
  `.overlap` (`xloopV_total`), and on an input whose sheared ring has two edges that meet strictly
  inside their abscissa ranges it stops with `.overlap` before the meeting point (`xloopV`).
-/
import Cav.Lemmas.GenXVStepStart
import Cav.Lemmas.GenXLoop

set_option linter.unusedSimpArgs false
set_option linter.unusedVariables false

namespace Cav.GenXV
open Cav Num Cav.Geo Cav.Sweep Cav.TriRun Cav.QuadRun Cav.QuadGeom Cav.SweepOut Cav.TriEvents
open Cav.GenGeom Cav.GenInv Cav.GenQueue Cav.GenOrder Cav.GenStepBend Cav.GenStepEnd Cav.GenLoop
open Cav.GenValid Cav.GenVShear Cav.GenVBridge Cav.GenVInv Cav.GenXGeom Cav.GenXStep Cav.GenXLoop

variable {R : RingQ} {ε : Rat} {Vε : Array (Vtx XQ)}

/-- **every event: success with `XInvV`, or `.overlap` at the vertex of the event** -/
theorem xstepV (hSh : ShX R ε Vε) {s : St XQ} {xs X : Rat} {ivs : List IV}
    (hX : XInvV R ε s xs X ivs) {w : Nat} {es : List Nat} {rest : List (Nat × List Nat)}
    (hev : s.events = (w, es) :: rest) :
    (∃ s', (handleNext : SM XQ Unit).run s = .ok ((), s') ∧
      ∃ ivs', XInvV R ε s' ((shearRing ε R).x w) (R.x w) ivs') ∨
      ∃ k, (handleNext : SM XQ Unit).run s = .error (.overlap k (Fq (R.pt w))) := by
  have hI := hX.inv
  have hR := hSh.ring
  have hq := hI.q
  rw [hev] at hq
  have hwn : w < R.n := (hq.gt (w, es) List.mem_cons_self).1
  have hpn := hR.prv_lt w hwn
  have hnn := hR.nxt_lt w hwn
  have hp : (shearRing ε R).x (R.prv w) ≠ (shearRing ε R).x w := by
    intro e
    have e' := hR.distinct _ _ hpn hwn e
    have h1 := hR.nxt_prv w hwn
    rw [e'] at h1
    exact hR.ne w hwn (e'.trans h1.symm)
  have hn : (shearRing ε R).x (R.nxt w) ≠ (shearRing ε R).x w := by
    intro e
    have e' := hR.distinct _ _ hnn hwn e
    have h1 := hR.prv_nxt w hwn
    rw [e'] at h1
    exact hR.ne w hwn (h1.trans e'.symm)
  rcases lt_or_gt_of_ne hp with h0 | h0 <;> rcases lt_or_gt_of_ne hn with h1 | h1
  · exact xstepV_end hSh hX hev h0 h1
  · exact xstepV_bend hSh hX hev (Or.inl ⟨rfl, rfl⟩) h0 h1
  · exact xstepV_bend hSh hX hev (Or.inr ⟨rfl, rfl⟩) h1 h0
  · have hsp : orient ((shearRing ε R).pt (R.prv w)) ((shearRing ε R).pt w) ((shearRing ε R).pt (R.nxt w)) ≠ 0 :=
      hSh.noSpike w hwn ⟨fun h => absurd h (not_lt.mpr (le_of_lt h0)),
        fun h => absurd h (not_lt.mpr (le_of_lt h1))⟩
    have e : orient ((shearRing ε R).pt w) ((shearRing ε R).pt (R.prv w)) ((shearRing ε R).pt (R.nxt w)) =
        - orient ((shearRing ε R).pt (R.prv w)) ((shearRing ε R).pt w) ((shearRing ε R).pt (R.nxt w)) := by
      unfold orient; ring
    have e2 : orient ((shearRing ε R).pt w) ((shearRing ε R).pt (R.nxt w)) ((shearRing ε R).pt (R.prv w)) =
        orient ((shearRing ε R).pt (R.prv w)) ((shearRing ε R).pt w) ((shearRing ε R).pt (R.nxt w)) := by
      unfold orient; ring
    rcases lt_or_gt_of_ne hsp with ho | ho
    · exact xstepV_start hSh hX hev (Or.inl ⟨rfl, rfl⟩) h0 h1 (by rw [e]; linarith)
    · exact xstepV_start hSh hX hev (Or.inr ⟨rfl, rfl⟩) h1 h0 (by rw [e2]; exact ho)

/-- **two active edges of the sheared ring do not meet before the next event** (at the abscissa
    of the next event only edges ending there in the same vertex) -/
theorem no_meetV {s : St XQ} {xs X : Rat} {ivs : List IV} (hX : XInvV R ε s xs X ivs)
    {w : Nat} {es : List Nat} {rest : List (Nat × List Nat)} (hev : s.events = (w, es) :: rest)
    {a b : AE} (ha : a ∈ flatE ivs) (hb : b ∈ flatE ivs) (hne : a ≠ b) {x' : Rat} (h1 : xs < x')
    (h2 : x' ≤ (shearRing ε R).x w)
    (he : hY (shearRing ε R) a x' = hY (shearRing ε R) b x') : a.rv = b.rv := by
  have hI := hX.inv
  have hq := hI.q
  rw [hev] at hq
  have hreach := reach_head hq
  have hH := heights_advance_T hI.span hI.sorted hX.tested h1
    (fun c hc => le_trans h2 (hreach c hc).1)
  have := pairwise_either hH ha hb hne
  rcases this with (h | ⟨-, h⟩) | (h | ⟨-, h⟩)
  · exact absurd he (ne_of_lt h)
  · exact h
  · exact absurd he.symm (ne_of_lt h)
  · exact h.symm

/-- **the event loop under `XInvV`: it runs to the end, or it stops with `.overlap`** -/
theorem xloopV_total (hSh : ShX R ε Vε) : ∀ (fuel : Nat) (s : St XQ) (xs X : Rat)
    (ivs : List IV), XInvV R ε s xs X ivs → meas (shearRing ε R) xs < fuel →
    (∃ s', (loop fuel).run s = .ok ((), s') ∧ s'.mono = true) ∨
      ∃ k z, z < R.n ∧ (loop fuel).run s = .error (.overlap k (Fq (R.pt z)))
  | 0, _, _, _, _, _, h => by omega
  | fuel + 1, s, xs, X, ivs, hX, hf => by
    rw [loop_succ_run]
    cases hev : s.events with
    | nil => exact Or.inl ⟨s, by simp, hX.inv.mono⟩
    | cons ev rest =>
      obtain ⟨w, es⟩ := ev
      have hq := hX.inv.q
      rw [hev] at hq
      have hwq := hq.gt (w, es) List.mem_cons_self
      rcases xstepV hSh hX hev with ⟨s1, hrun, ivs', hX'⟩ | ⟨k, hrun⟩
      · have hm : meas (shearRing ε R) ((shearRing ε R).x w) < meas (shearRing ε R) xs :=
          meas_lt hwq.1 hwq.2
        rcases xloopV_total hSh fuel s1 _ _ ivs' hX' (by omega) with ⟨s', hl, hmono⟩ | ⟨k, z, hz, hl⟩
        · refine Or.inl ⟨s', ?_, hmono⟩
          simp only [List.isEmpty_cons, Bool.false_eq_true, if_false, hrun]
          exact hl
        · refine Or.inr ⟨k, z, hz, ?_⟩
          simp only [List.isEmpty_cons, Bool.false_eq_true, if_false, hrun]
          exact hl
      · refine Or.inr ⟨k, w, hwq.1, ?_⟩
        simp only [List.isEmpty_cons, Bool.false_eq_true, if_false, hrun]

/-- **the event loop on crossing input**: from a state with `XInvV` whose (sheared) sweep line is to
    the left of the meeting point of two edges of the sheared ring, the loop ends with
    `.overlap k p`, `p` an input vertex whose sheared abscissa is smaller than that of the meeting
    point -/
theorem xloopV (hSh : ShX R ε Vε) {u v u' v' : Nat} {xm : Rat}
    (hM : MeetAt (shearRing ε R) u v u' v' xm) : ∀ (fuel : Nat) (s : St XQ) (xs X : Rat) (ivs : List IV),
    XInvV R ε s xs X ivs → meas (shearRing ε R) xs < fuel → xs < xm →
    ∃ k z, z < R.n ∧ (shearRing ε R).x z < xm ∧ (loop fuel).run s = .error (.overlap k (Fq (R.pt z)))
  | 0, _, _, _, _, _, h, _ => by omega
  | fuel + 1, s, xs, X, ivs, hX, hf, hxm => by
    have hI := hX.inv
    have hR := hSh.ring
    rw [loop_succ_run]
    cases hev : s.events with
    | nil =>
      exfalso
      have hq := hI.q
      rw [hev] at hq
      exact queue_nonempty hR hq hI.cross v hM.hv (lt_trans hxm hM.r1)
    | cons ev rest =>
      obtain ⟨w, es⟩ := ev
      have hq := hI.q
      rw [hev] at hq
      have hwq := hq.gt (w, es) List.mem_cons_self
      have hgap := no_gap hR hq hI.cross
      -- the next event lies to the left of the meeting point
      have hwx : (shearRing ε R).x w < xm := by
        by_contra hcon
        have hle : xm ≤ (shearRing ε R).x w := not_lt.mp hcon
        have hu1 : (shearRing ε R).x u ≤ xs := by
          by_contra h
          have := hgap u hM.hu (not_le.mp h)
          exact absurd (lt_of_lt_of_le hM.l1 hle) (not_lt.mpr this)
        have hu2 : (shearRing ε R).x u' ≤ xs := by
          by_contra h
          have := hgap u' hM.hu' (not_le.mp h)
          exact absurd (lt_of_lt_of_le hM.l2 hle) (not_lt.mpr this)
        obtain ⟨a, ha, a1, a2⟩ := hI.cross u v hM.hu hM.hv hM.adj hu1 (lt_trans hxm hM.r1)
        obtain ⟨b, hb, b1, b2⟩ := hI.cross u' v' hM.hu' hM.hv' hM.adj' hu2 (lt_trans hxm hM.r2)
        have hne : a ≠ b := by
          intro e
          rw [e] at a1
          exact hM.n1 (a1.symm.trans b1)
        have he : hY (shearRing ε R) a xm = hY (shearRing ε R) b xm := by
          show lineY ((shearRing ε R).pt a.lv) ((shearRing ε R).pt a.rv) xm =
            lineY ((shearRing ε R).pt b.lv) ((shearRing ε R).pt b.rv) xm
          rw [a1, a2, b1, b2]; exact hM.eq
        have := no_meetV hX hev ha hb hne hxm hle he
        rw [a2, b2] at this
        exact hM.n4 this
      rcases xstepV hSh hX hev with ⟨s1, hrun, ivs', hX'⟩ | ⟨k, hrun⟩
      · have hm : meas (shearRing ε R) ((shearRing ε R).x w) < meas (shearRing ε R) xs :=
          meas_lt hwq.1 hwq.2
        obtain ⟨k, z, hz, hzx, hl⟩ := xloopV hSh hM fuel s1 _ _ ivs' hX' (by omega) hwx
        refine ⟨k, z, hz, hzx, ?_⟩
        simp only [List.isEmpty_cons, Bool.false_eq_true, if_false, hrun]
        exact hl
      · refine ⟨k, w, hwq.1, hwx, ?_⟩
        simp only [List.isEmpty_cons, Bool.false_eq_true, if_false, hrun]

end Cav.GenXV
