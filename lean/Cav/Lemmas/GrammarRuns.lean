/-
  Maximal ASCII-letter runs of a string of the grammar (C17 part D, names): every run is a
  registered name in the right syntactic position, or part of a number token.
-/
import Cav.Lemmas.GrammarInv

namespace Cav.Grammar
open Cav

/-! ### maximal letter runs -/

/-- `w` is a maximal run of ASCII letters of `s`, between `pre` and `post` -/
def MaxRun (s pre w post : List Char) : Prop :=
  s = pre ++ w ++ post ∧ w ≠ [] ∧ (∀ c ∈ w, isAlpha c = true) ∧
  (∀ c, pre.getLast? = some c → isAlpha c = false) ∧ (∀ c, post.head? = some c → isAlpha c = false)

theorem getLast?_mem {l : List Char} {c : Char} (h : l.getLast? = some c) : c ∈ l :=
  List.mem_of_getLast? h

theorem head?_mem {l : List Char} {c : Char} (h : l.head? = some c) : c ∈ l :=
  List.mem_of_head? h

/-- a run does not straddle a boundary that has a non-letter on one side -/
theorem MaxRun.split {s1 s2 pre w post : List Char} (h : MaxRun (s1 ++ s2) pre w post)
    (hb : (∀ d, s1.getLast? = some d → isAlpha d = false) ∨ (∀ d, s2.head? = some d → isAlpha d = false)) :
    (∃ post1, MaxRun s1 pre w post1 ∧ post = post1 ++ s2) ∨
    (∃ pre2, MaxRun s2 pre2 w post ∧ pre = s1 ++ pre2) := by
  obtain ⟨hs, hne, hw, hpre, hpost⟩ := h
  rw [List.append_assoc, List.append_eq_append_iff] at hs
  rcases hs with ⟨as, rfl, rfl⟩ | ⟨bs, rfl, hs⟩
  · right
    refine ⟨as, ⟨by simp, hne, hw, ?_, hpost⟩, rfl⟩
    intro d hd
    exact hpre d (by simp [List.getLast?_append, hd])
  · rw [List.append_eq_append_iff] at hs
    rcases hs with ⟨cs, rfl, rfl⟩ | ⟨ds, rfl, rfl⟩
    · left
      refine ⟨cs, ⟨by simp, hne, hw, hpre, ?_⟩, rfl⟩
      intro d hd
      exact hpost d (by simp [List.head?_append, hd])
    · cases ds with
      | nil =>
        left
        exact ⟨[], ⟨by simp, by simpa using hne, by simpa using hw, hpre, by simp⟩, by simp⟩
      | cons x ds' =>
        cases hbs : bs.getLast? with
        | none =>
          have : bs = [] := by simpa using hbs
          subst this
          right
          exact ⟨[], ⟨by simp, by simp, by simpa using hw, by simp, hpost⟩, by simp⟩
        | some y =>
          exfalso
          have hx : isAlpha x = true := hw x (by simp)
          have hy : isAlpha y = true := hw y (by simp [getLast?_mem hbs])
          rcases hb with hb | hb
          · have := hb y (by simp [List.getLast?_append, hbs])
            rw [hy] at this; cases this
          · have := hb x (by simp)
            rw [hx] at this; cases this


/-- in an all-letter string the only maximal run is the string itself -/
theorem MaxRun.allAlpha {n pre w post : List Char} (hn : ∀ c ∈ n, isAlpha c = true)
    (h : MaxRun n pre w post) : pre = [] ∧ w = n ∧ post = [] := by
  obtain ⟨hs, hne, hw, hpre, hpost⟩ := h
  have hp : pre = [] := by
    cases hl : pre.getLast? with
    | none => simpa using hl
    | some d =>
      have := hpre d hl
      rw [hn d (by rw [hs]; simp [getLast?_mem hl])] at this; cases this
  have hq : post = [] := by
    cases hl : post.head? with
    | none => simpa using hl
    | some d =>
      have := hpost d hl
      rw [hn d (by rw [hs]; simp [head?_mem hl])] at this; cases this
  subst hp hq
  exact ⟨rfl, by simpa using hs.symm, rfl⟩

/-- a letter-free string has no run -/
theorem MaxRun.alphaFree {s pre w post : List Char} (hs : ∀ c ∈ s, isAlpha c = false)
    (h : MaxRun s pre w post) : False := by
  obtain ⟨rfl, hne, hw, -, -⟩ := h
  cases w with
  | nil => exact hne rfl
  | cons x t =>
    have h1 := hw x (by simp)
    have h2 := hs x (by simp)
    rw [h1] at h2; cases h2

/-- what a maximal letter run of a string of the language can be -/
def RunOK (ctx : Ctx) (pre w post : List Char) : Prop :=
  (ctx.get (String.ofList w) = some .uop ∧ post.head? = some '(') ∨
  ((ctx.get (String.ofList w) = some .const ∨ ∃ i, ctx.get (String.ofList w) = some (.var i)) ∧
    post.head? ≠ some '(') ∨
  ((w.map lower = ['n', 'a', 'n'] ∨ w.map lower = ['i', 'n', 'f']) ∧ post.head? ≠ some '(') ∨
  ((w = ['e'] ∨ w = ['E']) ∧ (∃ d, pre.getLast? = some d ∧ (isDigit d = true ∨ d = '.')) ∧
    (∃ d, post.head? = some d ∧ (isDigit d = true ∨ d = '+' ∨ d = '-')))

theorem RunOK.extR {ctx : Ctx} {pre w post1 s2 : List Char} (h : RunOK ctx pre w post1)
    (hlp : s2.head? ≠ some '(') : RunOK ctx pre w (post1 ++ s2) := by
  have hnl : post1.head? ≠ some '(' → (post1 ++ s2).head? ≠ some '(' := by
    intro h1
    cases post1 with
    | nil => simpa using hlp
    | cons d r => simpa using h1
  rcases h with ⟨h1, h2⟩ | ⟨h1, h2⟩ | ⟨h1, h2⟩ | ⟨h1, h2, d, hd, h3⟩
  · exact .inl ⟨h1, by simp [List.head?_append, h2]⟩
  · exact .inr (.inl ⟨h1, hnl h2⟩)
  · exact .inr (.inr (.inl ⟨h1, hnl h2⟩))
  · exact .inr (.inr (.inr ⟨h1, h2, d, by simp [List.head?_append, hd], h3⟩))

theorem RunOK.extL {ctx : Ctx} {s1 pre2 w post : List Char} (h : RunOK ctx pre2 w post) :
    RunOK ctx (s1 ++ pre2) w post := by
  rcases h with h | h | h | ⟨h1, ⟨d, hd, h2⟩, h3⟩
  · exact .inl h
  · exact .inr (.inl h)
  · exact .inr (.inr (.inl h))
  · exact .inr (.inr (.inr ⟨h1, ⟨d, by simp [List.getLast?_append, hd], h2⟩, h3⟩))

/-- every maximal letter run of `s` is explained -/
def Runs (ctx : Ctx) (s : List Char) : Prop := ∀ pre w post, MaxRun s pre w post → RunOK ctx pre w post

theorem Runs.alphaFree {ctx : Ctx} {s : List Char} (hs : ∀ c ∈ s, isAlpha c = false) : Runs ctx s :=
  fun _ _ _ h => (h.alphaFree hs).elim

theorem Runs.append {ctx : Ctx} {s1 s2 : List Char} (h1 : Runs ctx s1) (h2 : Runs ctx s2)
    (hb : (∀ d, s1.getLast? = some d → isAlpha d = false) ∨ (∀ d, s2.head? = some d → isAlpha d = false))
    (hlp : s2.head? ≠ some '(') : Runs ctx (s1 ++ s2) := by
  intro pre w post h
  rcases h.split hb with ⟨post1, hr, rfl⟩ | ⟨pre2, hr, rfl⟩
  · exact (h1 _ _ _ hr).extR hlp
  · exact (h2 _ _ _ hr).extL

theorem Runs.cons {ctx : Ctx} {c : Char} {s : List Char} (hc : isAlpha c = false) (h : Runs ctx s) :
    Runs ctx (c :: s) := by
  intro pre w post hr
  have hr' : MaxRun ([c] ++ s) pre w post := hr
  rcases hr'.split (.inl (by simp [hc])) with ⟨post1, hr1, rfl⟩ | ⟨pre2, hr2, rfl⟩
  · exact (hr1.alphaFree (by simp [hc])).elim
  · exact (h _ _ _ hr2).extL

/-- `s1 op s2` -/
theorem Runs.op {ctx : Ctx} {c : Char} {s1 s2 : List Char} (hc : isAlpha c = false) (hlp : c ≠ '(')
    (h1 : Runs ctx s1) (h2 : Runs ctx s2) : Runs ctx (s1 ++ c :: s2) :=
  h1.append (h2.cons hc) (.inr (by simp [hc])) (by simpa using hlp)


theorem Seg.alphaFree {F L A : List Cls} {s : List Char} (h : Seg F L A s)
    (hA : Cls.alpha ∉ A := by decide) : ∀ c ∈ s, isAlpha c = false := by
  intro c hc
  cases ha : isAlpha c with
  | false => rfl
  | true =>
    have := h.alph c hc
    rw [cls_alpha ha] at this
    exact absurd this hA

/-- the exponent marker between a letter-free mantissa and a letter-free exponent -/
theorem runs_marker {ctx : Ctx} {a b : List Char} {c : Char}
    (ha : ∀ x ∈ a, isAlpha x = false) (hb : ∀ x ∈ b, isAlpha x = false) (hc : c = 'e' ∨ c = 'E')
    (hal : ∃ d, a.getLast? = some d ∧ (isDigit d = true ∨ d = '.'))
    (hbh : ∃ d, b.head? = some d ∧ (isDigit d = true ∨ d = '+' ∨ d = '-')) :
    Runs ctx (a ++ c :: b) := by
  have hca : isAlpha c = true := by rcases hc with rfl | rfl <;> decide
  intro pre w post hr
  rcases hr.split (.inl (fun d hd => ha d (getLast?_mem hd))) with ⟨post1, hr1, rfl⟩ | ⟨pre2, hr2, rfl⟩
  · exact (hr1.alphaFree ha).elim
  · have hr2' : MaxRun ([c] ++ b) pre2 w post := hr2
    rcases hr2'.split (.inr (fun d hd => hb d (head?_mem hd))) with ⟨post1, hr3, rfl⟩ | ⟨pre3, hr3, rfl⟩
    · obtain ⟨rfl, rfl, rfl⟩ := hr3.allAlpha (by simp [hca])
      refine .inr (.inr (.inr ⟨by rcases hc with rfl | rfl <;> simp, by simpa using hal, by simpa using hbh⟩))
    · exact (hr3.alphaFree hb).elim

theorem digits_head {ds : List Char} (h : Digits ds) : ∃ d, ds.head? = some d ∧ isDigit d = true := by
  obtain ⟨hne, hd⟩ := h
  cases ds with
  | nil => exact absurd rfl hne
  | cons x t => exact ⟨x, rfl, hd x (by simp)⟩

theorem mantissa_last {m fd : Nat} {ms : List Char} (h : Mantissa m fd ms) :
    ∃ d, ms.getLast? = some d ∧ (isDigit d = true ∨ d = '.') := by
  obtain ⟨d, hd, hk⟩ := (mantissa_seg h).last
  refine ⟨d, hd, ?_⟩
  have := cls_spec d
  revert this hk
  cases cls d <;> simp (config := {decide := true}) <;> intro h <;> simp [h]

theorem numLeaf_runs {ctx : Ctx} {t : E} {s : List Char} (h : NumLeaf t s) : Runs ctx s := by
  have key : ∀ {m fd ev} {ms es p : List Char}, Mantissa m fd ms → Exponent ev es →
      (∀ x ∈ p, isAlpha x = false) → Runs ctx (p ++ ms ++ es) := by
    intro m fd ev ms es p hm he hp
    have hms := (mantissa_seg hm).alphaFree
    have hpm : ∀ x ∈ p ++ ms, isAlpha x = false := by
      intro x hx; rw [List.mem_append] at hx; exact hx.elim (hp x) (hms x)
    have hlast : ∃ d, (p ++ ms).getLast? = some d ∧ (isDigit d = true ∨ d = '.') := by
      obtain ⟨d, hd, h⟩ := mantissa_last hm
      exact ⟨d, by simp [List.getLast?_append, hd], h⟩
    cases he with
    | none => simpa using Runs.alphaFree hpm
    | pos c ed hc hed =>
      obtain ⟨d, hd, hdd⟩ := digits_head hed
      exact runs_marker hpm (digits_seg hed).alphaFree hc hlast ⟨d, hd, .inl hdd⟩
    | plus c ed hc hed =>
      refine runs_marker hpm ?_ hc hlast ⟨'+', rfl, .inr (.inl rfl)⟩
      intro x hx
      simp at hx
      rcases hx with rfl | hx
      · decide
      · exact ((digits_seg hed).alphaFree) x hx
    | minus c ed hc hed =>
      refine runs_marker hpm ?_ hc hlast ⟨'-', rfl, .inr (.inr rfl)⟩
      intro x hx
      simp at hx
      rcases hx with rfl | hx
      · decide
      · exact ((digits_seg hed).alphaFree) x hx
  have tag : ∀ {pat s : List Char}, pat ≠ [] → (∀ x ∈ pat, isAlpha x = true) → s.map lower = pat →
      (s.map lower = ['n', 'a', 'n'] ∨ s.map lower = ['i', 'n', 'f']) → Runs ctx s := by
    intro pat s hpat hp hs hor pre w post hr
    have hn := (tag_seg hpat hp hs)
    have hall : ∀ c ∈ s, isAlpha c = true := by
      intro c hc
      apply alpha_of_lower
      apply hp
      rw [← hs]; exact List.mem_map_of_mem hc
    obtain ⟨rfl, rfl, rfl⟩ := hr.allAlpha hall
    exact .inr (.inr (.inl ⟨hor, by simp⟩))
  cases h with
  | dec m fd ev ms es hm he => simpa using key (p := []) hm he (by simp)
  | plusDec m fd ev ms es hm he =>
    simpa using key (p := ['+']) hm he (by simp (config := {decide := true}))
  | nan s h => exact tag (by simp) (by decide) h (.inl h)
  | inf s h => exact tag (by simp) (by decide) h (.inr h)

theorem name_runs {ctx : Ctx} {n : List Char} (hn : IsName n)
    (hg : ctx.get (String.ofList n) = some .const ∨ ∃ i, ctx.get (String.ofList n) = some (.var i)) :
    Runs ctx n := by
  intro pre w post hr
  obtain ⟨rfl, rfl, rfl⟩ := hr.allAlpha hn.2
  exact .inr (.inl ⟨hg, by simp⟩)

theorem call_runs {ctx : Ctx} {n s : List Char} (hn : IsName n)
    (hg : ctx.get (String.ofList n) = some .uop) (h : Runs ctx s) :
    Runs ctx (n ++ '(' :: s ++ [')']) := by
  have h1 : Runs ctx (n ++ '(' :: s) := by
    intro pre w post hr
    rcases hr.split (.inr (by simp (config := {decide := true}))) with ⟨post1, hr1, rfl⟩ | ⟨pre2, hr2, rfl⟩
    · obtain ⟨rfl, rfl, rfl⟩ := hr1.allAlpha hn.2
      exact .inl ⟨hg, by simp⟩
    · exact ((h.cons (by decide)) _ _ _ hr2).extL
  exact h1.append (Runs.alphaFree (by simp (config := {decide := true}))) (.inr (by simp (config := {decide := true}))) (by simp)

theorem runs_all {ctx : Ctx} :
    (∀ {t s}, PExpr ctx t s → Runs ctx s) ∧ (∀ {a t s}, PMul ctx a t s → Runs ctx s) ∧
    (∀ {a t s}, PTerm ctx a t s → Runs ctx s) ∧ (∀ {t s}, PPow ctx t s → Runs ctx s) ∧
    (∀ {t s}, PAtom ctx t s → Runs ctx s) := by
  apply @grammar_induction ctx (fun _ s => Runs ctx s) (fun _ _ s => Runs ctx s) (fun _ _ s => Runs ctx s)
    (fun _ s => Runs ctx s) (fun _ s => Runs ctx s)
  · intro l r s1 s2 _ _ h1 h2; exact Runs.op (by decide) (by decide) h1 h2
  · intro l r s1 s2 _ _ h1 h2; exact Runs.op (by decide) (by decide) h1 h2
  · intro t s _ h; exact h
  · intro a l r s1 s2 _ _ h1 h2; exact Runs.op (by decide) (by decide) h1 h2
  · intro a l r s1 s2 _ _ h1 h2; exact Runs.op (by decide) (by decide) h1 h2
  · intro a t s _ h; exact h
  · intro t s _ h; exact h.cons (by decide)
  · intro a t s _ h; exact h
  · intro b e s1 s2 _ _ h1 h2; exact Runs.op (by decide) (by decide) h1 h2
  · intro b n s1 s2 _ hi h1
    exact Runs.op (by decide) (by decide) h1 ((Runs.alphaFree (i32_seg hi).alphaFree).cons (by decide))
  · intro t s _ h; exact h
  · intro t s _ h
    exact (h.cons (c := '(') (by decide)).append (Runs.alphaFree (by simp (config := {decide := true})))
      (.inr (by simp (config := {decide := true}))) (by simp)
  · intro t s h; exact numLeaf_runs h
  · intro n t s hn hg _ h; exact call_runs hn hg h
  · intro n hn hg; exact name_runs hn (.inl hg)
  · intro n i hn hg; exact name_runs hn (.inr ⟨i, hg⟩)

/-- every maximal ASCII-letter run of a string of the language is: a registered function name
    directly followed by '('; or a registered constant/variable name not followed by '('; or a
    `nan`/`inf` token (any case) not followed by '('; or the exponent marker of a number -/
theorem prints_letter_runs {ctx : Ctx} {t : E} {s pre w post : List Char} (h : Prints ctx t s)
    (hr : MaxRun s pre w post) : RunOK ctx pre w post := runs_all.1 h pre w post hr


end Cav.Grammar
