/-
  The set-up loop of the sweep model on a single quadrilateral `#[A, B, C, D]`: the vertex ring
  and the initial event queue (one Start vertex, or two Start vertices in opposite positions).
-/
import Cav.Lemmas.QuadRun

set_option linter.unusedSimpArgs false
set_option linter.unusedVariables false

namespace Cav.QuadSetup
open Cav Num Cav.Sweep Cav.SweepRun Cav.TriRun Cav.QuadRun Cav.TriEvents Cav.SweepSetup

/-- a second Start vertex: the queue holds one Start vertex `j` already -/
theorem sb_start2 (poly : Array (Pt XQ)) (n base i j : Nat) (seen : List (Pt XQ)) (s : St XQ)
    (vj : Vtx XQ) (o : Ordering)
    (hv : validPt seen (poly.getD i dummyPt) = .ok (poly.getD i dummyPt :: seen))
    (hk : fromTriplet (poly.getD i dummyPt) (poly.getD ((i + n - 1) % n) dummyPt)
      (poly.getD ((i + 1) % n) dummyPt) = some .start)
    (hev : s.events = [(j, [])]) (hsz : s.verts.size = base + i) (hj : s.verts[j]? = some vj)
    (hji : j < base + i)
    (hc : (poly.getD i dummyPt).cmp vj.p = o) (ho : o ≠ .eq) :
    Runs s (.ok (.yield (poly.getD i dummyPt :: seen),
      { s with verts := s.verts.push ⟨poly.getD i dummyPt, base + (i + n - 1) % n, base + (i + 1) % n⟩,
               events := if o = .lt then [(base + i, []), (j, [])] else [(j, []), (base + i, [])] }))
      (setupBody poly n base i seen) := by
  unfold setupBody
  generalize poly.getD ((i + n - 1) % n) dummyPt = prevP at *
  generalize poly.getD ((i + 1) % n) dummyPt = nextP at *
  generalize poly.getD i dummyPt = pt at *
  have hj' : (s.verts.push ⟨pt, base + (i + n - 1) % n, base + (i + 1) % n⟩)[j]? = some vj := by
    rw [Array.getElem?_push]
    have : ¬ j = s.verts.size := by omega
    simp [this, hj]
  have hne : ¬ j = base + i := by omega
  have hpi : ∀ (v : Vtx XQ) (h : base + i < (s.verts.push v).size), (s.verts.push v)[base + i]'h = v := by
    intro v h; simp [Array.getElem_push, hsz]
  cases o
  · sm_eval [hv, hk, hev, hsz, hj', hj, hne, hpi, hc, eventsInsertStart, eventsInsertStart.go]
  · exact absurd rfl ho
  · sm_eval [hv, hk, hev, hsz, hj', hj, hne, hpi, hc, eventsInsertStart, eventsInsertStart.go]


/-- the vertex ring the set-up loop builds for the single polygon `#[A, B, C, D]` -/
def ringQ (A B C D : Pt XQ) : Array (Vtx XQ) := #[⟨A, 3, 1⟩, ⟨B, 0, 2⟩, ⟨C, 1, 3⟩, ⟨D, 2, 0⟩]

/-- the set-up loop on one quadrilateral: one Start vertex, or two in opposite positions -/
theorem setup_quad (A B C D : Pt XQ) (evs : List (Nat × List Nat)) (k0 k1 k2 k3 : PType)
    (hv0 : validPt [] A = .ok [A]) (hv1 : validPt [A] B = .ok [B, A])
    (hv2 : validPt [B, A] C = .ok [C, B, A]) (hv3 : validPt [C, B, A] D = .ok [D, C, B, A])
    (h0 : fromTriplet A D B = some k0) (h1 : fromTriplet B A C = some k1)
    (h2 : fromTriplet C B D = some k2) (h3 : fromTriplet D C A = some k3)
    (hk : (evs = [(0, [])] ∧ k0 = .start ∧ k1 ≠ .start ∧ k2 ≠ .start ∧ k3 ≠ .start) ∨
      (evs = [(1, [])] ∧ k0 ≠ .start ∧ k1 = .start ∧ k2 ≠ .start ∧ k3 ≠ .start) ∨
      (evs = [(2, [])] ∧ k0 ≠ .start ∧ k1 ≠ .start ∧ k2 = .start ∧ k3 ≠ .start) ∨
      (evs = [(3, [])] ∧ k0 ≠ .start ∧ k1 ≠ .start ∧ k2 ≠ .start ∧ k3 = .start) ∨
      (evs = [(0, []), (2, [])] ∧ k0 = .start ∧ k1 ≠ .start ∧ k2 = .start ∧ k3 ≠ .start ∧ C.cmp A = .gt) ∨
      (evs = [(2, []), (0, [])] ∧ k0 = .start ∧ k1 ≠ .start ∧ k2 = .start ∧ k3 ≠ .start ∧ C.cmp A = .lt) ∨
      (evs = [(1, []), (3, [])] ∧ k0 ≠ .start ∧ k1 = .start ∧ k2 ≠ .start ∧ k3 = .start ∧ D.cmp B = .gt) ∨
      (evs = [(3, []), (1, [])] ∧ k0 ≠ .start ∧ k1 = .start ∧ k2 ≠ .start ∧ k3 = .start ∧ D.cmp B = .lt)) :
    (forIn [#[A, B, C, D]] ([] : List (Pt XQ)) polyBody).run (initSt : St XQ) =
      .ok ([D, C, B, A], stQ (ringQ A B C D) evs) := by
  rw [forIn_cons_run]
  have hb : (polyBody #[A, B, C, D] []).run (initSt : St XQ) =
      .ok (.yield [D, C, B, A], stQ (ringQ A B C D) evs) := by
    unfold polyBody
    rw [run_bind, setupPolygon_eq]
    have hr : List.range' 0 (#[A, B, C, D] : Array (Pt XQ)).size 1 = [0, 1, 2, 3] := rfl
    rw [hr]
    simp only [List.size_toArray, List.length_cons, List.length_nil, Nat.reduceAdd, Nat.reduceLT,
      if_false]
    have g0 : (#[A, B, C, D] : Array (Pt XQ)).getD 0 dummyPt = A := rfl
    have g1 : (#[A, B, C, D] : Array (Pt XQ)).getD 1 dummyPt = B := rfl
    have g2 : (#[A, B, C, D] : Array (Pt XQ)).getD 2 dummyPt = C := rfl
    have g3 : (#[A, B, C, D] : Array (Pt XQ)).getD 3 dummyPt = D := rfl
    rcases hk with ⟨rfl, rfl, n1, n2, n3⟩ | ⟨rfl, n0, rfl, n2, n3⟩ | ⟨rfl, n0, n1, rfl, n3⟩ | ⟨rfl, n0, n1, n2, rfl⟩ | ⟨rfl, rfl, n1, rfl, n3, hc⟩ | ⟨rfl, rfl, n1, rfl, n3, hc⟩ | ⟨rfl, n0, rfl, n2, rfl, hc⟩ | ⟨rfl, n0, rfl, n2, rfl, hc⟩
    ·
      rw [forIn_cons_run, (sb_start #[A, B, C, D] 4 (initSt : St XQ).verts.size 0 [] initSt hv0 h0 rfl rfl).run]
      simp only [g0, g1, g2, g3]
      rw [forIn_cons_run, (sb_other #[A, B, C, D] 4 _ 1 _ _ k1 hv1 h1 n1).run]
      simp only [g0, g1, g2, g3]
      rw [forIn_cons_run, (sb_other #[A, B, C, D] 4 _ 2 _ _ k2 hv2 h2 n2).run]
      simp only [g0, g1, g2, g3]
      rw [forIn_cons_run, (sb_other #[A, B, C, D] 4 _ 3 _ _ k3 hv3 h3 n3).run]
      simp only [g0, g1, g2, g3]
      rw [forIn_nil_run]
      simp [initSt, stQ, ringQ]
      rfl
    ·
      rw [forIn_cons_run, (sb_other #[A, B, C, D] 4 (initSt : St XQ).verts.size 0 [] initSt k0 hv0 h0 n0).run]
      simp only [g0, g1, g2, g3]
      rw [forIn_cons_run, (sb_start #[A, B, C, D] 4 _ 1 _ _ hv1 h1 rfl rfl).run]
      simp only [g0, g1, g2, g3]
      rw [forIn_cons_run, (sb_other #[A, B, C, D] 4 _ 2 _ _ k2 hv2 h2 n2).run]
      simp only [g0, g1, g2, g3]
      rw [forIn_cons_run, (sb_other #[A, B, C, D] 4 _ 3 _ _ k3 hv3 h3 n3).run]
      simp only [g0, g1, g2, g3]
      rw [forIn_nil_run]
      simp [initSt, stQ, ringQ]
      rfl
    ·
      rw [forIn_cons_run, (sb_other #[A, B, C, D] 4 (initSt : St XQ).verts.size 0 [] initSt k0 hv0 h0 n0).run]
      simp only [g0, g1, g2, g3]
      rw [forIn_cons_run, (sb_other #[A, B, C, D] 4 _ 1 _ _ k1 hv1 h1 n1).run]
      simp only [g0, g1, g2, g3]
      rw [forIn_cons_run, (sb_start #[A, B, C, D] 4 _ 2 _ _ hv2 h2 rfl rfl).run]
      simp only [g0, g1, g2, g3]
      rw [forIn_cons_run, (sb_other #[A, B, C, D] 4 _ 3 _ _ k3 hv3 h3 n3).run]
      simp only [g0, g1, g2, g3]
      rw [forIn_nil_run]
      simp [initSt, stQ, ringQ]
      rfl
    ·
      rw [forIn_cons_run, (sb_other #[A, B, C, D] 4 (initSt : St XQ).verts.size 0 [] initSt k0 hv0 h0 n0).run]
      simp only [g0, g1, g2, g3]
      rw [forIn_cons_run, (sb_other #[A, B, C, D] 4 _ 1 _ _ k1 hv1 h1 n1).run]
      simp only [g0, g1, g2, g3]
      rw [forIn_cons_run, (sb_other #[A, B, C, D] 4 _ 2 _ _ k2 hv2 h2 n2).run]
      simp only [g0, g1, g2, g3]
      rw [forIn_cons_run, (sb_start #[A, B, C, D] 4 _ 3 _ _ hv3 h3 rfl rfl).run]
      simp only [g0, g1, g2, g3]
      rw [forIn_nil_run]
      simp [initSt, stQ, ringQ]
      rfl
    ·
      rw [forIn_cons_run, (sb_start #[A, B, C, D] 4 (initSt : St XQ).verts.size 0 [] initSt hv0 h0 rfl rfl).run]
      simp only [g0, g1, g2, g3]
      rw [forIn_cons_run, (sb_other #[A, B, C, D] 4 _ 1 _ _ k1 hv1 h1 n1).run]
      simp only [g0, g1, g2, g3]
      rw [forIn_cons_run, (sb_start2 #[A, B, C, D] 4 _ 2 0 _ _ ⟨A, _, _⟩ .gt hv2 h2 rfl rfl rfl (by decide) hc (by decide)).run]
      simp only [g0, g1, g2, g3]
      rw [forIn_cons_run, (sb_other #[A, B, C, D] 4 _ 3 _ _ k3 hv3 h3 n3).run]
      simp only [g0, g1, g2, g3]
      rw [forIn_nil_run]
      simp [initSt, stQ, ringQ]
      rfl
    ·
      rw [forIn_cons_run, (sb_start #[A, B, C, D] 4 (initSt : St XQ).verts.size 0 [] initSt hv0 h0 rfl rfl).run]
      simp only [g0, g1, g2, g3]
      rw [forIn_cons_run, (sb_other #[A, B, C, D] 4 _ 1 _ _ k1 hv1 h1 n1).run]
      simp only [g0, g1, g2, g3]
      rw [forIn_cons_run, (sb_start2 #[A, B, C, D] 4 _ 2 0 _ _ ⟨A, _, _⟩ .lt hv2 h2 rfl rfl rfl (by decide) hc (by decide)).run]
      simp only [g0, g1, g2, g3]
      rw [forIn_cons_run, (sb_other #[A, B, C, D] 4 _ 3 _ _ k3 hv3 h3 n3).run]
      simp only [g0, g1, g2, g3]
      rw [forIn_nil_run]
      simp [initSt, stQ, ringQ]
      rfl
    ·
      rw [forIn_cons_run, (sb_other #[A, B, C, D] 4 (initSt : St XQ).verts.size 0 [] initSt k0 hv0 h0 n0).run]
      simp only [g0, g1, g2, g3]
      rw [forIn_cons_run, (sb_start #[A, B, C, D] 4 _ 1 _ _ hv1 h1 rfl rfl).run]
      simp only [g0, g1, g2, g3]
      rw [forIn_cons_run, (sb_other #[A, B, C, D] 4 _ 2 _ _ k2 hv2 h2 n2).run]
      simp only [g0, g1, g2, g3]
      rw [forIn_cons_run, (sb_start2 #[A, B, C, D] 4 _ 3 1 _ _ ⟨B, _, _⟩ .gt hv3 h3 rfl rfl rfl (by decide) hc (by decide)).run]
      simp only [g0, g1, g2, g3]
      rw [forIn_nil_run]
      simp [initSt, stQ, ringQ]
      rfl
    ·
      rw [forIn_cons_run, (sb_other #[A, B, C, D] 4 (initSt : St XQ).verts.size 0 [] initSt k0 hv0 h0 n0).run]
      simp only [g0, g1, g2, g3]
      rw [forIn_cons_run, (sb_start #[A, B, C, D] 4 _ 1 _ _ hv1 h1 rfl rfl).run]
      simp only [g0, g1, g2, g3]
      rw [forIn_cons_run, (sb_other #[A, B, C, D] 4 _ 2 _ _ k2 hv2 h2 n2).run]
      simp only [g0, g1, g2, g3]
      rw [forIn_cons_run, (sb_start2 #[A, B, C, D] 4 _ 3 1 _ _ ⟨B, _, _⟩ .lt hv3 h3 rfl rfl rfl (by decide) hc (by decide)).run]
      simp only [g0, g1, g2, g3]
      rw [forIn_nil_run]
      simp [initSt, stQ, ringQ]
      rfl
  rw [hb]
  rfl

end Cav.QuadSetup
