/-
  Output of the sweep on general valid input, part 12b (continued): the arc invariant at an END
  event.  The two edges ending in the End vertex `w` are the head edge of an arc `α1` and the tail
  edge of an arc `α2`; if `α1 ≠ α2` the two arcs are merged through `w`, otherwise the polygon is
  complete.
-/
import Cav.Lemmas.GenOutArcB

set_option linter.unusedVariables false
set_option linter.unusedSimpArgs false

namespace Cav.GenOutArc
open Cav Cav.Geo Cav.GenInv

/-! ### small facts -/

theorem orient_swap13_e (a b c : Rat × Rat) : orient c b a = - orient a b c := by
  unfold orient; ring

theorem nonCross_symm_e {E : List AE} {α β : Arc} (h : NonCross E α β) : NonCross E β α :=
  ⟨h.2, h.1⟩

theorem nc_of_mem_e {E : List AE} {A : List Arc} (hnc : A.Pairwise (NonCross E)) {α β : Arc}
    (hα : α ∈ A) (hβ : β ∈ A) (h : α ≠ β) : NonCross E α β := by
  induction hnc with
  | nil => cases hα
  | @cons γ A h1 h2 ih =>
    rcases List.mem_cons.mp hα with rfl | hα'
    · rcases List.mem_cons.mp hβ with rfl | hβ'
      · exact absurd rfl h
      · exact h1 β hβ'
    · rcases List.mem_cons.mp hβ with rfl | hβ'
      · exact nonCross_symm_e (h1 α hα')
      · exact ih hα' hβ'

theorem shift_ne_e {p x x' : Nat} (h : Shift_e p x x') : x ≠ p ∧ x ≠ p + 1 := by
  unfold Shift_e at h; omega

/-- the arcs other than `α1`, `α2` -/
noncomputable def rest_e (A : List Arc) (α1 α2 : Arc) : List Arc :=
  open Classical in A.filter fun γ => decide (γ ≠ α1 ∧ γ ≠ α2)

theorem mem_rest_e {A : List Arc} {α1 α2 γ : Arc} :
    γ ∈ rest_e A α1 α2 ↔ γ ∈ A ∧ γ ≠ α1 ∧ γ ≠ α2 := by
  unfold rest_e
  simp [List.mem_filter]

theorem rest_sublist_e (A : List Arc) (α1 α2 : Arc) : (rest_e A α1 α2).Sublist A := by
  unfold rest_e
  exact List.filter_sublist

/-! ### the edges ending in `w` -/

/-- an active edge ending in `w` is the head edge of an arc ending in `prv w` or the tail edge
    of an arc starting in `nxt w` -/
theorem end_edge_e {R : RingQ} {V : Array (Vtx XQ)} (hR : RingOK R V) {xs : Rat} {E : List AE}
    {A : List Arc} {D : List Cyc} (hA : ArcInv R xs E A D) (hE : EOK R xs E)
    {e : AE} (he : e ∈ E) {w : Nat} (hew : e.rv = w) :
    (∃ α ∈ A, α.h = e.id ∧ R.nxt^[α.k] α.v0 = R.prv w ∧ e.lv = R.prv w) ∨
    (∃ α ∈ A, α.t = e.id ∧ α.v0 = R.nxt w ∧ e.lv = R.nxt w) := by
  obtain ⟨α, hα, h⟩ := hA.ends e he
  have ok := hA.arcs α hα
  rcases h with h | h
  · right
    obtain ⟨a, ha, hid, hlv, hrv⟩ := ok.tail
    have hae : a = e := eq_of_id_e hE.ids ha he (hid.trans h)
    subst hae
    have h0 : α.v0 < R.n := ok.lt 0 (Nat.zero_le _)
    have hv : α.v0 = R.nxt w := by
      rw [← hew, hrv, hR.nxt_prv _ h0]
    exact ⟨α, hα, h, hv, hlv.trans hv⟩
  · left
    obtain ⟨a, ha, hid, hlv, hrv⟩ := ok.head
    have hae : a = e := eq_of_id_e hE.ids ha he (hid.trans h)
    subst hae
    have h0 : R.nxt^[α.k] α.v0 < R.n := ok.lt α.k (Nat.le_refl _)
    have hv : R.nxt^[α.k] α.v0 = R.prv w := by
      rw [← hew, hrv, hR.prv_nxt _ h0]
    exact ⟨α, hα, h, hv, hlv.trans hv⟩

/-- the two arcs meeting in the End vertex -/
theorem end_arcs_e {R : RingQ} {V : Array (Vtx XQ)} (hR : RingOK R V) {xs : Rat} {E : List AE}
    {A : List Arc} {D : List Cyc} (hA : ArcInv R xs E A D) (hE : EOK R xs E)
    {bot top : AE} (hb : bot ∈ E) (ht : top ∈ E) {w : Nat}
    (hx0 : R.x (R.prv w) < R.x w) (hx1 : R.x (R.nxt w) < R.x w)
    (hbr : bot.rv = w) (htr : top.rv = w) (hne : bot.lv ≠ top.lv)
    (hor : 0 < orient (R.pt bot.lv) (R.pt w) (R.pt top.lv)) :
    ∃ α1 ∈ A, ∃ α2 ∈ A, R.nxt^[α1.k] α1.v0 = R.prv w ∧ α2.v0 = R.nxt w ∧
      ((α1.h = bot.id ∧ α2.t = top.id ∧ turnE R w = 1) ∨
       (α1.h = top.id ∧ α2.t = bot.id ∧ turnE R w = -1)) := by
  have hturn : turnE R w =
      if 0 < orient (R.pt (R.prv w)) (R.pt w) (R.pt (R.nxt w)) then 1 else -1 := by
    unfold turnE
    rw [if_pos (Or.inl ⟨hx0, hx1⟩)]
  rcases end_edge_e hR hA hE hb hbr with ⟨α1, hα1, h1, hp1, hl1⟩ | ⟨α2, hα2, h2, hv2, hl2⟩
  · rcases end_edge_e hR hA hE ht htr with ⟨α1', hα1', h1', hp1', hl1'⟩ | ⟨α2, hα2, h2, hv2, hl2⟩
    · exact absurd (hl1.trans hl1'.symm) hne
    · refine ⟨α1, hα1, α2, hα2, hp1, hv2, Or.inl ⟨h1, h2, ?_⟩⟩
      rw [hturn, if_pos]
      rw [hl1, hl2] at hor
      exact hor
  · rcases end_edge_e hR hA hE ht htr with ⟨α1, hα1, h1, hp1, hl1⟩ | ⟨α2', hα2', h2', hv2', hl2'⟩
    · refine ⟨α1, hα1, α2, hα2, hp1, hv2, Or.inr ⟨h1, h2, ?_⟩⟩
      rw [hturn, if_neg]
      rw [hl1, hl2, orient_swap13_e] at hor
      intro h
      linarith
    · exact absurd (hl2.trans hl2'.symm) hne

/-! ### edges and arcs that are not touched -/

/-- the position of an untouched edge -/
theorem shift_id_e {F1 F2 : List AE} {bot top : AE}
    (hnd : ((F1 ++ bot :: top :: F2).map (·.id)).Nodup) {a : AE}
    (ha : a ∈ F1 ++ bot :: top :: F2) (h1 : a.id ≠ bot.id) (h2 : a.id ≠ top.id) :
    Shift_e F1.length (pos (F1 ++ bot :: top :: F2) a.id) (pos (F1 ++ F2) a.id) := by
  obtain ⟨-, -, h⟩ := pos_remove_e hnd
  rcases h a (mem_remove_e ha h1 h2) with ⟨h3, h4⟩ | ⟨h3, h4⟩
  · exact Or.inl ⟨h3, h4⟩
  · exact Or.inr ⟨h3, h4⟩

/-- an edge that stays has an id different from the removed ones -/
theorem id_ne_e {F1 F2 : List AE} {bot top : AE}
    (hnd : ((F1 ++ bot :: top :: F2).map (·.id)).Nodup) {a : AE} (ha : a ∈ F1 ++ F2) :
    a.id ≠ bot.id ∧ a.id ≠ top.id := by
  obtain ⟨hb, ht, h⟩ := pos_remove_e hnd
  have := h a ha
  constructor
  · intro e; rw [e] at this; omega
  · intro e; rw [e] at this; omega

/-- the positions of the ends of an arc whose ends are not removed -/
theorem shift_arc_e {R : RingQ} {xs : Rat} {F1 F2 : List AE} {bot top : AE}
    (hnd : ((F1 ++ bot :: top :: F2).map (·.id)).Nodup) {γ : Arc}
    (ok : ArcOK R xs (F1 ++ bot :: top :: F2) γ) :
    (γ.t ≠ bot.id → γ.t ≠ top.id →
      Shift_e F1.length (pos (F1 ++ bot :: top :: F2) γ.t) (pos (F1 ++ F2) γ.t)) ∧
    (γ.h ≠ bot.id → γ.h ≠ top.id →
      Shift_e F1.length (pos (F1 ++ bot :: top :: F2) γ.h) (pos (F1 ++ F2) γ.h)) := by
  constructor
  · intro h1 h2
    obtain ⟨a, ha, hid, -, -⟩ := ok.tail
    rw [← hid] at h1 h2 ⊢
    exact shift_id_e hnd ha h1 h2
  · intro h1 h2
    obtain ⟨a, ha, hid, -, -⟩ := ok.head
    rw [← hid] at h1 h2 ⊢
    exact shift_id_e hnd ha h1 h2

/-- an arc whose ends are not removed stays an arc -/
theorem arcOK_remove_e {R : RingQ} {xs xs' : Rat} (hxs : xs ≤ xs') {F1 F2 : List AE} {bot top : AE}
    (hnd : ((F1 ++ bot :: top :: F2).map (·.id)).Nodup) {γ : Arc}
    (ok : ArcOK R xs (F1 ++ bot :: top :: F2) γ)
    (h1 : γ.t ≠ bot.id) (h2 : γ.t ≠ top.id) (h3 : γ.h ≠ bot.id) (h4 : γ.h ≠ top.id) :
    ArcOK R xs' (F1 ++ F2) γ := by
  obtain ⟨st, sh⟩ := shift_arc_e hnd ok
  refine ⟨?_, ?_, ok.lt, fun j hj => le_trans (ok.le j hj) hxs, ?_⟩
  · obtain ⟨a, ha, hid, hl, hr⟩ := ok.tail
    exact ⟨a, mem_remove_e ha (hid ▸ h1) (hid ▸ h2), hid, hl, hr⟩
  · obtain ⟨a, ha, hid, hl, hr⟩ := ok.head
    exact ⟨a, mem_remove_e ha (hid ▸ h3) (hid ▸ h4), hid, hl, hr⟩
  · rw [ok.sum]
    exact (sign_shift_e (sh h3 h4) (st h1 h2)).symm

/-- what remains true for the untouched arcs -/
theorem rest_inv_e {R : RingQ} {xs : Rat} {F1 F2 : List AE} {bot top : AE}
    {A : List Arc} {D : List Cyc} (hA : ArcInv R xs (F1 ++ bot :: top :: F2) A D)
    (hE : EOK R xs (F1 ++ bot :: top :: F2)) {xs' : Rat} (hxs : xs ≤ xs')
    {α1 α2 : Arc} (hα1 : α1 ∈ A) (hα2 : α2 ∈ A)
    (hb : bot.id = α1.h ∨ bot.id = α2.t) (ht : top.id = α1.h ∨ top.id = α2.t) :
    (∀ γ ∈ rest_e A α1 α2, ArcOK R xs' (F1 ++ F2) γ ∧
      Shift_e F1.length (pos (F1 ++ bot :: top :: F2) γ.t) (pos (F1 ++ F2) γ.t) ∧
      Shift_e F1.length (pos (F1 ++ bot :: top :: F2) γ.h) (pos (F1 ++ F2) γ.h)) ∧
    (rest_e A α1 α2).Pairwise (NonCross (F1 ++ F2)) ∧
    ((rest_e A α1 α2).flatMap fun α => [α.t, α.h]).Nodup := by
  have key : ∀ γ ∈ rest_e A α1 α2, γ.t ≠ bot.id ∧ γ.t ≠ top.id ∧ γ.h ≠ bot.id ∧ γ.h ≠ top.id := by
    intro γ hγ
    obtain ⟨hγA, n1, n2⟩ := mem_rest_e.mp hγ
    have a1 : γ.t ≠ α1.h := fun e =>
      n1 (nd_inj_e hA.nd hγA hα1 (x := γ.t) (by simp) (by simp [e]))
    have a2 : γ.t ≠ α2.t := fun e =>
      n2 (nd_inj_e hA.nd hγA hα2 (x := γ.t) (by simp) (by simp [e]))
    have a3 : γ.h ≠ α1.h := fun e =>
      n1 (nd_inj_e hA.nd hγA hα1 (x := γ.h) (by simp) (by simp [e]))
    have a4 : γ.h ≠ α2.t := fun e =>
      n2 (nd_inj_e hA.nd hγA hα2 (x := γ.h) (by simp) (by simp [e]))
    refine ⟨?_, ?_, ?_, ?_⟩
    · rcases hb with e | e <;> rw [e] <;> assumption
    · rcases ht with e | e <;> rw [e] <;> assumption
    · rcases hb with e | e <;> rw [e] <;> assumption
    · rcases ht with e | e <;> rw [e] <;> assumption
  have all : ∀ γ ∈ rest_e A α1 α2, ArcOK R xs' (F1 ++ F2) γ ∧
      Shift_e F1.length (pos (F1 ++ bot :: top :: F2) γ.t) (pos (F1 ++ F2) γ.t) ∧
      Shift_e F1.length (pos (F1 ++ bot :: top :: F2) γ.h) (pos (F1 ++ F2) γ.h) := by
    intro γ hγ
    obtain ⟨k1, k2, k3, k4⟩ := key γ hγ
    have ok := hA.arcs γ (mem_rest_e.mp hγ).1
    obtain ⟨st, sh⟩ := shift_arc_e hE.ids ok
    exact ⟨arcOK_remove_e hxs hE.ids ok k1 k2 k3 k4, st k1 k2, sh k3 k4⟩
  refine ⟨all, ?_, ?_⟩
  · refine List.Pairwise.imp_of_mem ?_ (hA.nc.sublist (rest_sublist_e A α1 α2))
    intro γ δ hγ hδ h
    obtain ⟨-, s1, s2⟩ := all γ hγ
    obtain ⟨-, s3, s4⟩ := all δ hδ
    exact (nonCross_iff_e _ _ _).mpr (ncn_shift_e s1 s2 s3 s4 ((nonCross_iff_e _ _ _).mp h))
  · exact ((rest_sublist_e A α1 α2).flatMap _).nodup hA.nd

/-- old vertices stay to the left of the sweep line -/
theorem old_vertex_e {R : RingQ} {V : Array (Vtx XQ)} (hR : RingOK R V) {xs : Rat} {w : Nat}
    (hw : w < R.n) (hgap : ∀ v, v < R.n → xs < R.x v → R.x w ≤ R.x v)
    {v : Nat} (hv : v < R.n) (hxv : R.x v ≤ R.x w) (hvw : v ≠ w) : R.x v ≤ xs := by
  by_contra hc
  have h1 : xs < R.x v := lt_of_not_ge hc
  have h2 := hgap v hv h1
  exact hvw (hR.distinct v w hv hw (le_antisymm hxv h2))

end Cav.GenOutArc
