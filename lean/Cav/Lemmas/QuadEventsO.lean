/-
  Event chains of a quadrilateral in general position (`p1.x < p2.x < p3.x < p4.x`), evaluated
  symbolically on the sweep model: ring `O` (`p1`, `p4` opposite: Start Bend Bend End, the two bends on different chains).  The vertex ring `V` is abstract (look-ups at the
  four vertices, both ring orientations `ori`), the points are abstract, and the outcome of every
  pure geometric test of the model is a hypothesis `g…`.
-/
import Cav.Lemmas.QuadRun

set_option linter.unusedSimpArgs false
set_option linter.unusedVariables false

namespace Cav.QuadEvents
open Cav Num Cav.Sweep Cav.SweepRun Cav.TriRun Cav.QuadRun Cav.TriEvents

/-- ring `p1 p2 p4 p3`, `p2` on the bottom chain, `p3` on the top chain -/
theorem flow_Oa (ori : Bool) (V : Array (Vtx XQ)) (i1 i2 i3 i4 : Nat) (p1 p2 p3 p4 : Pt XQ)
    (h1 : V[i1]? = some ⟨p1, (nb ori i2 i3).1, (nb ori i2 i3).2⟩)
    (h2 : V[i2]? = some ⟨p2, (nb ori i4 i1).1, (nb ori i4 i1).2⟩)
    (h3 : V[i3]? = some ⟨p3, (nb ori i1 i4).1, (nb ori i1 i4).2⟩)
    (h4 : V[i4]? = some ⟨p4, (nb ori i3 i2).1, (nb ori i3 i2).2⟩)
    (hO : Ord4 p1 p2 p3 p4)
    (g1 : cmpEdgeP p1 p2 p1 p3 p1.x = .lt)
    (g2 : cmpEdgeP p1 p3 p1 p2 p1.x = .gt)
    (g3 : cmpAtP p2 p4 p1 p3 p3.x true = .lt)
    (g4 : clockwiseSign p2 p1 p3 = .c)
    (g5 : ofLt (yExtrap p3 p4 p4.x true) (yExtrap p2 p4 p4.x true) = false)
    (g6 : ofGe (p2.grad p4) (p3.grad p4) = true)
    (g7 : cmpEdgeP p2 p4 p3 p4 p3.x = .lt)
    (g8 : clockwiseSign p2 p3 p4 = .c) :
    ∃ s', Runs (stQ V [(i1, [])]) (.ok ((), s')) (loop 5) ∧
      s'.out = [sort3 p2 p3 p4, sort3 p2 p1 p3] ∧ s'.mono = true := by
  obtain ⟨f1, f2, f3, f4, c11, c12, c13, c14, c21, c22, c23, c24, c31, c32, c33, c34, c41, c42, c43, c44, e12, e13, e14, e21, e23, e24, e31, e32, e34, e41, e42, e43, x11, x12, x13, x14, x21, x22, x23, x24, x31, x32, x33, x34, x41, x42, x43, x44, m12, m13, m14, m21, m23, m24, m31, m32, m34, m41, m42, m43⟩ := hO
  unfold stQ
  cases ori <;> simp only [nb, if_true, if_false, Bool.false_eq_true] at h1 h2 h3 h4
  all_goals
    refine ⟨?_, ?run, ?out⟩
    case run =>
      qev [g1, g2]
      qev [g3]
      qev [g4, g5]
      qev [g6, g7, g8]
      refine Runs.loop_done (n := 0) ?_
      rfl
    case out => exact ⟨by rfl, by rfl⟩

/-- ring `p1 p2 p4 p3`, `p2` on the top chain, `p3` on the bottom chain -/
theorem flow_Ob (ori : Bool) (V : Array (Vtx XQ)) (i1 i2 i3 i4 : Nat) (p1 p2 p3 p4 : Pt XQ)
    (h1 : V[i1]? = some ⟨p1, (nb ori i2 i3).1, (nb ori i2 i3).2⟩)
    (h2 : V[i2]? = some ⟨p2, (nb ori i4 i1).1, (nb ori i4 i1).2⟩)
    (h3 : V[i3]? = some ⟨p3, (nb ori i1 i4).1, (nb ori i1 i4).2⟩)
    (h4 : V[i4]? = some ⟨p4, (nb ori i3 i2).1, (nb ori i3 i2).2⟩)
    (hO : Ord4 p1 p2 p3 p4)
    (g1 : cmpEdgeP p1 p3 p1 p2 p1.x = .lt)
    (g2 : cmpEdgeP p1 p2 p1 p3 p1.x = .gt)
    (g3 : cmpAtP p2 p4 p1 p3 p3.x true = .gt)
    (g4 : clockwiseSign p3 p1 p2 = .c)
    (g5 : ofGt (yExtrap p3 p4 p4.x true) (yExtrap p2 p4 p4.x true) = false)
    (g6 : ofGe (p2.grad p4) (p3.grad p4) = false)
    (g7 : cmpEdgeP p3 p4 p2 p4 p3.x = .lt)
    (g8 : clockwiseSign p3 p2 p4 = .c) :
    ∃ s', Runs (stQ V [(i1, [])]) (.ok ((), s')) (loop 5) ∧
      s'.out = [sort3 p3 p2 p4, sort3 p3 p1 p2] ∧ s'.mono = true := by
  obtain ⟨f1, f2, f3, f4, c11, c12, c13, c14, c21, c22, c23, c24, c31, c32, c33, c34, c41, c42, c43, c44, e12, e13, e14, e21, e23, e24, e31, e32, e34, e41, e42, e43, x11, x12, x13, x14, x21, x22, x23, x24, x31, x32, x33, x34, x41, x42, x43, x44, m12, m13, m14, m21, m23, m24, m31, m32, m34, m41, m42, m43⟩ := hO
  unfold stQ
  cases ori <;> simp only [nb, if_true, if_false, Bool.false_eq_true] at h1 h2 h3 h4
  all_goals
    refine ⟨?_, ?run, ?out⟩
    case run =>
      qev [g1, g2]
      qev [g3]
      qev [g4, g5]
      qev [g6, g7, g8]
      refine Runs.loop_done (n := 0) ?_
      rfl
    case out => exact ⟨by rfl, by rfl⟩

end Cav.QuadEvents
