/-
  Equal abscissae, part 4: THE INVARIANT `InvV`.  The heap facts (`Linked`, the vertex array, the
  sweep abscissa `X` stored in the state) are those of the original ring `R`; the geometric facts
  (the active edges span the sweep line, their order, the queue, the crossing edges) are those of
  the sheared ring `shearRing ε R` at the sheared sweep abscissa `xs` — the lexicographic sweep
  position of the original input.  `Cpl` couples `xs` and `X`.
-/
import Cav.Lemmas.GenVBridge2
import Cav.Lemmas.GenStepBend2
import Cav.Lemmas.GenLinks2

set_option linter.unusedSimpArgs false
set_option linter.unusedVariables false

namespace Cav.GenVInv
open Cav Num Cav.Geo Cav.Sweep Cav.TriRun Cav.QuadRun Cav.QuadGeom Cav.CvxFlows Cav.SweepOut
open Cav.GenNodes Cav.GenQuery Cav.GenGeom Cav.GenBend Cav.GenInv Cav.GenQueue Cav.GenOrder
open Cav.GenLinks Cav.GenStepBend Cav.GenVShear Cav.GenVBridge

variable {R : RingQ} {ε : Rat} {Vε : Array (Vtx XQ)}

/-- **the sweep invariant for input with equal abscissae** -/
structure InvV (R : RingQ) (ε : Rat) (s : St XQ) (xs X : Rat) (ivs : List IV) : Prop where
  vget : VGet R s.verts
  mono : s.mono = true
  sx : ivs ≠ [] → s.x = .fin X
  act : s.active = (flatE ivs).map (·.id)
  cind : (ivs.map (·.ci)).Nodup
  lk : Linked s R none ivs none
  nok : NodesOk s.nodes
  span : ∀ a ∈ flatE ivs, Span (shearRing ε R) xs a
  sorted : (flatE ivs).Pairwise (Below (shearRing ε R) xs)
  q : QCore (shearRing ε R) xs (flatE ivs) s.events
  cross : Cross (shearRing ε R) xs (flatE ivs)
  cpl : Cpl R ε xs X

theorem novert_adj (h : ShOK R ε Vε) (hNV : NoVert R) {u v : Nat} (hu : u < R.n) (hv : v < R.n)
    (hadj : Adj R u v) : R.x v ≠ R.x u := by
  rcases GenValid.edge_form h.ring hu hv hadj with e | e
  · have e' : R.nxt u = v := e
    have := hNV u hu
    rw [e'] at this; exact Ne.symm this
  · have e' : R.nxt v = u := e
    have := hNV v hv
    rw [e'] at this; exact this

theorem bendV_rlp (h : ShOK R ε Vε) {w u w' : Nat} (hu : u < R.n) (hw' : w' < R.n)
    (hnb : (R.prv w = u ∧ R.nxt w = w') ∨ (R.prv w = w' ∧ R.nxt w = u))
    (hx : (shearRing ε R).x u < (shearRing ε R).x w') :
    (if (Fq (R.pt (R.prv w))).ge (Fq (R.pt (R.nxt w))) = true then R.prv w else R.nxt w) = w' := by
  rcases hnb with ⟨h1, h2⟩ | ⟨h1, h2⟩
  · rw [h1, h2, geV_false h hu hw' hx]; simp
  · rw [h1, h2, geV_true h hu hw' hx]; simp

theorem bendV_ft (h : ShOK R ε Vε) {w u w' : Nat} (hw : w < R.n) (hu : u < R.n) (hw' : w' < R.n)
    (hnb : (R.prv w = u ∧ R.nxt w = w') ∨ (R.prv w = w' ∧ R.nxt w = u))
    (h1 : (shearRing ε R).x u < (shearRing ε R).x w) (h2 : (shearRing ε R).x w < (shearRing ε R).x w') :
    fromTriplet (Fq (R.pt w)) (Fq (R.pt (R.prv w))) (Fq (R.pt (R.nxt w))) = some .bend := by
  obtain ⟨f1, f2⟩ := ftV_bend h hw hu hw' h1 h2
  rcases hnb with ⟨e1, e2⟩ | ⟨e1, e2⟩
  · rw [e1, e2]; exact f1
  · rw [e1, e2]; exact f2

/-- a new edge starting at the sweep vertex: `Below` is a strict order of heights -/
theorem strict_of_below {R' : RingQ} {x0 : Rat} {b a : AE} (hab : Below R' x0 b a)
    (hne : b.lv ≠ a.lv) : hY R' b x0 < hY R' a x0 := by
  rcases hab with h | ⟨e, -, -⟩
  · exact h
  · exact absurd e hne


theorem strict_of_below' {R' : RingQ} {x0 : Rat} {b a : AE} (hab : Below R' x0 b a)
    (hne : R'.x b.lv ≠ x0) : hY R' b x0 < hY R' a x0 := by
  rcases hab with h | ⟨-, e, -⟩
  · exact h
  · exact absurd e hne

theorem endV_ft (h : ShOK R ε Vε) {w : Nat} (hw : w < R.n)
    (h0 : (shearRing ε R).x (R.prv w) < (shearRing ε R).x w)
    (h1 : (shearRing ε R).x (R.nxt w) < (shearRing ε R).x w) :
    fromTriplet (Fq (R.pt w)) (Fq (R.pt (R.prv w))) (Fq (R.pt (R.nxt w))) = some .end_ :=
  ftV_end h hw (h.ring.prv_lt w hw) (h.ring.nxt_lt w hw) h0 h1

/-- the gradients of the two edges ending in an End vertex -/
theorem gradsV (h : ShOK R ε Vε) (hNV : NoVert R) {xs : Rat} {bot top : AE} {w : Nat}
    (hb : Span (shearRing ε R) xs bot) (ht : Span (shearRing ε R) xs top)
    (hbr : bot.rv = w) (htr : top.rv = w)
    (hlt : hY (shearRing ε R) bot xs < hY (shearRing ε R) top xs) :
    ofGe ((Fq (R.pt bot.lv)).grad (Fq (R.pt w))) ((Fq (R.pt top.lv)).grad (Fq (R.pt w))) = true ∧
    ofGe ((Fq (R.pt top.lv)).grad (Fq (R.pt w))) ((Fq (R.pt bot.lv)).grad (Fq (R.pt w))) = false := by
  obtain ⟨-, nb⟩ := edge_orig h hNV hb
  obtain ⟨-, nt⟩ := edge_orig h hNV ht
  rw [hbr] at nb
  rw [htr] at nt
  have hbl : ((shearRing ε R).pt bot.lv).1 < ((shearRing ε R).pt w).1 := by have := hb.lt; rw [hbr] at this; exact this
  have htl : ((shearRing ε R).pt top.lv).1 < ((shearRing ε R).pt w).1 := by have := ht.lt; rw [htr] at this; exact this
  have hxs : xs < ((shearRing ε R).pt w).1 := by have := hb.gt; rw [hbr] at this; exact this
  have o : orient ((shearRing ε R).pt bot.lv) ((shearRing ε R).pt top.lv) ((shearRing ε R).pt w) < 0 := by
    refine fanR_orient _ _ _ hbl htl xs hxs ?_
    have : lineY ((shearRing ε R).pt bot.lv) ((shearRing ε R).pt bot.rv) xs <
        lineY ((shearRing ε R).pt top.lv) ((shearRing ε R).pt top.rv) xs := hlt
    rw [hbr, htr] at this; exact this
  rw [orient_ring] at o
  refine ⟨ofGe_gradR_true _ _ _ nb nt o, ofGe_gradR_false _ _ _ nt nb ?_⟩
  have : orient (R.pt top.lv) (R.pt bot.lv) (R.pt w) = - orient (R.pt bot.lv) (R.pt top.lv) (R.pt w) := by
    unfold orient; ring
  rw [this]; linarith

/-- the comparisons of an active edge `key` with the active edges below resp. above it -/
theorem cmpsV_below (h : ShOK R ε Vε) (hNV : NoVert R) {s : St XQ} {xs X : Rat} (hc : Cpl R ε xs X)
    {l : List IV} {b a : Option Nat}
    (hl : Linked s R b l a) (hx : s.x = .fin X) {key : AE} {L : List AE}
    (hL : ∀ x ∈ L, x ∈ flatE l) (hS : ∀ x ∈ flatE l, Span (shearRing ε R) xs x)
    (hk : Span (shearRing ε R) xs key) (hB : ∀ x ∈ L, Below (shearRing ε R) xs x key) :
    ∀ k ∈ L.map (·.id), ∃ l' r, EG s k l' r ∧
      cmpEdgeP (Fq (R.pt key.lv)) (Fq (R.pt key.rv)) l' r s.x = .gt := by
  intro k hk'
  obtain ⟨x, hx', rfl⟩ := List.mem_map.mp hk'
  refine ⟨_, _, Linked.eg hl x (hL x hx'), ?_⟩
  rw [hx]
  exact (cmpV_of_below h hNV hc (hS x (hL x hx')) hk (hB x hx')).2

theorem cmpsV_above (h : ShOK R ε Vε) (hNV : NoVert R) {s : St XQ} {xs X : Rat} (hc : Cpl R ε xs X)
    {l : List IV} {b a : Option Nat}
    (hl : Linked s R b l a) (hx : s.x = .fin X) {key : AE} {L : List AE}
    (hL : ∀ x ∈ L, x ∈ flatE l) (hS : ∀ x ∈ flatE l, Span (shearRing ε R) xs x)
    (hk : Span (shearRing ε R) xs key) (hB : ∀ x ∈ L, Below (shearRing ε R) xs key x) :
    ∀ k ∈ L.map (·.id), ∃ l' r, EG s k l' r ∧
      cmpEdgeP (Fq (R.pt key.lv)) (Fq (R.pt key.rv)) l' r s.x = .lt := by
  intro k hk'
  obtain ⟨x, hx', rfl⟩ := List.mem_map.mp hk'
  refine ⟨_, _, Linked.eg hl x (hL x hx'), ?_⟩
  rw [hx]
  exact (cmpV_of_below h hNV hc hk (hS x (hL x hx')) (hB x hx')).1

end Cav.GenVInv
