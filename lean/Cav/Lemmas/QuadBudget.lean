/-
  Helper lemmas for `Thm/C01Budget` (success of `gk1dLoop` over `Rat` within a budget, from a
  uniform bound on the panel estimates at one dyadic depth).

  * `dyadic a b d`: the `2^d` sub-panels of `[a,b]` obtained by `d` rounds of bisection, with the
    midpoint expression `(p + q) / 2` of the model (`Num.two = 2` over `Rat`, `QuadTiling.two_eq`);
  * width of a dyadic panel, the halves of a depth-`d` panel have depth `d+1`;
  * a chain from `a` to `b` made of dyadic panels of depth `≤ m` has at most `2^m` pieces;
  * the last element of the sorted set carries the largest estimate;
  * `loop_succeeds`: the loop invariant argument.
-/
import Cav.Model.Quad
import Cav.Inst.Rat
import Cav.Lemmas.QuadTiling
import Cav.Thm.C02
import Mathlib.Tactic.Ring
import Mathlib.Tactic.Linarith
import Mathlib.Tactic.Positivity
import Mathlib.Algebra.Order.Field.Rat
import Mathlib.Algebra.Order.Field.Basic
import Mathlib.Algebra.BigOperators.Group.List.Basic

open Cav Num Cav.QuadTiling
namespace Cav.C01Budget

/-- the two halves of a panel, with the midpoint expression of the model -/
def halves (p : Rat × Rat) : List (Rat × Rat) :=
  [(p.1, (p.1 + p.2) / 2), ((p.1 + p.2) / 2, p.2)]

/-- the dyadic sub-panels of `[a,b]` at depth `d` (left to right in the direction `a → b`) -/
def dyadic (a b : Rat) : Nat → List (Rat × Rat)
  | 0 => [(a, b)]
  | d + 1 => (dyadic a b d).flatMap halves

theorem dyadic_length (a b : Rat) (d : Nat) : (dyadic a b d).length = 2 ^ d := by
  induction d with
  | zero => rfl
  | succ d ih =>
    have : ∀ L : List (Rat × Rat), (L.flatMap halves).length = 2 * L.length := by
      intro L
      induction L with
      | nil => rfl
      | cons p ps ih => simp only [List.flatMap_cons, List.length_append, ih, halves,
          List.length_cons, List.length_nil]; omega
    rw [dyadic, this, ih, pow_succ]; omega

theorem dyadic_halves {a b : Rat} {d : Nat} {p : Rat × Rat} (hp : p ∈ dyadic a b d) :
    (p.1, (p.1 + p.2) / 2) ∈ dyadic a b (d + 1) ∧ ((p.1 + p.2) / 2, p.2) ∈ dyadic a b (d + 1) := by
  constructor
  · exact List.mem_flatMap.mpr ⟨p, hp, by simp [halves]⟩
  · exact List.mem_flatMap.mpr ⟨p, hp, by simp [halves]⟩

theorem dyadic_width {a b : Rat} {d : Nat} {p : Rat × Rat} (hp : p ∈ dyadic a b d) :
    p.2 - p.1 = (b - a) / 2 ^ d := by
  induction d generalizing p with
  | zero =>
    rw [dyadic, List.mem_singleton] at hp
    subst hp; simp
  | succ d ih =>
    obtain ⟨q, hq, hpq⟩ := List.mem_flatMap.mp hp
    have hw := ih hq
    simp only [halves, List.mem_cons, List.not_mem_nil, or_false] at hpq
    rcases hpq with rfl | rfl
    · simp only
      rw [pow_succ, ← div_div, ← hw]; ring
    · simp only
      rw [pow_succ, ← div_div, ← hw]; ring

/-- over `Rat` the panel estimate is an absolute value -/
theorem err_nonneg (f : Rat → Rat) (a b : Rat) : 0 ≤ (gkApprox f a b).2 := by
  show 0 ≤ Num.abs (symRule f a b Gen.g10 - symRule f a b Gen.k21)
  generalize symRule f a b Gen.g10 - symRule f a b Gen.k21 = x
  show 0 ≤ (if x < 0 then -x else x)
  split_ifs with h
  · linarith
  · exact not_lt.mp h

/-! ### sums over lists -/

theorem sum_ge_of_forall_ge {β : Type} (g : β → Rat) (k : Rat) (L : List β)
    (h : ∀ p ∈ L, k ≤ g p) : (L.length : Rat) * k ≤ (L.map g).sum := by
  induction L with
  | nil => simp
  | cons p ps ih =>
    have h1 := h p List.mem_cons_self
    have h2 := ih (fun q hq => h q (List.mem_cons_of_mem _ hq))
    simp only [List.length_cons, List.map_cons, List.sum_cons, Nat.cast_add, Nat.cast_one]
    linarith

theorem sum_le_of_forall_le {β : Type} (g : β → Rat) (k : Rat) (L : List β)
    (h : ∀ p ∈ L, g p ≤ k) : (L.map g).sum ≤ (L.length : Rat) * k := by
  induction L with
  | nil => simp
  | cons p ps ih =>
    have h1 := h p List.mem_cons_self
    have h2 := ih (fun q hq => h q (List.mem_cons_of_mem _ hq))
    simp only [List.length_cons, List.map_cons, List.sum_cons, Nat.cast_add, Nat.cast_one]
    linarith

/-- the relative widths of a chain from `a` to `b` add up to `(b − a) / c` -/
theorem chain_relwidth_sum (c : Rat) {a b : Rat} {L : List (Rat × Rat)} (h : Chain a b L) :
    (L.map (fun p => (p.2 - p.1) / c)).sum = (b - a) / c := by
  induction L generalizing a with
  | nil => simp only [Chain] at h; subst h; simp
  | cons p ps ih =>
    obtain ⟨h1, h2⟩ := h
    rw [List.map_cons, List.sum_cons, ih h2, ← h1]; ring

/-- a chain from `a` to `b` whose pieces are dyadic panels of depth `≤ m` has at most `2^m`
    pieces -/
theorem chain_dyadic_length_le {a b : Rat} (hab : a ≠ b) {m : Nat} {L : List (Rat × Rat)}
    (hc : Chain a b L) (hd : ∀ p ∈ L, ∃ d, d ≤ m ∧ p ∈ dyadic a b d) : L.length ≤ 2 ^ m := by
  have hc0 : b - a ≠ 0 := sub_ne_zero.mpr (Ne.symm hab)
  have hsum := chain_relwidth_sum (b - a) hc
  rw [div_self hc0] at hsum
  have hge : ∀ p ∈ L, (1 : Rat) / 2 ^ m ≤ (p.2 - p.1) / (b - a) := by
    intro p hp
    obtain ⟨d, hdm, hpd⟩ := hd p hp
    rw [dyadic_width hpd, div_div, mul_comm, ← div_div, div_self hc0]
    have h2 : (2 : Rat) ^ d ≤ 2 ^ m := pow_le_pow_right₀ (by norm_num) hdm
    exact one_div_le_one_div_of_le (by positivity) h2
  have h := sum_ge_of_forall_ge (fun p : Rat × Rat => (p.2 - p.1) / (b - a)) (1 / 2 ^ m) L hge
  rw [hsum] at h
  have hpos : (0 : Rat) < 2 ^ m := by positivity
  have h' : (L.length : Rat) ≤ 2 ^ m := by
    rw [mul_one_div, div_le_one hpos] at h
    exact h
  exact_mod_cast h'

/-! ### the worst panel -/

/-- the last element of the sorted set has the largest estimate -/
theorem getLast_err_max {s : List (Panel Rat)} (hs : Sorted s) {iv : Panel Rat}
    (h : s.getLast? = some iv) : ∀ p ∈ s, p.err ≤ iv.err := by
  obtain ⟨ys, rfl⟩ := List.getLast?_eq_some_iff.mp h
  intro p hp
  rcases List.mem_append.mp hp with hp | hp
  · have := (List.pairwise_append.mp hs).2.2 p hp iv (List.mem_singleton.mpr rfl)
    rcases (plt_iff p iv).mp this with h | ⟨h, _⟩
    · exact le_of_lt h
    · exact le_of_eq h
  · rw [List.mem_singleton.mp hp]

/-! ### one bisection step: the new set as a multiset -/

/-- after a bisection step the new set is the old one with the selected panel replaced by its
    two halves (as multisets) -/
theorem step_perm {f : Rat → Rat} {r : Rat → Rat → Prop} (hr : Dir r) {a b accu : Rat}
    {set : List (Panel Rat)} {tr : List (Rat × Rat)} (inv : Inv f r a b accu set tr)
    {iv : Panel Rat} (hiv : iv ∈ set) {m : Rat} (hm : m = (iv.a + iv.b) / 2) (Lp Rp : Panel Rat)
    (hLab : ab Lp = (iv.a, m)) (hRab : ab Rp = (m, iv.b)) :
    (iv :: setRemove iv (setInsert Rp (setInsert Lp set))).Perm (Rp :: Lp :: set) := by
  obtain ⟨L, hperm, hchain, hdir⟩ := inv.tiling
  have hivL : (iv.a, iv.b) ∈ L := hperm.mem_iff.mpr (List.mem_map.mpr ⟨iv, hiv, rfl⟩)
  obtain ⟨L1, L2, rfl⟩ := List.append_of_mem hivL
  have hxy : r iv.a iv.b := hdir _ hivL
  have hxm : r iv.a m := hm ▸ hr.midl hxy
  have hmy : r m iv.b := hm ▸ hr.midr hxy
  have hLnew : Lp ∉ set := by
    intro h
    have : ab Lp ∈ L1 ++ (iv.a, iv.b) :: L2 := hperm.mem_iff.mpr (List.mem_map.mpr ⟨Lp, h, rfl⟩)
    rw [hLab] at this
    exact chain_left_not_mem hr hchain hdir hxm hmy this
  have hRnew : Rp ∉ setInsert Lp set := by
    intro h
    rcases mem_setInsert h with h | h
    · have h' : ab Rp = ab Lp := by rw [h]
      rw [hLab, hRab] at h'
      have : m = iv.a := congrArg Prod.fst h'
      exact hr.irrefl _ (this ▸ hxm)
    · have : ab Rp ∈ L1 ++ (iv.a, iv.b) :: L2 := hperm.mem_iff.mpr (List.mem_map.mpr ⟨Rp, h, rfl⟩)
      rw [hRab] at this
      exact chain_right_not_mem hr hchain hdir hxm hmy this
  have hs2 : Sorted (setInsert Rp (setInsert Lp set)) := setInsert_sorted (setInsert_sorted inv.sorted)
  have hp2 : (setInsert Rp (setInsert Lp set)).Perm (Rp :: Lp :: set) :=
    (setInsert_perm hRnew).trans ((setInsert_perm hLnew).cons Rp)
  have hiv2 : iv ∈ setInsert Rp (setInsert Lp set) :=
    hp2.mem_iff.mpr (List.mem_cons_of_mem _ (List.mem_cons_of_mem _ hiv))
  exact (setRemove_perm hs2 hiv2).symm.trans hp2

/-! ### the loop -/

/-- the number of panels in a state satisfying the invariant, all of depth `≤ m` -/
theorem set_length_le {f : Rat → Rat} {r : Rat → Rat → Prop} {a b accu : Rat}
    {set : List (Panel Rat)} {tr : List (Rat × Rat)} (inv : Inv f r a b accu set tr)
    (hab : a ≠ b) {m : Nat}
    (hdep : ∀ p ∈ set, ∃ d, d ≤ m ∧ (p.a, p.b) ∈ dyadic a b d) : set.length ≤ 2 ^ m := by
  obtain ⟨L, hperm, hchain, _⟩ := inv.tiling
  have hlen : L.length = set.length := by rw [hperm.length_eq, List.length_map]
  rw [← hlen]
  refine chain_dyadic_length_le hab hchain ?_
  intro p hp
  obtain ⟨q, hq, rfl⟩ := List.mem_map.mp (hperm.mem_iff.mp hp)
  exact hdep q hq

/-- **the invariant argument.**  From a state satisfying the tiling invariant in which every
    panel is a dyadic panel of depth `≤ m`, with `fuel + #panels ≥ 2^m + 1`, the loop succeeds;
    and it evaluates the rule pair on at most `2·(2^m − #panels)` further panels. -/
theorem loop_succeeds {r : Rat → Rat → Prop} (hr : Dir r) (f : Rat → Rat) (tol a b η : Rat)
    (m : Nat) (hab : a ≠ b)
    (hη : ∀ p ∈ dyadic a b m, (gkApprox f p.1 p.2).2 ≤ η) (htol : 2 ^ m * η < tol) :
    ∀ (fuel : Nat) (accu : Rat) (set : List (Panel Rat)) (tr : List (Rat × Rat)),
      Inv f r a b accu set tr →
      (∀ p ∈ set, ∃ d, d ≤ m ∧ (p.a, p.b) ∈ dyadic a b d) →
      2 ^ m + 1 ≤ fuel + set.length →
      ∃ v e, (gk1dLoop f tol fuel accu set tr).res = .ok (v, e) ∧
        (gk1dLoop f tol fuel accu set tr).panels.length + 2 * set.length ≤
          tr.length + 2 * 2 ^ m := by
  intro fuel
  induction fuel with
  | zero =>
    intro accu set tr inv hdep hfuel
    have := set_length_le inv hab hdep
    omega
  | succ n ih =>
    intro accu set tr inv hdep hfuel
    have hlen := set_length_le inv hab hdep
    unfold gk1dLoop
    have hn : Num.isNaN accu = false := rfl
    simp only [hn]
    by_cases hl : Num.lt accu tol = true
    · simp only [hl, if_true, Bool.false_eq_true, if_false]
      refine ⟨_, _, rfl, ?_⟩
      simp only [List.length_reverse]
      omega
    · simp only [hl, Bool.false_eq_true, if_false]
      have hnlt : ¬ accu < tol := by
        intro h; exact hl (decide_eq_true h)
      cases hs : set.getLast? with
      | none =>
        exfalso
        have hnil : set = [] := List.getLast?_eq_none_iff.mp hs
        obtain ⟨L, hperm, hchain, _⟩ := inv.tiling
        rw [hnil] at hperm
        have : L = [] := by simpa using hperm
        rw [this] at hchain
        exact hab hchain
      | some iv =>
        simp only []
        have hiv : iv ∈ set := List.mem_of_getLast? hs
        obtain ⟨hne, inv'⟩ := inv.step hr hiv (m := (iv.a + iv.b) / two) (by rw [two_eq])
        have hb : Num.bne iv.a iv.b = true := by
          simp [Num.bne, Num.beq, hne]
        simp only [hb, if_true]
        -- the worst panel is not at depth `m`
        obtain ⟨d, hdm, hivd⟩ := hdep iv hiv
        have hmax := getLast_err_max inv.sorted hs
        have hdlt : d < m := by
          rcases Nat.lt_or_ge d m with h | h
          · exact h
          · exfalso
            have hdm' : d = m := le_antisymm hdm h
            subst hdm'
            have h1 : iv.err ≤ η :=
              le_of_eq_of_le (inv.eval iv hiv).2 (hη (iv.a, iv.b) hivd)
            have h0 : 0 ≤ iv.err :=
              le_of_le_of_eq (err_nonneg f iv.a iv.b) (inv.eval iv hiv).2.symm
            have h2 : accu ≤ (set.length : Rat) * iv.err :=
              le_of_eq_of_le inv.accu (sum_le_of_forall_le (fun p : Panel Rat => p.err) iv.err set hmax)
            have h3 : (set.length : Rat) ≤ 2 ^ d := by exact_mod_cast hlen
            have h4 : (set.length : Rat) * iv.err ≤ 2 ^ d * η :=
              mul_le_mul h3 h1 h0 (by positivity)
            exact hnlt (lt_of_le_of_lt (le_trans h2 h4) htol)
        -- the new state
        have hperm := step_perm hr inv hiv (m := (iv.a + iv.b) / two) (by rw [two_eq])
          ⟨(gkApprox f iv.a ((iv.a + iv.b) / two)).2, (gkApprox f iv.a ((iv.a + iv.b) / two)).1,
            iv.a, (iv.a + iv.b) / two⟩
          ⟨(gkApprox f ((iv.a + iv.b) / two) iv.b).2, (gkApprox f ((iv.a + iv.b) / two) iv.b).1,
            (iv.a + iv.b) / two, iv.b⟩ rfl rfl
        have hhalves := dyadic_halves hivd
        simp only at hhalves
        rw [← two_eq] at hhalves
        generalize hset' : setRemove iv
          (setInsert ⟨(gkApprox f ((iv.a + iv.b) / two) iv.b).2,
              (gkApprox f ((iv.a + iv.b) / two) iv.b).1, (iv.a + iv.b) / two, iv.b⟩
            (setInsert ⟨(gkApprox f iv.a ((iv.a + iv.b) / two)).2,
              (gkApprox f iv.a ((iv.a + iv.b) / two)).1, iv.a, (iv.a + iv.b) / two⟩ set)) = set'
          at hperm inv' ⊢
        have hlen' : set'.length = set.length + 1 := by
          have := hperm.length_eq
          simp only [List.length_cons] at this
          omega
        have hdep' : ∀ p ∈ set', ∃ d, d ≤ m ∧ (p.a, p.b) ∈ dyadic a b d := by
          intro p hp
          have := hperm.mem_iff.mp (List.mem_cons_of_mem _ hp)
          simp only [List.mem_cons] at this
          rcases this with rfl | rfl | h
          · exact ⟨d + 1, hdlt, hhalves.2⟩
          · exact ⟨d + 1, hdlt, hhalves.1⟩
          · exact hdep p h
        obtain ⟨v, e, hres, hcnt⟩ := ih _ set' _ inv' hdep' (by omega)
        refine ⟨v, e, hres, ?_⟩
        simp only [List.length_cons] at hcnt
        omega

end Cav.C01Budget
