/-
  Equal abscissae, part 12 (vertical edges, heap level): the Start event from an arbitrary state
  with `VicFree` in place of "the new edges are not vertical" (copies of the lemmas of
  `GenStart*.lean`; the two calls of `verticalIsCrossed` are executed by `run_vic`).
-/
import Cav.Lemmas.GenVHeap

set_option linter.unusedSimpArgs false
set_option linter.unusedVariables false
set_option linter.unusedSectionVars false

namespace Cav.GenVHeap
open Cav Num Cav.Sweep Cav.SweepRun Cav.TriRun Cav.QuadRun Cav.CvxHeap Cav.CvxEvents Cav.SweepOut
open Cav.GenNodes Cav.GenQuery Cav.GenActive Cav.GenBend Cav.SweepHeap Cav.TriEvents Cav.GenStart

variable {α : Type} [Num α]

/-- `VicFree` for the state in which `handleStart` calls `verticalIsCrossed` -/
theorem vicfree_of (s : St α) (P Q : List Nat) (L Rr : Nat → Pt α) (hact : s.active = P ++ Q)
    (hG : ∀ k ∈ P ++ Q, EG s k (L k) (Rr k)) (p rp : Pt α)
    (hv : ofEq rp.x p.x = false ∨ ∀ k ∈ P ++ Q,
      (ofLt p.y (yExtrap (L k) (Rr k) p.x true) && ofLt (yExtrap (L k) (Rr k) p.x true) rp.y) = false) :
    ∀ (s' : St α) {n : Node α} {c : Chain}, s'.nodes = s.nodes.push n → s'.chains = s.chains.push c →
      s'.edges = s.edges → s'.active = P ++ Q → VicFree s' none p rp := by
  intro s' n c hn hc he ha
  rcases hv with h | h
  · exact Or.inl h
  · right
    intro k hk _
    rw [ha] at hk
    exact ⟨_, _, start_eg s s' n c hn hc (fun k e hke => ⟨e, by rw [he]; exact hke, rfl, rfl, rfl⟩)
      (hG k hk), h k hk⟩

theorem vicfree_nil (s : St α) (P Q : List Nat) (hP : P = []) (hQ : Q = []) (p rp : Pt α) :
    ∀ (s' : St α) {n : Node α} {c : Chain}, s'.nodes = s.nodes.push n → s'.chains = s.chains.push c →
      s'.edges = s.edges → s'.active = P ++ Q → VicFree s' none p rp := by
  intro s' n c _ _ _ ha
  right
  intro k hk
  rw [ha, hP, hQ] at hk
  cases hk

section
variable (s : St α) (vi lp1 lp2 lpB lpT a1 a2 a3 a4 : Nat) (es : List Nat)
  (rest : List (Nat × List Nat)) (p pB pT : Pt α) (P Q : List Nat) (L Rr : Nat → Pt α)

set_option hygiene false in
/-- the two new edges, their registration, and the two look-ups of the new edges -/
macro "start_preV" : tactic => `(tactic| (
   sm_steps [hc1, hB, hT]
   sm_use (run_vic _ none p pB ?h1)
   case h1 => exact hvfB _ rfl rfl rfl rfl
   sm_whnf
   sm_steps [hc1, hB, hT]
   sm_use (run_vic _ none p pT ?h1)
   case h1 => exact hvfT _ rfl rfl rfl rfl
   sm_whnf
   sm_steps [hc1, hB, hT]
   sm_by (run_getEdge_some (push2_get0 _ _ _))
   sm_bind
   sm_by (run_getEdge_some (push2_get1 _ _ _ _))
   sm_bind
   sm_use (run_eventsAdd lpB s.edges.size _ ⟨pB, a1, a2⟩ ?h1 ?h2)
   case h1 => exact hB
   case h2 => exact hevs
   sm_whnf
   sm_use (run_eventsAdd lpT (s.edges.size + 1) _ ⟨pT, a3, a4⟩ ?h1 ?h2)
   case h1 => exact hT
   case h2 => exact hevs1
   sm_whnf
   sm_bind
   sm_get
     exact startEdges_bot s.edges pB pT s.chains.size
   sm_by (run_search_between _ p (startSt s rest p pB pT lpB lpT (P ++ Q))
     (start_lpt_new s p _ rfl rfl _ rfl) hmS P Q hS1PB hS1QB)
   sm_get
     exact startEdges_top s.edges pB pT s.chains.size
   sm_by (run_search_between _ p (startSt s rest p pB pT lpB lpT (P ++ Q))
     (start_lpt_new s p _ rfl rfl _ rfl) hmS P Q hS1PT hS1QT)))


set_option hygiene false in
macro "start_nn_tailV" : tactic => `(tactic| (
   start_preV
   simp (config := { zeta := false }) only [Bool.false_eq_true, if_false, hbbE, httE]
   sm_whnf
   unfold startSt
   sm_steps [hlen0]
   sm_get
     exact startEdges_bot s.edges pB pT s.chains.size
   sm_bind
   sm_get
     dsimp only
     lk_ne; exact startEdges_top s.edges pB pT s.chains.size
   sm_bind
   sm_use (run_activeInsert _ s.edges.size ⟨pB, s.chains.size, true, none, some (s.edges.size + 1)⟩
     p ?h1 ?h2 ?h3 P Q ?h4 ?h5 ?h6)
   case h1 => dsimp only; lk_ne; lk_self
   case h2 => exact start_lpt_new s p _ rfl rfl _ rfl
   case h3 => exact hm
   case h4 => rfl
   case h5 => intro k hk; rw [hP] at hk; cases hk
   case h6 => intro k hk; rw [hQ] at hk; cases hk
   dsimp only
   refine Runs.final ?_
   refine (run_activeInsert _ (s.edges.size + 1)
     ⟨pT, s.chains.size, false, some s.edges.size, none⟩ p ?h1 ?h2 ?h3 (P ++ [s.edges.size]) Q
     ?h4 ?h5 ?h6).trans ?fin
   case h1 => dsimp only; lk_self
   case h2 => exact start_lpt_new s p _ rfl rfl _ rfl
   case h3 => exact hm
   case h4 => simp
   case h5 =>
     intro k hk
     rw [hP] at hk
     simp only [List.nil_append, List.mem_singleton] at hk
     subst hk
     refine ⟨p, pB, ⟨⟨pB, s.chains.size, true, none, some (s.edges.size + 1)⟩, ?_,
       start_lpt_new s p _ rfl rfl _ rfl, rfl⟩, hc2⟩
     dsimp only; lk_ne; lk_self
   case h6 => intro k hk; rw [hQ] at hk; cases hk
   case fin =>
     unfold startRes startSt
     rw [hP, hQ]
     rfl))

set_option maxHeartbeats 1000000 in
/-- Start with nothing active -/
theorem start_run_nnV
    (hev : s.events = (vi, es) :: rest)
    (hv : s.verts[vi]? = some ⟨p, lp1, lp2⟩) (hn : Nbrs lp1 lp2 lpB lpT)
    (hB : s.verts[lpB]? = some ⟨pB, a1, a2⟩) (hT : s.verts[lpT]? = some ⟨pT, a3, a4⟩)
    (hs1 : fromTriplet p pB pT = some .start) (hs2 : fromTriplet p pT pB = some .start)
    (hc1 : cmpEdgeP p pB p pT p.x = .lt) (hc2 : cmpEdgeP p pT p pB p.x = .gt)
    (hevs : ∀ a ∈ rest, a.1 < s.verts.size)
    (hm : s.mono = true) (hact0 : s.active = []) :
    (handleNext : SM α Unit).run s = .ok ((),
      startRes s lpB lpT rest p pB pT (linkEnn s.edges pB pT s.chains.size)
        [s.edges.size, s.edges.size + 1]) := by
  rw [handleNext_run_cons hev]
  unfold nextBody
  show Runs s _ _
  obtain ⟨P, hP⟩ : ∃ P : List Nat, P = [] := ⟨[], rfl⟩
  obtain ⟨Q, hQ⟩ : ∃ Q : List Nat, Q = [] := ⟨[], rfl⟩
  have hact : s.active = P ++ Q := by rw [hP, hQ]; exact hact0
  have hvfB := vicfree_nil s P Q hP hQ p pB
  have hvfT := vicfree_nil s P Q hP hQ p pT
  have hS1PB : ∀ k ∈ P, ∃ l r, EG (startSt s rest p pB pT lpB lpT (P ++ Q)) k l r ∧
      cmpEdgeP p pB l r p.x = .gt := by intro k hk; rw [hP] at hk; cases hk
  have hS1QB : ∀ k ∈ Q, ∃ l r, EG (startSt s rest p pB pT lpB lpT (P ++ Q)) k l r ∧
      cmpEdgeP p pB l r p.x = .lt := by intro k hk; rw [hQ] at hk; cases hk
  have hS1PT : ∀ k ∈ P, ∃ l r, EG (startSt s rest p pB pT lpB lpT (P ++ Q)) k l r ∧
      cmpEdgeP p pT l r p.x = .gt := by intro k hk; rw [hP] at hk; cases hk
  have hS1QT : ∀ k ∈ Q, ∃ l r, EG (startSt s rest p pB pT lpB lpT (P ++ Q)) k l r ∧
      cmpEdgeP p pT l r p.x = .lt := by intro k hk; rw [hQ] at hk; cases hk
  have hmS : (startSt s rest p pB pT lpB lpT (P ++ Q)).mono = true := hm
  have hevs1 : ∀ a ∈ evAdd s.verts pB lpB s.edges.size rest, a.1 < s.verts.size := by
    intro a ha
    rcases evAdd_keys _ _ _ _ _ a ha with h | ⟨b, hb, h⟩
    · rw [h]; exact lt_of_get' hB
    · rw [← h]; exact hevs b hb
  have hbbE : (if (P.length == 0) = true then none else (P ++ Q)[P.length - 1]?) = none := by
    rw [getLast_of_pos, hP]; rfl
  have httE : (P ++ Q)[P.length]? = none := by
    rw [head_of_append, hQ]; rfl
  have hlen0 : ¬ (0 < P.length + Q.length) := by rw [hP, hQ]; simp
  have hv' : s.verts[vi]? = some ⟨p, lpB, lpT⟩ ∨ s.verts[vi]? = some ⟨p, lpT, lpB⟩ := by
    rcases hn with ⟨h1, h2⟩ | ⟨h1, h2⟩
    · left; rw [← h1, ← h2]; exact hv
    · right; rw [← h1, ← h2]; exact hv
  clear hv hn
  rcases hv' with hv | hv
  · start_head1
    start_nn_tailV
  · start_head2
    start_nn_tailV


set_option hygiene false in
macro "start_ns_tailV" : tactic => `(tactic| (
   start_preV
   simp (config := { zeta := false }) only [Bool.false_eq_true, if_false, hbbE, httE]
   sm_whnf
   sm_steps
   sm_get
     exact fa_tt
   sm_by (run_search_found' ctt (L tt) (startSt s rest p pB pT lpB lpT (P ++ Q))
     (start_lpt_old s _ _ _ rfl rfl _ _ httl) hmS (P ++ Q) P Q' tt hPQ2
     (fun k hk => ⟨_, _, hS1 k (List.mem_append_left _ hk), by rw [httr]; exact httP k hk⟩)
     ⟨_, _, hS1 tt httm, by rw [httr]; exact httS⟩
     (fun k hk => ⟨_, _, hS1 k (by rw [hQ]; simp [hk]), by rw [httr]; exact httQ k hk⟩))
   sm_bind
   sm_cond [hlen0]
   unfold startSt
   sm_get
     exact startEdges_bot s.edges pB pT s.chains.size
   sm_bind
   sm_get
     dsimp only
     lk_ne; exact startEdges_top s.edges pB pT s.chains.size
   sm_get
     dsimp only
     lk_ne; exact fa_tt
   sm_bind
   sm_get
     dsimp only
     lk_ne; lk_ne; exact fa_tt
   sm_bind
   sm_use (run_wot_some _ (s.edges.size + 1) tt false ⟨pT, s.chains.size, !ctt.bofIn, some s.edges.size, some tt⟩
     { ctt with bPart := some (s.edges.size + 1) } p (L tt) ?h1 ?h2 ?h3 ?h4 ?h5 ?h6)
   case h1 => dsimp only; lk_ne; lk_self
   case h2 => rfl
   case h3 => omega
   case h4 => dsimp only; lk_self
   case h5 => exact start_lpt_new s p _ rfl rfl _ rfl
   case h6 => exact start_lpt_old s _ _ _ rfl rfl _ _ httl
   sm_whnf
   sm_cond [hwot']
   have hkeep : Keeps s.edges (linkEns s.edges pB pT s.chains.size tt ctt) :=
     (((Keeps.start s.edges pB pT s.chains.size).set_new (Nat.le_refl _) _).set_new
       (Nat.le_succ _) _).set_old httc rfl rfl rfl
   sm_use (run_activeInsert _ s.edges.size ⟨pB, s.chains.size, true, none, some (s.edges.size + 1)⟩
     p ?h1 ?h2 ?h3 P Q ?h4 ?h5 ?h6)
   case h1 => dsimp only; lk_ne; lk_ne; lk_self
   case h2 => exact start_lpt_new s p _ rfl rfl _ rfl
   case h3 => exact hm
   case h4 => rfl
   case h5 => intro k hk; rw [hP] at hk; cases hk
   case h6 =>
     intro k hk
     exact ⟨_, _, start_eg s _ _ _ rfl rfl (fun k e he => by dsimp only; exact hkeep k e he)
       (hG k (List.mem_append_right _ hk)), hQB k hk⟩
   dsimp only
   refine Runs.final ?_
   refine (run_activeInsert _ (s.edges.size + 1)
     ⟨pT, s.chains.size, !ctt.bofIn, some s.edges.size, some tt⟩ p ?h1 ?h2 ?h3 (P ++ [s.edges.size]) Q
     ?h4 ?h5 ?h6).trans ?fin
   case h1 => dsimp only; lk_ne; lk_self
   case h2 => exact start_lpt_new s p _ rfl rfl _ rfl
   case h3 => exact hm
   case h4 => simp
   case h5 =>
     intro k hk
     rw [hP] at hk
     simp only [List.nil_append, List.mem_singleton] at hk
     subst hk
     refine ⟨p, pB, ⟨⟨pB, s.chains.size, true, none, some (s.edges.size + 1)⟩, ?_,
       start_lpt_new s p _ rfl rfl _ rfl, rfl⟩, hc2⟩
     dsimp only; lk_ne; lk_ne; lk_self
   case h6 =>
     intro k hk
     exact ⟨_, _, start_eg s _ _ _ rfl rfl (fun k e he => by dsimp only; exact hkeep k e he)
       (hG k (List.mem_append_right _ hk)), hQT k hk⟩
   case fin =>
     unfold startRes startSt
     simp only [List.append_assoc, List.cons_append, List.nil_append]))

set_option maxHeartbeats 1000000 in
/-- proper Start below all active edges: no lower partner, upper partner `tt` -/
theorem start_run_nsV (Q' : List Nat) (tt : Nat) (ctt : Edge α)
    (hev : s.events = (vi, es) :: rest)
    (hv : s.verts[vi]? = some ⟨p, lp1, lp2⟩) (hn : Nbrs lp1 lp2 lpB lpT)
    (hB : s.verts[lpB]? = some ⟨pB, a1, a2⟩) (hT : s.verts[lpT]? = some ⟨pT, a3, a4⟩)
    (hs1 : fromTriplet p pB pT = some .start) (hs2 : fromTriplet p pT pB = some .start)
    (hvB : ofEq pB.x p.x = false ∨ ∀ k ∈ P ++ Q,
      (ofLt p.y (yExtrap (L k) (Rr k) p.x true) && ofLt (yExtrap (L k) (Rr k) p.x true) pB.y) = false)
    (hvT : ofEq pT.x p.x = false ∨ ∀ k ∈ P ++ Q,
      (ofLt p.y (yExtrap (L k) (Rr k) p.x true) && ofLt (yExtrap (L k) (Rr k) p.x true) pT.y) = false)
    (hc1 : cmpEdgeP p pB p pT p.x = .lt) (hc2 : cmpEdgeP p pT p pB p.x = .gt)
    (hevs : ∀ a ∈ rest, a.1 < s.verts.size)
    (hm : s.mono = true) (hP : P = []) (hQ : Q = tt :: Q') (hact : s.active = P ++ Q)
    (hG : ∀ k ∈ P ++ Q, EG s k (L k) (Rr k))
    (hQB : ∀ k ∈ Q, cmpEdgeP p pB (L k) (Rr k) p.x = .lt)
    (hQT : ∀ k ∈ Q, cmpEdgeP p pT (L k) (Rr k) p.x = .lt)
    (httc : s.edges[tt]? = some ctt)
    (httP : ∀ k ∈ P, cmpEdgeP (L tt) (Rr tt) (L k) (Rr k) p.x = .gt)
    (httS : cmpEdgeP (L tt) (Rr tt) (L tt) (Rr tt) p.x = .eq)
    (httQ : ∀ k ∈ Q', cmpEdgeP (L tt) (Rr tt) (L k) (Rr k) p.x = .lt)
    (hwot : wotP p pT (L tt) (Rr tt) = false) :
    (handleNext : SM α Unit).run s = .ok ((),
      startRes s lpB lpT rest p pB pT (linkEns s.edges pB pT s.chains.size tt ctt)
        (P ++ s.edges.size :: (s.edges.size + 1) :: Q)) := by
  rw [handleNext_run_cons hev]
  unfold nextBody
  show Runs s _ _
  have hvfB := vicfree_of s P Q L Rr hact hG p pB hvB
  have hvfT := vicfree_of s P Q L Rr hact hG p pT hvT
  have httlt : tt < s.edges.size := lt_of_get' httc
  have httm : tt ∈ P ++ Q := by rw [hQ]; simp
  obtain ⟨httl, httr⟩ : lpt? s ctt = some (L tt) ∧ ctt.rpt = Rr tt := by
    obtain ⟨e, he, h3, h4⟩ := hG tt httm
    rw [httc] at he; cases he; exact ⟨h3, h4⟩
  have fa_tt : (startEdges s.edges pB pT s.chains.size)[tt]? = some ctt := by
    rw [startEdges_old _ _ _ _ httlt]; exact httc
  have hS1 : ∀ k ∈ P ++ Q, EG (startSt s rest p pB pT lpB lpT (P ++ Q)) k (L k) (Rr k) :=
    fun k hk => start_prefix_eg s lpB lpT rest p pB pT (P ++ Q) (hG k hk)
  have hS1PB : ∀ k ∈ P, ∃ l r, EG (startSt s rest p pB pT lpB lpT (P ++ Q)) k l r ∧
      cmpEdgeP p pB l r p.x = .gt := by intro k hk; rw [hP] at hk; cases hk
  have hS1QB : ∀ k ∈ Q, ∃ l r, EG (startSt s rest p pB pT lpB lpT (P ++ Q)) k l r ∧
      cmpEdgeP p pB l r p.x = .lt := fun k hk => ⟨_, _, hS1 k (List.mem_append_right _ hk), hQB k hk⟩
  have hS1PT : ∀ k ∈ P, ∃ l r, EG (startSt s rest p pB pT lpB lpT (P ++ Q)) k l r ∧
      cmpEdgeP p pT l r p.x = .gt := by intro k hk; rw [hP] at hk; cases hk
  have hS1QT : ∀ k ∈ Q, ∃ l r, EG (startSt s rest p pB pT lpB lpT (P ++ Q)) k l r ∧
      cmpEdgeP p pT l r p.x = .lt := fun k hk => ⟨_, _, hS1 k (List.mem_append_right _ hk), hQT k hk⟩
  have hmS : (startSt s rest p pB pT lpB lpT (P ++ Q)).mono = true := hm
  have hevs1 : ∀ a ∈ evAdd s.verts pB lpB s.edges.size rest, a.1 < s.verts.size := by
    intro a ha
    rcases evAdd_keys _ _ _ _ _ a ha with h | ⟨b, hb, h⟩
    · rw [h]; exact lt_of_get' hB
    · rw [← h]; exact hevs b hb
  have hbbE : (if (P.length == 0) = true then none else (P ++ Q)[P.length - 1]?) = none := by
    rw [getLast_of_pos, hP]; rfl
  have httE : (P ++ Q)[P.length]? = some tt := by
    rw [head_of_append, hQ]; rfl
  have hPQ2 : P ++ Q = P ++ tt :: Q' := by rw [hQ]
  have hlen0 : ¬ (0 < P.length) := by rw [hP]; simp
  have hwot' : wotP p pT (L tt) ctt.rpt = false := by rw [httr]; exact hwot
  have hv' : s.verts[vi]? = some ⟨p, lpB, lpT⟩ ∨ s.verts[vi]? = some ⟨p, lpT, lpB⟩ := by
    rcases hn with ⟨h1, h2⟩ | ⟨h1, h2⟩
    · left; rw [← h1, ← h2]; exact hv
    · right; rw [← h1, ← h2]; exact hv
  clear hv hn
  rcases hv' with hv | hv
  · start_head1
    start_ns_tailV
  · start_head2
    start_ns_tailV

set_option hygiene false in
macro "start_sn_tailV" : tactic => `(tactic| (
   start_preV
   simp (config := { zeta := false }) only [Bool.false_eq_true, if_false, hbbE, httE]
   sm_whnf
   sm_get
     exact fa_bb
   sm_by (run_search_found' cbb (L bb) (startSt s rest p pB pT lpB lpT (P ++ Q))
     (start_lpt_old s _ _ _ rfl rfl _ _ hbbl) hmS (P ++ Q) P' Q bb hPQ1
     (fun k hk => ⟨_, _, hS1 k (by rw [hP]; simp [hk]), by rw [hbbr]; exact hbbP k hk⟩)
     ⟨_, _, hS1 bb hbbm, by rw [hbbr]; exact hbbS⟩
     (fun k hk => ⟨_, _, hS1 k (List.mem_append_right _ hk), by rw [hbbr]; exact hbbQ k hk⟩))
   sm_bind
   sm_bind
   sm_cond [hlen1]
   unfold startSt
   sm_get
     exact startEdges_bot s.edges pB pT s.chains.size
   sm_get
     exact fa_bb
   sm_bind
   sm_get
     dsimp only
     lk_ne; exact fa_bb
   sm_bind
   sm_use (run_wob_some _ s.edges.size bb false ⟨pB, s.chains.size, !cbb.bofIn, some bb, some (s.edges.size + 1)⟩
     { cbb with tPart := some s.edges.size } p (L bb) ?h1 ?h2 ?h3 ?h4 ?h5 ?h6)
   case h1 => dsimp only; lk_ne; lk_self
   case h2 => rfl
   case h3 => omega
   case h4 => dsimp only; lk_self
   case h5 => exact start_lpt_new s p _ rfl rfl _ rfl
   case h6 => exact start_lpt_old s _ _ _ rfl rfl _ _ hbbl
   sm_whnf
   sm_cond [hwob']
   sm_get
     dsimp only
     lk_ne; lk_ne; exact startEdges_top s.edges pB pT s.chains.size
   sm_bind
   have hkeep : Keeps s.edges (linkEsn s.edges pB pT s.chains.size bb cbb) :=
     (((Keeps.start s.edges pB pT s.chains.size).set_new (Nat.le_refl _) _).set_old
       (v := { cbb with tPart := some s.edges.size }) hbbc rfl rfl rfl).set_new (Nat.le_succ _) _
   sm_use (run_activeInsert _ s.edges.size ⟨pB, s.chains.size, !cbb.bofIn, some bb, some (s.edges.size + 1)⟩
     p ?h1 ?h2 ?h3 P Q ?h4 ?h5 ?h6)
   case h1 => dsimp only; lk_ne; lk_ne; lk_self
   case h2 => exact start_lpt_new s p _ rfl rfl _ rfl
   case h3 => exact hm
   case h4 => rfl
   case h5 =>
     intro k hk
     exact ⟨_, _, start_eg s _ _ _ rfl rfl (fun k e he => by dsimp only; exact hkeep k e he)
       (hG k (List.mem_append_left _ hk)), hPB k hk⟩
   case h6 => intro k hk; rw [hQ] at hk; cases hk
   dsimp only
   refine Runs.final ?_
   refine (run_activeInsert _ (s.edges.size + 1)
     ⟨pT, s.chains.size, false, some s.edges.size, none⟩ p ?h1 ?h2 ?h3 (P ++ [s.edges.size]) Q
     ?h4 ?h5 ?h6).trans ?fin
   case h1 => dsimp only; lk_self
   case h2 => exact start_lpt_new s p _ rfl rfl _ rfl
   case h3 => exact hm
   case h4 => simp
   case h5 =>
     intro k hk
     rcases List.mem_append.mp hk with hk | hk
     · exact ⟨_, _, start_eg s _ _ _ rfl rfl (fun k e he => by dsimp only; exact hkeep k e he)
         (hG k (List.mem_append_left _ hk)), hPT k hk⟩
     · simp only [List.mem_singleton] at hk
       subst hk
       refine ⟨p, pB, ⟨⟨pB, s.chains.size, !cbb.bofIn, some bb, some (s.edges.size + 1)⟩, ?_,
         start_lpt_new s p _ rfl rfl _ rfl, rfl⟩, hc2⟩
       dsimp only; lk_ne; lk_ne; lk_self
   case h6 => intro k hk; rw [hQ] at hk; cases hk
   case fin =>
     unfold startRes startSt
     simp only [List.append_assoc, List.cons_append, List.nil_append]))

set_option maxHeartbeats 1000000 in
/-- proper Start above all active edges: lower partner `bb`, no upper partner -/
theorem start_run_snV (P' : List Nat) (bb : Nat) (cbb : Edge α)
    (hev : s.events = (vi, es) :: rest)
    (hv : s.verts[vi]? = some ⟨p, lp1, lp2⟩) (hn : Nbrs lp1 lp2 lpB lpT)
    (hB : s.verts[lpB]? = some ⟨pB, a1, a2⟩) (hT : s.verts[lpT]? = some ⟨pT, a3, a4⟩)
    (hs1 : fromTriplet p pB pT = some .start) (hs2 : fromTriplet p pT pB = some .start)
    (hvB : ofEq pB.x p.x = false ∨ ∀ k ∈ P ++ Q,
      (ofLt p.y (yExtrap (L k) (Rr k) p.x true) && ofLt (yExtrap (L k) (Rr k) p.x true) pB.y) = false)
    (hvT : ofEq pT.x p.x = false ∨ ∀ k ∈ P ++ Q,
      (ofLt p.y (yExtrap (L k) (Rr k) p.x true) && ofLt (yExtrap (L k) (Rr k) p.x true) pT.y) = false)
    (hc1 : cmpEdgeP p pB p pT p.x = .lt) (hc2 : cmpEdgeP p pT p pB p.x = .gt)
    (hevs : ∀ a ∈ rest, a.1 < s.verts.size)
    (hm : s.mono = true) (hP : P = P' ++ [bb]) (hQ : Q = []) (hact : s.active = P ++ Q)
    (hG : ∀ k ∈ P ++ Q, EG s k (L k) (Rr k))
    (hPB : ∀ k ∈ P, cmpEdgeP p pB (L k) (Rr k) p.x = .gt)
    (hPT : ∀ k ∈ P, cmpEdgeP p pT (L k) (Rr k) p.x = .gt)
    (hbbc : s.edges[bb]? = some cbb)
    (hbbP : ∀ k ∈ P', cmpEdgeP (L bb) (Rr bb) (L k) (Rr k) p.x = .gt)
    (hbbS : cmpEdgeP (L bb) (Rr bb) (L bb) (Rr bb) p.x = .eq)
    (hbbQ : ∀ k ∈ Q, cmpEdgeP (L bb) (Rr bb) (L k) (Rr k) p.x = .lt)
    (hwob : wobP p pB (L bb) (Rr bb) = false) :
    (handleNext : SM α Unit).run s = .ok ((),
      startRes s lpB lpT rest p pB pT (linkEsn s.edges pB pT s.chains.size bb cbb)
        (P ++ s.edges.size :: (s.edges.size + 1) :: Q)) := by
  rw [handleNext_run_cons hev]
  unfold nextBody
  show Runs s _ _
  have hvfB := vicfree_of s P Q L Rr hact hG p pB hvB
  have hvfT := vicfree_of s P Q L Rr hact hG p pT hvT
  have hbblt : bb < s.edges.size := lt_of_get' hbbc
  have hbbm : bb ∈ P ++ Q := by rw [hP]; simp
  obtain ⟨hbbl, hbbr⟩ : lpt? s cbb = some (L bb) ∧ cbb.rpt = Rr bb := by
    obtain ⟨e, he, h3, h4⟩ := hG bb hbbm
    rw [hbbc] at he; cases he; exact ⟨h3, h4⟩
  have fa_bb : (startEdges s.edges pB pT s.chains.size)[bb]? = some cbb := by
    rw [startEdges_old _ _ _ _ hbblt]; exact hbbc
  have hS1 : ∀ k ∈ P ++ Q, EG (startSt s rest p pB pT lpB lpT (P ++ Q)) k (L k) (Rr k) :=
    fun k hk => start_prefix_eg s lpB lpT rest p pB pT (P ++ Q) (hG k hk)
  have hS1PB : ∀ k ∈ P, ∃ l r, EG (startSt s rest p pB pT lpB lpT (P ++ Q)) k l r ∧
      cmpEdgeP p pB l r p.x = .gt := fun k hk => ⟨_, _, hS1 k (List.mem_append_left _ hk), hPB k hk⟩
  have hS1QB : ∀ k ∈ Q, ∃ l r, EG (startSt s rest p pB pT lpB lpT (P ++ Q)) k l r ∧
      cmpEdgeP p pB l r p.x = .lt := by intro k hk; rw [hQ] at hk; cases hk
  have hS1PT : ∀ k ∈ P, ∃ l r, EG (startSt s rest p pB pT lpB lpT (P ++ Q)) k l r ∧
      cmpEdgeP p pT l r p.x = .gt := fun k hk => ⟨_, _, hS1 k (List.mem_append_left _ hk), hPT k hk⟩
  have hS1QT : ∀ k ∈ Q, ∃ l r, EG (startSt s rest p pB pT lpB lpT (P ++ Q)) k l r ∧
      cmpEdgeP p pT l r p.x = .lt := by intro k hk; rw [hQ] at hk; cases hk
  have hmS : (startSt s rest p pB pT lpB lpT (P ++ Q)).mono = true := hm
  have hevs1 : ∀ a ∈ evAdd s.verts pB lpB s.edges.size rest, a.1 < s.verts.size := by
    intro a ha
    rcases evAdd_keys _ _ _ _ _ a ha with h | ⟨b, hb, h⟩
    · rw [h]; exact lt_of_get' hB
    · rw [← h]; exact hevs b hb
  have hbbE : (if (P.length == 0) = true then none else (P ++ Q)[P.length - 1]?) = some bb := by
    rw [getLast_of_pos, hP]; simp
  have httE : (P ++ Q)[P.length]? = none := by
    rw [head_of_append, hQ]; rfl
  have hPQ1 : P ++ Q = P' ++ bb :: Q := by rw [hP]; simp
  have hlen1 : ¬ (P'.length + 1 < P.length + Q.length) := by rw [hP, hQ]; simp
  have hwob' : wobP p pB (L bb) cbb.rpt = false := by rw [hbbr]; exact hwob
  have hv' : s.verts[vi]? = some ⟨p, lpB, lpT⟩ ∨ s.verts[vi]? = some ⟨p, lpT, lpB⟩ := by
    rcases hn with ⟨h1, h2⟩ | ⟨h1, h2⟩
    · left; rw [← h1, ← h2]; exact hv
    · right; rw [← h1, ← h2]; exact hv
  clear hv hn
  rcases hv' with hv | hv
  · start_head1
    start_sn_tailV
  · start_head2
    start_sn_tailV

set_option hygiene false in
/-- the Start event after the two new edge values have been ordered (both partners exist,
    proper Start) -/
macro "start_ss_linkV" : tactic => `(tactic| (
   sm_steps [hc1, hB, hT]
   sm_use (run_vic _ none p pB ?h1)
   case h1 => exact hvfB _ rfl rfl rfl rfl
   sm_whnf
   sm_steps [hc1, hB, hT]
   sm_use (run_vic _ none p pT ?h1)
   case h1 => exact hvfT _ rfl rfl rfl rfl
   sm_whnf
   sm_steps [hc1, hB, hT]
   sm_by (run_getEdge_some (push2_get0 _ _ _))
   sm_bind
   sm_by (run_getEdge_some (push2_get1 _ _ _ _))
   sm_bind
   sm_use (run_eventsAdd lpB s.edges.size _ ⟨pB, a1, a2⟩ ?h1 ?h2)
   case h1 => exact hB
   case h2 => exact hevs
   sm_whnf
   sm_use (run_eventsAdd lpT (s.edges.size + 1) _ ⟨pT, a3, a4⟩ ?h1 ?h2)
   case h1 => exact hT
   case h2 => exact hevs1
   sm_whnf
   sm_bind
   sm_get
     exact startEdges_bot s.edges pB pT s.chains.size
   sm_by (run_search_between _ p (startSt s rest p pB pT lpB lpT (P ++ Q))
     (start_lpt_new s p _ rfl rfl _ rfl) hmS P Q hS1PB hS1QB)
   sm_get
     exact startEdges_top s.edges pB pT s.chains.size
   sm_by (run_search_between _ p (startSt s rest p pB pT lpB lpT (P ++ Q))
     (start_lpt_new s p _ rfl rfl _ rfl) hmS P Q hS1PT hS1QT)
   simp (config := { zeta := false }) only [Bool.false_eq_true, if_false, hbbE, httE]
   sm_whnf
   sm_get
     exact fa_bb
   sm_by (run_search_found' cbb (L bb) (startSt s rest p pB pT lpB lpT (P ++ Q))
     (start_lpt_old s _ _ _ rfl rfl _ _ hbbl) hmS (P ++ Q) P' Q bb hPQ1
     (fun k hk => ⟨_, _, hS1 k (by rw [hP]; simp [hk]), by rw [hbbr]; exact hbbP k hk⟩)
     ⟨_, _, hS1 bb hbbm, by rw [hbbr]; exact hbbS⟩
     (fun k hk => ⟨_, _, hS1 k (List.mem_append_right _ hk), by rw [hbbr]; exact hbbQ k hk⟩))
   sm_bind
   sm_get
     exact fa_tt
   sm_by (run_search_found' ctt (L tt) (startSt s rest p pB pT lpB lpT (P ++ Q))
     (start_lpt_old s _ _ _ rfl rfl _ _ httl) hmS (P ++ Q) P Q' tt hPQ2
     (fun k hk => ⟨_, _, hS1 k (List.mem_append_left _ hk), by rw [httr]; exact httP k hk⟩)
     ⟨_, _, hS1 tt httm, by rw [httr]; exact httS⟩
     (fun k hk => ⟨_, _, hS1 k (by rw [hQ]; simp [hk]), by rw [httr]; exact httQ k hk⟩))
   sm_bind
   sm_cond [ebt]
   sm_get
     exact fa_bb
   sm_get
     exact fa_tt
   sm_by (run_partialCmpEdge' cbb ctt (startSt s rest p pB pT lpB lpT (P ++ Q)) (L bb) (L tt)
     (start_lpt_old s _ _ _ rfl rfl _ _ hbbl) (start_lpt_old s _ _ _ rfl rfl _ _ httl))
   have hx1 : (startSt s rest p pB pT lpB lpT (P ++ Q)).x = p.x := rfl
   sm_cond [hpc', hlen, hx1]
   unfold startSt
   -- linking
   sm_get
     exact startEdges_bot s.edges pB pT s.chains.size
   sm_get
     exact fa_bb
   sm_bind
   sm_get
     dsimp only
     lk_ne; exact fa_bb
   sm_bind
   sm_use (run_wob_some _ s.edges.size bb false ⟨pB, s.chains.size, !cbb.bofIn, some bb, some (s.edges.size + 1)⟩
     { cbb with tPart := some s.edges.size } p (L bb) ?h1 ?h2 ?h3 ?h4 ?h5 ?h6)
   case h1 => dsimp only; lk_ne; lk_self
   case h2 => rfl
   case h3 => omega
   case h4 => dsimp only; lk_self
   case h5 => exact start_lpt_new s p _ rfl rfl _ rfl
   case h6 => exact start_lpt_old s _ _ _ rfl rfl _ _ hbbl
   sm_whnf
   sm_cond [hwob']
   -- the top edge
   sm_get
     dsimp only
     lk_ne; lk_ne; exact startEdges_top s.edges pB pT s.chains.size
   sm_get
     dsimp only
     lk_ne; lk_ne; exact fa_tt
   sm_bind
   sm_get
     dsimp only
     lk_ne; lk_ne; lk_ne; exact fa_tt
   sm_bind
   sm_use (run_wot_some _ (s.edges.size + 1) tt false ⟨pT, s.chains.size, !ctt.bofIn, some s.edges.size, some tt⟩
     { ctt with bPart := some (s.edges.size + 1) } p (L tt) ?h1 ?h2 ?h3 ?h4 ?h5 ?h6)
   case h1 => dsimp only; lk_ne; lk_self
   case h2 => rfl
   case h3 => omega
   case h4 => dsimp only; lk_self
   case h5 => exact start_lpt_new s p _ rfl rfl _ rfl
   case h6 => exact start_lpt_old s _ _ _ rfl rfl _ _ httl
   sm_whnf
   sm_cond [hwot']
   sm_cond [hbt]
   sm_get
     dsimp only
     lk_ne; lk_ne; lk_self))

set_option hygiene false in
macro "start_ss_tailV" : tactic => `(tactic| (start_ss_linkV; start_ss_fin))

set_option maxHeartbeats 1000000 in
/-- proper Start between the edges `bb` (below) and `tt` (above) -/
theorem start_run_ssV (P' Q' : List Nat) (bb tt : Nat) (cbb ctt : Edge α)
    (hev : s.events = (vi, es) :: rest)
    (hv : s.verts[vi]? = some ⟨p, lp1, lp2⟩) (hn : Nbrs lp1 lp2 lpB lpT)
    (hB : s.verts[lpB]? = some ⟨pB, a1, a2⟩) (hT : s.verts[lpT]? = some ⟨pT, a3, a4⟩)
    (hs1 : fromTriplet p pB pT = some .start) (hs2 : fromTriplet p pT pB = some .start)
    (hvB : ofEq pB.x p.x = false ∨ ∀ k ∈ P ++ Q,
      (ofLt p.y (yExtrap (L k) (Rr k) p.x true) && ofLt (yExtrap (L k) (Rr k) p.x true) pB.y) = false)
    (hvT : ofEq pT.x p.x = false ∨ ∀ k ∈ P ++ Q,
      (ofLt p.y (yExtrap (L k) (Rr k) p.x true) && ofLt (yExtrap (L k) (Rr k) p.x true) pT.y) = false)
    (hc1 : cmpEdgeP p pB p pT p.x = .lt) (hc2 : cmpEdgeP p pT p pB p.x = .gt)
    (hevs : ∀ a ∈ rest, a.1 < s.verts.size)
    (hm : s.mono = true) (hP : P = P' ++ [bb]) (hQ : Q = tt :: Q') (hact : s.active = P ++ Q)
    (hG : ∀ k ∈ P ++ Q, EG s k (L k) (Rr k))
    (hPB : ∀ k ∈ P, cmpEdgeP p pB (L k) (Rr k) p.x = .gt)
    (hQB : ∀ k ∈ Q, cmpEdgeP p pB (L k) (Rr k) p.x = .lt)
    (hPT : ∀ k ∈ P, cmpEdgeP p pT (L k) (Rr k) p.x = .gt)
    (hQT : ∀ k ∈ Q, cmpEdgeP p pT (L k) (Rr k) p.x = .lt)
    (hbbc : s.edges[bb]? = some cbb) (httc : s.edges[tt]? = some ctt)
    (hbbf : cbb.bofIn = false) (hbt : bb ≠ tt)
    (hbbP : ∀ k ∈ P', cmpEdgeP (L bb) (Rr bb) (L k) (Rr k) p.x = .gt)
    (hbbS : cmpEdgeP (L bb) (Rr bb) (L bb) (Rr bb) p.x = .eq)
    (hbbQ : ∀ k ∈ Q, cmpEdgeP (L bb) (Rr bb) (L k) (Rr k) p.x = .lt)
    (httP : ∀ k ∈ P, cmpEdgeP (L tt) (Rr tt) (L k) (Rr k) p.x = .gt)
    (httS : cmpEdgeP (L tt) (Rr tt) (L tt) (Rr tt) p.x = .eq)
    (httQ : ∀ k ∈ Q', cmpEdgeP (L tt) (Rr tt) (L k) (Rr k) p.x = .lt)
    (hpc : partialCmpEdgeP (L bb) (Rr bb) (L tt) (Rr tt) p.x = some .lt)
    (hwob : wobP p pB (L bb) (Rr bb) = false) (hwot : wotP p pT (L tt) (Rr tt) = false) :
    (handleNext : SM α Unit).run s = .ok ((),
      startRes s lpB lpT rest p pB pT (linkEe s.edges pB pT s.chains.size bb tt cbb ctt)
        (P ++ s.edges.size :: (s.edges.size + 1) :: Q)) := by
  rw [handleNext_run_cons hev]
  unfold nextBody
  show Runs s _ _
  have hnb : ¬ (cbb.bofIn = true) := by rw [hbbf]; simp
  have hvfB := vicfree_of s P Q L Rr hact hG p pB hvB
  have hvfT := vicfree_of s P Q L Rr hact hG p pT hvT
  -- facts
  have hbblt : bb < s.edges.size := lt_of_get' hbbc
  have httlt : tt < s.edges.size := lt_of_get' httc
  have hbbm : bb ∈ P ++ Q := by rw [hP]; simp
  have httm : tt ∈ P ++ Q := by rw [hQ]; simp
  obtain ⟨hbbl, hbbr⟩ : lpt? s cbb = some (L bb) ∧ cbb.rpt = Rr bb := by
    obtain ⟨e, he, h3, h4⟩ := hG bb hbbm
    rw [hbbc] at he; cases he; exact ⟨h3, h4⟩
  obtain ⟨httl, httr⟩ : lpt? s ctt = some (L tt) ∧ ctt.rpt = Rr tt := by
    obtain ⟨e, he, h3, h4⟩ := hG tt httm
    rw [httc] at he; cases he; exact ⟨h3, h4⟩
  have fa_bb : (startEdges s.edges pB pT s.chains.size)[bb]? = some cbb := by
    rw [startEdges_old _ _ _ _ hbblt]; exact hbbc
  have fa_tt : (startEdges s.edges pB pT s.chains.size)[tt]? = some ctt := by
    rw [startEdges_old _ _ _ _ httlt]; exact httc
  have hS1 : ∀ k ∈ P ++ Q, EG (startSt s rest p pB pT lpB lpT (P ++ Q)) k (L k) (Rr k) :=
    fun k hk => start_prefix_eg s lpB lpT rest p pB pT (P ++ Q) (hG k hk)
  have hS1PB : ∀ k ∈ P, ∃ l r, EG (startSt s rest p pB pT lpB lpT (P ++ Q)) k l r ∧
      cmpEdgeP p pB l r p.x = .gt := fun k hk => ⟨_, _, hS1 k (List.mem_append_left _ hk), hPB k hk⟩
  have hS1QB : ∀ k ∈ Q, ∃ l r, EG (startSt s rest p pB pT lpB lpT (P ++ Q)) k l r ∧
      cmpEdgeP p pB l r p.x = .lt := fun k hk => ⟨_, _, hS1 k (List.mem_append_right _ hk), hQB k hk⟩
  have hS1PT : ∀ k ∈ P, ∃ l r, EG (startSt s rest p pB pT lpB lpT (P ++ Q)) k l r ∧
      cmpEdgeP p pT l r p.x = .gt := fun k hk => ⟨_, _, hS1 k (List.mem_append_left _ hk), hPT k hk⟩
  have hS1QT : ∀ k ∈ Q, ∃ l r, EG (startSt s rest p pB pT lpB lpT (P ++ Q)) k l r ∧
      cmpEdgeP p pT l r p.x = .lt := fun k hk => ⟨_, _, hS1 k (List.mem_append_right _ hk), hQT k hk⟩
  have hmS : (startSt s rest p pB pT lpB lpT (P ++ Q)).mono = true := hm
  have hevs1 : ∀ a ∈ evAdd s.verts pB lpB s.edges.size rest, a.1 < s.verts.size := by
    intro a ha
    rcases evAdd_keys _ _ _ _ _ a ha with h | ⟨b, hb, h⟩
    · rw [h]; exact lt_of_get' hB
    · rw [← h]; exact hevs b hb
  have hbbE : (if (P.length == 0) = true then none else (P ++ Q)[P.length - 1]?) = some bb := by
    rw [getLast_of_pos, hP]; simp
  have httE : (P ++ Q)[P.length]? = some tt := by
    rw [head_of_append, hQ]; rfl
  have hPQ1 : P ++ Q = P' ++ bb :: Q := by rw [hP]; simp
  have hPQ2 : P ++ Q = P ++ tt :: Q' := by rw [hQ]
  have ebt : (bb == tt) = false := by simpa using hbt
  have hlen : P.length = P'.length + 1 := by rw [hP]; simp
  have hpc' : partialCmpEdgeP (L bb) cbb.rpt (L tt) ctt.rpt p.x = some .lt := by
    rw [hbbr, httr]; exact hpc
  have hwob' : wobP p pB (L bb) cbb.rpt = false := by rw [hbbr]; exact hwob
  have hwot' : wotP p pT (L tt) ctt.rpt = false := by rw [httr]; exact hwot
  have hv' : s.verts[vi]? = some ⟨p, lpB, lpT⟩ ∨ s.verts[vi]? = some ⟨p, lpT, lpB⟩ := by
    rcases hn with ⟨h1, h2⟩ | ⟨h1, h2⟩
    · left; rw [← h1, ← h2]; exact hv
    · right; rw [← h1, ← h2]; exact hv
  clear hv hn
  rcases hv' with hv | hv
  · sm_steps [hv, hB, hT, hs1, hs2]
    unfold handleStart
    sm_steps [hv, hB, hT]
    simp (config := { zeta := false }) only [hact]
    sm_use (run_cmpEdge' _ _ _ p p ?h1 ?h2)
    case h1 => exact start_lpt_new s p _ rfl rfl _ rfl
    case h2 => exact start_lpt_new s p _ rfl rfl _ rfl
    sm_whnf
    simp (config := { zeta := false }) only [hc1, beq_self_eq_true, if_true]
    start_ss_tailV
  · sm_steps [hv, hB, hT, hs1, hs2]
    unfold handleStart
    sm_steps [hv, hB, hT]
    simp (config := { zeta := false }) only [hact]
    sm_use (run_cmpEdge' _ _ _ p p ?h1 ?h2)
    case h1 => exact start_lpt_new s p _ rfl rfl _ rfl
    case h2 => exact start_lpt_new s p _ rfl rfl _ rfl
    sm_whnf
    have e1 : (Ordering.gt == Ordering.eq) = false := rfl
    have e2 : (Ordering.gt == Ordering.lt) = false := rfl
    simp (config := { zeta := false }) only [hc2, e1, e2, Bool.false_eq_true, if_false]
    start_ss_tailV

set_option hygiene false in
/-- the split of the back-chain and the new chain ids of the four edges -/
macro "split_midV" : tactic => `(tactic| (
   sm_get
     dsimp only
     lk_ne; lk_ne; lk_self
   have hcB' : (s.chains.push ⟨s.nodes.size, s.nodes.size, s.nodes.size⟩)[cbb.chain]? = some cB := by
     rw [Array.getElem?_push_lt hclt, ← Array.getElem?_eq_getElem hclt]; exact hcB
   sm_bind [hcB']
   have e0 : ((((startEdges s.edges pB pT s.chains.size).setIfInBounds s.edges.size
       ⟨pB, s.chains.size, !cbb.bofIn, some bb, some (s.edges.size + 1)⟩).setIfInBounds bb
       { cbb with tPart := some s.edges.size }).setIfInBounds (s.edges.size + 1)
       ⟨pT, s.chains.size, !ctt.bofIn, some s.edges.size, some tt⟩).setIfInBounds tt
       { ctt with bPart := some (s.edges.size + 1) } =
       linkEe s.edges pB pT s.chains.size bb tt cbb ctt := rfl
   rw [e0]
   sm_exact hsplit
   sm_exact hbt3
   sm_exact hbt4
   sm_bind
   sm_get
     dsimp only
     exact linkEe_bb s.edges pB pT s.chains.size bb tt cbb ctt hbblt httlt hbt
   sm_bind
   sm_get
     dsimp only
     lk_ne; exact linkEe_D s.edges pB pT s.chains.size bb tt cbb ctt hbblt httlt
   sm_bind
   sm_bind
   sm_get
     dsimp only
     lk_ne; lk_ne; exact linkEe_tt s.edges pB pT s.chains.size bb tt cbb ctt httlt
   sm_bind
   sm_get
     dsimp only
     lk_ne; lk_ne; lk_ne; exact linkEe_D1 s.edges pB pT s.chains.size bb tt cbb ctt httlt
   sm_bind))

set_option hygiene false in
/-- the two new edges become active (improper Start) -/
macro "split_finV" : tactic => `(tactic| (
   sm_use (run_activeInsert _ s.edges.size ⟨pB, s.chains.size + 1, !cbb.bofIn, some bb, some (s.edges.size + 1)⟩
     p ?h1 ?h2 ?h3 P Q ?h4 ?h5 ?h6)
   case h1 => dsimp only; lk_ne; lk_ne; lk_self
   case h2 => exact hlB _ rfl
   case h3 => exact hm
   case h4 => rfl
   case h5 => intro k hk; exact ⟨_, _, hEGf _ rfl k (List.mem_append_left _ hk), hPB k hk⟩
   case h6 => intro k hk; exact ⟨_, _, hEGf _ rfl k (List.mem_append_right _ hk), hQB k hk⟩
   dsimp only
   refine Runs.final ?_
   refine (run_activeInsert _ (s.edges.size + 1)
     ⟨pT, s.chains.size + 1 + 1, !ctt.bofIn, some s.edges.size, some tt⟩ p ?h1 ?h2 ?h3
     (P ++ [s.edges.size]) Q ?h4 ?h5 ?h6).trans ?fin
   case h1 => dsimp only; lk_self
   case h2 => exact hlT _ rfl
   case h3 => exact hm
   case h4 => simp
   case h5 =>
     intro k hk
     rcases List.mem_append.mp hk with hk | hk
     · exact ⟨_, _, hEGf _ rfl k (List.mem_append_left _ hk), hPT k hk⟩
     · simp only [List.mem_singleton] at hk
       subst hk
       refine ⟨p, pB, ⟨⟨pB, s.chains.size + 1, !cbb.bofIn, some bb, some (s.edges.size + 1)⟩, ?_,
         hlB _ rfl, rfl⟩, hc2⟩
       dsimp only; lk_ne; lk_ne; lk_self
   case h6 => intro k hk; exact ⟨_, _, hEGf _ rfl k (List.mem_append_right _ hk), hQT k hk⟩
   case fin =>
     unfold splitRes startSt
     simp only [List.append_assoc, List.cons_append, List.nil_append]))

set_option maxHeartbeats 2000000 in
/-- improper Start inside the in-interval bounded by `bb` (below) and `tt` (above) -/
theorem start_run_splitV (P' Q' : List Nat) (bb tt : Nat) (cbb ctt : Edge α) (cB : Chain)
    (hev : s.events = (vi, es) :: rest)
    (hv : s.verts[vi]? = some ⟨p, lp1, lp2⟩) (hn : Nbrs lp1 lp2 lpB lpT)
    (hB : s.verts[lpB]? = some ⟨pB, a1, a2⟩) (hT : s.verts[lpT]? = some ⟨pT, a3, a4⟩)
    (hs1 : fromTriplet p pB pT = some .start) (hs2 : fromTriplet p pT pB = some .start)
    (hvB : ofEq pB.x p.x = false ∨ ∀ k ∈ P ++ Q,
      (ofLt p.y (yExtrap (L k) (Rr k) p.x true) && ofLt (yExtrap (L k) (Rr k) p.x true) pB.y) = false)
    (hvT : ofEq pT.x p.x = false ∨ ∀ k ∈ P ++ Q,
      (ofLt p.y (yExtrap (L k) (Rr k) p.x true) && ofLt (yExtrap (L k) (Rr k) p.x true) pT.y) = false)
    (hc1 : cmpEdgeP p pB p pT p.x = .lt) (hc2 : cmpEdgeP p pT p pB p.x = .gt)
    (hevs : ∀ a ∈ rest, a.1 < s.verts.size)
    (hm : s.mono = true) (hP : P = P' ++ [bb]) (hQ : Q = tt :: Q') (hact : s.active = P ++ Q)
    (hG : ∀ k ∈ P ++ Q, EG s k (L k) (Rr k))
    (hPB : ∀ k ∈ P, cmpEdgeP p pB (L k) (Rr k) p.x = .gt)
    (hQB : ∀ k ∈ Q, cmpEdgeP p pB (L k) (Rr k) p.x = .lt)
    (hPT : ∀ k ∈ P, cmpEdgeP p pT (L k) (Rr k) p.x = .gt)
    (hQT : ∀ k ∈ Q, cmpEdgeP p pT (L k) (Rr k) p.x = .lt)
    (hbbc : s.edges[bb]? = some cbb) (httc : s.edges[tt]? = some ctt)
    (hbf : cbb.bofIn = true) (htf : ctt.bofIn = false) (hct : ctt.chain = cbb.chain) (hbt : bb ≠ tt)
    (hbbP : ∀ k ∈ P', cmpEdgeP (L bb) (Rr bb) (L k) (Rr k) p.x = .gt)
    (hbbS : cmpEdgeP (L bb) (Rr bb) (L bb) (Rr bb) p.x = .eq)
    (hbbQ : ∀ k ∈ Q, cmpEdgeP (L bb) (Rr bb) (L k) (Rr k) p.x = .lt)
    (httP : ∀ k ∈ P, cmpEdgeP (L tt) (Rr tt) (L k) (Rr k) p.x = .gt)
    (httS : cmpEdgeP (L tt) (Rr tt) (L tt) (Rr tt) p.x = .eq)
    (httQ : ∀ k ∈ Q', cmpEdgeP (L tt) (Rr tt) (L k) (Rr k) p.x = .lt)
    (hpc : partialCmpEdgeP (L bb) (Rr bb) (L tt) (Rr tt) p.x = some .lt)
    (hwob : wobP p pB (L bb) (Rr bb) = false) (hwot : wotP p pT (L tt) (Rr tt) = false)
    (hN : NodesOk s.nodes) (hcB : s.chains[cbb.chain]? = some cB) (hrm : cB.rm < s.nodes.size) :
    ∃ N4 out4, (handleNext : SM α Unit).run s = .ok ((),
        splitRes s lpB lpT rest p pB pT bb tt cbb ctt cB N4 out4
          (P ++ s.edges.size :: (s.edges.size + 1) :: Q)) ∧
      NodesOk N4 ∧ N4.size = s.nodes.size + 4 ∧
      (∀ i, i < s.nodes.size → ptAt N4 i = ptAt s.nodes i) ∧
      ptAt N4 (s.nodes.size + 1) = some p ∧ ptAt N4 (s.nodes.size + 2) = ptAt s.nodes cB.rm ∧
      ptAt N4 (s.nodes.size + 3) = some p := by
  rw [handleNext_run_cons hev]
  unfold nextBody
  -- facts
  have hbblt : bb < s.edges.size := lt_of_get' hbbc
  have httlt : tt < s.edges.size := lt_of_get' httc
  have hbbm : bb ∈ P ++ Q := by rw [hP]; simp
  have httm : tt ∈ P ++ Q := by rw [hQ]; simp
  obtain ⟨hbbl, hbbr⟩ : lpt? s cbb = some (L bb) ∧ cbb.rpt = Rr bb := by
    obtain ⟨e, he, h3, h4⟩ := hG bb hbbm
    rw [hbbc] at he; cases he; exact ⟨h3, h4⟩
  obtain ⟨httl, httr⟩ : lpt? s ctt = some (L tt) ∧ ctt.rpt = Rr tt := by
    obtain ⟨e, he, h3, h4⟩ := hG tt httm
    rw [httc] at he; cases he; exact ⟨h3, h4⟩
  have fa_bb : (startEdges s.edges pB pT s.chains.size)[bb]? = some cbb := by
    rw [startEdges_old _ _ _ _ hbblt]; exact hbbc
  have fa_tt : (startEdges s.edges pB pT s.chains.size)[tt]? = some ctt := by
    rw [startEdges_old _ _ _ _ httlt]; exact httc
  have hS1 : ∀ k ∈ P ++ Q, EG (startSt s rest p pB pT lpB lpT (P ++ Q)) k (L k) (Rr k) :=
    fun k hk => start_prefix_eg s lpB lpT rest p pB pT (P ++ Q) (hG k hk)
  have hS1PB : ∀ k ∈ P, ∃ l r, EG (startSt s rest p pB pT lpB lpT (P ++ Q)) k l r ∧
      cmpEdgeP p pB l r p.x = .gt := fun k hk => ⟨_, _, hS1 k (List.mem_append_left _ hk), hPB k hk⟩
  have hS1QB : ∀ k ∈ Q, ∃ l r, EG (startSt s rest p pB pT lpB lpT (P ++ Q)) k l r ∧
      cmpEdgeP p pB l r p.x = .lt := fun k hk => ⟨_, _, hS1 k (List.mem_append_right _ hk), hQB k hk⟩
  have hS1PT : ∀ k ∈ P, ∃ l r, EG (startSt s rest p pB pT lpB lpT (P ++ Q)) k l r ∧
      cmpEdgeP p pT l r p.x = .gt := fun k hk => ⟨_, _, hS1 k (List.mem_append_left _ hk), hPT k hk⟩
  have hS1QT : ∀ k ∈ Q, ∃ l r, EG (startSt s rest p pB pT lpB lpT (P ++ Q)) k l r ∧
      cmpEdgeP p pT l r p.x = .lt := fun k hk => ⟨_, _, hS1 k (List.mem_append_right _ hk), hQT k hk⟩
  have hmS : (startSt s rest p pB pT lpB lpT (P ++ Q)).mono = true := hm
  have hevs1 : ∀ a ∈ evAdd s.verts pB lpB s.edges.size rest, a.1 < s.verts.size := by
    intro a ha
    rcases evAdd_keys _ _ _ _ _ a ha with h | ⟨b, hb, h⟩
    · rw [h]; exact lt_of_get' hB
    · rw [← h]; exact hevs b hb
  have hbbE : (if (P.length == 0) = true then none else (P ++ Q)[P.length - 1]?) = some bb := by
    rw [getLast_of_pos, hP]; simp
  have httE : (P ++ Q)[P.length]? = some tt := by
    rw [head_of_append, hQ]; rfl
  have hPQ1 : P ++ Q = P' ++ bb :: Q := by rw [hP]; simp
  have hPQ2 : P ++ Q = P ++ tt :: Q' := by rw [hQ]
  have ebt : (bb == tt) = false := by simpa using hbt
  have hlen : P.length = P'.length + 1 := by rw [hP]; simp
  have hpc' : partialCmpEdgeP (L bb) cbb.rpt (L tt) ctt.rpt p.x = some .lt := by
    rw [hbbr, httr]; exact hpc
  have hwob' : wobP p pB (L bb) cbb.rpt = false := by rw [hbbr]; exact hwob
  have hwot' : wotP p pT (L tt) ctt.rpt = false := by rw [httr]; exact hwot
  -- the node heap
  have hclt : cbb.chain < s.chains.size := lt_of_get' hcB
  have hN1 : NodesOk (s.nodes.push ⟨p, none, none⟩) := nodesOk_push hN _ (by simp) (by simp)
  obtain ⟨N2, hsplit, hN2, hsz2, hpt2, hnb2, hnd2, hnt2⟩ := run_chainSplit cB p
    (splitMid s lpB lpT rest p pB pT (linkEe s.edges pB pT s.chains.size bb tt cbb ctt) (P ++ Q)
      (s.nodes.push ⟨p, none, none⟩) s.out)
    hN1 (by show cB.rm < (s.nodes.push _).size; simp; omega)
  have esz : (s.nodes.push (⟨p, none, none⟩ : Node α)).size = s.nodes.size + 1 := by simp
  simp only [splitMid] at hsplit hsz2 hpt2 hnb2 hnd2 hnt2
  rw [esz] at hsplit
  have hsz2' : N2.size = s.nodes.size + 4 := by rw [hsz2, esz]
  have hnb2' : ptAt N2 (s.nodes.size + 1) = some p := by rw [← esz]; exact hnb2
  have hnd2' : ptAt N2 (s.nodes.size + 2) = ptAt (s.nodes.push ⟨p, none, none⟩) cB.rm := by
    have := hnd2; rw [esz] at this; exact this
  have hnt2' : ptAt N2 (s.nodes.size + 3) = some p := by
    have := hnt2; rw [esz] at this; exact this
  have hold2 : ∀ i, i < s.nodes.size → ptAt N2 i = ptAt s.nodes i := by
    intro i hi
    rw [hpt2 i (by rw [esz]; omega)]
    exact ptAt_push_lt _ _ hi
  obtain ⟨N3, out3, hbt3, hN3, hsz3, hpt3⟩ := bt_ok
    ⟨s.nodes.size + 1, cB.head, s.nodes.size + 1⟩ true
    (splitMid s lpB lpT rest p pB pT (linkEe s.edges pB pT s.chains.size bb tt cbb ctt) (P ++ Q) N2 s.out)
    hN2 (by show s.nodes.size + 1 < N2.size; omega)
  have hsz3' : N3.size = s.nodes.size + 4 := hsz3.trans hsz2'
  obtain ⟨N4, out4, hbt4, hN4, hsz4, hpt4⟩ := bt_ok
    ⟨s.nodes.size + 1 + 2, s.nodes.size + 1 + 2, if cB.tail == cB.rm then s.nodes.size + 1 + 1 else cB.tail⟩
    false
    (splitMid s lpB lpT rest p pB pT (linkEe s.edges pB pT s.chains.size bb tt cbb ctt) (P ++ Q) N3 out3)
    hN3 (by show s.nodes.size + 1 + 2 < N3.size; omega)
  have hsz4' : N4.size = s.nodes.size + 4 := hsz4.trans hsz3'
  simp only [splitMid] at hbt3 hbt4
  have hptA : ∀ i, ptAt N4 i = ptAt N2 i := fun i => (hpt4 i).trans (hpt3 i)
  refine ⟨N4, out4, ?_, hN4, hsz4', fun i hi => by rw [hptA, hold2 i hi], by rw [hptA]; exact hnb2',
    by rw [hptA, hnd2']; exact ptAt_push_lt _ _ hrm, by rw [hptA]; exact hnt2'⟩
  -- the final state
  have hch1 : (((s.chains.push ⟨s.nodes.size, s.nodes.size, s.nodes.size⟩).push
      ⟨s.nodes.size + 1, cB.head, s.nodes.size + 1⟩).push
      ⟨s.nodes.size + 1 + 2, s.nodes.size + 1 + 2,
        if cB.tail = cB.rm then s.nodes.size + 1 + 1 else cB.tail⟩)[s.chains.size + 1]? =
      some ⟨s.nodes.size + 1, cB.head, s.nodes.size + 1⟩ := by
    rw [Array.getElem?_push_lt (by simp)]
    have : s.chains.size + 1 = (s.chains.push (⟨s.nodes.size, s.nodes.size, s.nodes.size⟩ : Chain)).size := by
      simp
    simp only [this, Array.getElem_push_eq]
  have hch2 : (((s.chains.push ⟨s.nodes.size, s.nodes.size, s.nodes.size⟩).push
      ⟨s.nodes.size + 1, cB.head, s.nodes.size + 1⟩).push
      ⟨s.nodes.size + 1 + 2, s.nodes.size + 1 + 2,
        if cB.tail = cB.rm then s.nodes.size + 1 + 1 else cB.tail⟩)[s.chains.size + 1 + 1]? =
      some ⟨s.nodes.size + 1 + 2, s.nodes.size + 1 + 2,
        if cB.tail = cB.rm then s.nodes.size + 1 + 1 else cB.tail⟩ := by
    have : s.chains.size + 1 + 1 = ((s.chains.push (⟨s.nodes.size, s.nodes.size, s.nodes.size⟩ : Chain)).push
        ⟨s.nodes.size + 1, cB.head, s.nodes.size + 1⟩).size := by simp
    rw [this, Array.getElem?_push_size]
  have hch0 : ∀ i, i < s.chains.size → (((s.chains.push ⟨s.nodes.size, s.nodes.size, s.nodes.size⟩).push
      ⟨s.nodes.size + 1, cB.head, s.nodes.size + 1⟩).push
      ⟨s.nodes.size + 1 + 2, s.nodes.size + 1 + 2,
        if cB.tail = cB.rm then s.nodes.size + 1 + 1 else cB.tail⟩)[i]? = s.chains[i]? := by
    intro i hi
    rw [Array.getElem?_push_lt (by simp; omega), Array.getElem_push_lt (by simp; omega),
      Array.getElem_push_lt hi, ← Array.getElem?_eq_getElem hi]
  have hptN : ∀ i, i < s.nodes.size → ptAt N4 i = ptAt s.nodes i := fun i hi => by
    rw [hptA, hold2 i hi]
  have hlB : ∀ (S : St α) {act' : List Nat},
      S = splitRes s lpB lpT rest p pB pT bb tt cbb ctt cB N4 out4 act' →
      lpt? S ⟨pB, s.chains.size + 1, !cbb.bofIn, some bb, some (s.edges.size + 1)⟩ = some p := by
    rintro S act' rfl
    rw [lpt_eq]
    dsimp only [splitRes, startSt]
    rw [hch1, hbf]
    simp only [Option.bind_some, Bool.not_true, Bool.false_eq_true, if_false]
    rw [hptA]; exact hnb2'
  have hlT : ∀ (S : St α) {act' : List Nat},
      S = splitRes s lpB lpT rest p pB pT bb tt cbb ctt cB N4 out4 act' →
      lpt? S ⟨pT, s.chains.size + 1 + 1, !ctt.bofIn, some s.edges.size, some tt⟩ = some p := by
    rintro S act' rfl
    rw [lpt_eq]
    dsimp only [splitRes, startSt]
    rw [hch2, htf]
    simp only [Option.bind_some, Bool.not_false, if_true]
    rw [hptA]; exact hnt2'
  have hbbhead : ptAt s.nodes cB.head = some (L bb) := by
    have := hbbl
    rw [lpt_eq, hcB, hbf] at this
    exact this
  have htttail : ptAt s.nodes cB.tail = some (L tt) := by
    have := httl
    rw [lpt_eq, hct, hcB, htf] at this
    exact this
  have hEGf : ∀ (S : St α) {act' : List Nat},
      S = splitRes s lpB lpT rest p pB pT bb tt cbb ctt cB N4 out4 act' →
      ∀ k ∈ P ++ Q, EG S k (L k) (Rr k) := by
    rintro S act' rfl k hk
    by_cases h1 : k = bb
    · rw [h1]
      refine ⟨{ cbb with tPart := some s.edges.size, chain := s.chains.size + 1 }, ?_, ?_, hbbr⟩
      · dsimp only [splitRes, startSt]
        lk_ne; lk_ne; lk_ne
        exact Array.getElem?_setIfInBounds_self_of_lt (by rw [linkEe_size]; omega)
      · rw [lpt_eq]
        dsimp only [splitRes, startSt]
        rw [hch1, hbf]
        simp only [Option.bind_some, if_true]
        rw [hptN _ (ptAt_some_lt hbbhead)]; exact hbbhead
    · by_cases h2 : k = tt
      · rw [h2]
        refine ⟨{ ctt with bPart := some (s.edges.size + 1), chain := s.chains.size + 1 + 1 }, ?_, ?_, httr⟩
        · dsimp only [splitRes, startSt]
          lk_ne
          exact Array.getElem?_setIfInBounds_self_of_lt (by simp [linkEe_size]; omega)
        · rw [lpt_eq]
          dsimp only [splitRes, startSt]
          rw [hch2, htf]
          simp only [Option.bind_some, Bool.false_eq_true, if_false]
          by_cases hrt : cB.tail = cB.rm
          · simp only [hrt, if_true]
            rw [hptA, hnd2', ptAt_push_lt _ _ hrm, ← hrt]; exact htttail
          · simp only [hrt, if_false]
            rw [hptN _ (ptAt_some_lt htttail)]; exact htttail
      · have hkE := hG k hk
        have hklt : k < s.edges.size := by obtain ⟨e, he, -⟩ := hkE; exact lt_of_get' he
        refine EG.ext hkE ?_ ?_ ?_
        · intro e he
          refine ⟨e, ?_, rfl, rfl, rfl⟩
          dsimp only [splitRes, startSt]
          lk_ne; lk_ne; lk_ne; lk_ne
          rw [linkEe_old s.edges pB pT s.chains.size bb tt cbb ctt hklt h1 h2]; exact he
        · intro i hi
          dsimp only [splitRes, startSt]
          exact hch0 i hi
        · intro i hi
          dsimp only [splitRes, startSt]
          exact hptN i hi
  show Runs s _ _
  have hvfB := vicfree_of s P Q L Rr hact hG p pB hvB
  have hvfT := vicfree_of s P Q L Rr hact hG p pT hvT
  have hv' : s.verts[vi]? = some ⟨p, lpB, lpT⟩ ∨ s.verts[vi]? = some ⟨p, lpT, lpB⟩ := by
    rcases hn with ⟨h1, h2⟩ | ⟨h1, h2⟩
    · left; rw [← h1, ← h2]; exact hv
    · right; rw [← h1, ← h2]; exact hv
  clear hv hn
  rcases hv' with hv | hv
  · start_head1
    start_ss_linkV
    sm_whnf
    rw [if_pos hbf]
    sm_whnf
    split_midV
    split_finV
  · start_head2
    start_ss_linkV
    sm_whnf
    rw [if_pos hbf]
    sm_whnf
    split_midV
    split_finV

/-- **the proper Start event from an arbitrary state** -/
theorem start_run_properV
    (hev : s.events = (vi, es) :: rest)
    (hv : s.verts[vi]? = some ⟨p, lp1, lp2⟩) (hn : Nbrs lp1 lp2 lpB lpT)
    (hB : s.verts[lpB]? = some ⟨pB, a1, a2⟩) (hT : s.verts[lpT]? = some ⟨pT, a3, a4⟩)
    (hs1 : fromTriplet p pB pT = some .start) (hs2 : fromTriplet p pT pB = some .start)
    (hvB : ofEq pB.x p.x = false ∨ ∀ k ∈ P ++ Q,
      (ofLt p.y (yExtrap (L k) (Rr k) p.x true) && ofLt (yExtrap (L k) (Rr k) p.x true) pB.y) = false)
    (hvT : ofEq pT.x p.x = false ∨ ∀ k ∈ P ++ Q,
      (ofLt p.y (yExtrap (L k) (Rr k) p.x true) && ofLt (yExtrap (L k) (Rr k) p.x true) pT.y) = false)
    (hc1 : cmpEdgeP p pB p pT p.x = .lt) (hc2 : cmpEdgeP p pT p pB p.x = .gt)
    (hevs : ∀ a ∈ rest, a.1 < s.verts.size)
    (hm : s.mono = true) (hact : s.active = P ++ Q)
    (hG : ∀ k ∈ P ++ Q, EG s k (L k) (Rr k))
    (hPB : ∀ k ∈ P, cmpEdgeP p pB (L k) (Rr k) p.x = .gt)
    (hQB : ∀ k ∈ Q, cmpEdgeP p pB (L k) (Rr k) p.x = .lt)
    (hPT : ∀ k ∈ P, cmpEdgeP p pT (L k) (Rr k) p.x = .gt)
    (hQT : ∀ k ∈ Q, cmpEdgeP p pT (L k) (Rr k) p.x = .lt)
    (hpw : (P ++ Q).Pairwise (CmpLt L Rr p.x))
    (hself : ∀ k ∈ P ++ Q, cmpEdgeP (L k) (Rr k) (L k) (Rr k) p.x = .eq)
    (hbb : ∀ bb, P.getLast? = some bb → ∃ cbb, s.edges[bb]? = some cbb ∧ cbb.bofIn = false ∧
      wobP p pB (L bb) (Rr bb) = false)
    (htt : ∀ tt, Q.head? = some tt → ∃ ctt, s.edges[tt]? = some ctt ∧ ctt.bofIn = true ∧
      wotP p pT (L tt) (Rr tt) = false)
    (hpc : ∀ bb tt, P.getLast? = some bb → Q.head? = some tt → bb ≠ tt ∧
      partialCmpEdgeP (L bb) (Rr bb) (L tt) (Rr tt) p.x = some .lt) :
    ∃ E', (handleNext : SM α Unit).run s = .ok ((),
        startRes s lpB lpT rest p pB pT E' (P ++ s.edges.size :: (s.edges.size + 1) :: Q)) ∧
      ProperEdges s.edges E' s.chains.size pB pT P.getLast? Q.head? := by
  rcases List.eq_nil_or_concat P with hP | ⟨P', bb, hP⟩
  · -- nothing below
    cases Q with
    | nil =>
      subst hP
      refine ⟨_, ?_, properEdges_nn s.edges pB pT s.chains.size⟩
      exact start_run_nnV s vi lp1 lp2 lpB lpT a1 a2 a3 a4 es rest p pB pT hev hv hn hB hT hs1 hs2
        hc1 hc2 hevs hm (by simpa using hact)
    | cons tt Q' =>
      obtain ⟨ctt, httc, httf, hwot⟩ := htt tt rfl
      have hpwQ : (tt :: Q').Pairwise (CmpLt L Rr p.x) := by
        rw [hP] at hpw; simpa using hpw
      refine ⟨_, start_run_nsV s vi lp1 lp2 lpB lpT a1 a2 a3 a4 es rest p pB pT P (tt :: Q') L Rr Q' tt ctt
        hev hv hn hB hT hs1 hs2 hvB hvT hc1 hc2 hevs hm hP rfl hact hG hQB hQT httc ?_ ?_ ?_ hwot, ?_⟩
      · intro k hk; rw [hP] at hk; cases hk
      · exact hself tt (by simp)
      · intro k hk
        exact ((List.pairwise_cons.mp hpwQ).1 k hk).1
      · rw [hP]
        exact properEdges_ns s.edges pB pT s.chains.size tt ctt (lt_of_get' httc) httc httf
  · rw [List.concat_eq_append] at hP
    have hlast : P.getLast? = some bb := by rw [hP]; simp
    obtain ⟨cbb, hbbc, hbbf, hwob⟩ := hbb bb hlast
    have hpw' : (P' ++ bb :: Q).Pairwise (CmpLt L Rr p.x) := by
      rw [hP] at hpw; simpa using hpw
    rw [List.pairwise_append] at hpw'
    obtain ⟨-, hpwbQ, hcross⟩ := hpw'
    have hbbP : ∀ k ∈ P', cmpEdgeP (L bb) (Rr bb) (L k) (Rr k) p.x = .gt :=
      fun k hk => (hcross k hk bb List.mem_cons_self).2
    have hbbQ : ∀ k ∈ Q, cmpEdgeP (L bb) (Rr bb) (L k) (Rr k) p.x = .lt :=
      fun k hk => ((List.pairwise_cons.mp hpwbQ).1 k hk).1
    have hbbS := hself bb (by rw [hP]; simp)
    cases Q with
    | nil =>
      refine ⟨_, start_run_snV s vi lp1 lp2 lpB lpT a1 a2 a3 a4 es rest p pB pT P [] L Rr P' bb cbb
        hev hv hn hB hT hs1 hs2 hvB hvT hc1 hc2 hevs hm hP rfl hact hG hPB hPT hbbc hbbP hbbS hbbQ hwob, ?_⟩
      rw [hlast]
      exact properEdges_sn s.edges pB pT s.chains.size bb cbb (lt_of_get' hbbc) hbbc hbbf
    | cons tt Q' =>
      obtain ⟨ctt, httc, httf, hwot⟩ := htt tt rfl
      obtain ⟨hbt, hpc'⟩ := hpc bb tt hlast rfl
      have httP : ∀ k ∈ P, cmpEdgeP (L tt) (Rr tt) (L k) (Rr k) p.x = .gt := by
        intro k hk
        rw [hP] at hk
        rcases List.mem_append.mp hk with hk | hk
        · exact (hcross k hk tt (by simp)).2
        · simp only [List.mem_singleton] at hk
          subst hk
          exact ((List.pairwise_cons.mp hpwbQ).1 tt List.mem_cons_self).2
      have httQ : ∀ k ∈ Q', cmpEdgeP (L tt) (Rr tt) (L k) (Rr k) p.x = .lt := by
        intro k hk
        have := (List.pairwise_cons.mp hpwbQ).2
        exact ((List.pairwise_cons.mp this).1 k hk).1
      refine ⟨_, start_run_ssV s vi lp1 lp2 lpB lpT a1 a2 a3 a4 es rest p pB pT P (tt :: Q') L Rr P' Q' bb tt
        cbb ctt hev hv hn hB hT hs1 hs2 hvB hvT hc1 hc2 hevs hm hP rfl hact hG hPB hQB hPT hQT hbbc httc
        hbbf hbt hbbP hbbS hbbQ httP (hself tt (by simp)) httQ hpc' hwob hwot, ?_⟩
      rw [hlast]
      exact properEdges_ss s.edges pB pT s.chains.size bb tt cbb ctt (lt_of_get' hbbc) (lt_of_get' httc) hbt
        hbbc httc hbbf httf

end

end Cav.GenVHeap
