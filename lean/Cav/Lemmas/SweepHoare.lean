/-
  A small invariant calculus for `SM α`: `Pres I E G m` says that from every state satisfying
  `I`, the program `m` either fails with an error satisfying `E`, or returns a value satisfying
  `G` in a state satisfying `I` again.  Rules for `pure`/`bind`/`throw`/`get`/`set`/`modify`,
  a tactic `jp_intro` that treats the join points `have __do_jp := fun … => …` produced by
  `do`-notation once instead of once per use, and the extensible step tactic `pres_step`.
-/
import Cav.Lemmas.SweepRun
import Lean

namespace Cav.SweepHoare
open Cav Num Cav.Sweep Cav.SweepRun

variable {α : Type} {β γ : Type}

/-- invariant `I` is preserved, errors satisfy `E`, results satisfy `G` -/
def Pres (I : St α → Prop) (E : SErr α → Prop) (G : β → Prop) (m : SM α β) : Prop :=
  ∀ s, I s → match m.run s with
    | .ok (b, s') => I s' ∧ G b
    | .error e => E e

variable {I : St α → Prop} {E : SErr α → Prop}

theorem Pres.ok {G : β → Prop} {m : SM α β} (h : Pres I E G m) {s s' : St α} {b : β} (hs : I s)
    (hr : m.run s = .ok (b, s')) : I s' ∧ G b := by
  have := h s hs; rw [hr] at this; exact this

theorem Pres.err {G : β → Prop} {m : SM α β} (h : Pres I E G m) {s : St α} {e : SErr α} (hs : I s)
    (hr : m.run s = .error e) : E e := by
  have := h s hs; rw [hr] at this; exact this

theorem Pres.pure {G : β → Prop} {b : β} (h : G b) : Pres I E G (pure b : SM α β) :=
  fun _ hs => ⟨hs, h⟩

theorem Pres.throw {G : β → Prop} {e : SErr α} (h : E e) : Pres I E G (throw e : SM α β) :=
  fun _ _ => h

theorem Pres.bind {G1 : β → Prop} {G : γ → Prop} {m : SM α β} {f : β → SM α γ}
    (hm : Pres I E G1 m) (hf : ∀ b, G1 b → Pres I E G (f b)) : Pres I E G (m >>= f) := by
  intro s hs
  rw [run_bind]
  have h1 := hm s hs
  cases hr : m.run s with
  | error e => rw [hr] at h1; exact h1
  | ok p =>
    obtain ⟨b, s1⟩ := p
    rw [hr] at h1
    exact hf b h1.2 s1 h1.1

theorem Pres.mono {G1 G : β → Prop} {m : SM α β} (hm : Pres I E G1 m) (h : ∀ b, G1 b → G b) :
    Pres I E G m := by
  intro s hs
  have h1 := hm s hs
  cases hr : m.run s with
  | error e => rw [hr] at h1; exact h1
  | ok p => obtain ⟨b, s1⟩ := p; rw [hr] at h1; exact ⟨h1.1, h _ h1.2⟩

theorem Pres.mono_err {E' : SErr α → Prop} {G : β → Prop} {m : SM α β} (hm : Pres I E G m)
    (h : ∀ e, E e → E' e) : Pres I E' G m := by
  intro s hs
  have h1 := hm s hs
  cases hr : m.run s with
  | error e => rw [hr] at h1; exact h _ h1
  | ok p => obtain ⟨b, s1⟩ := p; rw [hr] at h1; exact h1

/-- `get` returns a state satisfying the invariant -/
theorem Pres.get : Pres I E I (get : SM α (St α)) := fun _ hs => ⟨hs, hs⟩

theorem Pres.set {G : PUnit → Prop} {t : St α} (ht : I t) (h : G ⟨⟩) :
    Pres I E G (set t : SM α PUnit) := fun _ _ => ⟨ht, h⟩

theorem Pres.modify {G : PUnit → Prop} {f : St α → St α} (hf : ∀ s, I s → I (f s)) (h : G ⟨⟩) :
    Pres I E G (modify f : SM α PUnit) := fun s hs => ⟨hf s hs, h⟩

theorem Pres.ite {G : β → Prop} {c : Prop} [Decidable c] {a b : SM α β}
    (ha : c → Pres I E G a) (hb : ¬ c → Pres I E G b) : Pres I E G (if c then a else b) := by
  split
  · exact ha ‹_›
  · exact hb ‹_›

/-- a program that is the last statement of a block: `m = m >>= pure` -/
theorem Pres.of_bind_pure {G : β → Prop} {m : SM α β} (h : Pres I E G (m >>= Pure.pure)) :
    Pres I E G m := by
  rwa [bind_pure] at h

theorem Pres.intro {G : β → Prop} {m : SM α β}
    (h : ∀ s, I s → match m.run s with
      | .ok (b, s') => I s' ∧ G b
      | .error e => E e) : Pres I E G m := h

attribute [irreducible] Pres

open Lean Meta Elab Tactic in
/-- Goal `P (have x := v; b)` (the program is the last argument of the goal).
    * If `v` is a function into a monadic type (a `do`-notation join point), produce the goals
      `∀ args, P (v args)` and `∀ jp, (∀ args, P (jp args)) → P (b jp)`.
    * Otherwise substitute `v` for `x`. -/
elab "jp_intro" : tactic => do
  let g ← getMainGoal
  g.withContext do
    let t := (← instantiateMVars (← g.getType)).consumeMData
    unless t.isApp do throwError "jp_intro: not an application"
    let P := t.appFn!
    let prog := t.appArg!
    match prog with
    | .letE n ty v b _ =>
      let isJp ← forallTelescope ty fun xs r => do
        if xs.size == 0 then return false
        let progTy ← inferType prog
        isDefEq r progTy
      if isJp then
        let okOf (f : Expr) : MetaM Expr :=
          forallTelescope ty fun xs _ => do
            mkForallFVars xs (mkApp P (mkAppN f xs).headBeta)
        let goal1Ty ← okOf v
        let goal2Ty ← withLocalDeclD n ty fun jp => do
          let hjpTy ← okOf jp
          withLocalDeclD `hjp hjpTy fun hjp => do
            mkForallFVars #[jp, hjp] (mkApp P (b.instantiate1 jp))
        let g1 ← mkFreshExprSyntheticOpaqueMVar goal1Ty
        let g2 ← mkFreshExprSyntheticOpaqueMVar goal2Ty
        g.assign (mkApp2 g2 v g1)
        replaceMainGoal [g1.mvarId!, g2.mvarId!]
      else
        let newTy := mkApp P (b.instantiate1 v)
        let g' ← mkFreshExprSyntheticOpaqueMVar newTy
        g.assign g'
        replaceMainGoal [g'.mvarId!]
    | _ =>
      if prog.isHeadBetaTarget then
        let newTy := mkApp P prog.headBeta
        let g' ← mkFreshExprSyntheticOpaqueMVar newTy
        g.assign g'
        replaceMainGoal [g'.mvarId!]
      else
        throwError "jp_intro: the program is not a `have` or a beta-redex"


open Lean Meta Elab Tactic in
/-- Goal `P (have x := v; b)`: substitute `v` for `x` (also for join points; use when a join
    point needs facts that are only known at its call sites). -/
elab "jp_inline" : tactic => do
  let g ← getMainGoal
  g.withContext do
    let t := (← instantiateMVars (← g.getType)).consumeMData
    unless t.isApp do throwError "jp_inline: not an application"
    let P := t.appFn!
    match t.appArg! with
    | .letE _ _ v b _ =>
      let g' ← mkFreshExprSyntheticOpaqueMVar (mkApp P (b.instantiate1 v))
      g.assign g'
      replaceMainGoal [g'.mvarId!]
    | _ => throwError "jp_inline: the program is not a `have`"

open Lean Meta Elab Tactic in
/-- closes the goal with a hypothesis `∀ args, Pres …` (induction hypothesis, join point) -/
elab "apply_pres_hyp" : tactic => do
  let g ← getMainGoal
  g.withContext do
    for ld in (← getLCtx) do
      if ld.isImplementationDetail then continue
      let isPres ← forallTelescopeReducing ld.type fun _ body => do
        let body ← whnfR body
        return body.getAppFn.isConstOf ``Pres
      if isPres then
        let saved ← saveState
        try
          let gs ← g.apply ld.toExpr
          if gs.isEmpty then
            replaceMainGoal []
            return
          else
            restoreState saved
        catch _ =>
          restoreState saved
    throwError "apply_pres_hyp: no hypothesis applies"

/-- closes side conditions (`G b`, `E e`, `I (f s)`); extensible by `macro_rules` -/
syntax "pres_side" : tactic

open Lean Meta Elab Tactic in
/-- Looks at the head constant `Cav.Sweep.f` of the program of the goal `Pres I E ?G (f args)`
    and applies a lemma named `f_ev`, `f_pv`, `f_sc`, `f_spec`, `f_nse` or `f_fr` (dots in `f` replaced
    by `_`), resolved in the current scope; hypotheses of the lemma are closed by `assumption` or `pres_side`. -/
elab "pres_lookup" : tactic => do
  let g ← getMainGoal
  let t := (← instantiateMVars (← g.getType)).consumeMData
  unless t.isApp do throwError "pres_lookup: not an application"
  let prog := t.appArg!
  let .const c _ := prog.getAppFn | throwError "pres_lookup: no head constant"
  let base := c.replacePrefix `Cav.Sweep .anonymous
  if base == c then throwError "pres_lookup: not a model function"
  let str := (base.toString (escape := false)).replace "." "_"
  for suffix in ["_ev", "_pv", "_sc", "_spec", "_nse", "_fr"] do
    let id := mkIdent (Name.mkSimple (str ++ suffix))
    let saved ← saveState
    try
      evalTactic (← `(tactic| (apply $id <;> first | assumption | pres_side)))
      if (← getUnsolvedGoals).contains g then restoreState saved else return
    catch _ => restoreState saved
  throwError "pres_lookup: no lemma for {c}"

macro_rules | `(tactic| pres_side) => `(tactic| trivial)
macro_rules | `(tactic| pres_side) => `(tactic| assumption)

open Lean Meta Elab Tactic in
/-- succeeds iff the program of the goal is syntactically a `bind` -/
elab "guard_bind" : tactic => do
  let g ← getMainGoal
  let t := (← instantiateMVars (← g.getType)).consumeMData
  unless t.isApp do throwError "guard_bind: not an application"
  unless t.appArg!.getAppFn.isConstOf ``Bind.bind do throwError "guard_bind: not a bind"

/-- proves `Pres I E ?G prim` for a primitive or an already treated function; extensible -/
syntax "pres_prim" : tactic
macro_rules | `(tactic| pres_prim) => `(tactic| exact Pres.get)
macro_rules | `(tactic| pres_prim) => `(tactic| pres_lookup)
macro_rules | `(tactic| pres_prim) => `(tactic| apply_pres_hyp)

/-- one step of the invariant calculus -/
macro "pres_step" : tactic => `(tactic| first
  | jp_intro
  | (refine Pres.pure ?_; pres_side)
  | (refine Pres.throw ?_; pres_side)
  | (refine Pres.set ?_ ?_; (· pres_side); (· pres_side))
  | (refine Pres.modify ?_ ?_; (· intro _ _; pres_side); (· pres_side))
  | (guard_bind; apply Pres.bind; (· pres_prim))
  | (apply Pres.mono; (· pres_prim); (· intros; pres_side))
  | (guard_bind; refine Pres.bind (G1 := fun _ => True) ?_ ?_)
  | intro _
  | split)

macro "pres_auto" : tactic => `(tactic| repeat pres_step)

/-- like `pres_auto`, but join points are inlined at their call sites -/
macro "pres_auto_inline" : tactic => `(tactic| repeat (first | jp_inline | pres_step))

end Cav.SweepHoare
