/-
  Helper lemmas for `Thm/C01Approx` (accuracy of the 1-D integrator on integrands that are
  uniformly close to a polynomial of degree ≤ 31, exact arithmetic).

  * `absWeight rule` : the sum of the absolute weights of a symmetric rule (each off-centre
    weight counts twice), `kronrodW = absWeight Gen.k21`, and the table fact `kronrodW_le`;
  * `unitRule` of a pointwise-small integrand is small (`abs_unitRule_le`);
  * the abscissae of a panel lie in the panel (`denorm_mem_hull`).
-/
import Cav.Thm.C01

open Cav Num
namespace Cav.C01Approx
open Cav.C01

/-! ### sum of absolute weights -/

/-- `Σ 2·|w|` over a list of (node, weight) pairs -/
def absWeightSym (rule : List (Rat × Rat)) : Rat := (rule.map (fun nw => 2 * |nw.2|)).sum

/-- the sum of the absolute weights of a symmetric rule as `unitRule` reads it: a leading node
    `0` counts once, every other entry stands for the two nodes `±n` -/
def absWeight : List (Rat × Rat) → Rat
  | [] => 0
  | (n0, w0) :: rest => if n0 = 0 then |w0| + absWeightSym rest else absWeightSym ((n0, w0) :: rest)

@[simp] theorem absWeightSym_nil : absWeightSym [] = 0 := rfl
@[simp] theorem absWeightSym_cons (p : Rat × Rat) (rule : List (Rat × Rat)) :
    absWeightSym (p :: rule) = 2 * |p.2| + absWeightSym rule := by
  simp [absWeightSym]

theorem absWeight_nil : absWeight [] = 0 := rfl
theorem absWeight_cons (n0 w0 : Rat) (rest : List (Rat × Rat)) :
    absWeight ((n0, w0) :: rest) =
      if n0 = 0 then |w0| + absWeightSym rest else absWeightSym ((n0, w0) :: rest) := rfl

theorem absWeightSym_nonneg (rule : List (Rat × Rat)) : 0 ≤ absWeightSym rule := by
  induction rule with
  | nil => simp
  | cons p ps ih => rw [absWeightSym_cons]; positivity

theorem absWeight_nonneg (rule : List (Rat × Rat)) : 0 ≤ absWeight rule := by
  cases rule with
  | nil => exact le_refl _
  | cons p rest =>
    obtain ⟨n0, w0⟩ := p
    rw [absWeight_cons]
    by_cases h0 : n0 = 0
    · rw [if_pos h0]; have := absWeightSym_nonneg rest; positivity
    · rw [if_neg h0]; exact absWeightSym_nonneg _

/-- `W`: the sum of the absolute values of the 21 Kronrod weights of the source tables -/
def kronrodW : Rat := absWeight Gen.k21

/-- the 21 Kronrod weights of the source add up (in absolute value) to at most `2 + 1e-16` -/
theorem kronrodW_le : kronrodW ≤ 2 + 1 / 10 ^ 16 := by
  decide +kernel

/-- … and to at least `2 - 1e-16` -/
theorem kronrodW_ge : 2 - 1 / 10 ^ 16 ≤ kronrodW := by
  decide +kernel

theorem kronrodW_pos : 0 < kronrodW := lt_of_lt_of_le (by norm_num) kronrodW_ge

/-- all Kronrod nodes lie in `[-1, 1]` -/
theorem k21_nodes_abs_le : ∀ nw ∈ (Gen.k21 : List (Rat × Rat)), |nw.1| ≤ 1 := by
  intro nw h
  obtain ⟨_, h0, h1⟩ := weights_pos_nodes_in_unit.2 nw h
  rw [abs_of_nonneg h0]; exact h1.le

/-! ### a pointwise-small integrand has a small rule value -/

theorem abs_ruleSum_le (d : Rat → Rat) (δ : Rat) (rule : List (Rat × Rat))
    (h : ∀ nw ∈ rule, |d (-nw.1)| ≤ δ ∧ |d nw.1| ≤ δ) :
    |ruleSum d rule| ≤ absWeightSym rule * δ := by
  induction rule with
  | nil => simp
  | cons p ps ih =>
    rw [ruleSum_cons, absWeightSym_cons]
    obtain ⟨h1, h2⟩ := h p List.mem_cons_self
    have h3 := ih (fun q hq => h q (List.mem_cons_of_mem _ hq))
    have h4 : |p.2 * (d (-p.1) + d p.1)| ≤ 2 * |p.2| * δ := by
      rw [abs_mul]
      have : |d (-p.1) + d p.1| ≤ 2 * δ := le_trans (abs_add_le _ _) (by linarith)
      have := mul_le_mul_of_nonneg_left this (abs_nonneg p.2)
      linarith
    calc |p.2 * (d (-p.1) + d p.1) + ruleSum d ps|
        ≤ |p.2 * (d (-p.1) + d p.1)| + |ruleSum d ps| := abs_add_le _ _
      _ ≤ 2 * |p.2| * δ + absWeightSym ps * δ := add_le_add h4 h3
      _ = (2 * |p.2| + absWeightSym ps) * δ := by ring

/-- if `|d| ≤ δ` at the nodes `±n` of the rule then `|unitRule d rule| ≤ (Σ|w|)·δ` -/
theorem abs_unitRule_le (d : Rat → Rat) (δ : Rat) (rule : List (Rat × Rat))
    (h : ∀ nw ∈ rule, |d (-nw.1)| ≤ δ ∧ |d nw.1| ≤ δ) :
    |unitRule d rule| ≤ absWeight rule * δ := by
  cases rule with
  | nil => simp [unitRule_nil, absWeight_nil]
  | cons p rest =>
    obtain ⟨n0, w0⟩ := p
    rw [unitRule_cons, absWeight_cons]
    by_cases h0 : n0 = 0
    · simp only [h0, if_true]
      have h1 : |d 0| ≤ δ := by
        have := (h (n0, w0) List.mem_cons_self).2
        simpa [h0] using this
      have h2 := abs_ruleSum_le d δ rest (fun q hq => h q (List.mem_cons_of_mem _ hq))
      have h3 : |w0 * d 0| ≤ |w0| * δ := by
        rw [abs_mul]; exact mul_le_mul_of_nonneg_left h1 (abs_nonneg _)
      calc |w0 * d 0 + ruleSum d rest| ≤ |w0 * d 0| + |ruleSum d rest| := abs_add_le _ _
        _ ≤ |w0| * δ + absWeightSym rest * δ := add_le_add h3 h2
        _ = (|w0| + absWeightSym rest) * δ := by ring
    · simp only [h0, if_false]
      exact abs_ruleSum_le d δ _ h

/-- `unitRule` of a difference -/
theorem unitRule_sub (f g : Rat → Rat) (rule : List (Rat × Rat)) :
    unitRule (fun x => f x - g x) rule = unitRule f rule - unitRule g rule := by
  have h1 := unitRule_add f (fun x => (-1) * g x) rule
  have h2 := unitRule_smul (-1) g rule
  have h3 : (fun x => f x - g x) = (fun x => f x + (-1) * g x) := by funext x; ring
  rw [h3, h1, h2]; ring

/-! ### the abscissae of a panel lie in the panel -/

/-- the affine image of `t ∈ [-1,1]` lies between `a` and `b` (either order) -/
theorem denorm_mem_hull (a b t : Rat) (ht : |t| ≤ 1) :
    min a b ≤ (a + b) / 2 + (b - a) / 2 * t ∧ (a + b) / 2 + (b - a) / 2 * t ≤ max a b := by
  obtain ⟨h1, h2⟩ := abs_le.mp ht
  rcases le_total a b with hab | hab
  · rw [min_eq_left hab, max_eq_right hab]
    constructor <;> nlinarith
  · rw [min_eq_right hab, max_eq_left hab]
    constructor <;> nlinarith

/-- one panel: integrands that are `δ`-close on the panel have K21 values that are
    `|(b-a)/2|·W·δ`-close (any rule whose nodes lie in `[-1,1]`) -/
theorem symRule_perturb (f g : Rat → Rat) (a b δ : Rat) (rule : List (Rat × Rat))
    (hn : ∀ nw ∈ rule, |nw.1| ≤ 1)
    (h : ∀ x, min a b ≤ x → x ≤ max a b → |f x - g x| ≤ δ) :
    |symRule f a b rule - symRule g a b rule| ≤ |(b - a) / 2| * absWeight rule * δ := by
  rw [symRule_eq, symRule_eq, ← mul_sub, abs_mul, mul_assoc,
    ← unitRule_sub (fun x => f ((a + b) / 2 + (b - a) / 2 * x))
      (fun x => g ((a + b) / 2 + (b - a) / 2 * x))]
  refine mul_le_mul_of_nonneg_left ?_ (abs_nonneg _)
  refine abs_unitRule_le _ δ rule (fun nw hnw => ⟨?_, ?_⟩)
  · obtain ⟨h1, h2⟩ := denorm_mem_hull a b (-nw.1) (by rw [abs_neg]; exact hn nw hnw)
    exact h _ h1 h2
  · obtain ⟨h1, h2⟩ := denorm_mem_hull a b nw.1 (hn nw hnw)
    exact h _ h1 h2

/-! ### the panels of a directed chain lie in the hull of its ends -/

theorem chain_piece_hull {a b : Rat} {L : List (Rat × Rat)} (hc : C02.IsChain a b L)
    (hd : C02.Directed a b L) (hab : a ≠ b) :
    ∀ p ∈ L, min a b ≤ min p.1 p.2 ∧ max p.1 p.2 ≤ max a b := by
  intro p hp
  rcases chain_piece_bounds hc hd hab p hp with ⟨h0, h1, h2, h3⟩ | ⟨h0, h1, h2, h3⟩
  · rw [min_eq_left h0.le, max_eq_right h0.le, min_eq_left h2.le, max_eq_right h2.le]
    exact ⟨h1, h3⟩
  · rw [min_eq_right h0.le, max_eq_left h0.le, min_eq_right h2.le, max_eq_left h2.le]
    exact ⟨h1, h3⟩

/-- accuracy for an integrand `δ`-close to a polynomial of degree ≤ 31 (rational statement) -/
theorem approx_accuracy_rat (cs : List Rat) (hdeg : cs.length ≤ 32) (f : Rat → Rat)
    (a b tol δ : Rat) (mi : Option Nat) (v e : Rat) (hab : a ≠ b)
    (hf : ∀ x, min a b ≤ x → x ≤ max a b → |f x - evalPoly cs x| ≤ δ)
    (h : (gk1d f a b tol mi).res = .ok (v, e)) :
    |v - exactInt cs a b| ≤
      |(b - a) / 2| * (1 / 10 ^ 16 * absPolyAt cs (max |a| |b|) + kronrodW * δ) := by
  obtain ⟨L, hc, hd, hv, _, _⟩ := C02.gk1d_ok_is_tiling_sum f a b tol mi v e hab h
  rw [hv, ← C02.chain_additive (exactInt cs) (exactInt_adjacent cs) a b L hc]
  have h1 := abs_sum_sub_sum_le L (fun p => (gkApprox f p.1 p.2).1) (fun p => exactInt cs p.1 p.2)
    (fun p => (1 / 10 ^ 16 * absPolyAt cs (max |a| |b|) + kronrodW * δ) / 2 * |p.2 - p.1|)
    (fun p hp => ?_)
  · refine le_trans h1 (le_of_eq ?_)
    rw [List.sum_map_mul_left, chain_abs_length_sum hc hd hab, abs_div, abs_two]
    ring
  · obtain ⟨hlo, hhi⟩ := chain_piece_hull hc hd hab p hp
    have hpert := symRule_perturb f (evalPoly cs) p.1 p.2 δ Gen.k21 k21_nodes_abs_le
      (fun x hx1 hx2 => hf x (le_trans hlo hx1) (le_trans hx2 hhi))
    have hpoly := panel_poly_error_rat cs hdeg p.1 p.2
    have hmono : absPolyAt cs (max |p.1| |p.2|) ≤ absPolyAt cs (max |a| |b|) :=
      absPolyAt_mono cs (le_trans (abs_nonneg p.1) (le_max_left _ _))
        (chain_piece_abs_le hc hd hab p hp)
    have hnn : (0 : Rat) ≤ |(p.2 - p.1) / 2| * (1 / 10 ^ 16) := by positivity
    have hm := mul_le_mul_of_nonneg_left hmono hnn
    have htri : |(gkApprox f p.1 p.2).1 - exactInt cs p.1 p.2| ≤
        |symRule f p.1 p.2 Gen.k21 - symRule (evalPoly cs) p.1 p.2 Gen.k21| +
          |symRule (evalPoly cs) p.1 p.2 Gen.k21 - exactInt cs p.1 p.2| := by
      rw [gkApprox_fst]
      calc |symRule f p.1 p.2 Gen.k21 - exactInt cs p.1 p.2|
          = |(symRule f p.1 p.2 Gen.k21 - symRule (evalPoly cs) p.1 p.2 Gen.k21) +
              (symRule (evalPoly cs) p.1 p.2 Gen.k21 - exactInt cs p.1 p.2)| := by congr 1; ring
        _ ≤ _ := abs_add_le _ _
    have hW : absWeight Gen.k21 = kronrodW := rfl
    rw [hW] at hpert
    rw [abs_div, abs_two] at hpert hpoly hm
    show |(gkApprox f p.1 p.2).1 - exactInt cs p.1 p.2| ≤
      (1 / 10 ^ 16 * absPolyAt cs (max |a| |b|) + kronrodW * δ) / 2 * |p.2 - p.1|
    linarith

/-! ### real analysis: an integrand close to a real function close to a polynomial -/

/-- a bound `X ≤ C + K·q` for all rationals `q ≥ t` holds for `t` itself (`K ≥ 0`) -/
theorem le_of_forall_rat_ge {X C K t : ℝ} (hK : 0 ≤ K)
    (H : ∀ q : Rat, t ≤ (q : ℝ) → X ≤ C + K * (q : ℝ)) : X ≤ C + K * t := by
  apply le_of_forall_pos_le_add
  intro r hr
  have hK1 : 0 < K + 1 := by linarith
  have hlt : t < t + r / (K + 1) := by
    have : 0 < r / (K + 1) := div_pos hr hK1
    linarith
  obtain ⟨q, hq1, hq2⟩ := exists_rat_btwn hlt
  have h1 := H q hq1.le
  have h2 : K * (q : ℝ) ≤ K * (t + r / (K + 1)) := mul_le_mul_of_nonneg_left hq2.le hK
  have h3 : K * (r / (K + 1)) ≤ r := by
    rw [mul_div_assoc', div_le_iff₀ hK1]
    nlinarith
  have h4 : K * (t + r / (K + 1)) = K * t + K * (r / (K + 1)) := by ring
  linarith

/-- the rational hull `[min a b, max a b]` sits inside the real `uIcc` -/
theorem cast_mem_uIcc {a b x : Rat} (h1 : min a b ≤ x) (h2 : x ≤ max a b) :
    (x : ℝ) ∈ Set.uIcc (a : ℝ) (b : ℝ) := by
  rw [Set.uIcc, Set.mem_Icc]
  constructor
  · have := (Rat.cast_le (K := ℝ)).mpr h1
    rwa [Rat.cast_min] at this
  · have := (Rat.cast_le (K := ℝ)).mpr h2
    rwa [Rat.cast_max] at this

/-- `|∫F − ∫P| ≤ ε·|b − a|` when `|F − P| ≤ ε` on the interval -/
theorem integral_sub_poly_le (cs : List Rat) (F : ℝ → ℝ) (a b ε : ℝ)
    (hFi : IntervalIntegrable F MeasureTheory.volume a b)
    (hF : ∀ x ∈ Set.uIcc a b, |F x - evalPolyR cs x| ≤ ε) :
    |(∫ x in a..b, evalPolyR cs x) - ∫ x in a..b, F x| ≤ |b - a| * ε := by
  rw [abs_sub_comm, ← intervalIntegral.integral_sub hFi (evalPolyR_intervalIntegrable cs a b),
    mul_comm]
  have := intervalIntegral.norm_integral_le_of_norm_le_const (a := a) (b := b) (C := ε)
    (f := fun x => F x - evalPolyR cs x)
    (fun x hx => by rw [Real.norm_eq_abs]; exact hF x (Set.uIoc_subset_uIcc hx))
  rwa [Real.norm_eq_abs] at this

/-- accuracy for a rational integrand `η`-close to a real function that is `ε`-close to a
    polynomial of degree ≤ 31 -/
theorem approx_accuracy_real (cs : List Rat) (hdeg : cs.length ≤ 32) (F : ℝ → ℝ) (f : Rat → Rat)
    (a b tol : Rat) (ε η : ℝ) (mi : Option Nat) (v e : Rat) (hab : a ≠ b)
    (hFi : IntervalIntegrable F MeasureTheory.volume (a : ℝ) (b : ℝ))
    (hF : ∀ x ∈ Set.uIcc (a : ℝ) (b : ℝ), |F x - evalPolyR cs x| ≤ ε)
    (hf : ∀ x : Rat, min a b ≤ x → x ≤ max a b → |((f x : Rat) : ℝ) - F (x : ℝ)| ≤ η)
    (h : (gk1d f a b tol mi).res = .ok (v, e)) :
    |(v : ℝ) - ∫ x in (a : ℝ)..(b : ℝ), F x| ≤
      |((b : ℝ) - a) / 2| * (1 / 10 ^ 16 * ((absPolyAt cs (max |a| |b|) : Rat) : ℝ) +
        (kronrodW : ℝ) * (ε + η)) + |(b : ℝ) - a| * ε := by
  -- step A/B: the rational bound for every rational δ ≥ ε + η, then pass to ε + η
  have hcore : |(v : ℝ) - ((exactInt cs a b : Rat) : ℝ)| ≤
      |((b : ℝ) - a) / 2| * (1 / 10 ^ 16 * ((absPolyAt cs (max |a| |b|) : Rat) : ℝ)) +
        |((b : ℝ) - a) / 2| * (kronrodW : ℝ) * (ε + η) := by
    refine le_of_forall_rat_ge
      (mul_nonneg (abs_nonneg _) (Rat.cast_nonneg.mpr kronrodW_pos.le)) (fun q hq => ?_)
    have hfq : ∀ x, min a b ≤ x → x ≤ max a b → |f x - evalPoly cs x| ≤ q := by
      intro x hx1 hx2
      have hx := cast_mem_uIcc hx1 hx2
      have h1 := hf x hx1 hx2
      have h2 := hF _ hx
      rw [evalPolyR_cast] at h2
      have h3 : |((f x : Rat) : ℝ) - ((evalPoly cs x : Rat) : ℝ)| ≤ (q : ℝ) := by
        calc |((f x : Rat) : ℝ) - ((evalPoly cs x : Rat) : ℝ)|
            = |(((f x : Rat) : ℝ) - F (x : ℝ)) + (F (x : ℝ) - ((evalPoly cs x : Rat) : ℝ))| := by
              congr 1; ring
          _ ≤ |((f x : Rat) : ℝ) - F (x : ℝ)| + |F (x : ℝ) - ((evalPoly cs x : Rat) : ℝ)| :=
              abs_add_le _ _
          _ ≤ (q : ℝ) := by linarith
      rw [← Rat.cast_sub, ← Rat.cast_abs, Rat.cast_le] at h3
      exact h3
    have h4 := (Rat.cast_le (K := ℝ)).mpr
      (approx_accuracy_rat cs hdeg f a b tol q mi v e hab hfq h)
    push_cast at h4
    linarith
  have hint := integral_sub_poly_le cs F (a : ℝ) (b : ℝ) ε hFi hF
  rw [integral_eq_exactInt] at hint
  have htri : |(v : ℝ) - ∫ x in (a : ℝ)..(b : ℝ), F x| ≤
      |(v : ℝ) - ((exactInt cs a b : Rat) : ℝ)| +
        |((exactInt cs a b : Rat) : ℝ) - ∫ x in (a : ℝ)..(b : ℝ), F x| := by
    calc |(v : ℝ) - ∫ x in (a : ℝ)..(b : ℝ), F x|
        = |((v : ℝ) - ((exactInt cs a b : Rat) : ℝ)) +
            (((exactInt cs a b : Rat) : ℝ) - ∫ x in (a : ℝ)..(b : ℝ), F x)| := by congr 1; ring
      _ ≤ _ := abs_add_le _ _
  linarith

end Cav.C01Approx
