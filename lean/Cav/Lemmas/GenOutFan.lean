/-
  Output of the sweep on general valid input: `fan_head` / `fan_tail` of `MonoChain.lean` with a
  frame statement (the cells outside the chain are untouched).
-/
import Cav.Lemmas.MonoChain

set_option linter.unusedSimpArgs false
set_option linter.unusedVariables false
set_option linter.unusedSectionVars false

namespace Cav.GenOutFan
open Cav Num Cav.Sweep Cav.SweepRun Cav.TriRun Cav.QuadRun Cav.CvxHeap Cav.MonoHeap

variable {α : Type} [Num α]

/-- a duplicate-free list of numbers below `n` has at most `n` elements -/
theorem nodup_lt_length : ∀ (n : Nat) (l : List Nat), l.Nodup → (∀ k ∈ l, k < n) → l.length ≤ n
  | 0, l, _, h => by
    cases l with
    | nil => simp
    | cons a r => exact absurd (h a List.mem_cons_self) (Nat.not_lt_zero _)
  | n + 1, l, hnd, h => by
    by_cases hn : n ∈ l
    · have h1 := nodup_lt_length n (l.erase n) (hnd.erase n) (by
        intro k hk
        have hk' := (List.Nodup.mem_erase_iff hnd).mp hk
        have := h k hk'.2
        omega)
      rw [List.length_erase_of_mem hn] at h1
      omega
    · have h1 := nodup_lt_length n l hnd (by
        intro k hk
        have := h k hk
        have hne : k ≠ n := fun e => hn (e ▸ hk)
        omega)
      omega

/-- prepend-and-fan with frame -/
theorem fan_head_fr {N : Array (Node α)} {iB : Nat} {pB : Pt α} {rest : List (Nat × Pt α)} (p : Pt α)
    (s1 : St α) (c : Chain)
    (hN : s1.nodes = appH N iB ⟨pB, none, nxtOf rest none⟩ p) (hc : c.head = N.size)
    (hs : Seg N none ((iB, pB) :: rest) none)
    (hnd : (((iB, pB) :: rest).map Prod.fst).Nodup)
    {mid : List (Nat × Pt α)} {g : Nat} {pg : Pt α} {rest' : List (Nat × Pt α)}
    (hsplit : (iB, pB) :: rest = mid ++ (g, pg) :: rest')
    (hfan : FanF p (mid.map Prod.snd ++ [pg])) (hstop : StopF p pg rest') :
    ∃ N', (backTriangulate c false).run s1 =
        .ok ((), { s1 with nodes := N', out := trisF p (mid.map Prod.snd ++ [pg]) ++ s1.out }) ∧
      Seg N' none ((N.size, p) :: (g, pg) :: rest') none ∧ N'.size = N.size + 1 ∧
      (∀ k, k < N.size → (∀ x ∈ (iB, pB) :: rest, x.1 ≠ k) → N'[k]? = N[k]?) := by
  have hseg := seg_appH p hs hnd
  have hlt := Seg.lt hs
  have hnd' : (((N.size, p) :: mid ++ (g, pg) :: rest').map Prod.fst).Nodup := by
    rw [List.cons_append, ← hsplit]
    simp only [List.map_cons, List.nodup_cons] at hnd ⊢
    refine ⟨?_, hnd⟩
    intro hmem
    rw [← List.map_cons (f := Prod.fst) (a := (iB, pB)), List.mem_map] at hmem
    obtain ⟨x, hx, hx'⟩ := hmem
    have := hlt x hx
    omega
  have hlen : mid.length ≤ N.size + 3 := by
    have h1 : ((iB, pB) :: rest).length ≤ N.size := by
      have := nodup_lt_length N.size _ hnd (by
        intro i hi
        obtain ⟨x, hx, rfl⟩ := List.mem_map.mp hi
        exact hlt x hx)
      simpa using this
    rw [hsplit] at h1
    simp only [List.length_append, List.length_cons] at h1
    omega
  rw [hsplit] at hseg
  rw [← hN] at hseg
  obtain ⟨N', hrun, hseg', hsz, hfr⟩ := nt_fwd_fan mid s1 N.size p none g pg rest' (s1.nodes.size + 2)
    hseg hnd' hfan hstop (by rw [hN, size_appH]; omega)
  refine ⟨N', ?_, hseg', by rw [hsz, hN, size_appH], ?_⟩
  · rw [run_backTri]
    simp only [Bool.false_eq_true, if_false, hc]
    exact hrun
  · intro k hk hout
    have hmem : ∀ x ∈ mid ++ (g, pg) :: rest', x.1 ≠ k := by rw [← hsplit]; exact hout
    rw [hfr k (Nat.ne_of_lt hk) (fun x hx => hmem x (List.mem_append_left _ hx))
      (fun e => hmem (g, pg) (by simp) e.symm), hN]
    exact appH_other N iB _ p k hk (fun e => hout (iB, pB) List.mem_cons_self e.symm)

/-- append-and-fan with frame (tail view) -/
theorem fan_tail_fr {N : Array (Node α)} {iT : Nat} {pT : Pt α} {rest : List (Nat × Pt α)} (p : Pt α)
    (s1 : St α) (c : Chain)
    (hN : s1.nodes = appT N iT ⟨pT, nxtOf rest none, none⟩ p) (hc : c.tail = N.size)
    (hs : SegR N none ((iT, pT) :: rest) none)
    (hnd : (((iT, pT) :: rest).map Prod.fst).Nodup)
    {mid : List (Nat × Pt α)} {g : Nat} {pg : Pt α} {rest' : List (Nat × Pt α)}
    (hsplit : (iT, pT) :: rest = mid ++ (g, pg) :: rest')
    (hfan : FanB p (mid.map Prod.snd ++ [pg])) (hstop : StopB p pg rest') :
    ∃ N', (backTriangulate c true).run s1 =
        .ok ((), { s1 with nodes := N', out := trisB p (mid.map Prod.snd ++ [pg]) ++ s1.out }) ∧
      SegR N' none ((N.size, p) :: (g, pg) :: rest') none ∧ N'.size = N.size + 1 ∧
      (∀ k, k < N.size → (∀ x ∈ (iT, pT) :: rest, x.1 ≠ k) → N'[k]? = N[k]?) := by
  have hseg := segR_appT p hs hnd
  have hlt := SegR.lt hs
  have hnd' : (((N.size, p) :: mid ++ (g, pg) :: rest').map Prod.fst).Nodup := by
    rw [List.cons_append, ← hsplit]
    simp only [List.map_cons, List.nodup_cons] at hnd ⊢
    refine ⟨?_, hnd⟩
    intro hmem
    rw [← List.map_cons (f := Prod.fst) (a := (iT, pT)), List.mem_map] at hmem
    obtain ⟨x, hx, hx'⟩ := hmem
    have := hlt x hx
    omega
  have hlen : mid.length ≤ N.size + 3 := by
    have h1 : ((iT, pT) :: rest).length ≤ N.size := by
      have := nodup_lt_length N.size _ hnd (by
        intro i hi
        obtain ⟨x, hx, rfl⟩ := List.mem_map.mp hi
        exact hlt x hx)
      simpa using this
    rw [hsplit] at h1
    simp only [List.length_append, List.length_cons] at h1
    omega
  rw [hsplit] at hseg
  rw [← hN] at hseg
  obtain ⟨N', hrun, hseg', hsz, hfr⟩ := nt_bwd_fan mid s1 N.size p none g pg rest' (s1.nodes.size + 2)
    hseg hnd' hfan hstop (by rw [hN, size_appT]; omega)
  refine ⟨N', ?_, hseg', by rw [hsz, hN, size_appT], ?_⟩
  · rw [run_backTri]
    simp only [if_true, hc]
    exact hrun
  · intro k hk hout
    have hmem : ∀ x ∈ mid ++ (g, pg) :: rest', x.1 ≠ k := by rw [← hsplit]; exact hout
    rw [hfr k (Nat.ne_of_lt hk) (fun x hx => hmem x (List.mem_append_left _ hx))
      (fun e => hmem (g, pg) (by simp) e.symm), hN]
    exact appT_other N iT _ p k hk (fun e => hout (iT, pT) List.mem_cons_self e.symm)

end Cav.GenOutFan
