/-
  Output of the sweep on general valid input, ARCS, part C: what the arc invariant `ArcInv` gives
  at the END of the sweep, and the link between the vertex weights `vWeight` and the signed
  half-turns `turnE`.

  * `arc_final`: with an empty active list there are no arcs, every processed vertex lies on a
    completed polygon;
  * `single_iter`, `cyc_len`, `cyc_max`, `cyc_turns`, `single_turns`: in the ring of a single
    polygon a completed polygon is the whole ring, its closing vertex is the rightmost vertex `w`
    and the half-turns of the polygon add up to `2 * turnE w`;
  * `vWeight_turn`: `vWeight v = 1 - walkSign v * turnE v` at a coherent vertex;
  * `turnE_block`: `turnE` is a quantity of the polygon alone;
  * `block_weights`: the weights of a polygon add up to `size - walkSign * (sum of half-turns)`.
-/
import Cav.Lemmas.GenOutArcDefs
import Cav.Lemmas.GenOutSub
import Cav.Lemmas.GenOutPoly

set_option linter.unusedSimpArgs false
set_option linter.unusedVariables false

namespace Cav.GenOutArcC
open Cav Num Cav.Geo Cav.Sweep Cav.QuadGeom Cav.GenInv Cav.GenRing
open Cav.GenOutDefs Cav.GenOutPoly Cav.GenOutCount Cav.GenOutArc
open Cav.GenOutSub (single_n single_facts block_single start_nbrs nxt_lower_iff walkSign_start
  upperNbr)
open Cav.GenGeom hiding Q

/-! ### (C1) the end of the sweep -/

/-- **(C1)** with an empty active list there are no arcs and every processed vertex lies on a
    completed polygon -/
theorem arc_final {R : RingQ} {xs : Rat} {A : List Arc} {D : List Cyc}
    (h : ArcInv R xs [] A D) :
    A = [] ∧ ∀ v, v < R.n → R.x v ≤ xs →
      ∃ c ∈ D, CycOK R c ∧ (v = c.w ∨ ∃ j, j ≤ c.k ∧ v = R.nxt^[j] c.v0) := by
  have hA : A = [] := by
    cases A with
    | nil => rfl
    | cons α r =>
      obtain ⟨a, ha, -⟩ := (h.arcs α List.mem_cons_self).tail
      cases ha
  subst hA
  refine ⟨rfl, fun v hv hx => ?_⟩
  rcases h.cover v hv hx with ⟨α, hα, -⟩ | ⟨c, hc, hh⟩
  · cases hα
  · exact ⟨c, hc, h.cyc c hc, hh⟩

/-! ### (C2) the ring of a single polygon -/

/-- rotation of `[0, n)`: one inverse -/
theorem rot_gf {a n j : Nat} (ha : a < n) (hj : j < n) : ((a + j) % n + n - a) % n = j := by
  by_cases h : a + j < n
  · rw [Nat.mod_eq_of_lt h, show a + j + n - a = j + n by omega, Nat.add_mod_right,
      Nat.mod_eq_of_lt hj]
  · rw [Nat.mod_eq_sub_mod (by omega : a + j ≥ n), Nat.mod_eq_of_lt (by omega : a + j - n < n),
      show a + j - n + n - a = j by omega, Nat.mod_eq_of_lt hj]

/-- rotation of `[0, n)`: the other inverse -/
theorem rot_fg {a n i : Nat} (ha : a < n) (hi : i < n) : (a + (i + n - a) % n) % n = i := by
  rw [Nat.add_mod_mod, show a + (i + n - a) = i + n by omega, Nat.add_mod_right,
    Nat.mod_eq_of_lt hi]

section single
variable {P : Array Q}

/-- the iterated successor in the ring of a single polygon -/
theorem single_iter (P : Array Q) : ∀ (j i : Nat), i < P.size →
    (ringOf [P]).nxt^[j] i = (i + j) % P.size
  | 0, i, hi => by
    rw [Function.iterate_zero, id_eq, Nat.add_zero, Nat.mod_eq_of_lt hi]
  | j + 1, i, hi => by
    rw [Function.iterate_succ_apply', single_iter P j i hi,
      (single_facts P (Nat.mod_lt _ (by omega))).2.2, Nat.mod_add_mod, Nat.add_assoc]

theorem cyc_w_iter {c : Cyc} (hc : CycOK (ringOf [P]) c) :
    (ringOf [P]).nxt^[c.k + 1] c.v0 = c.w := by
  rw [Function.iterate_succ_apply']
  exact hc.close1

theorem cyc_w_eq {c : Cyc} (hc : CycOK (ringOf [P]) c) (hv0 : c.v0 < P.size) :
    c.w = (c.v0 + (c.k + 1)) % P.size := by
  rw [← cyc_w_iter hc, single_iter P _ _ hv0]

theorem cyc_w_lt {c : Cyc} (hc : CycOK (ringOf [P]) c) : c.w < P.size := by
  have := hc.wlt
  rwa [single_n] at this

theorem cyc_dvd {c : Cyc} (hc : CycOK (ringOf [P]) c) (hv0 : c.v0 < P.size) :
    P.size ∣ c.k + 2 := by
  have h2 := hc.close2
  rw [(single_facts P (cyc_w_lt hc)).2.2, cyc_w_eq hc hv0, Nat.mod_add_mod] at h2
  have h0 := Nat.sub_mod_eq_zero_of_mod_eq (h2.trans (Nat.mod_eq_of_lt hv0).symm)
  have e : c.v0 + (c.k + 1) + 1 - c.v0 = c.k + 2 := by omega
  rw [e] at h0
  exact Nat.dvd_of_mod_eq_zero h0

/-- a completed polygon of the ring of a single polygon is the whole ring -/
theorem cyc_len {c : Cyc} (hc : CycOK (ringOf [P]) c) (hv0 : c.v0 < P.size) :
    c.k + 2 = P.size := by
  have hd := cyc_dvd hc hv0
  have h1 : P.size ≤ c.k + 2 := Nat.le_of_dvd (by omega) hd
  by_contra hne
  have hlt : P.size < c.k + 2 := by omega
  have hd2 : P.size ∣ c.k + 2 - P.size := Nat.dvd_sub hd (dvd_refl _)
  have h2 : P.size ≤ c.k + 2 - P.size := Nat.le_of_dvd (by omega) hd2
  have hj : c.k + 1 - P.size ≤ c.k := by omega
  have hlt' := (hc.lt _ hj).2
  have e : (c.v0 + (c.k + 1 - P.size)) % P.size = c.w := by
    have e' : c.v0 + (c.k + 1) = c.v0 + (c.k + 1 - P.size) + P.size := by omega
    rw [cyc_w_eq hc hv0, e', Nat.add_mod_right]
  rw [single_iter P _ _ hv0, e] at hlt'
  exact lt_irrefl _ hlt'

/-- the closing vertex of the completed polygon is the rightmost vertex -/
theorem cyc_max {c : Cyc} (hc : CycOK (ringOf [P]) c) (hv0 : c.v0 < P.size) :
    ∀ u, u < P.size → (ringOf [P]).x u ≤ (ringOf [P]).x c.w := by
  intro u hu
  have hlen := cyc_len hc hv0
  have hj : (u + P.size - c.v0) % P.size < P.size := Nat.mod_lt _ (by omega)
  have hu' : (c.v0 + (u + P.size - c.v0) % P.size) % P.size = u := rot_fg hv0 hu
  by_cases hjk : (u + P.size - c.v0) % P.size ≤ c.k
  · have h := (hc.lt _ hjk).2
    rw [single_iter P _ _ hv0, hu'] at h
    exact le_of_lt h
  · have ej : (u + P.size - c.v0) % P.size = c.k + 1 := by omega
    rw [ej] at hu'
    exact le_of_eq (by rw [cyc_w_eq hc hv0, hu'])

/-- the half-turns of a single polygon add up to twice the half-turn at its rightmost vertex -/
theorem cyc_turns {c : Cyc} (hc : CycOK (ringOf [P]) c) (hv0 : c.v0 < P.size) :
    ((List.range P.size).map fun i => turnE (ringOf [P]) i).sum = 2 * turnE (ringOf [P]) c.w := by
  have hlen := cyc_len hc hv0
  have hpos : 0 < P.size := by omega
  have hperm : ((List.range P.size).map fun j => turnE (ringOf [P]) ((c.v0 + j) % P.size)).sum =
      ((List.range P.size).map fun i => turnE (ringOf [P]) i).sum :=
    sum_range_perm (fun i => turnE (ringOf [P]) i) (fun j => (c.v0 + j) % P.size)
      (fun i => (i + P.size - c.v0) % P.size) P.size
      (fun i _ => Nat.mod_lt _ hpos) (fun i _ => Nat.mod_lt _ hpos)
      (fun i hi => rot_gf hv0 hi) (fun i hi => rot_fg hv0 hi)
  have e1 : ((List.range P.size).map fun j => turnE (ringOf [P]) ((c.v0 + j) % P.size)).sum =
      ((List.range (c.k + 1 + 1)).map fun j => turnE (ringOf [P]) ((ringOf [P]).nxt^[j] c.v0)).sum := by
    rw [show c.k + 1 + 1 = P.size by omega]
    apply sum_range_congr
    intro j _
    rw [single_iter P j _ hv0]
  rw [← hperm, e1, List.sum_range_succ, cyc_w_iter hc]
  exact hc.sum

/-- **(C2)** at the end of the sweep of a single polygon: the half-turns add up to twice the
    half-turn at the rightmost vertex -/
theorem single_turns (h3 : 3 ≤ P.size) {xs : Rat} {A : List Arc} {D : List Cyc}
    (h : ArcInv (ringOf [P]) xs [] A D)
    (hall : ∀ v, v < (ringOf [P]).n → (ringOf [P]).x v ≤ xs) :
    ∃ w, w < P.size ∧ (∀ u, u < P.size → (ringOf [P]).x u ≤ (ringOf [P]).x w) ∧
      ((List.range P.size).map fun i => turnE (ringOf [P]) i).sum = 2 * turnE (ringOf [P]) w := by
  have h0 : 0 < (ringOf [P]).n := by rw [single_n]; omega
  obtain ⟨-, hcov⟩ := arc_final h
  obtain ⟨c, -, hc, -⟩ := hcov 0 h0 (hall 0 h0)
  have hv0 : c.v0 < P.size := by
    have := (hc.lt 0 (Nat.zero_le _)).1
    rwa [Function.iterate_zero, id_eq, single_n] at this
  exact ⟨c.w, cyc_w_lt hc, cyc_max hc hv0, cyc_turns hc hv0⟩

end single

/-! ### (C3) weight and half-turn -/

section ring
variable {R : RingQ} {V : Array (Vtx XQ)} {v : Nat}

theorem turnE_bend
    (h : (R.x (R.prv v) < R.x v ∧ R.x v < R.x (R.nxt v)) ∨
      (R.x (R.nxt v) < R.x v ∧ R.x v < R.x (R.prv v))) : turnE R v = 0 := by
  unfold turnE
  rcases h with ⟨h1, h2⟩ | ⟨h1, h2⟩
  · rw [if_neg]
    rintro (⟨-, h'⟩ | ⟨h', -⟩)
    · exact lt_asymm h2 h'
    · exact lt_asymm h1 h'
  · rw [if_neg]
    rintro (⟨h', -⟩ | ⟨-, h'⟩)
    · exact lt_asymm h2 h'
    · exact lt_asymm h1 h'

theorem turnE_ext
    (h : (R.x (R.prv v) < R.x v ∧ R.x (R.nxt v) < R.x v) ∨
      (R.x v < R.x (R.prv v) ∧ R.x v < R.x (R.nxt v))) :
    turnE R v = if 0 < orient (R.pt (R.prv v)) (R.pt v) (R.pt (R.nxt v)) then 1 else -1 := by
  unfold turnE
  rw [if_pos h]

/-- End vertex -/
theorem vWeight_turn_end (h0 : R.x (R.prv v) < R.x v) (h1 : R.x (R.nxt v) < R.x v)
    (hc : Coh R v) : (vWeight R v : Rat) = 1 - walkSign R v * (turnE R v : Rat) := by
  have hc' : isLo R (R.prv v) v ↔ ¬ isLo R (R.nxt v) v := by
    unfold Coh at hc
    rw [if_pos h0, if_neg (not_lt.mpr (le_of_lt h1))] at hc
    exact hc
  have hw : walkSign R v = if isLo R (R.nxt v) v then -1 else 1 := by
    unfold walkSign
    rw [if_neg (not_lt.mpr (le_of_lt h1))]
  have ht := turnE_ext (Or.inl ⟨h0, h1⟩)
  have hvw : vWeight R v = if 0 < orient (R.pt (R.prv v)) (R.pt v) (R.pt (R.nxt v)) then
      (if isLo R (R.prv v) v then 0 else 2) else (if isLo R (R.nxt v) v then 0 else 2) := by
    unfold vWeight
    rw [if_pos ⟨h0, h1⟩]
  rw [hvw, hw, ht]
  by_cases ho : 0 < orient (R.pt (R.prv v)) (R.pt v) (R.pt (R.nxt v))
  · rw [if_pos ho, if_pos ho]
    by_cases hi : isLo R (R.nxt v) v
    · rw [if_pos hi, if_neg (fun h => hc'.mp h hi)]; norm_num
    · rw [if_neg hi, if_pos (hc'.mpr hi)]; norm_num
  · rw [if_neg ho, if_neg ho]
    by_cases hi : isLo R (R.nxt v) v
    · rw [if_pos hi, if_pos hi]; norm_num
    · rw [if_neg hi, if_neg hi]; norm_num

/-- Start vertex -/
theorem vWeight_turn_start (hR : RingOK R V) (hN : NoCross R) (hv : v < R.n)
    (h0 : R.x v < R.x (R.prv v)) (h1 : R.x v < R.x (R.nxt v)) (hc : Coh R v) :
    (vWeight R v : Rat) = 1 - walkSign R v * (turnE R v : Rat) := by
  obtain ⟨hnb, ho, hxB, hxT⟩ := start_nbrs hR hN hv h0 h1
  have hvw := vWeight_start hnb hxB hxT ho
  have ht := turnE_ext (Or.inr ⟨h0, h1⟩)
  have hiff := nxt_lower_iff hR hN hv h0 h1
  have hws := walkSign_start hR hN hv h0 h1 hc
  rw [hvw, hws, ht]
  by_cases hl : R.nxt v = lowerNbr R v
  · rw [if_pos hl, if_pos (hiff.mpr hl)]
    by_cases hi : isLo R v (lowerNbr R v)
    · rw [if_pos hi, if_pos hi]; norm_num
    · rw [if_neg hi, if_neg hi]; norm_num
  · rw [if_neg hl, if_neg (fun h => hl (hiff.mp h))]
    by_cases hi : isLo R v (lowerNbr R v)
    · rw [if_pos hi, if_pos hi]; norm_num
    · rw [if_neg hi, if_neg hi]; norm_num

/-- **(C3)** the weight of a coherent vertex in terms of its half-turn -/
theorem vWeight_turn (hR : RingOK R V) (hN : NoCross R) (hv : v < R.n) (hc : Coh R v) :
    (vWeight R v : Rat) = 1 - walkSign R v * (turnE R v : Rat) := by
  have hp := x_prv_ne hR hv
  have hn := x_nxt_ne hR hv
  rcases lt_or_gt_of_ne hp with h0 | h0 <;> rcases lt_or_gt_of_ne hn with h1 | h1
  · exact vWeight_turn_end h0 h1 hc
  · rw [vWeight_bend (Or.inl ⟨h0, h1⟩), turnE_bend (Or.inl ⟨h0, h1⟩)]; norm_num
  · rw [vWeight_bend (Or.inr ⟨h1, h0⟩), turnE_bend (Or.inr ⟨h1, h0⟩)]; norm_num
  · exact vWeight_turn_start hR hN hv h0 h1 hc

end ring

/-! ### (C4) `turnE` is a quantity of the polygon alone -/

section block
variable {polys : List (Array Q)} {b : Nat} {P : Array Q}

/-- **(C4)** the half-turn at a vertex of the ring is the half-turn in the ring of its polygon -/
theorem turnE_block (h : (b, P) ∈ blocks 0 polys) {i : Nat} (hi : i < P.size) :
    turnE (ringOf polys) (b + i) = turnE (ringOf [P]) i := by
  obtain ⟨-, Cd, Cr, rfl, hC⟩ := Cav.GenOutSub.blocks_decomp h
  obtain ⟨ei, epi, eni, hpl, hnl, -⟩ := block_single hC hi
  have epi' := (block_single hC hpl).1
  have eni' := (block_single hC hnl).1
  unfold turnE
  simp only [RingQ.x, epi, eni, ei, epi', eni']

/-! ### (C5) the weights of a polygon -/

theorem cast_sum_nat (F : Nat → Nat) : ∀ n,
    ((((List.range n).map F).sum : Nat) : Rat) = ((List.range n).map fun i => (F i : Rat)).sum
  | 0 => by simp
  | n + 1 => by
    rw [List.sum_range_succ, List.sum_range_succ, Nat.cast_add, cast_sum_nat F n]

theorem cast_sum_int (F : Nat → Int) : ∀ n,
    ((((List.range n).map F).sum : Int) : Rat) = ((List.range n).map fun i => (F i : Rat)).sum
  | 0 => by simp
  | n + 1 => by
    rw [List.sum_range_succ, List.sum_range_succ, Int.cast_add, cast_sum_int F n]

theorem sum_one_sub (c : Rat) (G : Nat → Rat) : ∀ n,
    ((List.range n).map fun i => 1 - c * G i).sum = (n : Rat) - c * ((List.range n).map G).sum
  | 0 => by simp
  | n + 1 => by
    rw [List.sum_range_succ, List.sum_range_succ, sum_one_sub c G n]
    push_cast
    ring

/-- **(C5)** the weights of a polygon add up to its size minus the walk sign times the sum of its
    half-turns -/
theorem block_weights (h3 : ∀ p ∈ polys, 3 ≤ p.size)
    (hx : ((polys.flatMap Array.toList).map (·.1)).Nodup)
    (hN : NoCross (ringOf polys))
    (hc : ∀ v, v < (ringOf polys).n → Coh (ringOf polys) v)
    (h : (b, P) ∈ blocks 0 polys) {j : Nat} (hj : j < P.size) :
    ((((List.range P.size).map fun i => vWeight (ringOf polys) (b + i)).sum : Nat) : Rat) =
      (P.size : Rat) - walkSign (ringOf polys) (b + j) *
        ((((List.range P.size).map fun i => turnE (ringOf [P]) i).sum : Int) : Rat) := by
  rw [cast_sum_nat, cast_sum_int, ← sum_one_sub]
  apply sum_range_congr
  intro i hi
  have hv := block_lt h hi
  rw [vWeight_turn (ringOK polys h3 hx) hN hv (hc _ hv), walkSign_block h3 hx hc h hi hj,
    turnE_block h hi]

end block

end Cav.GenOutArcC
