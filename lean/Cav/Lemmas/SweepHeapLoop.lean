/-
  Heap adequacy of the sweep model, part 4: `handleNext`, `loop`, the set-up phase and the
  theorems about `sweep`.
-/
import Cav.Lemmas.SweepHeapHandlers
import Cav.Lemmas.SweepSetup

set_option linter.unusedSectionVars false
set_option linter.unusedVariables false

namespace Cav.SweepHeap
open Cav Num Cav.Sweep Cav.SweepRun Cav.SweepHoare Cav.SweepSetup

variable {α : Type} [Num α] {β γ : Type}
variable {V : Array (Vtx α)} {N C D : Nat} {E : SErr α → Prop}

/-! ### `handleNext` on a non-empty queue -/

/-- the body of `handleNext` after the head `(lp, rEdges)` has been taken from the queue of `s` -/
def nextBody (s : St α) (lp : Nat) (rEdges : List Nat) (rest : List (Nat × List Nat)) :
    SM α Unit := do
  let v ← getVtx lp
  let p := v.p
  let p1 := (← getVtx v.prev).p
  let p2 := (← getVtx v.next).p
  let ptype ← match fromTriplet p p1 p2 with
    | some t => pure t
    | none => throw (.noPointType p)
  set { s with events := rest }
  match ptype with
  | .start => handleStart p v.prev v.next
  | .bend => handleBend p v.prev v.next rEdges
  | .end_ => handleEnd p rEdges

theorem handleNext_run_nil {s : St α} (h : s.events = []) :
    (handleNext : SM α Unit).run s = .error (.panic "unreachable") := by
  unfold handleNext
  rw [run_bind, run_get]
  simp only [h]
  rfl

theorem handleNext_run_cons {s : St α} {lp : Nat} {r : List Nat} {rest : List (Nat × List Nat)}
    (h : s.events = (lp, r) :: rest) :
    (handleNext : SM α Unit).run s = (nextBody s lp r rest).run s := by
  unfold handleNext nextBody
  rw [run_bind, run_get]
  simp only [h]
  rfl


/-- `nextBody` keeps the heap well-formed; the two index panics are excluded under the stated
    conditions on the registered edges of a Bend resp. End vertex -/
theorem nextBody_wa (hE : BaseErr E) (s0 : St α) (hs0 : W V N C D s0) (lp : Nat) (r : List Nat)
    (rest : List (Nat × List Nat)) (hlp : lp < V.size) (hr : ∀ e ∈ r, e < D)
    (hrest : ∀ ev ∈ rest, EvOk V.size D ev)
    (hbend : ∀ v v1 v2, V[lp]? = some v → V[v.prev]? = some v1 → V[v.next]? = some v2 →
      fromTriplet v.p v1.p v2.p = some .bend → r.length ≤ 0 → E (.panic "index"))
    (hend : ∀ v v1 v2, V[lp]? = some v → V[v.prev]? = some v1 → V[v.next]? = some v2 →
      fromTriplet v.p v1.p v2.p = some .end_ → r.length ≤ 1 → E (.panic "index")) :
    PW V N C D E (fun _ _ _ _ => True) (nextBody s0 lp r rest) := by
  unfold nextBody; pw_auto_inline


/-! ### the event loop -/

theorem loop_wf (hE : BaseErr E) (hoof : E .oof) (hidx : E (.panic "index")) (fuel : Nat) :
    Pres (HeapWF V) E (fun _ => True) (loop fuel : SM α _) := by
  induction fuel with
  | zero => unfold loop; exact Pres.throw hoof
  | succ fuel ih =>
    apply Pres.intro
    rintro s ⟨N, C, D, hs⟩
    unfold loop
    rw [run_bind, run_get]
    simp only
    cases hev : s.events with
    | nil => exact ⟨⟨N, C, D, hs⟩, trivial⟩
    | cons a rest =>
      obtain ⟨lp, r⟩ := a
      simp only [List.isEmpty_cons, Bool.false_eq_true, if_false]
      rw [run_bind, handleNext_run_cons hev]
      have hhead : EvOk V.size D (lp, r) := hs.events _ (by rw [hev]; exact List.mem_cons_self)
      have hb := nextBody_wa (E := E) hE s hs lp r rest hhead.1 hhead.2
        (fun ev hev' => hs.events ev (by rw [hev]; exact List.mem_cons_of_mem _ hev'))
        (fun _ _ _ _ _ _ _ _ => hidx) (fun _ _ _ _ _ _ _ _ => hidx)
      cases hr : (nextBody s lp r rest).run s with
      | error e => exact hb.err hs hr
      | ok q =>
        obtain ⟨u, s1⟩ := q
        obtain ⟨N', C', D', -, -, -, hw, -⟩ := hb.ok hs hr
        simp only
        cases hr2 : (loop fuel).run s1 with
        | error e => exact ih.err ⟨N', C', D', hw⟩ hr2
        | ok q2 => obtain ⟨u2, s2⟩ := q2; exact ih.ok ⟨N', C', D', hw⟩ hr2


/-! ### the set-up phase -/

/-- invariant while the vertices of a polygon are pushed: `n` vertices so far, all ring links
    below the bound `B` (= the size the ring will have when the polygon is complete); no nodes,
    chains, edges, active edges; the queue holds vertices pushed so far, without edges -/
structure SW (B n : Nat) (s : St α) : Prop where
  vsz : s.verts.size = n
  ring : ∀ v ∈ s.verts.toList, VtxOk B v
  nodes : s.nodes = #[]
  chains : s.chains = #[]
  edges : s.edges = #[]
  active : s.active = []
  events : ∀ ev ∈ s.events, ev.1 < n ∧ ev.2 = []

/-- the set-up phase never panics -/
def NoPanic (e : SErr α) : Prop := ∀ k, e ≠ .panic k

variable {B n : Nat}

theorem sw_events (s : St α) (l : List (Nat × List Nat)) (hl : ∀ ev ∈ l, ev.1 < n ∧ ev.2 = [])
    (h : SW B n s) : SW B n { s with events := l } :=
  ⟨h.vsz, h.ring, h.nodes, h.chains, h.edges, h.active, hl⟩

theorem getVtx_spec (i : Nat) (hi : i < n) :
    Pres (SW B n) E (fun _ => True) (getVtx i : SM α _) := by
  apply Pres.intro; intro s hs
  rw [run_getVtx]
  cases h : s.verts[i]? with
  | none =>
    have : i < s.verts.size := by rw [hs.vsz]; exact hi
    rw [Array.getElem?_eq_getElem this] at h; cases h
  | some v => exact ⟨hs, trivial⟩

theorem get_sw : Pres (SW B n) E (fun s => ∀ ev ∈ s.events, ev.1 < n ∧ ev.2 = [])
    (get : SM α (St α)) := by
  apply Pres.intro; intro s hs
  exact ⟨hs, hs.events⟩

macro_rules | `(tactic| pres_prim) => `(tactic| exact get_sw)
macro_rules | `(tactic| pres_side) => `(tactic| exact sw_events _ _ (by assumption) (by assumption))

theorem eventsInsertStart_go_spec (vi : Nat) (hvi : vi < n) (p : Pt α)
    (l : List (Nat × List Nat)) (hl : ∀ ev ∈ l, ev.1 < n ∧ ev.2 = []) :
    Pres (SW B n) E (fun r => ∀ ev ∈ r, ev.1 < n ∧ ev.2 = [])
      (eventsInsertStart.go vi p l : SM α _) := by
  induction l with
  | nil => unfold eventsInsertStart.go; pres_auto
  | cons k ks ih =>
    have hk := hl k List.mem_cons_self
    have ih' := ih (fun a ha => hl a (List.mem_cons_of_mem _ ha))
    unfold eventsInsertStart.go; pres_auto

theorem eventsInsertStart_spec (vi : Nat) (hvi : vi < n) :
    Pres (SW B n) E (fun _ => True) (eventsInsertStart vi : SM α _) := by
  unfold eventsInsertStart; pres_auto

theorem sw_push (s : St α) (w : Vtx α) (hw : VtxOk B w) (h : SW B n s) :
    SW B (n + 1) { s with verts := s.verts.push w } := by
  refine ⟨by simp [h.vsz], ?_, h.nodes, h.chains, h.edges, h.active, ?_⟩
  · intro v hv
    simp only [Array.toList_push, List.mem_append, List.mem_singleton] at hv
    rcases hv with hv | rfl
    · exact h.ring v hv
    · exact hw
  · intro ev hev
    have := h.events ev hev
    exact ⟨by omega, this.2⟩

theorem noPanic_of_validPt {seen : List (Pt α)} {pt : Pt α} {e : SErr α}
    (h : validPt seen pt = .error e) : NoPanic e := by
  rcases validPt_cases seen pt with h' | h' | h' <;> rw [h'] at h <;> cases h <;>
    intro k hk <;> cases hk

/-- one iteration of the vertex loop -/
theorem setupBody_sw (poly : Array (Pt α)) (m base i : Nat) (seen : List (Pt α)) (s : St α)
    (hm : 0 < m) (hs : SW (base + m) (base + i) s) :
    match (setupBody poly m base i seen).run s with
    | .ok (.yield _, s') => SW (base + m) (base + i + 1) s'
    | .ok (.done _, _) => False
    | .error e => NoPanic e := by
  unfold setupBody
  generalize poly.getD ((i + m - 1) % m) dummyPt = prevP
  generalize poly.getD ((i + 1) % m) dummyPt = nextP
  generalize poly.getD i dummyPt = pt
  have hw : VtxOk (α := α) (base + m) ⟨pt, base + (i + m - 1) % m, base + (i + 1) % m⟩ :=
    ⟨by have := Nat.mod_lt (i + m - 1) hm; simp only; omega,
     by have := Nat.mod_lt (i + 1) hm; simp only; omega⟩
  have hpush := sw_push s _ hw hs
  cases hv : validPt seen pt with
  | error e =>
    simp only [hv, run_bind, run_throw]
    exact noPanic_of_validPt hv
  | ok seen' =>
    simp only [hv]
    cases hft : fromTriplet pt prevP nextP with
    | none =>
      simp only [run_bind, run_modify, run_throw]
      intro k hk; cases hk
    | some t =>
      cases t with
      | start =>
        simp only [run_bind, run_modify]
        have hev := eventsInsertStart_spec (α := α) (E := NoPanic) (B := base + m) (n := base + i + 1)
          (base + i) (by omega)
        cases hr : (eventsInsertStart (base + i)).run
            { s with verts := s.verts.push ⟨pt, base + (i + m - 1) % m, base + (i + 1) % m⟩ } with
        | error e => exact hev.err hpush hr
        | ok q => exact (hev.ok hpush hr).1
      | end_ =>
        simp only [run_bind, run_modify, run_pure]
        exact hpush
      | bend =>
        simp only [run_bind, run_modify, run_pure]
        exact hpush


/-- the vertex loop over the indices `i, …, i+k-1` -/
theorem setupLoop_sw (poly : Array (Pt α)) (m base : Nat) (hm : 0 < m) (k : Nat) :
    ∀ (i : Nat) (seen : List (Pt α)) (s : St α), SW (base + m) (base + i) s →
      match (forIn (List.range' i k 1) seen (setupBody poly m base)).run s with
      | .ok (_, s') => SW (base + m) (base + i + k) s'
      | .error e => NoPanic e := by
  induction k with
  | zero => intro i seen s hs; exact hs
  | succ k ih =>
    intro i seen s hs
    rw [List.range'_succ, forIn_cons_run]
    have hb := setupBody_sw poly m base i seen s hm hs
    cases hr : (setupBody poly m base i seen).run s with
    | error e => rw [hr] at hb; exact hb
    | ok q =>
      obtain ⟨st, s1⟩ := q
      rw [hr] at hb
      cases st with
      | done b => exact hb.elim
      | yield b =>
        simp only at hb ⊢
        have := ih (i + 1) b s1 (by rw [← Nat.add_assoc]; exact hb)
        have e : base + (i + 1) + k = base + i + (k + 1) := by omega
        rw [e] at this
        exact this

/-- between two polygons: the ring built so far is closed -/
def SetupOK (s : St α) : Prop := SW s.verts.size s.verts.size s

theorem SW.mono {B B' : Nat} {s : St α} (h : SW B n s) (hB : B ≤ B') : SW B' n s :=
  ⟨h.vsz, fun v hv => ⟨by have := (h.ring v hv).1; omega, by have := (h.ring v hv).2; omega⟩,
    h.nodes, h.chains, h.edges, h.active, h.events⟩

theorem setupPolygon_sw (poly : Array (Pt α)) (seen : List (Pt α)) :
    Pres SetupOK NoPanic (fun _ => True) (setupPolygon poly seen) := by
  apply Pres.intro
  intro s hs
  rw [setupPolygon_eq]
  by_cases hsz : poly.size < 3
  · simp only [hsz, if_true]
    intro k hk; cases hk
  · simp only [hsz, if_false]
    have h0 : SW (s.verts.size + poly.size) (s.verts.size + 0) s := SW.mono hs (by omega)
    have := setupLoop_sw poly poly.size s.verts.size (by omega) poly.size 0 seen s h0
    cases hr : (forIn (List.range' 0 poly.size 1) seen
        (setupBody poly poly.size s.verts.size)).run s with
    | error e => rw [hr] at this; exact this
    | ok q =>
      obtain ⟨b, s1⟩ := q
      rw [hr] at this
      simp only [Nat.add_zero] at this
      refine ⟨?_, trivial⟩
      have hsz1 : s1.verts.size = s.verts.size + poly.size := this.vsz
      unfold SetupOK
      rw [hsz1]
      exact this

theorem polyBody_sw (poly : Array (Pt α)) (seen : List (Pt α)) :
    Pres SetupOK NoPanic (fun _ => True) (polyBody poly seen) := by
  unfold polyBody
  exact Pres.bind (setupPolygon_sw poly seen) (fun _ _ => Pres.pure True.intro)

/-- invariant rule for `forIn` over a list -/
theorem forIn_list_pres {ι σ : Type} {I : St α → Prop} {E : SErr α → Prop}
    (f : ι → σ → SM α (ForInStep σ)) (hf : ∀ i b, Pres I E (fun _ => True) (f i b)) :
    ∀ (l : List ι) (b : σ), Pres I E (fun _ => True) (forIn l b f) := by
  intro l
  induction l with
  | nil => intro b; exact Pres.pure True.intro
  | cons i t ih =>
    intro b
    rw [List.forIn_cons]
    refine Pres.bind (hf i b) ?_
    intro r _
    cases r with
    | done b' => exact Pres.pure True.intro
    | yield b' => exact ih b'

theorem setupOK_init : SetupOK (initSt : St α) :=
  ⟨rfl, by intro v hv; simp [initSt] at hv, rfl, rfl, rfl, rfl, by intro v hv; simp [initSt] at hv⟩

/-- after the set-up phase the heap is well-formed (no nodes, chains, edges yet) and every queued
    vertex has an empty list of registered edges -/
theorem w_of_setupOK {s : St α} (h : SetupOK s) : W s.verts 0 0 0 s := by
  refine ⟨rfl, h.ring, by rw [h.nodes]; rfl, by rw [h.chains]; rfl, by rw [h.edges]; rfl,
    ?_, ?_, ?_, ?_, ?_⟩
  · rw [h.nodes]; intro x hx; simp at hx
  · rw [h.chains]; intro x hx; simp at hx
  · rw [h.edges]; intro x hx; simp at hx
  · rw [h.active]; intro x hx; simp at hx
  · intro ev hev
    obtain ⟨h1, h2⟩ := h.events ev hev
    exact ⟨h1, by rw [h2]; intro e he; simp at he⟩

/-! ### the whole model -/

/-- error predicate: any non-panic error, `panic "borrow"`, `panic "index"` -/
def OnlyBI : SErr α → Prop
  | .panic k => k = "borrow" ∨ k = "index"
  | _ => True

theorem baseErr_onlyBI : BaseErr (OnlyBI : SErr α → Prop) :=
  ⟨fun _ _ => trivial, fun _ => trivial, Or.inl rfl⟩

/-- a panic of `sweep` is the `RefCell` borrow panic or the `r_edges[i]` index panic: never one
    of the four model panics, never `unreachable` (any `Num` instance) -/
theorem sweep_panic_kinds {polys : List (Array (Pt α))} {k : String}
    (h : sweep polys = .error (.panic k)) : k = "borrow" ∨ k = "index" := by
  unfold sweep at h
  rw [run_eq] at h
  have hsetup := forIn_list_pres (I := SetupOK) (E := NoPanic) polyBody polyBody_sw polys
    ([] : List (Pt α))
  cases hr : (forIn polys ([] : List (Pt α)) polyBody).run (initSt : St α) with
  | error e =>
    rw [hr] at h
    simp only [Except.error.injEq] at h
    exact absurd h (hsetup.err setupOK_init hr k)
  | ok q =>
    obtain ⟨seen, s1⟩ := q
    rw [hr] at h
    simp only at h
    have hok := (hsetup.ok setupOK_init hr).1
    have hl := loop_wf (V := s1.verts) (E := OnlyBI) baseErr_onlyBI trivial (Or.inr rfl)
      (s1.verts.size + 1)
    cases hr2 : (loop (s1.verts.size + 1)).run s1 with
    | error e =>
      rw [hr2] at h
      simp only [Except.error.injEq] at h
      subst h
      exact hl.err ⟨0, 0, 0, w_of_setupOK hok⟩ hr2
    | ok q2 => rw [hr2] at h; cases h

end Cav.SweepHeap
