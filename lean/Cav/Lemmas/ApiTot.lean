/-
  Helper lemmas for `Thm/C19Total.lean`: evaluation of the (constant) entries of an accepted
  interval list / polygon set always succeeds, and the stage structure of the 3-D generator.
-/
import Cav.Model.Api
import Cav.Thm.C17
import Cav.Thm.C18

namespace Cav.ApiTot
open Cav Num Gen

variable {α : Type} [Num α]

/-- a tree without variables (`varsLt 0`) evaluates to a value for every environment and every
    argument list — in particular on the empty argument list used for list entries -/
theorem evalF_some_of_varsLt (env : EnvF α) (vars : List α) (t : E) (h : t.varsLt 0 = true) :
    ∃ v, t.evalF env vars = some v :=
  C17.eval_in_bounds env vars t (C17.varsLt_mono (Nat.zero_le _) h)

/-- the value of a constant tree under the constants `k` (`NaN` is never used for a variable-free
    tree: `constVal_spec`) -/
def constVal (k : Consts α) (t : E) : α := (t.evalF (envFOf k) []).getD Num.nan

theorem constVal_spec (k : Consts α) (t : E) (h : t.varsLt 0 = true) :
    t.evalF (envFOf k) [] = some (constVal k t) := by
  obtain ⟨v, hv⟩ := evalF_some_of_varsLt (envFOf k) [] t h
  simp [constVal, hv]

/-! the value of a constant entry is computed compositionally from literals and the constants
    of `k` (no variable value is ever consulted) -/

theorem constVal_lit (k : Consts α) (m : Nat) (e : Int) : constVal k (.lit m e) = Num.ofDec m e := rfl
theorem constVal_litInf (k : Consts α) : constVal k .litInf = Num.inf := rfl
theorem constVal_litNan (k : Consts α) : constVal k .litNan = Num.nan := rfl
theorem constVal_cst (k : Consts α) (n : String) : constVal k (.cst n) = k.env n := rfl

theorem constVal_un (k : Consts α) (f : UFn) (x : E) (h : x.varsLt 0 = true) :
    constVal k (.un f x) = f.applyF (envFOf k).ufn (constVal k x) := by
  have hx := constVal_spec k x h
  unfold constVal at hx ⊢
  rw [E.evalF, hx]
  rfl

theorem constVal_bin (k : Consts α) (op : BOp) (l r : E) (hl : l.varsLt 0 = true)
    (hr : r.varsLt 0 = true) :
    constVal k (.bin op l r) = op.applyF (constVal k l) (constVal k r) := by
  have h1 := constVal_spec k l hl
  have h2 := constVal_spec k r hr
  unfold constVal at h1 h2 ⊢
  rw [E.evalF, h1, h2]
  rfl

theorem constVal_powi (k : Consts α) (x : E) (n : Int) (h : x.varsLt 0 = true) :
    constVal k (.powi x n) = BA.powiF (constVal k x) n := by
  have hx := constVal_spec k x h
  unfold constVal at hx ⊢
  rw [E.evalF, hx]
  rfl

/-- entries of a list all of whose trees are constant -/
def ConstEntries (l : List (E × E)) : Prop := ∀ e ∈ l, e.1.varsLt 0 = true ∧ e.2.varsLt 0 = true

theorem evalEntries_nil (k : Consts α) : evalEntries k [] = some [] := rfl

theorem evalEntries_cons (k : Consts α) (p : E × E) (l : List (E × E)) :
    evalEntries k (p :: l) =
      (match p.1.evalF (envFOf k) [], p.2.evalF (envFOf k) [] with
        | some a, some b => some (a, b)
        | _, _ => none).bind fun q => (evalEntries k l).bind fun qs => some (q :: qs) := by
  simp only [evalEntries, List.mapM_cons]
  rfl

/-- **evaluation of constant entries never fails**, and its value is the list of the values of
    the trees -/
theorem evalEntries_of_const (k : Consts α) (l : List (E × E)) (h : ConstEntries l) :
    evalEntries k l = some (l.map fun p => (constVal k p.1, constVal k p.2)) := by
  induction l with
  | nil => rfl
  | cons p l ih =>
    have hp := h p (by simp)
    have hl : ConstEntries l := fun e he => h e (by simp [he])
    rw [evalEntries_cons, ih hl, constVal_spec k p.1 hp.1, constVal_spec k p.2 hp.2]
    rfl

theorem mapM_evalEntries_nil (k : Consts α) : ([] : List (List (E × E))).mapM (evalEntries k) = some [] := rfl

theorem mapM_evalEntries_cons (k : Consts α) (p : List (E × E)) (l : List (List (E × E))) :
    (p :: l).mapM (evalEntries k) =
      (evalEntries k p).bind fun q => (l.mapM (evalEntries k)).bind fun qs => some (q :: qs) := by
  simp only [List.mapM_cons]
  rfl

theorem mapM_evalEntries_of_const (k : Consts α) (l : List (List (E × E)))
    (h : ∀ poly ∈ l, ConstEntries poly) :
    l.mapM (evalEntries k) =
      some (l.map fun poly => poly.map fun p => (constVal k p.1, constVal k p.2)) := by
  induction l with
  | nil => rfl
  | cons p l ih =>
    rw [mapM_evalEntries_cons, evalEntries_of_const k p (h p (by simp)),
      ih (fun q hq => h q (by simp [hq]))]
    rfl

/-- accepted polygon sets consist of constant entries (polygon analogue of
    `C18.intervals_entries_constant`) -/
theorem polygons_entries_constant {ctx : Ctx} {src : List Char} {l : List (List (E × E))}
    (h : compilePolygonSet ctx src = .ok l) : ∀ poly ∈ l, ConstEntries poly := by
  obtain ⟨polys, -, hlen, -, hall⟩ := C18.polygons_sound h
  intro poly hpoly e he
  obtain ⟨i, hi, rfl⟩ := List.getElem_of_mem hpoly
  obtain ⟨hl, -, hj⟩ := hall i hi (by omega)
  obtain ⟨j, hj', rfl⟩ := List.getElem_of_mem he
  exact (hj j hj' (by omega)).2.2

/-! ### the 3-D generator: a triangulation error is exactly the error of `sweep` -/

/-- the per-triangle loop of `gen_display_cav` (3-D) never reports a triangulation error -/
theorem go_ne_tri (f : AD α × AD α → AD α) (cfg : Cfg3D α) (fP : P2 α → α) (cP : α → P2 α)
    (g : AD α × AD α → AD α × AD α) (tris : List (Pt α × Pt α × Pt α)) (acc : List (Disp3D α))
    (e : SErr α) : genDisplayCav3.go f cfg fP cP g tris acc ≠ .error (.tri e) := by
  induction tris generalizing acc with
  | nil => intro h; simp [genDisplayCav3.go] at h
  | cons tr rest ih =>
    intro h
    unfold genDisplayCav3.go at h
    simp only at h
    split at h
    · rename_i e' he'
      split at he'
      · split at he'
        · cases he'
        · cases he'; cases h
      · cases he'
    · exact ih _ h

/-- **a `.tri e` result of the 3-D generator is the error of the triangulator on the same
    polygons** (and conversely) -/
theorem genDisplayCav3_tri_iff (f : AD α × AD α → AD α) (c : AD α → AD α × AD α)
    (polys : List (Array (Pt α))) (cfg : Cfg3D α) (e : SErr α) :
    genDisplayCav3 f c polys cfg = .error (.tri e) ↔ sweep polys = .error e := by
  unfold genDisplayCav3
  constructor
  · intro h
    split at h
    · rename_i e' he'
      cases h
      exact he'
    · exact absurd h (go_ne_tri _ _ _ _ _ _ _ _)
  · intro h
    simp [h]

end Cav.ApiTot
