/-
  General sweep invariant, part 3: the Bend event from an ARBITRARY state.  The edge registered
  with the vertex may sit anywhere in the active list; only its own cell, its chain and the cells
  of its two partners are read.  Pure tests are hypotheses.
-/
import Cav.Lemmas.GenQuery
import Cav.Lemmas.CvxEvents
import Cav.Lemmas.SweepHeapLoop

set_option linter.unusedSimpArgs false
set_option linter.unusedVariables false
set_option linter.unusedSectionVars false

namespace Cav.GenBend
open Cav Num Cav.Sweep Cav.SweepRun Cav.TriRun Cav.QuadRun Cav.CvxHeap Cav.CvxEvents Cav.SweepOut
open Cav.GenNodes Cav.GenQuery Cav.SweepHeap

variable {α : Type} [Num α]

/-- the left point of an edge in terms of `ptAt` -/
theorem lpt_eq (s : St α) (e : Edge α) :
    lpt? s e = (s.chains[e.chain]?).bind
      (fun c => ptAt s.nodes (if e.bofIn then c.head else c.tail)) := by
  unfold lpt? ptAt
  cases s.chains[e.chain]? with
  | none => rfl
  | some c =>
    simp only [Option.bind_some]
    cases s.nodes[if e.bofIn then c.head else c.tail]? <;> rfl

/-- the chain value after `chainAppend` of the new node `n` at the end used by an edge with flag
    `bof` -/
def bendChain (c : Chain) (bof : Bool) (n : Nat) : Chain :=
  if bof then ⟨n, n, c.tail⟩ else ⟨n, c.head, n⟩


/-- the left point of a cell survives the update of the chain `ci` at the end used by the edge with
    flag `bof`, provided the cell uses another chain or the other end -/
theorem lpt_frame (s s' : St α) (ci : Nat) (c c' : Chain) (bof : Bool) (b : Edge α) (lb : Pt α)
    (hc : s.chains[ci]? = some c) (hch : s'.chains = s.chains.setIfInBounds ci c')
    (hend : if bof then c'.tail = c.tail else c'.head = c.head)
    (hpt : ∀ i, i < s.nodes.size → ptAt s'.nodes i = ptAt s.nodes i)
    (hb : b.chain ≠ ci ∨ b.bofIn = !bof) (hl : lpt? s b = some lb) : lpt? s' b = some lb := by
  rw [lpt_eq] at hl ⊢
  rw [hch]
  by_cases hbc : b.chain = ci
  · have hbb : b.bofIn = !bof := by
      rcases hb with hb | hb
      · exact absurd hbc hb
      · exact hb
    rw [hbc] at hl ⊢
    rw [Array.getElem?_setIfInBounds_self_of_lt (lt_of_get' hc)]
    rw [hc] at hl
    simp only [Option.bind_some] at hl ⊢
    have hidx : (if b.bofIn then c'.head else c'.tail) = (if b.bofIn then c.head else c.tail) := by
      cases bof
      · simp only [Bool.not_false] at hbb
        simp only [hbb, if_true]
        simpa using hend
      · simp only [Bool.not_true] at hbb
        simp only [hbb, Bool.false_eq_true, if_false]
        simpa using hend
    rw [hidx, hpt _ (ptAt_some_lt hl)]
    exact hl
  · rw [Array.getElem?_setIfInBounds_ne (Ne.symm hbc)]
    cases hcb : s.chains[b.chain]? with
    | none => rw [hcb] at hl; cases hl
    | some cb =>
      rw [hcb] at hl
      simp only [Option.bind_some] at hl ⊢
      rw [hpt _ (ptAt_some_lt hl)]
      exact hl

/-- the condition on a partner of the bending edge: none, or a cell different from the edge whose
    left point survives the update of the chain, and the overlap test is negative -/
def PartnerOk (s : St α) (e ci : Nat) (bof : Bool) (o : Option Nat)
    (test : Pt α → Pt α → Bool) : Prop :=
  o = none ∨ ∃ bi bp lb, o = some bi ∧ bi ≠ e ∧ s.edges[bi]? = some bp ∧ lpt? s bp = some lb ∧
    (bp.chain ≠ ci ∨ bp.bofIn = !bof) ∧ test lb bp.rpt = false

theorem lpt_new (s' : St α) (ci : Nat) (c' : Chain) (bof : Bool) (e : Edge α) (p : Pt α)
    (hch : s'.chains[ci]? = some c') (hec : e.chain = ci) (heb : e.bofIn = bof)
    (hnew : ptAt s'.nodes (if bof then c'.head else c'.tail) = some p) : lpt? s' e = some p := by
  rw [lpt_eq, hec, hch, heb]
  exact hnew

theorem wob_false (s s' : St α) (e ci : Nat) (bof : Bool) (bP tP : Option Nat) (p rp : Pt α)
    (c c' : Chain) (sb : Bool)
    (he' : s'.edges = s.edges.setIfInBounds e ⟨rp, ci, bof, bP, tP⟩) (helt : e < s.edges.size)
    (hc : s.chains[ci]? = some c) (hch : s'.chains = s.chains.setIfInBounds ci c')
    (hend : if bof then c'.tail = c.tail else c'.head = c.head)
    (hpt : ∀ i, i < s.nodes.size → ptAt s'.nodes i = ptAt s.nodes i)
    (hnew : ptAt s'.nodes (if bof then c'.head else c'.tail) = some p)
    (hB : PartnerOk s e ci bof bP (fun lb rb => wobP p rp lb rb)) :
    (willOverlapBot e sb).run s' = .ok (false, s') := by
  have hE : s'.edges[e]? = some ⟨rp, ci, bof, bP, tP⟩ := by
    rw [he', Array.getElem?_setIfInBounds_self_of_lt helt]
  rcases hB with hB | ⟨bi, bp, lb, hB, hne, hbp, hlb, hcb, htest⟩
  · exact run_wob_none s' e sb _ hE hB
  · have hE2 : s'.edges[bi]? = some bp := by
      rw [he', Array.getElem?_setIfInBounds_ne (Ne.symm hne)]; exact hbp
    have hl1 : lpt? s' ⟨rp, ci, bof, bP, tP⟩ = some p :=
      lpt_new s' ci c' bof _ p (by rw [hch, Array.getElem?_setIfInBounds_self_of_lt (lt_of_get' hc)])
        rfl rfl hnew
    have hl2 := lpt_frame s s' ci c c' bof bp lb hc hch hend hpt hcb hlb
    rw [run_wob_some s' e bi sb _ bp p lb hE hB hne hE2 hl1 hl2]
    simp only at htest
    rw [htest]

theorem wot_false (s s' : St α) (e ci : Nat) (bof : Bool) (bP tP : Option Nat) (p rp : Pt α)
    (c c' : Chain) (sb : Bool)
    (he' : s'.edges = s.edges.setIfInBounds e ⟨rp, ci, bof, bP, tP⟩) (helt : e < s.edges.size)
    (hc : s.chains[ci]? = some c) (hch : s'.chains = s.chains.setIfInBounds ci c')
    (hend : if bof then c'.tail = c.tail else c'.head = c.head)
    (hpt : ∀ i, i < s.nodes.size → ptAt s'.nodes i = ptAt s.nodes i)
    (hnew : ptAt s'.nodes (if bof then c'.head else c'.tail) = some p)
    (hT : PartnerOk s e ci bof tP (fun lt rt => wotP p rp lt rt)) :
    (willOverlapTop e sb).run s' = .ok (false, s') := by
  have hE : s'.edges[e]? = some ⟨rp, ci, bof, bP, tP⟩ := by
    rw [he', Array.getElem?_setIfInBounds_self_of_lt helt]
  rcases hT with hT | ⟨ti, tp, lt, hT, hne, htp, hlt, hct, htest⟩
  · exact run_wot_none s' e sb _ hE hT
  · have hE2 : s'.edges[ti]? = some tp := by
      rw [he', Array.getElem?_setIfInBounds_ne (Ne.symm hne)]; exact htp
    have hl1 : lpt? s' ⟨rp, ci, bof, bP, tP⟩ = some p :=
      lpt_new s' ci c' bof _ p (by rw [hch, Array.getElem?_setIfInBounds_self_of_lt (lt_of_get' hc)])
        rfl rfl hnew
    have hl2 := lpt_frame s s' ci c c' bof tp lt hc hch hend hpt hct hlt
    rw [run_wot_some s' e ti sb _ tp p lt hE hT hne hE2 hl1 hl2]
    simp only at htest
    rw [htest]

section
variable (s : St α) (vi e r pr nx a1 a2 a3 a4 a5 a6 ci : Nat) (es' : List Nat)
  (rest : List (Nat × List Nat)) (p q1 q2 rp ro : Pt α) (bof : Bool) (bP tP : Option Nat)
  (c : Chain) (h : Node α)

theorem bend_run
    (hev : s.events = (vi, e :: es') :: rest)
    (hv : s.verts[vi]? = some ⟨p, pr, nx⟩) (h1 : s.verts[pr]? = some ⟨q1, a1, a2⟩)
    (h2 : s.verts[nx]? = some ⟨q2, a3, a4⟩)
    (hft : fromTriplet p q1 q2 = some .bend)
    (hr : (if q1.ge q2 = true then pr else nx) = r) (hrp : s.verts[r]? = some ⟨rp, a5, a6⟩)
    (hx : ofEq rp.x p.x = false)
    (hevs : ∀ a ∈ rest, a.1 < s.verts.size)
    (he : s.edges[e]? = some ⟨ro, ci, bof, bP, tP⟩)
    (hc : s.chains[ci]? = some c)
    (hN : NodesOk s.nodes)
    (hnode : s.nodes[if bof then c.head else c.tail]? = some h)
    (hB : PartnerOk s e ci bof bP (fun lb rb => wobP p rp lb rb))
    (hT : PartnerOk s e ci bof tP (fun lt rt => wotP p rp lt rt)) :
    ∃ N2 out2, (handleNext : SM α Unit).run s = .ok ((),
        { s with x := p.x, nodes := N2,
                 chains := s.chains.setIfInBounds ci (bendChain c bof s.nodes.size),
                 edges := s.edges.setIfInBounds e ⟨rp, ci, bof, bP, tP⟩,
                 events := evAdd s.verts rp r e rest, out := out2 }) ∧
      NodesOk N2 ∧ N2.size = s.nodes.size + 1 ∧
      (∀ i, i < s.nodes.size → ptAt N2 i = ptAt s.nodes i) ∧ ptAt N2 s.nodes.size = some p := by
  rw [handleNext_run_cons hev]
  unfold nextBody
  cases bof
  · -- the edge is the top of its in-interval: the chain grows at the tail
    simp only [Bool.false_eq_true, if_false] at hnode
    obtain ⟨hN1, hsz1, hpt1, hnew1⟩ := appT_props hN hnode p
    obtain ⟨N2, out2, hbt, hN2, hsz2, hpt2⟩ := bt_ok ⟨s.nodes.size, c.head, s.nodes.size⟩ true
      { s with events := rest, x := p.x, nodes := appT s.nodes c.tail h p,
               chains := s.chains.setIfInBounds ci ⟨s.nodes.size, c.head, s.nodes.size⟩ }
      hN1 (by simp only [if_true]; rw [hsz1]; exact Nat.lt_succ_self _)
    have hptA : ∀ i, i < s.nodes.size → ptAt N2 i = ptAt s.nodes i := fun i hi => by
      rw [hpt2 i]; exact hpt1 i hi
    have hnewA : ptAt N2 s.nodes.size = some p := by rw [hpt2]; exact hnew1
    refine ⟨N2, out2, ?_, hN2, by rw [hsz2]; exact hsz1, hptA, hnewA⟩
    show Runs s _ _
    sm_steps [hv, h1, h2, hft]
    unfold handleBend
    sm_steps [hv, h1, h2, hft, hr, hrp, hx, verticalIsCrossed, he, hc]
    sm_by (run_chainAppend_tail _ _ _ _ hnode)
    sm_bind
    sm_by hbt
    sm_bind [he]
    sm_bind
    sm_by (wob_false s _ e ci false bP tP p rp c ⟨s.nodes.size, c.head, s.nodes.size⟩ true rfl
      (lt_of_get' he) hc rfl rfl hptA hnewA hB)
    sm_cond
    sm_by (wot_false s _ e ci false bP tP p rp c ⟨s.nodes.size, c.head, s.nodes.size⟩ true rfl
      (lt_of_get' he) hc rfl rfl hptA hnewA hT)
    sm_cond
    rw [hr]
    refine Runs.final ?_
    exact Eq.trans (run_eventsAdd r e _ ⟨rp, a5, a6⟩ (by exact hrp) (by exact hevs)) rfl
  · -- the edge is the bottom of its in-interval: the chain grows at the head
    simp only [if_true] at hnode
    obtain ⟨hN1, hsz1, hpt1, hnew1⟩ := appH_props hN hnode p
    obtain ⟨N2, out2, hbt, hN2, hsz2, hpt2⟩ := bt_ok ⟨s.nodes.size, s.nodes.size, c.tail⟩ false
      { s with events := rest, x := p.x, nodes := appH s.nodes c.head h p,
               chains := s.chains.setIfInBounds ci ⟨s.nodes.size, s.nodes.size, c.tail⟩ }
      hN1 (by simp only [Bool.false_eq_true, if_false]; rw [hsz1]; exact Nat.lt_succ_self _)
    have hptA : ∀ i, i < s.nodes.size → ptAt N2 i = ptAt s.nodes i := fun i hi => by
      rw [hpt2 i]; exact hpt1 i hi
    have hnewA : ptAt N2 s.nodes.size = some p := by rw [hpt2]; exact hnew1
    refine ⟨N2, out2, ?_, hN2, by rw [hsz2]; exact hsz1, hptA, hnewA⟩
    show Runs s _ _
    sm_steps [hv, h1, h2, hft]
    unfold handleBend
    sm_steps [hv, h1, h2, hft, hr, hrp, hx, verticalIsCrossed, he, hc]
    sm_by (run_chainAppend_head _ _ _ _ hnode)
    sm_bind
    sm_by hbt
    sm_bind [he]
    sm_bind
    sm_by (wob_false s _ e ci true bP tP p rp c ⟨s.nodes.size, s.nodes.size, c.tail⟩ true rfl
      (lt_of_get' he) hc rfl rfl hptA hnewA hB)
    sm_cond
    sm_by (wot_false s _ e ci true bP tP p rp c ⟨s.nodes.size, s.nodes.size, c.tail⟩ true rfl
      (lt_of_get' he) hc rfl rfl hptA hnewA hT)
    sm_cond
    rw [hr]
    refine Runs.final ?_
    exact Eq.trans (run_eventsAdd r e _ ⟨rp, a5, a6⟩ (by exact hrp) (by exact hevs)) rfl

end

end Cav.GenBend
