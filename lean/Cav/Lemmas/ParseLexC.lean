/-
  The lexers accept the token languages of the grammar (`Digits`, `Mantissa`, `Exponent`,
  `NumLeaf`, `I32Text`, `IsName`) and stop exactly at their end, provided the following
  character cannot extend the token; `parseConst` rejects every registered name that is not
  itself `inf` / `nan` (`CtxOK'`) — `lexDouble` alone only those that do not start with such a
  word (`CtxOK`).
-/
import Cav.Spec.Grammar
import Cav.Lemmas.ParseLex

namespace Cav.ParseLemmas
open Cav Cav.Grammar

/-! ### characters -/

theorem isAlpha_iff (c : Char) :
    isAlpha c = true ↔ (97 ≤ c.toNat ∧ c.toNat ≤ 122) ∨ (65 ≤ c.toNat ∧ c.toNat ≤ 90) := by
  simp [isAlpha, Char.le_def, UInt32.le_iff_toNat_le]

theorem isDigit_iff (c : Char) : isDigit c = true ↔ (48 ≤ c.toNat ∧ c.toNat ≤ 57) := by
  simp [isDigit, Char.le_def, UInt32.le_iff_toNat_le]

theorem char_ne_of_toNat {c d : Char} (h : c.toNat ≠ d.toNat) : c ≠ d := fun e => h (by rw [e])

theorem isDigit_not_alpha {c : Char} (h : isDigit c = true) : isAlpha c = false := by
  rw [isDigit_iff] at h
  cases ha : isAlpha c with
  | false => rfl
  | true => rw [isAlpha_iff] at ha; omega

theorem isAlpha_not_digit {c : Char} (h : isAlpha c = true) : isDigit c = false := by
  rw [isAlpha_iff] at h
  cases ha : isDigit c with
  | false => rfl
  | true => rw [isDigit_iff] at ha; omega

/-- a letter is none of the punctuation characters of the grammar -/
theorem isAlpha_ne {c : Char} (h : isAlpha c = true) :
    c ≠ '.' ∧ c ≠ '+' ∧ c ≠ '-' ∧ c ≠ '(' ∧ c ≠ ')' ∧ c ≠ '*' ∧ c ≠ '/' ∧ c ≠ '^' := by
  rw [isAlpha_iff] at h
  refine ⟨?_, ?_, ?_, ?_, ?_, ?_, ?_, ?_⟩ <;> apply char_ne_of_toNat <;>
    simp only [Char.reduceToNat] <;> omega

/-- a digit is none of the punctuation characters of the grammar -/
theorem isDigit_ne {c : Char} (h : isDigit c = true) :
    c ≠ '.' ∧ c ≠ '+' ∧ c ≠ '-' ∧ c ≠ '(' ∧ c ≠ ')' ∧ c ≠ '*' ∧ c ≠ '/' ∧ c ≠ '^' := by
  rw [isDigit_iff] at h
  refine ⟨?_, ?_, ?_, ?_, ?_, ?_, ?_, ?_⟩ <;> apply char_ne_of_toNat <;>
    simp only [Char.reduceToNat] <;> omega

/-- `lower` maps only letters to letters -/
theorem isAlpha_of_lower {c : Char} (h : isAlpha (lower c) = true) : isAlpha c = true := by
  unfold lower at h
  split at h
  · rename_i hc
    simp only [Bool.and_eq_true, decide_eq_true_eq] at hc
    simp [isAlpha, hc]
  · exact h

/-! ### follow sets -/

/-- the string does not start with a character of class `p` -/
def Stops (p : Char → Bool) (rest : List Char) : Prop := ∀ c r, rest = c :: r → p c = false

theorem Stops.nil (p : Char → Bool) : Stops p [] := fun _ _ h => by cases h

theorem Stops.cons {p : Char → Bool} {c : Char} (r : List Char) (h : p c = false) : Stops p (c :: r) :=
  fun _ _ e => by cases e; exact h

theorem Stops.head {p : Char → Bool} {c : Char} {r : List Char} (h : Stops p (c :: r)) : p c = false :=
  h c r rfl

theorem takeWhile_append_stop (p : Char → Bool) (ds rest : List Char)
    (h1 : ∀ c ∈ ds, p c = true) (h2 : Stops p rest) :
    (ds ++ rest).takeWhile p = ds ∧ (ds ++ rest).dropWhile p = rest := by
  induction ds with
  | nil =>
    cases rest with
    | nil => exact ⟨rfl, rfl⟩
    | cons c r =>
      have := h2 c r rfl
      simp [this]
  | cons d ds ih =>
    have hd := h1 d (by simp)
    have := ih (fun c hc => h1 c (by simp [hc]))
    simp [hd, this]

/-! ### digits and names -/

theorem digit1_append {ds rest : List Char} (hd : Digits ds) (hr : Stops isDigit rest) :
    digit1 (ds ++ rest) = some (ds, rest) := by
  obtain ⟨h1, h2⟩ := takeWhile_append_stop isDigit ds rest hd.2 hr
  unfold digit1
  simp only [h1, h2]
  have : ds.isEmpty = false := by
    cases ds with
    | nil => exact absurd rfl hd.1
    | cons _ _ => rfl
  simp [this]

theorem digit1_none {s : List Char} (h : Stops isDigit s) : digit1 s = none := by
  obtain ⟨h1, _⟩ := takeWhile_append_stop isDigit [] s (fun _ hc => by cases hc) h
  unfold digit1
  simp only [List.nil_append] at h1
  simp [h1]

theorem alpha1_append {n rest : List Char} (hn : IsName n) (hr : Stops isAlpha rest) :
    alpha1 (n ++ rest) = some (n, rest) := by
  obtain ⟨h1, h2⟩ := takeWhile_append_stop isAlpha n rest hn.2 hr
  unfold alpha1
  simp only [h1, h2]
  have : n.isEmpty = false := by
    cases n with
    | nil => exact absurd rfl hn.1
    | cons _ _ => rfl
  simp [this]

/-- first character of a digit string -/
theorem digits_head {ds : List Char} (h : Digits ds) : ∃ c r, ds = c :: r ∧ isDigit c = true := by
  cases ds with
  | nil => exact absurd rfl h.1
  | cons c r => exact ⟨c, r, rfl, h.2 c (by simp)⟩

theorem isName_head {n : List Char} (h : IsName n) : ∃ c r, n = c :: r ∧ isAlpha c = true := by
  cases n with
  | nil => exact absurd rfl h.1
  | cons c r => exact ⟨c, r, rfl, h.2 c (by simp)⟩

/-! ### sign stripping and minus counting -/

theorem stripSign_other {s : List Char} (h1 : ∀ r, s ≠ '+' :: r) (h2 : ∀ r, s ≠ '-' :: r) :
    stripSign s = (false, s) := by
  unfold stripSign
  split
  · exact absurd rfl (h1 _)
  · exact absurd rfl (h2 _)
  · rfl

theorem stripSign_cons {c : Char} (r : List Char) (h1 : c ≠ '+') (h2 : c ≠ '-') :
    stripSign (c :: r) = (false, c :: r) :=
  stripSign_other (fun _ e => h1 (List.cons.inj e).1) (fun _ e => h2 (List.cons.inj e).1)

theorem negCount_zero {s : List Char} (h : ∀ r, s ≠ '-' :: r) : negCount s = (0, s) := by
  unfold negCount
  cases s with
  | nil => rfl
  | cons c r =>
    have : (c == '-') = false := by
      cases hc : c == '-' with
      | false => rfl
      | true => exact absurd (by rw [eq_of_beq hc]) (h r)
    simp [List.takeWhile, List.dropWhile, this]

theorem negCount_one {s : List Char} (h : ∀ r, s ≠ '-' :: r) : negCount ('-' :: s) = (1, s) := by
  have := negCount_zero h
  unfold negCount at this ⊢
  simp only [Prod.mk.injEq] at this
  simp [List.takeWhile, List.dropWhile, this.1, this.2]

/-! ### numbers -/

/-- the mantissa lexer stops at the end of a mantissa followed by neither a digit nor a dot -/
theorem lexMant_append {m fd : Nat} {ms rest : List Char} (h : Mantissa m fd ms)
    (hd : Stops isDigit rest) (hdot : ∀ r, rest ≠ '.' :: r) :
    lexMant (ms ++ rest) = some (m, fd, rest) := by
  have dotNotDigit : isDigit '.' = false := by decide
  cases h with
  | int ip hip =>
    unfold lexMant
    rw [digit1_append hip hd]
    show (match rest with | '.' :: r2 => _ | _ => _) = _
    split
    · exact absurd rfl (hdot _)
    · rfl
  | intDot ip hip =>
    have e : (ip ++ ['.']) ++ rest = ip ++ ('.' :: rest) := by simp
    unfold lexMant
    rw [e, digit1_append hip (Stops.cons _ dotNotDigit)]
    simp only
    rw [digit1_none hd]
  | intFrac ip fp hip hfp =>
    have e : (ip ++ '.' :: fp) ++ rest = ip ++ ('.' :: (fp ++ rest)) := by simp
    unfold lexMant
    rw [e, digit1_append hip (Stops.cons _ dotNotDigit)]
    simp only
    rw [digit1_append hfp hd]
  | frac fp hfp =>
    unfold lexMant
    rw [List.cons_append, digit1_none (Stops.cons _ dotNotDigit)]
    simp only
    rw [digit1_append hfp hd]

/-- first character of a mantissa: a digit or a dot -/
theorem mantissa_head {m fd : Nat} {ms : List Char} (h : Mantissa m fd ms) :
    ∃ c r, ms = c :: r ∧ (isDigit c = true ∨ c = '.') := by
  cases h with
  | int ip hip => obtain ⟨c, r, rfl, hc⟩ := digits_head hip; exact ⟨c, r, rfl, Or.inl hc⟩
  | intDot ip hip => obtain ⟨c, r, rfl, hc⟩ := digits_head hip; exact ⟨c, _, rfl, Or.inl hc⟩
  | intFrac ip fp hip _ => obtain ⟨c, r, rfl, hc⟩ := digits_head hip; exact ⟨c, _, rfl, Or.inl hc⟩
  | frac fp _ => exact ⟨'.', fp, rfl, Or.inr rfl⟩

theorem isExpMark_of_stops {rest : List Char} (h : Stops isAlpha rest) : isExpMark rest = false := by
  unfold isExpMark
  split
  · rename_i t; exact absurd (h _ _ rfl) (by decide)
  · rename_i t; exact absurd (h _ _ rfl) (by decide)
  · rfl

theorem isExpMark_cons {c : Char} (r : List Char) (h : c = 'e' ∨ c = 'E') : isExpMark (c :: r) = true := by
  rcases h with rfl | rfl <;> rfl

/-- the exponent lexer stops at the end of an exponent followed by neither a digit nor a letter -/
theorem lexExpo_append {ev : Int} {es rest : List Char} (m fd : Nat) (h : Exponent ev es)
    (hd : Stops isDigit rest) (ha : Stops isAlpha rest) :
    lexExpo false m fd (es ++ rest) = some (rest, .lit m (ev - fd)) := by
  cases h with
  | none =>
    unfold lexExpo
    rw [List.nil_append, isExpMark_of_stops ha]
    simp
  | pos c ed hc hed =>
    unfold lexExpo
    rw [List.cons_append, isExpMark_cons _ hc]
    obtain ⟨d, r, rfl, hdg⟩ := digits_head hed
    have hne := isDigit_ne hdg
    simp only [List.drop_succ_cons, List.drop_zero, if_true, List.cons_append]
    rw [stripSign_cons _ hne.2.1 hne.2.2.1]
    simp only
    rw [← List.cons_append, digit1_append hed hd]
    simp [expVal]
  | plus c ed hc hed =>
    unfold lexExpo
    rw [List.cons_append, isExpMark_cons _ hc]
    simp only [List.drop_succ_cons, List.drop_zero, if_true, List.cons_append]
    show (match digit1 (ed ++ rest) with | some (ed, r3) => _ | none => _) = _
    rw [digit1_append hed hd]
    simp [expVal, stripSign]
  | minus c ed hc hed =>
    unfold lexExpo
    rw [List.cons_append, isExpMark_cons _ hc]
    simp only [List.drop_succ_cons, List.drop_zero, if_true, List.cons_append]
    show (match digit1 (ed ++ rest) with | some (ed, r3) => _ | none => _) = _
    rw [digit1_append hed hd]
    simp [expVal, stripSign]

/-- what may follow an exponent text inside a number: the text itself starts with `e`/`E` or is
    empty, so a mantissa in front of it ends where it should -/
theorem exponent_stops {ev : Int} {es rest : List Char} (h : Exponent ev es)
    (hd : Stops isDigit rest) (hdot : ∀ r, rest ≠ '.' :: r) :
    Stops isDigit (es ++ rest) ∧ ∀ r, es ++ rest ≠ '.' :: r := by
  have aux : ∀ (c : Char) (t : List Char), (c = 'e' ∨ c = 'E') →
      Stops isDigit (c :: t ++ rest) ∧ ∀ r, c :: t ++ rest ≠ '.' :: r := by
    intro c t hc
    constructor
    · apply Stops.cons; rcases hc with rfl | rfl <;> decide
    · intro r e
      have := (List.cons.inj e).1
      rcases hc with rfl | rfl <;> exact absurd this (by decide)
  cases h with
  | none => exact ⟨hd, hdot⟩
  | pos c ed hc _ => exact aux c _ hc
  | plus c ed hc _ => exact aux c _ hc
  | minus c ed hc _ => exact aux c _ hc

/-- characters that can extend an atom -/
def atomCont (c : Char) : Bool := isDigit c || isAlpha c || c == '.'

theorem stops_atomCont {rest : List Char} (h : Stops atomCont rest) :
    Stops isDigit rest ∧ Stops isAlpha rest ∧ ∀ r, rest ≠ '.' :: r := by
  refine ⟨?_, ?_, ?_⟩
  · intro c r e
    have := h c r e
    simp only [atomCont, Bool.or_eq_false_iff] at this
    exact this.1.1
  · intro c r e
    have := h c r e
    simp only [atomCont, Bool.or_eq_false_iff] at this
    exact this.1.2
  · intro r e
    have := h _ r e
    simp [atomCont] at this

theorem lexDouble_dec {m fd : Nat} {ev : Int} {ms es rest : List Char}
    (hm : Mantissa m fd ms) (he : Exponent ev es) (hr : Stops atomCont rest) :
    lexDouble ((ms ++ es) ++ rest) = some (rest, .lit m (ev - fd)) := by
  obtain ⟨hd, ha, hdot⟩ := stops_atomCont hr
  obtain ⟨hd', hdot'⟩ := exponent_stops he hd hdot
  rw [lexDouble_eq, List.append_assoc]
  obtain ⟨c, r, rfl, hc⟩ := mantissa_head hm
  have hs : stripSign (c :: r ++ (es ++ rest)) = (false, c :: r ++ (es ++ rest)) := by
    apply stripSign_cons
    · rcases hc with hc | rfl
      · exact (isDigit_ne hc).2.1
      · decide
    · rcases hc with hc | rfl
      · exact (isDigit_ne hc).2.2.1
      · decide
  rw [hs]
  simp only
  rw [lexMant_append hm hd' hdot']
  exact lexExpo_append m fd he hd ha

theorem lexDouble_plusDec {m fd : Nat} {ev : Int} {ms es rest : List Char}
    (hm : Mantissa m fd ms) (he : Exponent ev es) (hr : Stops atomCont rest) :
    lexDouble (('+' :: ms ++ es) ++ rest) = some (rest, .lit m (ev - fd)) := by
  obtain ⟨hd, ha, hdot⟩ := stops_atomCont hr
  obtain ⟨hd', hdot'⟩ := exponent_stops he hd hdot
  rw [lexDouble_eq]
  have hs : stripSign (('+' :: ms ++ es) ++ rest) = (false, ms ++ (es ++ rest)) := by
    simp [stripSign]
  rw [hs]
  simp only
  rw [lexMant_append hm hd' hdot']
  exact lexExpo_append m fd he hd ha

/-- a string all of whose first character is a letter has no mantissa -/
theorem lexMant_alpha {c : Char} (r : List Char) (hc : isAlpha c = true) :
    lexMant (stripSign (c :: r)).2 = none := by
  have hne := isAlpha_ne hc
  rw [stripSign_cons _ hne.2.1 hne.2.2.1]
  unfold lexMant
  rw [digit1_none (Stops.cons _ (isAlpha_not_digit hc))]
  simp only
  split
  · rename_i e; exact absurd (List.cons.inj e).1 hne.1
  · rfl

theorem map_eq_three {s : List Char} {x y z : Char} (h : s.map lower = [x, y, z]) :
    ∃ a b c, s = [a, b, c] := by
  cases s with
  | nil => simp at h
  | cons a s =>
    cases s with
    | nil => simp at h
    | cons b s =>
      cases s with
      | nil => simp at h
      | cons c s =>
        cases s with
        | nil => exact ⟨a, b, c, rfl⟩
        | cons d s => simp at h

theorem tagNoCase3 {a b c : Char} {pat : List Char} (rest : List Char)
    (h : [a, b, c].map lower = pat) : tagNoCase pat ([a, b, c] ++ rest) = some rest := by
  subst h
  simp [tagNoCase]

theorem lexDouble_nan {s rest : List Char} (h : s.map lower = ['n', 'a', 'n']) :
    lexDouble (s ++ rest) = some (rest, .litNan) := by
  obtain ⟨a, b, c, rfl⟩ := map_eq_three h
  · have ha : isAlpha a = true := by
      apply isAlpha_of_lower
      have : lower a = 'n' := by simpa using (List.cons.inj h).1
      rw [this]; decide
    rw [lexDouble_eq]
    show (match lexMant (stripSign (a :: ([b, c] ++ rest))).2 with | some (m, fd, r) => _ | none => _) = _
    rw [lexMant_alpha _ ha]
    show lexSpecial ([a, b, c] ++ rest) = _
    unfold lexSpecial
    rw [tagNoCase3 rest h]

theorem lexDouble_inf {s rest : List Char} (h : s.map lower = ['i', 'n', 'f']) :
    lexDouble (s ++ rest) = some (rest, .litInf) := by
  obtain ⟨a, b, c, rfl⟩ := map_eq_three h
  · have ha : isAlpha a = true := by
      apply isAlpha_of_lower
      have : lower a = 'i' := by simpa using (List.cons.inj h).1
      rw [this]; decide
    rw [lexDouble_eq]
    show (match lexMant (stripSign (a :: ([b, c] ++ rest))).2 with | some (m, fd, r) => _ | none => _) = _
    rw [lexMant_alpha _ ha]
    show lexSpecial ([a, b, c] ++ rest) = _
    unfold lexSpecial
    have hn : tagNoCase ['n', 'a', 'n'] ([a, b, c] ++ rest) = none := by
      have : lower a = 'i' := by simpa using (List.cons.inj h).1
      simp [tagNoCase, this]
    rw [hn, tagNoCase3 rest h]

/-- **the number lexer accepts every number leaf** and stops at its end -/
theorem lexDouble_numLeaf {t : E} {s rest : List Char} (h : NumLeaf t s) (hr : Stops atomCont rest) :
    lexDouble (s ++ rest) = some (rest, t) := by
  cases h with
  | dec m fd ev ms es hm he => exact lexDouble_dec hm he hr
  | plusDec m fd ev ms es hm he => exact lexDouble_plusDec hm he hr
  | nan s h => exact lexDouble_nan h
  | inf s h => exact lexDouble_inf h

theorem startsWithAlpha_of_stops {rest : List Char} (h : Stops isAlpha rest) :
    startsWithAlpha rest = false := by
  cases rest with
  | nil => rfl
  | cons c r => exact h c r rfl

/-- **`parse_const` accepts every number leaf** and stops at its end: a legal continuation of an
    atom does not start with a letter, so the guard does not fire -/
theorem parseConst_numLeaf {t : E} {s rest : List Char} (h : NumLeaf t s) (hr : Stops atomCont rest) :
    parseConst (s ++ rest) = some (rest, t) :=
  parseConst_of_stop (lexDouble_numLeaf h hr) (startsWithAlpha_of_stops (stops_atomCont hr).2.1)

/-- first character of a number leaf -/
theorem numLeaf_head {t : E} {s : List Char} (h : NumLeaf t s) :
    ∃ c r, s = c :: r ∧ (isDigit c = true ∨ isAlpha c = true ∨ c = '.' ∨ c = '+') := by
  cases h with
  | dec m fd ev ms es hm he =>
    obtain ⟨c, r, rfl, hc⟩ := mantissa_head hm
    exact ⟨c, _, rfl, hc.elim Or.inl (fun h => Or.inr (Or.inr (Or.inl h)))⟩
  | plusDec m fd ev ms es hm he => exact ⟨'+', _, rfl, Or.inr (Or.inr (Or.inr rfl))⟩
  | nan s h =>
    obtain ⟨a, b, c, rfl⟩ := map_eq_three h
    · refine ⟨a, _, rfl, Or.inr (Or.inl ?_)⟩
      apply isAlpha_of_lower
      have : lower a = 'n' := by simpa using (List.cons.inj h).1
      rw [this]; decide
  | inf s h =>
    obtain ⟨a, b, c, rfl⟩ := map_eq_three h
    · refine ⟨a, _, rfl, Or.inr (Or.inl ?_)⟩
      apply isAlpha_of_lower
      have : lower a = 'i' := by simpa using (List.cons.inj h).1
      rw [this]; decide

/-! ### `i32` -/

/-- the digit fold with an arbitrary start value -/
def digitsFrom (acc : Nat) (ds : List Char) : Nat := ds.foldl (fun a c => a * 10 + digitVal c) acc

theorem digitsVal_eq (ds : List Char) : digitsVal ds = digitsFrom 0 ds := rfl

theorem digitsFrom_ge (acc : Nat) (ds : List Char) : acc ≤ digitsFrom acc ds := by
  induction ds generalizing acc with
  | nil => exact Nat.le_refl _
  | cons c ds ih =>
    have := ih (acc * 10 + digitVal c)
    show acc ≤ digitsFrom (acc * 10 + digitVal c) ds
    omega

theorem i32_fold_pos (ds : List Char) (acc : Nat) (h : (digitsFrom acc ds : Int) ≤ 2147483647) :
    ds.foldl (i32Step false) (some (acc : Int)) = some (digitsFrom acc ds : Int) := by
  induction ds generalizing acc with
  | nil => rfl
  | cons c ds ih =>
    have h' : (digitsFrom (acc * 10 + digitVal c) ds : Int) ≤ 2147483647 := h
    have hge := digitsFrom_ge (acc * 10 + digitVal c) ds
    have hstep : i32Step false (some (acc : Int)) c = some ((acc * 10 + digitVal c : Nat) : Int) := by
      have h1 : (-2147483648 : Int) ≤ (acc : Int) * 10 + (digitVal c : Int) := by omega
      have h2 : (acc : Int) * 10 + (digitVal c : Int) ≤ 2147483647 := by omega
      simp only [i32Step]
      simp only [Bool.false_eq_true, if_false, h1, h2, decide_true, Bool.and_self, if_true]
      exact congrArg some (by omega)
    show ds.foldl (i32Step false) (i32Step false (some (acc : Int)) c) = _
    rw [hstep]
    exact ih _ h'

theorem i32_fold_neg (ds : List Char) (acc : Nat) (h : (digitsFrom acc ds : Int) ≤ 2147483648) :
    ds.foldl (i32Step true) (some (-(acc : Int))) = some (-(digitsFrom acc ds : Int)) := by
  induction ds generalizing acc with
  | nil => rfl
  | cons c ds ih =>
    have h' : (digitsFrom (acc * 10 + digitVal c) ds : Int) ≤ 2147483648 := h
    have hge := digitsFrom_ge (acc * 10 + digitVal c) ds
    have hstep : i32Step true (some (-(acc : Int))) c = some (-((acc * 10 + digitVal c : Nat) : Int)) := by
      have h1 : (-2147483648 : Int) ≤ -(acc : Int) * 10 - (digitVal c : Int) := by omega
      have h2 : -(acc : Int) * 10 - (digitVal c : Int) ≤ 2147483647 := by omega
      simp only [i32Step]
      simp only [if_true, h1, h2, decide_true, Bool.and_self]
      exact congrArg some (by omega)
    show ds.foldl (i32Step true) (i32Step true (some (-(acc : Int))) c) = _
    rw [hstep]
    exact ih _ h'

/-- **the `i32` lexer accepts every `I32Text`** and stops at its end -/
theorem lexI32_append {n : Int} {s rest : List Char} (h : I32Text n s) (hd : Stops isDigit rest) :
    lexI32 (s ++ rest) = some (rest, n) := by
  rw [lexI32_eq]
  cases h with
  | pos ds hds hb =>
    obtain ⟨c, r, rfl, hc⟩ := digits_head hds
    have hne := isDigit_ne hc
    rw [List.cons_append, stripSign_cons _ hne.2.1 hne.2.2.1]
    simp only
    rw [← List.cons_append, digit1_append hds hd]
    simp only
    have := i32_fold_pos (c :: r) 0 (by rw [← digitsVal_eq]; exact hb)
    rw [← digitsVal_eq] at this
    simp only [Int.natCast_zero] at this
    rw [this]
  | plus ds hds hb =>
    show (match digit1 (ds ++ rest) with | none => _ | some (ds, r) => _) = _
    rw [digit1_append hds hd]
    show (match ds.foldl (i32Step false) (some 0) with | some v => _ | none => _) = _
    have := i32_fold_pos ds 0 (by rw [← digitsVal_eq]; exact hb)
    rw [← digitsVal_eq] at this
    simp only [Int.natCast_zero] at this
    rw [this]
  | minus ds hds hb =>
    show (match digit1 (ds ++ rest) with | none => _ | some (ds, r) => _) = _
    rw [digit1_append hds hd]
    show (match ds.foldl (i32Step true) (some 0) with | some v => _ | none => _) = _
    have := i32_fold_neg ds 0 (by rw [← digitsVal_eq]; exact hb)
    rw [← digitsVal_eq] at this
    simp only [Int.natCast_zero, Int.neg_zero] at this
    rw [this]

/-! ### names -/

theorem ctx_get_mem {ctx : Ctx} {n : List Char} {el : CtxEl} (h : ctx.get (String.ofList n) = some el) :
    ∃ p ∈ ctx, p.1.toList = n := by
  unfold Ctx.get at h
  cases hf : ctx.find? (fun p => p.1 == String.ofList n) with
  | none => rw [hf] at h; cases h
  | some p =>
    refine ⟨p, List.mem_of_find?_eq_some hf, ?_⟩
    have := List.find?_some hf
    have : p.1 = String.ofList n := by simpa using this
    rw [this, String.toList_ofList]

/-- **the number lexer rejects every registered name** (this is what `CtxOK` is for) -/
theorem lexDouble_name {arity : Nat} {ctx : Ctx} {n rest : List Char} {el : CtxEl}
    (hok : CtxOK arity ctx) (hn : IsName n) (hg : ctx.get (String.ofList n) = some el)
    (hr : Stops isAlpha rest) : lexDouble (n ++ rest) = none := by
  obtain ⟨p, hp, hpn⟩ := ctx_get_mem hg
  have hnan := (hok.2 p hp).1
  have hinf := (hok.2 p hp).2
  rw [hpn] at hnan hinf
  obtain ⟨c, r, rfl, hc⟩ := isName_head hn
  rw [lexDouble_eq]
  show (match lexMant (stripSign (c :: (r ++ rest))).2 with | some (m, fd, r) => _ | none => _) = _
  rw [lexMant_alpha _ hc]
  show lexSpecial (c :: r ++ rest) = none
  -- a successful `tag_no_case` of a 3-letter word needs 3 letters in front
  have key : ∀ (x y z : Char), isAlpha y = true → isAlpha z = true →
      ((c :: r).take 3).map lower ≠ [x, y, z] → tagNoCase [x, y, z] (c :: r ++ rest) = none := by
    intro x y z hy hz hne
    unfold tagNoCase
    have : (((c :: r ++ rest).take [x, y, z].length).map lower == [x, y, z]) = false := by
      cases hb : ((c :: r ++ rest).take [x, y, z].length).map lower == [x, y, z] with
      | false => rfl
      | true =>
        exfalso
        have hb := eq_of_beq hb
        cases r with
        | nil =>
          cases rest with
          | nil => simp at hb
          | cons d rest =>
            have : lower d = y := by simp at hb; exact hb.2.1
            have hd := isAlpha_of_lower (by rw [this]; exact hy)
            rw [hr d rest rfl] at hd; cases hd
        | cons c2 r =>
          cases r with
          | nil =>
            cases rest with
            | nil => simp at hb
            | cons d rest =>
              have : lower d = z := by simp at hb; exact hb.2.2
              have hd := isAlpha_of_lower (by rw [this]; exact hz)
              rw [hr d rest rfl] at hd; cases hd
          | cons c3 r =>
            apply hne
            simpa using hb
    rw [this]; rfl
  unfold lexSpecial
  rw [key 'n' 'a' 'n' (by decide) (by decide) hnan, key 'i' 'n' 'f' (by decide) (by decide) hinf]

/-- `tag_no_case` of a three-letter word on a name that is not this word and is followed by a
    non-letter: no match, or the name is LONGER than the word -/
theorem tagNoCase_name {n rest : List Char} (hn : IsName n) (hr : Stops isAlpha rest) (x y z : Char)
    (hy : isAlpha y = true) (hz : isAlpha z = true) (hne : n.map lower ≠ [x, y, z]) :
    tagNoCase [x, y, z] (n ++ rest) = none ∨
    ∃ a b c d r, n = a :: b :: c :: d :: r ∧ tagNoCase [x, y, z] (n ++ rest) = some (d :: r ++ rest) := by
  have short : ∀ s : List Char, ((s.take [x, y, z].length).map lower == [x, y, z]) = false →
      tagNoCase [x, y, z] s = none := by
    intro s h
    unfold tagNoCase
    rw [h]; rfl
  cases n with
  | nil => exact absurd rfl hn.1
  | cons a n =>
    cases n with
    | nil =>
      left
      apply short
      cases hb : ((([a] ++ rest).take [x, y, z].length).map lower == [x, y, z]) with
      | false => rfl
      | true =>
        exfalso
        have hb := eq_of_beq hb
        cases rest with
        | nil => simp at hb
        | cons d rest =>
          have : lower d = y := by simp at hb; exact hb.2.1
          have hd := isAlpha_of_lower (by rw [this]; exact hy)
          rw [hr d rest rfl] at hd; cases hd
    | cons b n =>
      cases n with
      | nil =>
        left
        apply short
        cases hb : ((([a, b] ++ rest).take [x, y, z].length).map lower == [x, y, z]) with
        | false => rfl
        | true =>
          exfalso
          have hb := eq_of_beq hb
          cases rest with
          | nil => simp at hb
          | cons d rest =>
            have : lower d = z := by simp at hb; exact hb.2.2
            have hd := isAlpha_of_lower (by rw [this]; exact hz)
            rw [hr d rest rfl] at hd; cases hd
      | cons c n =>
        cases n with
        | nil =>
          left
          apply short
          cases hb : ((([a, b, c] ++ rest).take [x, y, z].length).map lower == [x, y, z]) with
          | false => rfl
          | true =>
            exfalso
            apply hne
            simpa using eq_of_beq hb
        | cons d r =>
          cases hb : tagNoCase [x, y, z] (a :: b :: c :: d :: r ++ rest) with
          | none => exact Or.inl rfl
          | some r' =>
            right
            refine ⟨a, b, c, d, r, rfl, ?_⟩
            unfold tagNoCase at hb
            split at hb
            · cases hb; rfl
            · cases hb

/-- **`parse_const` rejects every registered name** (this is what `CtxOK'` is for): `double` fails
    on it, or it matches a number word that is only the beginning of the name, and then the guard
    of `parse_const` discards the match -/
theorem parseConst_name {arity : Nat} {ctx : Ctx} {n rest : List Char} {el : CtxEl}
    (hok : CtxOK' arity ctx) (hn : IsName n) (hg : ctx.get (String.ofList n) = some el)
    (hr : Stops isAlpha rest) : parseConst (n ++ rest) = none := by
  obtain ⟨p, hp, hpn⟩ := ctx_get_mem hg
  have hnan := (hok.2 p hp).1
  have hinf := (hok.2 p hp).2
  rw [hpn] at hnan hinf
  have hlex : lexDouble (n ++ rest) = lexSpecial (n ++ rest) := by
    obtain ⟨c, r, rfl, hc⟩ := isName_head hn
    rw [lexDouble_eq]
    show (match lexMant (stripSign (c :: (r ++ rest))).2 with | some (m, fd, r) => _ | none => _) = _
    rw [lexMant_alpha _ hc]
  -- a word match on a longer name is discarded
  have guard : ∀ (a b c d : Char) (r : List Char) (t : E), n = a :: b :: c :: d :: r →
      lexDouble (n ++ rest) = some (d :: r ++ rest, t) → parseConst (n ++ rest) = none := by
    intro a b c d r t hn4 hl
    subst hn4
    apply parseConst_guard hl
    · have : (a :: b :: c :: d :: r ++ rest).length - (d :: r ++ rest).length = 3 := by
        simp only [List.length_cons, List.length_append]; omega
      rw [this]
      show isAlpha c = true
      exact hn.2 c (by simp)
    · show isAlpha d = true
      exact hn.2 d (by simp)
  rcases tagNoCase_name hn hr 'n' 'a' 'n' (by decide) (by decide) hnan with h1 | ⟨a, b, c, d, r, hn4, h1⟩
  · rcases tagNoCase_name hn hr 'i' 'n' 'f' (by decide) (by decide) hinf with h2 | ⟨a, b, c, d, r, hn4, h2⟩
    · apply parseConst_of_lexDouble_none
      rw [hlex]; unfold lexSpecial; rw [h1, h2]
    · exact guard a b c d r .litInf hn4 (by rw [hlex]; unfold lexSpecial; rw [h1, h2])
  · exact guard a b c d r .litNan hn4 (by rw [hlex]; unfold lexSpecial; rw [h1])

/-- the old side condition implies the new one -/
theorem ctxOK_weaken {arity : Nat} {ctx : Ctx} (h : CtxOK arity ctx) : CtxOK' arity ctx := by
  refine ⟨h.1, fun p hp => ⟨fun e => (h.2 p hp).1 ?_, fun e => (h.2 p hp).2 ?_⟩⟩
  · rw [List.map_take, e]; rfl
  · rw [List.map_take, e]; rfl

end Cav.ParseLemmas
