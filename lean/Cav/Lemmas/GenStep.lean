/-
  General sweep invariant, part 24: EVERY EVENT KEEPS THE INVARIANT.  The head of the queue is a
  Start, a Bend or an End vertex (abscissae pairwise different); in each case `handleNext`
  succeeds and `GInv` holds again.
-/
import Cav.Lemmas.GenStepStart4

set_option linter.unusedSimpArgs false
set_option linter.unusedVariables false

namespace Cav.GenStep
open Cav Num Cav.Geo Cav.Sweep Cav.TriRun Cav.QuadRun Cav.QuadGeom Cav.CvxFlows Cav.SweepOut
open Cav.GenNodes Cav.GenQuery Cav.GenGeom Cav.GenBend Cav.GenInv Cav.GenQueue Cav.GenOrder
open Cav.GenLinks Cav.GenStepBend Cav.GenStepEnd Cav.GenStart Cav.GenStepStart

variable {R : RingQ}

/-- **the Start event keeps the invariant** -/
theorem step_start (hN : NoCross R) {s : St XQ} {xs : Rat} {ivs : List IV} (hI : Inv R s xs ivs)
    {w : Nat} {es : List Nat} {rest : List (Nat × List Nat)} (hev : s.events = (w, es) :: rest)
    {wB wT : Nat} (hnb : (R.prv w = wB ∧ R.nxt w = wT) ∨ (R.prv w = wT ∧ R.nxt w = wB))
    (hxB : R.x w < R.x wB) (hxT : R.x w < R.x wT)
    (ho : 0 < orient (R.pt w) (R.pt wB) (R.pt wT)) :
    ∃ s', (handleNext : SM XQ Unit).run s = .ok ((), s') ∧ ∃ ivs', Inv R s' (R.x w) ivs' := by
  have hR := hI.ring
  have hq := hI.q
  rw [hev] at hq
  have hidlt : ∀ a ∈ flatE ivs, a.id < s.edges.size := by
    intro a ha
    obtain ⟨e, he, -⟩ := Linked.eg hI.lk a ha
    exact lt_of_get' he
  obtain ⟨-, P, Q, hE, hlow, hhigh, g3, g4, g5, g6, g7, g8⟩ := start_flat hR hN s.edges.size
    (s.edges.size + 1) hI.span hI.sorted hq hI.cross hnb hxB hxT ho
    (fun a ha => ne_of_lt (hidlt a ha)) (fun a ha => by have := hidlt a ha; omega) (by omega)
  rcases flat_split ivs P Q hE with ⟨pre, post, rfl, rfl, rfl⟩ | ⟨pre, iv, post, rfl, rfl, rfl⟩
  · rw [flatE_append] at g3 g4
    exact step_start_proper hN hI hev hnb hxB hxT hlow hhigh g3 g4 g5 g6 g7 g8
  · have hflat : flatE (pre ++ iv :: post) = (flatE pre ++ [iv.lo]) ++ iv.hi :: flatE post := by simp
    rw [hflat] at g3
    exact step_start_split hN hI hev hnb hxB hxT hlow hhigh g3 g5 g6 g7 g8


/-- two ring edges leaving a vertex to the right are not collinear -/
theorem fan_ne (hN : NoCross R) {w B T : Nat} (hw : w < R.n) (hB : B < R.n) (hT : T < R.n)
    (adjB : Adj R w B) (adjT : Adj R w T) (hBT : B ≠ T) (hxB : R.x w < R.x B) (hxT : R.x w < R.x T)
    (hle : R.x B ≤ R.x T) : orient (R.pt w) (R.pt B) (R.pt T) ≠ 0 := by
  intro ho
  have hsw := orient_swap (R.pt w) (R.pt B) (R.pt T)
  have heq : lineY (R.pt w) (R.pt T) (R.pt B).1 = (R.pt B).2 := by
    rcases lt_trichotomy (lineY (R.pt w) (R.pt T) (R.pt B).1) (R.pt B).2 with h | h | h
    · have := orient_pos_of_above (R.pt w) (R.pt T) (R.pt B) hxT h
      linarith
    · exact h
    · have := orient_neg_of_below (R.pt w) (R.pt T) (R.pt B) hxT h
      linarith
  have hB2 : lineY (R.pt w) (R.pt B) (R.pt B).1 = (R.pt B).2 := lineY_right _ _ hxB
  rcases hN w B w T hw hB hw hT adjB adjT hxB hxT (fun h => hBT h.2) (R.x B) (le_of_lt hxB)
    (le_of_lt hxB) (le_refl _) hle (hB2.trans heq.symm) with ⟨e, -⟩ | ⟨-, e⟩ | e | e
  · exact absurd e (ne_of_gt hxB)
  · exact hBT e
  · rw [e] at hxB; exact lt_irrefl _ hxB
  · rw [← e] at hxT; exact lt_irrefl _ hxT

/-- **EVERY EVENT KEEPS THE INVARIANT**: `handleNext` succeeds on the head `w` of the queue and
    the invariant holds again, now at the abscissa of `w` -/
theorem step (hN : NoCross R) {s : St XQ} {xs : Rat} {ivs : List IV} (hI : Inv R s xs ivs)
    {w : Nat} {es : List Nat} {rest : List (Nat × List Nat)} (hev : s.events = (w, es) :: rest) :
    ∃ s', (handleNext : SM XQ Unit).run s = .ok ((), s') ∧ ∃ ivs', Inv R s' (R.x w) ivs' := by
  have hR := hI.ring
  have hq := hI.q
  rw [hev] at hq
  have hwn : w < R.n := (hq.gt (w, es) List.mem_cons_self).1
  have hpn := hR.prv_lt w hwn
  have hnn := hR.nxt_lt w hwn
  have hp : R.x (R.prv w) ≠ R.x w := by
    intro e
    have e' := hR.distinct _ _ hpn hwn e
    have h1 := hR.nxt_prv w hwn
    rw [e'] at h1
    exact hR.ne w hwn (e'.trans h1.symm)
  have hn : R.x (R.nxt w) ≠ R.x w := by
    intro e
    have e' := hR.distinct _ _ hnn hwn e
    have h1 := hR.prv_nxt w hwn
    rw [e'] at h1
    exact hR.ne w hwn (h1.trans e'.symm)
  rcases lt_or_gt_of_ne hp with h0 | h0 <;> rcases lt_or_gt_of_ne hn with h1 | h1
  · exact step_end hN hI hev h0 h1
  · exact step_bend hN hI hev (Or.inl ⟨rfl, rfl⟩) h0 h1
  · exact step_bend hN hI hev (Or.inr ⟨rfl, rfl⟩) h1 h0
  · have hne : R.prv w ≠ R.nxt w := hR.ne w hwn
    rcases lt_trichotomy 0 (orient (R.pt w) (R.pt (R.prv w)) (R.pt (R.nxt w))) with ho | ho | ho
    · exact step_start hN hI hev (Or.inl ⟨rfl, rfl⟩) h0 h1 ho
    · exfalso
      rcases le_total (R.x (R.prv w)) (R.x (R.nxt w)) with hle | hle
      · exact fan_ne hN hwn hpn hnn (Or.inr rfl) (Or.inl rfl) hne h0 h1 hle ho.symm
      · apply fan_ne hN hwn hnn hpn (Or.inl rfl) (Or.inr rfl) (Ne.symm hne) h1 h0 hle
        have := orient_swap (R.pt w) (R.pt (R.prv w)) (R.pt (R.nxt w))
        linarith
    · refine step_start hN hI hev (Or.inr ⟨rfl, rfl⟩) h1 h0 ?_
      have := orient_swap (R.pt w) (R.pt (R.prv w)) (R.pt (R.nxt w))
      linarith

end Cav.GenStep
