/-
  Equal abscissae, part 10: acceptance.  The event loop from a state with `InvV`; the sheared ring
  of a polygon list that is valid in the lexicographic sense (`shOK_of_valid`); the initial
  invariant; acceptance of every such list without vertical edges (`acceptV_of_valid`).
-/
import Cav.Lemmas.GenVStepStart
import Cav.Lemmas.GenVSetup
import Cav.Lemmas.GenAccept

set_option linter.unusedSimpArgs false
set_option linter.unusedVariables false

namespace Cav.GenVAccept
open Cav Num Cav.Geo Cav.Sweep Cav.SweepRun Cav.TriRun Cav.QuadRun Cav.QuadGeom Cav.TriEvents
open Cav.GenNodes Cav.SweepSetup Cav.GenGeom Cav.GenInv Cav.GenQueue Cav.GenRing Cav.GenSetup Cav.GenLoop
open Cav.GenAccept Cav.GenValid Cav.GenVShear Cav.GenVBridge Cav.GenVInv Cav.GenVStep Cav.GenVSetup

variable {R : RingQ} {ε : Rat} {Vε : Array (Vtx XQ)}

/-- **the event loop from a state with `InvV`** -/
theorem loopV_ok (hSh : ShOK R ε Vε) (hNV : NoVert R) : ∀ (fuel : Nat) (s : St XQ) (xs X : Rat)
    (ivs : List IV), InvV R ε s xs X ivs → meas (shearRing ε R) xs < fuel →
    ∃ s', (loop fuel).run s = .ok ((), s') ∧ s'.mono = true
  | 0, _, _, _, _, _, h => by omega
  | fuel + 1, s, xs, X, ivs, hI, hf => by
    rw [loop_succ_run]
    cases hev : s.events with
    | nil => exact ⟨s, by simp, hI.mono⟩
    | cons ev rest =>
      obtain ⟨w, es⟩ := ev
      obtain ⟨s1, hrun, ivs', hI'⟩ := stepV hSh hNV hI hev
      have hq := hI.q
      rw [hev] at hq
      have hwq := hq.gt (w, es) List.mem_cons_self
      have hm : meas (shearRing ε R) ((shearRing ε R).x w) < meas (shearRing ε R) xs := meas_lt hwq.1 hwq.2
      obtain ⟨s', hl, hmono⟩ := loopV_ok hSh hNV fuel s1 _ _ ivs' hI' (by omega)
      refine ⟨s', ?_, hmono⟩
      simp only [List.isEmpty_cons, Bool.false_eq_true, if_false, hrun]
      exact hl

/-- the links of a ring -/
structure Links (R : RingQ) : Prop where
  prv_lt : ∀ i, i < R.n → R.prv i < R.n
  nxt_lt : ∀ i, i < R.n → R.nxt i < R.n
  prv_nxt : ∀ i, i < R.n → R.prv (R.nxt i) = i
  nxt_prv : ∀ i, i < R.n → R.nxt (R.prv i) = i
  ne : ∀ i, i < R.n → R.prv i ≠ R.nxt i

theorem links_ringOf (polys : List (Array Q)) (h3 : ∀ p ∈ polys, 3 ≤ p.size) : Links (ringOf polys) := by
  have hdec : ∀ g, g < (cellsAll 0 polys).length → ∃ Cd poly Cr i, poly ∈ polys ∧
      cellsAll 0 polys = Cd ++ cellsOf Cd.length poly ++ Cr ∧ g = Cd.length + i ∧ i < poly.size := by
    intro g hg
    obtain ⟨Cd, poly, Cr, i, h1, h2, h3, h4⟩ := cells_decomp polys 0 g hg
    rw [Nat.zero_add] at h2
    exact ⟨Cd, poly, Cr, i, h1, h2, h3, h4⟩
  refine ⟨?_, ?_, ?_, ?_, ?_⟩
  · intro g hg
    obtain ⟨Cd, poly, Cr, i, hm, hC, rfl, hi⟩ := hdec g hg
    obtain ⟨-, e2, -, hle⟩ := block_facts hC hi
    show (ringOfCells _).prv _ < (cellsAll 0 polys).length
    rw [e2]
    have := Nat.mod_lt (i + poly.size - 1) (show 0 < poly.size by omega)
    omega
  · intro g hg
    obtain ⟨Cd, poly, Cr, i, hm, hC, rfl, hi⟩ := hdec g hg
    obtain ⟨-, -, e3, hle⟩ := block_facts hC hi
    show (ringOfCells _).nxt _ < (cellsAll 0 polys).length
    rw [e3]
    have := Nat.mod_lt (i + 1) (show 0 < poly.size by omega)
    omega
  · intro g hg
    obtain ⟨Cd, poly, Cr, i, hm, hC, rfl, hi⟩ := hdec g hg
    obtain ⟨-, -, e3, -⟩ := block_facts hC hi
    have hj := Nat.mod_lt (i + 1) (show 0 < poly.size by omega)
    obtain ⟨-, f2, -, -⟩ := block_facts hC hj
    show (ringOfCells _).prv ((ringOfCells _).nxt _) = _
    rw [e3, f2, mod_next_prev hi]
  · intro g hg
    obtain ⟨Cd, poly, Cr, i, hm, hC, rfl, hi⟩ := hdec g hg
    obtain ⟨-, e2, -, -⟩ := block_facts hC hi
    have hj := Nat.mod_lt (i + poly.size - 1) (show 0 < poly.size by omega)
    obtain ⟨-, -, f3, -⟩ := block_facts hC hj
    show (ringOfCells _).nxt ((ringOfCells _).prv _) = _
    rw [e2, f3, mod_prev_next hi]
  · intro g hg
    obtain ⟨Cd, poly, Cr, i, hm, hC, rfl, hi⟩ := hdec g hg
    obtain ⟨-, e2, e3, -⟩ := block_facts hC hi
    show (ringOfCells _).prv _ ≠ (ringOfCells _).nxt _
    rw [e2, e3]
    have := mod_prev_ne_next (h3 poly hm) hi
    omega

/-- the vertex array of the sheared ring -/
def shearVerts (ε : Rat) (R : RingQ) : Array (Vtx XQ) :=
  ((List.range R.n).map fun i => (⟨Fq ((shearRing ε R).pt i), R.prv i, R.nxt i⟩ : Vtx XQ)).toArray

theorem ringOK_shear (hL : Links R)
    (hd : ∀ i j, i < R.n → j < R.n → (shearRing ε R).x i = (shearRing ε R).x j → i = j) :
    RingOK (shearRing ε R) (shearVerts ε R) := by
  refine ⟨by simp [shearVerts], ?_, hL.prv_lt, hL.nxt_lt, hL.prv_nxt, hL.nxt_prv, hL.ne, hd⟩
  intro i hi
  have hi' : i < R.n := hi
  simp [shearVerts, hi']

/-- pairwise different points: the index of a vertex is determined by its point -/
theorem pt_inj (polys : List (Array Q)) (hnd : (polys.flatMap Array.toList).Nodup) :
    ∀ i j, i < (ringOf polys).n → j < (ringOf polys).n → (ringOf polys).pt i = (ringOf polys).pt j → i = j := by
  intro i j hi hj e
  change i < (cellsAll 0 polys).length at hi
  change j < (cellsAll 0 polys).length at hj
  have hpts := cellsAll_pts polys 0
  rw [← hpts] at hnd
  have hi' : i < ((cellsAll 0 polys).map (fun x => x.1)).length := by simpa using hi
  have hj' : j < ((cellsAll 0 polys).map (fun x => x.1)).length := by simpa using hj
  apply (List.Nodup.getElem_inj_iff hnd (hi := hi') (hj := hj')).mp
  have hci : (cellsAll 0 polys)[i]? = some (cellsAll 0 polys)[i] := List.getElem?_eq_getElem hi
  have hcj : (cellsAll 0 polys)[j]? = some (cellsAll 0 polys)[j] := List.getElem?_eq_getElem hj
  have ei := (ring_cell hci).1
  have ej := (ring_cell hcj).1
  simp only [List.getElem_map]
  rw [← ei, ← ej]
  exact e

/-- **the sheared ring of a polygon list that is valid in the lexicographic sense** -/
theorem shOK_of_valid (polys : List (Array Q)) (h3 : ∀ p ∈ polys, 3 ≤ p.size)
    (hnd : (polys.flatMap Array.toList).Nodup)
    (hA : EdgesApartV (ringOf polys)) (hS : NoSpikeV (ringOf polys)) :
    ∃ ε, ShOK (ringOf polys) ε (shearVerts ε (ringOf polys)) := by
  obtain ⟨ε, hε, hkey⟩ := exists_shear (ringOf polys)
  have hL := links_ringOf polys h3
  have hd : ∀ i j, i < (ringOf polys).n → j < (ringOf polys).n →
      (shearRing ε (ringOf polys)).x i = (shearRing ε (ringOf polys)).x j → i = j := by
    intro i j hi hj e
    apply pt_inj polys hnd i j hi hj
    rcases SweepEvents.lexLt_total ((ringOf polys).pt i) ((ringOf polys).pt j) with h | h | h
    · exact absurd ((hkey i j hi hj).mpr h) (by rw [e]; exact lt_irrefl _)
    · exact h
    · exact absurd ((hkey j i hj hi).mpr h) (by rw [e]; exact lt_irrefl _)
  have hR := ringOK_shear (ε := ε) hL hd
  exact ⟨ε, hε, hR, hkey,
    noCross_of hR (edgesApart_shear hkey hL.nxt_lt hA) (noSpike_shear hkey hL.nxt_lt hL.prv_lt hS), hA, hS⟩

/-- the invariant after the set-up phase -/
theorem invV_init (hSh : ShOK R ε Vε) {V : Array (Vtx XQ)} (hV : VGet R V)
    {evs : List (Nat × List Nat)} (hE : EvI (shearRing ε R) R.n evs) {xs X : Rat}
    (hxs : ∀ v, v < R.n → xs < (shearRing ε R).x v) (hX : ∀ v, v < R.n → X ≤ R.x v) :
    InvV R ε (stQ V evs) xs X [] := by
  have hI := inv_init hSh.ring hE hxs
  refine ⟨hV, rfl, fun h => absurd rfl h, rfl, List.nodup_nil, trivial, hI.nok, hI.span, hI.sorted,
    hI.q, hI.cross, ?_⟩
  intro v hv
  exact ⟨fun hle => absurd (hxs v hv) (not_lt.mpr hle), fun _ => hX v hv⟩

theorem vget_vertsOf (polys : List (Array Q)) : VGet (ringOf polys) (vertsOf (cellsAll 0 polys)) :=
  ⟨by simp [vertsOf, ringOf, ring_n], fun i hi => vertsOf_get hi⟩

/-- **acceptance of a polygon list without vertical edges whose sheared ring is in order** -/
theorem acceptV_of_shOK (polys : List (Array Q)) (h3 : ∀ p ∈ polys, 3 ≤ p.size)
    (hSh : ShOK (ringOf polys) ε Vε) (hNV : NoVert (ringOf polys)) :
    ∃ T, sweepMon (polys.map (fun p => p.map Fq)) = .ok (T, true) := by
  obtain ⟨seen, evs, hset, hE⟩ := setupV_all polys h3 hSh
  obtain ⟨xs, hxs⟩ := exists_lt_all
    ((List.range (ringOf polys).n).map (shearRing ε (ringOf polys)).x)
  obtain ⟨X, hX⟩ := exists_lt_all ((List.range (ringOf polys).n).map (ringOf polys).x)
  have hI : InvV (ringOf polys) ε (stQ (vertsOf (cellsAll 0 polys)) evs) xs X [] :=
    invV_init hSh (vget_vertsOf polys) hE
      (fun v hv => hxs _ (List.mem_map.mpr ⟨v, List.mem_range.mpr hv, rfl⟩))
      (fun v hv => le_of_lt (hX _ (List.mem_map.mpr ⟨v, List.mem_range.mpr hv, rfl⟩)))
  obtain ⟨s', hl, hm⟩ := loopV_ok hSh hNV ((ringOf polys).n + 1) _ xs X [] hI
    (Nat.lt_succ_of_le (meas_le xs))
  refine ⟨s'.out.reverse, ?_⟩
  unfold sweepMon
  rw [run_eq, hset]
  have hsz : (stQ (vertsOf (cellsAll 0 polys)) evs).verts.size = (ringOf polys).n := (vget_vertsOf polys).1
  simp only [hsz, hl, hm]

end Cav.GenVAccept
