/-
  From rational fans (`FanQ`) to the clockwise tests of the model on finite points (`FanF`,
  `FanB`, `StopF`, `StopB`), the maximal fan of a chain of rational points, and the triangles of
  a fan: corners, non-degeneracy, number and total area.
-/
import Cav.Lemmas.MonoGeom
import Cav.Lemmas.MonoChain
import Cav.Lemmas.QuadGeom

set_option linter.unusedVariables false
set_option linter.unusedSimpArgs false

namespace Cav.MonoFan
open Cav Num Cav.Geo Cav.Sweep Cav.QuadGeom Cav.CvxEvents Cav.CvxGeom Cav.CvxLoop Cav.MonoGeom
open Cav.MonoHeap

/-- heap chain of a chain of rational points -/
def hp (l : List (Nat × Q)) : List (Nat × Pt XQ) := l.map (fun x => (x.1, Fq x.2))

theorem hp_fst (l : List (Nat × Q)) : (hp l).map Prod.fst = l.map Prod.fst := by
  simp [hp, Function.comp_def]

theorem hp_snd (l : List (Nat × Q)) : (hp l).map Prod.snd = (l.map Prod.snd).map Fq := by
  simp [hp, Function.comp_def]

theorem hp_append (l1 l2 : List (Nat × Q)) : hp (l1 ++ l2) = hp l1 ++ hp l2 := by simp [hp]

theorem orient_pq (u a c : Q) : orient u a c = orient a c u := by unfold orient; ring

theorem fanF_of_Q (u : Q) : ∀ (pts : List Q), FanQ 1 u pts → FanF (Fq u) (pts.map Fq)
  | [], _ => trivial
  | [_], _ => trivial
  | q0 :: q1 :: r, h => by
    refine ⟨cw_c u q0 q1 (by have := h.1; linarith), fanF_of_Q u (q1 :: r) h.2⟩

theorem fanB_of_Q (u : Q) : ∀ (pts : List Q), FanQ (-1) u pts → FanB (Fq u) (pts.map Fq)
  | [], _ => trivial
  | [_], _ => trivial
  | q0 :: q1 :: r, h => by
    refine ⟨cw_c q1 q0 u ?_, fanB_of_Q u (q1 :: r) h.2⟩
    have := h.1
    have e : orient q1 q0 u = - orient u q0 q1 := by unfold orient; ring
    rw [e]; linarith

theorem cw_c_imp (a b c : Q) (h1 : a.1 ≠ b.1) (h2 : b.1 ≠ c.1)
    (h : clockwiseSign (Fq a) (Fq b) (Fq c) = .c) : orient a b c < 0 := by
  rcases (clockwiseSign_c_iff _ _ _ _ _ _).mp h with h | ⟨h, -⟩ | ⟨h, -⟩
  · exact h
  · exact absurd h h1
  · exact absurd h h2

theorem stopF_of_Q (u g : Q) (rest : List (Nat × Q)) (hug : u.1 ≠ g.1)
    (hx : ∀ h r, rest = h :: r → g.1 ≠ h.2.1)
    (hs : ∀ h r, rest = h :: r → ¬ (1 : Rat) * orient u g h.2 < 0) :
    StopF (Fq u) (Fq g) (hp rest) := by
  cases rest with
  | nil => trivial
  | cons h r =>
    intro hc
    have := cw_c_imp u g h.2 hug (hx h r rfl) hc
    exact hs h r rfl (by linarith)

theorem stopB_of_Q (u g : Q) (rest : List (Nat × Q)) (hug : u.1 ≠ g.1)
    (hx : ∀ h r, rest = h :: r → g.1 ≠ h.2.1)
    (hs : ∀ h r, rest = h :: r → ¬ (-1 : Rat) * orient u g h.2 < 0) :
    StopB (Fq u) (Fq g) (hp rest) := by
  cases rest with
  | nil => trivial
  | cons h r =>
    intro hc
    have := cw_c_imp h.2 g u (hx h r rfl).symm hug.symm hc
    apply hs h r rfl
    have e : orient h.2 g u = - orient u g h.2 := by unfold orient; ring
    rw [e] at this; linarith

/-- the maximal fan of a chain of rational points seen from `u` -/
theorem fanQ_split (σ : Rat) (u : Q) : ∀ (q : List (Nat × Q)), q ≠ [] →
    ∃ mid g rest, q = mid ++ g :: rest ∧ FanQ σ u ((mid ++ [g]).map Prod.snd) ∧
      (∀ h r, rest = h :: r → ¬ σ * orient u g.2 h.2 < 0)
  | [], h => absurd rfl h
  | [g], _ => ⟨[], g, [], rfl, trivial, fun _ _ e => by cases e⟩
  | x :: y :: q', _ => by
    by_cases hc : σ * orient u x.2 y.2 < 0
    · obtain ⟨mid, g, rest, he, hf, hs⟩ := fanQ_split σ u (y :: q') (by simp)
      refine ⟨x :: mid, g, rest, by rw [he]; rfl, ?_, hs⟩
      cases mid with
      | nil =>
        simp only [List.nil_append, List.cons.injEq] at he
        obtain ⟨rfl, -⟩ := he
        exact ⟨hc, trivial⟩
      | cons hd tl =>
        simp only [List.cons_append, List.cons.injEq] at he
        obtain ⟨rfl, -⟩ := he
        exact ⟨hc, hf⟩
    · exact ⟨[], x, y :: q', rfl, trivial, fun h r e => by
        simp only [List.cons.injEq] at e; obtain ⟨rfl, -⟩ := e; exact hc⟩

/-! ### the triangles of a fan -/

section
variable {mB mT : Nat} {b t : Nat → Q}

theorem trisF_props (u : Q) (hu : IsVtx mB mT b t (Fq u)) : ∀ (pts : List Q), FanQ 1 u pts →
    (∀ q ∈ pts, IsVtx mB mT b t (Fq q)) →
    (∀ tr ∈ trisF (Fq u) (pts.map Fq), TriOK mB mT b t tr ∧ 0 < triArea tr) ∧
      areaSum (trisF (Fq u) (pts.map Fq)) = - orientSum u pts ∧
      (trisF (Fq u) (pts.map Fq)).length + 1 = max pts.length 1
  | [], _, _ => by simp [trisF, areaSum, orientSum]
  | [_], _, _ => by simp [trisF, areaSum, orientSum]
  | q0 :: q1 :: r, h, hv => by
    obtain ⟨ih1, ih2, ih3⟩ := trisF_props u hu (q1 :: r) h.2 (fun q hq => hv q (List.mem_cons_of_mem _ hq))
    have hneg : orient u q0 q1 < 0 := by have := h.1; linarith
    have ha : triArea (sort3 (Fq u) (Fq q0) (Fq q1)) = - orient u q0 q1 := by
      rw [triArea_sort3, abs_of_neg hneg]
    simp only [List.map_cons, trisF] at ih1 ih2 ih3 ⊢
    refine ⟨?_, ?_, ?_⟩
    · intro tr htr
      rcases List.mem_append.mp htr with htr | htr
      · exact ih1 tr htr
      · simp only [List.mem_singleton] at htr
        subst htr
        exact ⟨triOK_sort3 hu (hv q0 (by simp)) (hv q1 (by simp)), by rw [ha]; linarith⟩
    · rw [areaSum_append, ih2]
      simp only [areaSum, List.map_cons, List.map_nil, List.sum_cons, List.sum_nil, ha, orientSum]
      ring
    · simp only [List.length_append, List.length_cons, List.length_nil] at ih3 ⊢
      omega

theorem trisB_props (u : Q) (hu : IsVtx mB mT b t (Fq u)) : ∀ (pts : List Q), FanQ (-1) u pts →
    (∀ q ∈ pts, IsVtx mB mT b t (Fq q)) →
    (∀ tr ∈ trisB (Fq u) (pts.map Fq), TriOK mB mT b t tr ∧ 0 < triArea tr) ∧
      areaSum (trisB (Fq u) (pts.map Fq)) = orientSum u pts ∧
      (trisB (Fq u) (pts.map Fq)).length + 1 = max pts.length 1
  | [], _, _ => by simp [trisB, areaSum, orientSum]
  | [_], _, _ => by simp [trisB, areaSum, orientSum]
  | q0 :: q1 :: r, h, hv => by
    obtain ⟨ih1, ih2, ih3⟩ := trisB_props u hu (q1 :: r) h.2 (fun q hq => hv q (List.mem_cons_of_mem _ hq))
    have hpos : 0 < orient u q0 q1 := by have := h.1; linarith
    have e : orient q1 q0 u = - orient u q0 q1 := by unfold orient; ring
    have ha : triArea (sort3 (Fq q1) (Fq q0) (Fq u)) = orient u q0 q1 := by
      rw [triArea_sort3, e, abs_neg, abs_of_pos hpos]
    simp only [List.map_cons, trisB] at ih1 ih2 ih3 ⊢
    refine ⟨?_, ?_, ?_⟩
    · intro tr htr
      rcases List.mem_append.mp htr with htr | htr
      · exact ih1 tr htr
      · simp only [List.mem_singleton] at htr
        subst htr
        exact ⟨triOK_sort3 (hv q1 (by simp)) (hv q0 (by simp)) hu, by rw [ha]; exact hpos⟩
    · rw [areaSum_append, ih2]
      simp only [areaSum, List.map_cons, List.map_nil, List.sum_cons, List.sum_nil, ha, orientSum]
      ring
    · simp only [List.length_append, List.length_cons, List.length_nil] at ih3 ⊢
      omega

end

end Cav.MonoFan
