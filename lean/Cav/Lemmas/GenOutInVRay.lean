/-
  Tiling WITHOUT the hypothesis of distinct abscissae, part 4: ε-FREE membership by the parity of a
  ray that leaves the point `q` in a direction tilted SLIGHTLY TO THE RIGHT of the downward
  vertical (direction `(ε, -1)` for all sufficiently small `ε > 0`), in LEXICOGRAPHIC terms:

  * `belowL q p r`: the segment from `p` to `r` is crossed by that ray:
      `p <_lex q <_lex r` and `q` lies strictly to the left of `p → r` (`0 < orient p r q`);
    (a vertical segment on the vertical line of `q` is never crossed; a segment that ends on that
    line below `q` is not crossed, a segment that starts on it below `q` is);
  * `rayCountL`, `inTriL`: number of sides of a triangle that are crossed; it is odd;
  * `nBptL`, `inRegionL`: number of ring edges that are crossed; it is odd (even-odd rule);
  * `GenericL R q`: `q` is not a vertex (NO condition on the abscissa of `q`).

  In the sheared picture (`shear ε`, the ray becomes the downward vertical ray) these are the
  notions of `GenOutInRayDefs.lean`, provided `ε` orders `q` against the finitely many points
  involved lexicographically (`LexAt`, `below_shear`, `nBpt_shear`, `generic_shear`, …).  Such an
  `ε` exists together with `ShOK` (`shOK_with`).  The notions by orientation determinants
  (`StrictIn`, `ClosedIn`) are shear invariant (`StrictIn_sqU`, `ClosedIn_sqU`).
-/
import Cav.Lemmas.GenOutInVDefs
import Cav.Lemmas.GenOutInRay2
import Cav.Lemmas.GenOutInOpen
import Cav.Lemmas.GenVAccept
import Cav.Lemmas.SweepEvents

set_option linter.unusedVariables false
set_option linter.unusedSimpArgs false

namespace Cav.GenOutInV
open Cav Num Cav.Geo Cav.Sweep Cav.QuadGeom Cav.CvxEvents Cav.GenInv Cav.MonoGeom Cav.GenRing
open Cav.GenVShear Cav.GenVAccept Cav.GenOutV Cav.GenOutIn Cav.GenValid

/-! ### the lexicographic notions -/

/-- the segment `p → r` (lexicographically increasing) is crossed by the ray from `q` tilted
    slightly to the right of the downward vertical -/
def belowL (q p r : Q) : Prop := lexLt p q ∧ lexLt q r ∧ 0 < orient p r q

instance (q p r : Q) : Decidable (belowL q p r) := by unfold belowL; exact inferInstance

/-- the side `p r` of a triangle is crossed -/
def sideBelowL (q p r : Q) : Prop := belowL q p r ∨ belowL q r p

instance (q p r : Q) : Decidable (sideBelowL q p r) := by unfold sideBelowL; exact inferInstance

/-- number of sides of the triangle `a b c` that are crossed -/
def rayCountL (q a b c : Q) : Nat :=
  (if sideBelowL q a b then 1 else 0) + (if sideBelowL q b c then 1 else 0) +
    (if sideBelowL q c a then 1 else 0)

/-- `q` lies in the triangle `t` (parity of the tilted ray) -/
def inTriL (q : Q) (t : Tri) : Prop := rayCountL q (toQ t.1) (toQ t.2.1) (toQ t.2.2) % 2 = 1

instance (q : Q) (t : Tri) : Decidable (inTriL q t) := by unfold inTriL; exact inferInstance

/-- number of ring edges that are crossed -/
def nBptL (R : RingQ) (q : Q) : Nat :=
  ((List.range R.n).map fun u =>
    (if belowL q (R.pt u) (R.pt (R.nxt u)) then 1 else 0) +
      (if belowL q (R.pt u) (R.pt (R.prv u)) then 1 else 0)).sum

/-- `q` lies in the even-odd region (parity of the tilted ray) -/
def inRegionL (R : RingQ) (q : Q) : Prop := nBptL R q % 2 = 1

instance (R : RingQ) (q : Q) : Decidable (inRegionL R q) := by unfold inRegionL; exact inferInstance

/-- `q` is not a vertex -/
def GenericL (R : RingQ) (q : Q) : Prop := ∀ v, v < R.n → R.pt v ≠ q

instance (R : RingQ) (q : Q) : Decidable (GenericL R q) := by unfold GenericL; exact inferInstance

/-! ### a shear that orders `q` against `p` lexicographically -/

/-- the shear `ε` orders the abscissae of `p` and `q` lexicographically -/
def LexAt (ε : Rat) (q p : Q) : Prop :=
  ((shear ε p).1 < (shear ε q).1 ↔ lexLt p q) ∧ ((shear ε q).1 < (shear ε p).1 ↔ lexLt q p)

theorem lexAt_of_gap {ε : Rat} (hε : 0 < ε) {p q : Q} (h1 : ε ≤ gapOf p q) (h2 : ε ≤ gapOf q p) :
    LexAt ε q p :=
  ⟨shear_lex hε h1 h2, shear_lex hε h2 h1⟩

theorem LexAt.ne_x {ε : Rat} {q p : Q} (h : LexAt ε q p) (hne : p ≠ q) :
    (shear ε p).1 ≠ (shear ε q).1 := by
  intro e
  rcases SweepEvents.lexLt_total p q with hl | hl | hl
  · exact absurd (h.1.mpr hl) (by rw [e]; exact lt_irrefl _)
  · exact hne hl
  · exact absurd (h.2.mpr hl) (by rw [e]; exact lt_irrefl _)

theorem below_shear {ε : Rat} {q p r : Q} (hp : LexAt ε q p) (hr : LexAt ε q r) :
    below (shear ε q) (shear ε p) (shear ε r) ↔ belowL q p r := by
  by_cases h1 : (shear ε p).1 < (shear ε q).1
  · by_cases h2 : (shear ε q).1 < (shear ε r).1
    · rw [below_iff_orient h1 h2, orient_shear]
      unfold belowL
      exact ⟨fun h => ⟨hp.1.mp h1, hr.2.mp h2, h⟩, fun h => h.2.2⟩
    · exact ⟨fun h => absurd h.2.1 h2, fun h => absurd (hr.2.mpr h.2.1) h2⟩
  · exact ⟨fun h => absurd h.1 h1, fun h => absurd (hp.1.mpr h.1) h1⟩

theorem sideBelow_shear {ε : Rat} {q p r : Q} (hp : LexAt ε q p) (hr : LexAt ε q r) :
    sideBelow (shear ε q) (shear ε p) (shear ε r) ↔ sideBelowL q p r :=
  or_congr (below_shear hp hr) (below_shear hr hp)

theorem rayCount_shear {ε : Rat} {q a b c : Q} (ha : LexAt ε q a) (hb : LexAt ε q b)
    (hc : LexAt ε q c) :
    rayCount (shear ε q) (shear ε a) (shear ε b) (shear ε c) = rayCountL q a b c := by
  unfold rayCount rayCountL
  rw [if_congr (sideBelow_shear ha hb) rfl rfl, if_congr (sideBelow_shear hb hc) rfl rfl,
    if_congr (sideBelow_shear hc ha) rfl rfl]

/-- the ring: the number of crossed edges -/
theorem nBpt_shear {R : RingQ} {ε : Rat} {q : Q} (hnx : ∀ i, i < R.n → R.nxt i < R.n)
    (hpv : ∀ i, i < R.n → R.prv i < R.n) (h : ∀ v, v < R.n → LexAt ε q (R.pt v)) :
    nBpt (shearRing ε R) (shear ε q) = nBptL R q := by
  unfold nBpt nBptL
  congr 1
  apply List.map_congr_left
  intro u hu
  have hu' : u < R.n := List.mem_range.mp hu
  show (if below (shear ε q) (shear ε (R.pt u)) (shear ε (R.pt (R.nxt u))) then 1 else 0) +
    (if below (shear ε q) (shear ε (R.pt u)) (shear ε (R.pt (R.prv u))) then 1 else 0) = _
  rw [if_congr (below_shear (h u hu') (h _ (hnx u hu'))) rfl rfl,
    if_congr (below_shear (h u hu') (h _ (hpv u hu'))) rfl rfl]

theorem inRegion_shear {R : RingQ} {ε : Rat} {q : Q} (hnx : ∀ i, i < R.n → R.nxt i < R.n)
    (hpv : ∀ i, i < R.n → R.prv i < R.n) (h : ∀ v, v < R.n → LexAt ε q (R.pt v)) :
    inRegionV (shearRing ε R) (shear ε q) ↔ inRegionL R q := by
  unfold inRegionV inRegionL
  rw [nBpt_shear hnx hpv h]

theorem generic_shear {R : RingQ} {ε : Rat} {q : Q} (h : ∀ v, v < R.n → LexAt ε q (R.pt v))
    (hg : GenericL R q) : Generic (shearRing ε R) (shear ε q) :=
  fun v hv => (h v hv).ne_x (hg v hv)

/-! ### symmetry of `rayCountL`, the emitted triangle of a ghost triple -/

theorem sideBelowL_comm (q p r : Q) : sideBelowL q p r ↔ sideBelowL q r p := by
  unfold sideBelowL; exact Or.comm

theorem rayCountL_rot (q a b c : Q) : rayCountL q b c a = rayCountL q a b c := by
  unfold rayCountL
  omega

theorem rayCountL_swap (q a b c : Q) : rayCountL q a c b = rayCountL q a b c := by
  unfold rayCountL
  rw [if_congr (sideBelowL_comm q a c) rfl rfl, if_congr (sideBelowL_comm q c b) rfl rfl,
    if_congr (sideBelowL_comm q b a) rfl rfl]
  omega

theorem rayCountL_perm {q a b c p r s : Q}
    (h : (p, r, s) = (a, b, c) ∨ (p, r, s) = (a, c, b) ∨ (p, r, s) = (b, a, c) ∨
      (p, r, s) = (b, c, a) ∨ (p, r, s) = (c, a, b) ∨ (p, r, s) = (c, b, a)) :
    rayCountL q p r s = rayCountL q a b c := by
  rcases h with h | h | h | h | h | h <;> cases h
  · rfl
  · exact rayCountL_swap q a b c
  · rw [rayCountL_swap, rayCountL_rot]
  · exact rayCountL_rot q a b c
  · rw [rayCountL_rot, rayCountL_rot]
  · rw [rayCountL_swap, rayCountL_rot, rayCountL_rot]

theorem inTriL_sq (q : Q) (t : Q × Q × Q) :
    inTriL q (GenOutIn.sq t) ↔ rayCountL q t.1 t.2.1 t.2.2 % 2 = 1 := by
  obtain ⟨a, b, c⟩ := t
  unfold inTriL
  rw [rayCountL_perm (sq_perm a b c)]

/-- the emitted triangle of a ghost (sheared) triple in the original picture against the ghost
    triple in the sheared picture -/
theorem inTriL_sqU {ε : Rat} {q : Q} (t : Q × Q × Q) (h1 : LexAt ε q (unsh ε t.1))
    (h2 : LexAt ε q (unsh ε t.2.1)) (h3 : LexAt ε q (unsh ε t.2.2)) :
    inTriL q (sqU ε t) ↔ rayCount (shear ε q) t.1 t.2.1 t.2.2 % 2 = 1 := by
  rw [sqU_eq, inTriL_sq]
  have := rayCount_shear h1 h2 h3
  rw [shear_unsh, shear_unsh, shear_unsh] at this
  rw [this]
  rfl

/-! ### the notions by orientation determinants are shear invariant -/

theorem StrictInQ_shear (ε : Rat) (q a b c : Q) :
    StrictInQ (shear ε q) (shear ε a) (shear ε b) (shear ε c) ↔ StrictInQ q a b c := by
  unfold StrictInQ
  rw [orient_shear, orient_shear, orient_shear]

theorem ClosedInQ_shear (ε : Rat) (q a b c : Q) :
    ClosedInQ (shear ε q) (shear ε a) (shear ε b) (shear ε c) ↔ ClosedInQ q a b c := by
  unfold ClosedInQ
  rw [orient_shear, orient_shear, orient_shear]

/-- strictly inside the emitted triangle (original picture) = strictly inside the ghost triangle
    (sheared picture) -/
theorem StrictIn_sqU (ε : Rat) (q : Q) (t : Q × Q × Q) :
    StrictIn q (sqU ε t) ↔ StrictIn (shear ε q) (GenOutIn.sq t) := by
  rw [sqU_eq, StrictIn_sq, StrictIn_sq, ← StrictInQ_shear ε q]
  show StrictInQ (shear ε q) (shear ε (unsh ε t.1)) (shear ε (unsh ε t.2.1)) (shear ε (unsh ε t.2.2)) ↔ _
  rw [shear_unsh, shear_unsh, shear_unsh]

theorem ClosedIn_sqU (ε : Rat) (q : Q) (t : Q × Q × Q) :
    ClosedIn q (sqU ε t) ↔ ClosedIn (shear ε q) (GenOutIn.sq t) := by
  rw [sqU_eq, ClosedIn_sq, ClosedIn_sq, ← ClosedInQ_shear ε q]
  show ClosedInQ (shear ε q) (shear ε (unsh ε t.1)) (shear ε (unsh ε t.2.1)) (shear ε (unsh ε t.2.2)) ↔ _
  rw [shear_unsh, shear_unsh, shear_unsh]

/-! ### a shear for the ring and finitely many extra points -/

/-- a shear that orders finitely many points lexicographically -/
theorem exists_shear_pts (L : List Q) : ∃ ε : Rat, 0 < ε ∧ ∀ p ∈ L, ∀ q ∈ L, LexAt ε q p := by
  obtain ⟨e, he, h⟩ := exists_small (L.product L) (fun pq => gapOf pq.1 pq.2)
    (fun _ _ => gapOf_pos _ _)
  refine ⟨e, he, ?_⟩
  intro p hp q hq
  exact lexAt_of_gap he (h (p, q) (List.mem_product.mpr ⟨hp, hq⟩))
    (h (q, p) (List.mem_product.mpr ⟨hq, hp⟩))

/-- **the sheared ring of a polygon list that is valid in the lexicographic sense, for a shear that
    in addition orders the finitely many extra points `E` against the vertices** -/
theorem shOK_with (polys : List (Array Q)) (h3 : ∀ p ∈ polys, 3 ≤ p.size)
    (hnd : (polys.flatMap Array.toList).Nodup)
    (hA : EdgesApartV (ringOf polys)) (hS : NoSpikeV (ringOf polys)) (E : List Q) :
    ∃ ε, ShOK (ringOf polys) ε (shearVerts ε (ringOf polys)) ∧
      ∀ q ∈ E, ∀ v, v < (ringOf polys).n → LexAt ε q ((ringOf polys).pt v) := by
  obtain ⟨ε, hε, hlex⟩ := exists_shear_pts (((List.range (ringOf polys).n).map (ringOf polys).pt) ++ E)
  have hmem : ∀ v, v < (ringOf polys).n →
      (ringOf polys).pt v ∈ ((List.range (ringOf polys).n).map (ringOf polys).pt) ++ E :=
    fun v hv => List.mem_append_left _ (List.mem_map.mpr ⟨v, List.mem_range.mpr hv, rfl⟩)
  have hkey : ∀ i j, i < (ringOf polys).n → j < (ringOf polys).n →
      ((shearRing ε (ringOf polys)).x i < (shearRing ε (ringOf polys)).x j ↔
        lexLt ((ringOf polys).pt i) ((ringOf polys).pt j)) :=
    fun i j hi hj => (hlex _ (hmem i hi) _ (hmem j hj)).1
  have hL := links_ringOf polys h3
  have hd : ∀ i j, i < (ringOf polys).n → j < (ringOf polys).n →
      (shearRing ε (ringOf polys)).x i = (shearRing ε (ringOf polys)).x j → i = j := by
    intro i j hi hj e
    apply pt_inj polys hnd i j hi hj
    rcases SweepEvents.lexLt_total ((ringOf polys).pt i) ((ringOf polys).pt j) with h | h | h
    · exact absurd ((hkey i j hi hj).mpr h) (by rw [e]; exact lt_irrefl _)
    · exact h
    · exact absurd ((hkey j i hj hi).mpr h) (by rw [e]; exact lt_irrefl _)
  have hR := ringOK_shear (ε := ε) hL hd
  refine ⟨ε, ⟨hε, hR, hkey,
    noCross_of hR (edgesApart_shear hkey hL.nxt_lt hA) (noSpike_shear hkey hL.nxt_lt hL.prv_lt hS),
    hA, hS⟩, ?_⟩
  intro q hq v hv
  exact hlex _ (hmem v hv) _ (List.mem_append_right _ hq)

end Cav.GenOutInV
