/-
  List-level (`Seg`) heap lemmas for the general sweep, part 3: `chainSplit` followed by the two
  fans (`split_fans`).
-/
import Cav.Lemmas.GenOutHeap2

set_option linter.unusedSimpArgs false
set_option linter.unusedVariables false
set_option linter.unusedSectionVars false

namespace Cav.GenOutHeap
open Cav Num Cav.Sweep Cav.SweepRun Cav.TriRun Cav.QuadRun Cav.CvxHeap Cav.MonoHeap

variable {α : Type} [Num α]

/-- node array after `chainSplit c p` when the rightmost node `m = c.rm` (cell `⟨pm, am, none⟩`)
    is the tail of the chain -/
def spl0 (N : Array (Node α)) (m : Nat) (pm : Pt α) (am : Option Nat) (p : Pt α) : Array (Node α) :=
  (((((((N.push ⟨p, none, none⟩).setIfInBounds N.size ⟨p, some m, none⟩).setIfInBounds m
    ⟨pm, am, some N.size⟩).push ⟨pm, none, none⟩).setIfInBounds (N.size + 1)
    ⟨pm, none, none⟩).push ⟨p, none, none⟩).setIfInBounds (N.size + 1)
    ⟨pm, some (N.size + 2), none⟩).setIfInBounds (N.size + 2) ⟨p, none, some (N.size + 1)⟩

/-- node array after `chainSplit c p` when the rightmost node `m = c.rm` (cell
    `⟨pm, am, some rn⟩`) is followed by `rn` (cell `r`) -/
def spl1 (N : Array (Node α)) (m : Nat) (pm : Pt α) (am : Option Nat) (rn : Nat) (r : Node α)
    (p : Pt α) : Array (Node α) :=
  ((((((((N.push ⟨p, none, none⟩).setIfInBounds N.size ⟨p, some m, none⟩).setIfInBounds m
    ⟨pm, am, some N.size⟩).push ⟨pm, none, none⟩).setIfInBounds (N.size + 1)
    ⟨pm, none, some rn⟩).setIfInBounds rn ⟨r.p, some (N.size + 1), r.next⟩).push
    ⟨p, none, none⟩).setIfInBounds (N.size + 1)
    ⟨pm, some (N.size + 2), some rn⟩).setIfInBounds (N.size + 2) ⟨p, none, some (N.size + 1)⟩

/-- the last part of `chainSplit` (`GenNodes.splitTail`) as an explicit array update -/
theorem run_splitTail_seg (c : Chain) (p : Pt α) (n : Nat) (s : St α) (B5 : Array (Node α))
    (nd : Node α) (hs5 : B5.size = n + 2) (hd : B5[n + 1]? = some nd) :
    (GenNodes.splitTail c p n).run { s with nodes := B5 } =
      .ok ((⟨n, c.head, n⟩, ⟨n + 2, n + 2, if c.tail == c.rm then n + 1 else c.tail⟩),
        { s with nodes := ((B5.push ⟨p, none, none⟩).setIfInBounds (n + 1)
            ⟨nd.p, some (n + 2), nd.next⟩).setIfInBounds (n + 2) ⟨p, none, some (n + 1)⟩ }) := by
  have hg6 : (B5.push (⟨p, none, none⟩ : Node α))[n + 1]? = some nd := by
    rw [Array.getElem?_push, hs5, if_neg (by omega), hd]
  have hg7 : ((B5.push (⟨p, none, none⟩ : Node α)).setIfInBounds (n + 1)
      ⟨nd.p, some (n + 2), nd.next⟩)[n + 2]? = some ⟨p, none, none⟩ := by
    rw [Array.getElem?_setIfInBounds_ne (by omega), Array.getElem?_push, hs5, if_pos rfl]
  show Runs _ _ _
  unfold GenNodes.splitTail
  sm_bind
  simp only [hs5]
  sm_bind [hg6]
  sm_bind
  sm_bind [hg7]
  sm_bind
  exact rfl

theorem run_chainSplit_none (c : Chain) (p : Pt α) (s : St α) (pm : Pt α) (am : Option Nat)
    (hm : s.nodes[c.rm]? = some ⟨pm, am, none⟩) :
    (chainSplit c p).run s =
      .ok ((⟨s.nodes.size, c.head, s.nodes.size⟩,
            ⟨s.nodes.size + 2, s.nodes.size + 2,
              if c.tail == c.rm then s.nodes.size + 1 else c.tail⟩),
        { s with nodes := spl0 s.nodes c.rm pm am p }) := by
  have lm := lt_of_get hm
  have n1 : c.rm ≠ s.nodes.size := Nat.ne_of_lt lm
  have hg0 : (s.nodes.push (⟨p, none, none⟩ : Node α))[s.nodes.size]? = some ⟨p, none, none⟩ :=
    Array.getElem?_push_size
  have hrmn : ((s.nodes.push (⟨p, none, none⟩ : Node α)).setIfInBounds s.nodes.size
      ⟨p, some c.rm, none⟩)[c.rm]? = some ⟨pm, am, none⟩ := by
    simp [Array.getElem?_setIfInBounds, Array.getElem?_push, n1, n1.symm, hm]
  have hs1 : ((s.nodes.push (⟨p, none, none⟩ : Node α)).setIfInBounds s.nodes.size
      ⟨p, some c.rm, none⟩).size = s.nodes.size + 1 := by simp
  unfold spl0
  generalize hB1 : (s.nodes.push (⟨p, none, none⟩ : Node α)).setIfInBounds s.nodes.size
      ⟨p, some c.rm, none⟩ = B1 at hrmn hs1 ⊢
  have hs2 : (B1.setIfInBounds c.rm ⟨pm, am, some s.nodes.size⟩).size = s.nodes.size + 1 := by
    simp [hs1]
  generalize hB2 : B1.setIfInBounds c.rm ⟨pm, am, some s.nodes.size⟩ = B2 at hs2 ⊢
  have hg3 : (B2.push (⟨pm, none, none⟩ : Node α))[s.nodes.size + 1]? = some ⟨pm, none, none⟩ := by
    rw [← hs2]; exact Array.getElem?_push_size
  have hs4 : ((B2.push (⟨pm, none, none⟩ : Node α)).setIfInBounds (s.nodes.size + 1)
      ⟨pm, none, none⟩).size = s.nodes.size + 2 := by simp [hs2]
  have hg4 : ((B2.push (⟨pm, none, none⟩ : Node α)).setIfInBounds (s.nodes.size + 1)
      ⟨pm, none, none⟩)[s.nodes.size + 1]? = some ⟨pm, none, none⟩ := by
    simp [Array.getElem?_setIfInBounds, hs2]
  generalize hB4 : (B2.push (⟨pm, none, none⟩ : Node α)).setIfInBounds (s.nodes.size + 1)
      ⟨pm, none, none⟩ = B4 at hs4 hg4 ⊢
  show Runs s _ _
  unfold chainSplit
  sm_bind
  sm_bind [hg0]
  sm_bind [hB1]
  sm_bind [hrmn]
  sm_bind [hB2]
  sm_bind
  sm_bind
  sm_bind
  simp only [hs2, hB4]
  sm_whnf
  exact run_splitTail_seg c p s.nodes.size s B4 ⟨pm, none, none⟩ hs4 hg4

theorem run_chainSplit_some (c : Chain) (p : Pt α) (s : St α) (pm : Pt α) (am : Option Nat)
    (rn : Nat) (r : Node α)
    (hm : s.nodes[c.rm]? = some ⟨pm, am, some rn⟩) (hr : s.nodes[rn]? = some r) (hne : rn ≠ c.rm) :
    (chainSplit c p).run s =
      .ok ((⟨s.nodes.size, c.head, s.nodes.size⟩,
            ⟨s.nodes.size + 2, s.nodes.size + 2,
              if c.tail == c.rm then s.nodes.size + 1 else c.tail⟩),
        { s with nodes := spl1 s.nodes c.rm pm am rn r p }) := by
  have lm := lt_of_get hm
  have lr := lt_of_get hr
  have n1 : c.rm ≠ s.nodes.size := Nat.ne_of_lt lm
  have n2 : rn ≠ s.nodes.size := Nat.ne_of_lt lr
  have hg0 : (s.nodes.push (⟨p, none, none⟩ : Node α))[s.nodes.size]? = some ⟨p, none, none⟩ :=
    Array.getElem?_push_size
  have hrmn : ((s.nodes.push (⟨p, none, none⟩ : Node α)).setIfInBounds s.nodes.size
      ⟨p, some c.rm, none⟩)[c.rm]? = some ⟨pm, am, some rn⟩ := by
    simp [Array.getElem?_setIfInBounds, Array.getElem?_push, n1, n1.symm, hm]
  have hr1 : ((s.nodes.push (⟨p, none, none⟩ : Node α)).setIfInBounds s.nodes.size
      ⟨p, some c.rm, none⟩)[rn]? = some r := by
    simp [Array.getElem?_setIfInBounds, Array.getElem?_push, n2, n2.symm, hr]
  have hs1 : ((s.nodes.push (⟨p, none, none⟩ : Node α)).setIfInBounds s.nodes.size
      ⟨p, some c.rm, none⟩).size = s.nodes.size + 1 := by simp
  unfold spl1
  generalize hB1 : (s.nodes.push (⟨p, none, none⟩ : Node α)).setIfInBounds s.nodes.size
      ⟨p, some c.rm, none⟩ = B1 at hrmn hr1 hs1 ⊢
  have hs2 : (B1.setIfInBounds c.rm ⟨pm, am, some s.nodes.size⟩).size = s.nodes.size + 1 := by
    simp [hs1]
  have hr2 : (B1.setIfInBounds c.rm ⟨pm, am, some s.nodes.size⟩)[rn]? = some r := by
    rw [Array.getElem?_setIfInBounds_ne hne.symm]; exact hr1
  generalize hB2 : B1.setIfInBounds c.rm ⟨pm, am, some s.nodes.size⟩ = B2 at hs2 hr2 ⊢
  have hs4 : ((B2.push (⟨pm, none, none⟩ : Node α)).setIfInBounds (s.nodes.size + 1)
      ⟨pm, none, some rn⟩).size = s.nodes.size + 2 := by simp [hs2]
  have hg4 : ((B2.push (⟨pm, none, none⟩ : Node α)).setIfInBounds (s.nodes.size + 1)
      ⟨pm, none, some rn⟩)[s.nodes.size + 1]? = some ⟨pm, none, some rn⟩ := by
    simp [Array.getElem?_setIfInBounds, hs2]
  have hr4 : ((B2.push (⟨pm, none, none⟩ : Node α)).setIfInBounds (s.nodes.size + 1)
      ⟨pm, none, some rn⟩)[rn]? = some r := by
    rw [Array.getElem?_setIfInBounds_ne (by omega), Array.getElem?_push, hs2, if_neg (by omega), hr2]
  generalize hB4 : (B2.push (⟨pm, none, none⟩ : Node α)).setIfInBounds (s.nodes.size + 1)
      ⟨pm, none, some rn⟩ = B4 at hs4 hg4 hr4 ⊢
  have hs5 : (B4.setIfInBounds rn ⟨r.p, some (s.nodes.size + 1), r.next⟩).size = s.nodes.size + 2 := by
    simp [hs4]
  have hg5 : (B4.setIfInBounds rn ⟨r.p, some (s.nodes.size + 1), r.next⟩)[s.nodes.size + 1]? =
      some ⟨pm, none, some rn⟩ := by
    rw [Array.getElem?_setIfInBounds_ne (by omega)]; exact hg4
  generalize hB5 : B4.setIfInBounds rn ⟨r.p, some (s.nodes.size + 1), r.next⟩ = B5 at hs5 hg5 ⊢
  show Runs s _ _
  unfold chainSplit
  sm_bind
  sm_bind [hg0]
  sm_bind [hB1]
  sm_bind [hrmn]
  sm_bind [hB2]
  sm_bind
  sm_bind
  sm_bind
  simp only [hs2, hB4]
  sm_whnf
  sm_bind [hr4]
  sm_bind [hB5]
  exact run_splitTail_seg c p s.nodes.size s B5 ⟨pm, none, some rn⟩ hs5 hg5

/-! ### look-ups in the node array after a split -/

theorem size_spl0 (N : Array (Node α)) (m : Nat) (pm : Pt α) (am : Option Nat) (p : Pt α) :
    (spl0 N m pm am p).size = N.size + 3 := by simp [spl0]

theorem size_spl1 (N : Array (Node α)) (m : Nat) (pm : Pt α) (am : Option Nat) (rn : Nat)
    (r : Node α) (p : Pt α) : (spl1 N m pm am rn r p).size = N.size + 3 := by simp [spl1]

theorem spl0_get (N : Array (Node α)) (m : Nat) (pm : Pt α) (am : Option Nat) (p : Pt α)
    (hm : m < N.size) :
    (spl0 N m pm am p)[m]? = some ⟨pm, am, some N.size⟩ ∧
    (spl0 N m pm am p)[N.size]? = some ⟨p, some m, none⟩ ∧
    (spl0 N m pm am p)[N.size + 1]? = some ⟨pm, some (N.size + 2), none⟩ ∧
    (spl0 N m pm am p)[N.size + 2]? = some ⟨p, none, some (N.size + 1)⟩ ∧
    (∀ k, k < N.size → k ≠ m → (spl0 N m pm am p)[k]? = N[k]?) := by
  have e1 : m ≠ N.size := by omega
  have e2 : m ≠ N.size + 1 := by omega
  have e3 : m ≠ N.size + 2 := by omega
  have l1 : m < N.size + 1 := by omega
  refine ⟨?_, ?_, ?_, ?_, ?_⟩
  · simp [spl0, Array.getElem?_setIfInBounds, Array.getElem?_push, e1, e1.symm, e2, e2.symm, e3,
      e3.symm, l1]
  · simp [spl0, Array.getElem?_setIfInBounds, Array.getElem?_push, e1, e1.symm]
    omega
  · simp [spl0, Array.getElem?_setIfInBounds, Array.getElem?_push]
  · simp [spl0, Array.getElem?_setIfInBounds, Array.getElem?_push]
  · intro k hk hkm
    have k1 : k ≠ N.size := by omega
    have k2 : k ≠ N.size + 1 := by omega
    have k3 : k ≠ N.size + 2 := by omega
    simp [spl0, Array.getElem?_setIfInBounds, Array.getElem?_push, k1, k1.symm, k2, k2.symm, k3,
      k3.symm, hkm, Ne.symm hkm]

theorem spl1_get (N : Array (Node α)) (m : Nat) (pm : Pt α) (am : Option Nat) (rn : Nat)
    (r : Node α) (p : Pt α) (hm : m < N.size) (hr : rn < N.size) (hne : rn ≠ m) :
    (spl1 N m pm am rn r p)[m]? = some ⟨pm, am, some N.size⟩ ∧
    (spl1 N m pm am rn r p)[N.size]? = some ⟨p, some m, none⟩ ∧
    (spl1 N m pm am rn r p)[N.size + 1]? = some ⟨pm, some (N.size + 2), some rn⟩ ∧
    (spl1 N m pm am rn r p)[N.size + 2]? = some ⟨p, none, some (N.size + 1)⟩ ∧
    (spl1 N m pm am rn r p)[rn]? = some ⟨r.p, some (N.size + 1), r.next⟩ ∧
    (∀ k, k < N.size → k ≠ m → k ≠ rn → (spl1 N m pm am rn r p)[k]? = N[k]?) := by
  have e1 : m ≠ N.size := by omega
  have e2 : m ≠ N.size + 1 := by omega
  have e3 : m ≠ N.size + 2 := by omega
  have l1 : m < N.size + 1 := by omega
  have r1 : rn ≠ N.size := by omega
  have r2 : rn ≠ N.size + 1 := by omega
  have r3 : rn ≠ N.size + 2 := by omega
  have l2 : rn < N.size + 1 + 1 := by omega
  refine ⟨?_, ?_, ?_, ?_, ?_, ?_⟩
  · simp [spl1, Array.getElem?_setIfInBounds, Array.getElem?_push, e1, e1.symm, e2, e2.symm, e3,
      e3.symm, l1, hne, hne.symm]
  · simp [spl1, Array.getElem?_setIfInBounds, Array.getElem?_push, e1, e1.symm, r1, r1.symm]
    omega
  · simp [spl1, Array.getElem?_setIfInBounds, Array.getElem?_push, r2, r2.symm]
  · simp [spl1, Array.getElem?_setIfInBounds, Array.getElem?_push, r3, r3.symm]
  · simp [spl1, Array.getElem?_setIfInBounds, Array.getElem?_push, r1, r1.symm, r2, r2.symm, r3,
      r3.symm, l2, hne, hne.symm]
  · intro k hk hkm hkr
    have k1 : k ≠ N.size := by omega
    have k2 : k ≠ N.size + 1 := by omega
    have k3 : k ≠ N.size + 2 := by omega
    simp [spl1, Array.getElem?_setIfInBounds, Array.getElem?_push, k1, k1.symm, k2, k2.symm, k3,
      k3.symm, hkm, Ne.symm hkm, hkr, Ne.symm hkr]

/-! ### `chainSplit` at list level -/

/-- `chainSplit` at list level: the lower chain ends with the old rightmost node `m` and the new
    cell `N.size`; the upper chain starts with the new cell `N.size + 2`, then the copy
    `N.size + 1` of `m`, then the old part behind `m`.  Only the cells of `m` and of its old
    successor change. -/
theorem seg_split (N : Array (Node α)) (lx : List (Nat × Pt α)) (m : Nat) (pm : Pt α)
    (ly : List (Nat × Pt α))
    (h : Seg N none (lx ++ (m, pm) :: ly) none)
    (hnd : ((lx ++ (m, pm) :: ly).map Prod.fst).Nodup)
    (c : Chain) (hrm : c.rm = m) (p : Pt α) (sm0 : St α) (hsm : sm0.nodes = N) :
    ∃ N', (chainSplit c p).run sm0 =
        .ok ((⟨N.size, c.head, N.size⟩,
              ⟨N.size + 2, N.size + 2, if c.tail == c.rm then N.size + 1 else c.tail⟩),
          { sm0 with nodes := N' }) ∧ N'.size = N.size + 3 ∧
      Seg N' none (lx ++ [(m, pm), (N.size, p)]) none ∧
      Seg N' none ((N.size + 2, p) :: (N.size + 1, pm) :: ly) none ∧
      (∀ k, k < N.size → k ≠ m → nxtOf ly none ≠ some k → N'[k]? = N[k]?) := by
  subst hsm
  subst hrm
  have hlt := Seg.lt h
  obtain ⟨hx, hm, hy⟩ := (seg_append _ lx _ none none).mp h
  have lm := lt_of_get hm
  have hndR := nodup_app_right hnd
  have fx : ∀ x ∈ lx, x.1 ≠ c.rm := fun x hx =>
    nodup_app_ne hnd hx (y := (c.rm, pm)) (by simp)
  cases ly with
  | nil =>
    obtain ⟨g1, g2, g3, g4, g5⟩ := spl0_get sm0.nodes c.rm pm (lastOr lx none) p lm
    refine ⟨spl0 sm0.nodes c.rm pm (lastOr lx none) p, run_chainSplit_none c p sm0 pm _ hm,
      size_spl0 _ _ _ _ _, ?_, ⟨g4, g3, trivial⟩, ?_⟩
    · rw [seg_append]
      refine ⟨Seg.congr ?_ hx, g1, g2, trivial⟩
      intro k hk
      rw [List.mem_map] at hk
      obtain ⟨x, hx', rfl⟩ := hk
      exact g5 x.1 (hlt x (List.mem_append_left _ hx')) (fx x hx')
    · intro k hk hkm _
      exact g5 k hk hkm
  | cons hd ly' =>
    obtain ⟨rn, pr⟩ := hd
    obtain ⟨hr, hy'⟩ := hy
    have lr := lt_of_get hr
    have hne : rn ≠ c.rm :=
      (nodup_app_ne (A := [(c.rm, pm)]) (B := (rn, pr) :: ly') (x := (c.rm, pm)) (y := (rn, pr)) hndR
        (by simp) (by simp)).symm
    have fxr : ∀ x ∈ lx, x.1 ≠ rn := fun x hx =>
      nodup_app_ne hnd hx (y := (rn, pr)) (by simp)
    have fym : ∀ x ∈ ly', x.1 ≠ c.rm := fun x hx =>
      (nodup_app_ne (A := [(c.rm, pm)]) (B := (rn, pr) :: ly') (x := (c.rm, pm)) hndR (by simp)
        (List.mem_cons_of_mem _ hx)).symm
    have fyr : ∀ x ∈ ly', x.1 ≠ rn := fun x hx =>
      (nodup_app_ne (A := [(rn, pr)]) (B := ly') (x := (rn, pr))
        (nodup_app_right (A := [(c.rm, pm)]) hndR) (by simp) hx).symm
    obtain ⟨g1, g2, g3, g4, g5, g6⟩ := spl1_get sm0.nodes c.rm pm (lastOr lx none) rn
      ⟨pr, some c.rm, nxtOf ly' none⟩ p lm lr hne
    refine ⟨spl1 sm0.nodes c.rm pm (lastOr lx none) rn ⟨pr, some c.rm, nxtOf ly' none⟩ p,
      run_chainSplit_some c p sm0 pm _ rn _ hm hr hne, size_spl1 _ _ _ _ _ _ _, ?_,
      ⟨g4, g3, g5, Seg.congr ?_ hy'⟩, ?_⟩
    · rw [seg_append]
      refine ⟨Seg.congr ?_ hx, g1, g2, trivial⟩
      intro k hk
      rw [List.mem_map] at hk
      obtain ⟨x, hx', rfl⟩ := hk
      exact g6 x.1 (hlt x (List.mem_append_left _ hx')) (fx x hx') (fxr x hx')
    · intro k hk
      rw [List.mem_map] at hk
      obtain ⟨x, hx', rfl⟩ := hk
      exact g6 x.1 (hlt x (List.mem_append_right _ (List.mem_cons_of_mem _ (List.mem_cons_of_mem _ hx'))))
        (fym x hx') (fyr x hx')
    · intro k hk hkm hkr
      exact g6 k hk hkm (fun e => hkr (by rw [e]; rfl))

end Cav.GenOutHeap
