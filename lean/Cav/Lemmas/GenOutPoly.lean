/-
  Output of the sweep on general valid input, part 11: the geometric quantities `areaR`,
  `triCountR` of the vertex ring of a polygon list, polygon by polygon.

  * `sum_blocks`: a sum over the ring indices is the sum over the blocks of the polygons;
  * `block_mem`, `block_le`, `block_pt`, `block_nxt`, `block_prv`: the block of a polygon;
  * `coh_walk`: coherence at `v` — the edges into and out of `v` have the same walk sign;
  * `areaR_walk`: `areaR` as the sum of `walkSign * cross` over the edges `k → nxt k`;
  * `walkSign_block`, `block_shoelace`: with coherence the walk sign is constant on a block and
    the block contributes `± shoelace`;
  * `areaR_polys`, `triCountR_polys`: the main results;
  * `leftIdx_lt`, `leftIdx_min`: the leftmost vertex of a polygon.
-/
import Cav.Lemmas.GenOutPolyDefs
import Cav.Lemmas.GenOutCount

set_option linter.unusedSimpArgs false
set_option linter.unusedVariables false

namespace Cav.GenOutPoly
open Cav Cav.Geo Cav.QuadGeom Cav.GenInv Cav.GenRing Cav.CvxLoop Cav.CvxPoly Cav.GenOutDefs
open Cav.GenOutCount
open Cav.GenGeom hiding Q

/-! ### (H1) block decomposition of sums -/

theorem cellsAll_length_cons (base : Nat) (p : Array Q) (r : List (Array Q)) :
    (cellsAll base (p :: r)).length = p.size + (cellsAll (base + p.size) r).length := by
  simp only [cellsAll, List.length_append, cellsOf_length]

theorem sum_blocks_range' {β : Type} [AddCommMonoid β] (F : Nat → β) :
    ∀ (polys : List (Array Q)) (base : Nat),
      ((List.range' base (cellsAll base polys).length).map F).sum =
        ((blocks base polys).map fun bp =>
          ((List.range bp.2.size).map fun i => F (bp.1 + i)).sum).sum
  | [], base => by simp [cellsAll, blocks]
  | p :: r, base => by
    rw [cellsAll_length_cons, ← List.range'_append_1, List.map_append, List.sum_append,
      sum_blocks_range' F r (base + p.size)]
    simp only [blocks, List.map_cons, List.sum_cons]
    congr 1
    rw [List.range'_eq_map_range, List.map_map]
    rfl

/-- **(H1)** a sum over the ring indices, block by block -/
theorem sum_blocks {β : Type} [AddCommMonoid β] (F : Nat → β) (polys : List (Array Q)) :
    ((List.range (ringOf polys).n).map F).sum =
      ((blocks 0 polys).map fun bp =>
        ((List.range bp.2.size).map fun i => F (bp.1 + i)).sum).sum := by
  rw [← sum_blocks_range' F polys 0, List.range_eq_range']
  rfl

/-! ### (H2) block facts -/

theorem blocks_decomp : ∀ (polys : List (Array Q)) (base b : Nat) (P : Array Q),
    (b, P) ∈ blocks base polys →
      P ∈ polys ∧ ∃ Cd Cr, cellsAll base polys = Cd ++ cellsOf (base + Cd.length) P ++ Cr ∧
        b = base + Cd.length
  | [], _, _, _, h => by simp [blocks] at h
  | p :: r, base, b, P, h => by
    simp only [blocks, List.mem_cons] at h
    rcases h with h | h
    · have e1 : b = base := congrArg Prod.fst h
      have e2 : P = p := congrArg Prod.snd h
      subst e1 e2
      exact ⟨List.mem_cons_self, [], cellsAll (b + P.size) r, by simp [cellsAll], by simp⟩
    · obtain ⟨hm, Cd, Cr, hC, hb⟩ := blocks_decomp r (base + p.size) b P h
      refine ⟨List.mem_cons_of_mem _ hm, cellsOf base p ++ Cd, Cr, ?_, ?_⟩
      · simp only [cellsAll]
        rw [hC]
        simp only [List.length_append, cellsOf_length, List.append_assoc, Nat.add_assoc]
      · simp only [List.length_append, cellsOf_length]
        omega

theorem blocks_decomp0 {polys : List (Array Q)} {b : Nat} {P : Array Q}
    (h : (b, P) ∈ blocks 0 polys) :
    P ∈ polys ∧ ∃ Cd Cr, cellsAll 0 polys = Cd ++ cellsOf Cd.length P ++ Cr ∧ b = Cd.length := by
  obtain ⟨hm, Cd, Cr, hC, hb⟩ := blocks_decomp polys 0 b P h
  rw [Nat.zero_add] at hC hb
  exact ⟨hm, Cd, Cr, hC, hb⟩

/-- **(H2)** the block of a polygon in the ring -/
theorem block_all {polys : List (Array Q)} {b : Nat} {P : Array Q} (h : (b, P) ∈ blocks 0 polys) :
    P ∈ polys ∧ (0 < P.size → b + P.size ≤ (ringOf polys).n) ∧
      ∀ i, i < P.size → (ringOf polys).pt (b + i) = P.getD i (0, 0) ∧
        (ringOf polys).nxt (b + i) = b + (i + 1) % P.size ∧
        (ringOf polys).prv (b + i) = b + (i + P.size - 1) % P.size ∧
        b + P.size ≤ (ringOf polys).n := by
  obtain ⟨hm, Cd, Cr, hC, rfl⟩ := blocks_decomp0 h
  have key : ∀ i, i < P.size → (ringOf polys).pt (Cd.length + i) = P.getD i (0, 0) ∧
        (ringOf polys).nxt (Cd.length + i) = Cd.length + (i + 1) % P.size ∧
        (ringOf polys).prv (Cd.length + i) = Cd.length + (i + P.size - 1) % P.size ∧
        Cd.length + P.size ≤ (ringOf polys).n := by
    intro i hi
    obtain ⟨e1, e2, e3, e4⟩ := block_facts hC hi
    exact ⟨e1, e3, e2, e4⟩
  exact ⟨hm, fun h0 => (key 0 h0).2.2.2, key⟩

theorem block_mem {polys : List (Array Q)} {b : Nat} {P : Array Q} (h : (b, P) ∈ blocks 0 polys) :
    P ∈ polys := (block_all h).1

theorem block_le {polys : List (Array Q)} (h3 : ∀ p ∈ polys, 3 ≤ p.size) {b : Nat} {P : Array Q}
    (h : (b, P) ∈ blocks 0 polys) : b + P.size ≤ (ringOf polys).n :=
  (block_all h).2.1 (by have := h3 P (block_mem h); omega)

theorem block_pt {polys : List (Array Q)} {b : Nat} {P : Array Q} (h : (b, P) ∈ blocks 0 polys)
    {i : Nat} (hi : i < P.size) : (ringOf polys).pt (b + i) = P.getD i (0, 0) :=
  ((block_all h).2.2 i hi).1

theorem block_nxt {polys : List (Array Q)} {b : Nat} {P : Array Q} (h : (b, P) ∈ blocks 0 polys)
    {i : Nat} (hi : i < P.size) : (ringOf polys).nxt (b + i) = b + (i + 1) % P.size :=
  ((block_all h).2.2 i hi).2.1

theorem block_prv {polys : List (Array Q)} {b : Nat} {P : Array Q} (h : (b, P) ∈ blocks 0 polys)
    {i : Nat} (hi : i < P.size) : (ringOf polys).prv (b + i) = b + (i + P.size - 1) % P.size :=
  ((block_all h).2.2 i hi).2.2.1

theorem block_lt {polys : List (Array Q)} {b : Nat} {P : Array Q} (h : (b, P) ∈ blocks 0 polys)
    {i : Nat} (hi : i < P.size) : b + i < (ringOf polys).n := by
  have := ((block_all h).2.2 i hi).2.2.2
  omega

/-! ### (H3) coherence and the walk sign -/

section
variable {R : RingQ} {V : Array (Vtx XQ)}

theorem x_prv_ne (hR : RingOK R V) {v : Nat} (hv : v < R.n) : R.x (R.prv v) ≠ R.x v := by
  intro e
  have e' := hR.distinct _ _ (hR.prv_lt v hv) hv e
  have h1 := hR.nxt_prv v hv
  rw [e'] at h1
  exact hR.ne v hv (e'.trans h1.symm)

theorem x_nxt_ne (hR : RingOK R V) {v : Nat} (hv : v < R.n) : R.x (R.nxt v) ≠ R.x v := by
  intro e
  have e' := hR.distinct _ _ (hR.nxt_lt v hv) hv e
  have h1 := hR.prv_nxt v hv
  rw [e'] at h1
  exact hR.ne v hv (h1.trans e'.symm)

/-- **(H3)** coherence at `v`: the edge into `v` and the edge out of `v` have the same sign -/
theorem coh_walk (hR : RingOK R V) {v : Nat} (hv : v < R.n) (hc : Coh R v) :
    walkSign R (R.prv v) = walkSign R v := by
  have hnp : R.nxt (R.prv v) = v := hR.nxt_prv v hv
  have hp := x_prv_ne hR hv
  have hn := x_nxt_ne hR hv
  unfold walkSign
  rw [hnp]
  unfold Coh at hc
  by_cases h0 : R.x (R.prv v) < R.x v
  · by_cases h1 : R.x v < R.x (R.nxt v)
    · rw [if_pos h0, if_pos h1] at hc
      rw [if_pos h0, if_pos h1]
      by_cases ha : isLo R (R.prv v) v
      · rw [if_pos ha, if_pos (hc.mp ha)]
      · rw [if_neg ha, if_neg (fun hb => ha (hc.mpr hb))]
    · rw [if_pos h0, if_neg h1] at hc
      rw [if_pos h0, if_neg h1]
      by_cases ha : isLo R (R.prv v) v
      · rw [if_pos ha, if_neg (hc.mp ha)]
      · rw [if_neg ha, if_pos (Classical.not_not.mp (fun hb => ha (hc.mpr hb)))]
  · by_cases h1 : R.x v < R.x (R.nxt v)
    · rw [if_neg h0, if_pos h1] at hc
      rw [if_neg h0, if_pos h1]
      by_cases ha : isLo R v (R.prv v)
      · rw [if_pos ha, if_neg (hc.mp ha)]
      · rw [if_neg ha, if_pos (Classical.not_not.mp (fun hb => ha (hc.mpr hb)))]
    · rw [if_neg h0, if_neg h1] at hc
      rw [if_neg h0, if_neg h1]
      by_cases ha : isLo R v (R.prv v)
      · rw [if_pos ha, if_pos (hc.mp ha)]
      · rw [if_neg ha, if_neg (fun hb => ha (hc.mpr hb))]

/-! ### (H4) `areaR` as a sum over the walked edges -/

theorem list_sum_eq_finset {β : Type} [AddCommMonoid β] (F : Nat → β) :
    ∀ n, ((List.range n).map F).sum = ∑ i ∈ Finset.range n, F i
  | 0 => by simp
  | n + 1 => by
    rw [List.sum_range_succ, Finset.sum_range_succ, list_sum_eq_finset F n]

/-- reindexing a sum over `[0, n)` by a permutation of `[0, n)` -/
theorem sum_range_perm {β : Type} [AddCommMonoid β] (F : Nat → β) (f g : Nat → Nat) (n : Nat)
    (hf : ∀ i, i < n → f i < n) (hg : ∀ i, i < n → g i < n)
    (hgf : ∀ i, i < n → g (f i) = i) (hfg : ∀ i, i < n → f (g i) = i) :
    ((List.range n).map fun i => F (f i)).sum = ((List.range n).map F).sum := by
  rw [list_sum_eq_finset, list_sum_eq_finset]
  refine Finset.sum_nbij' f g ?_ ?_ ?_ ?_ ?_
  · intro a ha; exact Finset.mem_range.mpr (hf a (Finset.mem_range.mp ha))
  · intro a ha; exact Finset.mem_range.mpr (hg a (Finset.mem_range.mp ha))
  · intro a ha; exact hgf a (Finset.mem_range.mp ha)
  · intro a ha; exact hfg a (Finset.mem_range.mp ha)
  · intro a ha; rfl

theorem sum_range_add {β : Type} [AddCommMonoid β] (F G : Nat → β) :
    ∀ n, ((List.range n).map fun i => F i + G i).sum =
      ((List.range n).map F).sum + ((List.range n).map G).sum
  | 0 => by simp
  | n + 1 => by
    rw [List.sum_range_succ, List.sum_range_succ, List.sum_range_succ, sum_range_add F G n]
    exact add_add_add_comm _ _ _ _

theorem cross_swap (a b : Rat × Rat) : cross b a = - cross a b := by
  unfold cross; ring

/-- the two directions of one ring edge -/
theorem eAll_pair (hR : RingOK R V) {k : Nat} (hk : k < R.n) :
    eAll R k (R.nxt k) + eAll R (R.nxt k) k =
      walkSign R k * cross (R.pt k) (R.pt (R.nxt k)) := by
  have hn := x_nxt_ne hR hk
  unfold eAll walkSign eSigned
  by_cases h : R.x k < R.x (R.nxt k)
  · rw [if_pos h, if_neg (not_lt.mpr (le_of_lt h)), if_pos h, add_zero]
  · have h' : R.x (R.nxt k) < R.x k := lt_of_le_of_ne (not_lt.mp h) hn
    rw [if_neg h, if_pos h', if_neg h, zero_add, cross_swap (R.pt k)]
    by_cases ha : isLo R (R.nxt k) k
    · rw [if_pos ha, if_pos ha]; ring
    · rw [if_neg ha, if_neg ha]; ring

/-- **(H4)** `areaR` is the sum of `walkSign * cross` over the walked ring edges -/
theorem areaR_walk (hR : RingOK R V) :
    areaR R = ((List.range R.n).map fun k =>
      walkSign R k * cross (R.pt k) (R.pt (R.nxt k))).sum := by
  unfold areaR
  rw [sum_range_add (fun u => eAll R u (R.nxt u)) (fun u => eAll R u (R.prv u)) R.n,
    ← sum_range_perm (fun u => eAll R u (R.prv u)) R.nxt R.prv R.n hR.nxt_lt hR.prv_lt
      hR.prv_nxt hR.nxt_prv,
    ← sum_range_add]
  apply sum_range_congr
  intro k hk
  show eAll R k (R.nxt k) + eAll R (R.nxt k) (R.prv (R.nxt k)) = _
  rw [hR.prv_nxt k hk]
  exact eAll_pair hR hk

end

/-! ### (H5) one block -/

section
variable {polys : List (Array Q)}

/-- with coherence the walk sign is constant along a polygon -/
theorem walkSign_block_zero (h3 : ∀ p ∈ polys, 3 ≤ p.size)
    (hx : ((polys.flatMap Array.toList).map (·.1)).Nodup)
    (hc : ∀ v, v < (ringOf polys).n → Coh (ringOf polys) v)
    {b : Nat} {P : Array Q} (h : (b, P) ∈ blocks 0 polys) :
    ∀ i, i < P.size → walkSign (ringOf polys) (b + i) = walkSign (ringOf polys) b
  | 0, _ => rfl
  | i + 1, hi => by
    have hv := block_lt h hi
    have hw := coh_walk (ringOK polys h3 hx) hv (hc _ hv)
    have e : (ringOf polys).prv (b + (i + 1)) = b + i := by
      rw [block_prv h hi, show i + 1 + P.size - 1 = i + P.size by omega, Nat.add_mod_right,
        Nat.mod_eq_of_lt (by omega)]
    rw [e] at hw
    rw [← hw]
    exact walkSign_block_zero h3 hx hc h i (by omega)

/-- **(H5a)** with coherence the walk sign is constant along a polygon -/
theorem walkSign_block (h3 : ∀ p ∈ polys, 3 ≤ p.size)
    (hx : ((polys.flatMap Array.toList).map (·.1)).Nodup)
    (hc : ∀ v, v < (ringOf polys).n → Coh (ringOf polys) v)
    {b : Nat} {P : Array Q} (h : (b, P) ∈ blocks 0 polys) {i j : Nat} (hi : i < P.size)
    (hj : j < P.size) : walkSign (ringOf polys) (b + i) = walkSign (ringOf polys) (b + j) := by
  rw [walkSign_block_zero h3 hx hc h i hi, walkSign_block_zero h3 hx hc h j hj]

theorem sum_range_mul_left (c : Rat) (G : Nat → Rat) :
    ∀ n, ((List.range n).map fun i => c * G i).sum = c * ((List.range n).map G).sum
  | 0 => by simp
  | n + 1 => by
    rw [List.sum_range_succ, List.sum_range_succ, sum_range_mul_left c G n, mul_add]

/-- the shoelace sum as a list sum over the vertices -/
theorem shoelace_list (P : Array Q) :
    shoelace P = ((List.range P.size).map fun i =>
      cross (P.getD i (0, 0)) (P.getD ((i + 1) % P.size) (0, 0))).sum := by
  unfold shoelace
  rw [← list_sum_eq_finset]
  apply sum_range_congr
  intro i hi
  rw [cyc_lt P i hi]
  rfl

/-- **(H5b)** with coherence a polygon contributes `± shoelace` -/
theorem block_shoelace (h3 : ∀ p ∈ polys, 3 ≤ p.size)
    (hx : ((polys.flatMap Array.toList).map (·.1)).Nodup)
    (hc : ∀ v, v < (ringOf polys).n → Coh (ringOf polys) v)
    {b : Nat} {P : Array Q} (h : (b, P) ∈ blocks 0 polys) {j : Nat} (hj : j < P.size) :
    ((List.range P.size).map fun i => walkSign (ringOf polys) (b + i) *
        cross ((ringOf polys).pt (b + i)) ((ringOf polys).pt ((ringOf polys).nxt (b + i)))).sum =
      walkSign (ringOf polys) (b + j) * shoelace P := by
  rw [shoelace_list, ← sum_range_mul_left]
  apply sum_range_congr
  intro i hi
  have hm : (i + 1) % P.size < P.size := Nat.mod_lt _ (by omega)
  rw [walkSign_block h3 hx hc h hi hj, block_nxt h hi, block_pt h hi, block_pt h hm]

/-! ### (H6) the main results -/

theorem sum_map_congr {α β : Type} [AddCommMonoid β] (l : List α) (f g : α → β)
    (h : ∀ a ∈ l, f a = g a) : (l.map f).sum = (l.map g).sum := by
  congr 1
  exact List.map_congr_left h

/-- **(H6a)** with coherence the geometric area is the signed sum of the shoelace sums -/
theorem areaR_polys (h3 : ∀ p ∈ polys, 3 ≤ p.size)
    (hx : ((polys.flatMap Array.toList).map (·.1)).Nodup)
    (hc : ∀ v, v < (ringOf polys).n → Coh (ringOf polys) v)
    (sel : Nat × Array Q → Nat) (hsel : ∀ bp ∈ blocks 0 polys, sel bp < bp.2.size) :
    areaR (ringOf polys) = ((blocks 0 polys).map fun bp =>
      walkSign (ringOf polys) (bp.1 + sel bp) * shoelace bp.2).sum := by
  rw [areaR_walk (ringOK polys h3 hx),
    sum_blocks (fun k => walkSign (ringOf polys) k *
      cross ((ringOf polys).pt k) ((ringOf polys).pt ((ringOf polys).nxt k))) polys]
  apply sum_map_congr
  intro bp hbp
  exact block_shoelace h3 hx hc (b := bp.1) (P := bp.2) hbp (hsel bp hbp)

/-- **(H6b)** the geometric number of triangles, polygon by polygon -/
theorem triCountR_polys (polys : List (Array Q)) :
    triCountR (ringOf polys) = ((blocks 0 polys).map fun bp =>
      ((List.range bp.2.size).map fun i => vWeight (ringOf polys) (bp.1 + i)).sum).sum := by
  unfold triCountR
  exact sum_blocks (vWeight (ringOf polys)) polys

end

/-! ### the leftmost vertex -/

theorem foldl_left (P : Array Q) : ∀ (l : List Nat) (a : Nat),
    (l.foldl (fun best i => if (P.getD i (0, 0)).1 < (P.getD best (0, 0)).1 then i else best) a = a ∨
      l.foldl (fun best i => if (P.getD i (0, 0)).1 < (P.getD best (0, 0)).1 then i else best) a ∈ l) ∧
    (P.getD (l.foldl (fun best i =>
        if (P.getD i (0, 0)).1 < (P.getD best (0, 0)).1 then i else best) a) (0, 0)).1 ≤
      (P.getD a (0, 0)).1 ∧
    ∀ i ∈ l, (P.getD (l.foldl (fun best i =>
        if (P.getD i (0, 0)).1 < (P.getD best (0, 0)).1 then i else best) a) (0, 0)).1 ≤
      (P.getD i (0, 0)).1
  | [], a => ⟨Or.inl rfl, le_refl _, fun i hi => by cases hi⟩
  | c :: t, a => by
    rw [List.foldl_cons]
    obtain ⟨h1, h2, h3⟩ := foldl_left P t (if (P.getD c (0, 0)).1 < (P.getD a (0, 0)).1 then c else a)
    by_cases hca : (P.getD c (0, 0)).1 < (P.getD a (0, 0)).1
    · rw [if_pos hca] at h1 h2 h3 ⊢
      refine ⟨Or.inr ?_, le_trans h2 (le_of_lt hca), ?_⟩
      · rcases h1 with h1 | h1
        · rw [h1]; exact List.mem_cons_self
        · exact List.mem_cons_of_mem _ h1
      · intro i hi
        rcases List.mem_cons.mp hi with rfl | hi
        · exact h2
        · exact h3 i hi
    · rw [if_neg hca] at h1 h2 h3 ⊢
      refine ⟨?_, h2, ?_⟩
      · rcases h1 with h1 | h1
        · exact Or.inl h1
        · exact Or.inr (List.mem_cons_of_mem _ h1)
      · intro i hi
        rcases List.mem_cons.mp hi with rfl | hi
        · exact le_trans h2 (not_lt.mp hca)
        · exact h3 i hi

theorem leftIdx_lt {P : Array Q} (h0 : 0 < P.size) : leftIdx P < P.size := by
  unfold leftIdx
  rcases (foldl_left P (List.range P.size) 0).1 with h | h
  · rw [h]; exact h0
  · exact List.mem_range.mp h

theorem leftIdx_min {P : Array Q} : ∀ i, i < P.size →
    (P.getD (leftIdx P) (0, 0)).1 ≤ (P.getD i (0, 0)).1 := by
  intro i hi
  unfold leftIdx
  exact (foldl_left P (List.range P.size) 0).2.2 i (List.mem_range.mpr hi)

end Cav.GenOutPoly
