/-
  Helper lemmas for `Thm/C11Roots`: the bridge from a strict sign change of a function on two
  RATIONAL points to a zero of a continuous REAL function that extends it (intermediate value
  theorem), and the distance from a point to anything in the hull of two points.
-/
import Cav.Lemmas.AccPoly
import Cav.Thm.C11Brent
import Mathlib.Topology.Order.IntermediateValue

namespace Cav.C11Roots
open Cav Num Cav.BrentL Cav.C01 Cav.C07Accuracy

/-- a continuous real function with values of strictly opposite sign at `u` and `v` has a zero
    strictly between them (intermediate value theorem) -/
theorem exists_zero_strictly_between {F : ℝ → ℝ} (hF : Continuous F) (u v : ℝ)
    (h : F u * F v < 0) : ∃ ξ : ℝ, F ξ = 0 ∧ min u v < ξ ∧ ξ < max u v := by
  have hu : F u ≠ 0 := fun h0 => by rw [h0, zero_mul] at h; exact lt_irrefl _ h
  have hv : F v ≠ 0 := fun h0 => by rw [h0, mul_zero] at h; exact lt_irrefl _ h
  have h0 : (0 : ℝ) ∈ Set.uIcc (F u) (F v) := by
    rw [Set.mem_uIcc]
    rcases lt_or_gt_of_ne hu with h1 | h1
    · left
      exact ⟨le_of_lt h1, le_of_lt (pos_of_mul_neg_right h (le_of_lt h1))⟩
    · right
      exact ⟨le_of_lt (neg_of_mul_neg_right h (le_of_lt h1)), le_of_lt h1⟩
  obtain ⟨ξ, hξ, hξ0⟩ := intermediate_value_uIcc (hF.continuousOn) h0
  rw [Set.mem_uIcc] at hξ
  have hξu : ξ ≠ u := fun e => hu (by rw [← e]; exact hξ0)
  have hξv : ξ ≠ v := fun e => hv (by rw [← e]; exact hξ0)
  refine ⟨ξ, hξ0, ?_, ?_⟩
  · rcases hξ with ⟨h1, h2⟩ | ⟨h1, h2⟩
    · rw [min_eq_left (le_trans h1 h2)]; exact lt_of_le_of_ne h1 (Ne.symm hξu)
    · rw [min_eq_right (le_trans h1 h2)]; exact lt_of_le_of_ne h1 (Ne.symm hξv)
  · rcases hξ with ⟨h1, h2⟩ | ⟨h1, h2⟩
    · rw [max_eq_right (le_trans h1 h2)]; exact lt_of_le_of_ne h2 hξv
    · rw [max_eq_left (le_trans h1 h2)]; exact lt_of_le_of_ne h2 hξu

/-- a point within `B` of `u` and of `v` is within `B` of everything between them -/
theorem abs_sub_lt_of_between {r u v B ξ : ℝ} (hu : |r - u| < B) (hv : |r - v| < B)
    (h1 : min u v ≤ ξ) (h2 : ξ ≤ max u v) : |r - ξ| < B := by
  rw [abs_lt] at hu hv ⊢
  rcases le_total u v with huv | huv
  · rw [min_eq_left huv] at h1; rw [max_eq_right huv] at h2
    constructor <;> linarith [hu.1, hu.2, hv.1, hv.2]
  · rw [min_eq_right huv] at h1; rw [max_eq_left huv] at h2
    constructor <;> linarith [hu.1, hu.2, hv.1, hv.2]

/-- bounds on two points carry over to everything between them -/
theorem between_bounds {lo hi u v ξ : ℝ} (hu : lo ≤ u ∧ u ≤ hi) (hv : lo ≤ v ∧ v ≤ hi)
    (h1 : min u v ≤ ξ) (h2 : ξ ≤ max u v) : lo ≤ ξ ∧ ξ ≤ hi := by
  rcases le_total u v with huv | huv
  · rw [min_eq_left huv] at h1; rw [max_eq_right huv] at h2
    constructor <;> linarith [hu.1, hu.2, hv.1, hv.2]
  · rw [min_eq_right huv] at h1; rw [max_eq_left huv] at h2
    constructor <;> linarith [hu.1, hu.2, hv.1, hv.2]

/-- the cast of a rational hull statement -/
theorem cast_hull {a b u : Rat} (h : min a b ≤ u ∧ u ≤ max a b) :
    ((min a b : Rat) : ℝ) ≤ (u : ℝ) ∧ (u : ℝ) ≤ ((max a b : Rat) : ℝ) :=
  ⟨(Rat.cast_le (K := ℝ)).mpr h.1, (Rat.cast_le (K := ℝ)).mpr h.2⟩

theorem btw_left (u v : Rat) : Btw u v u := by
  rcases le_total u v with g | g
  · exact Or.inl ⟨le_refl _, g⟩
  · exact Or.inr ⟨g, le_refl _⟩

theorem btw_right (u v : Rat) : Btw u v v := by
  rcases le_total u v with g | g
  · exact Or.inl ⟨g, le_refl _⟩
  · exact Or.inr ⟨le_refl _, g⟩

/-- **the real form of the last clause of `C11.brent_ok_within_two_tol`**: in the convergence case
    the returned point is less than `2·tol` away from every REAL point between the final bracket
    ends (it only depends on the distances to the two ends) -/
theorem brent_ok_within_two_tol_real (a b : Rat) (f : Rat → Rat) (tol : Rat) (n : Nat) (r : Rat)
    (h : findRootBrent a b f tol n = .ok r) :
    f r = 0 ∨ ∃ u v : Rat, f u * f v < 0 ∧ |v - u| < tol / 2 ∧
      (min a b ≤ u ∧ u ≤ max a b) ∧ (min a b ≤ v ∧ v ≤ max a b) ∧
      ∀ x : ℝ, min (u : ℝ) v ≤ x → x ≤ max (u : ℝ) v → |(r : ℝ) - x| < 2 * (tol : ℝ) := by
  rcases C11.brent_ok_within_two_tol a b f tol n r h with h0 | ⟨u, v, hs, hw, hu, hv, hd⟩
  · exact Or.inl h0
  · refine Or.inr ⟨u, v, hs, hw, hu, hv, fun x h1 h2 => ?_⟩
    have hru : |(r : ℝ) - u| < 2 * (tol : ℝ) := by
      have := (Rat.cast_lt (K := ℝ)).mpr (hd u (btw_left u v))
      push_cast at this
      exact this
    have hrv : |(r : ℝ) - v| < 2 * (tol : ℝ) := by
      have := (Rat.cast_lt (K := ℝ)).mpr (hd v (btw_right u v))
      push_cast at this
      exact this
    exact abs_sub_lt_of_between hru hrv h1 h2

/-- **(R1), general form.**  `f : Rat → Rat` is the function handed to `find_root_brent`, `F` a
    continuous real function that agrees with `f` on the rationals.  A successful result `r` is an
    exact zero of `f` in the original hull, or there are final bracket ends `u`, `v` (in the
    original hull, `|v − u| < tol/2`) on which `f` has strictly opposite signs, and a REAL zero `ξ`
    of `F` strictly between them with `|r − ξ| < 2·tol`. -/
theorem brent_near_real_root_of_continuous (f : Rat → Rat) (F : ℝ → ℝ) (hF : Continuous F)
    (hFf : ∀ q : Rat, F (q : ℝ) = ((f q : Rat) : ℝ)) (a b tol : Rat) (n : Nat) (r : Rat)
    (h : findRootBrent a b f tol n = .ok r) :
    (f r = 0 ∧ min a b ≤ r ∧ r ≤ max a b) ∨
    ∃ (u v : Rat) (ξ : ℝ), f u * f v < 0 ∧ |v - u| < tol / 2 ∧
      (min a b ≤ u ∧ u ≤ max a b) ∧ (min a b ≤ v ∧ v ≤ max a b) ∧
      F ξ = 0 ∧ min (u : ℝ) v < ξ ∧ ξ < max (u : ℝ) v ∧ |(r : ℝ) - ξ| < 2 * (tol : ℝ) := by
  rcases brent_ok_within_two_tol_real a b f tol n r h with h0 | ⟨u, v, hs, hw, hu, hv, hd⟩
  · exact Or.inl ⟨h0, C11.brent_in_hull a b f tol n r h⟩
  · have hs' : F (u : ℝ) * F (v : ℝ) < 0 := by
      rw [hFf, hFf, ← Rat.cast_mul]
      exact_mod_cast hs
    obtain ⟨ξ, hξ0, h1, h2⟩ := exists_zero_strictly_between hF (u : ℝ) (v : ℝ) hs'
    exact Or.inr ⟨u, v, ξ, hs, hw, hu, hv, hξ0, h1, h2, hd ξ (le_of_lt h1) (le_of_lt h2)⟩

end Cav.C11Roots
