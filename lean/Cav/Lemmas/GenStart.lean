/-
  General sweep invariant, part 16: the Start event from an ARBITRARY state.  The new vertex lies
  between the active edges `P` (below) and `Q` (above); proper Start (in an out-interval) and
  improper Start (inside an in-interval: the back-chain is split).
-/
import Cav.Lemmas.GenActive
import Cav.Lemmas.GenBend

set_option linter.unusedSimpArgs false
set_option linter.unusedVariables false
set_option linter.unusedSectionVars false

namespace Cav.GenStart
open Cav Num Cav.Sweep Cav.SweepRun Cav.TriRun Cav.QuadRun Cav.CvxHeap Cav.CvxEvents Cav.SweepOut
open Cav.GenNodes Cav.GenQuery Cav.GenActive Cav.GenBend Cav.SweepHeap Cav.TriEvents

variable {α : Type} [Num α]

/-- the geometry of a stored edge survives a change of the state that keeps right point, chain
    id and flag of its cell, all old chain cells and all old node points -/
theorem EG.ext {s s' : St α} {k : Nat} {l r : Pt α} (h : EG s k l r)
    (hE : ∀ e, s.edges[k]? = some e → ∃ e', s'.edges[k]? = some e' ∧ e'.rpt = e.rpt ∧
      e'.chain = e.chain ∧ e'.bofIn = e.bofIn)
    (hC : ∀ i, i < s.chains.size → s'.chains[i]? = s.chains[i]?)
    (hN : ∀ i, i < s.nodes.size → ptAt s'.nodes i = ptAt s.nodes i) : EG s' k l r := by
  obtain ⟨e, he, hl, hr⟩ := h
  obtain ⟨e', he', h1, h2, h3⟩ := hE e he
  refine ⟨e', he', ?_, by rw [h1]; exact hr⟩
  rw [lpt_eq] at hl ⊢
  rw [h2, h3]
  cases hc : s.chains[e.chain]? with
  | none => rw [hc] at hl; cases hl
  | some c =>
    rw [hc] at hl
    rw [hC _ (lt_of_get' hc), hc]
    simp only [Option.bind_some] at hl ⊢
    rw [hN _ (ptAt_some_lt hl)]
    exact hl

theorem getLast_of_pos {β : Type} (P Q : List β) :
    (if (P.length == 0) = true then none else (P ++ Q)[P.length - 1]?) = P.getLast? := by
  rcases List.eq_nil_or_concat P with rfl | ⟨P', b, rfl⟩
  · rfl
  · simp [List.concat_eq_append]

theorem head_of_append {β : Type} (P Q : List β) : (P ++ Q)[P.length]? = Q.head? := by
  cases Q with
  | nil => simp
  | cons q Q' => simp


/-- the edge array after the two new edges have been created and linked to each other -/
abbrev startEdges (E : Array (Edge α)) (pB pT : Pt α) (C : Nat) : Array (Edge α) :=
  (((E.push ⟨pB, C, false, none, none⟩).push ⟨pT, C, false, none, none⟩).setIfInBounds E.size
    ⟨pB, C, false, none, some (E.size + 1)⟩).setIfInBounds (E.size + 1)
    ⟨pT, C, false, some E.size, none⟩

theorem startEdges_size (E : Array (Edge α)) (pB pT : Pt α) (C : Nat) :
    (startEdges E pB pT C).size = E.size + 2 := by simp [startEdges]

theorem startEdges_bot (E : Array (Edge α)) (pB pT : Pt α) (C : Nat) :
    (startEdges E pB pT C)[E.size]? = some ⟨pB, C, false, none, some (E.size + 1)⟩ := by
  unfold startEdges
  rw [Array.getElem?_setIfInBounds_ne (by omega),
    Array.getElem?_setIfInBounds_self_of_lt (by simp; omega)]

theorem startEdges_top (E : Array (Edge α)) (pB pT : Pt α) (C : Nat) :
    (startEdges E pB pT C)[E.size + 1]? = some ⟨pT, C, false, some E.size, none⟩ := by
  unfold startEdges
  rw [Array.getElem?_setIfInBounds_self_of_lt (by simp)]

theorem startEdges_old (E : Array (Edge α)) (pB pT : Pt α) (C : Nat) {k : Nat} (hk : k < E.size) :
    (startEdges E pB pT C)[k]? = E[k]? := by
  unfold startEdges
  rw [Array.getElem?_setIfInBounds_ne (by omega), Array.getElem?_setIfInBounds_ne (by omega),
    Array.getElem?_push_lt (by simp; omega), Array.getElem_push_lt hk,
    ← Array.getElem?_eq_getElem hk]

theorem push2_get0 (E : Array (Edge α)) (a b : Edge α) : ((E.push a).push b)[E.size]? = some a := by
  rw [Array.getElem?_push_lt (by simp), Array.getElem_push_eq]

theorem push2_get1 (E : Array (Edge α)) (a b a' : Edge α) :
    (((E.push a).push b).setIfInBounds E.size a')[E.size + 1]? = some b := by
  rw [Array.getElem?_setIfInBounds_ne (by omega)]
  have : E.size + 1 = (E.push a).size := by simp
  rw [this, Array.getElem?_push_size]

theorem run_getEdge_some {s : St α} {i : Nat} {e : Edge α} (h : s.edges[i]? = some e) :
    (getEdge i : SM α _).run s = .ok (e, s) := by
  rw [run_getEdge, h]

/-! ### the edge array while the new edges are linked to both partners -/

section arrays
variable (E : Array (Edge α)) (pB pT : Pt α) (C bb tt : Nat) (cbb ctt : Edge α)

abbrev linkEb : Array (Edge α) :=
  (startEdges E pB pT C).setIfInBounds E.size ⟨pB, C, !cbb.bofIn, some bb, some (E.size + 1)⟩
abbrev linkEc : Array (Edge α) :=
  (linkEb E pB pT C bb cbb).setIfInBounds bb { cbb with tPart := some E.size }
abbrev linkEd : Array (Edge α) :=
  (linkEc E pB pT C bb cbb).setIfInBounds (E.size + 1) ⟨pT, C, !ctt.bofIn, some E.size, some tt⟩
abbrev linkEe : Array (Edge α) :=
  (linkEd E pB pT C bb tt cbb ctt).setIfInBounds tt { ctt with bPart := some (E.size + 1) }

variable (hb : bb < E.size) (ht : tt < E.size) (hbt : bb ≠ tt) (hcb : E[bb]? = some cbb)
  (hct : E[tt]? = some ctt)

theorem linkEb_size : (linkEb E pB pT C bb cbb).size = E.size + 2 := by simp [linkEb, startEdges_size]
theorem linkEc_size : (linkEc E pB pT C bb cbb).size = E.size + 2 := by simp [linkEc, linkEb_size]
theorem linkEd_size : (linkEd E pB pT C bb tt cbb ctt).size = E.size + 2 := by simp [linkEd, linkEc_size]
theorem linkEe_size : (linkEe E pB pT C bb tt cbb ctt).size = E.size + 2 := by simp [linkEe, linkEd_size]

include hb hcb in
theorem linkEb_bb : (linkEb E pB pT C bb cbb)[bb]? = some cbb := by
  unfold linkEb
  rw [Array.getElem?_setIfInBounds_ne (by omega), startEdges_old _ _ _ _ hb]; exact hcb

include hb in
theorem linkEc_D : (linkEc E pB pT C bb cbb)[E.size]? =
    some ⟨pB, C, !cbb.bofIn, some bb, some (E.size + 1)⟩ := by
  unfold linkEc linkEb
  rw [Array.getElem?_setIfInBounds_ne (by omega),
    Array.getElem?_setIfInBounds_self_of_lt (by rw [startEdges_size]; omega)]

include hb in
theorem linkEc_bb : (linkEc E pB pT C bb cbb)[bb]? = some { cbb with tPart := some E.size } := by
  unfold linkEc
  rw [Array.getElem?_setIfInBounds_self_of_lt (by rw [linkEb_size]; omega)]

include hb in
theorem linkEc_D1 : (linkEc E pB pT C bb cbb)[E.size + 1]? = some ⟨pT, C, false, some E.size, none⟩ := by
  unfold linkEc linkEb
  rw [Array.getElem?_setIfInBounds_ne (by omega), Array.getElem?_setIfInBounds_ne (by omega)]
  exact startEdges_top E pB pT C

include hb ht hbt hct in
theorem linkEc_tt : (linkEc E pB pT C bb cbb)[tt]? = some ctt := by
  unfold linkEc linkEb
  rw [Array.getElem?_setIfInBounds_ne hbt, Array.getElem?_setIfInBounds_ne (by omega),
    startEdges_old _ _ _ _ ht]
  exact hct

include hb ht hbt hct in
theorem linkEd_tt : (linkEd E pB pT C bb tt cbb ctt)[tt]? = some ctt := by
  unfold linkEd
  rw [Array.getElem?_setIfInBounds_ne (by omega)]
  exact linkEc_tt E pB pT C bb tt cbb ctt hb ht hbt hct

include ht in
theorem linkEe_D1 : (linkEe E pB pT C bb tt cbb ctt)[E.size + 1]? =
    some ⟨pT, C, !ctt.bofIn, some E.size, some tt⟩ := by
  unfold linkEe linkEd
  rw [Array.getElem?_setIfInBounds_ne (by omega),
    Array.getElem?_setIfInBounds_self_of_lt (by rw [linkEc_size]; omega)]

include ht in
theorem linkEe_tt : (linkEe E pB pT C bb tt cbb ctt)[tt]? =
    some { ctt with bPart := some (E.size + 1) } := by
  unfold linkEe
  rw [Array.getElem?_setIfInBounds_self_of_lt (by rw [linkEd_size]; omega)]

include hb ht hbt in
theorem linkEe_bb : (linkEe E pB pT C bb tt cbb ctt)[bb]? = some { cbb with tPart := some E.size } := by
  unfold linkEe linkEd
  rw [Array.getElem?_setIfInBounds_ne (Ne.symm hbt), Array.getElem?_setIfInBounds_ne (by omega)]
  exact linkEc_bb E pB pT C bb cbb hb

include hb ht in
theorem linkEe_D : (linkEe E pB pT C bb tt cbb ctt)[E.size]? =
    some ⟨pB, C, !cbb.bofIn, some bb, some (E.size + 1)⟩ := by
  unfold linkEe linkEd
  rw [Array.getElem?_setIfInBounds_ne (by omega), Array.getElem?_setIfInBounds_ne (by omega)]
  exact linkEc_D E pB pT C bb cbb hb

theorem linkEe_old {k : Nat} (hk : k < E.size) (h1 : k ≠ bb) (h2 : k ≠ tt) :
    (linkEe E pB pT C bb tt cbb ctt)[k]? = E[k]? := by
  unfold linkEe linkEd linkEc linkEb
  rw [Array.getElem?_setIfInBounds_ne (Ne.symm h2), Array.getElem?_setIfInBounds_ne (by omega),
    Array.getElem?_setIfInBounds_ne (Ne.symm h1), Array.getElem?_setIfInBounds_ne (by omega),
    startEdges_old _ _ _ _ hk]

include hb ht hbt hcb hct in
/-- the final edge array keeps right point, chain id and flag of every old cell -/
theorem linkEe_keeps (k : Nat) (e : Edge α) (he : E[k]? = some e) :
    ∃ e' : Edge α, (linkEe E pB pT C bb tt cbb ctt)[k]? = some e' ∧ e'.rpt = e.rpt ∧
      e'.chain = e.chain ∧ e'.bofIn = e.bofIn := by
  have hk := lt_of_get' he
  by_cases h1 : k = bb
  · rw [h1] at he ⊢
    rw [hcb] at he; cases he
    exact ⟨_, linkEe_bb E pB pT C bb tt cbb ctt hb ht hbt, rfl, rfl, rfl⟩
  · by_cases h2 : k = tt
    · rw [h2] at he ⊢
      rw [hct] at he; cases he
      exact ⟨_, linkEe_tt E pB pT C bb tt cbb ctt ht, rfl, rfl, rfl⟩
    · exact ⟨e, by rw [linkEe_old E pB pT C bb tt cbb ctt hk h1 h2]; exact he, rfl, rfl, rfl⟩

end arrays

/-! ### edge arrays that keep the geometry of the old cells -/

/-- `E` keeps right point, chain id and flag of every cell of `E0` -/
def Keeps (E0 E : Array (Edge α)) : Prop :=
  ∀ (k : Nat) (e : Edge α), E0[k]? = some e → ∃ e' : Edge α, E[k]? = some e' ∧ e'.rpt = e.rpt ∧
    e'.chain = e.chain ∧ e'.bofIn = e.bofIn

theorem Keeps.start (E0 : Array (Edge α)) (pB pT : Pt α) (C : Nat) :
    Keeps E0 (startEdges E0 pB pT C) := by
  intro k e he
  exact ⟨e, by rw [startEdges_old _ _ _ _ (lt_of_get' he)]; exact he, rfl, rfl, rfl⟩

theorem Keeps.set_new {E0 E : Array (Edge α)} (h : Keeps E0 E) {i : Nat} (hi : E0.size ≤ i)
    (v : Edge α) : Keeps E0 (E.setIfInBounds i v) := by
  intro k e he
  have hk := lt_of_get' he
  obtain ⟨e', h1, h2⟩ := h k e he
  exact ⟨e', by rw [Array.getElem?_setIfInBounds_ne (by omega)]; exact h1, h2⟩

theorem Keeps.set_old {E0 E : Array (Edge α)} (h : Keeps E0 E) {i : Nat} {c v : Edge α}
    (hc : E0[i]? = some c) (h1 : v.rpt = c.rpt) (h2 : v.chain = c.chain) (h3 : v.bofIn = c.bofIn) :
    Keeps E0 (E.setIfInBounds i v) := by
  intro k e he
  by_cases hki : i = k
  · subst hki
    rw [hc] at he; cases he
    obtain ⟨e', h4, -⟩ := h i c hc
    exact ⟨v, Array.getElem?_setIfInBounds_self_of_lt (lt_of_get' h4), h1, h2, h3⟩
  · obtain ⟨e', h4, h5⟩ := h k e he
    exact ⟨e', by rw [Array.getElem?_setIfInBounds_ne hki]; exact h4, h5⟩

/-- look-up in an array after an update at another index / at the same index -/
macro "lk_ne" : tactic => `(tactic| rw [Array.getElem?_setIfInBounds_ne (by omega)])
macro "lk_self" : tactic =>
  `(tactic| rw [Array.getElem?_setIfInBounds_self_of_lt (by simp [startEdges] <;> omega)])

/-- a `getEdge` step: the state is taken from the goal, then the look-up is proved by `t` -/
macro "sm_get" t:tacticSeq : tactic =>
  `(tactic| (sm_whnf; sm_is_bind;
             refine Runs.bind (b := _) (s1 := _) (run_getEdge_some (e := ?_) ?hlk) ?k;
             (case hlk => $t); sm_whnf))

/-- a step whose run equation is given with holes `?h…` for its hypotheses: the state is taken from
    the goal first, the hypotheses become goals -/
macro "sm_use" t:term : tactic =>
  `(tactic| (sm_whnf; sm_is_bind; refine Runs.bind (b := _) (s1 := _) $t ?k))

/-- the state in which the nesting partners of a Start vertex are searched (`act`: the active
    list) -/
def startSt (s : St α) (rest : List (Nat × List Nat)) (p pB pT : Pt α) (lpB lpT : Nat)
    (act : List Nat) : St α :=
  { s with x := p.x, nodes := s.nodes.push ⟨p, none, none⟩, active := act,
           chains := s.chains.push ⟨s.nodes.size, s.nodes.size, s.nodes.size⟩,
           edges := startEdges s.edges pB pT s.chains.size,
           events := evAdd s.verts pT lpT (s.edges.size + 1) (evAdd s.verts pB lpB s.edges.size rest) }

section
variable (s : St α) (vi lp1 lp2 lpB lpT a1 a2 a3 a4 : Nat) (es : List Nat)
  (rest : List (Nat × List Nat)) (p pB pT : Pt α) (act : List Nat)

/-- the geometry of the old edges in the states `s'` of the Start event: one new node, one new
    chain; the edge array keeps right point, chain id and flag of every old cell -/
theorem start_eg (s' : St α) (n : Node α) (c : Chain) (hn : s'.nodes = s.nodes.push n)
    (hc : s'.chains = s.chains.push c)
    (hE : ∀ (k : Nat) (e : Edge α), s.edges[k]? = some e → ∃ e' : Edge α, s'.edges[k]? = some e' ∧
      e'.rpt = e.rpt ∧ e'.chain = e.chain ∧ e'.bofIn = e.bofIn)
    {k : Nat} {l r : Pt α} (h : EG s k l r) : EG s' k l r := by
  refine EG.ext h (hE k) ?_ ?_
  · intro i hi
    rw [hc, Array.getElem?_push_lt hi, ← Array.getElem?_eq_getElem hi]
  · intro i hi
    rw [hn]
    exact ptAt_push_lt _ _ hi

theorem start_prefix_eg {k : Nat} {l r : Pt α} (h : EG s k l r) :
    EG (startSt s rest p pB pT lpB lpT act) k l r := by
  refine start_eg s (startSt s rest p pB pT lpB lpT act) _ _ rfl rfl ?_ h
  intro k e he
  exact ⟨e, by show (startEdges _ _ _ _)[k]? = _; rw [startEdges_old _ _ _ _ (lt_of_get' he)]; exact he,
    rfl, rfl, rfl⟩

/-- the left point of a cell that uses the new chain -/
theorem start_lpt_new (s' : St α) (hn : s'.nodes = s.nodes.push ⟨p, none, none⟩)
    (hc : s'.chains = s.chains.push ⟨s.nodes.size, s.nodes.size, s.nodes.size⟩)
    (e : Edge α) (he : e.chain = s.chains.size) : lpt? s' e = some p := by
  rw [lpt_eq, he, hc, hn, Array.getElem?_push_size]
  simp only [Option.bind_some, ite_self]
  exact ptAt_push_size _ _

/-- the left point of an old cell -/
theorem start_lpt_old (s' : St α) (n : Node α) (c : Chain) (hn : s'.nodes = s.nodes.push n)
    (hc : s'.chains = s.chains.push c) (e : Edge α) (l : Pt α) (h : lpt? s e = some l) :
    lpt? s' e = some l := by
  rw [lpt_eq] at h ⊢
  cases hce : s.chains[e.chain]? with
  | none => rw [hce] at h; cases h
  | some c' =>
    rw [hce] at h
    have hlt := lt_of_get' hce
    rw [hc, hn, Array.getElem?_push_lt hlt, ← Array.getElem?_eq_getElem hlt, hce]
    simp only [Option.bind_some] at h ⊢
    rw [ptAt_push_lt _ _ (ptAt_some_lt h)]
    exact h

variable (P Q : List Nat) (L Rr : Nat → Pt α)

/-- the state after a Start event with edge array `E'` and active list `act'` -/
def startRes (E' : Array (Edge α)) (act' : List Nat) : St α :=
  { startSt s rest p pB pT lpB lpT act' with edges := E' }

set_option hygiene false in
/-- the Start event after the two new edge values have been ordered (both partners exist,
    proper Start) -/
macro "start_ss_link" : tactic => `(tactic| (
   sm_steps [hc1, hB, hT, hxB, hxT, verticalIsCrossed]
   sm_by (run_getEdge_some (push2_get0 _ _ _))
   sm_bind
   sm_by (run_getEdge_some (push2_get1 _ _ _ _))
   sm_bind
   sm_use (run_eventsAdd lpB s.edges.size _ ⟨pB, a1, a2⟩ ?h1 ?h2)
   case h1 => exact hB
   case h2 => exact hevs
   sm_whnf
   sm_use (run_eventsAdd lpT (s.edges.size + 1) _ ⟨pT, a3, a4⟩ ?h1 ?h2)
   case h1 => exact hT
   case h2 => exact hevs1
   sm_whnf
   sm_bind
   sm_get
     exact startEdges_bot s.edges pB pT s.chains.size
   sm_by (run_search_between _ p (startSt s rest p pB pT lpB lpT (P ++ Q))
     (start_lpt_new s p _ rfl rfl _ rfl) hmS P Q hS1PB hS1QB)
   sm_get
     exact startEdges_top s.edges pB pT s.chains.size
   sm_by (run_search_between _ p (startSt s rest p pB pT lpB lpT (P ++ Q))
     (start_lpt_new s p _ rfl rfl _ rfl) hmS P Q hS1PT hS1QT)
   simp (config := { zeta := false }) only [Bool.false_eq_true, if_false, hbbE, httE]
   sm_whnf
   sm_get
     exact fa_bb
   sm_by (run_search_found' cbb (L bb) (startSt s rest p pB pT lpB lpT (P ++ Q))
     (start_lpt_old s _ _ _ rfl rfl _ _ hbbl) hmS (P ++ Q) P' Q bb hPQ1
     (fun k hk => ⟨_, _, hS1 k (by rw [hP]; simp [hk]), by rw [hbbr]; exact hbbP k hk⟩)
     ⟨_, _, hS1 bb hbbm, by rw [hbbr]; exact hbbS⟩
     (fun k hk => ⟨_, _, hS1 k (List.mem_append_right _ hk), by rw [hbbr]; exact hbbQ k hk⟩))
   sm_bind
   sm_get
     exact fa_tt
   sm_by (run_search_found' ctt (L tt) (startSt s rest p pB pT lpB lpT (P ++ Q))
     (start_lpt_old s _ _ _ rfl rfl _ _ httl) hmS (P ++ Q) P Q' tt hPQ2
     (fun k hk => ⟨_, _, hS1 k (List.mem_append_left _ hk), by rw [httr]; exact httP k hk⟩)
     ⟨_, _, hS1 tt httm, by rw [httr]; exact httS⟩
     (fun k hk => ⟨_, _, hS1 k (by rw [hQ]; simp [hk]), by rw [httr]; exact httQ k hk⟩))
   sm_bind
   sm_cond [ebt]
   sm_get
     exact fa_bb
   sm_get
     exact fa_tt
   sm_by (run_partialCmpEdge' cbb ctt (startSt s rest p pB pT lpB lpT (P ++ Q)) (L bb) (L tt)
     (start_lpt_old s _ _ _ rfl rfl _ _ hbbl) (start_lpt_old s _ _ _ rfl rfl _ _ httl))
   have hx1 : (startSt s rest p pB pT lpB lpT (P ++ Q)).x = p.x := rfl
   sm_cond [hpc', hlen, hx1]
   unfold startSt
   -- linking
   sm_get
     exact startEdges_bot s.edges pB pT s.chains.size
   sm_get
     exact fa_bb
   sm_bind
   sm_get
     dsimp only
     lk_ne; exact fa_bb
   sm_bind
   sm_use (run_wob_some _ s.edges.size bb false ⟨pB, s.chains.size, !cbb.bofIn, some bb, some (s.edges.size + 1)⟩
     { cbb with tPart := some s.edges.size } p (L bb) ?h1 ?h2 ?h3 ?h4 ?h5 ?h6)
   case h1 => dsimp only; lk_ne; lk_self
   case h2 => rfl
   case h3 => omega
   case h4 => dsimp only; lk_self
   case h5 => exact start_lpt_new s p _ rfl rfl _ rfl
   case h6 => exact start_lpt_old s _ _ _ rfl rfl _ _ hbbl
   sm_whnf
   sm_cond [hwob']
   -- the top edge
   sm_get
     dsimp only
     lk_ne; lk_ne; exact startEdges_top s.edges pB pT s.chains.size
   sm_get
     dsimp only
     lk_ne; lk_ne; exact fa_tt
   sm_bind
   sm_get
     dsimp only
     lk_ne; lk_ne; lk_ne; exact fa_tt
   sm_bind
   sm_use (run_wot_some _ (s.edges.size + 1) tt false ⟨pT, s.chains.size, !ctt.bofIn, some s.edges.size, some tt⟩
     { ctt with bPart := some (s.edges.size + 1) } p (L tt) ?h1 ?h2 ?h3 ?h4 ?h5 ?h6)
   case h1 => dsimp only; lk_ne; lk_self
   case h2 => rfl
   case h3 => omega
   case h4 => dsimp only; lk_self
   case h5 => exact start_lpt_new s p _ rfl rfl _ rfl
   case h6 => exact start_lpt_old s _ _ _ rfl rfl _ _ httl
   sm_whnf
   sm_cond [hwot']
   sm_cond [hbt]
   sm_get
     dsimp only
     lk_ne; lk_ne; lk_self))

set_option hygiene false in
/-- proper Start: no split; the two new edges become active -/
macro "start_ss_fin" : tactic => `(tactic| (
   sm_whnf
   rw [if_neg hnb]
   sm_whnf
   have hkeep := linkEe_keeps s.edges pB pT s.chains.size bb tt cbb ctt hbblt httlt hbt hbbc httc
   sm_use (run_activeInsert _ s.edges.size ⟨pB, s.chains.size, !cbb.bofIn, some bb, some (s.edges.size + 1)⟩
     p ?h1 ?h2 ?h3 P Q ?h4 ?h5 ?h6)
   case h1 => dsimp only; lk_ne; lk_ne; lk_ne; lk_self
   case h2 => exact start_lpt_new s p _ rfl rfl _ rfl
   case h3 => exact hm
   case h4 => rfl
   case h5 =>
     intro k hk
     exact ⟨_, _, start_eg s _ _ _ rfl rfl (fun k e he => by dsimp only; exact hkeep k e he)
       (hG k (List.mem_append_left _ hk)), hPB k hk⟩
   case h6 =>
     intro k hk
     exact ⟨_, _, start_eg s _ _ _ rfl rfl (fun k e he => by dsimp only; exact hkeep k e he)
       (hG k (List.mem_append_right _ hk)), hQB k hk⟩
   dsimp only
   refine Runs.final ?_
   refine (run_activeInsert _ (s.edges.size + 1)
     ⟨pT, s.chains.size, !ctt.bofIn, some s.edges.size, some tt⟩ p ?h1 ?h2 ?h3 (P ++ [s.edges.size]) Q
     ?h4 ?h5 ?h6).trans ?fin
   case h1 => dsimp only; lk_ne; lk_self
   case h2 => exact start_lpt_new s p _ rfl rfl _ rfl
   case h3 => exact hm
   case h4 => simp
   case h5 =>
     intro k hk
     rcases List.mem_append.mp hk with hk | hk
     · exact ⟨_, _, start_eg s _ _ _ rfl rfl (fun k e he => by dsimp only; exact hkeep k e he)
         (hG k (List.mem_append_left _ hk)), hPT k hk⟩
     · simp only [List.mem_singleton] at hk
       subst hk
       refine ⟨p, pB, ⟨⟨pB, s.chains.size, !cbb.bofIn, some bb, some (s.edges.size + 1)⟩, ?_,
         start_lpt_new s p _ rfl rfl _ rfl, rfl⟩, hc2⟩
       dsimp only; lk_ne; lk_ne; lk_ne; lk_self
   case h6 =>
     intro k hk
     exact ⟨_, _, start_eg s _ _ _ rfl rfl (fun k e he => by dsimp only; exact hkeep k e he)
       (hG k (List.mem_append_right _ hk)), hQT k hk⟩
   case fin =>
     unfold startRes startSt
     simp only [List.append_assoc, List.cons_append, List.nil_append]))

set_option hygiene false in
macro "start_ss_tail" : tactic => `(tactic| (start_ss_link; start_ss_fin))

set_option maxHeartbeats 1000000 in
/-- proper Start between the edges `bb` (below) and `tt` (above) -/
theorem start_run_ss (P' Q' : List Nat) (bb tt : Nat) (cbb ctt : Edge α)
    (hev : s.events = (vi, es) :: rest)
    (hv : s.verts[vi]? = some ⟨p, lp1, lp2⟩) (hn : Nbrs lp1 lp2 lpB lpT)
    (hB : s.verts[lpB]? = some ⟨pB, a1, a2⟩) (hT : s.verts[lpT]? = some ⟨pT, a3, a4⟩)
    (hs1 : fromTriplet p pB pT = some .start) (hs2 : fromTriplet p pT pB = some .start)
    (hxB : ofEq pB.x p.x = false) (hxT : ofEq pT.x p.x = false)
    (hc1 : cmpEdgeP p pB p pT p.x = .lt) (hc2 : cmpEdgeP p pT p pB p.x = .gt)
    (hevs : ∀ a ∈ rest, a.1 < s.verts.size)
    (hm : s.mono = true) (hP : P = P' ++ [bb]) (hQ : Q = tt :: Q') (hact : s.active = P ++ Q)
    (hG : ∀ k ∈ P ++ Q, EG s k (L k) (Rr k))
    (hPB : ∀ k ∈ P, cmpEdgeP p pB (L k) (Rr k) p.x = .gt)
    (hQB : ∀ k ∈ Q, cmpEdgeP p pB (L k) (Rr k) p.x = .lt)
    (hPT : ∀ k ∈ P, cmpEdgeP p pT (L k) (Rr k) p.x = .gt)
    (hQT : ∀ k ∈ Q, cmpEdgeP p pT (L k) (Rr k) p.x = .lt)
    (hbbc : s.edges[bb]? = some cbb) (httc : s.edges[tt]? = some ctt)
    (hbbf : cbb.bofIn = false) (hbt : bb ≠ tt)
    (hbbP : ∀ k ∈ P', cmpEdgeP (L bb) (Rr bb) (L k) (Rr k) p.x = .gt)
    (hbbS : cmpEdgeP (L bb) (Rr bb) (L bb) (Rr bb) p.x = .eq)
    (hbbQ : ∀ k ∈ Q, cmpEdgeP (L bb) (Rr bb) (L k) (Rr k) p.x = .lt)
    (httP : ∀ k ∈ P, cmpEdgeP (L tt) (Rr tt) (L k) (Rr k) p.x = .gt)
    (httS : cmpEdgeP (L tt) (Rr tt) (L tt) (Rr tt) p.x = .eq)
    (httQ : ∀ k ∈ Q', cmpEdgeP (L tt) (Rr tt) (L k) (Rr k) p.x = .lt)
    (hpc : partialCmpEdgeP (L bb) (Rr bb) (L tt) (Rr tt) p.x = some .lt)
    (hwob : wobP p pB (L bb) (Rr bb) = false) (hwot : wotP p pT (L tt) (Rr tt) = false) :
    (handleNext : SM α Unit).run s = .ok ((),
      startRes s lpB lpT rest p pB pT (linkEe s.edges pB pT s.chains.size bb tt cbb ctt)
        (P ++ s.edges.size :: (s.edges.size + 1) :: Q)) := by
  rw [handleNext_run_cons hev]
  unfold nextBody
  show Runs s _ _
  have hnb : ¬ (cbb.bofIn = true) := by rw [hbbf]; simp
  -- facts
  have hbblt : bb < s.edges.size := lt_of_get' hbbc
  have httlt : tt < s.edges.size := lt_of_get' httc
  have hbbm : bb ∈ P ++ Q := by rw [hP]; simp
  have httm : tt ∈ P ++ Q := by rw [hQ]; simp
  obtain ⟨hbbl, hbbr⟩ : lpt? s cbb = some (L bb) ∧ cbb.rpt = Rr bb := by
    obtain ⟨e, he, h3, h4⟩ := hG bb hbbm
    rw [hbbc] at he; cases he; exact ⟨h3, h4⟩
  obtain ⟨httl, httr⟩ : lpt? s ctt = some (L tt) ∧ ctt.rpt = Rr tt := by
    obtain ⟨e, he, h3, h4⟩ := hG tt httm
    rw [httc] at he; cases he; exact ⟨h3, h4⟩
  have fa_bb : (startEdges s.edges pB pT s.chains.size)[bb]? = some cbb := by
    rw [startEdges_old _ _ _ _ hbblt]; exact hbbc
  have fa_tt : (startEdges s.edges pB pT s.chains.size)[tt]? = some ctt := by
    rw [startEdges_old _ _ _ _ httlt]; exact httc
  have hS1 : ∀ k ∈ P ++ Q, EG (startSt s rest p pB pT lpB lpT (P ++ Q)) k (L k) (Rr k) :=
    fun k hk => start_prefix_eg s lpB lpT rest p pB pT (P ++ Q) (hG k hk)
  have hS1PB : ∀ k ∈ P, ∃ l r, EG (startSt s rest p pB pT lpB lpT (P ++ Q)) k l r ∧
      cmpEdgeP p pB l r p.x = .gt := fun k hk => ⟨_, _, hS1 k (List.mem_append_left _ hk), hPB k hk⟩
  have hS1QB : ∀ k ∈ Q, ∃ l r, EG (startSt s rest p pB pT lpB lpT (P ++ Q)) k l r ∧
      cmpEdgeP p pB l r p.x = .lt := fun k hk => ⟨_, _, hS1 k (List.mem_append_right _ hk), hQB k hk⟩
  have hS1PT : ∀ k ∈ P, ∃ l r, EG (startSt s rest p pB pT lpB lpT (P ++ Q)) k l r ∧
      cmpEdgeP p pT l r p.x = .gt := fun k hk => ⟨_, _, hS1 k (List.mem_append_left _ hk), hPT k hk⟩
  have hS1QT : ∀ k ∈ Q, ∃ l r, EG (startSt s rest p pB pT lpB lpT (P ++ Q)) k l r ∧
      cmpEdgeP p pT l r p.x = .lt := fun k hk => ⟨_, _, hS1 k (List.mem_append_right _ hk), hQT k hk⟩
  have hmS : (startSt s rest p pB pT lpB lpT (P ++ Q)).mono = true := hm
  have hevs1 : ∀ a ∈ evAdd s.verts pB lpB s.edges.size rest, a.1 < s.verts.size := by
    intro a ha
    rcases evAdd_keys _ _ _ _ _ a ha with h | ⟨b, hb, h⟩
    · rw [h]; exact lt_of_get' hB
    · rw [← h]; exact hevs b hb
  have hbbE : (if (P.length == 0) = true then none else (P ++ Q)[P.length - 1]?) = some bb := by
    rw [getLast_of_pos, hP]; simp
  have httE : (P ++ Q)[P.length]? = some tt := by
    rw [head_of_append, hQ]; rfl
  have hPQ1 : P ++ Q = P' ++ bb :: Q := by rw [hP]; simp
  have hPQ2 : P ++ Q = P ++ tt :: Q' := by rw [hQ]
  have ebt : (bb == tt) = false := by simpa using hbt
  have hlen : P.length = P'.length + 1 := by rw [hP]; simp
  have hpc' : partialCmpEdgeP (L bb) cbb.rpt (L tt) ctt.rpt p.x = some .lt := by
    rw [hbbr, httr]; exact hpc
  have hwob' : wobP p pB (L bb) cbb.rpt = false := by rw [hbbr]; exact hwob
  have hwot' : wotP p pT (L tt) ctt.rpt = false := by rw [httr]; exact hwot
  have hv' : s.verts[vi]? = some ⟨p, lpB, lpT⟩ ∨ s.verts[vi]? = some ⟨p, lpT, lpB⟩ := by
    rcases hn with ⟨h1, h2⟩ | ⟨h1, h2⟩
    · left; rw [← h1, ← h2]; exact hv
    · right; rw [← h1, ← h2]; exact hv
  clear hv hn
  rcases hv' with hv | hv
  · sm_steps [hv, hB, hT, hs1, hs2]
    unfold handleStart
    sm_steps [hv, hB, hT]
    simp (config := { zeta := false }) only [hact]
    sm_use (run_cmpEdge' _ _ _ p p ?h1 ?h2)
    case h1 => exact start_lpt_new s p _ rfl rfl _ rfl
    case h2 => exact start_lpt_new s p _ rfl rfl _ rfl
    sm_whnf
    simp (config := { zeta := false }) only [hc1, beq_self_eq_true, if_true]
    start_ss_tail
  · sm_steps [hv, hB, hT, hs1, hs2]
    unfold handleStart
    sm_steps [hv, hB, hT]
    simp (config := { zeta := false }) only [hact]
    sm_use (run_cmpEdge' _ _ _ p p ?h1 ?h2)
    case h1 => exact start_lpt_new s p _ rfl rfl _ rfl
    case h2 => exact start_lpt_new s p _ rfl rfl _ rfl
    sm_whnf
    have e1 : (Ordering.gt == Ordering.eq) = false := rfl
    have e2 : (Ordering.gt == Ordering.lt) = false := rfl
    simp (config := { zeta := false }) only [hc2, e1, e2, Bool.false_eq_true, if_false]
    start_ss_tail

end

end Cav.GenStart
