/-
  Failure side with equal abscissae, part 1: the hypotheses.  `NoTouchV`: no vertex lies on a ring
  edge strictly between its end points in the lexicographic order (closed segment minus the end
  points; vertical edges included).  `ShX`: what the rejection proof knows about the ring `R` and
  its shear — `ShOK` of `GenVShear.lean` WITHOUT the global validity facts (`nocross`, `apart`),
  with `NoTouchV` instead.  The bridging lemmas of `GenVBridge*.lean` / `GenVInv*.lean` that use
  only the lexicographic key of the shear are restated for `ShX` (suffix `X`).
-/
import Cav.Lemmas.GenVInvW
import Cav.Lemmas.GenXFlat

set_option linter.unusedSimpArgs false
set_option linter.unusedVariables false

namespace Cav.GenXV
open Cav Num Cav.Geo Cav.Sweep Cav.TriRun Cav.QuadRun Cav.TriGeom Cav.QuadGeom Cav.CvxFlows
open Cav.GenQuery Cav.GenGeom Cav.GenInv Cav.GenQueue Cav.GenOrder Cav.GenStepBend Cav.GenStepEnd
open Cav.GenValid Cav.GenVShear Cav.GenVBridge Cav.QuadVGeom Cav.GenXGeom

/-- no vertex lies on a ring edge strictly between its end points (lexicographic order) -/
def NoTouchV (R : RingQ) : Prop :=
  ∀ i, i < R.n → ∀ z, z < R.n →
    ((lexLt (R.pt i) (R.pt z) ∧ lexLt (R.pt z) (R.pt (R.nxt i))) ∨
      (lexLt (R.pt (R.nxt i)) (R.pt z) ∧ lexLt (R.pt z) (R.pt i))) →
    orient (R.pt i) (R.pt (R.nxt i)) (R.pt z) ≠ 0

instance (R : RingQ) : Decidable (NoTouchV R) := by unfold NoTouchV; exact inferInstance

/-- the ring `R` and its shear, without validity -/
structure ShX (R : RingQ) (ε : Rat) (Vε : Array (Vtx XQ)) : Prop where
  pos : 0 < ε
  ring : RingOK (shearRing ε R) Vε
  key : ∀ i j, i < R.n → j < R.n →
    ((shearRing ε R).x i < (shearRing ε R).x j ↔ lexLt (R.pt i) (R.pt j))
  nospike : NoSpikeV R
  notouch : NoTouchV R

variable {R : RingQ} {ε : Rat} {Vε : Array (Vtx XQ)}

theorem ShX.noSpike (h : ShX R ε Vε) : NoSpike (shearRing ε R) :=
  noSpike_shear h.key h.ring.nxt_lt h.ring.prv_lt h.nospike

theorem ShX.noTouch (h : ShX R ε Vε) : NoTouch (shearRing ε R) := by
  intro i hi z hz hc
  show orient (shear ε _) (shear ε _) (shear ε _) ≠ 0
  rw [orient_shear]
  have hn : R.nxt i < R.n := h.ring.nxt_lt i hi
  apply h.notouch i hi z hz
  rcases hc with ⟨h1, h2⟩ | ⟨h1, h2⟩
  · exact Or.inl ⟨(h.key i z hi hz).mp h1, (h.key z _ hz hn).mp h2⟩
  · exact Or.inr ⟨(h.key _ z hn hz).mp h1, (h.key z i hz hi).mp h2⟩

/-- `NoTouchV` for a ring edge `u → v` in lexicographic order -/
theorem ShX.off (h : ShX R ε Vε) {u v z : Nat} (hu : u < R.n) (hv : v < R.n) (hz : z < R.n)
    (hadj : Adj R u v) (h1 : lexLt (R.pt u) (R.pt z)) (h2 : lexLt (R.pt z) (R.pt v)) :
    orient (R.pt u) (R.pt v) (R.pt z) ≠ 0 := by
  have := h.noTouch.adj h.ring (u := u) (v := v) (z := z) hu hv hz hadj
    ((h.key u z hu hz).mpr h1) ((h.key z v hz hv).mpr h2)
  rw [orient_ring] at this
  exact this

/-- different vertices are different points -/
theorem ShX.pt_inj (h : ShX R ε Vε) {i j : Nat} (hi : i < R.n) (hj : j < R.n)
    (e : R.pt i = R.pt j) : i = j := by
  apply h.ring.distinct i j hi hj
  show (shear ε (R.pt i)).1 = (shear ε (R.pt j)).1
  rw [e]

theorem ShX.lex_total (h : ShX R ε Vε) {i j : Nat} (hi : i < R.n) (hj : j < R.n) :
    lexLt (R.pt i) (R.pt j) ∨ i = j ∨ lexLt (R.pt j) (R.pt i) := by
  rcases SweepEvents.lexLt_total (R.pt i) (R.pt j) with l | e | l
  · exact Or.inl l
  · exact Or.inr (Or.inl (h.pt_inj hi hj e))
  · exact Or.inr (Or.inr l)

/-! ### restated bridging lemmas -/

theorem cpl_atX (h : ShX R ε Vε) {w : Nat} (hw : w < R.n) : Cpl R ε ((shearRing ε R).x w) (R.x w) := by
  intro v hv
  constructor
  · intro hle
    by_contra hcon
    have : lexLt (R.pt w) (R.pt v) := Or.inl (not_le.mp hcon)
    exact absurd ((h.key w v hw hv).mpr this) (not_lt.mpr hle)
  · intro hlt
    exact QuadVGeom.lexLt_le ((h.key w v hw hv).mp hlt)

theorem edge_lexX (h : ShX R ε Vε) {a : AE} {xs : Rat} (ha : Span (shearRing ε R) xs a) :
    lexLt (R.pt a.lv) (R.pt a.rv) := (h.key _ _ ha.lv_lt ha.rv_lt).mp ha.lt

theorem ftV_startX (h : ShX R ε Vε) {w a c : Nat} (hw : w < R.n) (ha : a < R.n) (hc : c < R.n)
    (h1 : (shearRing ε R).x w < (shearRing ε R).x a) (h2 : (shearRing ε R).x w < (shearRing ε R).x c) :
    fromTriplet (Fq (R.pt w)) (Fq (R.pt a)) (Fq (R.pt c)) = some .start :=
  (C15.fromTriplet_start_fin _ _ _ _ _ _).mpr ⟨(h.key _ _ hw ha).mp h1, (h.key _ _ hw hc).mp h2⟩

theorem ftV_endX (h : ShX R ε Vε) {w a c : Nat} (hw : w < R.n) (ha : a < R.n) (hc : c < R.n)
    (h1 : (shearRing ε R).x a < (shearRing ε R).x w) (h2 : (shearRing ε R).x c < (shearRing ε R).x w) :
    fromTriplet (Fq (R.pt w)) (Fq (R.pt a)) (Fq (R.pt c)) = some .end_ :=
  (C15.fromTriplet_end_fin _ _ _ _ _ _).mpr ⟨(h.key _ _ ha hw).mp h1, (h.key _ _ hc hw).mp h2⟩

theorem ftV_bendX (h : ShX R ε Vε) {w a c : Nat} (hw : w < R.n) (ha : a < R.n) (hc : c < R.n)
    (h1 : (shearRing ε R).x a < (shearRing ε R).x w) (h2 : (shearRing ε R).x w < (shearRing ε R).x c) :
    fromTriplet (Fq (R.pt w)) (Fq (R.pt a)) (Fq (R.pt c)) = some .bend ∧
      fromTriplet (Fq (R.pt w)) (Fq (R.pt c)) (Fq (R.pt a)) = some .bend :=
  ⟨(C15.fromTriplet_bend_fin _ _ _ _ _ _).mpr (Or.inl ⟨(h.key _ _ ha hw).mp h1, (h.key _ _ hw hc).mp h2⟩),
   (C15.fromTriplet_bend_fin _ _ _ _ _ _).mpr (Or.inr ⟨(h.key _ _ ha hw).mp h1, (h.key _ _ hw hc).mp h2⟩)⟩

theorem geV_falseX (h : ShX R ε Vε) {a c : Nat} (ha : a < R.n) (hc : c < R.n)
    (hx : (shearRing ε R).x a < (shearRing ε R).x c) : (Fq (R.pt a)).ge (Fq (R.pt c)) = false := by
  cases hg : (Fq (R.pt a)).ge (Fq (R.pt c)) with
  | false => rfl
  | true => exact absurd ((h.key _ _ ha hc).mp hx) ((C15.Pt.ge_fin _ _ _ _).mp hg)

theorem geV_trueX (h : ShX R ε Vε) {a c : Nat} (ha : a < R.n) (hc : c < R.n)
    (hx : (shearRing ε R).x a < (shearRing ε R).x c) : (Fq (R.pt c)).ge (Fq (R.pt a)) = true :=
  (C15.Pt.ge_fin _ _ _ _).mpr (lexLt_asymm ((h.key _ _ ha hc).mp hx))

/-- the queue of the model (keys compared as points) is the queue of the sheared ring -/
theorem evAddV_eq_qAddX (h : ShX R ε Vε) {V : Array (Vtx XQ)} (hV : VGet R V) (v e : Nat) (hv : v < R.n) :
    ∀ (evs : List (Nat × List Nat)), (∀ a ∈ evs, a.1 < R.n) →
      evAdd V (Fq (R.pt v)) v e evs = qAdd (shearRing ε R) v e evs
  | [], _ => rfl
  | (k, es) :: rest, hk' => by
    have hk : k < R.n := hk' (k, es) List.mem_cons_self
    unfold evAdd qAdd
    rw [hV.2 k hk]
    simp only
    rcases lt_trichotomy ((shearRing ε R).x v) ((shearRing ε R).x k) with hlt | heq | hgt
    · rw [(Geo.Pt.cmp_fin_lt _ _ _ _).mpr ((h.key _ _ hv hk).mp hlt), if_pos hlt]
    · have : v = k := h.ring.distinct v k hv hk heq
      subst this
      rw [cmp_self, if_neg (lt_irrefl _), if_pos rfl]
    · have hne : k ≠ v := by rintro rfl; exact lt_irrefl _ hgt
      rw [(Geo.Pt.cmp_fin_gt _ _ _ _).mpr ((h.key _ _ hk hv).mp hgt), if_neg (lt_asymm hgt), if_neg hne,
        evAddV_eq_qAddX h hV v e hv rest (fun a ha => hk' a (List.mem_cons_of_mem _ ha))]

theorem bendV_rlpX (h : ShX R ε Vε) {w u w' : Nat} (hu : u < R.n) (hw' : w' < R.n)
    (hnb : (R.prv w = u ∧ R.nxt w = w') ∨ (R.prv w = w' ∧ R.nxt w = u))
    (hx : (shearRing ε R).x u < (shearRing ε R).x w') :
    (if (Fq (R.pt (R.prv w))).ge (Fq (R.pt (R.nxt w))) = true then R.prv w else R.nxt w) = w' := by
  rcases hnb with ⟨h1, h2⟩ | ⟨h1, h2⟩
  · rw [h1, h2, geV_falseX h hu hw' hx]; simp
  · rw [h1, h2, geV_trueX h hu hw' hx]; simp

theorem bendV_ftX (h : ShX R ε Vε) {w u w' : Nat} (hw : w < R.n) (hu : u < R.n) (hw' : w' < R.n)
    (hnb : (R.prv w = u ∧ R.nxt w = w') ∨ (R.prv w = w' ∧ R.nxt w = u))
    (h1 : (shearRing ε R).x u < (shearRing ε R).x w) (h2 : (shearRing ε R).x w < (shearRing ε R).x w') :
    fromTriplet (Fq (R.pt w)) (Fq (R.pt (R.prv w))) (Fq (R.pt (R.nxt w))) = some .bend := by
  obtain ⟨f1, f2⟩ := ftV_bendX h hw hu hw' h1 h2
  rcases hnb with ⟨e1, e2⟩ | ⟨e1, e2⟩
  · rw [e1, e2]; exact f1
  · rw [e1, e2]; exact f2

theorem endV_ftX (h : ShX R ε Vε) {w : Nat} (hw : w < R.n)
    (h0 : (shearRing ε R).x (R.prv w) < (shearRing ε R).x w)
    (h1 : (shearRing ε R).x (R.nxt w) < (shearRing ε R).x w) :
    fromTriplet (Fq (R.pt w)) (Fq (R.pt (R.prv w))) (Fq (R.pt (R.nxt w))) = some .end_ :=
  ftV_endX h hw (h.ring.prv_lt w hw) (h.ring.nxt_lt w hw) h0 h1

/-- an active edge strictly below or above the sweep vertex (in the sheared ring) is not vertical -/
theorem nonvert_of_neX (h : ShX R ε Vε) {a : AE} {w : Nat} (hw : w < R.n)
    (ha : Span (shearRing ε R) ((shearRing ε R).x w) a)
    (hne : hY (shearRing ε R) a ((shearRing ε R).x w) ≠ (R.pt w).2) : R.x a.lv < R.x a.rv := by
  obtain ⟨x1, x2⟩ := span_orig (cpl_atX h hw) ha
  rcases edge_lexX h ha with hl | ⟨hx, hy⟩
  · exact hl
  · exfalso
    apply hne
    have hxw : (R.pt a.lv).1 = (R.pt w).1 := le_antisymm x1 (by rw [hx]; exact x2)
    have ho : orient (R.pt a.lv) (R.pt a.rv) (R.pt w) = 0 := by
      rw [orient_vert12 _ _ _ hx, hxw]; ring
    rw [← orient_ring ε] at ho
    have e := pt_sub_lineY ((shearRing ε R).pt a.lv) ((shearRing ε R).pt a.rv) ((shearRing ε R).pt w) ha.lt
    rw [ho, zero_div] at e
    have : ((shearRing ε R).pt w).2 = lineY ((shearRing ε R).pt a.lv) ((shearRing ε R).pt a.rv)
        ((shearRing ε R).pt w).1 := by linarith
    exact this.symm

theorem belowW_ptX (h : ShX R ε Vε) {a : AE} {w : Nat} (hw : w < R.n)
    (ha : Span (shearRing ε R) ((shearRing ε R).x w) a)
    (hlt : hY (shearRing ε R) a ((shearRing ε R).x w) < (R.pt w).2) :
    R.x a.lv < R.x a.rv ∧ lineY (R.pt a.lv) (R.pt a.rv) (R.x w) < (R.pt w).2 := by
  have na := nonvert_of_neX h hw ha (ne_of_lt hlt)
  have o := orient_pos_of_above _ _ ((shearRing ε R).pt w) ha.lt hlt
  rw [orient_ring] at o
  exact ⟨na, above_of_orient_pos _ _ _ na o⟩

theorem aboveW_ptX (h : ShX R ε Vε) {a : AE} {w : Nat} (hw : w < R.n)
    (ha : Span (shearRing ε R) ((shearRing ε R).x w) a)
    (hlt : (R.pt w).2 < hY (shearRing ε R) a ((shearRing ε R).x w)) :
    R.x a.lv < R.x a.rv ∧ (R.pt w).2 < lineY (R.pt a.lv) (R.pt a.rv) (R.x w) := by
  have na := nonvert_of_neX h hw ha (ne_of_gt hlt)
  have o := orient_neg_of_below _ _ ((shearRing ε R).pt w) ha.lt hlt
  rw [orient_ring] at o
  exact ⟨na, below_of_orient_neg _ _ _ na o⟩

theorem gradsWX (h : ShX R ε Vε) {xs : Rat} {bot top : AE} {w : Nat}
    (hb : Span (shearRing ε R) xs bot) (ht : Span (shearRing ε R) xs top)
    (hbr : bot.rv = w) (htr : top.rv = w)
    (hlt : hY (shearRing ε R) bot xs < hY (shearRing ε R) top xs) :
    ofGe ((Fq (R.pt bot.lv)).grad (Fq (R.pt w))) ((Fq (R.pt top.lv)).grad (Fq (R.pt w))) = true ∧
    ofGe ((Fq (R.pt top.lv)).grad (Fq (R.pt w))) ((Fq (R.pt bot.lv)).grad (Fq (R.pt w))) = false := by
  have lb := edge_lexX h hb
  have lt' := edge_lexX h ht
  rw [hbr] at lb
  rw [htr] at lt'
  have hbl : ((shearRing ε R).pt bot.lv).1 < ((shearRing ε R).pt w).1 := by have := hb.lt; rw [hbr] at this; exact this
  have htl : ((shearRing ε R).pt top.lv).1 < ((shearRing ε R).pt w).1 := by have := ht.lt; rw [htr] at this; exact this
  have hxs : xs < ((shearRing ε R).pt w).1 := by have := hb.gt; rw [hbr] at this; exact this
  have o : orient ((shearRing ε R).pt bot.lv) ((shearRing ε R).pt top.lv) ((shearRing ε R).pt w) < 0 := by
    refine fanR_orient _ _ _ hbl htl xs hxs ?_
    have : lineY ((shearRing ε R).pt bot.lv) ((shearRing ε R).pt bot.rv) xs <
        lineY ((shearRing ε R).pt top.lv) ((shearRing ε R).pt top.rv) xs := hlt
    rw [hbr, htr] at this; exact this
  rw [orient_ring] at o
  refine ⟨ofGeL_true _ _ _ lb lt' o, ofGeL_false _ _ _ lt' lb ?_⟩
  have : orient (R.pt top.lv) (R.pt bot.lv) (R.pt w) = - orient (R.pt bot.lv) (R.pt top.lv) (R.pt w) := by
    unfold orient; ring
  rw [this]; linarith

end Cav.GenXV
