/-
  General sweep invariant, part 11: `activeRemove` and `activeInsert` on an active list of
  arbitrary length whose stored order is consistent with the comparator for the key.
-/
import Cav.Lemmas.GenQuery

set_option linter.unusedSimpArgs false
set_option linter.unusedVariables false
set_option linter.unusedSectionVars false

namespace Cav.GenActive
open Cav Num Cav.Sweep Cav.SweepRun Cav.TriRun Cav.QuadRun Cav.GenNodes Cav.GenQuery

variable {α : Type} [Num α]

theorem map_const_mem {β : Type} (l : List β) (c : Ordering) : ∀ x ∈ l.map (fun _ => c), x = c := by
  intro x hx
  obtain ⟨_, _, rfl⟩ := List.mem_map.mp hx
  rfl

/-- a look-up of a key that lies strictly between the edges `P` and the edges `Q` -/
theorem run_search_between (key : Edge α) (lk : Pt α) (s : St α) (hk : lpt? s key = some lk)
    (hm : s.mono = true) (P Q : List Nat)
    (hP : ∀ k ∈ P, ∃ l r, EG s k l r ∧ cmpEdgeP lk key.rpt l r s.x = .gt)
    (hQ : ∀ k ∈ Q, ∃ l r, EG s k l r ∧ cmpEdgeP lk key.rpt l r s.x = .lt) :
    (search key (P ++ Q)).run s = .ok ((P.length, false), s) := by
  have hc : Cmps s lk key.rpt (P ++ Q) (P.map (fun _ => .gt) ++ Q.map (fun _ => .lt)) :=
    (Cmps.const .gt P hP).append (Cmps.const .lt Q hQ)
  rw [run_search key lk s hk _ _ hc, posOf_gt_lt _ _ (map_const_mem P .gt) (map_const_mem Q .lt),
    isMono_gt_lt _ _ (map_const_mem P .gt) (map_const_mem Q .lt), hm]
  simp only [List.length_map, Nat.zero_add, Bool.and_true]
  rw [← hm]

/-- a look-up of a stored edge `ei` with the edges `P` below and the edges `Q` above it -/
theorem run_search_found (key : Edge α) (lk : Pt α) (s : St α) (hk : lpt? s key = some lk)
    (hm : s.mono = true) (P Q : List Nat) (ei : Nat)
    (hP : ∀ k ∈ P, ∃ l r, EG s k l r ∧ cmpEdgeP lk key.rpt l r s.x = .gt)
    (hself : ∃ l r, EG s ei l r ∧ cmpEdgeP lk key.rpt l r s.x = .eq)
    (hQ : ∀ k ∈ Q, ∃ l r, EG s k l r ∧ cmpEdgeP lk key.rpt l r s.x = .lt) :
    (search key (P ++ ei :: Q)).run s = .ok ((P.length, true), s) := by
  have hc : Cmps s lk key.rpt (P ++ ei :: Q) (P.map (fun _ => .gt) ++ .eq :: Q.map (fun _ => .lt)) :=
    (Cmps.const .gt P hP).append ⟨hself, Cmps.const .lt Q hQ⟩
  rw [run_search key lk s hk _ _ hc, posOf_gt_eq _ _ (map_const_mem P .gt),
    isMono_gt_eq_lt _ _ (map_const_mem P .gt) (map_const_mem Q .lt), hm]
  simp only [List.length_map, Nat.zero_add, Bool.and_true]
  rw [← hm]

theorem run_search_found' (key : Edge α) (lk : Pt α) (s : St α) (hk : lpt? s key = some lk)
    (hm : s.mono = true) (l P Q : List Nat) (ei : Nat) (hl : l = P ++ ei :: Q)
    (hP : ∀ k ∈ P, ∃ l r, EG s k l r ∧ cmpEdgeP lk key.rpt l r s.x = .gt)
    (hself : ∃ l r, EG s ei l r ∧ cmpEdgeP lk key.rpt l r s.x = .eq)
    (hQ : ∀ k ∈ Q, ∃ l r, EG s k l r ∧ cmpEdgeP lk key.rpt l r s.x = .lt) :
    (search key l).run s = .ok ((P.length, true), s) := by
  subst hl
  exact run_search_found key lk s hk hm P Q ei hP hself hQ

theorem run_activeRemove (s : St α) (ei : Nat) (e : Edge α) (le : Pt α)
    (he : s.edges[ei]? = some e) (hl : lpt? s e = some le) (hm : s.mono = true) (P Q : List Nat)
    (hact : s.active = P ++ ei :: Q)
    (hP : ∀ k ∈ P, ∃ l r, EG s k l r ∧ cmpEdgeP le e.rpt l r s.x = .gt)
    (hself : cmpEdgeP le e.rpt le e.rpt s.x = .eq)
    (hQ : ∀ k ∈ Q, ∃ l r, EG s k l r ∧ cmpEdgeP le e.rpt l r s.x = .lt) :
    (activeRemove ei).run s = .ok ((), { s with active := P ++ Q }) := by
  unfold activeRemove
  simp only [↓run_bind, run_getEdge, he, run_get, hact,
    run_search_found e le s hl hm P Q ei hP ⟨le, e.rpt, ⟨e, he, hl, rfl⟩, hself⟩ hQ, if_true,
    run_modify]
  congr 3
  simp

theorem run_activeInsert (s : St α) (ei : Nat) (e : Edge α) (le : Pt α)
    (he : s.edges[ei]? = some e) (hl : lpt? s e = some le) (hm : s.mono = true) (P Q : List Nat)
    (hact : s.active = P ++ Q)
    (hP : ∀ k ∈ P, ∃ l r, EG s k l r ∧ cmpEdgeP le e.rpt l r s.x = .gt)
    (hQ : ∀ k ∈ Q, ∃ l r, EG s k l r ∧ cmpEdgeP le e.rpt l r s.x = .lt) :
    (activeInsert ei).run s = .ok ((), { s with active := P ++ ei :: Q }) := by
  unfold activeInsert
  simp only [↓run_bind, run_getEdge, he, run_get, hact,
    run_search_between e le s hl hm P Q hP hQ, Bool.false_eq_true, if_false, run_modify]
  congr 3
  simp

end Cav.GenActive
