/-
  Concrete runs used by the `example`s of `Thm/C07Accuracy` (non-vacuity of the hypotheses).
  All facts are checked by kernel evaluation of the display models over `Rat`
  (`decide +kernel`: no compiler, no extra axioms).  Configuration: `DispEx.cfgEx`
  (`xRes = yRes = 2`, one intermediate curve, integration on, tolerance `1/100`).
-/
import Cav.Lemmas.AccAD
import Cav.Lemmas.DispExamples

namespace Cav.C07Accuracy
open Cav Gen Cav.DispEx

/-- RS display, `f = 1 + x²`, `g = x³` on `[0,1]`: one piece -/
theorem rs_ex_ends :
    ends (genDisplayRs (adPoly [1, 0, 1]) (adPoly [0, 0, 0, 1]) [(0, 1)] cfgEx) =
      some [(0, 1)] := by
  decide +kernel

/-- RS display, `f = x`, `g = x − x²` on `[0,1]`: two pieces (`g' = 0` at `1/2`) -/
theorem rs_ex2_ends :
    ends (genDisplayRs (adPoly [0, 1]) (adPoly [0, 1, -1]) [(0, 1)] cfgEx) =
      some [(0, 1/2), (1/2, 1)] := by
  decide +kernel

/-- Cavalieri display, `f = x`, `c = y²` on `[0,1]` (`g = x − x²`): two pieces -/
theorem cav_ex_ends :
    ends (genDisplayCav (adPoly [0, 1]) (adPoly [0, 0, 1]) [(0, 1)] cfgEx) =
      some [(0, 1/2), (1/2, 1)] := by
  decide +kernel

/-- the same run from `1` down to `0` -/
theorem cav_ex_ends_rev :
    ends (genDisplayCav (adPoly [0, 1]) (adPoly [0, 0, 1]) [(1, 0)] cfgEx) =
      some [(1, 1/2), (1/2, 0)] := by
  decide +kernel

end Cav.C07Accuracy
