/-
  From an input array `P` to the configuration `MConv` of a simple x-monotone polygon: the
  simplicity hypothesis `MonoSimple` (every interior vertex of one chain lies strictly on the
  inner side of the edge of the other chain that spans its abscissa), in both orientations.
-/
import Cav.Lemmas.MonoStep3
import Cav.Lemmas.CvxPoly

set_option linter.unusedSimpArgs false
set_option linter.unusedVariables false

namespace Cav.MonoPoly
open Cav Num Cav.Geo Cav.Sweep Cav.TriEvents Cav.QuadGeom Cav.CvxLoop Cav.CvxSetup Cav.CvxPoly
open Cav.MonoConv

/-- the chain `t` lies strictly above the chain `b`, stated vertex against spanning edge -/
def Above (b t : Nat → Rat × Rat) (mB mT : Nat) : Prop :=
  (∀ k, k < mB → ∀ l, l < mT → 0 < k → (t l).1 < (b k).1 → (b k).1 < (t (l + 1)).1 →
      orient (t l) (t (l + 1)) (b k) < 0) ∧
  (∀ l, l < mT → ∀ k, k < mB → 0 < l → (b k).1 < (t l).1 → (t l).1 < (b (k + 1)).1 →
      0 < orient (b k) (b (k + 1)) (t l))

/-- the polygon with the two x-monotone chains from `L` (`TwoChains P L m`) is simple: one of
    the chains lies strictly above the other -/
def MonoSimple (P : Array (Rat × Rat)) (L m : Nat) : Prop :=
  Above (pf P L) (pb P L) m (P.size - m) ∨ Above (pb P L) (pf P L) (P.size - m) m

instance (b t : Nat → Rat × Rat) (mB mT : Nat) : Decidable (Above b t mB mT) := by
  unfold Above; exact @instDecidableAnd _ _ inferInstance inferInstance
instance (P : Array (Rat × Rat)) (L m : Nat) : Decidable (MonoSimple P L m) := by
  unfold MonoSimple; exact inferInstance

/-- a simple x-monotone polygon: two x-monotone chains, one strictly above the other -/
def SimpleMonotone (P : Array (Rat × Rat)) : Prop :=
  ∃ L, L < P.size ∧ ∃ m, m < P.size ∧ TwoChains P L m ∧ MonoSimple P L m

instance (P : Array (Rat × Rat)) : Decidable (SimpleMonotone P) := by
  unfold SimpleMonotone; exact inferInstance

section
variable {P : Array (Rat × Rat)} {L m : Nat} (hx : DistinctX P) (h2 : TwoChains P L m)
include hx h2

/-- the chain after `L` is the bottom chain -/
theorem mconv_fwd (ha : Above (pf P L) (pb P L) m (P.size - m)) (hn : 3 ≤ P.size) :
    MConv (ringOf (polyOf P)) m (P.size - m) (fwd P L) (bwd P L) (pf P L) (pb P L) := by
  have hxbt := xBT_aux hx h2
  obtain ⟨hL, hm0, hm, up, dn⟩ := h2
  have hn0 : 0 < P.size := by omega
  exact
    { hB := hm0, hT := by omega, three := by omega
      p0 := (pb_zero L).symm, pR := (pb_end L m hm).symm
      xB := up, xT := dn
      sB := fun k l hk0 hk hl h1 h2 => ha.1 k hk l hl hk0 h1 h2
      sT := fun l k hl0 hl hk h1 h2 => ha.2 l hl k hk hl0 h1 h2
      i0 := bwd_zero L
      iR := bwd_end L m hm
      xBT := hxbt
      vB := fun k hk => ⟨_, _, ring_fwd L k hn0, Or.inl ⟨rfl, rfl⟩⟩
      vT := fun k hk => ⟨_, _, ring_bwd L k (by omega), Or.inr ⟨rfl, rfl⟩⟩
      vL := ⟨_, _, ring_L L (by omega), Or.inr ⟨rfl, rfl⟩⟩
      vR := ⟨_, _, ring_R L m hm0 hm, Or.inl ⟨rfl, rfl⟩⟩ }

/-- the chain before `L` is the bottom chain -/
theorem mconv_bwd (ha : Above (pb P L) (pf P L) (P.size - m) m) (hn : 3 ≤ P.size) :
    MConv (ringOf (polyOf P)) (P.size - m) m (bwd P L) (fwd P L) (pb P L) (pf P L) := by
  have hxbt := xBT_aux hx h2
  obtain ⟨hL, hm0, hm, up, dn⟩ := h2
  have hn0 : 0 < P.size := by omega
  exact
    { hB := by omega, hT := hm0, three := by omega
      p0 := pb_zero L, pR := pb_end L m hm
      xB := dn, xT := up
      sB := fun k l hk0 hk hl h1 h2 => ha.1 k hk l hl hk0 h1 h2
      sT := fun l k hl0 hl hk h1 h2 => ha.2 l hl k hk hl0 h1 h2
      i0 := (bwd_zero L).symm
      iR := (bwd_end L m hm).symm
      xBT := fun i j hi0 hi hj0 hj => (hxbt j i hj0 hj hi0 hi).symm
      vB := fun k hk => ⟨_, _, ring_bwd L k (by omega), Or.inr ⟨rfl, rfl⟩⟩
      vT := fun k hk => ⟨_, _, ring_fwd L k hn0, Or.inl ⟨rfl, rfl⟩⟩
      vL := ⟨_, _, by rw [bwd_zero, pb_zero]; exact ring_L L (by omega), Or.inl ⟨rfl, rfl⟩⟩
      vR := ⟨_, _, by rw [bwd_end L m hm, pb_end L m hm]; exact ring_R L m hm0 hm,
        Or.inr ⟨rfl, rfl⟩⟩ }

end

end Cav.MonoPoly
