/-
  Failure side with equal abscissae, part 12: the run of the whole model.  The shear of a polygon
  list with pairwise different vertices, `NoSpikeV`, `NoTouchV` (`shX_of_general`); the initial
  invariant; totality (`totalV_of_general`: a triangle list with `mono = true`, or `.overlap` at
  an input vertex); rejection of a proper crossing (`rejectedV_of_crossing`); and the exact
  characterisation of the two outcomes (`acceptV_iff`).
-/
import Cav.Lemmas.GenXVLoop
import Cav.Lemmas.GenXVSetup
import Cav.Lemmas.GenXVCross
import Cav.Lemmas.GenVAcceptW

set_option linter.unusedSimpArgs false
set_option linter.unusedVariables false

namespace Cav.GenXV
open Cav Num Cav.Geo Cav.Sweep Cav.SweepRun Cav.TriRun Cav.QuadRun Cav.QuadGeom Cav.TriEvents
open Cav.GenNodes Cav.SweepSetup Cav.GenGeom Cav.GenInv Cav.GenQueue Cav.GenRing Cav.GenSetup Cav.GenLoop
open Cav.GenAccept Cav.GenValid Cav.GenVShear Cav.GenVBridge Cav.GenVInv Cav.GenVAccept
open Cav.GenXGeom Cav.GenXLoop Cav.GenXMain

variable {R : RingQ} {ε : Rat} {Vε : Array (Vtx XQ)}

/-- **the shear of a polygon list with pairwise different vertices** (no validity assumed) -/
theorem shX_of_general (polys : List (Array Q)) (h3 : ∀ p ∈ polys, 3 ≤ p.size)
    (hnd : (polys.flatMap Array.toList).Nodup)
    (hS : NoSpikeV (ringOf polys)) (hT : NoTouchV (ringOf polys)) :
    ∃ ε, ShX (ringOf polys) ε (shearVerts ε (ringOf polys)) := by
  obtain ⟨ε, hε, hkey⟩ := exists_shear (ringOf polys)
  have hL := links_ringOf polys h3
  have hd : ∀ i j, i < (ringOf polys).n → j < (ringOf polys).n →
      (shearRing ε (ringOf polys)).x i = (shearRing ε (ringOf polys)).x j → i = j := by
    intro i j hi hj e
    apply pt_inj polys hnd i j hi hj
    rcases SweepEvents.lexLt_total ((ringOf polys).pt i) ((ringOf polys).pt j) with h | h | h
    · exact absurd ((hkey i j hi hj).mpr h) (by rw [e]; exact lt_irrefl _)
    · exact h
    · exact absurd ((hkey j i hj hi).mpr h) (by rw [e]; exact lt_irrefl _)
  exact ⟨ε, hε, ringOK_shear (ε := ε) hL hd, hkey, hS, hT⟩

/-- the invariant after the set-up phase -/
theorem xinvV_init (hSh : ShX R ε Vε) {V : Array (Vtx XQ)} (hV : VGet R V)
    {evs : List (Nat × List Nat)} (hE : EvI (shearRing ε R) R.n evs) {xs X : Rat}
    (hxs : ∀ v, v < R.n → xs < (shearRing ε R).x v) (hX : ∀ v, v < R.n → X ≤ R.x v) :
    XInvV R ε (stQ V evs) xs X [] := by
  have hI := inv_init hSh.ring hE hxs
  refine ⟨⟨hV, rfl, fun h => absurd rfl h, rfl, List.nodup_nil, trivial, hI.nok, hI.span, hI.sorted,
    hI.q, hI.cross, ?_⟩, trivial, List.Pairwise.nil⟩
  intro v hv
  exact ⟨fun hle => absurd (hxs v hv) (not_lt.mpr hle), fun _ => hX v hv⟩

/-- the state after the set-up phase with its invariant -/
theorem setup_xinvV (polys : List (Array Q)) (h3 : ∀ p ∈ polys, 3 ≤ p.size)
    (hSh : ShX (ringOf polys) ε Vε) :
    ∃ seen evs xs X, (forIn (polys.map (fun p => p.map Fq)) ([] : List (Pt XQ)) polyBody).run
        (initSt : St XQ) = .ok (seen, stQ (vertsOf (cellsAll 0 polys)) evs) ∧
      XInvV (ringOf polys) ε (stQ (vertsOf (cellsAll 0 polys)) evs) xs X [] ∧
      ∀ v, v < (ringOf polys).n → xs < (shearRing ε (ringOf polys)).x v := by
  obtain ⟨seen, evs, hset, hE⟩ := GenXVSetup.setupV_all polys h3 hSh
  obtain ⟨xs, hxs⟩ := exists_lt_all
    ((List.range (ringOf polys).n).map (shearRing ε (ringOf polys)).x)
  obtain ⟨X, hX⟩ := exists_lt_all ((List.range (ringOf polys).n).map (ringOf polys).x)
  have hxs' : ∀ v, v < (ringOf polys).n → xs < (shearRing ε (ringOf polys)).x v :=
    fun v hv => hxs _ (List.mem_map.mpr ⟨v, List.mem_range.mpr hv, rfl⟩)
  exact ⟨seen, evs, xs, X, hset, xinvV_init hSh (vget_vertsOf polys) hE hxs'
    (fun v hv => le_of_lt (hX _ (List.mem_map.mpr ⟨v, List.mem_range.mpr hv, rfl⟩))), hxs'⟩

/-- **the model on a polygon list with pairwise different vertices, `NoSpikeV`, `NoTouchV`: a
    triangle list with `mono = true`, or `.overlap` at an input vertex** -/
theorem totalV_of_general (polys : List (Array Q)) (h3 : ∀ p ∈ polys, 3 ≤ p.size)
    (hnd : (polys.flatMap Array.toList).Nodup)
    (hS : NoSpikeV (ringOf polys)) (hT : NoTouchV (ringOf polys)) :
    (∃ T, sweep (polys.map (fun p => p.map Fq)) = .ok T ∧
        sweepMon (polys.map (fun p => p.map Fq)) = .ok (T, true)) ∨
    (∃ k z, z < (ringOf polys).n ∧
      sweep (polys.map (fun p => p.map Fq)) = .error (.overlap k (Fq ((ringOf polys).pt z))) ∧
      sweepMon (polys.map (fun p => p.map Fq)) = .error (.overlap k (Fq ((ringOf polys).pt z)))) := by
  obtain ⟨ε, hSh⟩ := shX_of_general polys h3 hnd hS hT
  obtain ⟨seen, evs, xs, X, hset, hX, -⟩ := setup_xinvV polys h3 hSh
  have hsz : (stQ (vertsOf (cellsAll 0 polys)) evs).verts.size = (ringOf polys).n := (vget_vertsOf polys).1
  rcases xloopV_total hSh ((ringOf polys).n + 1) _ xs X [] hX (Nat.lt_succ_of_le (meas_le xs)) with
    ⟨s', hl, hm⟩ | ⟨k, z, hz, hl⟩
  · left
    refine ⟨s'.out.reverse, ?_, ?_⟩
    · unfold sweep
      rw [run_eq, hset]
      simp only [hsz, hl]
    · unfold sweepMon
      rw [run_eq, hset]
      simp only [hsz, hl, hm]
  · right
    rw [← hsz] at hl
    obtain ⟨r1, r2⟩ := sweep_of_loop_error hset hl
    exact ⟨k, z, hz, r1, r2⟩

/-- a proper crossing of the ring is a proper crossing of the sheared ring -/
theorem hasCrossing_shear (hC : HasCrossing R) : HasCrossing (shearRing ε R) := by
  obtain ⟨i, hi, j, hj, n1, n2, n3, c1, c2⟩ := hC
  refine ⟨i, hi, j, hj, n1, n2, n3, ?_, ?_⟩
  · show orient (shear ε _) (shear ε _) (shear ε _) * orient (shear ε _) (shear ε _) (shear ε _) < 0
    rw [orient_shear, orient_shear]; exact c1
  · show orient (shear ε _) (shear ε _) (shear ε _) * orient (shear ε _) (shear ε _) (shear ε _) < 0
    rw [orient_shear, orient_shear]; exact c2

/-- **rejection before a meeting point of the sheared ring**: with two edges of the sheared ring that
    meet strictly inside their abscissa ranges the model stops with `.overlap` at an input vertex
    whose sheared abscissa is smaller than that of the meeting point -/
theorem rejectedV_of_meet (polys : List (Array Q)) (h3 : ∀ p ∈ polys, 3 ≤ p.size)
    (hSh : ShX (ringOf polys) ε Vε) {u v u' v' : Nat} {xm : Rat}
    (hM : MeetAt (shearRing ε (ringOf polys)) u v u' v' xm) :
    ∃ k z, z < (ringOf polys).n ∧ (shearRing ε (ringOf polys)).x z < xm ∧
      sweep (polys.map (fun p => p.map Fq)) = .error (.overlap k (Fq ((ringOf polys).pt z))) ∧
      sweepMon (polys.map (fun p => p.map Fq)) = .error (.overlap k (Fq ((ringOf polys).pt z))) := by
  obtain ⟨seen, evs, xs, X, hset, hX, hxs⟩ := setup_xinvV polys h3 hSh
  have hsz : (stQ (vertsOf (cellsAll 0 polys)) evs).verts.size = (ringOf polys).n := (vget_vertsOf polys).1
  obtain ⟨k, z, hz, hzx, hl⟩ := xloopV hSh hM ((ringOf polys).n + 1) _ xs X [] hX
    (Nat.lt_succ_of_le (meas_le xs)) (lt_trans (hxs u hM.hu) hM.l1)
  rw [← hsz] at hl
  obtain ⟨r1, r2⟩ := sweep_of_loop_error hset hl
  exact ⟨k, z, hz, hzx, r1, r2⟩

/-- **a polygon list with pairwise different vertices, `NoSpikeV`, `NoTouchV` and a proper crossing
    of two ring edges without a common vertex is rejected with `.overlap` at an input vertex** -/
theorem rejectedV_of_crossing (polys : List (Array Q)) (h3 : ∀ p ∈ polys, 3 ≤ p.size)
    (hnd : (polys.flatMap Array.toList).Nodup)
    (hS : NoSpikeV (ringOf polys)) (hT : NoTouchV (ringOf polys)) (hC : HasCrossing (ringOf polys)) :
    ∃ k z, z < (ringOf polys).n ∧
      sweep (polys.map (fun p => p.map Fq)) = .error (.overlap k (Fq ((ringOf polys).pt z))) ∧
      sweepMon (polys.map (fun p => p.map Fq)) = .error (.overlap k (Fq ((ringOf polys).pt z))) := by
  obtain ⟨ε, hSh⟩ := shX_of_general polys h3 hnd hS hT
  obtain ⟨u, v, u', v', xm, hM⟩ := meetAt_of_crossing hSh.ring (hasCrossing_shear (ε := ε) hC)
  obtain ⟨k, z, hz, -, r1, r2⟩ := rejectedV_of_meet polys h3 hSh hM
  exact ⟨k, z, hz, r1, r2⟩

/-- **acceptance is validity**: for a polygon list with pairwise different vertices, `NoSpikeV`,
    `NoTouchV`: the model returns a triangle list iff the ring edges without a common vertex are
    pairwise apart iff no two of them cross properly -/
theorem acceptV_iff (polys : List (Array Q)) (h3 : ∀ p ∈ polys, 3 ≤ p.size)
    (hnd : (polys.flatMap Array.toList).Nodup)
    (hS : NoSpikeV (ringOf polys)) (hT : NoTouchV (ringOf polys)) :
    ((∃ T, sweepMon (polys.map (fun p => p.map Fq)) = .ok (T, true)) ↔ EdgesApartV (ringOf polys)) ∧
    (EdgesApartV (ringOf polys) ↔ ¬ HasCrossing (ringOf polys)) := by
  have hok_nc : (∃ T, sweepMon (polys.map (fun p => p.map Fq)) = .ok (T, true)) →
      ¬ HasCrossing (ringOf polys) := by
    rintro ⟨T, hT'⟩ hC
    obtain ⟨k, z, -, -, r2⟩ := rejectedV_of_crossing polys h3 hnd hS hT hC
    rw [r2] at hT'; cases hT'
  have hnc_ap : ¬ HasCrossing (ringOf polys) → EdgesApartV (ringOf polys) := by
    intro hnc
    by_contra hA
    obtain ⟨ε, hSh⟩ := shX_of_general polys h3 hnd hS hT
    exact hnc (hasCrossing_of_not_apart hSh hA)
  have hap_ok : EdgesApartV (ringOf polys) →
      ∃ T, sweepMon (polys.map (fun p => p.map Fq)) = .ok (T, true) := by
    intro hA
    obtain ⟨ε, hSh⟩ := shOK_of_valid polys h3 hnd hA hS
    exact acceptW_of_shOK polys h3 hSh
  exact ⟨⟨fun h => hnc_ap (hok_nc h), hap_ok⟩, ⟨fun h => hok_nc (hap_ok h), hnc_ap⟩⟩

end Cav.GenXV
