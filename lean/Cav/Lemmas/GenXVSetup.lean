/-
  Failure side with equal abscissae, part 10: the set-up phase on a polygon list with pairwise
  different vertices, for `ShX` (no validity assumed).  Copy of `GenVSetup.lean` — that file asks
  for `ShOK` but uses only the lexicographic key of the shear.
-/
import Cav.Lemmas.GenSetup
import Cav.Lemmas.GenXVBase

set_option linter.unusedSimpArgs false
set_option linter.unusedVariables false

namespace Cav.GenXVSetup
open Cav Num Cav.Geo Cav.Sweep Cav.SweepRun Cav.TriRun Cav.QuadRun Cav.QuadGeom Cav.CvxFlows
open Cav.GenNodes Cav.TriEvents Cav.SweepSetup Cav.GenGeom Cav.GenInv Cav.GenQueue Cav.GenRing Cav.GenSetup
open Cav.GenVShear Cav.GenVBridge Cav.GenXV

variable {R : RingQ} {ε : Rat} {Vε : Array (Vtx XQ)}

theorem runV_insGo (hSh : ShX R ε Vε) (s : St XQ) (v : Nat) (hvn : v < R.n) : ∀ (evs : List (Nat × List Nat)),
    (∀ a ∈ evs, a.1 < R.n) →
    (∀ a ∈ evs, ∃ c, s.verts[a.1]? = some c ∧ c.p = Fq (R.pt a.1)) → (∀ a ∈ evs, (shearRing ε R).x a.1 ≠ (shearRing ε R).x v) →
    (eventsInsertStart.go v (Fq (R.pt v)) evs).run s = .ok (qIns (shearRing ε R) v evs, s)
  | [], _, _, _ => rfl
  | (k, es) :: rest, hkn, hV, hne => by
    have hk' : k < R.n := hkn (k, es) List.mem_cons_self
    obtain ⟨c, hc, hp⟩ : ∃ c, s.verts[k]? = some c ∧ c.p = Fq (R.pt k) := hV (k, es) List.mem_cons_self
    have hk : (shearRing ε R).x k ≠ (shearRing ε R).x v := hne (k, es) List.mem_cons_self
    unfold eventsInsertStart.go qIns
    simp only [↓run_bind, run_getVtx, hc, hp, run_pure]
    rcases lt_or_gt_of_ne hk with h | h
    · rw [(Geo.Pt.cmp_fin_gt _ _ _ _).mpr ((hSh.key _ _ hk' hvn).mp h), if_neg (lt_asymm h)]
      simp only [↓run_bind, runV_insGo hSh s v hvn rest (fun a ha => hkn a (List.mem_cons_of_mem _ ha))
        (fun a ha => hV a (List.mem_cons_of_mem _ ha))
        (fun a ha => hne a (List.mem_cons_of_mem _ ha)), run_pure]
    · rw [(Geo.Pt.cmp_fin_lt _ _ _ _).mpr ((hSh.key _ _ hvn hk').mp h), if_pos h]
      rfl

theorem runV_insStart (hSh : ShX R ε Vε) (s : St XQ) (v : Nat) (hvn : v < R.n)
    (hkn : ∀ a ∈ s.events, a.1 < R.n) (c : Vtx XQ) (hv : s.verts[v]? = some c)
    (hp : c.p = Fq (R.pt v))
    (hV : ∀ a ∈ s.events, ∃ c, s.verts[a.1]? = some c ∧ c.p = Fq (R.pt a.1))
    (hne : ∀ a ∈ s.events, (shearRing ε R).x a.1 ≠ (shearRing ε R).x v) :
    (eventsInsertStart v).run s = .ok ((), { s with events := qIns (shearRing ε R) v s.events }) := by
  unfold eventsInsertStart
  simp only [↓run_bind, run_get, run_getVtx, hv, hp, runV_insGo hSh s v hvn s.events hkn hV hne, run_modify, run_pure]

/-- one iteration of the set-up loop at a Start vertex, the queue being arbitrary -/
theorem sbV_startG (hSh : ShX R ε Vε) (poly : Array (Pt XQ)) (n base i : Nat) (seen : List (Pt XQ)) (s : St XQ)
    (hv : validPt seen (poly.getD i dummyPt) = .ok (poly.getD i dummyPt :: seen))
    (hk : fromTriplet (poly.getD i dummyPt) (poly.getD ((i + n - 1) % n) dummyPt)
      (poly.getD ((i + 1) % n) dummyPt) = some .start)
    (hpt : poly.getD i dummyPt = Fq (R.pt (base + i))) (hsz : s.verts.size = base + i) (hvn : base + i < R.n)
    (hkn : ∀ a ∈ s.events, a.1 < R.n)
    (hV : ∀ a ∈ s.events, ∃ c, s.verts[a.1]? = some c ∧ c.p = Fq (R.pt a.1))
    (hne : ∀ a ∈ s.events, (shearRing ε R).x a.1 ≠ (shearRing ε R).x (base + i)) :
    (setupBody poly n base i seen).run s = .ok (.yield (poly.getD i dummyPt :: seen),
      { s with verts := s.verts.push ⟨poly.getD i dummyPt, base + (i + n - 1) % n, base + (i + 1) % n⟩,
               events := qIns (shearRing ε R) (base + i) s.events }) := by
  unfold setupBody
  generalize poly.getD ((i + n - 1) % n) dummyPt = prevP at *
  generalize poly.getD ((i + 1) % n) dummyPt = nextP at *
  generalize poly.getD i dummyPt = pt at *
  simp only [hv, hk, ↓run_bind, run_modify]
  rw [runV_insStart hSh
    { s with verts := s.verts.push ⟨pt, base + (i + n - 1) % n, base + (i + 1) % n⟩ } (base + i) hvn hkn ⟨pt, base + (i + n - 1) % n, base + (i + 1) % n⟩
    (by show (s.verts.push _)[base + i]? = _; rw [← hsz, Array.getElem?_push_size]) hpt ?_ hne]
  · rfl
  · intro a ha
    obtain ⟨c, hc, hp⟩ := hV a ha
    refine ⟨c, ?_, hp⟩
    show (s.verts.push _)[a.1]? = _
    rw [Array.getElem?_push, if_neg (by have := lt_of_get' hc; omega)]
    exact hc


/-- **one iteration of the set-up loop keeps the invariant** -/
theorem setupV_step {C Cd Cr : List Cell} {poly : Array Q} (hSh : ShX (ringOfCells C) ε Vε)
    (hC : C = Cd ++ cellsOf Cd.length poly ++ Cr) (h3 : 3 ≤ poly.size)
    {i : Nat} (hi : i < poly.size) {seen : List (Pt XQ)} {evs : List (Nat × List Nat)}
    (hE : EvI (shearRing ε (ringOfCells C)) (Cd.length + i) evs) (hS : SeenOK (ringOfCells C) (Cd.length + i) seen) :
    ∃ evs', (setupBody (poly.map Fq) poly.size Cd.length i seen).run (stS C (Cd.length + i) evs) =
        .ok (.yield (Fq ((ringOfCells C).pt (Cd.length + i)) :: seen), stS C (Cd.length + i + 1) evs') ∧
      EvI (shearRing ε (ringOfCells C)) (Cd.length + i + 1) evs' := by
  have hdist : ∀ i j, i < C.length → j < C.length →
      (shearRing ε (ringOfCells C)).x i = (shearRing ε (ringOfCells C)).x j → i = j :=
    fun i j hi hj e => hSh.ring.distinct i j hi hj e
  have hm0 : 0 < poly.size := by omega
  obtain ⟨e1, e2, e3, hle⟩ := block_facts hC hi
  have hjp := Nat.mod_lt (i + poly.size - 1) hm0
  have hjn := Nat.mod_lt (i + 1) hm0
  obtain ⟨p1, -, -, -⟩ := block_facts hC hjp
  obtain ⟨n1, -, -, -⟩ := block_facts hC hjn
  have hgl : Cd.length + i < C.length := by omega
  have hpn : (ringOfCells C).prv (Cd.length + i) < C.length := by rw [e2]; omega
  have hnn : (ringOfCells C).nxt (Cd.length + i) < C.length := by rw [e3]; omega
  have hpt : (poly.map Fq).getD i dummyPt = Fq ((ringOfCells C).pt (Cd.length + i)) := by
    rw [getD_map_Fq _ hi, e1]
  have hprev : (poly.map Fq).getD ((i + poly.size - 1) % poly.size) dummyPt =
      Fq ((ringOfCells C).pt ((ringOfCells C).prv (Cd.length + i))) := by
    rw [getD_map_Fq _ hjp, e2, p1]
  have hnext : (poly.map Fq).getD ((i + 1) % poly.size) dummyPt =
      Fq ((ringOfCells C).pt ((ringOfCells C).nxt (Cd.length + i))) := by
    rw [getD_map_Fq _ hjn, e3, n1]
  have hxp : (shearRing ε (ringOfCells C)).x ((ringOfCells C).prv (Cd.length + i)) ≠ (shearRing ε (ringOfCells C)).x (Cd.length + i) := by
    intro e
    have := hdist _ _ (by rw [e2]; omega) hgl e
    rw [e2] at this
    exact mod_prev_ne_self h3 hi (by omega)
  have hxn : (shearRing ε (ringOfCells C)).x ((ringOfCells C).nxt (Cd.length + i)) ≠ (shearRing ε (ringOfCells C)).x (Cd.length + i) := by
    intro e
    have := hdist _ _ (by rw [e3]; omega) hgl e
    rw [e3] at this
    exact mod_next_ne_self h3 hi (by omega)
  have hv : validPt seen ((poly.map Fq).getD i dummyPt) = .ok ((poly.map Fq).getD i dummyPt :: seen) := by
    refine (validPt_ok_iff _ _ _).mpr ⟨by rw [hpt]; rfl, ?_, rfl⟩
    intro q hq
    obtain ⟨j, hj, rfl⟩ := hS q hq
    rw [hpt, Geo.Pt.eq_fin]
    simp only [decide_eq_false_iff_not, not_and]
    intro h h'
    have hpe : (ringOfCells C).pt j = (ringOfCells C).pt (Cd.length + i) := Prod.ext h h'
    have := hdist j _ (by omega) hgl (by show (shear ε _).1 = (shear ε _).1; rw [hpe])
    omega
  have hcell := cell_at hC hi
  have hpush : (vertsOf (C.take (Cd.length + i))).push
      ⟨(poly.map Fq).getD i dummyPt, Cd.length + (i + poly.size - 1) % poly.size,
        Cd.length + (i + 1) % poly.size⟩ = vertsOf (C.take (Cd.length + i + 1)) := by
    rw [← vertsOf_take_succ C hcell, getD_map_Fq _ hi]
    rfl
  have hne : ∀ a ∈ evs, (shearRing ε (ringOfCells C)).x a.1 ≠ (shearRing ε (ringOfCells C)).x (Cd.length + i) := by
    intro a ha e
    have h1 := (hE.keys a ha).1
    have := hdist a.1 _ (by omega) hgl e
    omega
  by_cases hst : IsStart (shearRing ε (ringOfCells C)) (Cd.length + i)
  · -- a Start vertex
    refine ⟨qIns (shearRing ε (ringOfCells C)) (Cd.length + i) evs, ?_, ?_, ?_, ?_⟩
    · have hk : fromTriplet ((poly.map Fq).getD i dummyPt)
          ((poly.map Fq).getD ((i + poly.size - 1) % poly.size) dummyPt)
          ((poly.map Fq).getD ((i + 1) % poly.size) dummyPt) = some .start := by
        rw [hpt, hprev, hnext]
        exact ftV_startX hSh hgl hpn hnn hst.1 hst.2
      rw [sbV_startG hSh (poly.map Fq) poly.size Cd.length i seen _ hv hk hpt
        (by show (vertsOf _).size = _; rw [vertsOf_size, List.length_take]; omega) hgl
        (fun a ha => by have := (hE.keys a ha).1; show a.1 < C.length; omega) ?_ hne]
      · rw [hpt]
        show Except.ok (_, ({ stS C (Cd.length + i) evs with
          verts := (vertsOf (C.take (Cd.length + i))).push _, events := _ } : St XQ)) = _
        rw [← hpt, hpush]
        rfl
      · intro a ha
        have h1 : a.1 < Cd.length + i := (hE.keys a ha).1
        have h2 : a.1 < (C.take (Cd.length + i)).length := by rw [List.length_take]; omega
        have h3 : (C.take (Cd.length + i))[a.1]? = C[a.1]? := List.getElem?_take_of_lt h1
        have h4 : C[a.1]? = some C[a.1] := List.getElem?_eq_getElem (by omega)
        refine ⟨toVtx C[a.1], ?_, ?_⟩
        · show (vertsOf _)[a.1]? = _
          unfold vertsOf
          rw [List.getElem?_toArray, List.getElem?_map, h3, h4]
          rfl
        · show Fq _ = _
          rw [(ring_cell h4).1]
    · exact sorted_qIns _ _ hE.sorted hne
    · intro a ha
      rcases (mem_qIns _ _ a).mp ha with rfl | ha
      · exact ⟨by show Cd.length + i < _; omega, rfl⟩
      · exact ⟨by have := (hE.keys a ha).1; omega, (hE.keys a ha).2⟩
    · intro v hv' hs
      rcases Nat.lt_succ_iff_lt_or_eq.mp hv' with h | rfl
      · exact (mem_qIns _ _ _).mpr (Or.inr (hE.starts v h hs))
      · exact (mem_qIns _ _ _).mpr (Or.inl rfl)
  · -- a Bend or an End vertex
    obtain ⟨k, hk, hks⟩ : ∃ k, fromTriplet ((poly.map Fq).getD i dummyPt)
        ((poly.map Fq).getD ((i + poly.size - 1) % poly.size) dummyPt)
        ((poly.map Fq).getD ((i + 1) % poly.size) dummyPt) = some k ∧ k ≠ .start := by
      rw [hpt, hprev, hnext]
      rcases lt_or_gt_of_ne hxp with h0 | h0 <;> rcases lt_or_gt_of_ne hxn with h1 | h1
      · exact ⟨_, ftV_endX hSh hgl hpn hnn h0 h1, by simp⟩
      · exact ⟨_, (ftV_bendX hSh hgl hpn hnn h0 h1).1, by simp⟩
      · exact ⟨_, (ftV_bendX hSh hgl hnn hpn h1 h0).2, by simp⟩
      · exact absurd ⟨h0, h1⟩ hst
    refine ⟨evs, ?_, hE.sorted, ?_, ?_⟩
    · rw [(sb_other (poly.map Fq) poly.size Cd.length i seen _ k hv hk hks).run, hpt]
      show Except.ok (_, ({ stS C (Cd.length + i) evs with
        verts := (vertsOf (C.take (Cd.length + i))).push _ } : St XQ)) = _
      rw [← hpt, hpush]
      rfl
    · intro a ha
      exact ⟨by have := (hE.keys a ha).1; omega, (hE.keys a ha).2⟩
    · intro v hv' hs
      rcases Nat.lt_succ_iff_lt_or_eq.mp hv' with h | rfl
      · exact hE.starts v h hs
      · exact absurd hs hst


/-- the vertex loop of one polygon -/
theorem setupV_poly_loop {C Cd Cr : List Cell} {poly : Array Q} (hSh : ShX (ringOfCells C) ε Vε)
    (hC : C = Cd ++ cellsOf Cd.length poly ++ Cr) (h3 : 3 ≤ poly.size) :
    ∀ (k i : Nat), i + k = poly.size → ∀ (seen : List (Pt XQ)) (evs : List (Nat × List Nat)),
      EvI (shearRing ε (ringOfCells C)) (Cd.length + i) evs → SeenOK (ringOfCells C) (Cd.length + i) seen →
      ∃ seen' evs', (forIn (List.range' i k 1) seen (setupBody (poly.map Fq) poly.size Cd.length)).run
          (stS C (Cd.length + i) evs) = .ok (seen', stS C (Cd.length + poly.size) evs') ∧
        EvI (shearRing ε (ringOfCells C)) (Cd.length + poly.size) evs' ∧
        SeenOK (ringOfCells C) (Cd.length + poly.size) seen' := by
  intro k
  induction k with
  | zero =>
    intro i hi seen evs hE hS
    have : i = poly.size := by omega
    subst this
    exact ⟨seen, evs, rfl, hE, hS⟩
  | succ k ih =>
    intro i hi seen evs hE hS
    have hin : i < poly.size := by omega
    obtain ⟨evs1, hrun, hE1⟩ := setupV_step hSh hC h3 hin hE hS
    have hS1 : SeenOK (ringOfCells C) (Cd.length + (i + 1))
        (Fq ((ringOfCells C).pt (Cd.length + i)) :: seen) := by
      intro q hq
      rcases List.mem_cons.mp hq with rfl | hq
      · exact ⟨Cd.length + i, by omega, rfl⟩
      · obtain ⟨j, hj, e⟩ := hS q hq
        exact ⟨j, by omega, e⟩
    obtain ⟨seen', evs', hl, hE', hS'⟩ := ih (i + 1) (by omega) _ evs1 hE1 hS1
    refine ⟨seen', evs', ?_, hE', hS'⟩
    rw [List.range'_succ, forIn_cons_run, hrun]
    exact hl

/-- the polygon loop -/
theorem setupV_polys {C : List Cell} (hSh : ShX (ringOfCells C) ε Vε) :
    ∀ (rest : List (Array Q)) (Cd : List Cell), C = Cd ++ cellsAll Cd.length rest →
      (∀ p ∈ rest, 3 ≤ p.size) → ∀ (seen : List (Pt XQ)) (evs : List (Nat × List Nat)),
      EvI (shearRing ε (ringOfCells C)) Cd.length evs → SeenOK (ringOfCells C) Cd.length seen →
      ∃ seen' evs', (forIn (rest.map (fun p => p.map Fq)) seen polyBody).run (stS C Cd.length evs) =
          .ok (seen', stS C C.length evs') ∧ EvI (shearRing ε (ringOfCells C)) C.length evs'
  | [], Cd, hC, _, seen, evs, hE, _ => by
    have : C.length = Cd.length := by rw [hC]; simp [cellsAll]
    rw [this]
    exact ⟨seen, evs, rfl, hE⟩
  | p :: r, Cd, hC, h3, seen, evs, hE, hS => by
    have hC1 : C = Cd ++ cellsOf Cd.length p ++ cellsAll (Cd.length + p.size) r := by
      rw [hC]; simp [cellsAll]
    have hp3 := h3 p List.mem_cons_self
    obtain ⟨seen1, evs1, hl, hE1, hS1⟩ := setupV_poly_loop hSh hC1 hp3 p.size 0 (by omega) seen evs hE hS
    have hlen : (Cd ++ cellsOf Cd.length p).length = Cd.length + p.size := by
      simp [cellsOf_length]
    have hC2 : C = (Cd ++ cellsOf Cd.length p) ++ cellsAll (Cd ++ cellsOf Cd.length p).length r := by
      rw [hlen]; exact hC1
    obtain ⟨seen', evs', hl2, hE2⟩ := setupV_polys hSh r (Cd ++ cellsOf Cd.length p) hC2
      (fun q hq => h3 q (List.mem_cons_of_mem _ hq)) seen1 evs1 (by rw [hlen]; exact hE1)
      (by rw [hlen]; exact hS1)
    refine ⟨seen', evs', ?_, hE2⟩
    rw [List.map_cons, forIn_cons_run]
    have hb : (polyBody (p.map Fq) seen).run (stS C Cd.length evs) =
        .ok (.yield seen1, stS C (Cd.length + p.size) evs1) := by
      unfold polyBody
      rw [run_bind, setupPolygon_eq]
      have hsz : (stS C Cd.length evs).verts.size = Cd.length := by
        show (vertsOf _).size = _
        rw [vertsOf_size, List.length_take]
        have : Cd.length ≤ C.length := by rw [hC]; simp
        omega
      have h3' : ¬ (p.map Fq).size < 3 := by rw [Array.size_map]; omega
      rw [if_neg h3', hsz, Array.size_map]
      have := hl
      rw [Nat.add_zero] at this
      rw [this]
      rfl
    rw [hb]
    rw [hlen] at hl2
    exact hl2

/-- **the set-up phase on a polygon list with pairwise different vertices** -/
theorem setupV_all (polys : List (Array Q)) (h3 : ∀ p ∈ polys, 3 ≤ p.size)
    (hSh : ShX (ringOf polys) ε Vε) :
    ∃ seen evs, (forIn (polys.map (fun p => p.map Fq)) ([] : List (Pt XQ)) polyBody).run (initSt : St XQ) =
        .ok (seen, stQ (vertsOf (cellsAll 0 polys)) evs) ∧
      EvI (shearRing ε (ringOf polys)) (cellsAll 0 polys).length evs := by
  obtain ⟨seen, evs, hl, hE⟩ := setupV_polys (C := cellsAll 0 polys) hSh polys [] rfl h3 [] []
    ⟨List.Pairwise.nil, fun a ha => (by cases ha), fun v hv => (by cases hv)⟩ (fun q hq => (by cases hq))
  refine ⟨seen, evs, ?_, hE⟩
  have e1 : (initSt : St XQ) = stS (cellsAll 0 polys) ([] : List Cell).length [] := rfl
  have e2 : stS (cellsAll 0 polys) (cellsAll 0 polys).length evs = stQ (vertsOf (cellsAll 0 polys)) evs := by
    unfold stS; rw [List.take_length]
  rw [e1, hl, e2]

end Cav.GenXVSetup
